//go:build go1.21

// C11: automatic memory management never frees or reuses live data.
//
// Every history of ownership operations (progs.OwnOps) up to the bound is rendered as one case
// function that prints an observation of everything reachable after every operation. The program
// is compiled by the real pipeline; the WAT text is instrumented (rcmon) so that every
// malloc / free / HeapAlloc / Block.Init / Block.Retain / Block.Release is reported to a host
// monitor holding the live-block set and a mirrored reference count. Each case runs twice
// (without and with free-time poisoning) and is compared with Go's output for the same source.
package main

import (
	"encoding/json"
	"fmt"
	"os"
	"runtime/pprof"
	"strings"
	"sync"

	"wa-lang.org/wa/internal/zzverif/mc"
	"wa-lang.org/wa/internal/zzverif/progs"
	"wa-lang.org/wa/internal/zzverif/rcmon"
	"wa-lang.org/wa/internal/zzverif/wrun"
)

type failure struct {
	class  string // defect class
	at     string // operation during which it was seen
	what   string
	replay map[string]interface{}
}

type histResult struct {
	h     progs.OwnHistory
	fails []failure
}

func atName(h progs.OwnHistory, mark int) string {
	switch {
	case mark == progs.OwnMarkExit:
		return "scope-exit"
	case mark < 0:
		return "entry"
	case mark/2 < len(h.Ops):
		n := progs.OwnOps[h.Ops[mark/2]].Name
		if mark%2 == 1 {
			return "observe-after:" + n
		}
		return n
	}
	return fmt.Sprintf("mark%d", mark)
}

// lineAt: the operation whose observation line (index) differs.
func lineAt(h progs.OwnHistory, a, b string) string {
	la, lb := strings.Split(a, "\n"), strings.Split(b, "\n")
	for i := 0; i < len(la) || i < len(lb); i++ {
		if i >= len(la) || i >= len(lb) || la[i] != lb[i] {
			if i < len(h.Ops) {
				return progs.OwnOps[h.Ops[i]].Name
			}
			return "scope-exit"
		}
	}
	return "?"
}

func clip(s string) string {
	if len(s) > 300 {
		return s[:300] + "…"
	}
	return s
}

func main() {
	if mc.IsWorker() {
		mc.WorkerMain(rcmon.HandleJob)
		return
	}
	if len(os.Args) > 2 && os.Args[1] == "probe" {
		probe(os.Args[2])
		return
	}
	if len(os.Args) > 2 && os.Args[1] == "gen" { // print the program for the given patterns ("op;op;op", prefix "seeded:")
		var sel []progs.OwnHistory
		for _, pat := range os.Args[2:] {
			h := progs.OwnHistory{}
			if strings.HasPrefix(pat, "seeded:") {
				h.Seeded, pat = true, strings.TrimPrefix(pat, "seeded:")
			}
			for _, n := range strings.Split(pat, ";") {
				k := progs.OwnOpIndex(n)
				if k < 0 {
					fmt.Println("unknown op", n)
					os.Exit(2)
				}
				h.Ops = append(h.Ops, k)
			}
			sel = append(sel, h)
		}
		fmt.Print(progs.OwnProgram(sel))
		return
	}
	r := mc.Start("C11")
	// bounds: history length over (full alphabet, core alphabet, deep = the 16-operation subset
	// progs.OwnDeepOps), per initial state
	fullLen, coreLen, deepLen := mc.Pick(r, 2, 3), mc.Pick(r, 3, 3), mc.Pick(r, 3, 4)
	fullSeeded, coreSeeded := mc.Pick(r, 2, 2), mc.Pick(r, 2, 3)
	casesPerProgram := 160 // upper bound; see balanced()
	r.Rule("every history of <= full_len ownership operations over the full alphabet (55 operations: the 21 core operations plus identity / no-op / empty-operand variants, string and slice aliases, swaps, field addresses, maps keyed by heap strings and by structs holding them, interface equality) and every history of <= core_len operations over the core alphabet (<= deep_len over the 16-operation subset OwnDeepOps), from two initial states (all zero; seeded with nodes, a 2-element slice, a map entry and an aliased heap string); one case function per history with an observation of all reachable data after every operation; each case runs on the real compiled program with instrumented runtime (monitor: live set + mirrored reference counts) without and with 0xA5 poisoning at free, and is compared with Go; distinct = distinct Go outputs")
	r.Bound("ops_full", len(progs.OwnOps))
	r.Bound("ops_core", progs.OwnCoreOps)
	r.Bound("zero_init_full_len", fullLen)
	r.Bound("zero_init_core_len", coreLen)
	r.Bound("zero_init_deep_len", deepLen)
	r.Bound("ops_deep", len(progs.OwnDeepOps()))
	r.Bound("seeded_init_full_len", fullSeeded)
	r.Bound("seeded_init_core_len", coreSeeded)
	r.Assume("every operation is guarded so that Go never panics (p.next only when p != nil, reslice only when len > 0, ...): every history is in the domain")
	r.Assume("boxing a nil pointer into an interface is excluded (i=p stores nil when p == nil): Wa makes the interface itself nil where Go keeps a typed nil - a Go/Wa semantic difference of the C01 kind, not a memory-management event")
	r.Assume("retain/release of addresses below $__heap_base (static data) are not heap events")
	r.Assume("reference cycles may leak (reference counting); leaking is not a C11 violation")
	r.Assume("the allocator itself (C10) is trusted to read/write only block headers: poisoning covers exactly the bytes requested from malloc")

	hs := progs.OwnSpace(fullLen, coreLen, deepLen, false)
	hs = append(hs, progs.OwnSpace(fullSeeded, coreSeeded, 0, true)...)
	if f := os.Getenv("C11_OPS"); f != "" { // debugging / mutant demonstration: restrict the alphabet
		hs = progs.OwnRestrict(hs, f)
		r.Cap("alphabet restricted by C11_OPS=" + f)
	}
	r.Bound("histories", len(hs))

	pool := mc.NewPool(mc.NWorkers(), nil)
	defer pool.Close()
	rcmon.InstallRetire(pool)

	casesPerProgram = balanced(len(hs), casesPerProgram)
	var spans [][2]int
	for lo := 0; lo < len(hs); lo += casesPerProgram {
		spans = append(spans, [2]int{lo, min(lo+casesPerProgram, len(hs))})
	}
	results := make([]histResult, len(hs))

	// Go reference for every program (cached by source hash), concurrently with the Wa side.
	// The Go programs use the initial packing; the Wa side may re-pack (bisection, hangs).
	goRes := make([][]wrun.CaseResult, len(spans))
	goErr := make([]error, len(spans))
	var wg sync.WaitGroup
	wg.Add(1)
	go func() {
		defer wg.Done()
		mc.ParallelFor(len(spans), func(i int) {
			goRes[i], goErr[i] = wrun.GoRef(progs.OwnProgram(hs[spans[i][0]:spans[i][1]]), spans[i][1]-spans[i][0])
		})
	}()

	rn := &rcmon.Runner{Pool: pool, Abort: true, Poison: []bool{false, true}, PerProgram: casesPerProgram, Expired: r.Expired,
		Render: func(idx []int) string {
			sel := make([]progs.OwnHistory, len(idx))
			for k, c := range idx {
				sel[k] = hs[c]
			}
			return progs.OwnProgram(sel)
		}}
	outs := rn.Run(len(hs))
	if rn.Capped != "" {
		r.Cap(rn.Capped)
	}
	wg.Wait()

	// evaluation
	for pi, sp := range spans {
		if goErr[pi] != nil {
			r.HarnessError("Go reference failed for program %d: %v", pi, goErr[pi])
			continue
		}
		for i := sp[0]; i < sp[1]; i++ {
			h := hs[i]
			g := goRes[pi][i-sp[0]]
			res := &results[i]
			res.h = h
			if g.Status != "ok" {
				r.HarnessError("history %s: Go reference status %s (operations are meant to be total)", h.Pattern(), g.Status)
				continue
			}
			// model cross-check (the model is what C12 relies on)
			if progs.OwnCycleFree(h) == strings.Contains(g.Out, "~") {
				r.HarnessError("heap-graph model disagrees with Go on cycle-freeness of %s (Go output %q)", h.Pattern(), g.Out)
			}
			r.Distinct(g.Out)
			base := map[string]interface{}{"history": h.Names(), "seeded": h.Seeded, "go_output": g.Out, "case_source": progs.OwnCase(0, h)}
			mk := func(extra map[string]interface{}) map[string]interface{} {
				m := map[string]interface{}{}
				for k, v := range base {
					m[k] = v
				}
				for k, v := range extra {
					m[k] = v
				}
				return m
			}
			o := outs[i]
			if o.NotRun {
				continue
			}
			if o.Modes == nil {
				r.Evals.Add(1)
				res.fails = append(res.fails, failure{"pipeline-failure", "compile", "Go runs the history, the Wa pipeline fails: " + clip(o.Fail), mk(map[string]interface{}{"error": o.Fail})})
				continue
			}
			r.Evals.Add(2)
			plain, pois := o.Modes[0], o.Modes[1]
			for mi, cr := range []rcmon.CallResult{plain, pois} {
				mode := []string{"plain", "poisoned"}[mi]
				for _, v := range cr.Violations {
					res.fails = append(res.fails, failure{v.Class, atName(h, v.Mark), fmt.Sprintf("monitor (%s run): %s", mode, v.Detail),
						mk(map[string]interface{}{"mode": mode, "violation": v, "wa_output": cr.Out})})
				}
			}
			if plain.Status == "hang" || pois.Status == "hang" {
				hm, mode := plain, "plain"
				if plain.Status != "hang" {
					hm, mode = pois, "poisoned"
				}
				res.fails = append(res.fails, failure{"hang", atName(h, hm.Mark), fmt.Sprintf("the case does not return (%s run; reproduced alone %d/5 times): %s", mode, o.HangRep, clip(hm.Err)),
					mk(map[string]interface{}{"mode": mode, "err": hm.Err, "wa_output": hm.Out})})
			}
			if plain.Status == "hang" || pois.Status == "hang" || pois.Status == "skipped" {
				// outputs are incomplete: only the monitor verdicts and the hang count
			} else if plain.Status != "ok" {
				res.fails = append(res.fails, failure{"trap", lineAt(h, plain.Out, g.Out), fmt.Sprintf("Go prints %q; Wa traps: %s (output so far %q)", clip(g.Out), plain.Err, clip(plain.Out)),
					mk(map[string]interface{}{"wa_output": plain.Out, "wa_err": plain.Err})})
			} else if plain.Out != g.Out {
				res.fails = append(res.fails, failure{"output-differs-from-go", lineAt(h, plain.Out, g.Out), fmt.Sprintf("Go prints %q, Wa prints %q", clip(g.Out), clip(plain.Out)),
					mk(map[string]interface{}{"wa_output": plain.Out})})
			}
			if plain.Status == "hang" || pois.Status == "hang" || pois.Status == "skipped" {
			} else if pois.Status != plain.Status || pois.Out != plain.Out {
				res.fails = append(res.fails, failure{"poison-changes-output", lineAt(h, pois.Out, plain.Out), fmt.Sprintf("without poisoning %q (%s), with freed memory overwritten by 0xA5 %q (%s %s)", clip(plain.Out), plain.Status, clip(pois.Out), pois.Status, pois.Err),
					mk(map[string]interface{}{"wa_output": plain.Out, "wa_output_poisoned": pois.Out, "poisoned_err": pois.Err})})
			}
			if len(res.fails) > 1 {
				// the first failure (monitor verdicts in order of occurrence, then hang, trap,
				// output differences) is the cause; the rest are consequences kept in the replay
				var also []string
				for _, f := range res.fails[1:] {
					also = append(also, f.class+"|at="+f.at)
				}
				res.fails = res.fails[:1]
				res.fails[0].replay["consequences"] = also
			}
			if len(res.fails) == 0 && r.WantSample() && i%997 == 5 {
				r.Sample(map[string]interface{}{"history": h.Names(), "seeded": h.Seeded, "output_go_wa_poisoned": g.Out})
			}
		}
	}

	// Report only subsequence-minimal failing histories per (class, at): a longer history that
	// contains a failing shorter one (as a subsequence, same initial state) with the same class
	// and faulting operation is the same defect. Every subsequence is itself enumerated.
	failSig := map[string]map[string]bool{}
	for i := range results {
		for _, f := range results[i].fails {
			p := results[i].h.Pattern()
			if failSig[p] == nil {
				failSig[p] = map[string]bool{}
			}
			failSig[p][f.class+"|"+f.at] = true
		}
	}
	nfailing := 0
	for i := range results {
		res := &results[i]
		if len(res.fails) > 0 {
			nfailing++
		}
		for _, f := range res.fails {
			sig := f.class + "|" + f.at
			if hasFailingSub(res.h, sig, failSig) {
				continue
			}
			if f.at == "entry" { // before the first operation: the history is irrelevant
				r.Report(f.class+"|at=entry|init="+map[bool]string{false: "zero", true: "seeded"}[res.h.Seeded], f.what, f.replay)
				continue
			}
			r.Report(f.class+"|at="+f.at+"|hist="+res.h.Pattern(), f.what, f.replay)
		}
	}
	r.Extra("failing_histories", nfailing)
	r.Extra("monitor_events", map[string]int64{"malloc": rn.NMalloc, "free": rn.NFree, "retain": rn.NRetain, "release": rn.NRelease})
	r.Extra("programs_compiled", rn.Programs)
	r.Extra("worker_go_heap_peak_MB", rn.WorkerPeakMB)
	r.Extra("hangs_not_reproduced_alone", rn.UnreproducedHangs)
	if rn.Capped == "" && (rn.NRetain == 0 || rn.NFree == 0 || rn.NMalloc == 0) {
		r.HarnessError("vacuous: the monitor saw malloc=%d free=%d retain=%d release=%d", rn.NMalloc, rn.NFree, rn.NRetain, rn.NRelease)
	}
	if rn.Capped == "" && r.DistinctCount() < len(hs)/100 {
		r.HarnessError("vacuous: only %d distinct outputs for %d histories", r.DistinctCount(), len(hs))
	}
	r.Finish()
}

// balanced: the largest program size <= maxPer that splits n cases into a multiple of the worker
// count (whole rounds, no straggler round).
func balanced(n, maxPer int) int {
	w := mc.NWorkers()
	rounds := (n + w*maxPer - 1) / (w * maxPer)
	if rounds < 1 {
		rounds = 1
	}
	return max(1, (n+w*rounds-1)/(w*rounds))
}

func hasFailingSub(h progs.OwnHistory, sig string, failSig map[string]map[string]bool) bool {
	n := len(h.Ops)
	for mask := 1; mask < (1<<n)-1; mask++ {
		sub := progs.OwnHistory{Seeded: h.Seeded}
		for k := 0; k < n; k++ {
			if mask&(1<<k) != 0 {
				sub.Ops = append(sub.Ops, h.Ops[k])
			}
		}
		if failSig[sub.Pattern()][sig] {
			return true
		}
	}
	return false
}

func tail(s string, n int) string {
	if len(s) > n {
		return s[len(s)-n:]
	}
	return s
}

// probe: compile a Go-syntax source file, instrument, run every case in both modes and print
// what the monitor saw (debugging / replay aid).
func probe(path string) {
	src, err := os.ReadFile(path)
	if err != nil {
		fmt.Println(err)
		os.Exit(2)
	}
	if pf := os.Getenv("C11_PROF"); pf != "" {
		f, _ := os.Create(pf)
		pprof.StartCPUProfile(f)
		defer pprof.StopCPUProfile()
	}
	if wf := os.Getenv("C11_WAT"); wf != "" { // also write the (instrumented) WAT text
		if wa, err := wrun.Go2Wa(string(src)); err == nil {
			if _, _, wat, err := rcmon.Build("batch.wa", wa, rcmon.OwnMarks); err == nil {
				os.WriteFile(wf, wat, 0o644)
			}
		}
	}
	n := wrun.NumCases(string(src))
	raw, _ := json.Marshal(rcmon.Job{Src: string(src), N: n, Poison: []bool{false, true}, Record: true})
	jr := rcmon.HandleJob(raw).(rcmon.JobResult)
	if jr.Err != "" {
		fmt.Println("ERROR", jr.ErrKind, jr.Err)
		os.Exit(1)
	}
	for i, ms := range jr.Cases {
		for m, c := range ms {
			fmt.Printf("== case %d poison=%v status=%s %s\n%s", i, m == 1, c.Status, c.Err, c.Out)
			for _, v := range c.Violations {
				fmt.Printf("   VIOLATION %s mark=%d %s\n     trace: %s\n", v.Class, v.Mark, v.Detail, strings.Join(v.Trace, " "))
			}
			for _, rec := range c.Records {
				fmt.Printf("   record kind=%d k=%d live=%d bytes=%d heap_ptr=%d\n", rec.Kind, rec.K, rec.Live, rec.Bytes, rec.HeapPtr)
			}
		}
	}
	fmt.Printf("timing ms: %v\n", jr.TimingMs)
	fmt.Printf("events: malloc=%d free=%d retain=%d release=%d\n", jr.NMalloc, jr.NFree, jr.NRetain, jr.NRelease)
}
