//go:build go1.21

// C16: well-typed programs compile to valid WebAssembly without internal errors.
//
// The `types` family (engine/progs/fam_types.go): every type of bounded constructor depth in
// each of nine contexts, each program touching the value; plus the corpus of the differential
// execution checks (arith / ctrl families) as plain well-typed programs. Every program goes
// through the real pipeline (go2wa -> api.BuildFile -> watutil.Wat2Wasm) in a worker
// subprocess; the binary is validated by V8 (node). A packed program that fails is split until
// every failing (type, context) item is alone.
package main

import (
	"encoding/json"
	"fmt"
	goast "go/ast"
	goparser "go/parser"
	gotoken "go/token"
	gotypes "go/types"
	"os"
	"regexp"
	"sort"
	"strings"
	"sync"
	"time"

	"wa-lang.org/wa/api"
	"wa-lang.org/wa/internal/wat/watutil"
	"wa-lang.org/wa/internal/zzverif/mc"
	"wa-lang.org/wa/internal/zzverif/progs"
	"wa-lang.org/wa/internal/zzverif/watgen"
	"wa-lang.org/wa/internal/zzverif/wrun"
)

type job struct {
	Src  string // Go-syntax (WaGo) source, converted by go2wa; or
	IsWa bool   // Src is already .wa text
}

type jobRes struct {
	Stage string // ok | go2wa | frontend | compile-error | panic | wat2wasm | wat2wasm-panic
	Msg   string
	Wasm  []byte
	WatN  int
}

func handle(raw json.RawMessage) interface{} {
	var j job
	if err := json.Unmarshal(raw, &j); err != nil {
		return jobRes{Stage: "bad-job", Msg: err.Error()}
	}
	wa := j.Src
	var err error
	if !j.IsWa {
		wa, err = wrun.Go2Wa(j.Src)
		if err != nil {
			return jobRes{Stage: "go2wa", Msg: err.Error()}
		}
	}
	var wat []byte
	if p := mc.Recover(func() { _, wat, _, err = api.BuildFile(api.DefaultConfig(), "c16.wa", wa) }); p != "" {
		return jobRes{Stage: "panic", Msg: p}
	}
	if err != nil {
		// front end (out of the property's domain) or back end?
		var lerr error
		if p := mc.Recover(func() { _, lerr = api.LoadProgramFile(api.DefaultConfig(), "c16.wa", wa) }); p != "" {
			return jobRes{Stage: "panic", Msg: "loader: " + p}
		}
		if lerr != nil {
			return jobRes{Stage: "frontend", Msg: lerr.Error()}
		}
		return jobRes{Stage: "compile-error", Msg: err.Error()}
	}
	var wasm []byte
	if p := mc.Recover(func() { wasm, err = watutil.Wat2Wasm("c16.wat", wat) }); p != "" {
		return jobRes{Stage: "wat2wasm-panic", Msg: p, WatN: len(wat)}
	}
	if err != nil {
		return jobRes{Stage: "wat2wasm", Msg: err.Error(), WatN: len(wat)}
	}
	return jobRes{Stage: "ok", Wasm: wasm, WatN: len(wat)}
}

// outcome of one program after worker + V8
type outcome struct {
	stage string // ok | frontend | go2wa | compile-error | panic | exit | crash | hang | wat2wasm | wat2wasm-panic | invalid-wasm
	msg   string
}

var (
	reItemName = regexp.MustCompile(`T\d+(N\d+|[gprmS])?\b`)
	reCallName = regexp.MustCompile(`K\d+(N\d+|[fMIdt])?\b`)
	rePos      = regexp.MustCompile(`(?:[^\s:"]*/)?([\w-]+\.(?:go|wa|wat)):\d+(:\d+)?:?`)
	reNum      = regexp.MustCompile(`\b\d+\b`)
	reHex      = regexp.MustCompile(`0x[0-9a-fA-F]+`)
	reCase     = regexp.MustCompile(`Case\d+`)
	reFatal    = regexp.MustCompile(`(?m)^\S*\.go:\d+: .*$`)
)

// normMsg makes a compiler / validator message canonical: no positions, item names, numbers, and
// the four basic types spelled B.
func normMsg(s string) string {
	s = strings.TrimSpace(s)
	if i := strings.IndexByte(s, '\n'); i >= 0 {
		s = s[:i]
	}
	s = rePos.ReplaceAllString(s, "$1:")
	s = reItemName.ReplaceAllString(s, "T")
	s = reCase.ReplaceAllString(s, "Case")
	s = reHex.ReplaceAllString(s, "#")
	s = reNum.ReplaceAllString(s, "#")
	for _, b := range []string{"int32", "float64", "string", "bool", "i32", "f64"} {
		s = strings.ReplaceAll(s, b, "B")
	}
	if len(s) > 120 {
		s = s[:120]
	}
	return s
}

// normMsgCalls: the calls family also uses int64 and float32 and its own item names.
func normMsgCalls(s string) string {
	s = reCallName.ReplaceAllString(s, "K")
	s = normMsg(s)
	for _, b := range []string{"int64", "float32", "i64", "f32"} {
		s = strings.ReplaceAll(s, b, "B")
	}
	return s
}

// classify a dead worker from its stderr: logger.Fatal prints "<file>.go:<line>: <msg>" and exits.
func classifyCrash(stderr string) outcome {
	if strings.Contains(stderr, "fatal error:") || strings.Contains(stderr, "goroutine ") {
		for _, l := range strings.Split(stderr, "\n") {
			if strings.HasPrefix(l, "panic:") || strings.HasPrefix(l, "fatal error:") {
				return outcome{"crash", l}
			}
		}
		return outcome{"crash", tailS(stderr, 200)}
	}
	if m := reFatal.FindAllString(stderr, -1); len(m) > 0 {
		return outcome{"exit", m[len(m)-1]}
	}
	return outcome{"exit", tailS(strings.TrimSpace(stderr), 200)}
}

func tailS(s string, n int) string {
	if len(s) > n {
		return s[len(s)-n:]
	}
	return s
}

type runner struct {
	r    *mc.Run
	pool *mc.Pool
	v8   *watgen.V8
}

// runPrograms runs the sources and returns their outcomes.
func (x *runner) runPrograms(srcs []string, isWa bool) []outcome {
	out := make([]outcome, len(srcs))
	wasms := make([][]byte, len(srcs))
	var mu sync.Mutex
	x.pool.Run(len(srcs), func(i int) interface{} { return job{Src: srcs[i], IsWa: isWa} }, 10*time.Minute, func(res mc.Result) {
		x.r.Evals.Add(1)
		var o outcome
		switch res.Status {
		case "ok":
			var jr jobRes
			if err := json.Unmarshal(res.Out, &jr); err != nil {
				o = outcome{"crash", "bad worker output: " + err.Error()}
				break
			}
			o = outcome{jr.Stage, jr.Msg}
			if jr.Stage == "ok" {
				mu.Lock()
				wasms[res.Index] = jr.Wasm
				mu.Unlock()
			}
		case "hang":
			o = outcome{"hang", tailS(res.Stderr, 200)}
		default:
			o = classifyCrash(res.Stderr)
		}
		out[res.Index] = o
	})
	var idx []int
	var mods [][]byte
	for i, w := range wasms {
		if w != nil {
			idx = append(idx, i)
			mods = append(mods, w)
		}
	}
	for at := 0; at < len(mods); at += 64 {
		end := min(at+64, len(mods))
		vr, err := x.v8.Inspect(mods[at:end])
		if err != nil {
			x.r.HarnessError("V8: %v", err)
			return out
		}
		for k, v := range vr {
			x.r.Evals.Add(1)
			if !v.Valid {
				out[idx[at+k]] = outcome{"invalid-wasm", v.Error}
			}
		}
	}
	return out
}

// goCheck: the Go type checker must accept the program (the generator only writes well-typed
// programs; this pins the domain independently of Wa's checker).
func goCheck(src string) error {
	fset := gotoken.NewFileSet()
	f, err := goparser.ParseFile(fset, "p.go", src, 0)
	if err != nil {
		return err
	}
	conf := gotypes.Config{Sizes: &gotypes.StdSizes{WordSize: 4, MaxAlign: 4}}
	_, err = conf.Check("main", fset, []*goast.File{f}, nil)
	return err
}

type failure struct {
	item progs.TypeItem
	out  outcome
}

// runItemFamily compiles and validates every item of a family packed into programs, isolates the
// failing items and reports them under C16|<fam>|<stage>|<message>|<item.Outer>|<item.Context>.
func (x *runner) runItemFamily(fam string, items []progs.TypeItem, norm func(string) string) int {
	r := x.r
	pre, what := "", "type"
	ctxOf := func(it progs.TypeItem) string { return it.Context }
	if fam != "types" {
		pre, what = fam+"_", "call of"
		ctxOf = func(it progs.TypeItem) string { return it.Outer + " (" + it.Context + ")" }
	}
	// pack items of the same context and constructor skeleton together: a defect of a (skeleton,
	// context) class then fails whole programs instead of one item in each of many programs
	order := make([]int, len(items))
	for i := range order {
		order[i] = i
	}
	sort.SliceStable(order, func(a, b int) bool {
		ia, ib := items[order[a]], items[order[b]]
		if ia.Context != ib.Context {
			return ia.Context < ib.Context
		}
		if ia.Outer != ib.Outer {
			return ia.Outer < ib.Outer
		}
		return ia.Skel < ib.Skel
	})
	per := 32
	var batches [][]progs.TypeItem
	for lo := 0; lo < len(order); lo += per {
		var b []progs.TypeItem
		for _, k := range order[lo:min(lo+per, len(order))] {
			b = append(b, items[k])
		}
		batches = append(batches, b)
	}

	var failures []failure
	var notes []failure
	nOK := 0
	render := func(bs [][]progs.TypeItem, wa bool) []string {
		srcs := make([]string, len(bs))
		mc.ParallelFor(len(bs), func(i int) { srcs[i] = progs.RenderTypeProgram(bs[i], wa) })
		return srcs
	}
	first := true
	for round := 0; len(batches) > 0; round++ {
		if r.Expired() {
			r.Cap("deadline")
			break
		}
		srcs := render(batches, true)
		if first {
			// Go must accept every generated program (the Go rendering of the same items)
			gsrcs := render(batches, false)
			var mu sync.Mutex
			mc.ParallelFor(len(gsrcs), func(i int) {
				if err := goCheck(gsrcs[i]); err != nil {
					mu.Lock()
					r.HarnessError("generator wrote a program Go rejects: %v (first item %s in %s)", err, batches[i][0].Shape, batches[i][0].Context)
					mu.Unlock()
				}
			})
			first = false
		}
		outs := x.runPrograms(srcs, true)
		var next [][]progs.TypeItem
		for i, o := range outs {
			b := batches[i]
			if o.stage == "ok" {
				nOK += len(b)
				for _, it := range b {
					r.Distinct("ok|" + it.Skel + "|" + it.Context)
				}
				if len(b) > 0 && r.WantSample() {
					r.Sample(map[string]any{"items": len(b), "first_item": b[0].Shape + " in " + b[0].Context, "outcome": "compiles, V8 validates", "wa_source_head": clip(srcs[i], 400)})
				}
				continue
			}
			if len(b) == 1 {
				if o.stage == "frontend" || o.stage == "go2wa" {
					notes = append(notes, failure{b[0], o})
				} else {
					failures = append(failures, failure{b[0], o})
				}
				continue
			}
			// items are packed by (context, constructor) class, so failing items cluster: a failing
			// program is cut into quarters, a failing quarter into single items
			if len(b) > 8 {
				q := (len(b) + 3) / 4
				for lo := 0; lo < len(b); lo += q {
					next = append(next, b[lo:min(lo+q, len(b))])
				}
			} else {
				for _, it := range b {
					next = append(next, []progs.TypeItem{it})
				}
			}
		}
		batches = next
	}

	// ---------------------------------------------------------------- report
	sort.Slice(failures, func(a, b int) bool { return failures[a].item.Index < failures[b].item.Index })
	sort.Slice(notes, func(a, b int) bool { return notes[a].item.Index < notes[b].item.Index })
	seen := map[string]bool{}
	confirmed := map[string]bool{} // (stage, message, constructor) classes re-run three more times
	classCount := map[string]int{}
	for _, f := range failures {
		class := f.out.stage + "|" + norm(f.out.msg) + "|" + f.item.Outer
		key := "C16|" + fam + "|" + class + "|" + f.item.Context
		r.Distinct(f.out.stage + "|" + f.item.Skel + "|" + f.item.Context)
		classCount[key]++
		if seen[key] {
			continue
		}
		seen[key] = true
		src := progs.RenderTypeProgram([]progs.TypeItem{f.item}, true)
		how := "failed alone"
		if !confirmed[class] {
			// the first witness of every (stage, message, constructor) class is re-run three more
			// times, alone: a crash must reproduce every time
			confirmed[class] = true
			conf := x.runPrograms([]string{src, src, src}, true)
			same := true
			for _, c := range conf {
				if c.stage != f.out.stage || norm(c.msg) != norm(f.out.msg) {
					same = false
				}
			}
			if !same {
				r.HarnessError("outcome of %s in %s is not reproducible: %v then %v", f.item.Shape, f.item.Context, f.out, conf)
				continue
			}
			how = "reproduced 4x alone"
		}
		r.Report(key, fmt.Sprintf("%s %s in context %s: %s: %s (Go accepts the program; %s)", what, f.item.Shape, ctxOf(f.item), f.out.stage, clip(f.out.msg, 300), how),
			map[string]any{"shape": f.item.Shape, "context": f.item.Context, "wa_source": src, "go_source": progs.RenderTypeProgram([]progs.TypeItem{f.item}, false), "stage": f.out.stage, "message": f.out.msg})
	}
	// notes: programs Go accepts and Wa's front end rejects
	noteClasses := map[string]int{}
	var noteList []string
	for _, n := range notes {
		k := n.out.stage + "|" + norm(n.out.msg) + "|" + n.item.Outer + "|" + n.item.Context
		if noteClasses[k] == 0 && len(noteList) < 40 {
			noteList = append(noteList, fmt.Sprintf("%s in %s: %s", n.item.Shape, n.item.Context, clip(n.out.msg, 160)))
		}
		noteClasses[k]++
		r.Distinct("note|" + k)
	}
	r.Extra(pre+"failing_items_per_key", classCount)
	r.Extra(pre+"items_ok", nOK)
	r.Extra(pre+"items_failing", len(failures))
	r.Extra(pre+"items_rejected_by_wa_front_end_but_accepted_by_go", len(notes))
	r.Extra(pre+"front_end_rejection_classes", len(noteClasses))
	r.Extra(pre+"front_end_rejection_examples", noteList)
	return nOK
}

func main() {
	if mc.IsWorker() {
		mc.WorkerMain(handle)
		return
	}
	r := mc.Start("C16")
	depth := mc.Pick(r, 2, 3)
	if s := os.Getenv("C16_DEPTH"); s != "" {
		fmt.Sscan(s, &depth)
	}
	r.Rule("every type of the grammar {int32,float64,string,bool} | *T | []T | [2]T | map[K]T | struct{a T; b U} | func(T) U | interface{} | named | named-with-method up to the constructor depth, in each of 9 contexts, each touching the value; the calls family: callee kind {func, method, closure, interface method} x use {defer, discarded expression statement, multi-assignment, return f()} x result list (1..3 results over int32,int64,float32,float64,string,bool and composite types); plus every program of the differential-execution corpus (progs.AllFamilies); each program through go2wa -> api.BuildFile -> watutil.Wat2Wasm in a worker process and the binary through V8's WebAssembly.validate; distinct = distinct (outcome stage, type skeleton, context) classes")
	r.Bound("constructor_depth", depth)
	r.Assume("domain: programs accepted by Go's type checker (go/types, 32-bit int) and by Wa's front end; a program Wa's front end rejects is recorded as a note, not as a violation")
	r.Assume("documented restrictions (docs/goals.md): no goroutines (`go`), no channels; complex numbers, reflection 'may have', method values 'may be absent': the type grammar uses none of them and corpus groups about method values / method expressions are excluded")
	r.Assume("from depth 2 on, the binary constructors (map, struct, func) take every type of the previous depth in one position and a representative in the other (int32; thorough: at depth 2 also string); pointer-receiver methods on every type Go allows as receiver base, value-receiver methods on the basic types and the depth-1 types over int32")
	r.Assume("programs are compiled and validated, not executed (execution is C01's subject)")

	v8, err := watgen.StartV8(mc.VerifDir())
	if err != nil {
		r.HarnessError("cannot start node: %v", err)
		r.Finish()
	}
	defer v8.Close()
	pool := mc.NewPool(mc.NWorkers(), nil)
	defer pool.Close()
	x := &runner{r, pool, v8}

	// ---------------------------------------------------------------- corpus
	if os.Getenv("C16_NOCORPUS") == "" {
		type cprog struct {
			fam    string
			name   string
			groups []progs.Group
		}
		var cps []cprog
		nExcluded := 0
		for _, f := range progs.AllFamilies(r.Thorough()) {
			// documented restriction (docs/goals.md: method values "may be absent"): groups about
			// method values / method expressions are outside the property's domain
			var keep []progs.Group
			for _, g := range f.Groups {
				n := strings.ToLower(g.Name)
				if strings.Contains(n, "method-value") || strings.Contains(n, "method-expression") || strings.Contains(n, "method value") || strings.Contains(n, "method expression") {
					nExcluded++
					continue
				}
				keep = append(keep, g)
			}
			f.Groups = keep
			for lo := 0; lo < len(f.Groups); lo += 12 {
				hi := min(lo+12, len(f.Groups))
				cps = append(cps, cprog{f.Name, fmt.Sprintf("%s#%d", f.Name, lo/12), f.Groups[lo:hi]})
			}
		}
		r.Bound("corpus_programs", len(cps))
		ngroups := 0
		for round := 0; len(cps) > 0; round++ {
			srcs := make([]string, len(cps))
			for i, cp := range cps {
				ss, _ := progs.RenderFamilyPrograms(progs.Family{Name: cp.fam, Groups: cp.groups}, len(cp.groups))
				srcs[i] = ss[0]
			}
			outs := x.runPrograms(srcs, false)
			var next []cprog
			for i, o := range outs {
				cp := cps[i]
				if o.stage == "ok" {
					ngroups += len(cp.groups)
					r.Distinct("corpus|ok|" + cp.fam)
					continue
				}
				if len(cp.groups) > 1 {
					// one failing case must not hide the others: re-run every group alone
					for gi := range cp.groups {
						next = append(next, cprog{cp.fam, cp.name + "/" + cp.groups[gi].Name, cp.groups[gi : gi+1]})
					}
					continue
				}
				if o.stage == "frontend" || o.stage == "go2wa" {
					// outside the domain; the differential checks report their own compile failures item by item
					r.Distinct("corpus|" + o.stage + "|" + cp.fam)
					continue
				}
				r.Report("C16|corpus|"+o.stage+"|"+cp.fam+"|"+normMsg(o.msg), fmt.Sprintf("corpus program %s (family %s, one group): %s: %s", cp.name, cp.fam, o.stage, clip(o.msg, 300)), map[string]any{"go_source": srcs[i]})
			}
			cps = next
		}
		r.Extra("corpus_groups_ok", ngroups)
		r.Extra("corpus_groups_excluded_method_values", nExcluded)
	}

	// ---------------------------------------------------------------- types family
	nreps := mc.Pick(r, 1, 2)
	r.Bound("binary_constructor_representatives", nreps)
	items := progs.TypeItems(depth, nreps)
	if s := os.Getenv("C16_LIMIT"); s != "" {
		var n int
		fmt.Sscan(s, &n)
		if n < len(items) {
			items = items[:n]
		}
	}
	r.Bound("type_items", len(items))
	r.Bound("types", len(items)/len(progs.TypeContexts))
	r.Bound("items_per_program", 32)
	nOK := 0
	if os.Getenv("C16_NOTYPES") == "" {
		nOK = x.runItemFamily("types", items, normMsg)
	}

	// ---------------------------------------------------------------- calls family
	if os.Getenv("C16_NOCALLS") == "" {
		citems := progs.CallItems(r.Thorough())
		if s := os.Getenv("C16_CALLS_FILTER"); s != "" {
			var sel []progs.TypeItem
			for _, it := range citems {
				if strings.Contains(it.Outer+" "+it.Shape, s) {
					sel = append(sel, it)
				}
			}
			citems = sel
			r.Cap("C16_CALLS_FILTER " + s)
		}
		r.Bound("call_items", len(citems))
		nOK += x.runItemFamily("calls", citems, normMsgCalls)
	}
	if nOK == 0 {
		r.HarnessError("vacuous: no item compiled")
	}
	r.Finish()
}

func clip(s string, n int) string {
	if len(s) > n {
		return s[:n] + "…"
	}
	return s
}
