//go:build go1.21

// C03 — wat2c C code behaves like the WebAssembly module it was translated from.
//
// Space: the executable module families of engine/watexec (the same calls C31 makes). Every unit
// is translated by the real wat2c.Wat2C with its own prefix, compiled as its own translation unit
// (`gcc -O1`; thorough: also `clang -O0`) and linked, a batch at a time, with c/driver.c and a
// generated glue file per unit (uniform thunks over the exported functions, the host side wat2c
// expects: <prefix>_memory_init / _memory_grow, recording import stubs). The driver runs as its own
// process: every call under sigsetjmp, a fresh instance = a forked child.
// Oracle: the same calls on V8 AND on the vendored wazero in both configurations; a call on which
// the engines disagree among themselves is not judged here (that is C31's finding).
// Compared per call: result bits, trap / no trap, hash of the whole linear memory, host trace.
package main

import (
	"bufio"
	"bytes"
	"context"
	"encoding/json"
	"fmt"
	"os"
	"os/exec"
	"path/filepath"
	"regexp"
	"runtime/debug"
	"sort"
	"strconv"
	"strings"
	"sync"
	"time"
	"unicode"

	"wa-lang.org/wa/internal/wat/watutil/wat2c"
	"wa-lang.org/wa/internal/zzverif/mc"
	"wa-lang.org/wa/internal/zzverif/watexec"
	"wa-lang.org/wa/internal/zzverif/watgen"
)

const ID = "C03"

// ---------------------------------------------------------------------------------------------
// the subset wat2c accepts: ctrl nests it refuses (frozen on the unchanged tree, 2026-09-22)

// wat2cRefuses names the reason wat2c is known to refuse (panic / assert) a ctrl nest, "" if it
// is in the accepted subset. Frozen: a refused nest that is later accepted is then checked like
// any other; an accepted nest that is later refused is a violation (the subset must not shrink
// silently).
func wat2cRefuses(c watgen.CtrlCase) string {
	depth := uint32(len(c.Kinds))
	for _, t := range c.Leaf.Targets {
		if t == depth {
			// findLabelName panics: the function body is not a label scope of wat2c
			return "!branch-to-function-level"
		}
	}
	if c.Result && (depth > 0 || c.Leaf.Op != watgen.OpReturn) {
		// wat2c has no stack-polymorphic typing: a valued block must still statically leave its
		// results after an unconditional branch (wat2c_func.go:195/219/246), br_if to a label with
		// results is refused (:354), and a loop label counts its results as branch operands
		return "!valued-construct"
	}
	return ""
}

func init() { watexec.Partitions["wat2c"] = wat2cRefuses }

// ---------------------------------------------------------------------------------------------
// naming contract of wat2c (utils.go: toCName)

func toCName(name string) string {
	var sb strings.Builder
	for _, c := range name {
		switch {
		case c >= '0' && c <= '9', c >= 'a' && c <= 'z', c >= 'A' && c <= 'Z', unicode.IsLetter(c):
			sb.WriteRune(c)
		default:
			sb.WriteRune('_')
		}
	}
	return sb.String()
}

func cType(t watgen.ValType) string {
	switch t {
	case watgen.I32:
		return "int32_t"
	case watgen.I64:
		return "int64_t"
	case watgen.F32:
		return "float"
	}
	return "double"
}

func letter(t watgen.ValType) byte {
	switch t {
	case watgen.I32:
		return 'i'
	case watgen.I64:
		return 'I'
	case watgen.F32:
		return 'f'
	}
	return 'F'
}

// toBits / fromBits: C statements converting between a typed variable and a uint64_t of raw bits.
func toBits(t watgen.ValType, v, dst string) string {
	switch t {
	case watgen.I32:
		return fmt.Sprintf("%s = (uint32_t)%s;", dst, v)
	case watgen.I64:
		return fmt.Sprintf("%s = (uint64_t)%s;", dst, v)
	case watgen.F32:
		return fmt.Sprintf("{ uint32_t b_; memcpy(&b_, &%s, 4); %s = b_; }", v, dst)
	}
	return fmt.Sprintf("{ uint64_t b_; memcpy(&b_, &%s, 8); %s = b_; }", v, dst)
}

func fromBits(t watgen.ValType, src, v string) string {
	switch t {
	case watgen.I32:
		return fmt.Sprintf("%s %s = (int32_t)(uint32_t)%s;", cType(t), v, src)
	case watgen.I64:
		return fmt.Sprintf("%s %s = (int64_t)%s;", cType(t), v, src)
	case watgen.F32:
		return fmt.Sprintf("%s %s; { uint32_t b_ = (uint32_t)%s; memcpy(&%s, &b_, 4); }", cType(t), v, src, v)
	}
	return fmt.Sprintf("%s %s; { uint64_t b_ = %s; memcpy(&%s, &b_, 8); }", cType(t), v, src, v)
}

// glue writes the per-unit glue translation unit.
func glue(u *watexec.Unit, prefix string) string {
	var b strings.Builder
	fmt.Fprintf(&b, "#include \"driver.h\"\n#include \"%s.h\"\n#include <string.h>\n\n", prefix)
	if u.HasMem || u.MemMax > 0 {
		fmt.Fprintf(&b, "void %s_memory_init(uint8_t **pp, int32_t *ps) { drv_memory_init(pp, ps, %d, %d); }\n", prefix, u.MemMin, u.MemMax)
		fmt.Fprintf(&b, "int32_t %s_memory_grow(uint8_t **pp, int32_t *ps, int32_t n) { return drv_memory_grow(pp, ps, n); }\n\n", prefix)
	}
	seen := map[string]bool{}
	for k, im := range u.Imports {
		name := prefix + "_" + toCName(im.Module+"."+im.Name)
		if seen[name] {
			continue
		}
		seen[name] = true
		ret := "void"
		var rt byte
		if len(im.Sig.Results) == 1 {
			ret, rt = cType(im.Sig.Results[0]), letter(im.Sig.Results[0])
		}
		var ps []string
		pt := make([]byte, len(im.Sig.Params))
		for i, t := range im.Sig.Params {
			ps = append(ps, fmt.Sprintf("%s a%d", cType(t), i))
			pt[i] = letter(t)
		}
		fmt.Fprintf(&b, "%s %s(%s) {\n  uint64_t a_[%d];\n", ret, name, strings.Join(ps, ", "), len(ps)+1)
		for i, t := range im.Sig.Params {
			fmt.Fprintf(&b, "  %s\n", toBits(t, fmt.Sprintf("a%d", i), fmt.Sprintf("a_[%d]", i)))
		}
		rts := "0"
		if rt != 0 {
			rts = "'" + string(rt) + "'"
		}
		fmt.Fprintf(&b, "  uint64_t r_ = drv_host(%d, \"%s.%s\", \"%s\", a_, %s);\n  (void)r_;\n", k, im.Module, im.Name, string(pt), rts)
		if rt != 0 {
			fmt.Fprintf(&b, "  %s\n  return x_;\n", fromBits(im.Sig.Results[0], "r_", "x_"))
		}
		b.WriteString("}\n\n")
	}
	for k, name := range u.FuncList {
		sig := u.Funcs[name].Sig
		fmt.Fprintf(&b, "static void t%d(const uint64_t *a, uint64_t *r) {\n  (void)a; (void)r;\n", k)
		var args []string
		for i, t := range sig.Params {
			fmt.Fprintf(&b, "  %s\n", fromBits(t, fmt.Sprintf("a[%d]", i), fmt.Sprintf("p%d", i)))
			args = append(args, fmt.Sprintf("p%d", i))
		}
		call := fmt.Sprintf("%s_%s(%s)", prefix, toCName(name), strings.Join(args, ", "))
		switch len(sig.Results) {
		case 0:
			fmt.Fprintf(&b, "  %s;\n", call)
		case 1:
			fmt.Fprintf(&b, "  %s x = %s;\n  %s\n", cType(sig.Results[0]), call, toBits(sig.Results[0], "x", "r[0]"))
		default:
			fmt.Fprintf(&b, "  __auto_type x = %s;\n", call)
			for i, t := range sig.Results {
				fmt.Fprintf(&b, "  { %s v = x.R%d; %s }\n", cType(t), i, toBits(t, "v", fmt.Sprintf("r[%d]", i)))
			}
		}
		b.WriteString("}\n")
	}
	fmt.Fprintf(&b, "\nstatic const struct drv_fn fns_[] = {\n")
	for k, name := range u.FuncList {
		sig := u.Funcs[name].Sig
		fmt.Fprintf(&b, "  {%s, t%d, %d, %d},\n", strconv.Quote(name), k, len(sig.Params), len(sig.Results))
	}
	b.WriteString("  {0, 0, 0, 0}\n};\n\n")
	mem, msz := "0", "0"
	if u.HasMem || u.MemMax > 0 {
		mem, msz = "&"+prefix+"_memory", "&"+prefix+"_memory_size"
	}
	fmt.Fprintf(&b, "const struct drv_unit %s_unit = {%s, %s_init, %s, %s, %d, %d, fns_, %d};\n", prefix, strconv.Quote(u.Name), prefix, mem, msz, u.MemMin, u.MemMax, len(u.FuncList))
	return b.String()
}

// ---------------------------------------------------------------------------------------------
// the cc job: translate, compile, link, run a batch

type ccJob struct {
	Kind   string // "cc"
	Opt    watexec.OptKey
	Units  []int           // indices into UnitsFor(Opt); -1 entries take the next of Inline
	Inline []*watexec.Unit // compiler output
	CC     string          // "gcc -O1" | "clang -O0"
	Driver string          // path of the compiled driver object for this CC
	CDir   string          // directory of driver.h
	Keep   string          // if set, the work directory is kept under this path (debugging)
	NoCC   bool            // translate only (development aid: list what wat2c refuses)
}

type cOut struct {
	K     string   `json:"k"` // ok | sig:<NAME> | hang | lost:<status> | init-failed:<NAME>
	Res   []uint64 `json:"r,omitempty"`
	Mem   string   `json:"m,omitempty"`
	Trace string   `json:"h,omitempty"`
}

type cUnitResult struct {
	Status string // ok | rejected | c-compile-error | link-error | harness
	Msg    string
	CCode  string // the generated C (clipped) for reports
	Out    []cOut
}

type ccResult struct {
	Err   string
	Units []cUnitResult
}

var errLine = regexp.MustCompile(`(?m)^[^\n]*\berror:[^\n]*`)
var numRe = regexp.MustCompile(`\b[0-9]+\b`)

func run(dir string, timeout time.Duration, name string, args ...string) (string, error) {
	ctx, cancel := context.WithTimeout(context.Background(), timeout)
	defer cancel()
	cmd := exec.CommandContext(ctx, name, args...)
	cmd.Dir = dir
	var out bytes.Buffer
	cmd.Stdout, cmd.Stderr = &out, &out
	err := cmd.Run()
	if ctx.Err() != nil {
		return out.String(), fmt.Errorf("timeout after %v", timeout)
	}
	return out.String(), err
}

func clip(s string, n int) string {
	if len(s) > n {
		return s[:n] + "…"
	}
	return s
}

var frameRe = regexp.MustCompile(`wat2c/(wat2c[a-z_]*\.go:[0-9]+)`)

// recoverAt runs f and returns a description of a panic with the wat2c source lines it came from.
func recoverAt(f func()) (p string) {
	defer func() {
		if e := recover(); e != nil {
			p = fmt.Sprint(e)
			var at []string
			for _, m := range frameRe.FindAllStringSubmatch(string(debug.Stack()), 4) {
				at = append(at, m[1])
			}
			if len(at) > 0 {
				p += " @ " + strings.Join(at, " < ")
			}
		}
	}()
	f()
	return ""
}

func handleCC(raw json.RawMessage) interface{} {
	var j ccJob
	if err := json.Unmarshal(raw, &j); err != nil {
		return ccResult{Err: "bad job: " + err.Error()}
	}
	all, err := watexec.UnitsFor(j.Opt)
	if err != nil {
		return ccResult{Err: "harness: " + err.Error()}
	}
	units := make([]*watexec.Unit, len(j.Units))
	ni := 0
	for k, ix := range j.Units {
		if ix < 0 {
			units[k] = j.Inline[ni]
			ni++
		} else {
			units[k] = all[ix]
		}
	}
	dir, err := os.MkdirTemp("", "c03-")
	if err != nil {
		return ccResult{Err: "harness: " + err.Error()}
	}
	if j.Keep == "" {
		defer os.RemoveAll(dir)
	} else {
		defer func() { os.RemoveAll(j.Keep); os.Rename(dir, j.Keep) }()
	}
	ccArgs := strings.Fields(j.CC)
	res := ccResult{Units: make([]cUnitResult, len(units))}
	var objs [][]string
	var linkable []int
	for k, u := range units {
		ur := &res.Units[k]
		prefix := fmt.Sprintf("u%d", k)
		var code, header []byte
		var werr error
		if p := recoverAt(func() {
			_, code, header, werr = wat2c.Wat2C("unit.wat", []byte(u.Text), wat2c.Options{Prefix: prefix})
		}); p != "" {
			ur.Status, ur.Msg = "rejected", "panic: "+clip(p, 300)
			continue
		}
		if werr != nil {
			ur.Status, ur.Msg = "rejected", "error: "+clip(werr.Error(), 200)
			continue
		}
		ur.CCode = clip(string(code), 6000)
		if j.NoCC {
			ur.Status = "translated"
			continue
		}
		if j.Keep != "" {
			os.WriteFile(filepath.Join(dir, prefix+".wat"), []byte(u.Text), 0o644)
			if wasm, err := watexec.Assemble(u); err == nil {
				os.WriteFile(filepath.Join(dir, prefix+".wasm"), wasm, 0o644)
			}
		}
		os.WriteFile(filepath.Join(dir, prefix+".c"), code, 0o644)
		os.WriteFile(filepath.Join(dir, prefix+".h"), header, 0o644)
		os.WriteFile(filepath.Join(dir, prefix+"_glue.c"), []byte(glue(u, prefix)), 0o644)
		args := append(append([]string{}, ccArgs[1:]...), "-w", "-I", j.CDir, "-c", prefix+".c", "-o", prefix+".o")
		if out, err := run(dir, 10*time.Minute, ccArgs[0], args...); err != nil {
			ur.Status = "c-compile-error"
			if m := errLine.FindString(out); m != "" {
				ur.Msg = clip(m, 300)
			} else {
				ur.Msg = clip(out, 300) + " " + err.Error()
			}
			continue
		}
		args = append(append([]string{}, ccArgs[1:]...), "-w", "-I", j.CDir, "-c", prefix+"_glue.c", "-o", prefix+"_glue.o")
		if out, err := run(dir, 10*time.Minute, ccArgs[0], args...); err != nil {
			// the header and the glue disagree: the exported API declared by wat2c cannot be called
			ur.Status = "c-compile-error"
			ur.Msg = "calling the exported functions through the generated header: " + clip(errLine.FindString(out), 300)
			if ur.Msg == "" {
				ur.Msg = clip(out, 300)
			}
			continue
		}
		objs = append(objs, []string{prefix + ".o", prefix + "_glue.o"})
		linkable = append(linkable, k)
	}
	// link + run; on a link failure fall back to one executable per unit
	runSet := func(set []int, setObjs [][]string, tag string) (string, error) {
		var tb strings.Builder
		tb.WriteString("#include \"driver.h\"\n")
		for _, k := range set {
			fmt.Fprintf(&tb, "extern const struct drv_unit u%d_unit;\n", k)
		}
		tb.WriteString("const struct drv_unit *const drv_units[] = {")
		for _, k := range set {
			fmt.Fprintf(&tb, "&u%d_unit, ", k)
		}
		fmt.Fprintf(&tb, "0};\nconst int drv_nunits = %d;\n", len(set))
		os.WriteFile(filepath.Join(dir, "units_"+tag+".c"), []byte(tb.String()), 0o644)
		args := append(append([]string{}, ccArgs[1:]...), "-w", "-I", j.CDir, "-o", "drv_"+tag, "units_"+tag+".c", j.Driver)
		for _, o := range setObjs {
			args = append(args, o...)
		}
		args = append(args, "-lm")
		if out, err := run(dir, 10*time.Minute, ccArgs[0], args...); err != nil {
			return out, fmt.Errorf("link: %v", err)
		}
		var cb strings.Builder
		for pos, k := range set {
			u := units[k]
			fmt.Fprintf(&cb, "U %d %d\n", pos, len(u.Calls))
			fidx := map[string]int{}
			for i, n := range u.FuncList {
				fidx[n] = i
			}
			for _, c := range u.Calls {
				fl := 0
				if c.Fresh {
					fl |= 1
				}
				if c.Reset {
					fl |= 2
				}
				fmt.Fprintf(&cb, "C %d %d %d", fidx[c.Fn], fl, len(c.Args))
				for _, a := range c.Args {
					fmt.Fprintf(&cb, " %d", a)
				}
				cb.WriteByte('\n')
			}
		}
		os.WriteFile(filepath.Join(dir, "calls_"+tag+".txt"), []byte(cb.String()), 0o644)
		ctx, cancel := context.WithTimeout(context.Background(), 30*time.Minute)
		defer cancel()
		cmd := exec.CommandContext(ctx, filepath.Join(dir, "drv_"+tag), "calls_"+tag+".txt")
		cmd.Dir = dir
		var so, se bytes.Buffer
		cmd.Stdout, cmd.Stderr = &so, &se
		err := cmd.Run()
		if err != nil {
			return so.String(), fmt.Errorf("driver: %v: %s", err, clip(se.String(), 300))
		}
		return so.String(), nil
	}
	parse := func(set []int, out string) error {
		for _, k := range set {
			res.Units[k].Out = make([]cOut, len(units[k].Calls))
		}
		sc := bufio.NewScanner(strings.NewReader(out))
		sc.Buffer(make([]byte, 1<<20), 1<<20)
		n := 0
		for sc.Scan() {
			f := strings.Fields(sc.Text())
			if len(f) < 4 || f[0] != "R" {
				return fmt.Errorf("driver output line %q", clip(sc.Text(), 100))
			}
			pos, _ := strconv.Atoi(f[1])
			ci, _ := strconv.Atoi(f[2])
			if pos < 0 || pos >= len(set) || ci < 0 || ci >= len(units[set[pos]].Calls) {
				return fmt.Errorf("driver output refers to unit %d call %d", pos, ci)
			}
			o := &res.Units[set[pos]].Out[ci]
			o.K = f[3]
			i := 4
			if o.K == "ok" {
				nres, _ := strconv.Atoi(f[4])
				for k := 0; k < nres; k++ {
					v, err := strconv.ParseUint(f[5+k], 10, 64)
					if err != nil {
						return fmt.Errorf("driver output: bad result %q", f[5+k])
					}
					o.Res = append(o.Res, v)
				}
				i = 5 + nres
			}
			if i+3 < len(f) && f[i] == "M" && f[i+2] == "H" {
				if f[i+1] != "-" {
					o.Mem = f[i+1]
				}
				if f[i+3] != "-" {
					o.Trace = f[i+3]
				}
			} else {
				return fmt.Errorf("driver output line without M/H fields: %q", clip(sc.Text(), 100))
			}
			n++
		}
		want := 0
		for _, k := range set {
			want += len(units[k].Calls)
		}
		if n != want {
			return fmt.Errorf("driver answered %d of %d calls", n, want)
		}
		return nil
	}
	if len(linkable) > 0 {
		out, err := runSet(linkable, objs, "all")
		if err == nil {
			err = parse(linkable, out)
		}
		if err != nil && strings.HasPrefix(err.Error(), "link:") {
			for pos, k := range linkable {
				out, err := runSet([]int{k}, objs[pos:pos+1], fmt.Sprintf("s%d", k))
				if err == nil {
					err = parse([]int{k}, out)
				}
				if err != nil {
					if strings.HasPrefix(err.Error(), "link:") {
						res.Units[k].Status, res.Units[k].Msg = "link-error", clip(errLine.FindString(out)+" "+lastLines(out, 3), 300)
					} else {
						res.Units[k].Status, res.Units[k].Msg = "harness", err.Error()
					}
					continue
				}
				res.Units[k].Status = "ok"
			}
		} else if err != nil {
			return ccResult{Err: "harness: " + err.Error()}
		} else {
			for _, k := range linkable {
				res.Units[k].Status = "ok"
			}
		}
	}
	return res
}

func lastLines(s string, n int) string {
	l := strings.Split(strings.TrimSpace(s), "\n")
	if len(l) > n {
		l = l[len(l)-n:]
	}
	return strings.Join(l, " / ")
}

func handleJob(raw json.RawMessage) interface{} {
	var k struct{ Kind string }
	json.Unmarshal(raw, &k)
	switch k.Kind {
	case "wz":
		return watexec.HandleWzJob(raw)
	case "corpus":
		return watexec.HandleCorpusJob(raw)
	case "cc":
		return handleCC(raw)
	}
	return ccResult{Err: "bad job kind " + k.Kind}
}

// ---------------------------------------------------------------------------------------------
// classification

// keyClass coarsens the operand class of a call for violation keys. A missing trap (the engines
// trap, the C code returns) and a trap on both sides with different memory are keyed per
// instruction only ("*"): the defect is "no check", whatever the operand. Otherwise: an argument
// list that contains a NaN is "nan" in the NaN positions and "*" elsewhere; the neighbours of the
// truncation boundaries fold into small / big; static offsets are dropped from address classes.
func keyClass(c *watexec.Call, perInstruction bool) string {
	if perInstruction {
		return "*"
	}
	parts := strings.Split(c.Class, ",")
	hasNaN := false
	for _, p := range parts {
		if p == "nan" {
			hasNaN = true
		}
	}
	exact := strings.HasPrefix(c.Instr, "select") || strings.Contains(c.Instr, "store") || strings.HasPrefix(c.Instr, "multi-value") || strings.HasPrefix(c.Instr, "global") || strings.HasPrefix(c.Instr, "local")
	var out []string
	for _, p := range parts {
		switch {
		case strings.HasPrefix(p, "offset="):
			continue
		case hasNaN && p != "nan" && !exact:
			p = "*"
		case strings.HasPrefix(p, "above(") || strings.HasPrefix(p, "below(") || strings.HasPrefix(p, "frac("):
			neg := strings.Contains(p, "(-")
			small := strings.HasSuffix(p, "(-1)") || strings.HasSuffix(p, "(1)")
			p = map[bool]string{true: "small", false: "big"}[small]
			if neg {
				p = "-" + p
			}
		case (p == "half" || p == "-half") && !strings.Contains(c.Instr, "nearest"):
			p = strings.Replace(p, "half", "small", 1)
		case p == "big" && strings.HasPrefix(c.Instr, "i") && !strings.Contains(c.Instr, "trunc"):
			p = "pos"
		case p == "nbig":
			p = "neg"
		}
		out = append(out, p)
	}
	return strings.Join(out, ",")
}

// refusedUnits are generated units wat2c refused when the check was built (frozen like the ctrl
// shapes above): they are translated on every run and checked like the rest once accepted.
var refusedUnits = map[string]string{
	"call/multi-value-mixed-types": "a function with several results of different types that falls off its end: the results are popped in declaration order instead of reverse order and the operand type assertion fails (wat2c_func.go:150)",
}

func expectedRefusal(u *watexec.Unit) string {
	if u.Part != "" {
		return u.Part
	}
	if _, ok := refusedUnits[u.Name]; ok {
		return "!" + u.Name
	}
	return ""
}

type cand struct {
	order  int
	key    string
	what   string
	replay interface{}
}

func main() {
	if mc.IsWorker() {
		mc.WorkerMain(handleJob)
		return
	}
	r := mc.Start(ID)
	t0 := time.Now()
	lap := func(what string) {
		if os.Getenv("VERIF_TIMING") != "" {
			fmt.Fprintf(os.Stderr, "[%6.1fs] %s\n", time.Since(t0).Seconds(), what)
		}
	}
	group := 32
	if g, err := strconv.Atoi(os.Getenv("VERIF_CTRL_GROUP")); err == nil && g > 0 {
		group = g // development aid
	}
	opt := watexec.OptKey{CtrlDepth: mc.Pick(r, 2, 3), CtrlGroup: group, Partition: "wat2c", RecDepths: mc.Pick(r, []uint32{0, 1, 2, 10, 100, 1000}, []uint32{0, 1, 2, 3, 10, 100, 500, 1000, 1500})}
	// The last configuration turns one class of C undefined behaviour that x86 hardware hides (a shift
	// count >= the operand width: the CPU masks it, the C standard does not) into a trap; in the quick
	// tier it is applied to the shift / rotate units only.
	const ubsan = "gcc -O1 -fsanitize=shift-exponent -fsanitize-undefined-trap-on-error"
	compilers := mc.Pick(r, []string{"gcc -O1", ubsan}, []string{"gcc -O1", "clang -O0", ubsan})
	applies := func(cc string, u *watexec.Unit) bool {
		if cc != ubsan || r.Thorough() {
			return true
		}
		for _, s := range []string{".shl", ".shr_s", ".shr_u", ".rotl", ".rotr"} {
			if u.Family == "num" && strings.HasSuffix(u.Name, s) {
				return true
			}
		}
		return false
	}
	configs := []string{watexec.WzCompiler, watexec.WzInterpreter}

	r.Rule("every exported function of every unit of engine/watexec (see C31) is called in the C translation (wat2c.Wat2C + each listed C compiler, driver c/driver.c) and on V8, wazero-compiler and wazero-interpreter. Two outcomes are distinct when instruction, result bits / signal, memory hash or host trace differ")
	r.Bound("ctrl_depth", opt.CtrlDepth)
	r.Bound("c_compilers", compilers)
	r.Bound("recursion_depths", opt.RecDepths)
	r.Bound("int_alphabet", len(watexec.IntAlpha(32)))
	r.Bound("f32_alphabet", len(watexec.FloatAlpha(32)))
	r.Bound("f64_alphabet", len(watexec.FloatAlpha(64)))
	r.Assume("'the subset wat2c accepts' is operational: wat2c.Wat2C returns without error or panic. Two shapes of ctrl nests were refused when the check was built and are frozen as outside the subset (a branch whose target is the function body itself; br_if to a label that carries a result); they are re-tried on every run and checked like the rest if a later wat2c accepts them. A unit outside these shapes that wat2c refuses is reported")
	r.Assume("'trap' on the C side = the call ends in SIGFPE / SIGSEGV / SIGBUS / SIGILL / SIGABRT / SIGTRAP (abort() included); only trap / no trap is compared, not the trap class. The module's memory is what the repository's own host template provides (one array of max-pages size), placed inside an 8 GiB PROT_NONE reservation so that an unchecked access outside that array faults deterministically instead of reading the driver's own memory")
	r.Assume("a call on which V8 and the two wazero configurations disagree among themselves has no oracle here and is skipped (counted in oracle_disagreements; C31 reports it)")
	r.Assume("NaN results of arithmetic instructions compare as 'a quiet NaN' (the specification leaves sign and payload open); everything else is bit-exact; memory.grow only on memories with a declared maximum")
	r.Assume("C compilers as installed: gcc 12 -O1 (and clang 14 -O0 in the thorough tier), default flags otherwise (no -fwrapv, no -fno-strict-aliasing), warnings off; plus gcc -O1 with -fsanitize=shift-exponent (trap on error) so that a shift count >= width, which the C standard leaves undefined and x86 masks in hardware, is observable (quick tier: shift / rotate units only)")

	units, err := watexec.UnitsFor(opt)
	if err != nil {
		r.HarnessError("generator: %v", err)
		r.Finish()
	}
	nw := mc.NWorkers()
	pool := mc.NewPool(nw, nil)
	defer pool.Close()

	var cmu sync.Mutex
	var cands []cand
	addCand := func(c cand) {
		cmu.Lock()
		cands = append(cands, c)
		cmu.Unlock()
	}

	corpus := watexec.Corpus(r.Thorough())
	corpusUnits := make([]*watexec.Unit, len(corpus))
	pool.Run(len(corpus), func(i int) interface{} { return watexec.CorpusJob{Kind: "corpus", Index: i, Thorough: r.Thorough()} }, 10*time.Minute, func(res mc.Result) {
		var cr watexec.CorpusResult
		if res.Status != "ok" || json.Unmarshal(res.Out, &cr) != nil || cr.Err != "" {
			r.HarnessError("corpus program %s does not compile: %s %s", corpus[res.Index].Name, cr.Err, clip(res.Stderr, 300))
			return
		}
		corpusUnits[res.Index] = cr.Unit
	})
	nGen := len(units)
	for _, u := range corpusUnits {
		if u != nil {
			units = append(units, u)
		}
	}
	lap(fmt.Sprintf("%d units (%d corpus)", len(units), len(units)-nGen))
	only := os.Getenv("VERIF_ONLY") // development aid: restrict to units whose name has this prefix
	skip := func(u *watexec.Unit) bool { return only != "" && !strings.HasPrefix(u.Name, only) }
	if only != "" {
		r.Cap("VERIF_ONLY=" + only)
	}

	// driver object per compiler
	work, err := os.MkdirTemp("", "c03-main-")
	if err != nil {
		r.HarnessError("tmp: %v", err)
		r.Finish()
	}
	defer os.RemoveAll(work)
	cdir := filepath.Join(mc.VerifDir(), "c")
	driverObj := map[string]string{}
	for i, cc := range compilers {
		f := strings.Fields(cc)
		obj := filepath.Join(work, fmt.Sprintf("driver%d.o", i))
		args := append(append([]string{}, f[1:]...), "-w", "-I", cdir, "-c", filepath.Join(cdir, "driver.c"), "-o", obj)
		if out, err := run(work, 5*time.Minute, f[0], args...); err != nil {
			r.HarnessError("cannot compile c/driver.c with %s: %v %s", cc, err, clip(out, 400))
			r.Finish()
		}
		driverObj[cc] = obj
	}

	// ---- C side: batches per compiler
	type batch struct {
		cc    string
		units []int
	}
	var batches []batch
	for _, cc := range compilers {
		var cur []int
		flush := func() {
			if len(cur) > 0 {
				batches = append(batches, batch{cc, cur})
				cur = nil
			}
		}
		weight := 0
		for i, u := range units {
			if skip(u) || !applies(cc, u) {
				continue
			}
			w := 1
			if i >= nGen {
				w = 12 // compiler output: a big translation unit
			}
			if expectedRefusal(u) != "" {
				w = 0 // expected to be refused: no C compilation
			}
			if weight+w > 12 {
				flush()
				weight = 0
			}
			cur = append(cur, i)
			weight += w
			if len(cur) >= 200 {
				flush()
				weight = 0
			}
		}
		flush()
	}
	cres := map[string][]cUnitResult{}
	for _, cc := range compilers {
		cres[cc] = make([]cUnitResult, len(units))
	}
	mkCC := func(b batch) ccJob {
		j := ccJob{Kind: "cc", Opt: opt, CC: b.cc, Driver: driverObj[b.cc], CDir: cdir, NoCC: os.Getenv("VERIF_C03_REFUSALS") != ""}
		for _, i := range b.units {
			if i >= nGen {
				j.Units = append(j.Units, -1)
				j.Inline = append(j.Inline, units[i])
			} else {
				j.Units = append(j.Units, i)
			}
		}
		if k := os.Getenv("VERIF_KEEP"); k != "" {
			for _, i := range b.units {
				if units[i].Name == k {
					j.Keep = "/tmp/c03-keep"
				}
			}
		}
		return j
	}
	var ccWG sync.WaitGroup
	var fmu sync.Mutex
	var failed []batch
	ccWG.Add(1)
	ccPool := mc.NewPool(nw, nil)
	go func() {
		defer ccWG.Done()
		defer ccPool.Close()
		ccPool.Run(len(batches), func(i int) interface{} { return mkCC(batches[i]) }, 60*time.Minute, func(res mc.Result) {
			b := batches[res.Index]
			var cr ccResult
			if res.Status != "ok" {
				// wat2c itself took the worker down or never returned: every unit of the batch is re-run alone below
				fmu.Lock()
				failed = append(failed, b)
				fmu.Unlock()
				return
			}
			if err := json.Unmarshal(res.Out, &cr); err != nil || cr.Err != "" {
				r.HarnessError("cc batch %d (%s): %s %v", res.Index, b.cc, cr.Err, err)
				return
			}
			for k, i := range b.units {
				cres[b.cc][i] = cr.Units[k]
			}
		})
		for _, b := range failed {
			for _, i := range b.units {
				// a crash / hang is believed only if the unit takes the worker down 5 times alone
				var last mc.Result
				ok := false
				for try := 0; try < 5 && !ok; try++ {
					solo := mc.NewPool(1, nil)
					solo.Run(1, func(int) interface{} { return mkCC(batch{b.cc, []int{i}}) }, 60*time.Minute, func(res mc.Result) { last = res })
					solo.Close()
					var cr ccResult
					if last.Status == "ok" && json.Unmarshal(last.Out, &cr) == nil && cr.Err == "" && len(cr.Units) == 1 {
						cres[b.cc][i] = cr.Units[0]
						ok = true
					} else if last.Status == "ok" {
						break
					}
				}
				if !ok {
					cres[b.cc][i] = cUnitResult{Status: "worker-" + last.Status, Msg: clip(last.Stderr, 300)}
				}
			}
		}
	}()

	// ---- oracle side: V8 + both wazero configurations (units wat2c is expected to refuse are skipped)
	wasms := make([][]byte, len(units))
	v8out := make([][]watexec.Outcome, len(units))
	nV8 := 4
	v8s := make([]*watexec.V8, nV8)
	for i := range v8s {
		v, err := watexec.StartV8(mc.VerifDir())
		if err != nil {
			r.HarnessError("cannot start node: %v", err)
			r.Finish()
		}
		v8s[i] = v
		defer v.Close()
	}
	var v8pick sync.Mutex
	v8next := 0
	runV8 := func(i int) {
		u := units[i]
		wasm, err := watexec.Assemble(u)
		if err != nil {
			r.HarnessError("%s: the assembler rejects the unit (C04/C31 territory): %v", u.Name, err)
			return
		}
		wasms[i] = wasm
		v8pick.Lock()
		v := v8s[v8next%nV8]
		v8next++
		v8pick.Unlock()
		out, err := v.RunCached(mc.VerifDir(), u, wasm)
		if err != nil {
			r.HarnessError("%s: V8 cannot run the module: %v", u.Name, err)
			wasms[i] = nil
			return
		}
		v8out[i] = out
	}
	var need []int
	for i, u := range units {
		if expectedRefusal(u) == "" && !skip(u) {
			need = append(need, i)
		}
	}
	mc.ParallelFor(len(need), func(k int) { runV8(need[k]) })
	lap("V8 done")
	type jd struct {
		unit   int
		config string
	}
	wzout := map[jd][]watexec.Outcome{}
	var wmu sync.Mutex
	runWz := func(list []int) {
		var jobs []jd
		for _, i := range list {
			if wasms[i] != nil {
				for _, c := range configs {
					jobs = append(jobs, jd{i, c})
				}
			}
		}
		pool.Run(len(jobs), func(k int) interface{} {
			j := jobs[k]
			job := watexec.WzJob{Kind: "wz", Opt: opt, Index: j.unit, Config: j.config}
			if j.unit >= nGen {
				job.Index, job.Inline = -1, units[j.unit]
			}
			return job
		}, 20*time.Minute, func(res mc.Result) {
			j := jobs[res.Index]
			var wr watexec.WzResult
			if res.Status != "ok" || json.Unmarshal(res.Out, &wr) != nil || wr.Err != "" || len(wr.Out) != len(units[j.unit].Calls) {
				return // no oracle for this unit on this configuration: C31 reports it
			}
			wmu.Lock()
			wzout[j] = wr.Out
			wmu.Unlock()
		})
	}
	runWz(need)
	lap("wazero done")
	ccWG.Wait()
	lap("C side done")

	// units frozen as refused that wat2c now accepts: give them an oracle too
	var late []int
	for i, u := range units {
		if expectedRefusal(u) == "" || skip(u) {
			continue
		}
		for _, cc := range compilers {
			if applies(cc, u) && cres[cc][i].Status != "rejected" && v8out[i] == nil {
				late = append(late, i)
				break
			}
		}
	}
	if len(late) > 0 {
		mc.ParallelFor(len(late), func(k int) { runV8(late[k]) })
		runWz(late)
	}

	// ---- compare
	stat := map[string]int{}
	refusedClasses := map[string]int{}
	oracleDisagree, skipped := 0, 0
	sigSeen := map[string]bool{}
	for i, u := range units {
		if skip(u) {
			continue
		}
		for _, cc := range compilers {
			if !applies(cc, u) {
				continue
			}
			cr := &cres[cc][i]
			stat[cc+"|"+cr.Status]++
			tag := "" // keys do not name the C compiler: the same defect class under another compiler is the same finding
			famKey := u.Name
			switch u.Family {
			case "ctrl":
				famKey = "ctrl"
			case "num", "mem", "const":
				famKey = u.Calls[0].Instr
			}
			switch cr.Status {
			case "translated":
				if expectedRefusal(u) != "" {
					fmt.Fprintf(os.Stderr, "ACCEPTED-BUT-FROZEN-AS-REFUSED %s %q\n", u.Name, u.Calls[min(1, len(u.Calls)-1)].Instr)
				}
				continue
			case "rejected":
				if os.Getenv("VERIF_C03_REFUSALS") != "" {
					fmt.Fprintf(os.Stderr, "REFUSED %s part=%q first=%q: %s\n", u.Name, u.Part, u.Calls[min(1, len(u.Calls)-1)].Instr, cr.Msg)
				}
				msg := numRe.ReplaceAllString(cr.Msg, "N")
				if er := expectedRefusal(u); er != "" {
					refusedClasses[er+" ("+clip(msg, 80)+")"]++
					continue
				}
				addCand(cand{i * 1000000, fmt.Sprintf("%s|wat2c-refuses%s", famKey, tag), fmt.Sprintf("%s: wat2c refuses a unit outside the frozen refused shapes: %s", u.Name, cr.Msg),
					map[string]interface{}{"unit": u.Name, "wat": clip(u.Text, 4000), "wat2c": cr.Msg}})
				continue
			case "c-compile-error", "link-error":
				addCand(cand{i * 1000000, fmt.Sprintf("%s|wasm=valid-module|c=%s%s", famKey, cr.Status, tag), fmt.Sprintf("%s: the generated C does not build with %s: %s", u.Name, cc, cr.Msg),
					map[string]interface{}{"unit": u.Name, "cc": cc, "error": cr.Msg, "wat": clip(u.Text, 3000), "c": cr.CCode}})
				continue
			case "worker-crash", "worker-hang", "worker-ok":
				addCand(cand{i * 1000000, fmt.Sprintf("%s|wat2c-%s%s", famKey, cr.Status, tag), fmt.Sprintf("%s: the batch containing this unit took the translating worker down (%s): %s", u.Name, cr.Status, cr.Msg),
					map[string]interface{}{"unit": u.Name, "stderr": cr.Msg}})
				continue
			case "ok":
			default:
				r.HarnessError("%s with %s: %s %s", u.Name, cc, cr.Status, cr.Msg)
				continue
			}
			ref := v8out[i]
			if ref == nil {
				r.HarnessError("%s: translated and built but no V8 outcome", u.Name)
				continue
			}
			r.Evals.Add(int64(len(u.Calls)))
			local := map[string]bool{}
			for ci := range u.Calls {
				c := &u.Calls[ci]
				agree := true
				for _, cfg := range configs {
					w := wzout[jd{i, cfg}]
					if w == nil || u.Canon(c, &w[ci]) != u.Canon(c, &ref[ci]) {
						agree = false
					}
				}
				if !agree {
					oracleDisagree++
					continue
				}
				co := &cr.Out[ci]
				if strings.HasPrefix(co.K, "skipped:") {
					skipped++ // the instance hung earlier in this group: its state is no longer reproducible
					continue
				}
				if strings.HasPrefix(co.K, "sig:") {
					sigSeen[co.K] = true
				}
				ds := c.Instr + "|" + co.K + "|" + fmt.Sprint(co.Res) + co.Mem
				if !local[ds] {
					local[ds] = true
					r.Distinct(ds)
				}
				wasmClass := "value"
				if ref[ci].Trap != "" {
					wasmClass = "trap:" + ref[ci].Trap
				}
				asOutcome := watexec.Outcome{Res: co.Res, Mem: co.Mem, Trace: co.Trace}
				cClass := ""
				switch {
				case co.K == "ok" && ref[ci].Trap == "":
					x, y := ref[ci], asOutcome
					x.Mem, y.Mem, x.Trace, y.Trace = "", "", "", ""
					switch {
					case u.Canon(c, &x) != u.Canon(c, &y):
						cClass = "wrong-value"
					case ref[ci].Mem != co.Mem:
						cClass = "memory-differs"
					case ref[ci].Trace != co.Trace:
						cClass = "host-trace-differs"
					}
				case co.K == "ok":
					cClass = "value"
				case strings.HasPrefix(co.K, "sig:") && ref[ci].Trap != "":
					if ref[ci].Mem != co.Mem {
						cClass = "signal:" + co.K[4:] + "+memory-differs"
					}
				case strings.HasPrefix(co.K, "sig:"):
					cClass = "signal:" + co.K[4:]
				case co.K == "hang":
					cClass = "hang"
				case strings.HasPrefix(co.K, "lost:"):
					cClass = "process-lost"
				case strings.HasPrefix(co.K, "init-failed:"):
					cClass = "init-" + co.K[12:]
				default:
					r.HarnessError("%s: driver outcome %q", u.Name, co.K)
				}
				if cClass == "" {
					continue
				}
				if strings.HasPrefix(cClass, "signal") && len(c.Args) == 2 && strings.Contains(c.Class, "count") {
					// a trap of the C code on a shift / rotate depends on the count only
					cc2 := *c
					cc2.Class = c.Class[strings.Index(c.Class, "count"):]
					c = &cc2
				}
				perInstr := (ref[ci].Trap != "" && co.K == "ok") || strings.HasSuffix(cClass, "+memory-differs") || u.Family == "corpus"
				key := fmt.Sprintf("%s|%s|wasm=%s|c=%s%s", c.Instr, keyClass(c, perInstr), wasmClass, cClass, tag)
				cs := co.K
				if co.K == "ok" {
					cs = u.Canon(c, &asOutcome)
				} else if co.Mem != "" {
					cs += " mem=" + co.Mem
				}
				what := fmt.Sprintf("%s: %s [%s]: wat2c + %s gives %s; V8 and both wazero configurations give %s", u.Name, c.ArgString(), c.Desc, cc, cs, u.Canon(c, &ref[ci]))
				addCand(cand{i*1000000 + ci, key, what, map[string]interface{}{
					"unit": u.Name, "call": c, "cc": cc, "c_outcome": co, "wasm_outcome": ref[ci], "wat": clip(u.Text, 3000), "c": cr.CCode}})
			}
			if r.WantSample() && len(u.Calls) > 0 && i%41 == 0 {
				c := &u.Calls[len(u.Calls)/2]
				r.Sample(map[string]interface{}{"unit": u.Name, "call": c.ArgString(), "operands": c.Desc, "c": cr.Out[len(u.Calls)/2], "v8": u.Canon(c, &ref[len(u.Calls)/2])})
			}
		}
	}
	sort.SliceStable(cands, func(a, b int) bool { return cands[a].order < cands[b].order })

	// replay: the first witness of every key is translated, compiled and run once more, alone, in a
	// fresh worker and a fresh driver process; its C outcome must be the same
	type rk struct {
		cc   string
		unit int
	}
	firstOf := map[string]bool{}
	want := map[rk][]int{}
	var rks []rk
	for _, c := range cands {
		rp, ok := c.replay.(map[string]interface{})
		if !ok || rp["call"] == nil || firstOf[c.key] {
			continue
		}
		firstOf[c.key] = true
		k := rk{rp["cc"].(string), c.order / 1000000}
		if _, ok := want[k]; !ok {
			rks = append(rks, k)
		}
		want[k] = append(want[k], c.order%1000000)
	}
	rpool := mc.NewPool(nw, nil)
	rpool.Run(len(rks), func(i int) interface{} { return mkCC(batch{rks[i].cc, []int{rks[i].unit}}) }, 60*time.Minute, func(res mc.Result) {
		k := rks[res.Index]
		u := units[k.unit]
		var cr ccResult
		if res.Status != "ok" || json.Unmarshal(res.Out, &cr) != nil || cr.Err != "" || len(cr.Units) != 1 || cr.Units[0].Status != "ok" {
			r.HarnessError("replay of %s with %s failed: %s %s", u.Name, k.cc, res.Status, cr.Err)
			return
		}
		for _, ci := range want[k] {
			a, b := cres[k.cc][k.unit].Out[ci], cr.Units[0].Out[ci]
			if a.K != b.K || fmt.Sprint(a.Res) != fmt.Sprint(b.Res) || a.Mem != b.Mem || a.Trace != b.Trace {
				r.HarnessError("%s call %d with %s did not reproduce: %v then %v", u.Name, ci, k.cc, a, b)
			}
		}
	})
	rpool.Close()
	r.Extra("replayed_units", len(rks))
	for _, c := range cands {
		r.Report(c.key, c.what, c.replay)
	}
	if os.Getenv("VERIF_LIST") != "" {
		seen := map[string]bool{}
		for _, c := range cands {
			if !seen[c.key] {
				seen[c.key] = true
				fmt.Fprintf(os.Stderr, "KEY %s\n    %s\n", c.key, clip(c.what, 400))
			}
		}
	}
	r.Extra("units", len(units))
	r.Extra("unit_status", stat)
	r.Extra("refused_as_frozen", refusedClasses)
	r.Extra("oracle_disagreements_skipped", oracleDisagree)
	r.Extra("calls_skipped_after_a_hang", skipped)
	var sl []string
	for s := range sigSeen {
		sl = append(sl, s)
	}
	sort.Strings(sl)
	r.Extra("signals_seen", sl)
	if stat[compilers[0]+"|ok"] < 150 {
		r.HarnessError("vacuous: only %d units were translated, built and run", stat[compilers[0]+"|ok"])
	}
	if r.DistinctCount() < 3000 {
		r.HarnessError("vacuous: only %d distinct C outcomes", r.DistinctCount())
	}
	if oracleDisagree > int(r.Evals.Load())/20 {
		r.HarnessError("the engines disagree among themselves on %d calls: no usable oracle", oracleDisagree)
	}
	os.RemoveAll(work) // Finish exits the process: deferred calls do not run
	r.Finish()
}
