//go:build go1.21

// C12: discarded acyclic data is reclaimed - loops run in bounded heap.
//
// Every loop body of <= max_len ownership operations (progs.OwnOps) that the reference
// heap-graph model (progs.OwnModel, cross-checked against Go by C11) marks cycle-free is placed
// in a loop in three shapes (variables declared inside the loop / body in a function called per
// iteration / variables outside the loop and overwritten at the end of the body) and run for
// N in {1,2,3,10,100} iterations on the real compiled program with the instrumented runtime
// (rcmon). At the end of every iteration the host records (live blocks, live bytes, $__heap_ptr).
// Oracle: within each run the record of iteration k >= 2 equals the record of iteration 2.
package main

import (
	"fmt"
	"os"
	"sort"
	"strings"

	"wa-lang.org/wa/internal/zzverif/mc"
	"wa-lang.org/wa/internal/zzverif/progs"
	"wa-lang.org/wa/internal/zzverif/rcmon"
)

const itemsPerProgram = 90

type failure struct {
	sig    string // minimisation class
	key    string // key without the body
	what   string
	replay map[string]interface{}
}

func pat(h progs.OwnHistory) string {
	if len(h.Ops) == 0 {
		return "(empty)"
	}
	return h.Pattern()
}

// analyse checks the census records of one case.
func analyse(it progs.OwnLoopItem, cr rcmon.CallResult) (fails []failure, steady string, nruns int) {
	base := map[string]interface{}{"body": it.H.Names(), "shape": it.Shape, "source": progs.OwnLoopCase(0, it.H, it.Shape)}
	mk := func(extra map[string]interface{}) map[string]interface{} {
		m := map[string]interface{}{}
		for k, v := range base {
			m[k] = v
		}
		for k, v := range extra {
			m[k] = v
		}
		return m
	}
	for _, v := range cr.Violations {
		fails = append(fails, failure{"monitor:" + v.Class, "monitor:" + v.Class + "|shape=" + it.Shape, "monitor: " + v.Detail, mk(map[string]interface{}{"violation": v})})
	}
	if cr.Status != "ok" {
		fails = append(fails, failure{"trap", "trap|shape=" + it.Shape, "the loop program traps: " + cr.Err, mk(map[string]interface{}{"err": cr.Err, "output_tail": tail(cr.Out, 400)})})
		return
	}
	// split records into runs
	type run struct {
		n    int
		recs []rcmon.Record
	}
	var runs []run
	for _, rec := range cr.Records {
		switch rec.Kind {
		case rcmon.KindRun:
			runs = append(runs, run{n: rec.K})
		case rcmon.KindIter:
			if len(runs) == 0 {
				fails = append(fails, failure{"protocol", "protocol|shape=" + it.Shape, "iteration mark before any run mark", mk(nil)})
				return
			}
			runs[len(runs)-1].recs = append(runs[len(runs)-1].recs, rec)
		}
	}
	if len(runs) != len(progs.OwnLoopNs) {
		fails = append(fails, failure{"protocol", "protocol|shape=" + it.Shape, fmt.Sprintf("%d runs recorded, want %d", len(runs), len(progs.OwnLoopNs)), mk(nil)})
		return
	}
	grow := map[string]bool{}
	var witness string
	var wrecs []rcmon.Record
	for ri, ru := range runs {
		if ru.n != progs.OwnLoopNs[ri] || len(ru.recs) != ru.n {
			fails = append(fails, failure{"protocol", "protocol|shape=" + it.Shape, fmt.Sprintf("run %d: N=%d with %d iteration records", ri, ru.n, len(ru.recs)), mk(nil)})
			return
		}
		nruns++
		if ru.n < 2 {
			continue
		}
		b := ru.recs[1]
		steady = fmt.Sprintf("%d/%d", b.Live, b.Bytes)
		for k := 2; k < ru.n; k++ {
			c := ru.recs[k]
			bad := false
			if c.Live != b.Live {
				grow["blocks"], bad = true, true
			}
			if c.Bytes != b.Bytes {
				grow["bytes"], bad = true, true
			}
			if c.HeapPtr != b.HeapPtr {
				grow["heap_ptr"], bad = true, true
			}
			if bad && witness == "" {
				witness = fmt.Sprintf("N=%d: after iteration 2 (live blocks, live bytes, heap ptr) = (%d, %d, %d), after iteration %d = (%d, %d, %d)", ru.n, b.Live, b.Bytes, b.HeapPtr, c.K, c.Live, c.Bytes, c.HeapPtr)
				wrecs = []rcmon.Record{ru.recs[0], b, c, ru.recs[ru.n-1]}
			}
		}
	}
	if len(grow) > 0 {
		var gs []string
		for g := range grow {
			gs = append(gs, g)
		}
		sort.Strings(gs)
		g := strings.Join(gs, "+")
		fails = append(fails, failure{"leak", "leak:" + g + "|shape=" + it.Shape, "heap census changes after iteration 2: " + witness, mk(map[string]interface{}{"records_iter1_iter2_first_bad_last": wrecs})})
	}
	return
}

// balanced: the largest program size <= maxPer that splits n cases into a multiple of the worker
// count (whole rounds, no straggler round).
func balanced(n, maxPer int) int {
	w := mc.NWorkers()
	rounds := (n + w*maxPer - 1) / (w * maxPer)
	if rounds < 1 {
		rounds = 1
	}
	return max(1, (n+w*rounds-1)/(w*rounds))
}

func tail(s string, n int) string {
	if len(s) > n {
		return s[len(s)-n:]
	}
	return s
}

func main() {
	if mc.IsWorker() {
		mc.WorkerMain(rcmon.HandleJob)
		return
	}
	r := mc.Start("C12")
	r.Rule("every loop body of <= 2 ownership operations over the full alphabet (55 operations) and <= max_body_len_core_alphabet over the 21 core operations that the reference heap-graph model marks cycle-free, in up to 3 loop shapes, run for N in {1,2,3,10,100} on the real compiled program with instrumented runtime; (live blocks, live bytes, heap bump pointer) recorded by the host at the end of every iteration; distinct = distinct (shape, steady-state census) pairs")
	r.Bound("ops", len(progs.OwnOps))
	r.Bound("ops_core", progs.OwnCoreOps)
	r.Bound("max_body_len_full_alphabet", 2)
	r.Bound("max_body_len_core_alphabet", mc.Pick(r, 2, 3))
	r.Bound("shapes_for_extension_bodies", mc.Pick(r, "func", "inner,func,outer"))
	r.Bound("iteration_counts", progs.OwnLoopNs)
	r.Bound("shapes", progs.OwnLoopShapes)
	r.Assume("all data a body allocates is unreachable at the end of the iteration by construction: the variables are scoped to the iteration (shapes inner, func) or overwritten with zero values at the end of the body (shape outer)")
	r.Assume("cycle-freeness is decided by the reference heap-graph model over zzT.next edges (only nodes can be referenced from heap objects reachable from nodes); bodies the model marks cyclic are outside the property")
	r.Assume("one-time allocations (lazily initialised runtime state) are absorbed by comparing with iteration 2, not iteration 0")

	// bodies: every body of <= fullLen operations over the full alphabet plus every body of
	// <= coreLen operations over the core alphabet. Core bodies run in all three shapes; bodies
	// that use an extension operation run in all three shapes in the thorough tier and in shape
	// "func" in the quick tier (budget).
	fullLen, coreLen := 2, mc.Pick(r, 2, 3)
	bodies := []progs.OwnHistory{{}}
	bodies = append(bodies, progs.OwnSpace(fullLen, coreLen, 0, false)...)
	if f := os.Getenv("C12_OPS"); f != "" { // debugging / mutant demonstration: restrict the alphabet
		bodies = progs.OwnRestrict(bodies, f)
		r.Cap("alphabet restricted by C12_OPS=" + f)
	}
	var items []progs.OwnLoopItem
	ncyclic := 0
	for _, h := range bodies {
		if !progs.OwnCycleFree(h) {
			ncyclic++
			continue
		}
		for _, sh := range progs.OwnLoopShapes {
			if !r.Thorough() && !progs.OwnIsCore(h) && sh != "func" {
				continue
			}
			items = append(items, progs.OwnLoopItem{H: h, Shape: sh})
		}
	}
	r.Bound("bodies_enumerated", len(bodies))
	r.Bound("bodies_cyclic_excluded", ncyclic)
	r.Bound("loop_programs", len(items))

	pool := mc.NewPool(mc.NWorkers(), nil)
	defer pool.Close()
	rcmon.InstallRetire(pool)
	rn := &rcmon.Runner{Pool: pool, Abort: true, Poison: []bool{false}, Record: true, ClipOut: 400, PerProgram: balanced(len(items), itemsPerProgram), Expired: r.Expired,
		Render: func(idx []int) string {
			sel := make([]progs.OwnLoopItem, len(idx))
			for k, c := range idx {
				sel[k] = items[c]
			}
			return progs.OwnLoopProgram(sel)
		}}
	outs := rn.Run(len(items))
	if rn.Capped != "" {
		r.Cap(rn.Capped)
	}

	failSig := map[string]map[string]bool{} // shape|pattern -> sigs
	all := make([][]failure, len(items))
	for i, it := range items {
		o := outs[i]
		if o.NotRun {
			continue
		}
		if o.Modes == nil {
			r.Evals.Add(1)
			all[i] = []failure{{"pipeline-failure", "pipeline-failure|shape=" + it.Shape, "the Wa pipeline fails on the loop program: " + tail(o.Fail, 300),
				map[string]interface{}{"body": it.H.Names(), "shape": it.Shape, "error": o.Fail, "source": progs.OwnLoopCase(0, it.H, it.Shape)}}}
		} else if cr := o.Modes[0]; cr.Status == "hang" {
			r.Evals.Add(1)
			fs, _, _ := analyse(it, rcmon.CallResult{Status: "ok", Violations: cr.Violations}) // keeps the monitor verdicts
			var keep []failure
			for _, f := range fs {
				if strings.HasPrefix(f.sig, "monitor:") {
					keep = append(keep, f)
				}
			}
			all[i] = append(keep, failure{"hang", "hang|shape=" + it.Shape, fmt.Sprintf("the loop program does not return (reproduced alone %d/5 times): %s", o.HangRep, tail(cr.Err, 600)),
				map[string]interface{}{"body": it.H.Names(), "shape": it.Shape, "err": cr.Err, "source": progs.OwnLoopCase(0, it.H, it.Shape)}})
		} else {
			fs, steady, nruns := analyse(it, cr)
			r.Evals.Add(int64(max(nruns, 1)))
			all[i] = fs
			r.Distinct(it.Shape + "|" + steady)
			if len(fs) == 0 && i%211 == 7 && r.WantSample() {
				r.Sample(map[string]interface{}{"body": it.H.Names(), "shape": it.Shape, "steady_state_live_blocks/bytes": steady})
			}
		}
		if len(all[i]) > 1 { // the first failure (monitor verdict, trap/hang, then leak) is the cause
			var also []string
			for _, f := range all[i][1:] {
				also = append(also, f.key)
			}
			all[i] = all[i][:1]
			all[i][0].replay["consequences"] = also
		}
		k := it.Shape + "|" + pat(it.H)
		for _, f := range all[i] {
			if failSig[k] == nil {
				failSig[k] = map[string]bool{}
			}
			failSig[k][f.sig] = true
		}
	}
	nfailing := 0
	for i, it := range items {
		if len(all[i]) > 0 {
			nfailing++
		}
	next:
		for _, f := range all[i] {
			// subsequence-minimal bodies only (every subsequence is itself an enumerated body,
			// unless the model excluded it as cyclic - which cannot happen for a subsequence of
			// a cycle-free body... it can: removing an op may create a cycle; then it is simply absent)
			n := len(it.H.Ops)
			for mask := 0; mask < (1<<n)-1; mask++ {
				sub := progs.OwnHistory{}
				for k := 0; k < n; k++ {
					if mask&(1<<k) != 0 {
						sub.Ops = append(sub.Ops, it.H.Ops[k])
					}
				}
				if failSig[it.Shape+"|"+pat(sub)][f.sig] {
					continue next
				}
			}
			r.Report(f.key+"|body="+pat(it.H), f.what, f.replay)
		}
	}
	r.Extra("failing_loop_programs", nfailing)
	r.Extra("monitor_events", map[string]int64{"malloc": rn.NMalloc, "free": rn.NFree, "retain": rn.NRetain, "release": rn.NRelease})
	r.Extra("programs_compiled", rn.Programs)
	r.Extra("worker_go_heap_peak_MB", rn.WorkerPeakMB)
	r.Extra("hangs_not_reproduced_alone", rn.UnreproducedHangs)
	if rn.Capped == "" && (rn.NMalloc == 0 || rn.NFree == 0 || rn.NRetain == 0) {
		r.HarnessError("vacuous: the monitor saw malloc=%d free=%d retain=%d release=%d", rn.NMalloc, rn.NFree, rn.NRetain, rn.NRelease)
	}
	if rn.Capped == "" && os.Getenv("C12_OPS") == "" && r.DistinctCount() < 10 {
		r.HarnessError("vacuous: only %d distinct steady-state censuses", r.DistinctCount())
	}
	r.Finish()
}
