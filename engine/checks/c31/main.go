//go:build go1.21

// C31 — the embedded runtime executes Wa output like an independent engine.
//
// Space: the executable module families of engine/watexec (every numeric instruction over the
// complete operand product of the DESIGN §1 alphabets, every load/store width x address class x
// static offset, memory.size/grow/fill/copy/init, globals, locals, select, the executable ctrl
// family of watgen, direct / indirect / imported calls, multi-value returns, recursion, data
// segments and start function) plus real compiler output for a fixed Wa corpus, all assembled by
// the real watutil.Wat2Wasm. Every call runs on the vendored wazero in BOTH configurations
// (compiler: what internal/wazero uses; interpreter) inside worker subprocesses, and on V8
// (node js/exec.js) as the independent engine. Compared per call: result bits, trap / no trap and
// trap class, a hash of the whole linear memory, the host-call trace.
package main

import (
	"encoding/json"
	"fmt"
	"os"
	"sort"
	"strings"
	"sync"
	"time"

	"wa-lang.org/wa/internal/zzverif/mc"
	"wa-lang.org/wa/internal/zzverif/watexec"
)

const ID = "C31"

func handleJob(raw json.RawMessage) interface{} {
	var k struct{ Kind string }
	json.Unmarshal(raw, &k)
	switch k.Kind {
	case "wz":
		return watexec.HandleWzJob(raw)
	case "corpus":
		return watexec.HandleCorpusJob(raw)
	}
	return watexec.WzResult{Err: "bad job kind " + k.Kind}
}

type cand struct {
	order  int
	key    string
	what   string
	replay interface{}
}

func clip(s string, n int) string {
	if len(s) > n {
		return s[:n] + "…"
	}
	return s
}

func main() {
	if mc.IsWorker() {
		mc.WorkerMain(handleJob)
		return
	}
	r := mc.Start(ID)
	t0 := time.Now()
	lap := func(what string) {
		if os.Getenv("VERIF_TIMING") != "" {
			fmt.Fprintf(os.Stderr, "[%6.1fs] %s\n", time.Since(t0).Seconds(), what)
		}
	}
	opt := watexec.OptKey{CtrlDepth: mc.Pick(r, 2, 3), CtrlGroup: 32, RecDepths: mc.Pick(r, []uint32{0, 1, 2, 10, 100, 1000}, []uint32{0, 1, 2, 3, 10, 100, 500, 1000, 1500})}
	configs := []string{watexec.WzCompiler, watexec.WzInterpreter}

	r.Rule("every exported function of every unit of engine/watexec (one module per numeric instruction with the complete product of the operand alphabets; one per load/store instruction x static offset {0,1,65535} x 12 address classes x store values; memory.grow sequences; memory.fill/copy/init grids; globals; locals; select; ctrl nests up to the depth bound x 4 selector values with a path trace; calls; data+start; corpus programs) is called on wazero-compiler, wazero-interpreter and V8. Two outcomes are distinct when instruction, trap class / result bits, memory hash or host trace differ")
	r.Bound("ctrl_depth", opt.CtrlDepth)
	r.Bound("recursion_depths", opt.RecDepths)
	r.Bound("int_alphabet", len(watexec.IntAlpha(32)))
	r.Bound("shift_count_alphabet", len(watexec.ShiftAlpha(32)))
	r.Bound("f32_alphabet", len(watexec.FloatAlpha(32)))
	r.Bound("f64_alphabet", len(watexec.FloatAlpha(64)))
	r.Bound("f64_unary_alphabet", len(watexec.FloatAlphaExt(64)))
	r.Bound("mem_pages", []int{watexec.MemPages, watexec.MemMaxPages})
	r.Assume("the subset is what the Wa assembler accepts: no saturating truncations, no sign-extension operators (i32.extend8_s …), no nan/inf literals (NaNs reach the instructions as parameters), one memory, one table, active segments")
	r.Assume("where the WebAssembly specification leaves a result nondeterministic the comparison is relaxed accordingly: a NaN produced by an arithmetic instruction (add sub mul div min max sqrt ceil floor trunc nearest promote demote) only has to be a quiet NaN on both sides; NaN payloads through reinterpret, load, store, select, locals, globals, calls and returns must be bit-exact")
	r.Assume("call_indirect through a null entry, an entry of another signature and an out-of-range index are one trap class (V8 and wazero split these three cases differently); stack exhaustion is one class; recursion depths stay below the interpreter's 2000-frame ceiling (an implementation limit the specification allows)")
	r.Assume("memory.grow is only exercised on memories with a declared maximum (success within it, failure beyond it are then determined)")
	r.Assume("host imports are served by recording stubs with the same deterministic return rule on every engine; NaN arguments to a host function are recorded as 'nan' (the JS API does not define their payload)")

	units, err := watexec.UnitsFor(opt)
	if err != nil {
		r.HarnessError("generator: %v", err)
		r.Finish()
	}
	lap(fmt.Sprintf("generated %d units", len(units)))

	nw := mc.NWorkers()
	pool := mc.NewPool(nw, nil)
	defer pool.Close()

	// corpus: compiled in workers (the compiler may os.Exit)
	corpus := watexec.Corpus(r.Thorough())
	corpusUnits := make([]*watexec.Unit, len(corpus))
	var cmu sync.Mutex
	var cands []cand
	addCand := func(c cand) {
		cmu.Lock()
		cands = append(cands, c)
		cmu.Unlock()
	}
	pool.Run(len(corpus), func(i int) interface{} { return watexec.CorpusJob{Kind: "corpus", Index: i, Thorough: r.Thorough()} }, 10*time.Minute, func(res mc.Result) {
		p := corpus[res.Index]
		if res.Status != "ok" {
			r.HarnessError("corpus program %s: compile worker %s: %s", p.Name, res.Status, clip(res.Stderr, 400))
			return
		}
		var cr watexec.CorpusResult
		if err := json.Unmarshal(res.Out, &cr); err != nil || cr.Err != "" {
			r.HarnessError("corpus program %s does not compile: %s %v", p.Name, cr.Err, err)
			return
		}
		corpusUnits[res.Index] = cr.Unit
	})
	nGen := len(units)
	for _, u := range corpusUnits {
		if u != nil {
			units = append(units, u)
		}
	}
	lap("corpus compiled")
	if os.Getenv("VERIF_DUMP") != "" {
		for _, u := range units {
			if strings.HasPrefix(u.Name, os.Getenv("VERIF_DUMP")) {
				fmt.Fprintf(os.Stderr, "==== %s (%d calls)\n%s\n", u.Name, len(u.Calls), clip(u.Text, 6000))
			}
		}
	}

	// assemble (real assembler) and run on V8
	wasms := make([][]byte, len(units))
	v8out := make([][]watexec.Outcome, len(units))
	nV8 := 6
	v8s := make([]*watexec.V8, nV8)
	for i := range v8s {
		v, err := watexec.StartV8(mc.VerifDir())
		if err != nil {
			r.HarnessError("cannot start node: %v", err)
			r.Finish()
		}
		v8s[i] = v
		defer v.Close()
	}
	var v8pick sync.Mutex
	v8next := 0
	only := os.Getenv("VERIF_ONLY") // development aid: restrict to units whose name has this prefix
	if only != "" {
		r.Cap("VERIF_ONLY=" + only)
	}
	mc.ParallelFor(len(units), func(i int) {
		u := units[i]
		if only != "" && !strings.HasPrefix(u.Name, only) {
			return
		}
		wasm, err := watexec.Assemble(u)
		if err != nil {
			addCand(cand{i * 1000000, "unit-not-assembled|" + u.Family + "|" + clip(err.Error(), 60), fmt.Sprintf("%s: the assembler rejects the unit: %v", u.Name, err), map[string]interface{}{"unit": u.Name, "wat": clip(u.Text, 4000)}})
			return
		}
		wasms[i] = wasm
		v8pick.Lock()
		v := v8s[v8next%nV8]
		v8next++
		v8pick.Unlock()
		out, err := v.RunCached(mc.VerifDir(), u, wasm)
		if err != nil {
			addCand(cand{i * 1000000, "v8-refuses-module|" + u.Family, fmt.Sprintf("%s: V8 cannot run the module the assembler produced: %v", u.Name, err), map[string]interface{}{"unit": u.Name, "wat": clip(u.Text, 4000)}})
			wasms[i] = nil
			return
		}
		v8out[i] = out
	})
	lap("V8 done")

	// wazero, both configurations, in workers
	type jd struct {
		unit   int
		config string
	}
	var jobs []jd
	for i := range units {
		if wasms[i] == nil || v8out[i] == nil {
			continue
		}
		for _, c := range configs {
			jobs = append(jobs, jd{i, c})
		}
	}
	mkJob := func(j jd) watexec.WzJob {
		job := watexec.WzJob{Kind: "wz", Opt: opt, Index: j.unit, Config: j.config}
		if j.unit >= nGen {
			job.Index, job.Inline = -1, units[j.unit]
		}
		return job
	}
	wzout := map[jd][]watexec.Outcome{}
	var wmu sync.Mutex
	horizon := 20 * time.Minute
	handle := func(j jd, res mc.Result, final bool) (retry bool) {
		u := units[j.unit]
		if res.Status != "ok" {
			if !final {
				return true
			}
			addCand(cand{j.unit * 1000000, fmt.Sprintf("engine-%s|%s|%s", res.Status, u.Name, j.config),
				fmt.Sprintf("%s on %s: the worker process %s on all 5 solo re-runs: %s", u.Name, j.config, res.Status, clip(res.Stderr, 600)),
				map[string]interface{}{"unit": u.Name, "config": j.config, "wat": clip(u.Text, 4000), "stderr": clip(res.Stderr, 2000)}})
			return false
		}
		var wr watexec.WzResult
		if err := json.Unmarshal(res.Out, &wr); err != nil {
			r.HarnessError("%s on %s: bad worker answer: %v", u.Name, j.config, err)
			return false
		}
		if wr.Err != "" {
			if strings.HasPrefix(wr.Err, "harness:") {
				r.HarnessError("%s: %s", u.Name, wr.Err)
				return false
			}
			addCand(cand{j.unit * 1000000, fmt.Sprintf("embedded-engine-refuses-module|%s|%s", u.Family, j.config),
				fmt.Sprintf("%s: V8 runs the module, %s does not: %s", u.Name, j.config, wr.Err), map[string]interface{}{"unit": u.Name, "config": j.config, "error": wr.Err, "wat": clip(u.Text, 4000)}})
			return false
		}
		if len(wr.Out) != len(u.Calls) {
			r.HarnessError("%s on %s: %d outcomes for %d calls", u.Name, j.config, len(wr.Out), len(u.Calls))
			return false
		}
		wmu.Lock()
		wzout[j] = wr.Out
		wmu.Unlock()
		return false
	}
	var retry []jd
	pool.Run(len(jobs), func(i int) interface{} { return mkJob(jobs[i]) }, horizon, func(res mc.Result) {
		if handle(jobs[res.Index], res, false) {
			wmu.Lock()
			retry = append(retry, jobs[res.Index])
			wmu.Unlock()
		}
	})
	for _, j := range retry {
		// a crash / hang is re-run alone 5 times before it is believed
		var last mc.Result
		ok := false
		for k := 0; k < 5 && !ok; k++ {
			solo := mc.NewPool(1, nil)
			solo.Run(1, func(int) interface{} { return mkJob(j) }, horizon, func(res mc.Result) { last = res })
			solo.Close()
			if last.Status == "ok" {
				ok = true
			}
		}
		if ok {
			r.HarnessError("%s on %s: worker crashed/hung once but not when re-run alone (flaky)", units[j.unit].Name, j.config)
		}
		handle(j, last, true)
	}
	lap("wazero done")

	// compare
	trapSeen := map[string]map[string]bool{"v8": {}, watexec.WzCompiler: {}, watexec.WzInterpreter: {}}
	nanExact, memDistinct := 0, map[string]bool{}
	for i, u := range units {
		ref := v8out[i]
		if ref == nil {
			continue
		}
		local := map[string]bool{}
		for ci := range u.Calls {
			c := &u.Calls[ci]
			s := c.Instr + "|" + u.Canon(c, &ref[ci])
			if !local[s] {
				local[s] = true
				r.Distinct(s)
			}
			if ref[ci].Trap != "" {
				trapSeen["v8"][ref[ci].Trap] = true
			}
			if ref[ci].Mem != "" {
				memDistinct[ref[ci].Mem] = true
			}
			if ref[ci].Trap == "" && !u.Funcs[c.Fn].ArithNaN {
				for k, t := range u.Funcs[c.Fn].Sig.Results {
					w := 64
					if t.String() == "f32" {
						w = 32
					}
					if (t.String() == "f32" || t.String() == "f64") && k < len(ref[ci].Res) {
						if nan, _ := watexec.IsNaN(ref[ci].Res[k], w); nan {
							nanExact++
						}
					}
				}
			}
		}
		for _, cfg := range configs {
			got := wzout[jd{i, cfg}]
			if got == nil {
				continue
			}
			r.Evals.Add(int64(len(u.Calls)))
			for ci := range u.Calls {
				c := &u.Calls[ci]
				if got[ci].Trap != "" {
					trapSeen[cfg][got[ci].Trap] = true
				}
				d := u.Diff(c, &ref[ci], &got[ci])
				if d == "" {
					continue
				}
				key := fmt.Sprintf("%s|%s|%s|%s", c.Instr, c.Class, cfg, d)
				what := fmt.Sprintf("%s: %s [%s] on %s gives %s, V8 gives %s", u.Name, c.ArgString(), c.Desc, cfg, u.Canon(c, &got[ci]), u.Canon(c, &ref[ci]))
				addCand(cand{i*1000000 + ci, key, what, map[string]interface{}{
					"unit": u.Name, "call": c, "config": cfg, "differs": d,
					"embedded": got[ci], "v8": ref[ci], "wat": clip(u.Text, 6000)}})
			}
		}
		if r.WantSample() && len(u.Calls) > 0 && (i%37 == 0) {
			c := &u.Calls[len(u.Calls)/2]
			r.Sample(map[string]interface{}{"unit": u.Name, "call": c.ArgString(), "operands": c.Desc, "v8": u.Canon(c, &ref[len(u.Calls)/2])})
		}
	}
	lap("compared")

	// replay: every differing unit is run once more in a fresh worker and must differ the same way
	sort.SliceStable(cands, func(a, b int) bool { return cands[a].order < cands[b].order })
	replayed := map[jd][]watexec.Outcome{}
	for _, c := range cands {
		rp, ok := c.replay.(map[string]interface{})
		if !ok || rp["call"] == nil {
			continue
		}
		i, ci := c.order/1000000, c.order%1000000
		j := jd{i, rp["config"].(string)}
		if _, done := replayed[j]; !done {
			solo := mc.NewPool(1, nil)
			solo.Run(1, func(int) interface{} { return mkJob(j) }, horizon, func(res mc.Result) {
				var wr watexec.WzResult
				if res.Status == "ok" && json.Unmarshal(res.Out, &wr) == nil {
					replayed[j] = wr.Out
				} else {
					replayed[j] = nil
				}
			})
			solo.Close()
		}
		again := replayed[j]
		u := units[i]
		if again == nil || len(again) != len(u.Calls) || u.Canon(&u.Calls[ci], &again[ci]) != u.Canon(&u.Calls[ci], &wzout[j][ci]) {
			r.HarnessError("%s call %d on %s: the difference did not reproduce in a fresh process", u.Name, ci, j.config)
		}
	}
	for _, c := range cands {
		r.Report(c.key, c.what, c.replay)
	}

	// vacuity guards
	nCalls := 0
	for i, u := range units {
		if v8out[i] != nil {
			nCalls += len(u.Calls)
		}
	}
	r.Extra("units", len(units))
	r.Extra("corpus_units", len(units)-nGen)
	r.Extra("calls_per_engine", nCalls)
	r.Extra("engines", append([]string{"v8 (node)"}, configs...))
	r.Extra("nan_payload_exact_results", nanExact)
	r.Extra("distinct_memory_states", len(memDistinct))
	for eng, m := range trapSeen {
		var l []string
		for k := range m {
			l = append(l, k)
		}
		sort.Strings(l)
		r.Extra("trap_classes_"+eng, l)
	}
	for _, cls := range []string{watexec.TrapDivZero, watexec.TrapOverflow, watexec.TrapOOB, watexec.TrapUnreach, watexec.TrapIndirect, watexec.TrapStack} {
		if !trapSeen["v8"][cls] {
			r.HarnessError("vacuous: trap class %q never observed on V8", cls)
		}
	}
	if nanExact < 50 {
		r.HarnessError("vacuous: only %d results carried a NaN that must be bit-exact", nanExact)
	}
	if len(memDistinct) < 200 {
		r.HarnessError("vacuous: only %d distinct memory states", len(memDistinct))
	}
	if r.DistinctCount() < 5000 {
		r.HarnessError("vacuous: only %d distinct outcomes", r.DistinctCount())
	}
	if len(units)-nGen < len(corpus) {
		r.HarnessError("only %d of %d corpus programs ran", len(units)-nGen, len(corpus))
	}
	r.Finish()
}
