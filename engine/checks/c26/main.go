//go:build go1.21

// C26: debug-adapter messages survive WriteProtocolMessage -> byte stream -> ReadProtocolMessage,
// whatever the message contents and however the stream is split into reads.
//
// Three exhaustive sweeps over the real go-dap code, all through a bufio.Reader of size 16 on top
// of a transport the check controls (chunkio):
//
//   content  every constructor registered in the default codec's request/response/event tables
//            (plus, per response command, the ErrorResponse that success:false decodes to) x every
//            assignment with at most 2 (3 thorough) field slots deviating from the zero value,
//            values from per-kind alphabets, found by reflection; one message per stream, read
//            unsplit and with one-byte reads;
//   framing  every registered type x at most 1 deviating slot x every chunking of the stream with
//            at most 2 split points, plus one-byte reads;
//   streams  every sequence of 2 and 3 messages over a fixed representative set x every chunking
//            with at most 2 split points, plus one-byte reads.
//
// Oracle: same dynamic type and json.Marshal(out) == json.Marshal(in).
package main

import (
	"bufio"
	"bytes"
	"encoding/json"
	"errors"
	"fmt"
	"io"
	"reflect"
	"runtime/debug"
	"sort"
	"strings"
	"sync"
	"sync/atomic"

	dap "wa-lang.org/wa/internal/3rdparty/go-dap"
	"wa-lang.org/wa/internal/zzverif/chunkio"
	"wa-lang.org/wa/internal/zzverif/mc"
)

// ---------------------------------------------------------------------------------------------
// value alphabets (zero value first is implicit: a slot lists only its non-zero values)

type val struct {
	class string // value class used in violation keys
	desc  string
	v     reflect.Value // assignable to the slot's type (converted at build time)
}

var (
	strAlphabet = []struct{ class, s string }{
		{"str-ascii", "a"}, {"str-nonascii", "é😀"}, {"str-crlfcrlf", "\r\n\r\n"}, {"str-header", "Content-Length: 1"},
	}
	intAlphabet = []struct {
		class string
		i     int64
	}{{"int-1", 1}, {"int-neg", -1}, {"int-2^31-1", 1<<31 - 1}, {"int-2^53", 1 << 53}}
	rawAlphabet = []struct{ class, s string }{
		{"raw-object", `{}`},
		{"raw-object", `{"program":"a","é":[1,-1.5e3,null,true],"n":{"x":"\r\n\r\n"}}`},
		{"raw-array", `[]`},
		{"raw-scalar", `"Content-Length: 1"`},
		{"raw-scalar", `1`},
		{"raw-null", `null`},
	}
)

func ifaceValues() []val {
	return []val{
		{"iface-string", `"s"`, reflect.ValueOf("s")},
		{"iface-number", `1.0`, reflect.ValueOf(1.0)},
		{"iface-map", `{"k":"v"}`, reflect.ValueOf(map[string]interface{}{"k": "v"})},
	}
}

var rawMessageType = reflect.TypeOf(json.RawMessage(nil))

type getter func(root reflect.Value) reflect.Value

type slot struct {
	path string
	get  getter
	vals []val
}

// isFixed: protocol-fixed fields are set by the generator, consistently with the constructor
// table the type was taken from; they are not slots.
func isFixed(path string) bool {
	switch path {
	case "Type", "Command", "Event", "Success":
		return true
	}
	return false
}

func scalarVals(t reflect.Type) ([]val, bool) {
	var out []val
	switch t.Kind() {
	case reflect.String:
		for _, a := range strAlphabet {
			out = append(out, val{a.class, fmt.Sprintf("%q", a.s), reflect.ValueOf(a.s).Convert(t)})
		}
	case reflect.Int, reflect.Int64:
		for _, a := range intAlphabet {
			out = append(out, val{a.class, fmt.Sprint(a.i), reflect.ValueOf(a.i).Convert(t)})
		}
	case reflect.Bool:
		out = append(out, val{"bool-true", "true", reflect.ValueOf(true).Convert(t)})
	default:
		return nil, false
	}
	return out, true
}

type builder struct {
	maxDepth int
	slots    []slot
	err      []string
}

func (b *builder) structSlots(t reflect.Type, get getter, path string, depth int) {
	for i := 0; i < t.NumField(); i++ {
		f := t.Field(i)
		idx := i
		fget := func(root reflect.Value) reflect.Value { return get(root).Field(idx) }
		if f.Anonymous && f.Type.Kind() == reflect.Struct {
			b.structSlots(f.Type, fget, path, depth)
			continue
		}
		name := f.Name
		if path != "" {
			name = path + "." + f.Name
		}
		if isFixed(name) {
			continue
		}
		if !f.IsExported() {
			b.err = append(b.err, "unexported field "+name)
			continue
		}
		b.fieldSlots(f.Type, fget, name, depth)
	}
}

func (b *builder) fieldSlots(ft reflect.Type, fget getter, name string, depth int) {
	set := func(vals []val) { b.slots = append(b.slots, slot{name, fget, vals}) }
	if vals, ok := scalarVals(ft); ok {
		set(vals)
		return
	}
	switch ft.Kind() {
	case reflect.Interface:
		if ft.NumMethod() != 0 {
			b.err = append(b.err, "non-empty interface field "+name)
			return
		}
		set(ifaceValues())
	case reflect.Map:
		if ft.Key().Kind() != reflect.String {
			b.err = append(b.err, "map key kind at "+name)
			return
		}
		vals := []val{{"map-empty", "{}", reflect.MakeMap(ft)}}
		switch ft.Elem().Kind() {
		case reflect.String:
			m1 := reflect.MakeMap(ft)
			m1.SetMapIndex(reflect.ValueOf("k"), reflect.ValueOf("v"))
			m2 := reflect.MakeMap(ft)
			m2.SetMapIndex(reflect.ValueOf("é😀"), reflect.ValueOf("\r\n\r\n"))
			m2.SetMapIndex(reflect.ValueOf("Content-Length: 1"), reflect.ValueOf(""))
			vals = append(vals, val{"map-one", `{"k":"v"}`, m1}, val{"map-two-special", `{"é😀":"\r\n\r\n","Content-Length: 1":""}`, m2})
		case reflect.Interface:
			m1 := reflect.MakeMap(ft)
			m1.SetMapIndex(reflect.ValueOf("k"), reflect.ValueOf("s"))
			m2 := reflect.MakeMap(ft)
			m2.SetMapIndex(reflect.ValueOf("é😀"), reflect.ValueOf(1.0))
			m2.SetMapIndex(reflect.ValueOf("m"), reflect.ValueOf(map[string]interface{}{"x": nil}))
			vals = append(vals, val{"map-one", `{"k":"s"}`, m1}, val{"map-two-special", `{"é😀":1.0,"m":{"x":null}}`, m2})
		default:
			b.err = append(b.err, "map elem kind at "+name)
			return
		}
		set(vals)
	case reflect.Slice:
		if ft == rawMessageType {
			var vals []val
			for _, a := range rawAlphabet {
				vals = append(vals, val{a.class, a.s, reflect.ValueOf(json.RawMessage(a.s))})
			}
			set(vals)
			return
		}
		et := ft.Elem()
		one := reflect.MakeSlice(ft, 1, 1)
		vals := []val{{"slice-empty", "[]", reflect.MakeSlice(ft, 0, 0)}, {"slice-one-zero", "[zero]", one}}
		if ev, ok := scalarVals(et); ok {
			for _, e := range ev {
				s := reflect.MakeSlice(ft, 1, 1)
				s.Index(0).Set(e.v)
				vals = append(vals, val{"slice-one-" + e.class, "[" + e.desc + "]", s})
			}
			set(vals)
			return
		}
		if et.Kind() != reflect.Struct {
			b.err = append(b.err, "slice elem kind at "+name)
			return
		}
		set(vals)
		if depth < b.maxDepth {
			eget := func(root reflect.Value) reflect.Value {
				v := fget(root)
				if v.Len() == 0 {
					v.Set(reflect.MakeSlice(ft, 1, 1))
				}
				return v.Index(0)
			}
			b.structSlots(et, eget, name+"[0]", depth+1)
		}
	case reflect.Ptr:
		et := ft.Elem()
		if et.Kind() != reflect.Struct {
			b.err = append(b.err, "pointer elem kind at "+name)
			return
		}
		set([]val{{"ptr-zero", "&{}", reflect.Value{}}}) // allocated per message, see apply
		if depth < b.maxDepth {
			pget := func(root reflect.Value) reflect.Value {
				v := fget(root)
				if v.IsNil() {
					v.Set(reflect.New(et))
				}
				return v.Elem()
			}
			b.structSlots(et, pget, name, depth+1)
		}
	case reflect.Struct:
		if depth < b.maxDepth {
			b.structSlots(ft, fget, name, depth+1)
		}
	default:
		b.err = append(b.err, fmt.Sprintf("unsupported kind %s at %s", ft.Kind(), name))
	}
}

func apply(root reflect.Value, s *slot, v *val) {
	dst := s.get(root)
	if v.class == "ptr-zero" {
		dst.Set(reflect.New(dst.Type().Elem()))
		return
	}
	dst.Set(v.v)
}

// overlapping: one slot lies inside the other (setting both equals setting the inner one).
func overlapping(a, b string) bool {
	if len(a) > len(b) {
		a, b = b, a
	}
	return strings.HasPrefix(b, a) && (len(a) == len(b) || b[len(a)] == '.' || b[len(a)] == '[')
}

// ---------------------------------------------------------------------------------------------
// message types

type msgType struct {
	category string // request, response, error-response, event
	name     string // category:key
	typ      reflect.Type
	fix      func(m dap.Message)
	slots    []slot
}

func collectTypes(maxDepth int) ([]*msgType, []string) {
	req, resp, ev := dap.VerifCtorTables()
	var out []*msgType
	var errs []string
	add := func(category, key string, typ reflect.Type, fix func(dap.Message)) {
		b := &builder{maxDepth: maxDepth}
		b.structSlots(typ, func(root reflect.Value) reflect.Value { return root }, "", 0)
		for _, e := range b.err {
			errs = append(errs, category+":"+key+": "+e)
		}
		out = append(out, &msgType{category, category + ":" + key, typ, fix, b.slots})
	}
	keys := func(m map[string]func() dap.Message) []string {
		var ks []string
		for k := range m {
			ks = append(ks, k)
		}
		sort.Strings(ks)
		return ks
	}
	for _, k := range keys(req) {
		k := k
		m := req[k]()
		if _, ok := m.(dap.RequestMessage); !ok {
			errs = append(errs, "request ctor "+k+" does not build a RequestMessage")
			continue
		}
		add("request", k, reflect.TypeOf(m).Elem(), func(m dap.Message) {
			q := m.(dap.RequestMessage).GetRequest()
			q.Type, q.Command = "request", k
		})
	}
	for _, k := range keys(resp) {
		k := k
		m := resp[k]()
		if _, ok := m.(dap.ResponseMessage); !ok {
			errs = append(errs, "response ctor "+k+" does not build a ResponseMessage")
			continue
		}
		add("response", k, reflect.TypeOf(m).Elem(), func(m dap.Message) {
			q := m.(dap.ResponseMessage).GetResponse()
			q.Type, q.Command, q.Success = "response", k, true
		})
		add("error-response", k, reflect.TypeOf(dap.ErrorResponse{}), func(m dap.Message) {
			q := m.(dap.ResponseMessage).GetResponse()
			q.Type, q.Command, q.Success = "response", k, false
		})
	}
	for _, k := range keys(ev) {
		k := k
		m := ev[k]()
		if _, ok := m.(dap.EventMessage); !ok {
			errs = append(errs, "event ctor "+k+" does not build an EventMessage")
			continue
		}
		add("event", k, reflect.TypeOf(m).Elem(), func(m dap.Message) {
			q := m.(dap.EventMessage).GetEvent()
			q.Type, q.Event = "event", k
		})
	}
	// Constructor defaults: the decoder starts from ctor(), so a zero field that is omitted on
	// the wire reads back as the default. Known and documented: initialize (see expected()).
	for cat, tab := range map[string]map[string]func() dap.Message{"request": req, "response": resp, "event": ev} {
		for k, c := range tab {
			v := reflect.ValueOf(c()).Elem()
			if v.IsZero() {
				continue
			}
			ir, ok := v.Addr().Interface().(*dap.InitializeRequest)
			want := dap.InitializeRequest{Arguments: dap.InitializeRequestArguments{LinesStartAt1: true, ColumnsStartAt1: true, PathFormat: "path"}}
			if !(cat == "request" && k == "initialize" && ok && reflect.DeepEqual(*ir, want)) {
				errs = append(errs, fmt.Sprintf("constructor %s:%s has defaults the check does not know about: %+v", cat, k, v.Interface()))
			}
		}
	}
	return out, errs
}

type dev struct {
	slot int
	val  int
}

// build makes the message of type t with the given deviations applied.
func (t *msgType) build(devs []dev) dap.Message {
	p := reflect.New(t.typ)
	root := p.Elem()
	t.fix(p.Interface().(dap.Message))
	for _, d := range devs {
		apply(root, &t.slots[d.slot], &t.slots[d.slot].vals[d.val])
	}
	return p.Interface().(dap.Message)
}

func (t *msgType) describe(devs []dev) string {
	if len(devs) == 0 {
		return t.name + " {zero}"
	}
	parts := make([]string, len(devs))
	for i, d := range devs {
		parts[i] = t.slots[d.slot].path + "=" + t.slots[d.slot].vals[d.val].desc
	}
	return t.name + " {" + strings.Join(parts, ", ") + "}"
}

func (t *msgType) feature(devs []dev) string {
	if len(devs) == 0 {
		return "zero"
	}
	cs := make([]string, len(devs))
	for i, d := range devs {
		cs[i] = t.slots[d.slot].vals[d.val].class
	}
	sort.Strings(cs)
	return strings.Join(cs, "+")
}

// expected is json.Marshal(in), after replacing the one documented decoder default:
// schematypes.go builds InitializeRequest with "the default values specified here:
// .../specification#Requests_Initialize" (pathFormat 'path'); pathFormat is omitempty, so an unset
// PathFormat is the same protocol message as "path".
func expected(in dap.Message) ([]byte, error) {
	if ir, ok := in.(*dap.InitializeRequest); ok && ir.Arguments.PathFormat == "" {
		c := *ir
		c.Arguments.PathFormat = "path"
		return json.Marshal(&c)
	}
	return json.Marshal(in)
}

// ---------------------------------------------------------------------------------------------
// one stream, one chunking

type item struct {
	msg      dap.Message
	typ      reflect.Type // pointer type
	want     []byte
	category string
	feature  string
	desc     string
}

type failure struct {
	idx     int
	symptom string
	what    string
}

func errClass(err error) string {
	var bpe *dap.BaseProtocolError
	var fe *dap.DecodeProtocolMessageFieldError
	var se *json.SyntaxError
	var ute *json.UnmarshalTypeError
	switch {
	case errors.Is(err, io.EOF), errors.Is(err, io.ErrUnexpectedEOF):
		return "eof"
	case errors.As(err, &bpe):
		return "base-protocol"
	case errors.As(err, &fe):
		return "unsupported-field"
	case errors.As(err, &se), errors.As(err, &ute):
		return "json"
	}
	return "other"
}

func readBack(items []item, br *bufio.Reader) (f *failure) {
	i := 0
	var perr interface{}
	func() {
		defer func() { perr = recover() }()
		for i = 0; i < len(items); i++ {
			out, err := dap.ReadProtocolMessage(br)
			if err != nil {
				f = &failure{i, "error-" + errClass(err), fmt.Sprintf("message %d: ReadProtocolMessage error: %v", i, err)}
				return
			}
			if reflect.TypeOf(out) != items[i].typ {
				f = &failure{i, "type-differs", fmt.Sprintf("message %d: read back as %T, written as %s", i, out, items[i].typ)}
				return
			}
			got, err := json.Marshal(out)
			if err != nil {
				f = &failure{i, "error-remarshal", fmt.Sprintf("message %d: json.Marshal of the decoded message: %v", i, err)}
				return
			}
			if !bytes.Equal(got, items[i].want) {
				f = &failure{i, "json-differs", fmt.Sprintf("message %d: read back as %s, written %s", i, clip(got), clip(items[i].want))}
				return
			}
		}
	}()
	if perr != nil {
		f = &failure{i, "panic", fmt.Sprintf("message %d: panic %v", i, perr)}
	}
	return f
}

func clip(b []byte) string {
	if len(b) > 400 {
		return string(b[:400]) + "…"
	}
	return string(b)
}

func writeStream(items []item) ([]byte, error) {
	var buf bytes.Buffer
	for _, it := range items {
		if err := dap.WriteProtocolMessage(&buf, it.msg); err != nil {
			return nil, err
		}
	}
	return buf.Bytes(), nil
}

// ---------------------------------------------------------------------------------------------
// deterministic witness selection

type witness struct {
	rank   [4]int64
	what   string
	replay interface{}
}

type collector struct {
	mu sync.Mutex
	m  map[string]*witness
}

func (c *collector) add(key string, rank [4]int64, what string, replay interface{}) {
	c.mu.Lock()
	defer c.mu.Unlock()
	if w, ok := c.m[key]; ok && !less(rank, w.rank) {
		return
	}
	c.m[key] = &witness{rank, what, replay}
}

func less(a, b [4]int64) bool {
	for i := range a {
		if a[i] != b[i] {
			return a[i] < b[i]
		}
	}
	return false
}

type runner struct {
	r         *mc.Run
	col       *collector
	maxSplits int
	failedTyp sync.Map // msgType name -> true once a content failure was seen for it
}

// explore writes the stream and reads it back under the chunkings chosen by mode
// ("ends": unsplit + one-byte reads; "all": every chunking with <= maxSplits split points + one-byte
// reads). Returns whether a failure was seen.
func (x *runner) explore(items []item, mode string, rank [3]int64, cr *chunkio.Reader, br *bufio.Reader, evals *int64) bool {
	replay := func(stream []byte, cuts []int, ones bool) map[string]interface{} {
		ms := make([]map[string]interface{}, len(items))
		for i, it := range items {
			ms[i] = map[string]interface{}{"go_type": it.typ.String(), "what": it.desc, "json": string(it.want)}
		}
		return map[string]interface{}{"messages": ms, "stream": string(stream), "split_points": append([]int{}, cuts...), "one_byte_reads": ones}
	}
	descs := make([]string, len(items))
	for i, it := range items {
		descs[i] = it.desc
	}
	all := strings.Join(descs, " ; ")
	var stream []byte
	var werr error
	if p := mc.Recover(func() { stream, werr = writeStream(items) }); p != "" {
		werr = fmt.Errorf("panic: %s", p)
	}
	*evals++
	if werr != nil {
		x.col.add("write-error|"+items[0].category+"|"+items[0].feature, [4]int64{rank[0], rank[1], rank[2], -1}, all+": WriteProtocolMessage: "+werr.Error(), replay(nil, nil, false))
		return true
	}
	failed := false
	unsplitFailed := false
	ci := int64(0)
	try := func(cuts []int, ones bool) bool {
		cr.Reset(stream, cuts, ones)
		br.Reset(cr)
		*evals++
		f := readBack(items, br)
		if f != nil {
			failed = true
			if len(cuts) == 0 && !ones {
				unsplitFailed = true
			}
			dep := "only-when-split"
			if unsplitFailed {
				dep = "any-chunking"
			}
			pos := "first-message"
			if f.idx > 0 {
				pos = "later-message"
			}
			it := items[f.idx]
			key := f.symptom + "|" + it.category + "|" + it.feature + "|" + dep + "|" + pos
			x.col.add(key, [4]int64{rank[0], rank[1], rank[2], ci}, fmt.Sprintf("%s, reads %s %v: %s", all, chunkio.Class(cuts, ones), cuts, f.what), replay(stream, cuts, ones))
			x.r.Distinct("fault:" + f.symptom)
			return false
		}
		ci++
		return true
	}
	if mode == "ends" {
		if try(nil, false) {
			try(nil, true)
		}
	} else {
		chunkio.ForEach(len(stream), x.maxSplits, try)
	}
	return failed
}

func (t *msgType) item(devs []dev) (item, error) {
	m := t.build(devs)
	want, err := expected(m)
	if err != nil {
		return item{}, err
	}
	return item{m, reflect.TypeOf(m), want, t.category, t.feature(devs), t.describe(devs)}, nil
}

// forEachAssignment enumerates the assignments of exactly k deviating slots whose first slot is
// `first` (or all first slots when first < 0).
func (t *msgType) forEachAssignment(k, first int, f func(devs []dev)) {
	devs := make([]dev, 0, k)
	var rec func(from int)
	rec = func(from int) {
		if len(devs) == k {
			f(devs)
			return
		}
		lo, hi := from, len(t.slots)
		if len(devs) == 0 && first >= 0 {
			lo, hi = first, first+1
		}
		for s := lo; s < hi; s++ {
			clash := false
			for _, d := range devs {
				if overlapping(t.slots[d.slot].path, t.slots[s].path) {
					clash = true
					break
				}
			}
			if clash {
				continue
			}
			for v := range t.slots[s].vals {
				devs = append(devs, dev{s, v})
				rec(s + 1)
				devs = devs[:len(devs)-1]
			}
		}
	}
	rec(0)
}

func main() {
	// short-lived allocations only: collect when the heap reaches the limit, not every few MB
	debug.SetGCPercent(-1)
	debug.SetMemoryLimit(1 << 30)
	r := mc.Start("C26")
	r.Rule("content sweep: every registered message type x every assignment of <=k deviating field slots (reflection, per-kind alphabets), each written by WriteProtocolMessage and read back by ReadProtocolMessage unsplit and with one-byte reads; framing sweep: every type x <=1 deviation x every chunking with <=2 split points; stream sweep: every 2- and 3-sequence over a representative set x every such chunking; all through bufio.NewReaderSize(transport, 16). evaluations = (stream, chunking) executions; distinct_nontrivial = distinct JSON bodies written (content sweep) with at least one deviating slot")
	if msg := chunkio.SelfTest(); msg != "" {
		r.HarnessError("%s", msg)
		r.Finish()
	}
	maxDev := mc.Pick(r, 2, 3)
	maxDepth := 2
	types, errs := collectTypes(maxDepth)
	for _, e := range errs {
		r.HarnessError("type walk: %s", e)
	}
	if len(errs) > 0 {
		r.Finish()
	}
	nslots, nvals := 0, 0
	cats := map[string]int{}
	for _, t := range types {
		cats[t.category]++
		nslots += len(t.slots)
		for _, s := range t.slots {
			nvals += len(s.vals)
		}
	}
	r.Bound("message_types", cats)
	r.Bound("field_slots_total", nslots)
	r.Bound("non_zero_slot_values_total", nvals)
	r.Bound("max_deviating_slots_content", maxDev)
	r.Bound("max_deviating_slots_framing", 1)
	r.Bound("struct_nesting", "message -> arguments/body -> one further struct level (through pointers and element 0 of slices); deeper structs only as nil/&{}/[]/[{}]")
	r.Bound("alphabets", map[string]interface{}{
		"string": []string{"", "a", "é😀", "\r\n\r\n", "Content-Length: 1"}, "int": []int64{0, 1, -1, 1<<31 - 1, 1 << 53}, "bool": []bool{false, true},
		"slice": "nil, empty, [zero], [each non-zero scalar]", "map": "nil, empty, one entry, two entries with special keys/values",
		"interface{}": []string{"nil", `"s"`, "1.0", `{"k":"v"}`}, "json.RawMessage": []string{"nil", `{}`, `{"program":"a","é":[1,-1.5e3,null,true],"n":{"x":"\r\n\r\n"}}`, `[]`, `"Content-Length: 1"`, `1`, `null`},
	})
	r.Bound("max_split_points", 2)
	r.Bound("bufio_reader_size", 16)
	r.Assume("protocol-fixed fields are set as the constructor tables require: type = request/response/event, command/event = the table key, success = true for registered response types; success:false responses are generated as ErrorResponse for every registered command because decodeResponse maps them there by protocol design")
	r.Assume("equality of messages is json.Marshal equality (omitempty makes nil/empty and interface{} number types indistinguishable on the wire)")
	r.Assume("InitializeRequest with PathFormat \"\" is compared as PathFormat \"path\": schematypes.go builds the type with 'the default values specified here: https://microsoft.github.io/debug-adapter-protocol/specification#Requests_Initialize' and pathFormat is omitempty, so both are the same protocol message; every other constructor was checked to start from the zero value")
	r.Assume("json.RawMessage arguments hold valid JSON (json.Marshal rejects anything else before a byte is written)")
	r.Assume("transport: every Read returns >= 1 byte until the end of the stream, then (0, io.EOF)")

	x := &runner{r: r, col: &collector{m: map[string]*witness{}}, maxSplits: 2}
	var sweepEvals [3]atomic.Int64
	var sweepCases [3]atomic.Int64
	symptomFree := true

	// ---- content sweep, level by level (a type with a failure at level k is not taken to k+1)
	type cjob struct {
		ti, level, first int
	}
	for level := 0; level <= maxDev; level++ {
		var jobs []cjob
		for ti, t := range types {
			if _, bad := x.failedTyp.Load(t.name); bad {
				continue
			}
			if level <= 1 {
				jobs = append(jobs, cjob{ti, level, -1})
				continue
			}
			for s := range t.slots {
				jobs = append(jobs, cjob{ti, level, s})
			}
		}
		mc.ParallelFor(len(jobs), func(ji int) {
			if r.Expired() {
				r.Cap("deadline (content sweep)")
				return
			}
			jb := jobs[ji]
			t := types[jb.ti]
			var cr chunkio.Reader
			br := bufio.NewReaderSize(&cr, 16)
			var evals, cases int64
			n := int64(0)
			local := map[string]struct{}{}
			t.forEachAssignment(jb.level, jb.first, func(devs []dev) {
				n++
				it, err := t.item(devs)
				if err != nil {
					r.HarnessError("generator built an unmarshalable message %s: %v", t.describe(devs), err)
					return
				}
				cases++
				if len(devs) > 0 {
					local[string(it.want)] = struct{}{}
				}
				if jb.level == 2 && r.WantSample() {
					r.Sample(map[string]interface{}{"sweep": "content", "message": it.desc, "json": string(it.want)})
				}
				if x.explore([]item{it}, "ends", [3]int64{int64(jb.level), int64(jb.ti), int64(jb.first+1)<<32 | n}, &cr, br, &evals) {
					x.failedTyp.Store(t.name, true)
				}
			})
			for s := range local {
				r.Distinct(s)
			}
			sweepEvals[0].Add(evals)
			sweepCases[0].Add(cases)
		})
	}
	x.failedTyp.Range(func(k, v interface{}) bool { symptomFree = false; return false })

	// ---- framing sweep: every type, <= 1 deviation, every chunking.
	// thorough: every single-slot deviation of every type. quick: the zero message of every type,
	// and per message category one witness (the first type/slot in table order) for every value class.
	framingAll := r.Thorough()
	r.Bound("framing_single_deviations", mc.Pick(r, "per category, the first slot carrying each value class", "every slot x every value of every type"))
	{
		type fjob struct{ ti, slot, val int } // slot -1: the zero message; val -1: every value
		var jobs []fjob
		seenClass := map[string]bool{}
		for ti, t := range types {
			if _, bad := x.failedTyp.Load(t.name); bad {
				continue // already reported by the content sweep; its framing cannot be judged
			}
			jobs = append(jobs, fjob{ti, -1, -1})
			for s := range t.slots {
				if framingAll {
					jobs = append(jobs, fjob{ti, s, -1})
					continue
				}
				for v := range t.slots[s].vals {
					k := t.category + "|" + t.slots[s].vals[v].class
					if !seenClass[k] {
						seenClass[k] = true
						jobs = append(jobs, fjob{ti, s, v})
					}
				}
			}
		}
		mc.ParallelFor(len(jobs), func(ji int) {
			if r.Expired() {
				r.Cap("deadline (framing sweep)")
				return
			}
			jb := jobs[ji]
			t := types[jb.ti]
			var cr chunkio.Reader
			br := bufio.NewReaderSize(&cr, 16)
			var evals, cases int64
			level := 1
			if jb.slot < 0 {
				level = 0
			}
			n := int64(0)
			t.forEachAssignment(level, jb.slot, func(devs []dev) {
				n++
				if jb.val >= 0 && devs[0].val != jb.val {
					return
				}
				it, err := t.item(devs)
				if err != nil {
					return
				}
				cases++
				if level == 1 && (n == 2 || jb.val >= 0) && r.WantSample() {
					r.Sample(map[string]interface{}{"sweep": "framing", "message": it.desc, "json": string(it.want), "chunkings": chunkio.Count(len(it.want)+22, 2)})
				}
				x.explore([]item{it}, "all", [3]int64{10, int64(jb.ti), int64(jb.slot+1)<<32 | n}, &cr, br, &evals)
			})
			sweepEvals[1].Add(evals)
			sweepCases[1].Add(cases)
		})
	}

	// ---- stream sweep
	reps := representatives()
	r.Bound("stream_representatives", len(reps))
	tripleSet := mc.Pick(r, 3, 6)
	pairSet := mc.Pick(r, 6, len(reps))
	r.Bound("stream_lengths", fmt.Sprintf("2 over the first %d representatives; 3 over the first %d", pairSet, tripleSet))
	{
		var seqs [][]int
		for a := 0; a < pairSet; a++ {
			for b := 0; b < pairSet; b++ {
				seqs = append(seqs, []int{a, b})
			}
		}
		for a := 0; a < tripleSet; a++ {
			for b := 0; b < tripleSet; b++ {
				for c := 0; c < tripleSet; c++ {
					seqs = append(seqs, []int{a, b, c})
				}
			}
		}
		mc.ParallelFor(len(seqs), func(si int) {
			if r.Expired() {
				r.Cap("deadline (stream sweep)")
				return
			}
			var cr chunkio.Reader
			br := bufio.NewReaderSize(&cr, 16)
			items := make([]item, len(seqs[si]))
			for i, k := range seqs[si] {
				items[i] = reps[k]
			}
			var evals int64
			if si == 9 && r.WantSample() {
				r.Sample(map[string]interface{}{"sweep": "streams", "messages": []string{items[0].desc, items[1].desc}})
			}
			x.explore(items, "all", [3]int64{20, int64(len(items)), int64(si)}, &cr, br, &evals)
			sweepEvals[2].Add(evals)
			sweepCases[2].Add(1)
		})
	}

	total := int64(0)
	for i := range sweepEvals {
		total += sweepEvals[i].Load()
	}
	r.Evals.Add(total)
	r.Extra("executions_by_sweep", map[string]int64{"content": sweepEvals[0].Load(), "framing": sweepEvals[1].Load(), "streams": sweepEvals[2].Load()})
	r.Extra("streams_by_sweep", map[string]int64{"content": sweepCases[0].Load(), "framing": sweepCases[1].Load(), "streams": sweepCases[2].Load()})

	keys := make([]string, 0, len(x.col.m))
	for k := range x.col.m {
		keys = append(keys, k)
	}
	sort.Strings(keys)
	for _, k := range keys {
		w := x.col.m[k]
		r.Report(k, w.what, w.replay)
	}
	if symptomFree && len(keys) == 0 {
		if len(types) < 100 || nslots < 1000 {
			r.HarnessError("vacuous: only %d message types / %d slots found by reflection", len(types), nslots)
		}
		if int64(r.DistinctCount()) < sweepCases[0].Load()/4 {
			r.HarnessError("vacuous: %d distinct JSON bodies for %d generated messages", r.DistinctCount(), sweepCases[0].Load())
		}
	}
	r.Finish()
}

// representatives: the fixed message set of the stream sweep (one of each flavour, with the
// byte patterns that could confuse a header scanner inside JSON strings and raw arguments).
func representatives() []item {
	req := func(seq int, cmd string) dap.Request {
		return dap.Request{ProtocolMessage: dap.ProtocolMessage{Seq: seq, Type: "request"}, Command: cmd}
	}
	resp := func(seq int, cmd string, ok bool, msg string) dap.Response {
		return dap.Response{ProtocolMessage: dap.ProtocolMessage{Seq: seq, Type: "response"}, RequestSeq: seq - 1, Success: ok, Command: cmd, Message: msg}
	}
	ev := func(seq int, e string) dap.Event {
		return dap.Event{ProtocolMessage: dap.ProtocolMessage{Seq: seq, Type: "event"}, Event: e}
	}
	msgs := []struct {
		cat string
		m   dap.Message
	}{
		{"response", &dap.CancelResponse{Response: resp(2, "cancel", true, "")}},
		{"event", &dap.InitializedEvent{Event: ev(5, "initialized")}},
		{"request", &dap.CancelRequest{Request: req(1, "cancel"), Arguments: &dap.CancelArguments{ProgressId: "é😀"}}},
		{"error-response", &dap.ErrorResponse{Response: resp(4, "launch", false, "Content-Length: 1"), Body: dap.ErrorResponseBody{Error: &dap.ErrorMessage{Id: 1, Format: "\r\n\r\n"}}}},
		{"request", &dap.LaunchRequest{Request: req(3, "launch"), Arguments: json.RawMessage(`{"program":"a","é":[1,-1.5e3,null,true],"n":{"x":"\r\n\r\n"}}`)}},
		{"request", &dap.InitializeRequest{Request: req(1<<31-1, "initialize"), Arguments: dap.InitializeRequestArguments{AdapterID: "a", PathFormat: "uri"}}},
		{"event", &dap.OutputEvent{Event: ev(6, "output"), Body: dap.OutputEventBody{Output: "\r\n\r\nContent-Length: 1\r\n\r\n{}", Data: map[string]interface{}{"k": 1.0}}}},
		{"event", &dap.StoppedEvent{Event: ev(-1, "stopped"), Body: dap.StoppedEventBody{Reason: "a", Description: "Content-Length: 1", HitBreakpointIds: []int{1 << 53}}}},
	}
	var out []item
	for _, e := range msgs {
		want, err := expected(e.m)
		if err != nil {
			panic(err)
		}
		out = append(out, item{e.m, reflect.TypeOf(e.m), want, "stream", "representative", fmt.Sprintf("%T %s", e.m, want)})
	}
	return out
}
