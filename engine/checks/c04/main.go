//go:build go1.21

// C04 — wat2wasm emits the module the text describes, valid and reference-equal, names exact.
//
// Space: families mod (section-shape product), instr (every instruction of token.go with boundary
// immediates and literal spellings), ctrl (every block/loop/if nest with a branch innermost), each
// rendered in the frozen style alphabet (watgen/frozen.go); the stored testdata files with their
// WABT binaries; compiler output for a fixed corpus. Oracles: (1) V8 validates Wa's bytes; (2) an
// independent decoder's view of Wa's bytes equals the module the reference assembler emits for
// the text (watgen.Lower, bound byte-for-byte to the 60 stored WABT binaries on every run);
// (3) name section maps and order; (4) stored WABT bytes vs Wa's bytes on the same file.
package main

import (
	"bytes"
	"crypto/sha1"
	"encoding/base64"
	"encoding/json"
	"fmt"
	"math/bits"
	"os"
	"path/filepath"
	"regexp"
	"sort"
	"strings"
	"sync"
	"time"

	"wa-lang.org/wa/internal/wat/token"
	"wa-lang.org/wa/internal/wat/watutil"
	"wa-lang.org/wa/internal/zzverif/mc"
	"wa-lang.org/wa/internal/zzverif/watgen"
	"wa-lang.org/wa/internal/zzverif/wrun"
)

const ID = "C04"

var (
	posRe  = regexp.MustCompile(`^[^ ]*:[0-9]+:[0-9]+: `)
	numRe  = regexp.MustCompile(`[0-9]+`)
	diffOp = watgen.DiffOpts{Names: true, ExportOrder: true, TypeOrder: true}
)

func errClass(msg string) string {
	msg = posRe.ReplaceAllString(msg, "")
	if i := strings.IndexByte(msg, '\n'); i >= 0 {
		msg = msg[:i]
	}
	msg = numRe.ReplaceAllString(msg, "N")
	if len(msg) > 90 {
		msg = msg[:90]
	}
	return msg
}

// assemble runs the real assembler under recover.
func assemble(text string) (wasm []byte, err error, panicked string) {
	panicked = mc.Recover(func() { wasm, err = watutil.Wat2Wasm("gen.wat", []byte(text)) })
	return
}

type outcome struct {
	item, style int
	kind        string // ok, reject, panic, undecodable, diff, render-error
	msg         string
	diffs       []watgen.Mismatch
	wasm        string // raw bytes as string ("" if none); interned, one copy per distinct binary
}

// intern keeps one copy of every distinct byte string (binaries, printed texts).
var internTab sync.Map

func intern(b []byte) string {
	if len(b) == 0 {
		return ""
	}
	k := sha1.Sum(b)
	if v, ok := internTab.Load(k); ok {
		return v.(string)
	}
	v, _ := internTab.LoadOrStore(k, string(b))
	return v.(string)
}

// textOf re-renders the text of one (item, style) pair for a report.
func textOf(it *watgen.Item, st watgen.Style) string {
	rd, err := watgen.Render(it.Module, st)
	if err != nil {
		return "render error: " + err.Error()
	}
	return rd.Text
}

type cand struct {
	order  int
	key    string
	what   string
	replay interface{}
}

func construct(it *watgen.Item) string {
	switch it.Family {
	case "instr":
		return "instr|" + strings.SplitN(it.Key, "|", 2)[0]
	}
	return it.Family
}

func clip(s string, n int) string {
	if len(s) > n {
		return s[:n] + "…"
	}
	return s
}

// ---------------------------------------------------------------------------------------------
// worker: compile one corpus program and compare (the compiler can os.Exit)

type compJob struct {
	Name, Src string
}

type compResult struct {
	Err      string
	Wasm     string // base64
	WatBytes int
	Funcs    int
	Diffs    []watgen.Mismatch
	WatHead  string
}

func handleJob(raw json.RawMessage) interface{} {
	var j compJob
	if err := json.Unmarshal(raw, &j); err != nil {
		return compResult{Err: "bad job: " + err.Error()}
	}
	p, err := wrun.CompileWa(j.Name, j.Src)
	if err != nil {
		return compResult{Err: err.Error()}
	}
	res := compResult{Wasm: base64.StdEncoding.EncodeToString(p.Wasm), WatBytes: len(p.Wat)}
	m, err := watgen.ReadWat(string(p.Wat))
	if err != nil {
		res.Err = "harness: independent reader rejects compiler output: " + err.Error()
		return res
	}
	want, err := watgen.Lower(m, nil)
	if err != nil {
		res.Err = "harness: lower: " + err.Error()
		return res
	}
	got, err := watgen.Decode(p.Wasm)
	if err != nil {
		res.Diffs = []watgen.Mismatch{{Class: "undecodable", Detail: err.Error()}}
		return res
	}
	res.Funcs = len(got.Funcs)
	res.Diffs = watgen.Diff(want, got, diffOp)
	for i := range res.Diffs {
		res.Diffs[i].Detail = clip(res.Diffs[i].Detail, 700)
	}
	return res
}

// ---------------------------------------------------------------------------------------------

func main() {
	if mc.IsWorker() {
		mc.WorkerMain(handleJob)
		return
	}
	r := mc.Start(ID)
	t0 := time.Now()
	lap := func(what string) {
		if os.Getenv("VERIF_TIMING") != "" {
			fmt.Fprintf(os.Stderr, "[%6.1fs] %s\n", time.Since(t0).Seconds(), what)
		}
	}
	thorough := r.Thorough()
	ctrlDepth := mc.Pick(r, 2, 3)

	r.Rule("every module of the families mod (complete section-shape product), instr (one module per instruction of token.go x boundary immediates x literal spellings), ctrl (every nest of block/loop/if/if-else up to the depth bound with every br/br_if/br_table/return innermost, void and i32-valued), each in every style of the frozen alphabet; the stored testdata files; corpus compiler output. Two outcomes are distinct when their oracle, difference class (section|aspect|construct) or assembled bytes differ")
	r.Bound("ctrl_depth", ctrlDepth)
	r.Bound("style_switches", watgen.NumStyleSwitches)
	r.Bound("mem_offsets", watgen.MemOffsets)
	r.Assume("the supported subset is the dialect frozen in engine/watgen/frozen.go (" + watgen.FrozenCommit + "): non-folded instructions, one table, one memory, active segments with i32.const offsets, call/start by name")
	r.Assume("literal spellings frozen as outside the dialect (nan/inf, hexadecimal integers with the sign bit, negative hexadecimal, unsigned decimal i64 above MaxInt64) may be rejected with an error; they must not panic and, if accepted, must assemble correctly")
	r.Assume("'what the reference assembler emits' is watgen.Lower, bound on every run to the stored WABT 1.0.29 binaries byte for byte; WABT itself is not installed")
	r.Assume("an empty else arm (`else end`) is not encoded: the reference keeps an if as (then, else) lists and writes the else opcode only for a non-empty else list (from the WABT source; no stored binary contains the case)")
	r.Assume("name-section entries with an empty name are not compared (the reference writes none); stored order and every non-empty name are")

	v8, err := watgen.StartV8(mc.VerifDir())
	if err != nil {
		r.HarnessError("cannot start node: %v", err)
		r.Finish()
	}
	defer v8.Close()
	cache := watgen.NewV8Cache(v8)

	var cands []cand
	var cmu sync.Mutex
	addCand := func(order int, key, what string, replay interface{}) {
		cmu.Lock()
		cands = append(cands, cand{order, key, what, replay})
		cmu.Unlock()
	}

	// ---- phase 0: the oracle is bound before it is trusted --------------------------------
	selfCheckOps(r)
	selfCheckV8(r, v8)
	stored := loadStored(r)
	bindToWABT(r, stored)

	lap("bound to WABT")
	styles := watgen.FrozenStyles()
	cover := watgen.CoverStyles()
	type fam struct {
		name   string
		items  []watgen.Item
		styles []watgen.Style
	}
	fams := []fam{
		{"mod", watgen.ModFamily(), mc.Pick(r, cover, styles)},
		{"instr", watgen.InstrFamily(), mc.Pick(r, cover, styles)},
		{"ctrl", watgen.CtrlFamily(ctrlDepth, watgen.CtrlOpts{}), mc.Pick(r, cover, styles)},
		{"ctrl-exec", watgen.CtrlFamily(mc.Pick(r, 1, 2), watgen.CtrlOpts{Exec: true}), cover},
		{"ctrl-shadow", watgen.CtrlShadowFamily(ctrlDepth), cover},
	}
	if !thorough {
		// quick: the complete style product on the 110 simplest mod items, the cover set on all
		r.Bound("quick_styles", "cover set (16 of 128) on every item; all 128 on the 110 simplest mod items")
	}
	var items []watgen.Item
	var itemStyles [][]watgen.Style
	for _, f := range fams {
		for i := range f.items {
			st := f.styles
			if f.name == "mod" && !thorough && i < 110 {
				st = styles
			}
			items = append(items, f.items[i])
			itemStyles = append(itemStyles, st)
		}
		r.Bound("items_"+f.name, len(f.items))
	}

	// own encoding of every item validates in V8 and survives decode (generator + encoder + decoder)
	{
		encs := make([][]byte, len(items))
		mc.ParallelFor(len(items), func(i int) {
			b, err := watgen.Lower(items[i].Module, nil)
			if err != nil {
				r.HarnessError("lower %s/%s: %v", items[i].Family, items[i].Key, err)
				return
			}
			enc, err := b.Encode()
			if err != nil {
				r.HarnessError("encode %s/%s: %v", items[i].Family, items[i].Key, err)
				return
			}
			encs[i] = enc
			back, err := watgen.Decode(enc)
			if err != nil {
				r.HarnessError("decode(encode) %s/%s: %v", items[i].Family, items[i].Key, err)
				return
			}
			if ds := watgen.Diff(b, back, diffOp); len(ds) > 0 {
				r.HarnessError("decode(encode) differs for %s/%s: %s %s", items[i].Family, items[i].Key, ds[0].Class, ds[0].Detail)
			}
		})
		res, err := cache.Get(encs)
		if err != nil {
			r.HarnessError("v8: %v", err)
			r.Finish()
		}
		bad := 0
		for i, x := range res {
			if !x.Valid {
				bad++
				if bad <= 3 {
					r.HarnessError("generated module %s/%s is not valid wasm (V8: %s)", items[i].Family, items[i].Key, x.Error)
				}
			}
		}
	}

	lap("own encodings checked")
	// ---- phase 1: generated families ----------------------------------------------------------
	outs := make([][]outcome, len(items))
	mc.ParallelFor(len(items), func(i int) {
		if r.Expired() {
			r.Cap("deadline")
			return
		}
		it := &items[i]
		res := make([]outcome, 0, len(itemStyles[i]))
		for _, st := range itemStyles[i] {
			o := outcome{item: i, style: st.Bits()}
			rd, err := watgen.Render(it.Module, st)
			if err != nil {
				o.kind, o.msg = "render-error", err.Error()
				res = append(res, o)
				continue
			}
			want, err := watgen.Lower(rd.Module, rd.Layout)
			if err != nil {
				o.kind, o.msg = "render-error", err.Error()
				res = append(res, o)
				continue
			}
			wasm, aerr, pn := assemble(rd.Text)
			r.Evals.Add(1)
			switch {
			case pn != "":
				o.kind, o.msg = "panic", pn
			case aerr != nil:
				o.kind, o.msg = "reject", aerr.Error()
			default:
				o.wasm = intern(wasm)
				got, derr := watgen.Decode(wasm)
				if derr != nil {
					o.kind, o.msg = "undecodable", derr.Error()
				} else if ds := watgen.Diff(want, got, diffOp); len(ds) > 0 {
					o.kind, o.diffs = "diff", ds
				} else {
					o.kind = "ok"
					// the decoder and V8 must agree on imports/exports (checked after the V8 batch)
				}
			}
			res = append(res, o)
		}
		outs[i] = res
	})

	lap("families assembled")
	// V8 on every distinct binary
	var distinct [][]byte
	seen := map[string]bool{}
	for i := range outs {
		for k := range outs[i] {
			if w := outs[i][k].wasm; w != "" && !seen[w] {
				seen[w] = true
				distinct = append(distinct, []byte(w))
			}
		}
	}
	vres, err := cache.Get(distinct)
	if err != nil {
		r.HarnessError("v8: %v", err)
		r.Finish()
	}
	valid := map[string]watgen.V8Result{}
	for i, w := range distinct {
		valid[string(w)] = vres[i]
	}
	r.Extra("distinct_binaries", len(distinct))

	lap("v8 done")
	// classify, simplest witness first
	stats := map[string]int{}
	nOK, nV8 := 0, 0
	for i := range outs {
		it := &items[i]
		// per class: minimal failing style
		type hit struct {
			style int
			o     *outcome
			d     watgen.Mismatch
		}
		best := map[string]hit{}
		better := func(a, b int) bool {
			if pa, pb := bits.OnesCount(uint(a)), bits.OnesCount(uint(b)); pa != pb {
				return pa < pb
			}
			return a < b
		}
		put := func(class string, o *outcome, d watgen.Mismatch) {
			if h, ok := best[class]; !ok || better(o.style, h.style) {
				best[class] = hit{o.style, o, d}
			}
		}
		for k := range outs[i] {
			o := &outs[i][k]
			stats[it.Family+"|"+o.kind]++
			switch o.kind {
			case "render-error":
				r.HarnessError("render %s/%s: %s", it.Family, it.Key, o.msg)
			case "panic":
				put("panic|"+construct(it)+"|"+errClass(o.msg), o, watgen.Mismatch{Detail: "panic: " + o.msg})
			case "reject":
				if it.Outside != "" {
					r.Distinct("outside-rejected|" + it.Outside)
					stats["outside-rejected"]++
					continue
				}
				put("accept|"+construct(it)+"|"+errClass(o.msg), o, watgen.Mismatch{Detail: "rejected: " + o.msg})
			case "undecodable":
				put("decode|"+construct(it)+"|"+errClass(o.msg), o, watgen.Mismatch{Detail: "independent decoder: " + o.msg})
			case "diff":
				for _, d := range o.diffs {
					put("module|"+d.Class, o, d)
				}
			case "ok":
				nOK++
			}
			if o.wasm != "" {
				v := valid[o.wasm]
				if !v.Valid {
					put("v8-validate|"+construct(it)+"|"+errClass(v.Error), o, watgen.Mismatch{Detail: "WebAssembly.validate = false: " + v.Error})
				} else {
					nV8++
					if o.kind == "ok" {
						if msg := agreeWithV8([]byte(o.wasm), v); msg != "" {
							r.HarnessError("decoder disagrees with V8 on %s/%s: %s", it.Family, it.Key, msg)
						}
					}
				}
			}
			r.Distinct(it.Family + "|" + o.kind + "|" + fmt.Sprint(len(o.diffs)))
		}
		var classes []string
		for c := range best {
			classes = append(classes, c)
		}
		sort.Strings(classes)
		for _, c := range classes {
			h := best[c]
			st := watgen.StyleFromBits(h.style)
			key := ID + "|" + c + "|style=" + st.String()
			what := fmt.Sprintf("%s/%s in style %s: %s", it.Family, it.Key, st, clip(h.d.Detail, 500))
			addCand(i*1000+h.style, key, what, map[string]interface{}{
				"family": it.Family, "item": it.Key, "style": st.String(), "wat": textOf(it, st), "observed": clip(h.d.Detail, 4000),
				"expected": "assembles; V8 validates; decoded sections and names equal the reference view of the text",
			})
		}
		if r.WantSample() && len(outs[i]) > 0 && i%97 == 0 {
			o := &outs[i][0]
			r.Sample(map[string]interface{}{"family": it.Family, "item": it.Key, "style": watgen.StyleFromBits(o.style).String(), "outcome": o.kind, "wat": clip(textOf(it, watgen.StyleFromBits(o.style)), 600)})
		}
	}
	for w := range seen {
		r.Distinct("bytes|" + w)
	}
	r.Extra("outcomes", stats)
	r.Extra("v8_validated", nV8)

	lap("classified")
	// ---- phase 2: stored WABT binaries vs Wa on the same files -----------------------------------
	for fi, s := range stored {
		wasm, aerr, pn := assemble(string(s.wat))
		r.Evals.Add(1)
		base := 10_000_000 + fi*100
		rep := func(class, detail string) {
			addCand(base, ID+"|wabt|"+class, fmt.Sprintf("testdata/%s: %s", s.name, clip(detail, 500)), map[string]interface{}{
				"file": "internal/wat/watutil/testdata/" + s.name, "observed": clip(detail, 4000), "expected": "the sections and names WABT stored in " + s.name + ".wasm",
			})
		}
		switch {
		case pn != "":
			rep("panic|"+errClass(pn), "panic: "+pn)
			continue
		case aerr != nil:
			rep("accept|"+errClass(aerr.Error()), "rejected: "+aerr.Error())
			continue
		}
		got, derr := watgen.Decode(wasm)
		if derr != nil {
			rep("decode|"+errClass(derr.Error()), derr.Error())
			continue
		}
		ds := watgen.Diff(s.ref, got, diffOp)
		for _, d := range ds {
			rep(d.Class, d.Detail)
		}
		vr, err := cache.Get([][]byte{wasm})
		if err == nil && !vr[0].Valid {
			rep("v8-validate|"+errClass(vr[0].Error), vr[0].Error)
		}
		r.Distinct(fmt.Sprintf("wabt|%s|%d|%v", s.name, len(ds), bytes.Equal(wasm, s.named)))
		stats["wabt-files"]++
		if bytes.Equal(wasm, s.named) {
			stats["wabt-byte-identical"]++
		}
	}

	lap("stored files done")
	// ---- phase 3: compiler output -----------------------------------------------------------------
	corpus := watgen.WaCorpus()
	pool := mc.NewPool(min(len(corpus), mc.NWorkers()), nil)
	var pmu sync.Mutex
	pool.Run(len(corpus), func(i int) interface{} { return compJob{corpus[i].Name, corpus[i].Src} }, 20*time.Minute, func(res mc.Result) {
		pmu.Lock()
		defer pmu.Unlock()
		name := corpus[res.Index].Name
		base := 20_000_000 + res.Index*100
		r.Evals.Add(1)
		if res.Status != "ok" {
			addCand(base, ID+"|compiler|"+res.Status, fmt.Sprintf("%s: worker %s while compiling/assembling: %s", name, res.Status, clip(res.Stderr, 400)), map[string]interface{}{"program": name, "src": corpus[res.Index].Src})
			return
		}
		var cr compResult
		if err := json.Unmarshal(res.Out, &cr); err != nil {
			r.HarnessError("worker answer: %v", err)
			return
		}
		if strings.HasPrefix(cr.Err, "harness:") {
			r.HarnessError("%s: %s", name, cr.Err)
			return
		}
		if cr.Err != "" {
			addCand(base, ID+"|compiler|accept|"+errClass(cr.Err), fmt.Sprintf("%s: %s", name, clip(cr.Err, 400)), map[string]interface{}{"program": name, "src": corpus[res.Index].Src, "observed": cr.Err})
			return
		}
		for _, d := range cr.Diffs {
			addCand(base, ID+"|compiler|"+d.Class, fmt.Sprintf("%s (%d functions): %s", name, cr.Funcs, clip(d.Detail, 500)), map[string]interface{}{
				"program": name, "src": corpus[res.Index].Src, "observed": d.Detail, "expected": "decoded binary equals the reference view of the emitted WAT",
			})
		}
		wasm, _ := base64.StdEncoding.DecodeString(cr.Wasm)
		vr, err := cache.Get([][]byte{wasm})
		if err != nil {
			r.HarnessError("v8: %v", err)
			return
		}
		if !vr[0].Valid {
			addCand(base, ID+"|compiler|v8-validate|"+errClass(vr[0].Error), name+": "+vr[0].Error, map[string]interface{}{"program": name, "src": corpus[res.Index].Src})
		}
		r.Distinct(fmt.Sprintf("compiler|%s|%d|%d", name, len(wasm), len(cr.Diffs)))
		stats["compiler-programs"]++
	})
	pool.Close()
	lap("compiler output done")

	// ---- report, deterministic order ---------------------------------------------------------------
	sort.SliceStable(cands, func(a, b int) bool {
		if cands[a].order != cands[b].order {
			return cands[a].order < cands[b].order
		}
		return cands[a].key < cands[b].key
	})
	for _, c := range cands {
		r.Report(c.key, c.what, c.replay)
	}

	// label shadowing must really occur in the text: a name declared by two nested constructs and
	// used by a branch
	{
		n := 0
		for i := range items {
			if items[i].Family != "ctrl-shadow" {
				continue
			}
			decl, ref := map[string]int{}, map[string]bool{}
			for _, line := range strings.Split(textOf(&items[i], watgen.StyleFromBits(0)), "\n") {
				f := strings.Fields(line)
				if len(f) < 2 {
					continue
				}
				switch f[0] {
				case "block", "loop", "if":
					if strings.HasPrefix(f[1], "$") {
						decl[f[1]]++
					}
				case "br", "br_if", "br_table":
					for _, w := range f[1:] {
						if strings.HasPrefix(w, "$") {
							ref[w] = true
						}
					}
				}
			}
			for name := range ref {
				if decl[name] >= 2 {
					n++
					break
				}
			}
		}
		r.Extra("shadowed_label_references", n)
		if n < 200 {
			r.HarnessError("vacuous: only %d ctrl-shadow items branch by name to a label declared twice", n)
		}
	}

	// vacuity guards
	if nV8 < 1000 {
		r.HarnessError("vacuous: only %d assembled modules were validated by V8", nV8)
	}
	if len(distinct) < 500 {
		r.HarnessError("vacuous: only %d distinct binaries", len(distinct))
	}
	if stats["wabt-files"] < 25 || stats["compiler-programs"] < len(corpus) && r.ViolationCount() == 0 {
		r.HarnessError("vacuous: %d stored files, %d corpus programs analysed", stats["wabt-files"], stats["compiler-programs"])
	}
	r.Finish()
}

// agreeWithV8 compares the decoder's import/export view with V8's.
func agreeWithV8(wasm []byte, v watgen.V8Result) string {
	b, err := watgen.Decode(wasm)
	if err != nil {
		return err.Error()
	}
	if len(b.Exports) != len(v.Exports) || len(b.Imports) != len(v.Imports) {
		return fmt.Sprintf("decoder sees %d imports %d exports, V8 %d / %d", len(b.Imports), len(b.Exports), len(v.Imports), len(v.Exports))
	}
	for i, e := range b.Exports {
		if e.Name != v.Exports[i].Name || kindJS(e.Kind) != v.Exports[i].Kind {
			return fmt.Sprintf("export %d: decoder %q %s, V8 %q %s", i, e.Name, kindJS(e.Kind), v.Exports[i].Name, v.Exports[i].Kind)
		}
	}
	for i, e := range b.Imports {
		if e.Name != v.Imports[i].Name || e.Module != v.Imports[i].Module || kindJS(e.Kind) != v.Imports[i].Kind {
			return fmt.Sprintf("import %d: decoder %q.%q %s, V8 %q.%q %s", i, e.Module, e.Name, kindJS(e.Kind), v.Imports[i].Module, v.Imports[i].Name, v.Imports[i].Kind)
		}
	}
	want := 0
	for _, c := range b.Customs {
		_ = c
		want++
	}
	if want != len(v.Custom) {
		return fmt.Sprintf("decoder sees %d custom sections, V8 walk %d", want, len(v.Custom))
	}
	return ""
}

func kindJS(k byte) string {
	switch k {
	case watgen.KindFunc:
		return "function"
	case watgen.KindTable:
		return "table"
	case watgen.KindMemory:
		return "memory"
	}
	return "global"
}

// selfCheckOps: the instruction table of watgen is exactly the instruction set of token.go.
func selfCheckOps(r *mc.Run) {
	have := map[string]bool{}
	n := 0
	for tok := token.INS_UNREACHABLE; tok.IsIsntruction(); tok++ {
		name := tok.String()
		have[name] = true
		n++
		if watgen.OpByName(name) == nil {
			r.HarnessError("token.go has instruction %q which watgen does not generate", name)
		}
	}
	for _, in := range watgen.Ops() {
		if !have[in.Name] {
			r.HarnessError("watgen generates %q which token.go does not have", in.Name)
		}
	}
	r.Bound("instructions", n)
}

// selfCheckV8: V8 must be able to say no, and the difference engine must be able to see a change.
func selfCheckV8(r *mc.Run, v8 *watgen.V8) {
	m := watgen.BuildCtrl(watgen.CtrlCases(1)[10], watgen.CtrlOpts{})
	b, _ := watgen.Lower(m, nil)
	good, _ := b.Encode()
	b2, _ := watgen.Lower(m, nil)
	b2.Codes[0].Body = append(b2.Codes[0].Body, watgen.Ins(watgen.OpI32Add)) // ill-typed
	bad, _ := b2.Encode()
	res, err := v8.Inspect([][]byte{good, bad, []byte("\x00asm\x01\x00\x00\x00\x07")})
	if err != nil {
		r.HarnessError("v8 self check: %v", err)
		return
	}
	if !res[0].Valid || res[1].Valid || res[2].Valid {
		r.HarnessError("v8 self check: valid=%v ill-typed=%v truncated=%v (want true false false)", res[0].Valid, res[1].Valid, res[2].Valid)
	}
	if len(watgen.Diff(b, b2, diffOp)) == 0 {
		r.HarnessError("diff self check: an appended instruction is not seen")
	}
}

type storedFile struct {
	name          string
	wat           []byte
	named, noname []byte
	ref           *watgen.Bin
}

func loadStored(r *mc.Run) []storedFile {
	dir := filepath.Join(mc.RepoDir(), "internal", "wat", "watutil", "testdata")
	files, _ := filepath.Glob(filepath.Join(dir, "*.wat"))
	sort.Strings(files)
	var out []storedFile
	for _, f := range files {
		named, e1 := os.ReadFile(f + ".wasm")
		noname, e2 := os.ReadFile(f + ".noname.wasm")
		wat, e3 := os.ReadFile(f)
		if e1 != nil || e2 != nil || e3 != nil {
			continue
		}
		out = append(out, storedFile{name: filepath.Base(f), wat: wat, named: named, noname: noname})
	}
	if len(out) < 25 {
		r.HarnessError("only %d stored wat files with WABT companions under %s", len(out), dir)
	}
	r.Bound("stored_wabt_files", len(out))
	return out
}

// bindToWABT: decoder, encoder, reader and Lower reproduce the reference assembler's bytes.
func bindToWABT(r *mc.Run, stored []storedFile) {
	for i := range stored {
		s := &stored[i]
		for _, v := range []struct {
			what string
			data []byte
		}{{"wasm", s.named}, {"noname.wasm", s.noname}} {
			b, err := watgen.Decode(v.data)
			if err != nil {
				r.HarnessError("decoder rejects WABT output %s.%s: %v", s.name, v.what, err)
				continue
			}
			enc, err := b.Encode()
			if err != nil || !bytes.Equal(enc, v.data) {
				r.HarnessError("encode(decode(%s.%s)) does not reproduce WABT's bytes (%v)", s.name, v.what, err)
			}
			if v.what == "wasm" {
				s.ref = b
			}
		}
		m, err := watgen.ReadWat(string(s.wat))
		if err != nil {
			r.HarnessError("independent reader rejects %s: %v", s.name, err)
			continue
		}
		b, err := watgen.Lower(m, nil)
		if err != nil {
			r.HarnessError("lower %s: %v", s.name, err)
			continue
		}
		enc, _ := b.Encode()
		if !bytes.Equal(enc, s.named) {
			r.HarnessError("Encode(Lower(ReadWat(%s))) differs from WABT's %s.wasm", s.name, s.name)
		}
		b.Names, b.Customs = nil, nil
		enc, _ = b.Encode()
		if !bytes.Equal(enc, s.noname) {
			r.HarnessError("Encode(Lower(ReadWat(%s))) without names differs from WABT's %s.noname.wasm", s.name, s.name)
		}
		// the text must survive the renderer too: Render(ReadWat(x)) read back is the same module
		for _, st := range []watgen.Style{watgen.StyleFromBits(8), watgen.StyleFromBits(8 | 1 | 16 | 32 | 64)} {
			rd, err := watgen.Render(m, st)
			if err != nil {
				continue // e.g. a call of an anonymous function cannot be written in the dialect
			}
			m2, err := watgen.ReadWat(rd.Text)
			if err != nil {
				r.HarnessError("reader rejects the renderer's text for %s in style %s: %v", s.name, st, err)
				continue
			}
			b1, _ := watgen.Lower(rd.Module, rd.Layout)
			b2, err := watgen.Lower(m2, nil)
			if err != nil || len(watgen.Diff(b1, b2, diffOp)) > 0 {
				r.HarnessError("render/read round trip changes %s in style %s", s.name, st)
			}
		}
	}
}
