//go:build go1.21

package main

import "strings"

// Literal family: every literal kind x contents x placement, in both syntaxes. One small complete
// program per combination, so that the literal under test is alone in its tabwriter column or
// shares it with neighbouring lines, depending on the placement. Whether the scanner accepts a
// given spelling (raw VT/FF bytes, imaginary and hexadecimal float literals ...) is discovered by
// parsing: a program that does not parse is dropped and counted, not an error.

type litDef struct {
	Name string
	Text string
	Str  bool // a string literal (usable as a struct field tag)
}

const (
	tab = "\t"
	vt  = "\v"
	ff  = "\f"
)

var litDefs = []litDef{
	// integers: all bases, with and without separators
	{"int-zero", "0", false},
	{"int-dec", "42", false},
	{"int-dec-sep", "1_000_000", false},
	{"int-hex", "0x1F", false},
	{"int-hex-upper-sep", "0X_1f_2E", false},
	{"int-octal", "0o17", false},
	{"int-octal-sep", "0O_1_7", false},
	{"int-octal-legacy", "017", false},
	{"int-bin", "0b101", false},
	{"int-bin-sep", "0B_1_0_1", false},
	// floats
	{"float-plain", "1.5", false},
	{"float-leading-dot", ".5", false},
	{"float-trailing-dot", "1.", false},
	{"float-exp", "1e3", false},
	{"float-exp-signed", "1.5e-3", false},
	{"float-exp-upper", "2E+2", false},
	{"float-sep", "1_0.2_5", false},
	{"float-hex", "0x1p-2", false},
	{"float-hex-frac", "0x1.8p1", false},
	// imaginary
	{"imag-int", "2i", false},
	{"imag-float", "1.5i", false},
	// runes
	{"rune-plain", "'a'", false},
	{"rune-raw-tab", "'" + tab + "'", false},
	{"rune-raw-vt", "'" + vt + "'", false},
	{"rune-raw-ff", "'" + ff + "'", false},
	{"rune-space", "' '", false},
	{"rune-multibyte", "'é'", false},
	{"rune-cjk", "'凹'", false},
	{"rune-esc-t", `'\t'`, false},
	{"rune-esc-n", `'\n'`, false},
	{"rune-esc-x09", `'\x09'`, false},
	{"rune-esc-u", `'\u00e9'`, false},
	{"rune-dquote", `'"'`, false},
	{"rune-esc-squote", `'\''`, false},
	{"rune-backquote", "'`'", false},
	// interpreted strings
	{"str-plain", `"plain"`, true},
	{"str-empty", `""`, true},
	{"str-raw-tab", `"a` + tab + `b"`, true},
	{"str-raw-tabs-ends", `"` + tab + `a` + tab + tab + `"`, true},
	{"str-raw-vt", `"a` + vt + `b"`, true},
	{"str-raw-ff", `"a` + ff + `b"`, true},
	{"str-multibyte", `"é凹"`, true},
	{"str-escapes", `"\t\n\x09\u00e9é"`, true},
	{"str-squote", `"it's"`, true},
	{"str-esc-dquote", `"say \"hi\""`, true},
	{"str-backquote", "\"a`b\"", true},
	{"str-line-comment", `"a // b"`, true},
	{"str-block-comment", `"a /* b */ c"`, true},
	{"str-hash", `"a # b"`, true},
	{"str-spaces", `"a   b  "`, true},
	// raw strings
	{"raw-plain", "`plain`", true},
	{"raw-raw-tab", "`a" + tab + "b`", true},
	{"raw-raw-vt", "`a" + vt + "b`", true},
	{"raw-dquote", "`say \"hi\" it's`", true},
	{"raw-backslash", "`a\\tb\\n`", true},
	{"raw-line-comment", "`a // b`", true},
	{"raw-block-comment", "`a /* b */ c`", true},
	{"raw-multiline", "`line1\nline2\n`", true},
	{"raw-multiline-leading-tabs", "`line1\n" + tab + tab + "line2\n" + tab + "line3" + tab + "`", true},
	{"raw-multiline-trailing-spaces", "`line1  \n  line2 " + tab + "\n`", true},
}

type litPlacement struct {
	Name    string
	Wa, Wz  string // templates: @ is replaced by the literal
	StrOnly bool
}

var litPlacements = []litPlacement{
	{"alone", "func main {\n\t_ = @\n}\n", "函数·主控:\n\t_ = @\n完毕\n", false},
	{"const-group-aligned",
		"const (\n\ta = @ // c1\n\tbb = @ // c2\n\tccc = 1 // c3\n)\n\nfunc main {\n\tprintln(a, bb, ccc)\n}\n",
		"常量:\n\t甲 = @ // c1\n\t乙乙 = @ // c2\n\t丙丙丙 = 1 // c3\n完毕\n\n函数·主控:\n\t输出(甲, 乙乙, 丙丙丙)\n完毕\n", false},
	{"global-group-aligned",
		"global (\n\ta = @ // c1\n\tbb = @ /* c2 */\n\tccc: int = 1 # c3\n)\n\nfunc main {\n\tprintln(a, bb, ccc)\n}\n",
		"全局:\n\t甲 = @ // c1\n\t乙乙 = @ /* c2 */\n\t丙丙丙: 整型 = 1 注: c3\n完毕\n\n函数·主控:\n\t输出(甲, 乙乙, 丙丙丙)\n完毕\n", false},
	{"struct-field-tag",
		"type T :struct {\n\ta: int @ // c1\n\tbbb: string @ // c2\n\tcc: int\n}\n\nfunc main {\n\tt: T\n\tprintln(t.a)\n}\n",
		"结构·T:\n\t甲: 整型 @ // c1\n\t乙乙乙: 字串 @ // c2\n\t丙丙: 整型\n完毕\n\n函数·主控:\n\t设定·t: T\n\t输出(t·甲)\n完毕\n", true},
	{"call-argument", "func main {\n\tprintln(@, @)\n\tprintln(1, @) // c\n}\n", "函数·主控:\n\t输出(@, @)\n\t输出(1, @) // c\n完毕\n", false},
	{"composite-key-value",
		"type S :struct {\n\ta, bbb, cc: any\n}\n\nfunc main {\n\ts := S{\n\t\ta: @, // c1\n\t\tbbb: @, // c2\n\t\tcc: 1,\n\t}\n\tm := map[string]any{\n\t\t\"k\": @,\n\t\t\"long key\": @, // c\n\t}\n\tprintln(s.a == nil, len(m))\n}\n",
		"结构·S:\n\t甲, 乙乙乙, 丙丙: 皮囊\n完毕\n\n函数·主控:\n\ts := S{\n\t\t甲: @, // c1\n\t\t乙乙乙: @, // c2\n\t\t丙丙: 1,\n\t}\n\tm := 字典[字串]皮囊{\n\t\t\"k\": @,\n\t\t\"long key\": @, // c\n\t}\n\t输出(s·甲 == 空, 长度(m))\n完毕\n", false},
}

// literalPrograms returns (name, syntax, source) for the whole family.
func literalPrograms() (out [][3]string) {
	for _, pl := range litPlacements {
		for _, l := range litDefs {
			if pl.StrOnly && !l.Str {
				continue
			}
			out = append(out, [3]string{"lit:" + pl.Name + ":" + l.Name, "wa", strings.ReplaceAll(pl.Wa, "@", l.Text)})
			out = append(out, [3]string{"lit:" + pl.Name + ":" + l.Name, "wz", strings.ReplaceAll(pl.Wz, "@", l.Text)})
		}
	}
	return
}
