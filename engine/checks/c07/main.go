//go:build go1.21

package main

import (
	"fmt"
	"os"
	"strings"

	"wa-lang.org/wa/api"
)

func main() {
	src := "func main {\n\tx := []int{1,2}\n\tprintln(len(x) == 2)\n\tprintln(x[3])\n\tpanic(\"boom\")\n}\n"
	_, wat1, _, err := api.BuildFile(api.DefaultConfig(), "x.wa", src)
	if err != nil {
		fmt.Println(err)
		os.Exit(1)
	}
	for i, l := range strings.Split(string(wat1), "\n") {
		if strings.Contains(l, "x.wa") || strings.Contains(l, "(data") {
			if len(l) > 600 {
				l = l[:300] + " ...... " + l[len(l)-300:]
			}
			fmt.Println(i, l)
		}
	}
}
