//go:build go1.21

// C07 — source formatting is idempotent and meaning preserving (.wa and .wz).
//
// Seeds: every .wa/.wz file under waroot (embedded FS + examples/tests on disk) that parses, plus a
// generated corpus covering every declaration/statement/expression form in both syntaxes.
// Variants: the seed itself; every single-gap layout perturbation (deviation 1; 2 on the small
// corpus programs in the thorough tier) where a gap is the text between two consecutive tokens
// and the alternatives are {nothing, one space, newline, blank line, `//x`+newline, `/*x*/`,
// `#x`+newline (wa) / `注: x`+newline (wz)}; every permutation of the first <= 3 imports.
// A variant that does not parse is outside the property's domain and skipped (counted).
// Oracles on every variant p, f = format(p):
//
//	format(f) == f;  f parses;  dump(parse(p)) == dump(parse(f)) without positions;
//	multiset of comment texts equal;  and on a bounded subset of complete programs:
//	WAT(p) == WAT(f) with the source positions of the main file neutralised in the FileSet.
package main

import (
	"bytes"
	"crypto/sha1"
	"encoding/json"
	"fmt"
	"io/fs"
	"os"
	"path"
	"path/filepath"
	"reflect"
	"regexp"
	"runtime"
	"sort"
	"strings"
	"sync"
	"syscall"
	"time"

	"wa-lang.org/wa/api"
	"wa-lang.org/wa/internal/ast"
	"wa-lang.org/wa/internal/backends/compiler_wat"
	"wa-lang.org/wa/internal/format"
	"wa-lang.org/wa/internal/parser"
	"wa-lang.org/wa/internal/scanner"
	"wa-lang.org/wa/internal/token"
	"wa-lang.org/wa/internal/zzverif/astdump"
	"wa-lang.org/wa/internal/zzverif/mc"
	"wa-lang.org/wa/waroot"
)

// ---------------------------------------------------------------------------------------------
// Seeds

type span struct{ off, end int }

type seedT struct {
	Name   string // waroot-relative path or corpus:<name>
	Syntax string // wa | wz
	File   string // file name handed to the API
	Src    []byte
	Corpus bool
	Toks   []span // nil: not perturbable (token texts could not be located)
	IsCmt  []bool // Toks[i] is a comment
	NImp   int    // number of import specs
}

// parseSrc parses with the mode the formatter uses. A parser panic (C08's subject) makes the text
// invalid for this property, like a syntax error.
func parseSrc(name string, src []byte) (fset *token.FileSet, f *ast.File, err error) {
	defer func() {
		if e := recover(); e != nil {
			err = fmt.Errorf("parser panic: %v", e)
		}
	}()
	fset = token.NewFileSet()
	f, err = parser.ParseFile(nil, fset, name, src, parser.ParseComments)
	return fset, f, err
}

// go2wa renders a Go-spelled program to .wa with the repository's converter.
func go2wa(goSrc string) (string, error) {
	fset := token.NewFileSet()
	f, err := parser.ParseFile(nil, fset, "corpus.wa.go", []byte(goSrc), parser.ParseComments)
	if err != nil {
		return "", err
	}
	f.Name.Name = ""
	out, err := format.DevFormat(fset, f, []byte(goSrc))
	return string(out), err
}

func scanTokens(s *seedT) {
	var sc scanner.Scanner
	fset := token.NewFileSet()
	file := fset.AddFile(s.File, -1, len(s.Src))
	sc.W2Mode = s.Syntax == "wz"
	bad := false
	sc.Init(file, s.Src, func(token.Position, string) { bad = true }, scanner.ScanComments)
	var toks []span
	var cmt []bool
	for {
		pos, tok, lit := sc.Scan()
		if tok == token.EOF {
			break
		}
		if tok == token.SEMICOLON && lit == "\n" {
			continue
		}
		off := file.Offset(pos)
		text := lit
		if text == "" {
			text = tok.String()
		}
		if off+len(text) > len(s.Src) || string(s.Src[off:off+len(text)]) != text {
			return // e.g. carriage returns stripped from a literal: leave the seed unperturbed
		}
		if n := len(toks); n > 0 && toks[n-1].end > off {
			return
		}
		toks = append(toks, span{off, off + len(text)})
		cmt = append(cmt, tok == token.COMMENT)
	}
	if bad {
		return
	}
	s.Toks, s.IsCmt = toks, cmt
}

var (
	seedsOnce sync.Once
	seeds     []*seedT
	seedsErr  []string
	litTotal  int // programs of the literal family
	litParsed int // ... that the parser accepts (the others use a spelling outside the language)
)

func loadSeeds() ([]*seedT, []string) {
	seedsOnce.Do(func() {
		add := func(name, syntax, file string, src []byte, corpus bool) {
			s := &seedT{Name: name, Syntax: syntax, File: file, Src: src, Corpus: corpus}
			var perr error
			if p := mc.Recover(func() {
				_, f, err := parseSrc(file, src)
				perr = err
				if err == nil {
					for _, d := range f.Decls {
						if g, ok := d.(*ast.GenDecl); ok && (g.Tok == token.IMPORT || g.Tok == token.Zh_引入) {
							s.NImp += len(g.Specs)
						}
					}
				}
			}); p != "" {
				perr = fmt.Errorf("parser panic: %s", p)
			}
			if perr != nil {
				if corpus {
					seedsErr = append(seedsErr, fmt.Sprintf("corpus program %s does not parse: %v", name, perr))
				}
				return // a waroot file that does not parse is not a seed
			}
			scanTokens(s)
			seeds = append(seeds, s)
		}
		for _, c := range goCorpus {
			var wa string
			var err error
			if p := mc.Recover(func() { wa, err = go2wa(c.Src) }); p != "" || err != nil {
				seedsErr = append(seedsErr, fmt.Sprintf("corpus program %s: go->wa conversion failed: %v %s", c.Name, err, p))
				continue
			}
			add("corpus:"+c.Name, "wa", c.Name+".wa", []byte(wa), true)
		}
		for _, c := range waCorpus {
			add("corpus:"+c.Name, "wa", c.Name+".wa", []byte(c.Src), true)
		}
		for _, c := range wzCorpus {
			add("corpus:"+c.Name, "wz", c.Name+".wz", []byte(c.Src), true)
		}
		for _, lp := range literalPrograms() {
			n0 := len(seeds)
			add(lp[0]+" ("+lp[1]+")", lp[1], "lit."+lp[1], []byte(lp[2]), false)
			litTotal++
			if len(seeds) > n0 {
				litParsed++
			}
		}
		files := map[string][]byte{}
		walk := func(fsys fs.FS) {
			fs.WalkDir(fsys, ".", func(p string, d fs.DirEntry, err error) error {
				if err != nil || d.IsDir() {
					return nil
				}
				if strings.HasSuffix(p, ".wa") || strings.HasSuffix(p, ".wz") {
					if _, ok := files[p]; !ok {
						if data, err := fs.ReadFile(fsys, p); err == nil {
							files[p] = data
						}
					}
				}
				return nil
			})
		}
		walk(waroot.GetRootFS())                              // what the binary ships (src, hello.wa)
		walk(os.DirFS(filepath.Join(mc.RepoDir(), "waroot"))) // examples, tests: not embedded
		var names []string
		for p := range files {
			names = append(names, p)
		}
		sort.Strings(names)
		for _, p := range names {
			syn := "wa"
			if strings.HasSuffix(p, ".wz") {
				syn = "wz"
			}
			add(p, syn, path.Base(p), files[p], false)
		}
	})
	return seeds, seedsErr
}

// ---------------------------------------------------------------------------------------------
// Variants

var altsWa = []string{"", " ", "\n", "\n\n", "//x\n", "/*x*/", "#x\n"}
var altsWz = []string{"", " ", "\n", "\n\n", "//x\n", "/*x*/", "注: x\n"}

func (s *seedT) alts() []string {
	if s.Syntax == "wz" {
		return altsWz
	}
	return altsWa
}

func (s *seedT) ngaps() int {
	if s.Toks == nil {
		return 0
	}
	return len(s.Toks) + 1
}

func (s *seedT) gapText(g int) (lo, hi int) {
	lo, hi = 0, len(s.Src)
	if g > 0 {
		lo = s.Toks[g-1].end
	}
	if g < len(s.Toks) {
		hi = s.Toks[g].off
	}
	return
}

// withGaps replaces gaps (sorted by index) by the given alternatives; nil if an alternative equals
// the original gap text (that variant is the seed or a lower-deviation variant).
func (s *seedT) withGaps(gs []int, as []int) []byte {
	alts := s.alts()
	var b []byte
	prev := 0
	for k, g := range gs {
		lo, hi := s.gapText(g)
		if string(s.Src[lo:hi]) == alts[as[k]] {
			return nil
		}
		b = append(b, s.Src[prev:lo]...)
		b = append(b, alts[as[k]]...)
		prev = hi
	}
	return append(b, s.Src[prev:]...)
}

const (
	kBase = iota
	kGap1
	kGap2
	kImports
	kWatBase
	kWatGap1    // gap1 variants, only gaps next to a comment token
	kWatGap1All // all gap1 variants
)

func (s *seedT) count(kind int) int {
	na := len(s.alts())
	n := s.ngaps()
	switch kind {
	case kBase, kWatBase:
		return 1
	case kGap1, kWatGap1, kWatGap1All:
		return n * na
	case kGap2:
		return n * (n - 1) / 2 * na * na
	case kImports:
		switch {
		case s.NImp >= 3:
			return 5
		case s.NImp == 2:
			return 1
		}
	}
	return 0
}

func altName(a string) string {
	switch a {
	case "":
		return "nothing"
	case " ":
		return "space"
	case "\n":
		return "newline"
	case "\n\n":
		return "blank-line"
	}
	return "comment(" + commentStyle(a) + ")"
}

// altClass names what a variant inserts (the trigger), used as the class of "output does not
// parse" violations.
func (s *seedT) altClass(kind, i int) string {
	na := len(s.alts())
	switch kind {
	case kGap1, kWatGap1, kWatGap1All:
		return "inserted:" + altName(s.alts()[i%na])
	case kGap2:
		// the comment styles involved (white space alternatives only count when no comment is inserted)
		o := i % (na * na)
		a, b := altName(s.alts()[o/na]), altName(s.alts()[o%na])
		ca, cb := strings.HasPrefix(a, "comment"), strings.HasPrefix(b, "comment")
		switch {
		case ca && !cb:
			return "inserted:" + a
		case cb && !ca:
			return "inserted:" + b
		case a == b:
			return "inserted:" + a
		case a > b:
			a, b = b, a
		}
		return "inserted:" + a + "+" + b
	case kImports:
		return "imports-permuted"
	}
	return "seed"
}

var perms3 = [][]int{{0, 2, 1}, {1, 0, 2}, {1, 2, 0}, {2, 0, 1}, {2, 1, 0}}

// variant returns the text of variant i of the given kind, nil if it does not exist.
func (s *seedT) variant(kind, i int) (p []byte, desc string) {
	na := len(s.alts())
	switch kind {
	case kBase, kWatBase:
		return s.Src, "seed"
	case kGap1, kWatGap1, kWatGap1All:
		g, a := i/na, i%na
		if kind == kWatGap1 {
			near := g > 0 && s.IsCmt[g-1] || g < len(s.Toks) && s.IsCmt[g]
			if !near {
				return nil, ""
			}
		}
		return s.withGaps([]int{g}, []int{a}), fmt.Sprintf("gap %d -> %q", g, s.alts()[a])
	case kGap2:
		n := s.ngaps()
		pair, o := i/(na*na), i%(na*na)
		g1 := 0
		for pair >= n-1-g1 {
			pair -= n - 1 - g1
			g1++
		}
		g2 := g1 + 1 + pair
		return s.withGaps([]int{g1, g2}, []int{o / na, o % na}), fmt.Sprintf("gaps %d,%d -> %q,%q", g1, g2, s.alts()[o/na], s.alts()[o%na])
	case kImports:
		return s.permuteImports(i), fmt.Sprintf("import permutation %d", i)
	}
	return nil, ""
}

// permuteImports reorders the source text of the first (up to) three import specs.
func (s *seedT) permuteImports(i int) []byte {
	fset, f, err := parseSrc(s.File, s.Src)
	if err != nil {
		return nil
	}
	var specs []span
	for _, d := range f.Decls {
		g, ok := d.(*ast.GenDecl)
		if !ok || (g.Tok != token.IMPORT && g.Tok != token.Zh_引入) {
			continue
		}
		for _, sp := range g.Specs {
			is := sp.(*ast.ImportSpec)
			lo := fset.Position(is.Path.Pos()).Offset
			hi := lo + len(is.Path.Value)
			if is.Name != nil && is.Name.Pos().IsValid() {
				if e := fset.Position(is.Name.End()).Offset; e > hi {
					hi = e
				}
				if b := fset.Position(is.Name.Pos()).Offset; b < lo {
					lo = b
				}
			}
			specs = append(specs, span{lo, hi})
		}
	}
	var perm []int
	switch {
	case len(specs) >= 3:
		specs = specs[:3]
		perm = perms3[i]
	case len(specs) == 2:
		perm = []int{1, 0}
	default:
		return nil
	}
	var b []byte
	prev := 0
	for k, sp := range specs {
		b = append(b, s.Src[prev:sp.off]...)
		src := specs[perm[k]]
		b = append(b, s.Src[src.off:src.end]...)
		prev = sp.end
	}
	return append(b, s.Src[prev:]...)
}

// ---------------------------------------------------------------------------------------------
// Oracles (worker side)

type Violation struct {
	Key, What string
	Seed      string
	Variant   string
	Input     string
	Detail    string
	SeedIdx   int
	Kind      int
	Index     int
}

var (
	reNum    = regexp.MustCompile(`[0-9]+`)
	rePosPfx = regexp.MustCompile(`^[^\s:]*:[0-9]+:[0-9]+: `)
	reQuoted = regexp.MustCompile("\"[^\"]*\"|'[^']*'|`[^`]*`")
)

func normMsg(s string) string {
	if i := strings.IndexByte(s, '\n'); i >= 0 {
		s = s[:i]
	}
	s = rePosPfx.ReplaceAllString(s, "")
	s = reQuoted.ReplaceAllString(s, "Q")
	s = reNum.ReplaceAllString(s, "N")
	if len(s) > 90 {
		s = s[:90]
	}
	return s
}

func panicLoc() string {
	pcs := make([]uintptr, 128)
	n := runtime.Callers(3, pcs)
	frames := runtime.CallersFrames(pcs[:n])
	var list []runtime.Frame
	for {
		f, more := frames.Next()
		list = append(list, f)
		if !more {
			break
		}
	}
	start := 0
	for i, f := range list {
		if f.Function == "runtime.gopanic" {
			start = i + 1
		}
	}
	for _, f := range list[start:] {
		if strings.HasPrefix(f.Function, "wa-lang.org/wa/") && !strings.Contains(f.Function, "/zzverif/") {
			fn := f.Function[strings.LastIndexByte(f.Function, '/')+1:]
			return filepath.Base(f.File) + ":" + fn
		}
	}
	return "?"
}

func safeFormat(name string, src []byte) (out string, err error, pnc string) {
	defer func() {
		if e := recover(); e != nil {
			pnc = normMsg(fmt.Sprint(e)) + " at " + panicLoc()
		}
	}()
	out, err = api.FormatCode(name, string(src))
	return
}

// sortedImports returns f with the specs of every import declaration sorted by path and name (the
// formatter sorts imports by design: format.SourceFile -> ast.SortImports).
func sortedImports(f *ast.File) *ast.File {
	g := *f
	g.Decls = append([]ast.Decl(nil), f.Decls...)
	for i, d := range g.Decls {
		gd, ok := d.(*ast.GenDecl)
		if !ok || (gd.Tok != token.IMPORT && gd.Tok != token.Zh_引入) || len(gd.Specs) < 2 {
			continue
		}
		c := *gd
		c.Specs = append([]ast.Spec(nil), gd.Specs...)
		key := func(s ast.Spec) string {
			is, ok := s.(*ast.ImportSpec)
			if !ok || is.Path == nil {
				return ""
			}
			k := is.Path.Value
			if is.Name != nil {
				k += " " + is.Name.Name
			}
			return k
		}
		sort.SliceStable(c.Specs, func(a, b int) bool { return key(c.Specs[a]) < key(c.Specs[b]) })
		g.Decls[i] = &c
	}
	return &g
}

func commentStyle(t string) string {
	switch {
	case strings.HasPrefix(t, "//"):
		return "//"
	case strings.HasPrefix(t, "/*"):
		return "/*"
	case strings.HasPrefix(t, "#"):
		return "#"
	case strings.HasPrefix(t, "注"):
		return "注:"
	}
	return "?"
}

func tail1(p string) string {
	if i := strings.LastIndexByte(p, '/'); i >= 0 {
		return p[i+1:]
	}
	return p
}

func tail2(p string) string {
	parts := strings.Split(p, "/")
	if len(parts) > 2 {
		parts = parts[len(parts)-2:]
	}
	return strings.Join(parts, "/")
}

// rawControlNear reports a raw form feed byte (legal inside rune and string literals, and the
// printer's own line-break character) on the line of offset off or the line before it.
func rawControlNear(text string, off int) string {
	off = min(off, len(text))
	lo := strings.LastIndexByte(text[:off], '\n')
	if lo > 0 {
		lo = strings.LastIndexByte(text[:lo], '\n')
	}
	hi := off + strings.IndexByte(text[off:]+"\n", '\n')
	seg := text[lo+1 : min(hi, len(text))]
	if strings.ContainsRune(seg, '\f') {
		return "raw-formfeed-in-literal"
	}
	return ""
}

// constructAt names the innermost AST nodes of f covering byte offset off.
func constructAt(fset *token.FileSet, f *ast.File, off int) (res string) {
	defer func() {
		if recover() != nil {
			res = "File"
		}
	}()
	var chain []string
	inCmt := ""
	for _, g := range f.Comments {
		for _, c := range g.List {
			lo := fset.Position(c.Pos()).Offset
			if lo <= off && off <= lo+len(c.Text) {
				inCmt = "+comment(" + commentStyle(c.Text) + ")"
			}
		}
	}
	ast.Inspect(f, func(n ast.Node) bool {
		if n == nil {
			return false
		}
		if _, ok := n.(*ast.CommentGroup); ok {
			return false
		}
		if _, ok := n.(*ast.Comment); ok {
			return false
		}
		ok := false
		func() {
			defer func() { recover() }()
			if n.Pos().IsValid() && n.End().IsValid() {
				lo, hi := fset.Position(n.Pos()).Offset, fset.Position(n.End()).Offset
				ok = lo <= off && off <= hi
			}
		}()
		if _, isFile := n.(*ast.File); isFile {
			ok = true
		}
		if ok {
			chain = append(chain, reflect.TypeOf(n).Elem().Name())
		}
		return ok
	})
	if inCmt != "" {
		// the difference is at a comment: the comment style is the construct (which node happens
		// to enclose a misplaced comment is incidental)
		return inCmt[1:]
	}
	if len(chain) == 0 {
		return "File"
	}
	return chain[len(chain)-1]
}

type oracleStats struct {
	Variants, Invalid, Evals, WatPairs, WatSkipped int
}

type watCache struct {
	m map[[20]byte]string // text hash -> wat hash or "!err"
}

var wcache = watCache{m: map[[20]byte]string{}}

// compileNorm = api.BuildFile (LoadProgramFile + compiler_wat.Compile) with the positions of the
// main file made to print as "<file>:1" (one line, unknown column) before code generation, so
// that position strings embedded in panic/assert calls do not depend on the layout.
func compileNorm(name string, src []byte, normalise bool) (wat string, errClass string) {
	defer func() {
		if e := recover(); e != nil {
			wat, errClass = "", "panic: "+normMsg(fmt.Sprint(e))+" at "+panicLoc()
		}
	}()
	prog, err := api.LoadProgramFile(api.DefaultConfig(), name, src)
	if err != nil || prog == nil {
		return "", "load: " + normMsg(fmt.Sprint(err))
	}
	if normalise {
		prog.Fset.Iterate(func(f *token.File) bool {
			if f.Name() == name && f.Size() > 0 {
				f.SetLines([]int{0})
				f.AddLineColumnInfo(0, name, 1, 0)
			}
			return true
		})
	}
	out, err := compiler_wat.New().Compile(prog)
	if err != nil {
		return "", "compile: " + normMsg(err.Error())
	}
	return out, ""
}

func cachedWat(name string, src []byte) (hash string, wat string) {
	k := sha1.Sum(append([]byte(name+"\x00"), src...))
	if h, ok := wcache.m[k]; ok {
		return h, ""
	}
	w, e := compileNorm(name, src, true)
	h := "!" + e
	if e == "" {
		s := sha1.Sum([]byte(w))
		h = fmt.Sprintf("%x", s[:8])
	}
	if len(wcache.m) > 4096 {
		wcache.m = map[[20]byte]string{}
	}
	wcache.m[k] = h
	return h, w
}

func watWhere(a, b string) string {
	la, lb := strings.Split(a, "\n"), strings.Split(b, "\n")
	cur := "module"
	for i := 0; i < len(la) && i < len(lb); i++ {
		t := strings.TrimSpace(la[i])
		if strings.HasPrefix(t, "(func ") || strings.HasPrefix(t, "(data") || strings.HasPrefix(t, "(global") || strings.HasPrefix(t, "(export") || strings.HasPrefix(t, "(table") || strings.HasPrefix(t, "(elem") || strings.HasPrefix(t, "(import") {
			f := strings.Fields(t)
			cur = strings.TrimLeft(f[0], "(")
			if cur == "func" && len(f) > 1 {
				name := strings.TrimRight(f[1], ")")
				switch {
				case strings.HasSuffix(name, ".init"):
					cur = "package-init"
				case strings.HasPrefix(name, "$runtime.") || strings.HasPrefix(name, "$$runtime."):
					cur = "func(runtime)"
				default:
					cur = "func(user)"
				}
			}
		}
		if la[i] != lb[i] {
			return cur + ": " + truncate(strings.TrimSpace(la[i]), 60) + " <> " + truncate(strings.TrimSpace(lb[i]), 60)
		}
	}
	return cur + ": length"
}

func truncate(s string, n int) string {
	if len(s) > n {
		return s[:n] + "..."
	}
	return s
}

// check runs the oracles on one variant; returns violations.
func check(s *seedT, p []byte, desc, altClass string, wat bool, st *oracleStats) (vs []Violation) {
	add := func(key, what, detail string) {
		vs = append(vs, Violation{Key: key, What: what, Seed: s.Name, Variant: desc, Input: truncate(string(p), 1500), Detail: truncate(detail, 1500)})
	}
	syn := s.Syntax
	fset0, f0, err := parseSrc(s.File, p)
	if err != nil {
		st.Invalid++
		return nil
	}
	st.Variants++
	st.Evals++
	f1, ferr, pnc := safeFormat(s.File, p)
	if pnc != "" {
		add("format-panic|"+syn+"|"+pnc, "format panics on a valid source: "+pnc, "")
		return
	}
	if ferr != nil {
		add("format-error|"+syn+"|"+normMsg(ferr.Error()), "format rejects a source the parser accepts: "+ferr.Error(), "")
		return
	}
	fset1, a1, perr := parseSrc(s.File, []byte(f1))
	if perr != nil {
		add("reparse|"+syn+"|"+altClass, "format(s) does not parse: "+perr.Error(), f1)
		return
	}
	// 1. idempotence
	st.Evals++
	f2, ferr2, pnc2 := safeFormat(s.File, []byte(f1))
	switch {
	case pnc2 != "":
		add("format-panic|"+syn+"|"+pnc2, "format panics on its own output: "+pnc2, f1)
	case ferr2 != nil:
		add("reformat-error|"+syn+"|"+normMsg(ferr2.Error()), "format rejects its own (parsable) output: "+ferr2.Error(), f1)
	case f2 != f1:
		d := 0
		for d < len(f1) && d < len(f2) && f1[d] == f2[d] {
			d++
		}
		where := constructAt(fset1, a1, d)
		if !strings.HasPrefix(where, "comment(") {
			// a comment that moved to the front of the differing position shows in the second result
			if fset2, a2, err2 := parseSrc(s.File, []byte(f2)); err2 == nil {
				if w2 := constructAt(fset2, a2, d); strings.HasPrefix(w2, "comment(") {
					where = w2
				}
			}
		}
		if c := rawControlNear(f1, d); c != "" {
			where = c // literal holding a raw form feed: the printer's own layout character
		}
		lo := max(0, d-40)
		add("idempotent|"+syn+"|"+where, fmt.Sprintf("format(format(s)) != format(s); first difference at byte %d in %s", d, where),
			fmt.Sprintf("format(s) around the difference: %q\nformat(format(s)):              %q", f1[lo:min(len(f1), d+40)], f2[lo:min(len(f2), d+40)]))
	}
	// 2. same tree
	_ = fset0
	d0, d1 := astdump.Dump(sortedImports(f0)), astdump.Dump(sortedImports(a1))
	if i, pth := astdump.FirstDiff(d0, d1); i >= 0 {
		get := func(d []astdump.Line, i int) string {
			if i < len(d) {
				return strings.TrimSpace(d[i].Text)
			}
			return "<end>"
		}
		add("ast|"+syn+"|"+tail1(pth), fmt.Sprintf("parse(format(s)) differs from parse(s) at %s: %s  vs  %s", pth, get(d0, i), get(d1, i)), f1)
	}
	// 3. comments
	c0, c1 := astdump.Comments(f0), astdump.Comments(a1)
	if !reflect.DeepEqual(c0, c1) {
		cnt := map[string]int{}
		for _, c := range c0 {
			cnt[c]++
		}
		for _, c := range c1 {
			cnt[c]--
		}
		var keys []string
		for c := range cnt {
			keys = append(keys, c)
		}
		sort.Strings(keys)
		for _, c := range keys {
			if cnt[c] > 0 {
				add("comments|"+syn+"|lost:"+commentStyle(c), fmt.Sprintf("comment %q is lost by formatting", c), f1)
				break
			}
		}
		for _, c := range keys {
			if cnt[c] < 0 {
				add("comments|"+syn+"|added:"+commentStyle(c), fmt.Sprintf("comment %q appears after formatting", c), f1)
				break
			}
		}
	}
	// 4. same WebAssembly
	if wat {
		h0, w0 := cachedWat(s.File, p)
		if strings.HasPrefix(h0, "!") {
			st.WatSkipped++ // not a complete program (or the compiler rejects it): outside this oracle
			return
		}
		st.Evals += 2
		st.WatPairs++
		h1, w1 := cachedWat(s.File, []byte(f1))
		switch {
		case strings.HasPrefix(h1, "!"):
			add("wat-compile|"+syn+"|"+h1[1:], "the program compiles but its formatted version does not: "+h1[1:], f1)
		case h0 != h1:
			if w0 == "" {
				w0, _ = compileNorm(s.File, p, true)
			}
			if w1 == "" {
				w1, _ = compileNorm(s.File, []byte(f1), true)
			}
			where := watWhere(w0, w1)
			add("wat|"+syn+"|"+strings.SplitN(where, ":", 2)[0], "program and formatted program compile to different WAT: "+where, f1)
		}
	}
	return
}

// ---------------------------------------------------------------------------------------------
// Jobs

type Job struct {
	Seed     int
	Kind     int
	From, To int
	OrigOnly bool // crash triage: only compile the variant itself
}

type JobResult struct {
	Stats    oracleStats
	Viol     []Violation
	Outcomes []string
	Err      string
}

func handleJob(raw json.RawMessage) interface{} {
	var j Job
	if err := json.Unmarshal(raw, &j); err != nil {
		return JobResult{Err: err.Error()}
	}
	ss, _ := loadSeeds()
	if j.Seed >= len(ss) {
		return JobResult{Err: "seed index out of range"}
	}
	s := ss[j.Seed]
	var res JobResult
	seen := map[string]bool{}
	outcomes := map[string]bool{}
	for i := j.From; i < j.To; i++ {
		p, desc := s.variant(j.Kind, i)
		if p == nil {
			continue
		}
		if j.OrigOnly {
			cachedWat(s.File, p)
			continue
		}
		wat := j.Kind == kWatBase || j.Kind == kWatGap1 || j.Kind == kWatGap1All
		vs := check(s, p, desc, s.altClass(j.Kind, i), wat, &res.Stats)
		for _, v := range vs {
			if !seen[v.Key] {
				seen[v.Key] = true
				v.SeedIdx, v.Kind, v.Index = j.Seed, j.Kind, i
				res.Viol = append(res.Viol, v)
			}
		}
		if len(outcomes) < 64 {
			h := sha1.Sum(p)
			o := fmt.Sprintf("%s|%d|%x", s.Syntax, len(vs), h[:2])
			outcomes[o] = true
		}
	}
	for o := range outcomes {
		res.Outcomes = append(res.Outcomes, o)
	}
	sort.Strings(res.Outcomes)
	return res
}

// ---------------------------------------------------------------------------------------------
// Supervisor

type found struct {
	v    Violation
	size int
}

func main() {
	if mc.IsWorker() {
		mc.WorkerMain(handleJob)
		return
	}
	r := mc.Start("C07")
	ss, errs := loadSeeds()
	for _, e := range errs {
		r.HarnessError("%s", e)
	}
	if os.Getenv("C07_DUMP") != "" {
		for _, s := range ss {
			if s.Corpus {
				_, e := compileNorm(s.File, s.Src, true)
				fmt.Printf("== %s (%d tokens) compile: %q\n%s\n", s.Name, len(s.Toks), e, s.Src)
			}
		}
	}
	thorough := r.Thorough()
	gap1Tokens := mc.Pick(r, 150, 600)
	gap2Tokens := 45

	r.Rule("seeds = waroot files + grammar corpus + literal family (60 literal spellings: every kind, raw TAB/VT/FF, multi-byte, escapes, quotes, comment markers, multi-line raw strings x 6 placements x 2 syntaxes); every seed; every single-gap perturbation (7 alternatives per gap) of every seed with <= T tokens; thorough: every pair of gap perturbations of the corpus programs with <= 45 tokens; " +
		"every permutation of the first <= 3 imports; the WAT oracle on every seed that compiles, on the comment-adjacent gap perturbations of the corpus programs, and (thorough) on all gap perturbations of corpus programs <= 120 tokens. " +
		"Outcomes are (syntax, number of violated oracles, variant hash)")
	r.Bound("gap1_max_tokens", gap1Tokens)
	r.Bound("gap2_max_tokens", mc.Pick(r, 0, gap2Tokens))
	r.Bound("gap_alternatives", len(altsWa))
	r.Bound("import_permutations_of", 3)
	r.Assume("a variant is in the domain iff parser.ParseFile (ParseComments) accepts it without error")
	r.Assume("import declarations are compared as multisets of (path, name): the formatter sorts them by design (format.SourceFile -> ast.SortImports)")
	r.Assume("syntax tree equality ignores token.Pos fields, resolution data (Obj/Scope/Unresolved) and which node a comment group is attached to; comment texts are compared as a multiset")
	r.Assume("WAT equality: positions of the main file are made to print as '<file>:1' in the FileSet between api.LoadProgramFile and compiler_wat.Compile (the two steps of api.BuildFile); nothing else is normalised")

	var jobs []Job
	nseedWa, nseedWz, ncorpus := 0, 0, 0
	addJobs := func(si, kind, chunk int) {
		n := ss[si].count(kind)
		for from := 0; from < n; from += chunk {
			jobs = append(jobs, Job{Seed: si, Kind: kind, From: from, To: min(from+chunk, n)})
		}
	}
	for si, s := range ss {
		if s.Syntax == "wa" {
			nseedWa++
		} else {
			nseedWz++
		}
		if s.Corpus {
			ncorpus++
		}
		nt := len(s.Toks)
		addJobs(si, kBase, 1)
		addJobs(si, kImports, 8)
		if s.Toks != nil && nt <= gap1Tokens {
			addJobs(si, kGap1, 700)
		}
		if thorough && s.Corpus && s.Toks != nil && nt <= gap2Tokens {
			addJobs(si, kGap2, 3000)
		}
		hasMain := bytes.Contains(s.Src, []byte("func main")) || bytes.Contains(s.Src, []byte("主控"))
		if hasMain {
			addJobs(si, kWatBase, 1)
		}
		if s.Corpus && s.Toks != nil {
			if thorough && nt <= 120 {
				addJobs(si, kWatGap1All, 40)
			} else {
				addJobs(si, kWatGap1, 140)
			}
		}
	}
	r.Bound("seeds_wa", nseedWa)
	r.Bound("seeds_wz", nseedWz)
	r.Bound("corpus_programs", ncorpus)
	r.Bound("literal_family_programs", litTotal)
	r.Bound("literal_family_programs_parsing", litParsed)
	if litParsed*10 < litTotal*6 {
		r.HarnessError("only %d of %d literal family programs parse", litParsed, litTotal)
	}
	if nseedWa < 100 || nseedWz < 20 {
		r.HarnessError("too few seeds: %d wa, %d wz", nseedWa, nseedWz)
	}
	// cheapest first is not needed for correctness; interleave heavy WAT jobs early so they overlap
	sort.SliceStable(jobs, func(a, b int) bool {
		wa := jobs[a].Kind >= kWatBase
		wb := jobs[b].Kind >= kWatBase
		return wa && !wb
	})

	var mu sync.Mutex
	best := map[string]found{}
	var total oracleStats
	pool := mc.NewPool(mc.NWorkers(), []string{"GOMAXPROCS=2", "GOGC=200"})
	record := func(v Violation) {
		mu.Lock()
		defer mu.Unlock()
		sz := len(v.Input)
		if old, ok := best[v.Key]; !ok || sz < old.size || sz == old.size && v.Input < old.v.Input {
			best[v.Key] = found{v, sz}
		}
	}
	ncrash := 0
	for round := 0; len(jobs) > 0; round++ {
		batch := jobs
		var next []Job
		pool.Run(len(batch), func(i int) interface{} { return batch[i] }, 10*time.Minute, func(res mc.Result) {
			j := batch[res.Index]
			if res.Status == "ok" {
				var jr JobResult
				if err := json.Unmarshal(res.Out, &jr); err != nil || jr.Err != "" {
					r.HarnessError("job result: %v %s", err, jr.Err)
					return
				}
				if j.OrigOnly {
					// the variant alone compiles without killing the worker: the formatted one does
					s := ss[j.Seed]
					p, desc := s.variant(j.Kind, j.From)
					record(Violation{Key: "wat-compile|" + s.Syntax + "|crash", What: "the program compiles but compiling its formatted version kills the process", Seed: s.Name, Variant: desc, Input: truncate(string(p), 1500), SeedIdx: j.Seed, Kind: j.Kind, Index: j.From})
					return
				}
				mu.Lock()
				total.Variants += jr.Stats.Variants
				total.Invalid += jr.Stats.Invalid
				total.Evals += jr.Stats.Evals
				total.WatPairs += jr.Stats.WatPairs
				total.WatSkipped += jr.Stats.WatSkipped
				mu.Unlock()
				r.Evals.Add(int64(jr.Stats.Evals))
				for _, o := range jr.Outcomes {
					r.Distinct(o)
				}
				for _, v := range jr.Viol {
					record(v)
				}
				return
			}
			// crash or hang: bisect down to one variant
			mu.Lock()
			defer mu.Unlock()
			ncrash++
			if j.OrigOnly {
				return // the variant itself cannot be compiled: outside the WAT oracle
			}
			if j.To-j.From > 1 {
				m := (j.From + j.To) / 2
				next = append(next, Job{Seed: j.Seed, Kind: j.Kind, From: j.From, To: m}, Job{Seed: j.Seed, Kind: j.Kind, From: m, To: j.To})
				return
			}
			s := ss[j.Seed]
			p, desc := s.variant(j.Kind, j.From)
			if j.Kind >= kWatBase {
				next = append(next, Job{Seed: j.Seed, Kind: j.Kind, From: j.From, To: j.To, OrigOnly: true})
				return
			}
			what := "os.Exit / fatal error"
			if res.Status == "hang" {
				what = "no result within 10 minutes"
			}
			mu.Unlock()
			record(Violation{Key: "format-" + res.Status + "|" + s.Syntax, What: "formatting a valid source: " + what, Seed: s.Name, Variant: desc, Input: truncate(string(p), 1500), Detail: truncate(res.Stderr, 1200), SeedIdx: j.Seed, Kind: j.Kind, Index: j.From})
			mu.Lock()
		})
		jobs = next
		if r.Expired() {
			r.Cap("deadline")
			break
		}
	}
	pool.Close()
	var ru syscall.Rusage
	if syscall.Getrusage(syscall.RUSAGE_CHILDREN, &ru) == nil {
		r.Extra("worker_cpu_s", int(ru.Utime.Sec+ru.Stime.Sec))
	}

	// confirm each smallest witness 5x alone in fresh workers
	var keys []string
	for k := range best {
		keys = append(keys, k)
	}
	sort.Strings(keys)
	okCount := map[string]int{}
	mc.RunPool(mc.NWorkers(), len(keys)*5, func(i int) interface{} {
		v := best[keys[i/5]].v
		return Job{Seed: v.SeedIdx, Kind: v.Kind, From: v.Index, To: v.Index + 1}
	}, 10*time.Minute, []string{"GOMAXPROCS=2"}, func(res mc.Result) {
		k := keys[res.Index/5]
		good := false
		if strings.HasPrefix(k, "format-crash|") || strings.HasPrefix(k, "format-hang|") || strings.HasSuffix(k, "|crash") {
			good = res.Status != "ok"
		} else if res.Status == "ok" {
			var jr JobResult
			if json.Unmarshal(res.Out, &jr) == nil {
				for _, v := range jr.Viol {
					if v.Key == k {
						good = true
					}
				}
			}
		}
		if good {
			mu.Lock()
			okCount[k]++
			mu.Unlock()
		}
	})
	for _, k := range keys {
		if okCount[k] != 5 {
			r.HarnessError("violation %q reproduced only %d/5 times alone", k, okCount[k])
			delete(best, k)
		}
	}
	for _, k := range keys {
		if _, ok := best[k]; !ok {
			continue
		}
		v := best[k].v
		r.Report(k, fmt.Sprintf("%s [%s, %s]", v.What, v.Seed, v.Variant), map[string]interface{}{
			"seed": v.Seed, "variant": v.Variant, "input": v.Input, "detail": v.Detail,
		})
	}
	r.Extra("variants_checked", total.Variants)
	r.Extra("variants_not_parsing_skipped", total.Invalid)
	r.Extra("wat_pairs_compared", total.WatPairs)
	r.Extra("wat_variants_not_compiling_skipped", total.WatSkipped)
	r.Extra("worker_deaths_bisected", ncrash)
	for _, s := range ss {
		if s.Corpus && r.WantSample() {
			p, d := s.variant(kGap1, 12)
			r.Sample(map[string]interface{}{"seed": s.Name, "variant": d, "text": truncate(string(p), 200)})
		}
	}
	if total.Variants < 1000 || total.WatPairs < 20 {
		r.HarnessError("vacuous: %d variants, %d WAT pairs", total.Variants, total.WatPairs)
	}
	r.Finish()
}
