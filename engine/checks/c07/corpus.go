//go:build go1.21

package main

// Generated corpus: small complete programs that together use every declaration, statement and
// expression form of the grammar (internal/parser/parser.go productions), in both syntaxes.
//
// goCorpus is written in the Go-compatible spelling (WaGo, parsed as *.wa.go) and rendered to .wa
// by the repository's own converter (parser wagoMode + format.DevFormat), exactly as `wa` does.
// waCorpus holds .wa spellings the converter never produces (method sugar, '#' comments,
// directives, optional parentheses). wzCorpus is hand-written .wz modelled on waroot/examples/wz,
// docs/wz.md and the w2parser productions. A corpus program that does not parse is a harness
// error (the corpus is part of the check, not of the input space).

type corpusProg struct {
	Name string
	Src  string
}

var goCorpus = []corpusProg{
	{"decl-const", `package main

const A = 1
const B, C int32 = 2, 3
const (
	D = iota
	E
	F = "s"
)

func main() { println(A, B, C, D, E, F) }
`},
	{"decl-var", `package main

var g1 int32
var g2 int32 = 2
var g3, g4 = 3, "x"
var (
	g5 [3]int32
	g6 []byte
	g7 map[string]int32
	g8 *int32
)

func main() { println(g1, g2, g3, g4, len(g5), len(g6), len(g7), g8 == nil) }
`},
	{"decl-type", `package main

type T1 int32
type T2 struct {
	a, b int32
	c    string
	T1
	p *T2
}
type T3 interface {
	M(x int32) int32
	N()
}
type T4 func(a int32, b string) (int32, bool)
type T5 map[string][]int32
type T6 [4]T1
type (
	T7 []T2
	T8 [2][]T1
)
type T9 interface{}
type T10 struct{}

func main() {
	var a T1
	var b T2
	var c T3
	var d T4
	var e T5
	var f T6
	var g T7
	var h *T1
	var i T9
	var j T10
	println(a, b.a, c == nil, d == nil, len(e), len(f), len(g), h == nil, i == nil)
	_ = j
}
`},
	{"decl-func", `package main

func f0() {}
func f1(a int32) int32 { return a }
func f2(a, b int32, c string) (int32, string) { return a + b, c }
func f3(xs ...int32) (n int32) {
	for _, x := range xs {
		n += x
	}
	return
}
func f4(f func(int32) int32, x int32) int32 { return f(x) }

type P struct{ x int32 }

func (p *P) Get() int32   { return p.x }
func (p *P) Set(v int32)  { p.x = v }
func (p P) Copy() P       { return p }

func main() {
	f0()
	a, s := f2(1, 2, "z")
	p := &P{x: 4}
	p.Set(p.Get() + 1)
	println(f1(1), a, s, f3(), f3(1, 2, 3), f3([]int32{4, 5}...), f4(f1, 7), p.Copy().x)
}
`},
	{"stmt-if", `package main

func main() {
	x := int32(3)
	if x > 2 {
		println("a")
	}
	if x > 5 {
		println("b")
	} else {
		println("c")
	}
	if y := x * 2; y > 10 {
		println("d")
	} else if y > 5 {
		println("e")
	} else if y > 4 {
		println("f")
	} else {
		println("g")
	}
}
`},
	{"stmt-for", `package main

func main() {
	for i := 0; i < 3; i++ {
		println(i)
	}
	j := 0
	for j < 3 {
		j++
	}
	for {
		j--
		if j < 0 {
			break
		}
		continue
	}
	xs := []int32{7, 8, 9}
	for i := range xs {
		println(i)
	}
	for i, v := range xs {
		println(i, v)
	}
	for _, v := range xs {
		println(v)
	}
	for range xs {
		j++
	}
	m := map[string]int32{"a": 1}
	for k, v := range m {
		println(k, v)
	}
	for i, c := range "héy" {
		println(i, c)
	}
	var k int
	var v int32
	for k, v = range xs {
	}
	println(j, k, v)
outer:
	for i := 0; i < 3; i++ {
		for j := 0; j < 3; j++ {
			if j == 1 {
				continue outer
			}
			if i == 2 {
				break outer
			}
		}
	}
}
`},
	{"stmt-switch", `package main

func f(x int32) int32 {
	switch x {
	case 1:
		return 10
	case 2, 3:
		return 20
	default:
		return 30
	}
}

func g(x int32) string {
	switch {
	case x < 0:
		return "neg"
	case x == 0:
		return "zero"
	}
	switch y := x * 2; y {
	case 4:
		return "four"
	}
	switch y := x; {
	case y > 100:
		return "big"
	}
	return "pos"
}

func h(v interface{}) int32 {
	switch t := v.(type) {
	case int32:
		return t
	case string, bool:
		return 1
	case nil:
		return 2
	default:
		return 3
	}
}

func k(v interface{}) int32 {
	switch v.(type) {
	case int32:
		return 1
	}
	return 0
}

func main() {
	println(f(1), f(2), f(9), g(-1), g(0), g(2), g(5), h(int32(5)), h("s"), h(nil), h(1.5), k(int32(1)))
}
`},
	{"stmt-misc", `package main

type S struct{ a, b int32 }

func two() (int32, int32) { return 1, 2 }

func main() {
	var a int32
	var b, c int32 = 1, 2
	var d = "s"
	var (
		e int32
		f = 2.5
	)
	const k = 3
	type local struct{ v int32 }
	a = 1
	a, b = b, a
	a += 1
	a -= 1
	a *= 2
	a /= 2
	a %= 3
	a <<= 1
	a >>= 1
	a &= 7
	a |= 8
	a ^= 1
	a &^= 2
	a++
	b--
	x, y := two()
	_, z := two()
	{
		inner := local{v: 1}
		println(inner.v)
	}
	defer println("deferred")
	defer func() {
		println("closure")
	}()
	s := S{1, 2}
	s.a = 5
	p := &s
	p.b = 6
	*p = S{a: 7}
	arr := [3]int32{1, 2, 3}
	arr[0] = 9
	m := map[string]int32{}
	m["k"] = 1
	delete(m, "k")
	;
	println(a, b, c, d, e, f, k, x, y, z, s.a, arr[0], len(m))
	return
}
`},
	{"expr-ops", `package main

func main() {
	a, b := int32(7), int32(3)
	x, y := 1.5, 2.5
	p, q := true, false
	s, t := "a", "b"
	println(a+b, a-b, a*b, a/b, a%b, a&b, a|b, a^b, a&^b, a<<2, a>>1)
	println(a == b, a != b, a < b, a <= b, a > b, a >= b)
	println(p && q, p || q, !p)
	println(-a, +a, ^a)
	println(x+y, x-y, x*y, x/y, x < y)
	println(s+t, s == t, s < t)
	println(a+b*a-b, (a+b)*(a-b), a<<1+b, a*b+a*b, -a*b, a+(-b), !(a < b) || p && q)
	println(a + b - (a*b)/(a-b)%5 | 1 &^ 2 << 3)
	ptr := &a
	*ptr = 4
	println(*ptr, *ptr+1, ptr == &a)
}
`},
	{"expr-primary", `package main

type T struct {
	a int32
	n *T
}

func (t *T) M() int32 { return t.a }

type I interface{ M() int32 }

func id(x int32) int32 { return x }

func main() {
	xs := []int32{1, 2, 3, 4, 5}
	arr := [...]int32{1, 2, 3}
	println(xs[0], xs[len(xs)-1], arr[1])
	println(len(xs[1:]), len(xs[:2]), len(xs[1:3]), len(xs[:]), cap(xs[1:2:3]))
	str := "hello"
	println(str[1], str[1:3], len(str))
	t := &T{a: 1, n: &T{a: 2}}
	println(t.a, t.n.a, t.M(), t.n.M(), (*t).a)
	var i I = t
	println(i.M(), i.(*T).a)
	if v, ok := i.(*T); ok {
		println(v.a)
	}
	var e interface{} = int32(3)
	n, ok := e.(string)
	println(n, ok)
	println(id(1), id(id(2)), int64(3), float64(xs[0]), string(rune(65)), []byte("ab")[0], (int32)(4))
	f := func(a, b int32) int32 { return a + b }
	println(f(1, 2), func() int32 { return 9 }())
	m := map[string]int32{"a": 1, "b": 2}
	v, has := m["a"]
	println(m["b"], v, has, len(m))
	println(make([]int32, 3)[0], len(make([]int32, 2, 8)), len(make(map[string]bool)), *new(int32))
	xs = append(xs, 6, 7)
	xs = append(xs, xs...)
	println(len(xs), copy(xs, xs[1:]))
}
`},
	{"expr-lits", `package main

type P struct{ x, y int32 }
type Ps []P
type A2 [2]P
type L struct {
	name string
	ps   Ps
	m    map[string]P
	arr  A2
	ptr  *P
}

func main() {
	println(0, 42, 0x1F, 0o17, 0b101, 1_000, 1.5, .5, 1e3, 1.5e-3, 'a', '\n', '\x41', 'é', "s\t\"q\"", ` + "`raw\\n`" + `)
	a := P{1, 2}
	b := P{x: 1}
	c := P{}
	d := &P{y: 3}
	e := []P{{1, 2}, {x: 3}}
	f := [2]P{{1, 2}}
	g := map[string]P{"a": {1, 2}, "b": {}}
	h := []*P{{1, 2}, &a}
	i := [][]int32{{1}, {2, 3}, {}}
	j := L{
		name: "n",
		ps:   Ps{{1, 2}},
		m:    map[string]P{"k": {5, 6}},
		arr:  A2{{7, 8}, {9, 10}},
		ptr:  &P{11, 12},
	}
	k := []int32{0: 1, 2: 3}
	l := struct {
		u int32
		v string
	}{1, "w"}
	println(a.x, b.x, c.x, d.y, len(e), f[0].y, g["a"].x, h[0].x, len(i), j.ptr.x, len(k), l.v)
}
`},
	{"closures", `package main

func counter() func() int32 {
	n := int32(0)
	return func() int32 {
		n++
		return n
	}
}

type Ints []int32

func apply(xs Ints, f func(int32) int32) Ints {
	out := make(Ints, 0, len(xs))
	for _, x := range xs {
		out = append(out, f(x))
	}
	return out
}

func main() {
	c := counter()
	c()
	println(c(), apply(Ints{1, 2}, func(x int32) int32 { return x * 2 })[1])
}
`},
	{"comments", `// file comment

// Package doc.
package main

import "strings" // trailing import comment

// doc of const group
const (
	// doc of A
	A = 1 // trailing A
	B = 2 /* trailing block B */
)

/* block doc of T */
type T struct {
	a int32 // field a
	// doc of b
	b int32
	/* c */ c int32
}

// doc of f
// second line
func f(a int32 /* inline param */, b int32) int32 { // after brace
	// leading statement comment
	x := a + /* inside expr */ b // trailing statement comment

	// comment before blank line

	if x > 0 { // if trailing
		// only comment in block
	} else { /* else block */
		x = 1
	}
	switch x {
	// before case
	case 1: // case trailing
		// in case
	}
	return x // return trailing
	// end of body comment
}

func main() {
	println(f(A, B), strings.ToUpper("a"))
} // after main

// trailing file comment
`},
	{"imports-3", `package main

import (
	"strings"
	"errors"
	"bytes"
)

func main() {
	println(strings.ToUpper("a"), errors.New("e") != nil, bytes.Equal(nil, nil))
}
`},
	{"imports-single", `package main

import "strings"
import "errors"
import b "bytes"

func main() {
	println(strings.ToUpper("a"), errors.New("e") != nil, b.Equal(nil, nil))
}
`},
}

var waCorpus = []corpusProg{
	{"wa-named-pointer-type", `type P :*i32

type (
	Q :*P
	R :func()
)
`},
	{"wa-sugar", `# hash comment at top

import "strings" => str
import (
	"bytes" => _
	"errors"
)

global counter: i32 = 13
global (
	a, b: int = 1, 2
	c = "s"
)

const K = 10

type ST :struct {
	i, j: i32
}

type Adder :interface {
	Add(n: i32) => i32
}

type Fn :func(a: i32) => i32

func ST.Add(n: i32) => i32 {
	this.i += n
	return this.i
}

func (s: *ST) Sub(n: i32) => i32 {
	s.i -= n
	return s.i
}

func swap(x, y: i32) => (i32, i32) {
	return y, x
}

func named() => (r: i32, ok: bool) {
	r, ok = 1, true
	return
}

func noparens {
	println("np")
}

func main {
	st := &ST{i: 1}
	ad: Adder = st
	v: i32
	w: i32 = 2
	fn: Fn = func(a: i32) => i32 { return a + 1 }
	v, w = swap(v, w)
	r, ok := named()
	noparens()
	println(ad.Add(2), st.Sub(1), v, w, r, ok, fn(1), counter, a, b, c, K, str.ToUpper("x"), errors.New("e") != nil)
}
`},
	{"wa-directives", `// 版权 @2024

#wa:export exported_add
func Add(a, b: i32) => i32 {
	return a + b
}

# doc line one
# doc line two
#wa:export exported_sub
func Sub(a, b: i32) => i32 {
	return a - b
}

#wa:linkname $my_mul
func Mul(a, b: i32) => i32 {
	return a * b
}

func main {
	println(Add(1, 2), Sub(3, 1), Mul(2, 3))
}
`},
	{"wa-hash-comments", `# leading
func main { # after brace
	# own line
	x := 1 # trailing
	if x > 0 { # if
		println(x) # call
	}
	# last in block
}
# trailing file
`},
	{"wa-min", `func main {
	println(1)
}
`},
}

var wzCorpus = []corpusProg{
	{"wz-min", `函数·主控:
	输出(1)
完毕
`},
	{"wz-decls", `注: 文件注释

引入 "书"
引入 "字串包" => 串

常量 甲 = 1
常量 乙: 整型 = 2
常量:
	丙 = 嘀嗒
	丁
完毕

全局 计数: 整型 = 13
全局 名字 = "凹"
全局:
	子: 整型
	丑 = 2
完毕

类型 数 = 整型

结构·点:
	横, 纵: 整型
	名: 字串
完毕

接口·会加:
	加(n: 整型) => 整型
完毕

函数·点·加(n: 整型) => 整型:
	我的·横 += n
	返回 我的·横
完毕

函数·交换(x, y: 整型) => (整型, 整型):
	返回 y, x
完毕

函数·主控:
	p := &点{横: 1, 纵: 2}
	设定·q: 会加 = p
	设定·v: 整型
	v, _ = 交换(1, 2)
	输出(甲, 乙, 丙, 丁, 计数, 名字, 子, 丑, q·加(2), v, 串·ToUpper("a"))
	书·说("好")
完毕
`},
	{"wz-stmts", `函数·主控:
	甲 := 3
	如果 甲 > 2:
		输出("a")
	完毕
	如果 甲 > 5:
		输出("b")
	否则:
		输出("c")
	完毕
	如果 乙 := 甲 * 2; 乙 > 10:
		输出("d")
	或者 乙 > 5:
		输出("e")
	否则:
		输出("f")
	完毕
	循环 i := 0; i < 3; i++:
		输出(i)
	完毕
	循环 甲 > 0:
		甲--
	完毕
	循环:
		甲++
		如果 甲 > 3:
			跳出
		完毕
		继续
	完毕
	数组 := []整型{7, 8, 9}
	循环 i, v := 迭代 数组:
		输出(i, v)
	完毕
	循环 _, v := 迭代 数组:
		输出(v)
	完毕
	找辙 甲:
	有辙 1:
		输出("one")
	有辙 2, 3:
		输出("two")
	没辙:
		输出("many")
	完毕
	找辙:
	有辙 甲 < 0:
		输出("neg")
	完毕
	找辙 丙 := 甲 * 2; 丙:
	有辙 4:
		输出("four")
	完毕
	押后 输出("deferred")
	甲 += 1
	甲 -= 1
	甲 *= 2
	甲 /= 2
	甲 <<= 1
	甲 >>= 1
	输出(甲)
	返回
完毕
`},
	{"wz-exprs", `结构·节点:
	值: 整型
	下: *节点
完毕

函数·节点·取() => 整型:
	返回 我的·值
完毕

函数·加一(x: 整型) => 整型:
	返回 x + 1
完毕

函数·主控:
	甲, 乙 := 7, 3
	输出(甲+乙, 甲-乙, 甲*乙, 甲/乙, 甲%乙, 甲&乙, 甲|乙, 甲^乙, 甲<<2, 甲>>1)
	输出(甲 == 乙, 甲 != 乙, 甲 < 乙, 甲 <= 乙, 甲 > 乙, 甲 >= 乙)
	输出(真 && 假, 真 || 假, !真, -甲, ^甲)
	输出(甲+乙*甲-乙, (甲+乙)*(甲-乙), -甲*乙)
	数 := []整型{1, 2, 3, 4, 5}
	输出(数[0], 数[长度(数)-1], 长度(数[1:]), 长度(数[:2]), 长度(数[1:3]))
	串 := "hello"
	输出(串[1], 串[1:3], 长度(串))
	点 := &节点{值: 1, 下: &节点{值: 2}}
	输出(点·值, 点·下·值, 点·取(), 点·下·取())
	表 := 字典[字串]整型{"a": 1, "b": 2}
	值, 有 := 表["a"]
	输出(表["b"], 值, 有, 长度(表))
	函 := 函数(a, b: 整型) => 整型:
		返回 a + b
	完毕
	输出(函(1, 2), 加一(加一(1)))
	数 = 追加(数, 6, 7)
	输出(长度(数), 构建([]整型, 3)[0])
	针 := &甲
	*针 = 4
	输出(*针, 0x1F, 1.5, 'a', "s\t\"q\"")
完毕
`},
	{"wz-comments", `注: 文件头

注: 函数文档
函数·主控: 注: 行尾
	注: 语句前
	甲 := 1 注: 语句后

	注: 空行前

	如果 甲 > 0: 注: 如果后
		输出(甲) // 斜杠注释
	完毕
	# 井号注释
	输出(甲) /* 块注释 */
	注: 块末
完毕

注: 文件尾
`},
	{"wz-directives", `#凹:导出 exported_add
函数·加(a, b: 整型) => 整型:
	返回 a + b
完毕

注: 文档
#凹:导出 exported_sub
函数·减(a, b: 整型) => 整型:
	返回 a - b
完毕

函数·主控:
	输出(加(1, 2), 减(3, 1))
完毕
`},
}
