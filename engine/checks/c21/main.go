//go:build go1.21

// C21: language-server document sync matches the client's document.
//
// Explicit-state breadth-first search. The system is a real lsp.LSPServer (NewLSPServer, never
// Run) driven through its DidOpen / DidChange methods; its private copy of the document
// (fileMap) is read through an accessor added by overlay (engine/inject/internal/lsp). A state
// is the document text. A transition is one didChange notification. The oracle is a client model
// that holds the document as UTF-16 code units, splits lines on LF / CRLF and knows nothing of
// bytes: it is written from the LSP specification, not from the mapper.
//
// Positions. For a document the model enumerates
//
//	valid     every (line, character) with 0 <= character <= UTF-16 length of the line (the line
//	          terminator excluded), not between the halves of a surrogate pair; the line after a
//	          trailing newline (the "phantom" line) is an ordinary empty last line;
//	beyond-eol (line, len+1) and (line, len+2) for every line;
//	beyond-eof (L, 0), (L, 1), (L+1, 0) where L = number of lines;
//	mid-pair  every position between the halves of a surrogate pair.
//
// A change whose two positions are valid and ordered must be applied exactly. A change whose two
// positions are valid but end < start must be refused (error) and leave the text alone. For the
// three other kinds the LSP text says "defaults back to the line length / number of lines"; the
// server under test refuses most of them. Property C21 does not choose, so the check accepts a
// refusal (error, text unchanged) or any of the listed readings applied exactly (see the
// r.Assume lines), and nothing else.
package main

import (
	"context"
	"fmt"
	"os"
	"runtime"
	"runtime/pprof"
	"sort"
	"strconv"
	"strings"
	"sync"
	"sync/atomic"
	"unicode/utf16"
	"unicode/utf8"

	"wa-lang.org/wa/internal/lsp"
	"wa-lang.org/wa/internal/lsp/protocol"
	"wa-lang.org/wa/internal/zzverif/mc"
)

const docURI = protocol.DocumentURI("file:///verif/c21/doc.wa")

var docPath = docURI.Path()

var docAlphabet = []string{"a", "é", "世", "😀", "\n", "\r\n"}
var insertTexts = []string{"", "x", "😀", "\n", "\r\n"}

// ---------------------------------------------------------------------------------------------
// client model

const (
	pValid = iota
	pBeyondEOL
	pBeyondEOF
	pMidPair
)

var kindName = []string{"valid", "char-beyond-eol", "line-beyond-eof", "mid-surrogate-pair"}

const (
	fAstral  = 1 << iota // an astral character precedes the position on its line
	fCRLF                // a CRLF terminator at or before the position's line end
	fBMP                 // a non-ASCII BMP character precedes the position on its line
	fPhantom             // the empty line after a trailing newline
	fEOF                 // the position is the end of the document
)

func primaryFeature(f int) string {
	switch {
	case f&fAstral != 0:
		return "after-astral"
	case f&fCRLF != 0:
		return "crlf"
	case f&fBMP != 0:
		return "after-bmp"
	case f&fPhantom != 0:
		return "phantom-line"
	case f&fEOF != 0:
		return "eof"
	}
	return "plain"
}

type mpos struct {
	line, char uint32
	kind       int
	offs       [2]int // acceptable UTF-16 offsets (1 for valid, 1-2 for the others)
	noffs      int
	feat       int
}

func (p mpos) String() string { return fmt.Sprintf("%d:%d", p.line, p.char) }

type model struct {
	text  string
	u     []uint16
	valid []mpos
	soft  []mpos
}

func isHigh(u uint16) bool { return u >= 0xD800 && u < 0xDC00 }

func newModel(text string) *model {
	m := &model{text: text, u: utf16.Encode([]rune(text))}
	u := m.u
	// split into lines on LF / CRLF (a lone CR is an ordinary character here: outside the domain)
	type ln struct {
		start, n int
		crlf     bool
	}
	var lines []ln
	start := 0
	for i := 0; i < len(u); i++ {
		if u[i] == '\n' {
			l := ln{start: start, n: i - start}
			if i > start && u[i-1] == '\r' {
				l.n--
				l.crlf = true
			}
			lines = append(lines, l)
			start = i + 1
		}
	}
	lines = append(lines, ln{start: start, n: len(u) - start})
	L := len(lines)
	crlfSeen := false
	for li, l := range lines {
		if l.crlf {
			crlfSeen = true
		}
		base := 0
		if crlfSeen {
			base |= fCRLF
		}
		if li == L-1 && L > 1 && l.n == 0 {
			base |= fPhantom
		}
		f := base
		for c := 0; c <= l.n; c++ {
			off := l.start + c
			if c > 0 {
				switch w := u[off-1]; {
				case w >= 0xD800 && w < 0xE000:
					f |= fAstral
				case w >= 0x80:
					f |= fBMP
				}
			}
			ff := f
			if off == len(u) {
				ff |= fEOF
			}
			p := mpos{line: uint32(li), char: uint32(c), feat: ff}
			if c > 0 && c < l.n && isHigh(u[off-1]) {
				p.kind, p.offs, p.noffs = pMidPair, [2]int{off - 1, off + 1}, 2
				m.soft = append(m.soft, p)
				continue
			}
			p.kind, p.offs, p.noffs = pValid, [2]int{off}, 1
			m.valid = append(m.valid, p)
		}
		for d := 1; d <= 2; d++ {
			p := mpos{line: uint32(li), char: uint32(l.n + d), kind: pBeyondEOL, feat: f, offs: [2]int{l.start + l.n}, noffs: 1}
			if l.crlf {
				p.offs[1], p.noffs = l.start+l.n+1, 2 // a client whose only terminator is LF
			}
			m.soft = append(m.soft, p)
		}
	}
	for _, lc := range [][2]int{{L, 0}, {L, 1}, {L + 1, 0}} {
		f := fEOF
		if crlfSeen {
			f |= fCRLF
		}
		m.soft = append(m.soft, mpos{line: uint32(lc[0]), char: uint32(lc[1]), kind: pBeyondEOF, feat: f, offs: [2]int{len(u)}, noffs: 1})
	}
	return m
}

func unitsToString(u []uint16) string { return string(utf16.Decode(u)) }

func spliceUnits(u []uint16, s, e int, ins []uint16) []uint16 {
	out := make([]uint16, 0, len(u)-(e-s)+len(ins))
	out = append(out, u[:s]...)
	out = append(out, ins...)
	out = append(out, u[e:]...)
	return out
}

var insertUnits = func() map[string][]uint16 {
	m := map[string][]uint16{}
	for _, t := range append([]string{"x"}, insertTexts...) {
		m[t] = utf16.Encode([]rune(t))
	}
	return m
}()

type change struct {
	s, e mpos
	text string
}

func (c change) String() string { return fmt.Sprintf("%v-%v %q", c.s, c.e, c.text) }

const (
	cValid   = iota // both positions valid, start <= end: must be applied exactly
	cInvalid        // both positions valid, end < start: must be refused
	cSoft           // some position is out of range / inside a pair: refusal or a listed reading
)

func (c change) class() int {
	if c.s.kind == pValid && c.e.kind == pValid {
		if c.s.offs[0] <= c.e.offs[0] {
			return cValid
		}
		return cInvalid
	}
	return cSoft
}

// results returns every acceptable document (UTF-16) after applying c to u.
func (c change) results(u []uint16) [][]uint16 {
	var out [][]uint16
	for i := 0; i < c.s.noffs; i++ {
		for j := 0; j < c.e.noffs; j++ {
			s, e := c.s.offs[i], c.e.offs[j]
			if s <= e && e <= len(u) {
				out = append(out, spliceUnits(u, s, e, insertUnits[c.text]))
			}
		}
	}
	return out
}

// ---------------------------------------------------------------------------------------------
// the real server

type server struct {
	s    *lsp.LSPServer
	cur  string
	open bool
	ver  int32
	ctx  context.Context
}

func newServer() *server {
	return &server{s: lsp.NewLSPServer(nil), ctx: context.Background()}
}

func (v *server) stored() string {
	t, _ := v.s.VerifDocText(docPath)
	return t
}

// set brings the server's document to text with a didOpen.
func (v *server) set(text string) {
	if v.open && v.cur == text {
		return
	}
	v.ver++
	err := v.s.DidOpen(v.ctx, &protocol.DidOpenTextDocumentParams{TextDocument: protocol.TextDocumentItem{
		URI: docURI, LanguageID: "wa", Version: v.ver, Text: text}})
	if err != nil || v.stored() != text {
		panic(fmt.Sprintf("harness: DidOpen(%q) err=%v stored=%q", text, err, v.stored()))
	}
	v.cur, v.open = text, true
}

func (v *server) notify(evs []protocol.TextDocumentContentChangeEvent) (err error, pan string) {
	v.ver++
	pan = mc.Recover(func() {
		err = v.s.DidChange(v.ctx, &protocol.DidChangeTextDocumentParams{
			TextDocument:   protocol.VersionedTextDocumentIdentifier{Version: v.ver, TextDocumentIdentifier: protocol.TextDocumentIdentifier{URI: docURI}},
			ContentChanges: evs,
		})
	})
	v.cur = v.stored()
	return
}

// ---------------------------------------------------------------------------------------------
// bookkeeping

type witness struct {
	depth, ord int
	state      string
	what       string
	replay     map[string]any
}

func (w witness) less(o witness) bool {
	if w.depth != o.depth {
		return w.depth < o.depth
	}
	if len(w.state) != len(o.state) {
		return len(w.state) < len(o.state)
	}
	if w.state != o.state {
		return w.state < o.state
	}
	return w.ord < o.ord
}

type collector struct {
	mu sync.RWMutex
	by map[string]witness
}

func (c *collector) report(key string, w witness, mk func() (string, map[string]any)) {
	c.mu.RLock()
	old, ok := c.by[key]
	c.mu.RUnlock()
	if ok && !w.less(old) {
		return
	}
	w.what, w.replay = mk()
	c.mu.Lock()
	if old, ok = c.by[key]; !ok || w.less(old) {
		c.by[key] = w
	}
	c.mu.Unlock()
}

type stats struct {
	validApplied, invalidRefused, softRefused, softAccepted int64
	full, inc1, inc2                                        int64
	softHow                                                 map[string]int64
}

func (a *stats) add(b *stats) {
	a.validApplied += b.validApplied
	a.invalidRefused += b.invalidRefused
	a.softRefused += b.softRefused
	a.softAccepted += b.softAccepted
	a.full += b.full
	a.inc1 += b.inc1
	a.inc2 += b.inc2
	for k, v := range b.softHow {
		a.softHow[k] += v
	}
}

// ---------------------------------------------------------------------------------------------
// exploring one state

type explorer struct {
	r        *mc.Run
	col      *collector
	fullDocs []string
	twoMax   int            // two-change notifications are enumerated from states of at most this many symbols
	seen     map[string]int // read-only while a level runs
}

// symbols counts characters, a CRLF pair counting as one.
func symbols(t string) int {
	return utf8.RuneCountInString(t) - strings.Count(t, "\r\n")
}

// tcase is one notification together with the client model's judgement of it.
type tcase struct {
	kind       string // full, inc1, inc2
	changes    [2]change
	nchanges   int
	fullText   string
	mustAccept bool     // valid: must be applied, the text must be acceptable[0]
	mustRefuse bool     // end < start (or no reading exists): must be refused
	acceptable []string // texts the document may hold if the notification is accepted
	onRefusal  [2]string
	nRefusal   int
	feat       int
	softKind   string
}

func contains(set []string, t string) bool {
	for _, s := range set {
		if s == t {
			return true
		}
	}
	return false
}

// judge classifies change c against model m.
func judge(m *model, c change) (mustAccept, mustRefuse bool, acceptable []string, softKind string) {
	switch c.class() {
	case cValid:
		return true, false, []string{unitsToString(c.results(m.u)[0])}, ""
	case cInvalid:
		return false, true, nil, ""
	}
	for _, u := range c.results(m.u) {
		if t := unitsToString(u); !contains(acceptable, t) {
			acceptable = append(acceptable, t)
		}
	}
	k := c.s.kind
	if k == pValid {
		k = c.e.kind
	}
	return false, len(acceptable) == 0, acceptable, kindName[k]
}

// forEachChange enumerates the one-change alphabet of a document: every pair of valid positions
// with start <= end x every insert text (valid changes); every pair of valid positions with
// end < start x softTexts (invalid changes); and every out-of-range position p as (p,p), (p,q),
// (q,p) for every valid q x softTexts.
func forEachChange(m *model, softTexts []string, f func(c change)) {
	for _, s := range m.valid {
		for _, e := range m.valid {
			texts := insertTexts
			if e.offs[0] < s.offs[0] {
				texts = softTexts
			}
			for _, t := range texts {
				f(change{s, e, t})
			}
		}
	}
	for _, p := range m.soft {
		for _, t := range softTexts {
			f(change{p, p, t})
			for _, q := range m.valid {
				f(change{p, q, t})
				f(change{q, p, t})
			}
		}
	}
}

type worker struct {
	x     *explorer
	srv   *server
	found map[string]struct{} // successor states not yet in x.seen
	st    stats
	evs   [2]protocol.TextDocumentContentChangeEvent
	rngs  [2]protocol.Range
	// current state
	S     string
	depth int
	ord   int
}

func (w *worker) violation(tc *tcase, clause, detail string, err error, got string) {
	key := tc.kind + "|" + clause + "|" + primaryFeature(tc.feat)
	if tc.softKind != "" {
		detail += " (" + tc.softKind + ")"
	}
	S, depth := w.S, w.depth
	w.x.col.report(key, witness{depth: depth, ord: w.ord, state: S}, func() (string, map[string]any) {
		var desc []string
		for _, c := range tc.changes[:tc.nchanges] {
			desc = append(desc, c.String())
		}
		if tc.kind == "full" {
			desc = []string{fmt.Sprintf("full %q", tc.fullText)}
		}
		errs := "nil"
		if err != nil {
			errs = err.Error()
		}
		what := fmt.Sprintf("document %q, didChange [%s] (UTF-16 line:char): %s; error=%s, server now holds %q, client model %q",
			S, strings.Join(desc, "; "), detail, errs, got, tc.acceptable)
		return what, map[string]any{"document": S, "document_hex": fmt.Sprintf("%x", S), "changes": desc, "kind": tc.kind,
			"server_text": got, "server_error": errs, "acceptable": tc.acceptable, "depth": depth}
	})
}

// run executes one notification from state w.S on the real server and judges the outcome.
// It returns the text the server holds afterwards and whether the notification was refused.
func (w *worker) run(tc *tcase) (got string, refused bool) {
	w.ord++
	if dryRun { // probing only: count the space without running the server
		if tc.mustAccept && tc.acceptable[0] != w.S {
			if _, ok := w.x.seen[tc.acceptable[0]]; !ok {
				w.found[tc.acceptable[0]] = struct{}{}
			}
		}
		return w.S, true
	}
	var evs []protocol.TextDocumentContentChangeEvent
	if tc.kind == "full" {
		w.evs[0] = protocol.TextDocumentContentChangeEvent{Text: tc.fullText}
		evs = w.evs[:1]
	} else {
		for i := 0; i < tc.nchanges; i++ {
			c := tc.changes[i]
			w.rngs[i] = protocol.Range{Start: protocol.Position{Line: c.s.line, Character: c.s.char}, End: protocol.Position{Line: c.e.line, Character: c.e.char}}
			w.evs[i] = protocol.TextDocumentContentChangeEvent{Range: &w.rngs[i], Text: c.text}
		}
		evs = w.evs[:tc.nchanges]
	}
	w.srv.set(w.S)
	err, pan := w.srv.notify(evs)
	got = w.srv.cur
	switch {
	case pan != "":
		w.violation(tc, "panic", "DidChange panics: "+pan, err, got)
	case err != nil:
		refused = true
		switch {
		case tc.mustAccept:
			w.violation(tc, "valid-refused", "a valid notification was refused", err, got)
		case !contains(tc.onRefusal[:tc.nRefusal], got):
			w.violation(tc, "refused-but-changed", "the notification was refused but the stored text changed", err, got)
		case tc.mustRefuse:
			w.st.invalidRefused++
		default:
			w.st.softRefused++
		}
	default:
		switch {
		case tc.mustRefuse:
			w.violation(tc, "invalid-accepted", "a range with end < start was accepted", err, got)
		case !contains(tc.acceptable, got):
			if tc.mustAccept {
				w.violation(tc, "text-mismatch", "the server's text differs from the client's", err, got)
			} else {
				w.violation(tc, "unexplained", "accepted, but the result matches no reading of the out-of-range position", err, got)
			}
		case tc.mustAccept:
			w.st.validApplied++
		default:
			w.st.softAccepted++
		}
	}
	if got != w.S {
		if _, ok := w.x.seen[got]; !ok {
			w.found[got] = struct{}{}
		}
	}
	return got, refused
}

// expand runs every transition from state S.
func (w *worker) expand(S string, depth int) {
	x := w.x
	w.S, w.depth, w.ord = S, depth, 0
	m0 := newModel(S)
	var tc tcase

	// 1. full replacements
	for _, t := range x.fullDocs {
		tc = tcase{kind: "full", fullText: t, mustAccept: true, acceptable: []string{t}}
		w.st.full++
		w.run(&tc)
	}

	// 2. one incremental change
	forEachChange(m0, []string{"", "x"}, func(c change) {
		tc = tcase{kind: "inc1", nchanges: 1, feat: c.s.feat | c.e.feat, nRefusal: 1}
		tc.changes[0], tc.onRefusal[0] = c, S
		tc.mustAccept, tc.mustRefuse, tc.acceptable, tc.softKind = judge(m0, c)
		w.st.inc1++
		got, refused := w.run(&tc)
		// statistics: what the server does with a single out-of-range position (start == end)
		if tc.softKind != "" && c.s == c.e && c.text != "" && !dryRun {
			label := "none of the listed readings"
			if refused {
				label = "refused"
			} else {
				for i := 0; i < c.s.noffs; i++ {
					if unitsToString(spliceUnits(m0.u, c.s.offs[i], c.s.offs[i], insertUnits[c.text])) == got {
						label = readingName(c.s, i)
					}
				}
			}
			w.st.softHow[tc.softKind+" -> "+label]++
		}
	})

	// 3. two incremental changes in one notification
	if symbols(S) > x.twoMax {
		return
	}
	forEachChange(m0, []string{"x"}, func(c1 change) {
		if c1.class() == cValid {
			t1 := unitsToString(c1.results(m0.u)[0])
			m1 := newModel(t1)
			forEachChange(m1, []string{"x"}, func(c2 change) {
				tc = tcase{kind: "inc2", nchanges: 2, feat: c1.s.feat | c1.e.feat | c2.s.feat | c2.e.feat, nRefusal: 2}
				tc.changes[0], tc.changes[1] = c1, c2
				tc.onRefusal[0], tc.onRefusal[1] = S, t1
				tc.mustAccept, tc.mustRefuse, tc.acceptable, tc.softKind = judge(m1, c2)
				w.st.inc2++
				w.run(&tc)
			})
			return
		}
		// an invalid or out-of-range first change followed by a change that is valid in every
		// document: insert "x" at 0:0
		c2 := change{mpos{kind: pValid, noffs: 1}, mpos{kind: pValid, noffs: 1}, "x"}
		tc = tcase{kind: "inc2", nchanges: 2, feat: c1.s.feat | c1.e.feat, nRefusal: 1}
		tc.changes[0], tc.changes[1], tc.onRefusal[0] = c1, c2, S
		var acc1 []string
		_, tc.mustRefuse, acc1, tc.softKind = judge(m0, c1)
		for _, a := range acc1 {
			tc.acceptable = append(tc.acceptable, "x"+a)
		}
		w.st.inc2++
		w.run(&tc)
	})
}

func readingName(p mpos, i int) string {
	switch p.kind {
	case pBeyondEOL:
		if i == 0 {
			return "clamped to the line end"
		}
		return "between CR and LF"
	case pBeyondEOF:
		return "end of document"
	case pMidPair:
		if i == 0 {
			return "start of the pair"
		}
		return "end of the pair"
	}
	return "?"
}

// ---------------------------------------------------------------------------------------------

func allDocs(n int) []string {
	out := []string{""}
	level := []string{""}
	for k := 1; k <= n; k++ {
		var next []string
		for _, s := range level {
			for _, a := range docAlphabet {
				next = append(next, s+a)
			}
		}
		out = append(out, next...)
		level = next
	}
	return out
}

func inDomain(t string) bool {
	// lone CR (not followed by LF) is outside the property's "CRLF/LF" domain
	for i := 0; i < len(t); i++ {
		if t[i] == '\r' && (i+1 >= len(t) || t[i+1] != '\n') {
			return false
		}
	}
	return utf8.ValidString(t)
}

var dryRun = os.Getenv("C21_DRY") != ""

func envInt(name string, def int) int {
	if s := os.Getenv(name); s != "" {
		if v, err := strconv.Atoi(s); err == nil {
			return v
		}
	}
	return def
}

func main() {
	// tiny live heap, very high allocation rate: an untouched 64 MB ballast spaces the collections
	ballast := make([]byte, envInt("C21_BALLAST_MB", 64)<<20)
	defer runtime.KeepAlive(ballast)
	if f := os.Getenv("C21_CPUPROFILE"); f != "" { // probing only
		w, _ := os.Create(f)
		pprof.StartCPUProfile(w)
	}
	r := mc.Start("C21")
	initLen := envInt("C21_INITLEN", mc.Pick(r, 3, 4))
	depth := envInt("C21_DEPTH", mc.Pick(r, 2, 3))
	maxExpand := envInt("C21_MAXEXPAND", mc.Pick(r, 5, 6))
	twoMax := envInt("C21_TWOMAX", mc.Pick(r, 3, 4))
	fullLen := envInt("C21_FULLLEN", 2)

	r.Rule("breadth-first search over document texts, states deduplicated by text. From every expanded state: (1) a full replacement by every document of <= full_len symbols; (2) one incremental change: every pair of valid client positions with start <= end x insert texts {'', x, 😀, LF, CRLF}; every pair of valid positions with end < start x {'', x}; every out-of-range position p (character 1 and 2 beyond each line end; lines L and L+1; inside each surrogate pair) as (p,p), (p,q), (q,p) for every valid q x {'', x}; (3) from states of <= two_change_max_symbols symbols, two incremental changes in one notification: every valid first change x the whole one-change alphabet of the resulting document (out-of-range and end<start with text x only), and every invalid/out-of-range first change followed by inserting x at 0:0. Each notification runs on a real LSPServer.DidChange; the stored text is read back and compared with the UTF-16 client model. States are expanded to depth `depth`. Violation key = notification kind | broken clause | dominant feature of the positions involved (after-astral > crlf > after-bmp > phantom-line > eof > plain); a feature key is dropped when the same clause fails on plain positions, an inc2 key when the same inc1 key is reported")
	r.Bound("initial_documents_max_symbols", initLen)
	r.Bound("document_alphabet", []string{"a", "é", "世", "😀 (surrogate pair)", "LF", "CRLF"})
	r.Bound("insert_texts", []string{"", "x", "😀", "LF", "CRLF"})
	r.Bound("depth_notifications", depth)
	r.Bound("max_symbols_of_an_expanded_state", maxExpand)
	r.Bound("two_change_max_symbols", twoMax)
	r.Bound("full_replacement_max_symbols", fullLen)
	r.Assume("domain (from the statement): documents are valid Unicode with LF or CRLF line ends; a lone CR is not a line end here. States containing a lone CR can only be reached through an out-of-range position the server accepts; they are counted but not expanded")
	r.Assume("the document URI ends in .wa: DidChange deliberately ignores every other URI")
	r.Assume("valid range = both positions have 0 <= character <= UTF-16 length of an existing line (terminator excluded; the empty line after a trailing newline exists), neither splits a surrogate pair, start <= end. Such a change must be applied exactly")
	r.Assume("invalid range = both positions valid but end < start: must return an error and leave the stored text unchanged")
	r.Assume("out-of-range positions: the LSP text (Position, quoted in protocol/tsprotocol.go) says a character beyond the line length 'defaults back to the line length', a line beyond the document 'defaults back to the number of lines', and positions are line-end agnostic ('you can not specify a position that denotes \\r|\\n'). The statement only says invalid ranges are rejected without corruption. So for a range with such a position the check accepts EITHER an error with the text unchanged OR the change applied with the position read as: the line end (clamp); for character = length+1 or +2 on a CRLF line also the offset between CR and LF (what a client whose only terminator is LF means by it, and what the server does for length+1); the end of the document for a line beyond the last. Anything else is a violation")
	r.Assume("a position between the halves of a surrogate pair: the LSP text is silent; accepted outcomes are an error with the text unchanged, or the position snapped to either end of the pair (the server snaps to the start). The stored text must stay valid UTF-8")
	r.Assume("a refused notification with two changes may leave the original text or the text after the valid first change (the server keeps the original)")
	r.Assume("a notification mixing a whole-document change with incremental ones is not enumerated (the statement speaks of full and of incremental notifications)")
	r.Assume("DidChange depends on the server only through fileMap[path] (read in applyIncrementalChanges), so a state is re-established with didOpen(text) instead of replaying the history that first reached it; after a refused notification the next one runs on the same open document without reopening")

	seen := map[string]int{}
	x := &explorer{r: r, col: &collector{by: map[string]witness{}}, fullDocs: allDocs(fullLen), twoMax: twoMax, seen: seen}
	var frontier []string
	for _, d := range allDocs(initLen) {
		seen[d] = 0
		frontier = append(frontier, d)
	}
	nExpanded, nOutOfDomain, nTooLong := 0, 0, 0

	// one real server (and one private successor set) per worker goroutine
	var idle, all []*worker
	var poolMu sync.Mutex
	getWorker := func() *worker {
		poolMu.Lock()
		defer poolMu.Unlock()
		if n := len(idle); n > 0 {
			w := idle[n-1]
			idle = idle[:n-1]
			return w
		}
		w := &worker{x: x, srv: newServer(), found: map[string]struct{}{}}
		w.st.softHow = map[string]int64{}
		all = append(all, w)
		return w
	}
	putWorker := func(w *worker) {
		poolMu.Lock()
		idle = append(idle, w)
		poolMu.Unlock()
	}

	for d := 1; d <= depth && len(frontier) > 0; d++ {
		sort.Slice(frontier, func(i, j int) bool {
			if len(frontier[i]) != len(frontier[j]) {
				return len(frontier[i]) < len(frontier[j])
			}
			return frontier[i] < frontier[j]
		})
		var capped atomic.Bool
		mc.ParallelFor(len(frontier), func(i int) {
			if r.Expired() {
				capped.Store(true)
				return
			}
			w := getWorker()
			w.expand(frontier[i], d)
			if d == 1 && i%40 == 0 && r.WantSample() {
				r.Sample(map[string]any{"state": frontier[i], "notifications_from_it": w.ord})
			}
			putWorker(w)
		})
		nExpanded += len(frontier)
		if capped.Load() {
			r.Cap("deadline")
			break
		}
		next := map[string]struct{}{}
		for _, w := range all {
			for s := range w.found {
				next[s] = struct{}{}
			}
			w.found = map[string]struct{}{}
		}
		frontier = frontier[:0]
		for s := range next {
			if _, ok := seen[s]; ok {
				continue
			}
			seen[s] = d
			switch {
			case !inDomain(s):
				nOutOfDomain++
			case symbols(s) > maxExpand:
				nTooLong++
			default:
				frontier = append(frontier, s)
			}
		}
		var nt int64
		for _, w := range all {
			nt += w.st.full + w.st.inc1 + w.st.inc2
		}
		fmt.Fprintf(os.Stderr, "C21 depth %d done: states seen %d, next frontier %d, transitions %d\n", d, len(seen), len(frontier), nt)
	}
	total := stats{softHow: map[string]int64{}}
	for _, w := range all {
		total.add(&w.st)
	}
	r.Transitions.Store(total.full + total.inc1 + total.inc2)

	for s := range seen {
		r.Distinct(s)
	}
	r.States.Store(int64(len(seen)))
	r.Evals.Store(r.Transitions.Load())
	r.Extra("states_expanded", nExpanded)
	r.Extra("states_reached_not_expanded_at_depth_bound", len(frontier))
	r.Extra("states_reached_outside_domain_lone_CR", nOutOfDomain)
	r.Extra("states_reached_beyond_max_expand_symbols", nTooLong)
	r.Extra("notifications", map[string]int64{"full": total.full, "one_change": total.inc1, "two_changes": total.inc2})
	r.Extra("judgements", map[string]int64{"valid_applied": total.validApplied, "end_before_start_refused": total.invalidRefused,
		"out_of_range_refused": total.softRefused, "out_of_range_accepted_with_a_listed_reading": total.softAccepted})
	r.Extra("out_of_range_single_position_behaviour", total.softHow)

	keys := make([]string, 0, len(x.col.by))
	for k := range x.col.by {
		keys = append(keys, k)
	}
	sort.Strings(keys)
	// Canonical classes. A key is kind|clause|feature. Two reductions keep one defect to a handful
	// of keys whatever the size of the explored space (both are functions of the complete,
	// exhaustive result, so they are deterministic):
	//  - if a clause fails on "plain" positions (no astral/BMP character before them, no CRLF, not
	//    at the end of the document) the defect does not depend on a feature: the other feature
	//    keys of that kind|clause are dropped;
	//  - a defect of the one-change path shows again inside two-change notifications: an inc2 key
	//    is dropped when the inc1 key of the same clause (same feature, or plain) is reported.
	has := func(k string) bool { _, ok := x.col.by[k]; return ok }
	for _, k := range keys {
		f := strings.SplitN(k, "|", 3) // kind, clause, feature
		if f[2] != "plain" && has(f[0]+"|"+f[1]+"|plain") {
			continue
		}
		if f[0] == "inc2" && (has("inc1|"+f[1]+"|"+f[2]) || has("inc1|"+f[1]+"|plain")) {
			continue
		}
		w := x.col.by[k]
		r.Report(k, w.what, w.replay)
	}
	pprof.StopCPUProfile()
	if !dryRun && r.ViolationCount() == 0 {
		if total.validApplied == 0 || total.invalidRefused == 0 || total.softRefused == 0 || total.full == 0 || total.inc2 == 0 || len(seen) < 1000 {
			r.HarnessError("vacuous: %+v, %d states", total, len(seen))
		}
	}
	if dryRun {
		r.HarnessError("C21_DRY is a counting aid, not a verdict")
	}
	r.Finish()
}
