//go:build go1.21

// C28: concurrent use of the public API. Two or three real API calls run as controlled threads
// of a cooperative scheduler; every interleaving at the scheduling points (lock operations and
// accesses to package-level variables written at run time, inserted by tools/instrument into
// copies of the current sources) is explored with an iterated preemption bound. Each call's
// result must equal its result when run alone; no panic, no deadlock, no process exit.
package main

import (
	"crypto/sha1"
	"encoding/hex"
	"encoding/json"
	"fmt"
	"os"
	"os/exec"
	"sort"
	"strings"
	"sync"
	"sync/atomic"
	"time"

	"wa-lang.org/wa/api"
	"wa-lang.org/wa/internal/zzverif/mc"
	"wa-lang.org/wa/internal/zzverif/sched"
)

// ---------------------------------------------------------------------------------------------
// the calls

const progA = `
type T :struct {
	a: i32
	s: string
}

func T.Get() => i32 { return this.a }

func main {
	t := &T{a: 41, s: "x"}
	f := func() => i32 { return t.Get() + 1 }
	m := make(map[string]i32)
	m["k"] = f()
	println("A", m["k"], t.s)
}
`

const progB = `
type U :struct {
	v: []i64
	p: *U
}

type I :interface {
	Sum() => i64
}

func U.Sum() => i64 {
	s: i64 = 0
	for _, x := range this.v {
		s += x
	}
	return s
}

func main {
	u := &U{v: []i64{1, 2, 3}}
	u.p = u
	var i: I = u
	defer println("B-deferred")
	println("B", i.Sum(), u.p.v[2])
}
`

const progTest = `
func TestX {
	assert(1+1 == 2, "math")
}

func main {
	println("T")
}
`

const progFmt = "func   main  {\nprintln( 1 )\n}\n"

type call struct {
	Name string
	Run  func() string
}

func digest(parts ...interface{}) string {
	h := sha1.New()
	var b strings.Builder
	for _, p := range parts {
		s := fmt.Sprint(p)
		h.Write([]byte(s))
		h.Write([]byte{0})
		if len(s) > 80 {
			s = s[:80] + "…"
		}
		b.WriteString(s)
		b.WriteString("|")
	}
	return hex.EncodeToString(h.Sum(nil)[:8]) + " " + b.String()
}

func calls() map[string]call {
	build := func(name, file, src string) call {
		return call{name, func() string {
			mainFn, wat, _, err := api.BuildFile(api.DefaultConfig(), file, src)
			return digest(mainFn, len(wat), hex.EncodeToString(sha1sum(wat)), err)
		}}
	}
	return map[string]call{
		"buildA": build("buildA", "a.wa", progA),
		"buildB": build("buildB", "b.wa", progB),
		"runA": {"runA", func() string {
			out, err := api.RunCode(api.DefaultConfig(), "a.wa", progA)
			return digest(string(out), err)
		}},
		"runB": {"runB", func() string {
			out, err := api.RunCode(api.DefaultConfig(), "b.wa", progB)
			return digest(string(out), err)
		}},
		"fmt": {"fmt", func() string {
			out, err := api.FormatCode("f.wa", progFmt)
			return digest(out, err)
		}},
		"loadTest": {"loadTest", func() string {
			cfg := api.DefaultConfig()
			cfg.UnitTest = true
			prog, err := api.LoadProgramFile(cfg, "t.wa", progTest)
			n := -1
			if prog != nil {
				n = len(prog.Pkgs)
			}
			return digest(n, err)
		}},
	}
}

func sha1sum(b []byte) []byte { h := sha1.Sum(b); return h[:] }

type scenario struct {
	Name  string
	Calls []string
	Cold  bool // every execution in a fresh process (explores first-use initialisation)
}

func scenarios(thorough bool) []scenario {
	s := []scenario{
		{"buildA||buildB", []string{"buildA", "buildB"}, false},
		{"loadTest||loadTest (cold)", []string{"loadTest", "loadTest"}, true},
		{"buildA||fmt", []string{"buildA", "fmt"}, false},
	}
	if thorough {
		s = append(s,
			scenario{"runA||runB", []string{"runA", "runB"}, false},
			scenario{"loadTest||buildB", []string{"loadTest", "buildB"}, false},
			scenario{"buildA||buildA", []string{"buildA", "buildA"}, false},
			scenario{"buildA||buildB||fmt", []string{"buildA", "buildB", "fmt"}, false},
			scenario{"runA||buildB", []string{"runA", "buildB"}, false},
			scenario{"buildA||buildB (cold)", []string{"buildA", "buildB"}, true},
		)
	}
	return s
}

// ---------------------------------------------------------------------------------------------
// worker

type Job struct {
	Scenario scenario
	Prefix   []int
	Bound    int // preemption bound for the whole execution
	SiteCap  int
	Single   bool // run just this schedule (default continuation), do not explore its subtree
	Baseline bool // only compute the sequential baselines
}

type Viol struct {
	Kind     string
	What     string
	Schedule []int
	Sites    []string // site of every preemptive decision
}

type JobResult struct {
	Executions int
	Points     int64
	Decisions  []sched.Decision // of the first execution
	Outcomes   []string
	Viols      []Viol
	Baselines  map[string]string
	Err        string
	Dirty      bool // the process must not be reused
	Blocked    int  // decisions at which the running thread was blocked on a lock held by another thread
}

var baselines = map[string]string{}
var cs = calls()

func baselineOf(names []string) {
	for _, n := range names {
		if _, ok := baselines[n]; !ok {
			baselines[n] = cs[n].Run()
		}
	}
}

func bodies(sc scenario) []func() interface{} {
	var out []func() interface{}
	for _, n := range sc.Calls {
		c := cs[n]
		out = append(out, func() interface{} { return c.Run() })
	}
	return out
}

func handleJob(raw json.RawMessage) interface{} {
	var j Job
	if err := json.Unmarshal(raw, &j); err != nil {
		return JobResult{Err: err.Error()}
	}
	var res JobResult
	if j.Baseline {
		baselineOf(j.Scenario.Calls)
		res.Baselines = baselines
		return res
	}
	if !j.Scenario.Cold {
		baselineOf(j.Scenario.Calls) // also warms every lazily initialised global
	}
	opt := sched.Options{SiteCap: j.SiteCap, Horizon: 90 * time.Second}
	outcomes := map[string]bool{}
	first := true
	var explore func(prefix []int)
	explore = func(prefix []int) {
		if res.Dirty || res.Err != "" {
			return
		}
		x := sched.Run(bodies(j.Scenario), prefix, opt)
		res.Executions++
		res.Points += x.Points
		for _, d := range x.Decisions {
			if d.Thread >= 0 && !d.RunningEnabled && strings.Contains(d.Site, "Lock") {
				res.Blocked++
			}
		}
		if x.Stuck != "" || x.Diverged != "" {
			res.Err = "schedule " + fmt.Sprint(prefix) + ": " + x.Stuck + x.Diverged
			res.Dirty = true
			return
		}
		if first {
			first = false
			res.Decisions = x.Decisions
		}
		// oracle
		var sites []string
		for _, d := range x.Decisions {
			if d.RunningEnabled && d.Chosen != 0 {
				sites = append(sites, fmt.Sprintf("T%d@%s", d.Thread, d.Site))
			}
		}
		bad := func(kind, what string) {
			res.Viols = append(res.Viols, Viol{Kind: kind, What: what, Schedule: x.Choices(), Sites: sites})
			res.Dirty = true
		}
		var oc []string
		for i, t := range x.Threads {
			name := j.Scenario.Calls[i]
			if t.Panic != nil {
				bad("panic|"+name, fmt.Sprintf("call %s panicked: %v", name, firstLine(fmt.Sprint(t.Panic))))
				oc = append(oc, name+"=panic")
				continue
			}
			if x.Deadlock {
				continue
			}
			got, _ := t.Result.(string)
			oc = append(oc, name+"="+got[:min(len(got), 16)])
			if want, ok := j.Scenario.baselineFor(name); ok && got != want {
				bad("result|"+name, fmt.Sprintf("call %s returned %q, alone it returns %q", name, clip(got), clip(want)))
			}
		}
		if x.Deadlock && !res.Dirty {
			bad("deadlock", "no thread is enabled but not all have finished")
		}
		outcomes[strings.Join(oc, " ")] = true
		if j.Single || res.Dirty {
			return
		}
		for i := len(prefix); i < len(x.Decisions); i++ {
			d := x.Decisions[i]
			cost := x.PreemptionsBefore(i)
			if d.RunningEnabled {
				cost++
			}
			if cost > j.Bound {
				continue
			}
			for alt := 1; alt < len(d.Enabled); alt++ {
				explore(append(append([]int{}, x.Choices()[:i]...), alt))
			}
		}
	}
	explore(j.Prefix)
	for o := range outcomes {
		res.Outcomes = append(res.Outcomes, o)
	}
	sort.Strings(res.Outcomes)
	if j.Scenario.Cold {
		res.Dirty = true
	}
	return res
}

var coldBaselines map[string]string
var blockedSwitches atomic.Int64

func (sc scenario) baselineFor(name string) (string, bool) {
	if b, ok := baselines[name]; ok {
		return b, true
	}
	if b, ok := coldBaselines[name]; ok {
		return b, true
	}
	return "", false
}

func firstLine(s string) string {
	if i := strings.IndexByte(s, '\n'); i >= 0 {
		return s[:i]
	}
	return s
}

func clip(s string) string {
	if len(s) > 140 {
		return s[:140] + "…"
	}
	return s
}

// ---------------------------------------------------------------------------------------------
// supervisor

func main() {
	if mc.IsWorker() {
		if b := os.Getenv("C28_BASELINES"); b != "" {
			json.Unmarshal([]byte(b), &coldBaselines)
		}
		mc.WorkerMain(func(raw json.RawMessage) interface{} {
			r := handleJob(raw)
			return r
		})
		return
	}
	r := mc.Start("C28")
	r.Rule("stateless exploration of thread interleavings of real API calls under a cooperative scheduler: decisions at lock operations and at instrumented accesses to package-level variables, iterated preemption bound; distinct = distinct (per-call result) outcome vectors")
	bound := mc.Pick(r, 1, 2)
	siteCap := mc.Pick(r, 1, 2)
	r.Bound("preemption_bound", bound)
	r.Bound("site_occurrence_cap", siteCap)
	r.Assume("a (thread, static site) pair is a preemption candidate only the first site_occurrence_cap times it is reached; forced switches (block, end) are always decisions")
	r.Assume("scheduling points: vsync lock operations + statements mentioning package-level variables that are written outside init (syntactic; tools/instrument); unsynchronised accesses the points miss are the business of the separate free-running -race pass")
	r.Assume("cold scenarios run every schedule in a fresh process and are therefore explored with preemption bound 1 in both tiers (a second schedule in the same process would no longer start from the cold state)")
	r.Assume("calls in one scenario are chosen so that their sequential results do not depend on their order; the reference is each call run alone in the same (warm) or a fresh (cold) process")

	scs := scenarios(r.Thorough())
	if only := os.Getenv("C28_ONLY"); only != "" {
		var sel []scenario
		for _, sc := range scs {
			if strings.HasPrefix(sc.Name, only) {
				sel = append(sel, sc)
			}
		}
		scs = sel
	}
	// cold baselines: one fresh worker
	var cold map[string]string
	{
		var all []string
		for n := range cs {
			all = append(all, n)
		}
		sort.Strings(all)
		mc.RunPool(1, 1, func(int) interface{} { return Job{Scenario: scenario{Calls: all}, Baseline: true} }, 5*time.Minute, nil, func(res mc.Result) {
			var jr JobResult
			if res.Status == "ok" && json.Unmarshal(res.Out, &jr) == nil {
				cold = jr.Baselines
			} else {
				r.HarnessError("baseline worker: %s %s", res.Status, res.Stderr)
			}
		})
		if cold == nil {
			r.Finish()
		}
	}
	cb, _ := json.Marshal(cold)
	env := []string{"C28_BASELINES=" + string(cb), "GOMAXPROCS=2"}
	pool := mc.NewPool(mc.NWorkers(), env)
	pool.Retire = func(out json.RawMessage) bool { return strings.Contains(string(out), `"Dirty":true`) }
	defer pool.Close()

	var mu sync.Mutex
	report := func(sc scenario, v Viol) {
		// canonical key: kind + scenario + the static sites at which the preemptions happened
		sites := append([]string(nil), v.Sites...)
		for i, s := range sites {
			// drop the line number's volatility? keep file:line var — it is the identity of the race window
			sites[i] = s
		}
		key := fmt.Sprintf("%s|%s|%s", v.Kind, sc.Name, strings.Join(sites, ","))
		r.Report(key, fmt.Sprintf("scenario %s: %s (preemptions at %v)", sc.Name, v.What, v.Sites),
			map[string]interface{}{"scenario": sc, "schedule": v.Schedule, "preempt_sites": v.Sites, "site_cap": siteCap})
	}
	perScenario := map[string]interface{}{}
	for _, sc := range scs {
		if r.Expired() {
			r.Cap("deadline before scenario " + sc.Name)
			break
		}
		// the default (non-preemptive) execution gives the decision list to shard on
		var root JobResult
		ok := false
		runOne := func(j Job) (JobResult, string, string) {
			var jr JobResult
			st, se := "", ""
			p1 := mc.NewPool(1, env)
			p1.Run(1, func(int) interface{} { return j }, 10*time.Minute, func(res mc.Result) {
				st, se = res.Status, res.Stderr
				if res.Status == "ok" {
					json.Unmarshal(res.Out, &jr)
				}
			})
			p1.Close()
			return jr, st, se
		}
		root, st, se := runOne(Job{Scenario: sc, Bound: bound, SiteCap: siteCap, Single: true})
		if st != "ok" || root.Err != "" {
			r.HarnessError("scenario %s: default execution failed: %s %s %s", sc.Name, st, root.Err, tail(se))
			continue
		}
		ok = true
		_ = ok
		fmt.Fprintf(os.Stderr, "[c28 %s] scenario %s: default execution has %d decisions, %d points\n", time.Now().Format("15:04:05"), sc.Name, len(root.Decisions), root.Points)
		execs := int64(root.Executions)
		blockedSwitches.Add(int64(root.Blocked))
		r.Transitions.Add(int64(len(root.Decisions)))
		for _, v := range root.Viols {
			report(sc, v)
		}
		outcomes := map[string]bool{}
		for _, o := range root.Outcomes {
			outcomes[o] = true
		}
		// jobs: one per (decision, alternative) of the default execution within the bound
		var jobs []Job
		choices := make([]int, len(root.Decisions))
		pre := 0
		for i, d := range root.Decisions {
			cost := pre
			if d.RunningEnabled {
				cost++
			}
			if cost <= bound {
				for alt := 1; alt < len(d.Enabled); alt++ {
					jobs = append(jobs, Job{Scenario: sc, Prefix: append(append([]int{}, choices[:i]...), alt), Bound: bound, SiteCap: siteCap, Single: sc.Cold})
				}
			}
			if d.RunningEnabled && d.Chosen != 0 {
				pre++
			}
		}
		var retry []Job
		handle := func(js []Job) func(mc.Result) {
			return func(res mc.Result) {
				mu.Lock()
				defer mu.Unlock()
				if res.Status != "ok" {
					retry = append(retry, js[res.Index])
					return
				}
				var jr JobResult
				if err := json.Unmarshal(res.Out, &jr); err != nil {
					r.HarnessError("bad worker output: %v", err)
					return
				}
				if jr.Err != "" {
					r.HarnessError("scenario %s prefix %v: %s", sc.Name, js[res.Index].Prefix, jr.Err)
				}
				execs += int64(jr.Executions)
				blockedSwitches.Add(int64(jr.Blocked))
				r.Transitions.Add(jr.Points)
				for _, v := range jr.Viols {
					report(sc, v)
				}
				for _, o := range jr.Outcomes {
					outcomes[o] = true
				}
			}
		}
		// A worker that reports a violation or runs a cold scenario marks itself dirty: the pool
		// cannot know, so such jobs run through one-shot pools. Warm scenarios reuse workers.
		if sc.Cold {
			mc.ParallelFor(len(jobs), func(i int) {
				if r.Expired() {
					r.Cap("deadline in scenario " + sc.Name)
					return
				}
				jr, st, se := runOne(jobs[i])
				mu.Lock()
				defer mu.Unlock()
				if st != "ok" {
					retry = append(retry, jobs[i])
					_ = se
					return
				}
				execs += int64(jr.Executions)
				blockedSwitches.Add(int64(jr.Blocked))
				r.Transitions.Add(jr.Points)
				for _, v := range jr.Viols {
					report(sc, v)
				}
				for _, o := range jr.Outcomes {
					outcomes[o] = true
				}
				if jr.Err != "" {
					r.HarnessError("scenario %s prefix %v: %s", sc.Name, jobs[i].Prefix, jr.Err)
				}
			})
		} else {
			dirtyAware := func(js []Job) {
				pool.Run(len(js), func(i int) interface{} { return js[i] }, 15*time.Minute, handle(js))
			}
			fmt.Fprintf(os.Stderr, "[c28 %s] %d jobs start\n", time.Now().Format("15:04:05"), len(jobs))
			dirtyAware(jobs)
			fmt.Fprintf(os.Stderr, "[c28 %s] jobs done, %d to retry\n", time.Now().Format("15:04:05"), len(retry))
		}
		// jobs whose worker died or hung: the process exited (logger.Fatal / fatal error) or a
		// thread spun. Re-run each alone 3 times; if it fails every time it is a violation.
		for _, j := range retry {
			fails := 0
			lastSt, lastSe := "", ""
			for k := 0; k < 3; k++ {
				j.Single = true
				_, st, se := runOne(j)
				if st != "ok" {
					fails++
					lastSt, lastSe = st, se
				}
			}
			if fails == 3 {
				kind := "process-exit"
				if lastSt == "hang" {
					kind = "hang"
				}
				report(sc, Viol{Kind: kind, What: fmt.Sprintf("the process %s under schedule %v: %s", lastSt, j.Prefix, tail(lastSe)), Schedule: j.Prefix})
			} else if fails > 0 {
				// a worker failure that does not reproduce is a property of the machine (load, memory), not of
				// the code under test: the schedule counts as not explored
				r.Cap(fmt.Sprintf("scenario %s: a schedule failed %d/3 times when re-run alone (not reproducible), not counted", sc.Name, fails))
			}
		}
		fmt.Fprintf(os.Stderr, "[c28 %s] scenario %s: %d executions, %d outcomes, %d violation keys so far\n", time.Now().Format("15:04:05"), sc.Name, execs, len(outcomes), r.ViolationCount())
		r.Evals.Add(execs)
		r.States.Add(int64(len(outcomes)))
		for o := range outcomes {
			r.Distinct(sc.Name + ":" + o)
		}
		perScenario[sc.Name] = map[string]interface{}{"executions": execs, "decisions_in_default_execution": len(root.Decisions), "subtree_jobs": len(jobs), "distinct_outcomes": len(outcomes)}
		if r.WantSample() {
			r.Sample(map[string]interface{}{"scenario": sc.Name, "calls": sc.Calls, "default_execution_decisions": len(root.Decisions), "first_sites": firstSites(root.Decisions, 6)})
		}
	}
	r.Extra("per_scenario", perScenario)
	r.Extra("decisions_where_a_thread_was_blocked_on_a_lock", blockedSwitches.Load())
	if blockedSwitches.Load() == 0 && len(perScenario) > 0 && os.Getenv("C28_ONLY") != "race" {
		r.HarnessError("vacuous: no execution ever blocked a thread on a lock held by the other thread (the calls did not contend)")
	}
	if os.Getenv("C28_ONLY") == "" || os.Getenv("C28_ONLY") == "race" {
		racePass(r, scs)
	}
	r.Finish()
}

// racePass is the separate free-running pass: the same call bodies as real goroutines in a
// binary built with -race from the current tree (not instrumented). Any data race whose stack
// passes through wa-lang.org/wa, any result differing from the call run alone, any panic or
// process crash is a violation.
func racePass(r *mc.Run, scs []scenario) {
	tmp, err := os.MkdirTemp("", "c28race-")
	if err != nil {
		r.HarnessError("race pass: %v", err)
		return
	}
	defer os.RemoveAll(tmp)
	env := append(os.Environ(), "GOFLAGS=-mod=mod", "GOPROXY=off", "GOSUMDB=off", "GOTOOLCHAIN=local")
	ov := tmp + "/overlay.json"
	mk := exec.Command("python3", mc.VerifDir()+"/tools/mkoverlay.py", ov)
	mk.Env = env
	if out, err := mk.CombinedOutput(); err != nil {
		r.HarnessError("race pass: mkoverlay: %v %s", err, out)
		return
	}
	bin := tmp + "/c28race"
	b := exec.Command("go", "build", "-race", "-overlay", ov, "-tags", "verif", "-o", bin, "./internal/zzverif/checks/c28race")
	b.Dir = mc.RepoDir()
	b.Env = env
	if out, err := b.CombinedOutput(); err != nil {
		r.HarnessError("race pass: go build -race failed: %v\n%s", err, tail(string(out)))
		return
	}
	run := func(args ...string) (string, string, error) {
		c := exec.Command(bin, args...)
		c.Env = append(os.Environ(), "GORACE=halt_on_error=0 exitcode=0")
		var so, se strings.Builder
		c.Stdout, c.Stderr = &so, &se
		done := make(chan error, 1)
		if err := c.Start(); err != nil {
			return "", "", err
		}
		go func() { done <- c.Wait() }()
		select {
		case err := <-done:
			return so.String(), se.String(), err
		case <-time.After(20 * time.Minute):
			c.Process.Kill()
			return so.String(), se.String(), fmt.Errorf("timeout")
		}
	}
	so, se, err := run("1", "baseline")
	base := ""
	for _, l := range strings.Split(so, "\n") {
		if strings.HasPrefix(l, "BASELINE ") {
			base = strings.TrimPrefix(l, "BASELINE ")
		}
	}
	if err != nil || base == "" {
		r.HarnessError("race pass: baseline run failed: %v %s", err, tail(se))
		return
	}
	rounds := mc.Pick(r, 3, 10)
	var names []string
	seen := map[string]bool{}
	for _, sc := range scs {
		n := strings.Join(sc.Calls, "+")
		if !seen[n] {
			seen[n] = true
			names = append(names, n)
		}
	}
	// a wider mix: eight goroutines at once, as the playground server would see
	names = append(names, "buildA+buildB+runA+runB+fmt+loadTest+buildA+buildB")
	so, se, err = run(append([]string{fmt.Sprint(rounds), base}, names...)...)
	r.Extra("race_pass", map[string]interface{}{"rounds": rounds, "scenarios": names})
	finished := false
	for _, l := range strings.Split(so, "\n") {
		switch {
		case strings.HasPrefix(l, "DONE "):
			finished = true
		case strings.HasPrefix(l, "MISMATCH "):
			f := strings.Fields(l)
			r.Report("race-pass|result|"+f[2]+"|"+f[1], "free-running goroutines: "+l, map[string]interface{}{"line": l})
		case strings.HasPrefix(l, "PANIC "):
			f := strings.Fields(l)
			r.Report("race-pass|panic|"+f[2]+"|"+f[1], "free-running goroutines: "+l, map[string]interface{}{"line": l})
		}
	}
	if !finished {
		what := firstFatal(se)
		r.Report("race-pass|process-crash|"+what, fmt.Sprintf("free-running goroutines: the process died (%v): %s", err, what), map[string]interface{}{"stderr_tail": tail(se)})
	}
	nraces := 0
	for _, blk := range strings.Split(se, "==================") {
		if !strings.Contains(blk, "WARNING: DATA RACE") {
			continue
		}
		nraces++
		var fr []string
		// the first wa frame of each of the two stacks
		for _, st := range strings.Split(blk, "\n\n") {
			if !(strings.Contains(st, " by goroutine ") || strings.Contains(st, " by main goroutine")) || strings.Contains(st, "created at") {
				continue
			}
			for _, l := range strings.Split(st, "\n") {
				l = strings.TrimSpace(l)
				if strings.HasPrefix(l, "wa-lang.org/wa/") && !strings.Contains(l, "/zzverif/") && !strings.Contains(l, "/3rdparty/") {
					if i := strings.IndexByte(l, '('); i > 0 {
						l = l[:i]
					}
					fr = append(fr, l)
					break
				}
			}
		}
		if len(fr) == 0 {
			continue // a race entirely outside wa's own code
		}
		sort.Strings(fr)
		r.Report("race-pass|data-race|"+strings.Join(fr, "|"), "free-running -race pass: data race between "+strings.Join(fr, " and "), map[string]interface{}{"report": clipN(blk, 3000)})
	}
	r.Evals.Add(int64(rounds * len(names)))
	r.Extra("race_reports_seen", nraces)
}

func firstFatal(se string) string {
	for _, l := range strings.Split(se, "\n") {
		if strings.HasPrefix(l, "fatal error:") || strings.HasPrefix(l, "panic:") {
			return l
		}
	}
	return "no DONE line"
}

func clipN(s string, n int) string {
	if len(s) > n {
		return s[:n]
	}
	return s
}

func firstSites(ds []sched.Decision, n int) []string {
	var out []string
	for _, d := range ds {
		if d.Site != "" && len(out) < n {
			out = append(out, fmt.Sprintf("T%d@%s", d.Thread, d.Site))
		}
	}
	return out
}

func tail(s string) string {
	if len(s) > 500 {
		return s[len(s)-500:]
	}
	return s
}
