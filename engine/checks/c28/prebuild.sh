#!/bin/bash
# prebuild for C28: instrument (copies of) every wa package the public API depends on, from the
# CURRENT tree, and emit an overlay that substitutes them. $1 = output directory.
set -e
OUT="$1"
export GOFLAGS=-mod=mod GOPROXY=off GOSUMDB=off GOTOOLCHAIN=local
VERIF_DIR="${VERIF_DIR:-/verif}"; VERIF_REPO="${VERIF_REPO:-/repo}"
(cd "$VERIF_DIR/tools/instrument" && go build -o "$OUT/instrument" .)
PKGS=$(cd "$VERIF_REPO" && go list -deps ./api | grep '^wa-lang.org/wa/' | grep -v '/internal/3rdparty/' | grep -v '/internal/zzverif/' | sed 's|^wa-lang.org/wa/||')
"$OUT/instrument" -repo "$VERIF_REPO" -out "$OUT/src" -overlay "$OUT/overlay.json" -report "$OUT/report.json" $PKGS
cp "$OUT/report.json" "$VERIF_DIR/build/c28-instrument-report.json" 2>/dev/null || true
