//go:build go1.21

// C22: computed text diffs apply back to the target text.
//
// Bounded-exhaustive: every ordered pair (before, after) of strings of at most N symbols over the
// alphabet {a, b, "\n", é, 世, byte 0xFF} goes through the real diff.Strings and diff.Bytes. For
// each edit list the check demands
//
//   - well-formedness: sorted by (Start, End), 0 <= Start <= End <= len(before), no overlap;
//   - Apply: diff.Apply(before, edits) succeeds and equals after; an independent splice of the
//     same edits equals after too;
//   - equal inputs give no edits;
//   - when both inputs are valid UTF-8: every Start/End is a rune boundary of before and every
//     replacement text is valid UTF-8;
//   - diff.ToUnified (context 3 = DefaultContextLines, and 0): empty iff before == after; the text
//     parses as a unified diff; each hunk header's counts equal the counts of its body; and an
//     independent strict patch applier (written here, no fuzz, context and deleted lines must
//     match byte for byte, "\ No newline at end of file" honoured) turns before into after with
//     the new-side line numbers of every header matching the produced output.
//
// Nothing here imports anything of the diff package except the functions under test.
package main

import (
	"fmt"
	"os"
	"runtime/debug"
	"runtime/pprof"
	"sort"
	"strconv"
	"strings"
	"sync"
	"unicode/utf8"

	"wa-lang.org/wa/internal/lsp/diff"
	"wa-lang.org/wa/internal/zzverif/mc"
)

var alphabet = []string{"a", "b", "\n", "é", "世", "\xff"}

// allStrings returns every string of at most n symbols, shortest first, then in alphabet order.
func allStrings(n int) []string {
	out := []string{""}
	level := []string{""}
	for k := 1; k <= n; k++ {
		next := make([]string, 0, len(level)*len(alphabet))
		for _, s := range level {
			for _, a := range alphabet {
				next = append(next, s+a)
			}
		}
		out = append(out, next...)
		level = next
	}
	return out
}

// ---------------------------------------------------------------------------------------------
// independent reference pieces

// splice applies edits (assumed already checked: sorted, in range, non-overlapping) to src.
func splice(src string, edits []diff.Edit) string {
	var b strings.Builder
	last := 0
	for _, e := range edits {
		b.WriteString(src[last:e.Start])
		b.WriteString(e.New)
		last = e.End
	}
	b.WriteString(src[last:])
	return b.String()
}

// wellFormed returns "" or the name of the first broken clause.
func wellFormed(src string, edits []diff.Edit) string {
	lastStart, lastEnd := 0, 0
	for i, e := range edits {
		if !(0 <= e.Start && e.Start <= e.End && e.End <= len(src)) {
			return "out-of-range"
		}
		if i > 0 {
			if e.Start < lastStart || (e.Start == lastStart && e.End < lastEnd) {
				return "unsorted"
			}
			if e.Start < lastEnd {
				return "overlap"
			}
		}
		lastStart, lastEnd = e.Start, e.End
	}
	return ""
}

func runeBoundary(s string, off int) bool {
	return off == 0 || off == len(s) || utf8.RuneStart(s[off])
}

// splitLines splits text after every "\n"; the last element lacks "\n" iff the text does not end
// in one. No empty trailing element.
func splitLines(text string) []string {
	var out []string
	for len(text) > 0 {
		i := strings.IndexByte(text, '\n')
		if i < 0 {
			out = append(out, text)
			break
		}
		out = append(out, text[:i+1])
		text = text[i+1:]
	}
	return out
}

type uline struct {
	kind byte   // ' ', '-', '+'
	text string // with its "\n" unless marked "\ No newline at end of file"
}

type uhunk struct {
	fromLine, fromCount, toLine, toCount int
	fromBare, toBare                     bool // the header gave no ",count"
	lines                                []uline
}

func parseRange(s string, sign byte) (line, count int, bare bool, err error) {
	if len(s) < 2 || s[0] != sign {
		return 0, 0, false, fmt.Errorf("bad range %q", s)
	}
	s = s[1:]
	count, bare = 1, true
	if i := strings.IndexByte(s, ','); i >= 0 {
		bare = false
		if count, err = strconv.Atoi(s[i+1:]); err != nil || count < 0 {
			return 0, 0, false, fmt.Errorf("bad count in %q", s)
		}
		s = s[:i]
	}
	if line, err = strconv.Atoi(s); err != nil || line < 0 {
		return 0, 0, false, fmt.Errorf("bad line in %q", s)
	}
	return line, count, bare, nil
}

// parseUnified parses "--- a\n+++ b\n" followed by hunks.
func parseUnified(p, from, to string) ([]uhunk, error) {
	head := "--- " + from + "\n+++ " + to + "\n"
	if !strings.HasPrefix(p, head) {
		return nil, fmt.Errorf("missing file header")
	}
	p = p[len(head):]
	var hunks []uhunk
	for len(p) > 0 {
		i := strings.IndexByte(p, '\n')
		if i < 0 {
			return nil, fmt.Errorf("patch does not end in newline")
		}
		ln := p[:i]
		p = p[i+1:]
		switch {
		case strings.HasPrefix(ln, "@@ "):
			f := strings.Split(ln, " ")
			if len(f) != 4 || f[3] != "@@" {
				return nil, fmt.Errorf("bad hunk header %q", ln)
			}
			var h uhunk
			var err error
			if h.fromLine, h.fromCount, h.fromBare, err = parseRange(f[1], '-'); err != nil {
				return nil, err
			}
			if h.toLine, h.toCount, h.toBare, err = parseRange(f[2], '+'); err != nil {
				return nil, err
			}
			hunks = append(hunks, h)
		case ln == `\ No newline at end of file`:
			if len(hunks) == 0 || len(hunks[len(hunks)-1].lines) == 0 {
				return nil, fmt.Errorf("stray no-newline marker")
			}
			ls := hunks[len(hunks)-1].lines
			l := &ls[len(ls)-1]
			if !strings.HasSuffix(l.text, "\n") {
				return nil, fmt.Errorf("double no-newline marker")
			}
			l.text = l.text[:len(l.text)-1]
		case len(ln) > 0 && (ln[0] == ' ' || ln[0] == '-' || ln[0] == '+'):
			if len(hunks) == 0 {
				return nil, fmt.Errorf("body line before first hunk header")
			}
			h := &hunks[len(hunks)-1]
			h.lines = append(h.lines, uline{ln[0], ln[1:] + "\n"})
		default:
			return nil, fmt.Errorf("unrecognised patch line %q", ln)
		}
	}
	if len(hunks) == 0 {
		return nil, fmt.Errorf("no hunks")
	}
	return hunks, nil
}

// applyUnified is a strict patch applier. It returns the patched text or the broken clause.
//
// bareZero (used for context 0 only) tolerates the one place where the implementation knowingly
// departs from GNU diff: an empty side of a hunk that does not start at line 1 is printed as a bare
// "N" (which strictly means one line) instead of "N-1,0". With bareZero a bare N on a side whose
// body has no lines is read as "zero lines, the hunk sits before line N".
func applyUnified(before string, hunks []uhunk, bareZero bool) (string, string) {
	src := splitLines(before)
	var out []string
	cur := 0
	for _, h := range hunks {
		nFrom, nTo := 0, 0
		for _, l := range h.lines {
			switch l.kind {
			case ' ':
				nFrom++
				nTo++
			case '-':
				nFrom++
			case '+':
				nTo++
			}
		}
		fromAsBefore, toAsBefore := false, false
		if bareZero && h.fromBare && nFrom == 0 && h.fromLine > 0 {
			h.fromCount, fromAsBefore = 0, true
		}
		if bareZero && h.toBare && nTo == 0 && h.toLine > 0 {
			h.toCount, toAsBefore = 0, true
		}
		if nFrom != h.fromCount || nTo != h.toCount {
			return "", "header-count"
		}
		// unified format: with a zero count the line number names the line BEFORE the hunk
		idx := h.fromLine - 1
		if h.fromCount == 0 && !fromAsBefore {
			idx = h.fromLine
		}
		if idx < cur || idx > len(src) {
			return "", "header-from-line"
		}
		out = append(out, src[cur:idx]...)
		cur = idx
		wantTo := len(out) + 1
		if h.toCount == 0 && !toAsBefore {
			wantTo = len(out)
		}
		if h.toLine != wantTo {
			return "", "header-to-line"
		}
		for _, l := range h.lines {
			switch l.kind {
			case ' ', '-':
				if cur >= len(src) || src[cur] != l.text {
					return "", "body-mismatch"
				}
				if l.kind == ' ' {
					out = append(out, l.text)
				}
				cur++
			case '+':
				out = append(out, l.text)
			}
		}
	}
	out = append(out, src[cur:]...)
	for i, l := range out {
		if !strings.HasSuffix(l, "\n") && i != len(out)-1 {
			return "", "unterminated-inner-line"
		}
	}
	return strings.Join(out, ""), ""
}

// ---------------------------------------------------------------------------------------------

func inputClass(before, after string) string {
	vb, va := utf8.ValidString(before), utf8.ValidString(after)
	if !vb || !va {
		return "invalid-utf8"
	}
	ascii := true
	for _, s := range []string{before, after} {
		for i := 0; i < len(s); i++ {
			if s[i] >= 0x80 {
				ascii = false
			}
		}
	}
	if ascii {
		return "ascii"
	}
	return "utf8"
}

type witness struct {
	i, j   int
	what   string
	replay map[string]any
}

type collector struct {
	mu  sync.RWMutex
	by  map[string]witness
	out map[string]struct{}
}

func less(i, j int, old witness) bool {
	return i+j < old.i+old.j || (i+j == old.i+old.j && (i < old.i || (i == old.i && j < old.j)))
}

// report keeps, per key, the witness with the smallest (i+j, i, j): canonical whatever the
// goroutine schedule. mk is only called when the witness would be kept.
func (c *collector) report(key string, i, j int, mk func() witness) {
	c.mu.RLock()
	old, ok := c.by[key]
	c.mu.RUnlock()
	if ok && !less(i, j, old) {
		return
	}
	w := mk()
	c.mu.Lock()
	old, ok = c.by[key]
	if !ok || less(i, j, old) {
		c.by[key] = w
	}
	c.mu.Unlock()
}

func sameEdits(a, b []diff.Edit) bool {
	if len(a) != len(b) {
		return false
	}
	for i := range a {
		if a[i] != b[i] {
			return false
		}
	}
	return true
}

func clipStr(s string) string {
	if len(s) > 120 {
		return s[:60] + "…(" + strconv.Itoa(len(s)) + " bytes)…" + s[len(s)-40:]
	}
	return s
}

// allOver returns every string of <= n symbols over the alphabet, shortest first.
func allOver(alpha []string, n int) []string {
	out := []string{""}
	prev := []string{""}
	for l := 1; l <= n; l++ {
		var cur []string
		for _, p := range prev {
			for _, a := range alpha {
				cur = append(cur, p+a)
			}
		}
		out = append(out, cur...)
		prev = cur
	}
	return out
}

func editsString(es []diff.Edit) string {
	s := make([]string, len(es))
	for i, e := range es {
		s[i] = e.String()
	}
	return "[" + strings.Join(s, " ") + "]"
}

func main() {
	debug.SetGCPercent(800)                        // allocation-heavy tiny cases; heap stays < 100 MB
	if f := os.Getenv("C22_CPUPROFILE"); f != "" { // probing only
		w, _ := os.Create(f)
		pprof.StartCPUProfile(w)
		defer pprof.StopCPUProfile()
	}
	r := mc.Start("C22")
	maxLen := mc.Pick(r, 4, 5)
	if s := os.Getenv("C22_MAXLEN"); s != "" { // probing only
		maxLen, _ = strconv.Atoi(s)
	}
	ctxs := []int{diff.DefaultContextLines, 0}
	if s := os.Getenv("C22_CTXS"); s != "" { // probing only
		ctxs = nil
		for _, f := range strings.Split(s, ",") {
			v, _ := strconv.Atoi(f)
			ctxs = append(ctxs, v)
		}
	}
	r.Rule("every ordered pair (before, after) of strings of <= max_len symbols over {a,b,LF,é,世,0xFF}, shortest first; each pair through diff.Strings and diff.Bytes, each edit list through diff.Apply and diff.ToUnified (context 3 and 0). Outcomes are distinct when (function, number of edits, bytes deleted, bytes inserted, hunks, patch lines) differ. Violation key = function | broken clause | input class (ascii, utf8, invalid-utf8) for edit lists, ToUnified | broken clause | context for the rendering")
	r.Bound("max_len_symbols", maxLen)
	r.Bound("alphabet", []string{"a", "b", "\\n", "é (2 bytes)", "世 (3 bytes)", "0xFF (invalid UTF-8)"})
	r.Bound("unified_context_lines", ctxs)
	r.Assume("the rune-boundary clause is demanded only when both inputs are valid UTF-8 (the statement's 'fall on rune boundaries' has no meaning for byte strings that are not UTF-8); Apply == after is demanded for every pair, the statement's quantifier names invalid UTF-8 explicitly")
	r.Assume("ToUnified is exercised with context 3 (DefaultContextLines, what diff.Unified uses) and 0 (0 is what reaches the multi-hunk code at this bound). With context 0 an empty side of a hunk not at line 1 is printed as a bare 'N' where GNU diff prints 'N-1,0'; that header convention is outside the statement, so for context 0 only a bare N over an empty body side is read as 'zero lines, before line N'; everything else is strict")
	r.Assume("'lists exactly the changed lines' is read as: a strict applier that verifies every context and deleted line reproduces after; line-level minimality of the hunk is not demanded (edits are character-level and are widened to whole lines)")

	strs := allStrings(maxLen)
	n := len(strs)
	r.Bound("strings", n)
	r.Bound("pairs", n*n)
	col := &collector{by: map[string]witness{}, out: map[string]struct{}{}}

	row := func(i int, before string, afters []string) {
		if r.Expired() {
			r.Cap("deadline")
			return
		}
		local := map[string]struct{}{}
		var evals int64
		for j, after := range afters {
			class := ""
			var prevEdits []diff.Edit // diff.Strings' edit list once it passed every check
			prevOK := false
			for fn := 0; fn < 2; fn++ {
				name := "Strings"
				if fn == 1 {
					name = "Bytes"
				}
				var edits []diff.Edit
				evals++
				nbad := 0
				bad := func(clause string, what func() string) {
					nbad++
					if class == "" {
						class = inputClass(before, after)
					}
					key := name + "|" + clause + "|" + class
					if strings.HasPrefix(clause, "ToUnified|") {
						key = clause // a function of (before, edits, context) only
					}
					col.report(key, i, j, func() witness {
						return witness{i, j,
							fmt.Sprintf("diff.%s(%q, %q) = %s: %s", name, before, after, editsString(edits), what()),
							map[string]any{"func": name, "before_hex": fmt.Sprintf("%x", before), "after_hex": fmt.Sprintf("%x", after), "before": before, "after": after, "edits": editsString(edits)}}
					})
				}
				if p := mc.Recover(func() {
					if fn == 0 {
						edits = diff.Strings(before, after)
					} else {
						edits = diff.Bytes([]byte(before), []byte(after))
					}
				}); p != "" {
					bad("panic", func() string { return "panic: " + p })
					continue
				}
				if before == after && len(edits) != 0 {
					bad("equal-nonempty", func() string { return "equal inputs gave edits" })
				}
				if wf := wellFormed(before, edits); wf != "" {
					bad(wf, func() string { return "edit list is " + wf })
					continue
				}
				del, ins := 0, 0
				for _, e := range edits {
					del += e.End - e.Start
					ins += len(e.New)
				}
				if got := splice(before, edits); got != after {
					bad("apply-mismatch", func() string { return fmt.Sprintf("applying the edits gives %q, want %q", got, after) })
					continue
				}
				var got string
				var err error
				if p := mc.Recover(func() { got, err = diff.Apply(before, edits) }); p != "" {
					bad("Apply-panic", func() string { return "diff.Apply panics: " + p })
					continue
				}
				if err != nil {
					bad("Apply-error", func() string { return "diff.Apply: " + err.Error() })
					continue
				}
				if got != after {
					bad("Apply-mismatch", func() string { return fmt.Sprintf("diff.Apply gives %q, want %q", got, after) })
					continue
				}
				if utf8.ValidString(before) && utf8.ValidString(after) {
					for _, e := range edits {
						if !runeBoundary(before, e.Start) || !runeBoundary(before, e.End) || !utf8.ValidString(e.New) {
							bad("not-rune-boundary", func() string { return "an edit splits a UTF-8 sequence" })
							break
						}
					}
				}
				// unified rendering. ToUnified is a function of (before, edits, context): when
				// diff.Bytes returned exactly the edit list diff.Strings returned, the calls
				// would be literally the same calls, so they are not repeated.
				if fn == 1 && prevOK && sameEdits(prevEdits, edits) {
					local[fmt.Sprintf("%s|%d|%d|%d|same", name, len(edits), del, ins)] = struct{}{}
					continue
				}
				nh, nl := 0, 0
				for _, ctx := range ctxs {
					var u string
					var uerr error
					cname := "ctx" + strconv.Itoa(ctx)
					if p := mc.Recover(func() { u, uerr = diff.ToUnified("a", "b", before, edits, ctx) }); p != "" {
						bad("ToUnified|panic|"+cname, func() string { return "ToUnified panics: " + p })
						continue
					}
					evals++
					if uerr != nil {
						bad("ToUnified|error|"+cname, func() string { return "ToUnified: " + uerr.Error() })
						continue
					}
					if (u == "") != (before == after) {
						bad("ToUnified|empty-iff-equal|"+cname, func() string { return fmt.Sprintf("ToUnified = %q", u) })
						continue
					}
					if u == "" {
						continue
					}
					hunks, perr := parseUnified(u, "a", "b")
					if perr != nil {
						bad("ToUnified|malformed|"+cname, func() string { return fmt.Sprintf("ToUnified = %q: %v", u, perr) })
						continue
					}
					res, clause := applyUnified(before, hunks, ctx == 0)
					if clause != "" {
						bad("ToUnified|"+clause+"|"+cname, func() string { return fmt.Sprintf("ToUnified = %q: %s", u, clause) })
						continue
					}
					if res != after {
						bad("ToUnified|apply-mismatch|"+cname, func() string { return fmt.Sprintf("ToUnified = %q: patch gives %q, want %q", u, res, after) })
						continue
					}
					nh += len(hunks)
					for _, h := range hunks {
						nl += len(h.lines)
					}
				}
				if fn == 0 {
					prevEdits, prevOK = edits, nbad == 0
				}
				local[fmt.Sprintf("%s|%d|%d|%d|%d|%d", name, len(edits), del, ins, nh, nl)] = struct{}{}
			}
		}
		r.Evals.Add(evals)
		col.mu.Lock()
		for k := range local {
			col.out[k] = struct{}{}
		}
		col.mu.Unlock()
		if i%97 == 0 && r.WantSample() {
			j := (i * 7) % len(afters)
			r.Sample(map[string]any{"before": clipStr(before), "after": clipStr(afters[j]), "Strings": clipStr(editsString(diff.Strings(before, afters[j])))})
		}
	}
	mc.ParallelFor(n, func(i int) { row(i, strs[i], strs) })

	// Second sweep: long inputs. The LCS search is bounded (about 100 edits); beyond that the
	// package stitches partial diagonals together, code that no pair of short strings reaches.
	// Shapes: P + filler^k + S against every short string C (a large deletion), the reverse (a large
	// insertion) and long against long with different fillers, for every P, S, C of <= 2 (thorough
	// 3) symbols over {a, b, c, LF}; k chosen on both sides of the search limit.
	short := allOver([]string{"a", "b", "c", "\n"}, mc.Pick(r, 2, 3))
	fillers := []string{"x", "xy", "a", "\n"}
	ks := []int{60, 130, 260}
	r.Bound("long_sweep_short_strings", len(short))
	r.Bound("long_sweep_fillers", fillers)
	r.Bound("long_sweep_repeat_counts", ks)
	var longs []string
	for _, f := range fillers {
		for _, k := range ks {
			mid := strings.Repeat(f, k)
			for _, p := range short {
				for _, q := range short {
					longs = append(longs, p+mid+q)
				}
			}
		}
	}
	r.Bound("long_sweep_long_strings", len(longs))
	mc.ParallelFor(len(longs), func(i int) { row(n+i, longs[i], short) })            // large deletions
	mc.ParallelFor(len(short), func(i int) { row(n+len(longs)+i, short[i], longs) }) // large insertions
	// long against long: always built from the <= 2-symbol prefixes/suffixes (5292 strings), every
	// string against every step-th one (quick: 97, thorough: 13).
	short2 := allOver([]string{"a", "b", "c", "\n"}, 2)
	var longs2 []string
	for _, f := range fillers {
		for _, k := range ks {
			mid := strings.Repeat(f, k)
			for _, p := range short2 {
				for _, q := range short2 {
					longs2 = append(longs2, p+mid+q)
				}
			}
		}
	}
	step := mc.Pick(r, 97, 13)
	r.Bound("long_vs_long_strings", len(longs2))
	r.Bound("long_vs_long_step", step)
	mc.ParallelFor(len(longs2), func(i int) {
		var afters []string
		for j := i % step; j < len(longs2); j += step {
			afters = append(afters, longs2[j])
		}
		row(n+2*len(longs)+i, longs2[i], afters)
	})

	for k := range col.out {
		r.Distinct(k)
	}
	keys := make([]string, 0, len(col.by))
	for k := range col.by {
		keys = append(keys, k)
	}
	sort.Strings(keys)
	for _, k := range keys {
		w := col.by[k]
		r.Report(k, w.what, w.replay)
	}
	r.States.Store(int64(n) * int64(n))
	r.Transitions.Store(int64(n) * int64(n) * 2)
	if r.DistinctCount() < 50 {
		r.HarnessError("vacuous: only %d distinct outcome classes", r.DistinctCount())
	}
	pprof.StopCPUProfile()
	r.Finish()
}
