//go:build go1.21

// C08 — front ends never crash or hang on arbitrary input.
//
// Every input of a finite, stated space (short byte strings, short token sequences per language,
// single-token mutations of valid seed files) is handed to every front-end entry point under every
// file name. The oracle is "the call returns (value or error)": a recovered panic, os.Exit, a Go
// runtime fatal error or not returning within 30 s is a violation.
//
// Structure: the supervisor enumerates jobs (input class, index range, entry point); worker
// subprocesses (mc.Pool) regenerate the inputs from the indices and call the real code under
// recover(). A worker that dies is bisected down to one (input, entry point, file name) call; a
// call that exceeds the horizon is caught by an in-worker watchdog which samples the goroutine
// stack (for the canonical location) and exits. Everything is confirmed 5x alone before it is
// reported.
package main

import (
	"bytes"
	"encoding/hex"
	"encoding/json"
	"fmt"
	"hash/fnv"
	"os"
	"path/filepath"
	"regexp"
	"runtime"
	"sort"
	"strings"
	"sync"
	"sync/atomic"
	"syscall"
	"time"

	"wa-lang.org/wa/api"
	"wa-lang.org/wa/internal/ast"
	"wa-lang.org/wa/internal/config"
	"wa-lang.org/wa/internal/loader"
	"wa-lang.org/wa/internal/native/abi"
	nparser "wa-lang.org/wa/internal/native/parser"
	ntoken "wa-lang.org/wa/internal/native/token"
	"wa-lang.org/wa/internal/parser"
	"wa-lang.org/wa/internal/parser/w2parser"
	"wa-lang.org/wa/internal/token"
	"wa-lang.org/wa/internal/types"
	wparser "wa-lang.org/wa/internal/wat/parser"
	wtoken "wa-lang.org/wa/internal/wat/token"
	"wa-lang.org/wa/internal/zzverif/astdump"
	"wa-lang.org/wa/internal/zzverif/mc"
)

const (
	minCPU         = 10 * time.Second
	blockedHorizon = 300 * time.Second
	horizon        = 30 * time.Second // per-call horizon from the property design (inputs < 1 KB, normal cost µs..0.3 s)
	hangMarker     = "@@C08 HANG "
)

// ---------------------------------------------------------------------------------------------
// Entry points ("units") and their variants ("subs": file name or CPU)

type subDef struct {
	Label string // file name / cpu shown in reports
	Lang  string // language tag of the violation key
	Run   func(src []byte) string
}

type unitDef struct {
	Name string
	Subs []subDef
}

var fileNames = []string{"x.wa", "x.wz", "x.wat", "x.wa.s", "x.wz.s", "x.txt", "x"}

func langOfName(name string) string {
	switch {
	case strings.HasSuffix(name, ".wa"):
		return "wa"
	case strings.HasSuffix(name, ".wz"):
		return "wz"
	case strings.HasSuffix(name, ".wat"):
		return "wat"
	case strings.HasSuffix(name, ".s"):
		return "nasm"
	}
	return "noext"
}

const (
	uFormat = iota
	uSyntax
	uParserWa
	uParserWz
	uWat
	uNative
	uTypes
	uLoader
)

func errClass(err error) string {
	if err == nil {
		return "ok"
	}
	s := normMsg(err.Error())
	if len(s) > 48 {
		s = s[:48]
	}
	return "err:" + s
}

var units []unitDef

func init() {
	var format, syntax unitDef
	format.Name, syntax.Name = "api.FormatCode", "api.GetCodeSyntax"
	for _, n := range fileNames {
		n := n
		format.Subs = append(format.Subs, subDef{n, "any", func(src []byte) string {
			out, err := api.FormatCode(n, string(src))
			if err == nil && out == string(src) {
				return "ok-unchanged"
			}
			return errClass(err)
		}})
		syntax.Subs = append(syntax.Subs, subDef{n, "any", func(src []byte) string {
			return "lang:" + api.GetCodeSyntax(n, src)
		}})
	}
	pwa := unitDef{Name: "parser.ParseFile"}
	for _, n := range []string{"x.wa", "x.txt", "x"} {
		n := n
		pwa.Subs = append(pwa.Subs, subDef{n, "wa", func(src []byte) string {
			_, err := parser.ParseFile(nil, token.NewFileSet(), n, src, parser.AllErrors|parser.ParseComments)
			return errClass(err)
		}})
	}
	pwz := unitDef{Name: "w2parser.ParseFile"}
	pwz.Subs = append(pwz.Subs, subDef{"x.wz", "wz", func(src []byte) string {
		_, err := w2parser.ParseFile(nil, token.NewFileSet(), "x.wz", src, w2parser.AllErrors|w2parser.ParseComments)
		return errClass(err)
	}})
	pwz.Subs = append(pwz.Subs, subDef{"x.wz (via parser.ParseFile)", "wz", func(src []byte) string {
		_, err := parser.ParseFile(nil, token.NewFileSet(), "x.wz", src, parser.ParseComments)
		return errClass(err)
	}})
	wat := unitDef{Name: "wat/parser.ParseModule"}
	wat.Subs = append(wat.Subs, subDef{"x.wat", "wat", func(src []byte) string {
		_, err := wparser.ParseModule("x.wat", src)
		return errClass(err)
	}})
	nat := unitDef{Name: "native/parser.ParseFile"}
	for _, c := range []struct {
		cpu  abi.CPUType
		lang string
	}{{abi.LOONG64, "nasm"}, {abi.RISCV64, "nasm"}, {abi.RISCV32, "nasm"}, {abi.X64Unix, "nasm"}, {abi.X64Windows, "nasm"}, {abi.ARM64, "nasm"}} {
		c := c
		nat.Subs = append(nat.Subs, subDef{"x.wa.s cpu=" + c.cpu.String(), c.lang, func(src []byte) string {
			_, err := nparser.ParseFile(c.cpu, ntoken.NewFileSet(), "x.wa.s", src)
			return errClass(err)
		}})
	}
	typ := unitDef{Name: "types.Check"}
	typ.Subs = append(typ.Subs, subDef{"x.wa", "wa", func(src []byte) string { return typesCheck(false, src) }})
	typ.Subs = append(typ.Subs, subDef{"x.wz", "wz", func(src []byte) string { return typesCheck(true, src) }})
	ld := unitDef{Name: "loader.LoadProgramFile"}
	for _, n := range []string{"x.wa", "x.wz", "x.wat", "x.wa.s", "x.txt", "x"} {
		n := n
		lang := langOfName(n)
		if lang != "wa" && lang != "wz" {
			lang = "other" // not a source file of the main package: the content is never parsed
		}
		ld.Subs = append(ld.Subs, subDef{n, lang, func(src []byte) string {
			_, err := loader.LoadProgramFile(config.DefaultConfig(), n, src)
			return errClass(err)
		}})
	}
	units = []unitDef{format, syntax, pwa, pwz, wat, nat, typ, ld}
}

// ---------------------------------------------------------------------------------------------
// The type checker exactly as loader.Import configures it, with the packages of an empty program
// (runtime and what it imports) type-checked once per worker. It decides which inputs are worth a
// real loader.LoadProgramFile call (~0.1 s: the runtime package is re-checked every time): those
// that parse, and then either type-check, need a package that is not preloaded, or panic. For an
// input with a type error the loader does nothing beyond this same conf.Check call.

var (
	tenvOnce sync.Once
	tenvPkgs map[string]*types.Package
	tenvErr  error
	candFlag bool   // set by typesCheck: the input should go to the real loader
	candHash uint64 // hash of the position-free AST + comment texts of that input
)

type cachedImporter struct{ unknown *bool }

func (c cachedImporter) Import(path string) (*types.Package, error) {
	switch path {
	case token.K_pkg_unsafe:
		return types.WaUnsafe, nil
	case token.K_pkg_洪荒:
		return types.WzUnsafe, nil
	case token.K_pkg_丹田:
		path = token.K_pkg_runtime
	}
	if p, ok := tenvPkgs[path]; ok {
		return p, nil
	}
	*c.unknown = true
	return nil, fmt.Errorf("c08: package %q is not preloaded", path)
}

func typesCheck(wz bool, src []byte) string {
	tenvOnce.Do(func() {
		prog, err := loader.LoadProgramFile(config.DefaultConfig(), "x.wa", []byte("func main {}\n"))
		if err != nil {
			tenvErr = err
			return
		}
		tenvPkgs = map[string]*types.Package{}
		for path, p := range prog.Pkgs {
			if path != token.K_pkg_main && p.Pkg != nil {
				tenvPkgs[path] = p.Pkg
			}
		}
	})
	if tenvErr != nil || tenvPkgs[token.K_pkg_runtime] == nil {
		panic(fmt.Sprintf("c08-harness: cannot preload runtime: %v", tenvErr))
	}
	candFlag = false
	fset := token.NewFileSet()
	var f *ast.File
	var err error
	pkgpath, mainName, imp := token.K_pkg_main, token.K_main, fmt.Sprintf(`import "%s" => _`, token.K_pkg_runtime)
	impName := "_$main$runtime.wa"
	if wz {
		pkgpath, mainName, imp = token.K_pkg_主包, token.K_主控, fmt.Sprintf(`引入 "%s" => _`, token.K_pkg_丹田)
		impName = "_$main$runtime.wz"
	}
	// a panic of the parser is the parser entry points' finding, not the type checker's
	if p := mc.Recover(func() {
		if wz {
			f, err = w2parser.ParseFile(nil, fset, "x.wz", src, w2parser.AllErrors|w2parser.ParseComments)
		} else {
			f, err = parser.ParseFile(nil, fset, "x.wa", src, parser.AllErrors|parser.ParseComments)
		}
	}); p != "" {
		return "parse-panic"
	}
	if err != nil {
		return "parse-error"
	}
	candFlag = true // from here on a panic is also the loader's
	{
		h := fnv.New64a()
		h.Write([]byte(astdump.String(astdump.Dump(f))))
		for _, c := range astdump.Comments(f) {
			// the loader reads comments only as directives (#wa:build, #wa:embed, #凹:..., //go:...)
			if strings.Contains(c, ":") {
				h.Write([]byte(c))
				h.Write([]byte{0})
			}
		}
		candHash = h.Sum64()
	}
	fi, err := parser.ParseFile(nil, fset, impName, imp, parser.AllErrors)
	if err != nil {
		panic(err) // as the loader does
	}
	f.Decls = append(fi.Decls, f.Decls...)
	if f.Name.Name == "" {
		f.Name.Name = mainName
	}
	info := &types.Info{
		Types:      make(map[ast.Expr]types.TypeAndValue),
		Defs:       make(map[*ast.Ident]types.Object),
		Uses:       make(map[*ast.Ident]types.Object),
		Implicits:  make(map[ast.Node]types.Object),
		Selections: make(map[*ast.SelectorExpr]*types.Selection),
		Scopes:     make(map[ast.Node]*types.Scope),
	}
	unknown := false
	conf := types.Config{Importer: cachedImporter{&unknown}, Sizes: types.SizesFor(config.WaArch_Default)}
	_, err = conf.Check(pkgpath, fset, []*ast.File{f}, info)
	if err != nil {
		if unknown {
			return "needs-import"
		}
		candFlag = false
		return "type-error"
	}
	return "well-typed"
}

// ---------------------------------------------------------------------------------------------
// Input classes. Class 0 ("pre") is the preflight set: the empty input, the 256 single bytes and
// every unmodified seed.

type class struct {
	Name  string
	Lang  string
	N     int
	Gen   func(i int) []byte
	Units []int // nil: all units (the loader always goes through the candidates of types.Check)
}

// all sequences over alpha with lo <= length <= hi, joined by sep; shortest first.
func seqClass(name, lang string, alpha [][]byte, lo, hi int, sep []byte) *class {
	k := len(alpha)
	var counts []int
	total := 0
	for l := lo; l <= hi; l++ {
		c := 1
		for j := 0; j < l; j++ {
			c *= k
		}
		counts = append(counts, c)
		total += c
	}
	return &class{Name: name, Lang: lang, N: total, Gen: func(i int) []byte {
		l := lo
		for _, c := range counts {
			if i < c {
				break
			}
			i -= c
			l++
		}
		digits := make([]int, l)
		for j := l - 1; j >= 0; j-- {
			digits[j] = i % k
			i /= k
		}
		var b []byte
		for j, d := range digits {
			if j > 0 {
				b = append(b, sep...)
			}
			b = append(b, alpha[d]...)
		}
		return b
	}}
}

func bs(ss ...string) [][]byte {
	var out [][]byte
	for _, s := range ss {
		out = append(out, []byte(s))
	}
	return out
}

var (
	structBytes = bs("{", "}", "(", ")", "[", "]", "\"", "'", "`", "\\", "/", "*", "#", ":", ";", ",", ".", "=", "+", "-", " ", "\n", "a", "0", "\x80", "\xe4")

	tokWa = bs("func", "main", "a", "i32", "(", ")", "{", "}", "[", "]", ":", "=>", "=", ":=", ",", ".", "0", `"s"`, "*", "+",
		"import", "type", "struct", "interface", "if", "for", "return", "global", "const", "\n")
	tokWz = bs("函数", "主控", "甲", "整型", "·", "(", ")", "[", "]", ":", "=>", "=", ":=", ",", ".", "0", `"s"`, "*", "+",
		"引入", "类型", "结构", "接口", "如果", "循环", "返回", "全局", "常量", "完毕", "\n")
	tokWat = bs("(", ")", "module", "func", "param", "result", "local", "i32", "i64", "local.get", "i32.const", "i32.add", "call", "$x",
		"export", "import", `"s"`, "0", "memory", "data", "table", "elem", "type", "global", "mut", "start", "block", "end", "if", ";;c\n", "'\n", "'a'")
	tokNasm = bs(".section", ".text", ".data", ".globl", ".align", ".quad", ".ascii", ".intel_syntax", "noprefix", "x", ":", "0", `"s"`, ",",
		"(", ")", "[", "]", "+", "=", "\n", "addi.d", "$a0", "%pc_hi20", "mov", "rax", "a0", "x0", "函数", "全局", "完毕", "字串", "# c\n")

	subWa   = bs("a", "0", `"s"`, "(", ")", "{", "}", ":", ",", "func", "=", "\n")
	subWz   = bs("甲", "0", `"s"`, "(", ")", ":", "完毕", "·", "函数", "=", ",", "\n")
	subWat  = bs("(", ")", "$x", "0", `"s"`, "func", "i32", "module", "i32.const", "param", "'", "'a'", "'\n")
	subNasm = bs("x", "0", `"s"`, ",", ":", "(", ")", ".section", "$a0", "rax", "[", "\n")
)

// ---------------------------------------------------------------------------------------------
// Vocabularies taken from the token packages of the tree under verification: ALL keywords and
// operators of each language (not a selection), plus one literal of every literal class.

func uniq(in [][]byte) [][]byte {
	seen := map[string]bool{}
	var out [][]byte
	for _, b := range in {
		if !seen[string(b)] && len(b) > 0 {
			seen[string(b)] = true
			out = append(out, b)
		}
	}
	return out
}

func waKeywords(wz bool) (kw, ops [][]byte) {
	for t := token.Token(0); t < 400; t++ {
		switch {
		case !wz && t.IsKeyword(), wz && t.IsWzKeyword():
			kw = append(kw, []byte(t.String()))
		case t.IsOperator():
			ops = append(ops, []byte(t.String()))
		}
	}
	return
}

func watKeywords() (kw, ins [][]byte) {
	for t := wtoken.Token(0); t < 600; t++ {
		switch {
		case t.IsKeyword():
			kw = append(kw, []byte(t.String()))
		case t.IsIsntruction():
			ins = append(ins, []byte(t.String()))
		}
	}
	return
}

func nasmKeywords() (kw, ops [][]byte) {
	for t := ntoken.Token(0); t < 400; t++ {
		switch {
		case t.IsGasKeyword() || t.IsZhKeyword():
			kw = append(kw, []byte(t.String()))
		case t.IsOperator():
			ops = append(ops, []byte(t.String()))
		}
	}
	return
}

type ctxDef struct{ name, pre, post string }

// stmtPosClass: every token of the vocabulary alone, doubled, and followed by each token of
// follow, as the only content at a syntactic position (ctx) of an otherwise valid file.
func stmtPosClass(lang string, vocab, follow [][]byte, ctxs []ctxDef) *class {
	forms := 2 + len(follow)
	n := len(ctxs) * len(vocab) * forms
	return &class{Name: fmt.Sprintf("stmtpos-%s(%d tokens x %d forms x %d positions)", lang, len(vocab), forms, len(ctxs)), Lang: lang, N: n, Gen: func(i int) []byte {
		f := i % forms
		t := vocab[i/forms%len(vocab)]
		c := ctxs[i/forms/len(vocab)]
		b := append([]byte(c.pre), t...)
		switch {
		case f == 1:
			b = append(append(b, ' '), t...)
		case f >= 2:
			b = append(append(b, ' '), follow[f-2]...)
		}
		return append(b, c.post...)
	}}
}

func stmtPosClasses() []*class {
	kwWa, opsWa := waKeywords(false)
	kwWz, _ := waKeywords(true)
	lits := bs("a", "_", "0", "1.5", "2i", "'c'", `"s"`, "`r`", "nil", "true", "iota", "this", "int", "//c\n", "/*c*/", "#c\n", "#wa:export x\n", "\n", "'", `"`, "'\n", "\"\n")
	vocabWa := uniq(append(append(append([][]byte{}, kwWa...), opsWa...), lits...))
	litsWz := bs("甲", "_", "0", "1.5", "'c'", `"s"`, "空", "真", "嘀嗒", "我的", "整型", "·", "注: c\n", "//c\n", "#凹:导出 x\n", "\n", "'", `"`, "'\n", "\"\n")
	vocabWz := uniq(append(append(append(append([][]byte{}, kwWz...), kwWa...), opsWa...), litsWz...))
	ctxWa := []ctxDef{
		{"file", "", "\n"},
		{"func-body", "func f {\n\t", "\n}\n"},
		{"func-body-one-line", "func f { ", " }"},
		{"nested-block", "func f {\n\tif a {\n\t\t", "\n\t}\n}\n"},
		{"struct-body", "type T :struct {\n\t", "\n}\n"},
		{"interface-body", "type I :interface {\n\t", "\n}\n"},
		{"param-list", "func f(", ") {\n}\n"},
		{"expr", "func f {\n\ta := ", "\n}\n"},
		{"case-clause", "func f {\n\tswitch a {\n\tcase 1:\n\t\t", "\n\t}\n}\n"},
		{"composite-lit", "global g = T{", "}\n"},
	}
	ctxWz := []ctxDef{
		{"file", "", "\n"},
		{"func-body", "函数 f:\n\t", "\n完毕\n"},
		{"func-body-one-line", "函数 f: ", " 完毕"},
		{"nested-block", "函数 f:\n\t如果 甲:\n\t\t", "\n\t完毕\n完毕\n"},
		{"struct-body", "结构 T:\n\t", "\n完毕\n"},
		{"interface-body", "接口 I:\n\t", "\n完毕\n"},
		{"param-list", "函数 f(", "):\n完毕\n"},
		{"expr", "函数 f:\n\t甲 := ", "\n完毕\n"},
		{"case-clause", "函数 f:\n\t找辙 甲:\n\t有辙 1:\n\t\t", "\n\t完毕\n完毕\n"},
		{"composite-lit", "全局 g = T{", "}\n"},
	}
	kwWat, insWat := watKeywords()
	vocabWat := uniq(append(append(append([][]byte{}, kwWat...), insWat...), bs("(", ")", "=", "$x", "0", "-1", "0x1F", "1.5", "'a'", "'", `"s"`, `"`, "'\n", "\"\n", ";;c\n", "(;c;)", "offset=8", "\n")...))
	ctxWat := []ctxDef{
		{"file", "", "\n"},
		{"module", "(module ", ")"},
		{"module-field", "(module (", "))"},
		{"func-body", "(module (func $f (result i32) ", "))"},
		{"const-operand", "(module (func $f i32.const ", "))"},
		{"global-init", "(module (global $g i32 (i32.const ", ")))"},
		{"func-header", "(module (func $f (", ") ))"},
		{"data-offset", "(module (memory 1) (data (", ") \"s\"))"},
	}
	kwNasm, opsNasm := nasmKeywords()
	vocabNasm := uniq(append(append(append([][]byte{}, kwNasm...), opsNasm...), bs("x", ".x", "0", "-1", "1.5", "'c'", `"s"`, "'", `"`, "'\n", "\"\n", "# c\n", "\n",
		"addi.d", "$a0", "%pc_hi20", "mov", "rax", "qword", "ptr", "addi", "a0", "add", "x0", "加立.长", "$零格")...))
	ctxNasm := []ctxDef{
		{"file", "", "\n"},
		{"x64-file", ".intel_syntax noprefix\n", "\n"},
		{"data-section", ".section .data\n.align 3\nx: ", "\n"},
		{"data-value", ".section .data\nx: .quad ", "\n"},
		{"text-section", ".section .text\n.globl f\nf:\n\t", "\n"},
		{"x64-text-section", ".intel_syntax noprefix\n.section .text\n.globl f\nf:\n\t", "\n"},
		{"operand", ".section .text\nf:\n\taddi.d $a0, ", "\n"},
		{"zh-func-body", "函数 f:\n\t", "\n完毕\n"},
		{"zh-global", "全局 x: ", "\n"},
	}
	return []*class{
		stmtPosClass("wa", vocabWa, bs("a", ":", "{", "\n"), ctxWa),
		stmtPosClass("wz", vocabWz, bs("甲", ":", "{", "\n"), ctxWz),
		stmtPosClass("wat", vocabWat, bs("$x", "0", "(", "\n"), ctxWat),
		stmtPosClass("nasm", vocabNasm, bs("x", ":", ",", "\n"), ctxNasm),
	}
}

type seedDef struct{ Lang, Path string }

// small valid files of every language, read from the tree under verification
var seedFiles = []seedDef{
	{"wa", "waroot/examples/misc/global.wa"},
	{"wa", "waroot/examples/misc/ref.wa"},
	{"wa", "waroot/examples/misc/multi_ret.wa"},
	{"wa", "waroot/examples/prime/src/check.wa"},
	{"wa", "waroot/examples/misc/array.wa"},
	{"wa", "waroot/examples/hello/src/mymath/math.wa"},
	{"wz", "waroot/examples/wz/hello/hello.wz"},
	{"wz", "waroot/examples/wz/hello/hello2.wz"},
	{"wz", "waroot/examples/wz/hello/hello3.wz"},
	{"wz", "waroot/examples/native-wz-01/hello.wz"},
	{"wz", "waroot/examples/cspj2025/number.wz"},
	{"wz", "waroot/src/书/书.wz"},
	{"wat", "internal/wat/watutil/testdata/data-01.wat"},
	{"wat", "internal/wat/watutil/testdata/func-04.wat"},
	{"wat", "internal/wat/watutil/testdata/export-01.wat"},
	{"wat", "internal/wat/watutil/testdata/memory-04.wat"},
	{"wat", "internal/wat/watutil/testdata/table-01.wat"},
	{"wat", "internal/wat/watutil/testdata/label-01.wat"},
	{"wat", "internal/wat/watutil/testdata/hello-01.wat"},
	{"nasm", "internal/native/examples/nasm-hello-x64-01/hello.wa.s"},
	{"nasm", "internal/native/parser/testdata/hello-x64-linux-01/app.wa.s"},
	{"nasm", "internal/native/parser/testdata/hello-01/app.wa.s"},
	{"nasm", "internal/native/parser/testdata/hello-01/app.wz.s"},
}

type tok struct {
	gap  []byte // whitespace before the token
	text []byte
}

type seed struct {
	seedDef
	toks   []tok
	tail   []byte
	sub    [][]byte // small structural alphabet first, then every keyword of the language
	nsmall int
}

func isIdentByte(c byte, lang string) bool {
	switch {
	case c >= 'a' && c <= 'z', c >= 'A' && c <= 'Z', c >= '0' && c <= '9', c == '_', c >= 0x80:
		return true
	case c == '.' || c == '$' || c == '%':
		return lang == "wat" || lang == "nasm"
	}
	return false
}

var twoCharOps = map[string]bool{":=": true, "=>": true, "==": true, "!=": true, "<=": true, ">=": true, "&&": true, "||": true,
	"++": true, "--": true, "<<": true, ">>": true, "+=": true, "-=": true, ";;": true, "//": true, "/*": true, "*/": true}

// tokenize is a language-neutral splitter (not the scanners under test): identifier/number runs,
// quoted strings, "\n", "·", two-character operators, single punctuation bytes.
func tokenize(src []byte, lang string) (toks []tok, tail []byte) {
	// drop the leading comment block (copyright header) so the mutations hit code
	for {
		line := src
		if i := bytes.IndexByte(src, '\n'); i >= 0 {
			line = src[:i+1]
		}
		t := strings.TrimSpace(string(line))
		if len(line) > 0 && (t == "" || strings.HasPrefix(t, "//") || strings.HasPrefix(t, "#") && !strings.HasPrefix(t, "#wa:") && !strings.HasPrefix(t, "#凹:") && !strings.HasPrefix(t, "#syntax") || strings.HasPrefix(t, "注:") || strings.HasPrefix(t, ";;")) {
			src = src[len(line):]
			continue
		}
		break
	}
	i := 0
	for i < len(src) {
		g := i
		for i < len(src) && (src[i] == ' ' || src[i] == '\t' || src[i] == '\r') {
			i++
		}
		gap := src[g:i]
		if i >= len(src) {
			return toks, gap
		}
		s := i
		c := src[i]
		switch {
		case c == '\n':
			i++
		case c == 0xC2 && i+1 < len(src) && src[i+1] == 0xB7: // "·"
			i += 2
		case c == '"' || c == '\'':
			j := i + 1
			for j < len(src) && src[j] != c && src[j] != '\n' {
				if src[j] == '\\' && j+1 < len(src) {
					j++
				}
				j++
			}
			if j < len(src) && src[j] == c {
				i = j + 1
			} else {
				i++
			}
		case isIdentByte(c, lang):
			for i < len(src) && isIdentByte(src[i], lang) && !(src[i] == 0xC2 && i+1 < len(src) && src[i+1] == 0xB7) {
				i++
			}
		case i+1 < len(src) && twoCharOps[string(src[i:i+2])]:
			i += 2
		default:
			i++
		}
		toks = append(toks, tok{gap, src[s:i]})
	}
	return toks, nil
}

func (s *seed) render(ops map[int]int) []byte {
	// ops: token index -> 0 delete, 1 duplicate, 2+k substitute s.sub[k], 2+len(sub)+k insert
	// s.sub[k] before the token
	var b []byte
	for i, t := range s.toks {
		op, ok := ops[i]
		b = append(b, t.gap...)
		switch {
		case !ok:
			b = append(b, t.text...)
		case op == 0:
		case op == 1:
			b = append(b, t.text...)
			b = append(b, ' ')
			b = append(b, t.text...)
		case op < 2+len(s.sub):
			b = append(b, s.sub[op-2]...)
		default:
			b = append(b, s.sub[op-2-len(s.sub)]...)
			b = append(b, ' ')
			b = append(b, t.text...)
		}
	}
	return append(b, s.tail...)
}

// dev1: one token deleted, duplicated, substituted by or preceded by any token of the seed's
// mutation alphabet (a small structural set plus every keyword of the language).
func (s *seed) dev1() *class {
	m := 2 + 2*len(s.sub)
	if len(s.toks) > 150 {
		m = 2 + len(s.sub) // large seeds (three native assembly files): no insertions, to bound the cost
	}
	return &class{Name: "mut1:" + s.Path, Lang: s.Lang, N: len(s.toks) * m, Gen: func(i int) []byte {
		return s.render(map[int]int{i / m: i % m})
	}}
}

// dev2: two mutations, from the small structural alphabet only (delete, duplicate, substitute).
func (s *seed) dev2() *class {
	m := 2 + s.nsmall
	n := len(s.toks)
	// pairs p<q in lexicographic order
	off := make([]int, n+1)
	for p := 0; p < n; p++ {
		off[p+1] = off[p] + (n - 1 - p)
	}
	return &class{Name: "mut2:" + s.Path, Lang: s.Lang, N: off[n] * m * m, Gen: func(i int) []byte {
		pair, o := i/(m*m), i%(m*m)
		p := sort.Search(n, func(p int) bool { return off[p+1] > pair })
		q := p + 1 + (pair - off[p])
		return s.render(map[int]int{p: o / m, q: o % m})
	}}
}

func loadSeeds() ([]*seed, error) {
	var out []*seed
	perLang := map[string]int{}
	for _, d := range seedFiles {
		data, err := os.ReadFile(filepath.Join(mc.RepoDir(), d.Path))
		if err != nil {
			continue // the tree may have dropped a file; enough seeds must remain (checked below)
		}
		s := &seed{seedDef: d}
		s.toks, s.tail = tokenize(data, d.Lang)
		var small, kw [][]byte
		switch d.Lang {
		case "wa":
			small = subWa
			kw, _ = waKeywords(false)
		case "wz":
			small = subWz
			kw, _ = waKeywords(true)
		case "wat":
			small = subWat
			kw, _ = watKeywords()
		default:
			small = subNasm
			kw, _ = nasmKeywords()
		}
		s.sub = uniq(append(append([][]byte{}, small...), kw...))
		s.nsmall = len(small)
		out = append(out, s)
		perLang[d.Lang]++
	}
	for _, l := range []string{"wa", "wz", "wat", "nasm"} {
		if perLang[l] < 3 {
			return nil, fmt.Errorf("only %d %s seed files found under %s", perLang[l], l, mc.RepoDir())
		}
	}
	return out, nil
}

type space struct {
	classes []*class
	seeds   []*seed
	nPre    int
	// classes [0, nPreClasses) run in the preflight round: one job per (entry point, variant), so
	// that a hang reached from several variants costs one horizon, not one per variant
	nPreClasses int
}

func buildSpace(thorough bool) (*space, error) {
	seeds, err := loadSeeds()
	if err != nil {
		return nil, err
	}
	sp := &space{seeds: seeds}
	var all256 [][]byte
	for b := 0; b < 256; b++ {
		all256 = append(all256, []byte{byte(b)})
	}
	pre := &class{Name: "pre", N: 257 + len(seeds)}
	pre.Gen = func(i int) []byte {
		switch {
		case i == 0:
			return nil
		case i <= 256:
			return []byte{byte(i - 1)}
		}
		return seeds[i-257].render(nil)
	}
	sp.nPre = pre.N
	L := 3
	if thorough {
		L = 4
	}
	sp.classes = append(sp.classes, pre)
	sp.classes = append(sp.classes, stmtPosClasses()...)
	sp.nPreClasses = len(sp.classes)
	sp.classes = append(sp.classes,
		seqClass("bytes256^2", "", all256, 2, 2, nil),
		seqClass(fmt.Sprintf("struct26^2..%d", L), "", structBytes, 2, L, nil),
		seqClass(fmt.Sprintf("tok-wa^1..%d", L), "wa", tokWa, 1, L, []byte(" ")),
		seqClass(fmt.Sprintf("tok-wz^1..%d", L), "wz", tokWz, 1, L, []byte(" ")),
		seqClass(fmt.Sprintf("tok-wat^1..%d", L), "wat", tokWat, 1, L, []byte(" ")),
		seqClass(fmt.Sprintf("tok-nasm^1..%d", L), "nasm", tokNasm, 1, L, []byte(" ")),
	)
	for _, s := range seeds {
		sp.classes = append(sp.classes, s.dev1())
	}
	if thorough {
		// token sequences of length 5: only the language's own entry points
		own := map[string][]int{
			"wa":   {uFormat, uSyntax, uParserWa, uTypes},
			"wz":   {uFormat, uSyntax, uParserWz, uTypes},
			"wat":  {uFormat, uSyntax, uWat},
			"nasm": {uFormat, uSyntax, uNative},
		}
		for _, t := range []struct {
			lang  string
			alpha [][]byte
		}{
			{"wa", bs("func", "main", "a", "i32", "(", ")", "{", "}", ":", "=>", "=", ",", "0", "type", "struct", "\n")},
			{"wz", bs("函数", "主控", "甲", "整型", "·", "(", ")", ":", "=>", "=", ",", "0", "结构", "类型", "完毕", "\n")},
			{"wat", bs("(", ")", "module", "func", "param", "result", "i32", "local.get", "i32.const", "$x", "export", `"s"`, "0", "memory", "data", "type")},
			{"nasm", bs(".section", ".text", ".globl", ".quad", ".ascii", "x", ":", "0", `"s"`, ",", "\n", "addi.d", "$a0", "mov", "rax", "全局")},
		} {
			c := seqClass("tok-"+t.lang+"^5(own entry points, 16 tokens)", t.lang, t.alpha, 5, 5, []byte(" "))
			c.Units = own[t.lang]
			sp.classes = append(sp.classes, c)
		}
		// two mutations on the two smallest seeds of each language
		per := map[string][]*seed{}
		for _, s := range seeds {
			per[s.Lang] = append(per[s.Lang], s)
		}
		for _, l := range []string{"wa", "wz", "wat", "nasm"} {
			ss := per[l]
			sort.SliceStable(ss, func(i, j int) bool { return len(ss[i].toks) < len(ss[j].toks) })
			for i, s := range ss[:2] {
				if len(s.toks) <= 60 || i == 0 && len(s.toks) <= 100 {
					sp.classes = append(sp.classes, s.dev2())
				}
			}
		}
	}
	return sp, nil
}

// ---------------------------------------------------------------------------------------------
// Jobs, worker side

type Job struct {
	Thorough bool
	Class    int
	From, To int
	Idxs     []int // explicit input indices (overrides From/To)
	Unit     int
	Subs     []int
	Skip     []int64 // idx*64+sub calls not to make (already classified)
	ErrFile  string  // fd 2 is redirected here for single-call confirmation runs
}

type Finding struct {
	Class, Idx, Unit, Sub int
	Kind                  string // panic | exit | fatal | hang
	Msg, Loc              string
	Raw                   string
}

func (f *Finding) key() string {
	u := units[f.Unit]
	return u.Name + "|" + u.Subs[f.Sub].Lang + "|" + f.Kind + ":" + f.Msg + "|" + f.Loc
}

type JobResult struct {
	Evals    int
	Outcomes []string
	Panics   []Finding
	Cands    []int64 // idx*64+sub of types.Check inputs that must go to the loader
	CandHash []uint64
	Err      string
}

var (
	wSpace   *space
	wSpaceT  bool
	curSeq   atomic.Int64 // incremented at the start and end of every call
	curStart atomic.Int64 // unix nanos of the running call, 0 if none
	curCall  atomic.Value // [4]int class, idx, unit, sub
	callGID  atomic.Int64
)

var (
	reHex    = regexp.MustCompile(`0x[0-9a-fA-F]+`)
	reNum    = regexp.MustCompile(`[0-9]+`)
	reQuoted = regexp.MustCompile("\"[^\"]*\"|'[^']*'|`[^`]*`")
)

func normMsg(s string) string {
	if i := strings.IndexByte(s, '\n'); i >= 0 {
		s = s[:i]
	}
	s = reQuoted.ReplaceAllString(s, "Q")
	s = reHex.ReplaceAllString(s, "ADDR")
	s = reNum.ReplaceAllString(s, "N")
	var b strings.Builder
	for _, r := range s {
		if r < 0x20 || r == 0x7f || r == 0xfffd {
			r = '?'
		}
		b.WriteRune(r)
	}
	s = b.String()
	if len(s) > 100 {
		s = s[:100]
	}
	return s
}

const modPrefix = "wa-lang.org/wa/"

func relFile(file string) string {
	root := mc.RepoDir() + "/"
	if strings.HasPrefix(file, root) {
		return file[len(root):]
	}
	for _, m := range []string{"/internal/", "/api/", "/waroot/"} {
		if i := strings.Index(file, m); i >= 0 {
			return file[i+1:]
		}
	}
	return file
}

func shortFunc(fn string) string {
	fn = strings.TrimPrefix(fn, modPrefix)
	if i := strings.LastIndexByte(fn, '/'); i >= 0 {
		fn = fn[i+1:]
	}
	if i := strings.IndexByte(fn, '.'); i >= 0 {
		fn = fn[i+1:] // drop the package name (the file path carries it)
	}
	return fn
}

var helperFuncs = map[string]bool{"assert": true, "Assert": true, "Assertf": true, "unreachable": true, "Panic": true, "Panicf": true,
	"AssertEQ": true, "errorf": true, "throw": true, "fatal": true, "fatalf": true}

func isUnderTest(fn string) bool {
	return strings.HasPrefix(fn, modPrefix) && !strings.Contains(fn, "/zzverif/")
}

// panicLocation: the function of the code under test in which the ORIGINAL panic was raised
// (frame below the oldest runtime.gopanic), "file:function"; for assert-like helpers the caller
// is appended.
func panicLocation() (loc string, short string) {
	pcs := make([]uintptr, 256)
	n := runtime.Callers(2, pcs)
	frames := runtime.CallersFrames(pcs[:n])
	type fr struct{ fn, file string }
	var list []fr
	for {
		f, more := frames.Next()
		list = append(list, fr{f.Function, f.File})
		if !more {
			break
		}
	}
	start := 0
	for i, f := range list {
		if f.fn == "runtime.gopanic" {
			start = i + 1
		}
		if f.fn == "main.runCall" {
			break
		}
	}
	var sb strings.Builder
	for i := start; i < len(list) && i < start+12; i++ {
		fmt.Fprintf(&sb, "%s (%s); ", shortFunc(list[i].fn), filepath.Base(list[i].file))
	}
	for i := start; i < len(list); i++ {
		f := list[i]
		if !isUnderTest(f.fn) {
			continue
		}
		loc = relFile(f.file) + ":" + shortFunc(f.fn)
		sf := shortFunc(f.fn)
		if j := strings.LastIndexByte(sf, '.'); j >= 0 {
			sf = sf[j+1:]
		}
		if helperFuncs[sf] {
			for k := i + 1; k < len(list); k++ {
				if isUnderTest(list[k].fn) {
					loc += "<" + relFile(list[k].file) + ":" + shortFunc(list[k].fn)
					break
				}
			}
		}
		return loc, sb.String()
	}
	return "?", sb.String()
}

func runCall(cl, idx, unit, sub int, src []byte) (outcome string, fnd *Finding) {
	curCall.Store([4]int{cl, idx, unit, sub})
	curStart.Store(time.Now().UnixNano())
	curSeq.Add(1)
	defer func() {
		curStart.Store(0)
		curSeq.Add(1)
		if e := recover(); e != nil {
			raw := fmt.Sprint(e)
			if err, ok := e.(error); ok {
				raw = err.Error()
			}
			loc, stack := panicLocation()
			fnd = &Finding{Class: cl, Idx: idx, Unit: unit, Sub: sub, Kind: "panic", Msg: normMsg(raw), Loc: loc, Raw: truncate(raw, 300) + " || " + stack}
			outcome = "panic"
		}
	}()
	return units[unit].Subs[sub].Run(src), nil
}

func truncate(s string, n int) string {
	if len(s) > n {
		return s[:n] + "..."
	}
	return s
}

// watchdog: a call that runs longer than the horizon is a hang. The stack of the calling
// goroutine is sampled several times; the deepest frame common to all samples (outermost-first
// call chains) is the function containing the non-terminating loop.
func watchdog() {
	var seq int64 = -1
	var chains [][]string
	var cpu0 time.Duration
	for {
		time.Sleep(200 * time.Millisecond)
		st := curStart.Load()
		s := curSeq.Load()
		if st == 0 {
			chains, seq = nil, -1
			continue
		}
		el := time.Duration(time.Now().UnixNano() - st)
		if s != seq {
			cpu0 = selfCPU() // CPU clock <= 0.2 s after the start of the call
			chains, seq = nil, s
		}
		if el < horizon-3*time.Second {
			continue
		}
		if c := sampleChain(); c != nil && len(chains) < 16 {
			chains = append(chains, c)
		}
		// a hang is: no return after 30 s of wall time during which this worker burnt >= 10 s of CPU
		// (a starved machine must not turn a slow call into a hang), or 300 s of wall time outright
		if el < horizon || (selfCPU()-cpu0 < minCPU && el < blockedHorizon) {
			continue
		}
		if curSeq.Load() != seq { // finished meanwhile
			continue
		}
		loc := "?"
		if len(chains) > 0 {
			common := chains[0]
			for _, c := range chains[1:] {
				k := 0
				for k < len(common) && k < len(c) && common[k] == c[k] {
					k++
				}
				common = common[:k]
			}
			if len(common) > 0 {
				loc = common[len(common)-1]
			}
		}
		call := curCall.Load().([4]int)
		// Which of a looping function and the callee it keeps re-entering is common to all samples
		// is a matter of chance, so the class is the package directory of that frame; the sampled
		// file:function goes into the description.
		pkg := loc
		if i := strings.IndexByte(loc, ':'); i >= 0 {
			pkg = filepath.Dir(loc[:i])
		}
		data, _ := json.Marshal(Finding{Class: call[0], Idx: call[1], Unit: call[2], Sub: call[3], Kind: "hang", Msg: fmt.Sprintf(">%ds", int(horizon.Seconds())), Loc: pkg,
			Raw: "sampled loop location: " + loc})
		fmt.Fprintf(os.Stderr, "\n%s%s\n", hangMarker, data)
		os.Exit(3)
	}
}

func selfCPU() time.Duration {
	var ru syscall.Rusage
	syscall.Getrusage(syscall.RUSAGE_SELF, &ru)
	return time.Duration(ru.Utime.Nano() + ru.Stime.Nano())
}

// sampleChain returns the outermost-first chain "file:function" of code-under-test frames of the
// goroutine that is inside runCall.
func sampleChain() []string {
	buf := make([]byte, 1<<20)
	n := runtime.Stack(buf, true)
	for _, g := range strings.Split(string(buf[:n]), "\n\n") {
		if !strings.Contains(g, "main.runCall") {
			continue
		}
		lines := strings.Split(g, "\n")
		var chain []string
		for i := 1; i+1 < len(lines); i++ {
			fn := lines[i]
			if strings.HasPrefix(fn, "\t") || !strings.HasPrefix(lines[i+1], "\t") {
				continue
			}
			if j := strings.LastIndexByte(fn, '('); j > 0 {
				fn = fn[:j]
			}
			if strings.HasPrefix(fn, "main.runCall") {
				break
			}
			if !isUnderTest(fn) {
				continue
			}
			file := strings.TrimSpace(lines[i+1])
			if j := strings.LastIndexByte(file, ':'); j > 0 {
				file = file[:j]
			}
			chain = append(chain, relFile(file)+":"+shortFunc(fn))
		}
		// reverse: outermost first
		for a, b := 0, len(chain)-1; a < b; a, b = a+1, b-1 {
			chain[a], chain[b] = chain[b], chain[a]
		}
		return chain
	}
	return nil
}

var workerInit sync.Once
var workerEnv []string

func handleJob(raw json.RawMessage) interface{} {
	var j Job
	if err := json.Unmarshal(raw, &j); err != nil {
		return JobResult{Err: err.Error()}
	}
	var initErr error
	workerInit.Do(func() {
		if dir := os.Getenv("C08_CWD"); dir != "" {
			os.Chdir(dir) // empty: no wa.mod, no files: the environment every relative lookup sees
		}
		// a runaway allocation must kill this worker, not the machine
		lim := syscall.Rlimit{Cur: 12 << 30, Max: 12 << 30}
		syscall.Setrlimit(syscall.RLIMIT_AS, &lim)
		go watchdog()
	})
	if wSpace == nil || wSpaceT != j.Thorough {
		wSpace, initErr = buildSpace(j.Thorough)
		wSpaceT = j.Thorough
		if initErr != nil {
			return JobResult{Err: initErr.Error()}
		}
	}
	if j.ErrFile != "" {
		if f, err := os.Create(j.ErrFile); err == nil {
			syscall.Dup2(int(f.Fd()), 2)
		}
	}
	cl := wSpace.classes[j.Class]
	skip := map[int64]bool{}
	for _, s := range j.Skip {
		skip[s] = true
	}
	var res JobResult
	outcomes := map[string]bool{}
	seen := map[string]bool{}
	do := func(idx int) {
		src := cl.Gen(idx)
		for _, sub := range j.Subs {
			if skip[int64(idx)*64+int64(sub)] {
				continue
			}
			out, f := runCall(j.Class, idx, j.Unit, sub, src)
			res.Evals++
			if j.Unit == uTypes && candFlag {
				res.Cands = append(res.Cands, int64(idx)*64+int64(sub))
				res.CandHash = append(res.CandHash, candHash)
			}
			candFlag = false
			if f != nil {
				if k := f.key(); !seen[k] {
					seen[k] = true
					res.Panics = append(res.Panics, *f)
				}
				continue
			}
			if len(outcomes) < 64 {
				outcomes[units[j.Unit].Name+"|"+units[j.Unit].Subs[sub].Lang+"|"+out] = true
			}
		}
	}
	if j.Idxs != nil {
		for _, idx := range j.Idxs {
			do(idx)
		}
	} else {
		for idx := j.From; idx < j.To; idx++ {
			do(idx)
		}
	}
	for o := range outcomes {
		res.Outcomes = append(res.Outcomes, o)
	}
	sort.Strings(res.Outcomes)
	return res
}

// ---------------------------------------------------------------------------------------------
// Supervisor

type supervisor struct {
	r        *mc.Run
	sp       *space
	thorough bool
	pool     *mc.Pool

	mu            sync.Mutex
	queue         []Job
	findings      map[string]*Finding // key -> smallest witness
	hangObs       map[[2]int]int      // (unit, sub) -> hang observations
	disabled      map[[2]int]bool
	cands         map[int][]int64 // class -> loader candidates
	candByHash    map[[2]uint64][2]int64
	nCandRaw      int
	confirmed     map[string]bool // key -> confirmed 5x (hang/exit/fatal) with that witness
	confirmWG     sync.WaitGroup
	confirmedHang map[string]Finding
	tmpDir        string
	nCrashBis     int
	evalsUnit     [8]atomic.Int64
}

func (s *supervisor) input(cl, idx int) []byte { return s.sp.classes[cl].Gen(idx) }

// smaller reports whether witness a is simpler than b: shorter input, then bytewise, then sub.
func (s *supervisor) smaller(a, b *Finding) bool {
	ia, ib := s.input(a.Class, a.Idx), s.input(b.Class, b.Idx)
	if len(ia) != len(ib) {
		return len(ia) < len(ib)
	}
	if c := bytes.Compare(ia, ib); c != 0 {
		return c < 0
	}
	return a.Sub < b.Sub
}

func (s *supervisor) addFinding(f Finding) (isNew bool) {
	k := f.key()
	s.mu.Lock()
	defer s.mu.Unlock()
	old, ok := s.findings[k]
	if !ok || s.smaller(&f, old) {
		ff := f
		s.findings[k] = &ff
	}
	return !ok
}

func (s *supervisor) activeSubs(j *Job) []int {
	var out []int
	for _, sub := range j.Subs {
		if !s.disabled[[2]int{j.Unit, sub}] {
			out = append(out, sub)
		}
	}
	if out == nil {
		out = []int{}
	}
	return out
}

func ncalls(j *Job) int {
	n := j.To - j.From
	if j.Idxs != nil {
		n = len(j.Idxs)
	}
	return n * len(j.Subs)
}

// runRounds drains the queue; crashed jobs are bisected, jobs interrupted by a hang are continued.
func (s *supervisor) runRounds(jobs []Job) {
	for len(jobs) > 0 {
		batch := jobs
		s.pool.Run(len(batch), func(i int) interface{} {
			j := batch[i]
			s.mu.Lock()
			j.Subs = s.activeSubs(&j)
			s.mu.Unlock()
			batch[i].Subs = j.Subs // what was really sent
			return j
		}, 20*time.Minute, func(res mc.Result) {
			s.handle(batch[res.Index], res)
		})
		s.mu.Lock()
		jobs, s.queue = s.queue, nil
		s.mu.Unlock()
		if s.r.Expired() {
			s.r.Cap("deadline")
			return
		}
	}
}

func (s *supervisor) enqueue(j Job) {
	s.mu.Lock()
	s.queue = append(s.queue, j)
	s.mu.Unlock()
}

func parseHang(stderr string) *Finding {
	i := strings.LastIndex(stderr, hangMarker)
	if i < 0 {
		return nil
	}
	line := stderr[i+len(hangMarker):]
	if k := strings.IndexByte(line, '\n'); k >= 0 {
		line = line[:k]
	}
	var f Finding
	if json.Unmarshal([]byte(line), &f) != nil {
		return nil
	}
	return &f
}

func (s *supervisor) handle(j Job, res mc.Result) {
	switch res.Status {
	case "ok":
		var jr JobResult
		if err := json.Unmarshal(res.Out, &jr); err != nil || jr.Err != "" {
			s.r.HarnessError("job result: %v %s", err, jr.Err)
			return
		}
		s.r.Evals.Add(int64(jr.Evals))
		s.evalsUnit[j.Unit].Add(int64(jr.Evals))
		for _, o := range jr.Outcomes {
			s.r.Distinct(o)
		}
		for _, f := range jr.Panics {
			s.addFinding(f)
		}
		if len(jr.Cands) > 0 {
			s.mu.Lock()
			for i, c := range jr.Cands {
				s.nCandRaw++
				// inputs with the same position-free AST and comments are the same program to the
				// loader: keep the simplest (first class, smallest index)
				hk := [2]uint64{uint64(c % 64), jr.CandHash[i]}
				nw := [2]int64{int64(j.Class), c}
				if old, ok := s.candByHash[hk]; !ok || nw[0] < old[0] || nw[0] == old[0] && nw[1] < old[1] {
					s.candByHash[hk] = nw
				}
			}
			s.mu.Unlock()
		}
	case "hang": // the pool's backstop horizon: should not happen (the in-worker watchdog is at 30 s)
		s.r.HarnessError("job exceeded the 20 min backstop: class %d [%d,%d) unit %d", j.Class, j.From, j.To, j.Unit)
	case "crash":
		if h := parseHang(res.Stderr); h != nil && h.Class == j.Class && h.Unit == j.Unit {
			s.onHang(j, *h)
			return
		}
		// os.Exit or a runtime fatal error: bisect down to a single call
		if ncalls(&j) <= 1 {
			if len(j.Subs) == 1 {
				idx := j.From
				if j.Idxs != nil {
					idx = j.Idxs[0]
				}
				s.confirmWG.Add(1)
				go s.confirmCrash(j.Class, idx, j.Unit, j.Subs[0])
			}
			return
		}
		s.mu.Lock()
		s.nCrashBis++
		s.mu.Unlock()
		a, b := j, j
		switch {
		case j.Idxs != nil && len(j.Idxs) > 1:
			m := len(j.Idxs) / 2
			a.Idxs, b.Idxs = j.Idxs[:m], j.Idxs[m:]
		case j.Idxs == nil && j.To-j.From > 1:
			m := (j.From + j.To) / 2
			a.To, b.From = m, m
		default:
			m := len(j.Subs) / 2
			a.Subs, b.Subs = j.Subs[:m], j.Subs[m:]
		}
		s.enqueue(a)
		s.enqueue(b)
	}
}

// noteHang records one full-horizon hang observation: counts it, drops the entry point variant
// once the tier's limit is reached, starts the 5x confirmation of a new class.
func (s *supervisor) noteHang(h Finding) {
	us := [2]int{h.Unit, h.Sub}
	k := h.key()
	s.mu.Lock()
	s.hangObs[us]++
	limit := 1
	if s.thorough {
		limit = 3
	}
	if s.hangObs[us] >= limit && !s.disabled[us] {
		s.disabled[us] = true
		s.r.Cap(fmt.Sprintf("%s [%s] dropped from the rest of the run after %d hang(s)", units[h.Unit].Name, units[h.Unit].Subs[h.Sub].Label, s.hangObs[us]))
	}
	_, seen := s.findings[k]
	s.mu.Unlock()
	if !seen {
		// first observation of this class: confirm it right away, concurrently with the enumeration
		s.confirmWG.Add(1)
		go s.confirmHang(h)
	}
	s.addFinding(h)
}

func (s *supervisor) onHang(j Job, h Finding) {
	s.noteHang(h)
	// the calls before the hanging one are re-run (their results died with the worker), the rest
	// continues without the hanging call
	a, b := j, j
	b.Skip = append(append([]int64(nil), j.Skip...), int64(h.Idx)*64+int64(h.Sub))
	if j.Idxs != nil {
		p := 0
		for p < len(j.Idxs) && j.Idxs[p] != h.Idx {
			p++
		}
		a.Idxs, b.Idxs = j.Idxs[:p], j.Idxs[p:]
		if len(a.Idxs) > 0 {
			s.enqueue(a)
		}
	} else {
		a.To, b.From = h.Idx, h.Idx
		if a.To > a.From {
			s.enqueue(a)
		}
	}
	s.enqueue(b)
}

func (s *supervisor) single(cl, idx, unit, sub int, errFile string) Job {
	return Job{Thorough: s.thorough, Class: cl, Idxs: []int{idx}, Unit: unit, Subs: []int{sub}, ErrFile: errFile}
}

func (s *supervisor) confirmHang(h Finding) {
	defer s.confirmWG.Done()
	n := 0
	var mu sync.Mutex
	mc.RunPool(5, 5, func(i int) interface{} { return s.single(h.Class, h.Idx, h.Unit, h.Sub, "") }, blockedHorizon+60*time.Second, workerEnv, func(res mc.Result) {
		if res.Status == "crash" {
			if g := parseHang(res.Stderr); g != nil && g.Idx == h.Idx && g.Sub == h.Sub {
				mu.Lock()
				n++
				mu.Unlock()
			}
		}
	})
	s.mu.Lock()
	defer s.mu.Unlock()
	if n == 5 {
		s.confirmed[h.key()+fmt.Sprintf("#%d/%d/%d", h.Class, h.Idx, h.Sub)] = true
		if _, ok := s.confirmedHang[h.key()]; !ok {
			s.confirmedHang[h.key()] = h
		}
	} else {
		s.r.HarnessError("hang %s on class %d input %d reproduced only %d/5 times", h.key(), h.Class, h.Idx, n)
	}
}

var (
	reFatalLine = regexp.MustCompile(`(?m)^(fatal error: .*|panic: .*|runtime: .*exceeds.*)$`)
	reFrameFn   = regexp.MustCompile(`(?m)^(wa-lang\.org/wa/[^\s(]+(?:\([^)]*\))?[^\s(]*)\(`)
)

// classifyCrash turns the stderr of a dead single-call worker into (kind, msg, loc).
func classifyCrash(stderr string) (kind, msg, loc string) {
	if m := reFatalLine.FindAllString(stderr, -1); len(m) > 0 {
		line := m[0]
		for _, l := range m {
			if strings.HasPrefix(l, "fatal error: ") || strings.HasPrefix(l, "panic: ") {
				line = l
				break
			}
		}
		kind, msg = "fatal", normMsg(line)
		// canonical location: the smallest function name among the code-under-test frames of the
		// first 40 frames (for runaway recursion the set of functions in the cycle is stable, the top
		// frame is not)
		var fns []string
		for _, l := range strings.Split(stderr, "\n") {
			if strings.HasPrefix(l, modPrefix) && !strings.Contains(l, "/zzverif/") {
				if j := strings.LastIndexByte(l, '('); j > 0 {
					l = l[:j]
				}
				fns = append(fns, strings.TrimPrefix(l, modPrefix))
				if len(fns) == 40 {
					break
				}
			}
		}
		sort.Strings(fns)
		loc = "?"
		if len(fns) > 0 {
			loc = fns[0]
		}
		return
	}
	// os.Exit: logger.Fatal prints "file:line: message" first
	lines := strings.Split(strings.TrimSpace(stderr), "\n")
	last := ""
	for i := len(lines) - 1; i >= 0; i-- {
		if strings.TrimSpace(lines[i]) != "" {
			last = strings.TrimSpace(lines[i])
			break
		}
	}
	kind, msg, loc = "exit", "os.Exit", "?"
	if m := regexp.MustCompile(`^(\S+\.go):\d+: (.*)$`).FindStringSubmatch(last); m != nil {
		// the text after the first ':' of a fatal message is usually the (input dependent) cause
		head := m[2]
		if i := strings.IndexByte(head, ':'); i > 0 {
			head = head[:i]
		}
		loc, msg = relFile(m[1]), "os.Exit: "+normMsg(head)
	} else if last != "" {
		msg = "os.Exit: " + normMsg(last)
	}
	return
}

func (s *supervisor) confirmCrash(cl, idx, unit, sub int) {
	defer s.confirmWG.Done()
	type one struct{ kind, msg, loc, raw string }
	var got []one
	var mu sync.Mutex
	files := make([]string, 5)
	for i := range files {
		files[i] = filepath.Join(s.tmpDir, fmt.Sprintf("crash-%d-%d-%d-%d-%d.stderr", cl, idx, unit, sub, i))
	}
	mc.RunPool(5, 5, func(i int) interface{} { return s.single(cl, idx, unit, sub, files[i]) }, blockedHorizon+60*time.Second, workerEnv, func(res mc.Result) {
		if res.Status != "crash" {
			return
		}
		data, _ := os.ReadFile(files[res.Index])
		text := string(data)
		if h := parseHang(text); h != nil {
			mu.Lock()
			got = append(got, one{"hang", h.Msg, h.Loc, ""})
			mu.Unlock()
			return
		}
		k, m, l := classifyCrash(text)
		mu.Lock()
		got = append(got, one{k, m, l, truncate(text, 600)})
		mu.Unlock()
	})
	for _, f := range files {
		os.Remove(f)
	}
	if len(got) != 5 {
		s.r.HarnessError("crash of %s [%s] on class %d input %d reproduced only %d/5 times", units[unit].Name, units[unit].Subs[sub].Label, cl, idx, len(got))
		return
	}
	for _, g := range got[1:] {
		if g.kind != got[0].kind || g.msg != got[0].msg || g.loc != got[0].loc {
			s.r.HarnessError("crash of %s on class %d input %d classified differently across runs: %v vs %v", units[unit].Name, cl, idx, got[0], g)
			return
		}
	}
	f := Finding{Class: cl, Idx: idx, Unit: unit, Sub: sub, Kind: got[0].kind, Msg: got[0].msg, Loc: got[0].loc, Raw: got[0].raw}
	s.addFinding(f)
	s.mu.Lock()
	s.confirmed[f.key()+fmt.Sprintf("#%d/%d/%d", cl, idx, sub)] = true
	s.mu.Unlock()
}

func main() {
	if mc.IsWorker() {
		mc.WorkerMain(handleJob)
		return
	}
	r := mc.Start("C08")
	tStart := time.Now()
	thorough := r.Thorough()
	sp, err := buildSpace(thorough)
	if err != nil {
		r.HarnessError("%v", err)
		r.Finish()
	}
	tmp, _ := os.MkdirTemp("", "c08-sup-")
	defer os.RemoveAll(tmp)
	s := &supervisor{r: r, sp: sp, thorough: thorough, findings: map[string]*Finding{}, hangObs: map[[2]int]int{}, disabled: map[[2]int]bool{},
		cands: map[int][]int64{}, candByHash: map[[2]uint64][2]int64{}, confirmed: map[string]bool{}, confirmedHang: map[string]Finding{}, tmpDir: tmp}
	cwd := filepath.Join(tmp, "cwd")
	os.MkdirAll(cwd, 0o755)
	workerEnv = []string{"GOMAXPROCS=2", "GOGC=200", "C08_CWD=" + cwd}
	s.pool = mc.NewPool(mc.NWorkers(), workerEnv)
	defer s.pool.Close()

	r.Rule("every input of each class (class 'pre': empty + 256 single bytes + unmodified seeds; all 2-byte strings; all strings of 2..L structural bytes; " +
		"all sequences of 1..L tokens per language joined by a space; per language every token of its full vocabulary (all keywords and operators of the token package, one literal per class, " +
		"unterminated quotes) alone / doubled / followed by {identifier, ':', '{' or '(', newline} at 8-10 syntactic positions (file level, function body, nested block, struct and interface body, " +
		"parameter list, expression, case clause, composite literal; module/func/operand positions for WAT, sections/operands for assembly); every single-token deletion/duplication/substitution " +
		"by / insertion of a token of a mutation alphabet containing every keyword of the language, on each seed; thorough: length-5 token " +
		"sequences on the language's own entry points and every pair of mutations on the two smallest seeds per language) x every entry point x every file name / CPU; " +
		"loader.LoadProgramFile is called on every input that parses and is not rejected by the type checker configured as in loader.Import. " +
		"Outcomes are classes (entry, language, ok / normalised error / panic)")
	maxIn := 0
	for _, sd := range sp.seeds {
		if n := len(sd.render(nil)) + 16; n > maxIn {
			maxIn = n
		}
	}
	r.Bound("max_input_bytes", maxIn)
	r.Bound("seq_len", mc.Pick(r, 3, 4))
	r.Bound("per_call_horizon_s", int(horizon.Seconds()))
	r.Bound("seeds", len(sp.seeds))
	r.Bound("mutation_deviation", mc.Pick(r, 1, 2))
	var cnames []string
	total := 0
	for _, c := range sp.classes {
		cnames = append(cnames, fmt.Sprintf("%s=%d", c.Name, c.N))
		total += c.N
	}
	r.Extra("classes", cnames)
	if os.Getenv("C08_LIST") != "" {
		fmt.Println(strings.Join(cnames, "\n"), "\ntotal", total)
		for _, ci := range []int{1, 2, 3, 4} {
			for _, i := range []int{0, 7, sp.classes[ci].N / 2, sp.classes[ci].N - 1} {
				fmt.Printf("%s[%d] = %q\n", sp.classes[ci].Name, i, sp.classes[ci].Gen(i))
			}
		}
		os.Exit(0)
	}
	r.Extra("inputs", total)
	r.Assume("a call that has not returned after 30 s on an input below 1 KB (normal cost: microseconds; loader ~0.1 s) does not terminate in time bounded by the input size")
	r.Assume("loader.LoadProgramFile on an input rejected by its parser or by types.Config.Check only repeats that call (loader.go: ParseDir / Import return the error); such inputs reach the parser and the type checker directly instead")
	r.Assume("workers run in an empty working directory: no wa.mod, no files to embed or .incbin")

	// 1. preflight: one job per (entry point, variant) on the simplest inputs, so a pervasive hang
	// costs one horizon for all variants together
	var pre []Job
	for ci := 0; ci < sp.nPreClasses; ci++ {
		for u := range units {
			for sub := range units[u].Subs {
				j := Job{Thorough: thorough, Class: ci, From: 0, To: sp.classes[ci].N, Unit: u, Subs: []int{sub}}
				if u == uLoader {
					if ci > 0 {
						continue // the loader gets these classes through the candidates of types.Check
					}
					j.Idxs = []int{0}
					for i := range sp.seeds {
						j.Idxs = append(j.Idxs, 257+i)
					}
				}
				pre = append(pre, j)
			}
		}
	}
	phase := func(name string, t0 time.Time) {
		r.Extra("phase_"+name+"_s", float64(int(time.Since(t0).Seconds()*10))/10)
		if os.Getenv("C08_VERBOSE") != "" {
			fmt.Fprintf(os.Stderr, "c08: phase %s %.1fs (total %.1fs)\n", name, time.Since(t0).Seconds(), time.Since(tStart).Seconds())
		}
	}
	t0 := time.Now()
	s.runRounds(pre)
	phase("preflight", t0)

	// 2. main enumeration
	const batch = 400
	var jobs []Job
	for ci := sp.nPreClasses; ci < len(sp.classes); ci++ {
		c := sp.classes[ci]
		us := c.Units
		if us == nil {
			us = []int{uFormat, uSyntax, uParserWa, uParserWz, uWat, uNative, uTypes}
		}
		for from := 0; from < c.N; from += batch {
			to := min(from+batch, c.N)
			for _, u := range us {
				j := Job{Thorough: thorough, Class: ci, From: from, To: to, Unit: u}
				for sub := range units[u].Subs {
					j.Subs = append(j.Subs, sub)
				}
				jobs = append(jobs, j)
			}
		}
	}
	t0 = time.Now()
	s.runRounds(jobs)
	phase("enumeration", t0)

	// 3. the real loader on the candidates (x.wa, x.wz)
	for _, c := range s.candByHash {
		s.cands[int(c[0])] = append(s.cands[int(c[0])], c[1])
	}
	r.Extra("loader_candidates_before_dedup", s.nCandRaw)
	var ljobs []Job
	ncand := 0
	for ci := 0; ci < len(sp.classes); ci++ {
		cs := s.cands[ci]
		sort.Slice(cs, func(i, j int) bool { return cs[i] < cs[j] })
		for sub := 0; sub < 2; sub++ {
			var idxs []int
			for _, c := range cs {
				if int(c%64) == sub {
					idxs = append(idxs, int(c/64))
				}
			}
			ncand += len(idxs)
			for from := 0; from < len(idxs); from += 8 {
				ljobs = append(ljobs, Job{Thorough: thorough, Class: ci, Idxs: idxs[from:min(from+8, len(idxs))], Unit: uLoader, Subs: []int{sub}})
			}
		}
	}
	r.Extra("loader_candidates", ncand)
	byClass := map[string]int{}
	for ci, cs := range s.cands {
		byClass[sp.classes[ci].Name] = len(cs)
	}
	r.Extra("loader_candidates_by_class", byClass)
	if os.Getenv("C08_SKIP_LOADER") != "" {
		ljobs = nil
	}
	t0 = time.Now()
	s.runRounds(ljobs)
	phase("loader", t0)
	t0 = time.Now()
	s.confirmWG.Wait()
	phase("confirm_wait", t0)
	t0 = time.Now()

	// 4. a types.Check panic that the loader reproduces is the loader's finding
	for k, f := range s.findings {
		if f.Unit == uTypes {
			g := *f
			g.Unit = uLoader
			if _, ok := s.findings[g.key()]; ok {
				delete(s.findings, k)
			}
		}
	}

	// 5. confirm the smallest witness of every class 5x alone in fresh workers
	var keys []string
	for k := range s.findings {
		keys = append(keys, k)
	}
	sort.Strings(keys)
	var todo []string
	for _, k := range keys {
		f := s.findings[k]
		if h, ok := s.confirmedHang[k]; ok {
			// a hang costs a full horizon to re-observe: report the witness that was confirmed (the first
			// one observed, i.e. the simplest of its job) instead of confirming a second one
			hh := h
			s.findings[k] = &hh
			continue
		}
		if !s.confirmed[k+fmt.Sprintf("#%d/%d/%d", f.Class, f.Idx, f.Sub)] {
			todo = append(todo, k)
		}
	}
	okCount := map[string]int{}
	var cmu sync.Mutex
	mc.RunPool(mc.NWorkers(), len(todo)*5, func(i int) interface{} {
		f := s.findings[todo[i/5]]
		return s.single(f.Class, f.Idx, f.Unit, f.Sub, filepath.Join(tmp, fmt.Sprintf("final-%d.stderr", i)))
	}, blockedHorizon+60*time.Second, workerEnv, func(res mc.Result) {
		k := todo[res.Index/5]
		f := s.findings[k]
		good := false
		switch f.Kind {
		case "panic":
			var jr JobResult
			if res.Status == "ok" && json.Unmarshal(res.Out, &jr) == nil {
				for _, p := range jr.Panics {
					if p.key() == k {
						good = true
					}
				}
			}
		case "hang":
			if res.Status == "crash" {
				data, _ := os.ReadFile(filepath.Join(tmp, fmt.Sprintf("final-%d.stderr", res.Index)))
				if h := parseHang(string(data)); h != nil && h.Idx == f.Idx && h.Sub == f.Sub {
					good = true
				}
			}
		default:
			if res.Status == "crash" {
				data, _ := os.ReadFile(filepath.Join(tmp, fmt.Sprintf("final-%d.stderr", res.Index)))
				kind, msg, loc := classifyCrash(string(data))
				good = kind == f.Kind && msg == f.Msg && loc == f.Loc
			}
		}
		if good {
			cmu.Lock()
			okCount[k]++
			cmu.Unlock()
		}
	})
	phase("final_confirm", t0)
	for _, k := range todo {
		if okCount[k] != 5 {
			r.HarnessError("finding %q reproduced only %d/5 times alone", k, okCount[k])
			delete(s.findings, k)
		}
	}

	for _, k := range keys {
		f, ok := s.findings[k]
		if !ok {
			continue
		}
		if strings.Contains(f.Msg, "cN-harness") || strings.Contains(f.Raw, "c08-harness") {
			r.HarnessError("%s", f.Raw)
			continue
		}
		in := s.input(f.Class, f.Idx)
		u := units[f.Unit]
		what := fmt.Sprintf("%s [%s] on %s (%d bytes): %s %s at %s", u.Name, u.Subs[f.Sub].Label, truncate(fmt.Sprintf("%q", in), 90), len(in), f.Kind, f.Msg, f.Loc)
		r.Report(k, what, map[string]interface{}{
			"entry": u.Name, "variant": u.Subs[f.Sub].Label, "input": string(in), "input_hex": hex.EncodeToString(in),
			"class": sp.classes[f.Class].Name, "index": f.Idx, "kind": f.Kind, "message": f.Msg, "location": f.Loc, "detail": f.Raw,
		})
	}
	per := map[string]int64{}
	for u := range units {
		per[units[u].Name] = s.evalsUnit[u].Load()
	}
	r.Extra("calls_per_entry_point", per)
	r.Extra("crash_bisections", s.nCrashBis)
	r.Sample(map[string]interface{}{"class": sp.classes[3].Name, "index": 40, "input": string(sp.classes[3].Gen(40))})
	r.Sample(map[string]interface{}{"class": sp.classes[len(sp.classes)-1].Name, "index": 5, "input": string(sp.classes[len(sp.classes)-1].Gen(5))})
	if r.DistinctCount() < 40 {
		r.HarnessError("vacuous: only %d distinct outcome classes", r.DistinctCount())
	}
	for u := range units {
		dropped := false
		for sub := range units[u].Subs {
			dropped = dropped || s.disabled[[2]int{u, sub}]
		}
		// (an entry point whose variants were all dropped after hangs is reported as violations + caps)
		if s.evalsUnit[u].Load() == 0 && !dropped {
			r.HarnessError("vacuous: entry point %s was never called", units[u].Name)
		}
	}
	s.pool.Close()
	var ru syscall.Rusage
	if syscall.Getrusage(syscall.RUSAGE_CHILDREN, &ru) == nil {
		r.Extra("worker_cpu_s", int(ru.Utime.Sec+ru.Stime.Sec))
	}
	os.RemoveAll(tmp)
	r.Finish()
}
