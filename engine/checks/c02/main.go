//go:build go1.21

// C02: native linux/x64 executables behave like the WebAssembly build. The program families of
// C01 are compiled twice from the same source by the real tool chain: to wasm (run on the embedded
// engine: the reference the property names) and through `wa native build --arch=x64` to an ELF
// executable that is executed as a process; printed output and normal termination must agree item
// by item.
package main

import (
	"fmt"
	"os"
	"os/exec"
	"path/filepath"

	"wa-lang.org/wa/internal/zzverif/mc"
	"wa-lang.org/wa/internal/zzverif/progs"
)

func main() {
	if mc.IsWorker() {
		mc.WorkerMain(progs.HandleJob)
		return
	}
	r := mc.Start("C02")
	r.Rule("complete enumeration of the C01 program families; each program is built as wasm (reference, embedded engine) and as a linux/x64 executable by `wa native build` (gcc-free path: wat2x64 + Wa's assembler and linker as the CLI selects), run as a process; items compared one by one; distinct = distinct item outputs")
	r.Assume("the reference is the wasm build of the same program on the embedded runtime, as the property states; items on which the reference terminates abnormally are outside the domain")
	r.Assume("only linux/x64 is executed (this host); Windows PE output is not run")
	tmp, err := os.MkdirTemp("", "c02-")
	if err != nil {
		r.HarnessError("%v", err)
		r.Finish()
	}
	defer os.RemoveAll(tmp)
	waBin := filepath.Join(tmp, "wa")
	b := exec.Command("go", "build", "-o", waBin, ".")
	b.Dir = mc.RepoDir()
	b.Env = append(os.Environ(), "GOFLAGS=-mod=mod", "GOPROXY=off", "GOSUMDB=off", "GOTOOLCHAIN=local")
	if out, err := b.CombinedOutput(); err != nil {
		r.HarnessError("building the wa CLI failed: %v\n%s", err, out)
		r.Finish()
	}
	pool := mc.NewPool(mc.NWorkers(), []string{"VERIF_WA_BIN=" + waBin})
	types := progs.IntTypes
	fams := []progs.Family{progs.FamIntBinary(types), progs.FamIntUnary(types), progs.FamShift(types), progs.FamIntConv(types), progs.FamFloat(types)}
	if f := os.Getenv("C02_FAMILY"); f != "" {
		var sel []progs.Family
		for _, x := range fams {
			if x.Name == f {
				sel = append(sel, x)
			}
		}
		fams = sel
	}
	progs.Run(r, pool, fams, progs.Options{CasesPerProgram: 40, KeyPrefix: "C02", Ref: "wa", Impl: "native"})
	pool.Close()
	if r.Evals.Load() == 0 {
		r.HarnessError("vacuous: no item was evaluated")
	}
	fmt.Fprintln(os.Stderr, "[c02] done")
	r.Extra("skipped_same_key_after_build_failure", progs.SkippedSameKey())
	r.Finish()
}
