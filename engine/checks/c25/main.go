//go:build go1.21

// C25: SLIP / SLIPMUX framing delivers exactly the packets that were sent, whatever the
// transport's read chunking. Bounded-exhaustive: every packet sequence of the stated space is
// written with the real writers (slip.Writer / slip.SlipMuxWriter) into a byte stream; that stream
// is read back with the real readers through a transport the check controls, once per chunking
// with at most 2 split points plus the all-one-byte chunking. The wire stream is additionally
// decoded by an independent RFC 1055 / RFC 1662 reference (split at END, unstuff, bitwise
// CRC-16/X.25); that reference never decides a violation, it only attributes a failed round trip
// to the writer or to the reader so that the two get different keys.
package main

import (
	"bytes"
	"encoding/hex"
	"fmt"
	"runtime/debug"
	"sort"
	"strings"
	"sync"

	"wa-lang.org/wa/internal/3rdparty/slip"
	"wa-lang.org/wa/internal/zzverif/chunkio"
	"wa-lang.org/wa/internal/zzverif/mc"
)

const (
	cEND    = 0xC0
	cESC    = 0xDB
	cESCEND = 0xDC
	cESCESC = 0xDD
)

var alphabet = []byte{0x01, cEND, cESC, cESCEND, cESCESC, 0x0A, 0x45, 0xA9}

// kinds: 'P' plain SLIP (slip.Writer/slip.Reader), 'D' diagnostic, 'C' CoAP, '4' IPv4, '6' IPv6
// (slip.SlipMuxWriter/SlipMuxReader).
type pkt struct {
	Kind    byte
	Frame   byte // frame type handed to SlipMuxWriter.WritePacket (unused for 'P')
	Payload []byte
}

func kindName(k byte) string {
	switch k {
	case 'P':
		return "plain"
	case 'D':
		return "diagnostic"
	case 'C':
		return "coap"
	case '4':
		return "ipv4"
	case '6':
		return "ipv6"
	}
	return "?"
}

func (p pkt) String() string {
	if p.Kind == 'P' {
		return "plain[" + hex.EncodeToString(p.Payload) + "]"
	}
	return fmt.Sprintf("%s(frame=%02x)[%s]", kindName(p.Kind), p.Frame, hex.EncodeToString(p.Payload))
}

func seqString(s []pkt) string {
	parts := make([]string, len(s))
	for i, p := range s {
		parts[i] = p.String()
	}
	return strings.Join(parts, " ")
}

// words returns alphabet^n in index-lexicographic order.
func words(n int) [][]byte {
	out := [][]byte{{}}
	for i := 0; i < n; i++ {
		var next [][]byte
		for _, w := range out {
			for _, a := range alphabet {
				next = append(next, append(append([]byte(nil), w...), a))
			}
		}
		out = next
	}
	return out
}

// plainOfSize / muxOfSize: the packets of "size" s (1..3) that sequences are built from.
//   P, D : payload in alphabet^s
//   4, 6 : payload = version byte (first and last of the documented range) ++ alphabet^(s-1)
//   C    : alphabet^s padded with 0x01 to the 4-byte CoAP minimum, padding in front and behind
func plainOfSize(s int) []pkt {
	var out []pkt
	for _, w := range words(s) {
		out = append(out, pkt{'P', 0, w})
	}
	return out
}

func muxOfSize(s int) []pkt {
	var out []pkt
	for _, w := range words(s) {
		out = append(out, pkt{'D', slip.FRAME_DIAGNOSTIC, w})
	}
	seen := map[string]bool{}
	for _, w := range words(s) {
		pad := bytes.Repeat([]byte{0x01}, 4-s)
		for _, p := range [][]byte{append(append([]byte(nil), w...), pad...), append(append([]byte(nil), pad...), w...)} {
			if !seen[string(p)] {
				seen[string(p)] = true
				out = append(out, pkt{'C', slip.FRAME_COAP, p})
			}
		}
	}
	for _, v := range []byte{slip.FRAME_IPV4_START, slip.FRAME_IPV4_END} {
		for _, w := range words(s - 1) {
			out = append(out, pkt{'4', v, append([]byte{v}, w...)})
		}
	}
	for _, v := range []byte{slip.FRAME_IPV6_START, slip.FRAME_IPV6_END} {
		for _, w := range words(s - 1) {
			out = append(out, pkt{'6', v, append([]byte{v}, w...)})
		}
	}
	return out
}

// ---------------------------------------------------------------------------------------------
// independent reference: RFC 1055 de-framing and RFC 1662 FCS-16 (= CRC-16/X.25, bitwise)

func refDeframe(stream []byte) (pkts [][]byte, ok bool) {
	var cur []byte
	esc := false
	for _, b := range stream {
		switch {
		case esc:
			esc = false
			switch b {
			case cESCEND:
				cur = append(cur, cEND)
			case cESCESC:
				cur = append(cur, cESC)
			default:
				return nil, false // the writer must never emit ESC x
			}
		case b == cESC:
			esc = true
		case b == cEND:
			if len(cur) > 0 {
				pkts = append(pkts, cur)
				cur = nil
			}
		default:
			cur = append(cur, b)
		}
	}
	if esc || len(cur) > 0 {
		return nil, false // unterminated packet
	}
	return pkts, true
}

func crcX25(data []byte) uint16 {
	crc := uint16(0xFFFF)
	for _, b := range data {
		crc ^= uint16(b)
		for i := 0; i < 8; i++ {
			if crc&1 != 0 {
				crc = crc>>1 ^ 0x8408
			} else {
				crc >>= 1
			}
		}
	}
	return ^crc
}

// refMux interprets one de-framed SLIPMUX packet.
func refMux(raw []byte) (kind byte, frame byte, payload []byte, ok bool) {
	if len(raw) == 0 {
		return 0, 0, nil, false
	}
	f := raw[0]
	switch {
	case f >= 0x45 && f <= 0x4f:
		return '4', f, raw, true
	case f >= 0x60 && f <= 0x6f:
		return '6', f, raw, true
	case f == 0xA9:
		if len(raw) < 7 {
			return 0, 0, nil, false
		}
		body, fcs := raw[:len(raw)-2], raw[len(raw)-2:]
		c := crcX25(body)
		if fcs[0] != byte(c) || fcs[1] != byte(c>>8) {
			return 0, 0, nil, false
		}
		return 'C', f, body[1:], true
	case f == 0x0A:
		return 'D', f, raw[1:], true
	}
	return 0, 0, nil, false
}

// ---------------------------------------------------------------------------------------------

type failure struct {
	side  string // "writer" or "reader"
	frame string
	kind  string
	chunk string
	what  string
}

// key is the canonical defect class: which side, which stream flavour (plain SLIP / SLIPMUX), the
// symptom family and whether the failure needs a split read. Frame type, exact symptom and the
// input are in the witness text only, so one defect yields a handful of keys.
func (f failure) key() string {
	stream := "mux"
	if f.frame == "plain" {
		stream = "plain"
	}
	fam := "wrong-content"
	switch f.kind {
	case "error", "incomplete", "lost":
		fam = "not-delivered"
	case "panic":
		fam = "panic"
	}
	if f.side == "writer" {
		if f.kind == "error" || f.kind == "panic" {
			return "writer|" + stream + "|" + f.kind
		}
		return "writer|" + stream + "|wire-stream-differs"
	}
	return "reader|" + stream + "|" + fam + "|" + f.chunk
}

func cmpPayload(got, want []byte) string {
	switch {
	case len(got) < len(want):
		return "payload-shorter"
	case len(got) > len(want):
		return "payload-longer"
	}
	return "payload-altered"
}

// writeStream runs the real writer over the sequence.
func writeStream(seq []pkt, plain bool) (stream []byte, fail *failure) {
	var buf bytes.Buffer
	i := 0
	p := mc.Recover(func() {
		if plain {
			w := slip.NewWriter(&buf)
			for i = 0; i < len(seq); i++ {
				if err := w.WritePacket(seq[i].Payload); err != nil {
					fail = &failure{side: "writer", frame: kindName(seq[i].Kind), kind: "error", what: err.Error()}
					return
				}
			}
		} else {
			w := slip.NewSlipMuxWriter(&buf)
			for i = 0; i < len(seq); i++ {
				// the writer may append to its argument: hand it a private copy
				arg := append(make([]byte, 0, len(seq[i].Payload)), seq[i].Payload...)
				if err := w.WritePacket(seq[i].Frame, arg); err != nil {
					fail = &failure{side: "writer", frame: kindName(seq[i].Kind), kind: "error", what: err.Error()}
					return
				}
			}
		}
	})
	if p != "" {
		k := seq[min(i, len(seq)-1)].Kind
		return nil, &failure{side: "writer", frame: kindName(k), kind: "panic", what: p}
	}
	return buf.Bytes(), fail
}

// refCheck compares the wire stream, decoded by the reference, with what was sent.
func refCheck(seq []pkt, plain bool, stream []byte) *failure {
	raws, ok := refDeframe(stream)
	if !ok {
		return &failure{side: "writer", frame: kindName(seq[0].Kind), kind: "malformed-stream", what: "wire stream is not a sequence of well-formed SLIP packets: " + hex.EncodeToString(stream)}
	}
	if len(raws) != len(seq) {
		return &failure{side: "writer", frame: kindName(seq[0].Kind), kind: "packet-count", what: fmt.Sprintf("wire stream %x holds %d packets, %d were written", stream, len(raws), len(seq))}
	}
	for i, raw := range raws {
		want := seq[i]
		fr := kindName(want.Kind)
		if plain {
			if !bytes.Equal(raw, want.Payload) {
				return &failure{side: "writer", frame: fr, kind: cmpPayload(raw, want.Payload), what: fmt.Sprintf("packet %d on the wire (%x) decodes to %x, written %x", i, stream, raw, want.Payload)}
			}
			continue
		}
		k, f, pl, ok := refMux(raw)
		switch {
		case !ok:
			return &failure{side: "writer", frame: fr, kind: "bad-mux-packet", what: fmt.Sprintf("packet %d on the wire de-frames to %x: no valid frame type / FCS", i, raw)}
		case k != want.Kind || f != want.Frame:
			return &failure{side: "writer", frame: fr, kind: "frame-differs", what: fmt.Sprintf("packet %d on the wire has frame %02x, written %02x", i, f, want.Frame)}
		case !bytes.Equal(pl, want.Payload):
			return &failure{side: "writer", frame: fr, kind: cmpPayload(pl, want.Payload), what: fmt.Sprintf("packet %d on the wire decodes to %x, written %x", i, pl, want.Payload)}
		}
	}
	return nil
}

// readBack runs the real reader over stream under one chunking.
func readBack(seq []pkt, plain bool, cr *chunkio.Reader) (fail *failure) {
	i := 0
	var perr interface{}
	func() {
		defer func() { perr = recover() }()
		if plain {
			rd := slip.NewReader(cr)
			for i = 0; i < len(seq); i++ {
				p, isPrefix, err := rd.ReadPacket()
				switch {
				case err != nil:
					fail = &failure{kind: "error", what: fmt.Sprintf("packet %d: ReadPacket error %v (partial %x)", i, err, p)}
				case isPrefix:
					fail = &failure{kind: "incomplete", what: fmt.Sprintf("packet %d: ReadPacket returned isPrefix=true with %x", i, p)}
				case !bytes.Equal(p, seq[i].Payload):
					fail = &failure{kind: cmpPayload(p, seq[i].Payload), what: fmt.Sprintf("packet %d: read %x, written %x", i, p, seq[i].Payload)}
				}
				if fail != nil {
					return
				}
			}
		} else {
			rd := slip.NewSlipMuxReader(cr)
			for i = 0; i < len(seq); i++ {
				p, ft, err := rd.ReadPacket()
				switch {
				case err != nil:
					fail = &failure{kind: "error", what: fmt.Sprintf("packet %d: ReadPacket error %v", i, err)}
				case ft != seq[i].Frame:
					fail = &failure{kind: "frame-differs", what: fmt.Sprintf("packet %d: read frame %02x payload %x, written frame %02x payload %x", i, ft, p, seq[i].Frame, seq[i].Payload)}
				case !bytes.Equal(p, seq[i].Payload):
					fail = &failure{kind: cmpPayload(p, seq[i].Payload), what: fmt.Sprintf("packet %d: read %x, written %x", i, p, seq[i].Payload)}
				}
				if fail != nil {
					return
				}
			}
		}
	}()
	if perr != nil {
		if pe, ok := perr.(chunkio.PastEnd); ok {
			fail = &failure{kind: "lost", what: fmt.Sprintf("packet %d never delivered: %v", i, pe)}
		} else {
			fail = &failure{kind: "panic", what: fmt.Sprintf("packet %d: panic %v", i, perr)}
		}
	}
	if fail != nil {
		fail.side = "reader"
		fail.frame = kindName(seq[min(i, len(seq)-1)].Kind)
	}
	return fail
}

// ---------------------------------------------------------------------------------------------
// deterministic witness selection: smallest (job, inner, chunking) rank per key

type witness struct {
	rank   [3]int64
	what   string
	replay interface{}
}

type collector struct {
	mu sync.Mutex
	m  map[string]*witness
}

func less(a, b [3]int64) bool {
	for i := range a {
		if a[i] != b[i] {
			return a[i] < b[i]
		}
	}
	return false
}

func (c *collector) add(key string, rank [3]int64, what string, replay interface{}) {
	c.mu.Lock()
	defer c.mu.Unlock()
	if w, ok := c.m[key]; ok && !less(rank, w.rank) {
		return
	}
	c.m[key] = &witness{rank, what, replay}
}

type job struct {
	plain  bool
	prefix []pkt
	last   []pkt
}

func main() {
	// tiny short-lived allocations only: collect when the heap reaches the limit, not every few MB
	debug.SetGCPercent(-1)
	debug.SetMemoryLimit(768 << 20)
	r := mc.Start("C25")
	r.Rule("every packet sequence of the bounded space is written by the real SLIP/SLIPMUX writer and read back by the real reader once per read-chunking (<=2 split points, plus one-byte reads); evaluations = (sequence, chunking) executions; distinct_nontrivial = distinct wire-shape classes (frame kinds, per-packet wire length and number of stuffed bytes) among sequences that contain a stuffed byte or more than one packet")
	if msg := chunkio.SelfTest(); msg != "" {
		r.HarnessError("%s", msg)
		r.Finish()
	}
	if crcX25([]byte("123456789")) != 0x906E {
		r.HarnessError("reference CRC-16/X.25 check value wrong")
		r.Finish()
	}

	maxSplits := 2
	// 2-packet sequences: sum of the two packet sizes <= this (6 = all of 1..3 x 1..3)
	pairTotalPlain := mc.Pick(r, 5, 6)
	pairTotalMux := mc.Pick(r, 4, 6)
	tripleTotal := mc.Pick(r, 0, 4) // 3-packet sequences: sum of packet sizes <= this (0 = none)
	coapSingleMax := mc.Pick(r, 4, 5)
	r.Bound("alphabet", "01 c0(END) db(ESC) dc(ESC_END) dd(ESC_ESC) 0a 45 a9")
	r.Bound("packet_size", "1..3 bytes (plain, diagnostic); version byte + 0..2 bytes (IPv4 45/4f, IPv6 60/6f); CoAP: 1..3 alphabet bytes padded with 01 in front / behind to 4 bytes")
	r.Bound("single_packet_coap_payload_len", fmt.Sprintf("4..%d, all of alphabet^len", coapSingleMax))
	r.Bound("pair_total_size_max", map[string]int{"plain": pairTotalPlain, "mux": pairTotalMux})
	r.Bound("triple_total_size_max", tripleTotal)
	r.Bound("max_split_points", maxSplits)
	r.Bound("frame_mixing", "a stream is either all plain SLIP or SLIPMUX with every per-packet combination of {diagnostic, CoAP, IPv4, IPv6}")
	r.Assume("payloads are non-empty (property statement); a stream is written by one writer and read by the matching reader (plain: slip.Writer/slip.Reader; mux: SlipMuxWriter/SlipMuxReader) - slipmux.go: 'To not use any Frame identifiers use SlipWriter directly'")
	r.Assume("IP frames: the frame argument equals the payload's first byte (version byte 0x45..0x4f / 0x60..0x6f): slipmux.go 'IPV4 and IPV6 frames are not prepended as specified', reader returns res[0] as frame type")
	r.Assume("CoAP payloads are >= 4 bytes: slipmux.go 'smallest CoAP message is frameType + 4 byte + 2 byte CRC = 7 bytes', shorter ones are dropped by the reader by design")
	r.Assume("frame types END, ESC and 0 are invalid by isInvalidFrame and not generated")
	r.Assume("transport: every Read returns >= 1 byte until the end of the stream, then (0, io.EOF); zero-length reads and (n>0, io.EOF) are not 'splitting the stream into reads' (the reader loses its ESC state across them; noted, not claimed)")
	r.Assume("exactly as many packets are requested as were written: SlipMuxReader.ReadPacket deliberately spins on io.EOF ('must be handled via Timeout in the application'); a reader that reaches the end of the stream before delivering a written packet is reported as 'lost' via a controlled panic from the transport after 2 EOF results")

	var plainBy, muxBy [4][]pkt
	for s := 1; s <= 3; s++ {
		plainBy[s] = plainOfSize(s)
		muxBy[s] = muxOfSize(s)
	}
	r.Bound("packets_per_size_plain", []int{len(plainBy[1]), len(plainBy[2]), len(plainBy[3])})
	r.Bound("packets_per_size_mux", []int{len(muxBy[1]), len(muxBy[2]), len(muxBy[3])})

	// job list, simplest first
	var jobs []job
	chunked := func(plain bool, ps []pkt) {
		for i := 0; i < len(ps); i += 128 {
			jobs = append(jobs, job{plain: plain, last: ps[i:min(i+128, len(ps))]})
		}
	}
	for s := 1; s <= 3; s++ {
		chunked(true, plainBy[s])
		chunked(false, muxBy[s])
	}
	for n := 4; n <= coapSingleMax; n++ {
		var ps []pkt
		for _, w := range words(n) {
			ps = append(ps, pkt{'C', slip.FRAME_COAP, w})
		}
		chunked(false, ps)
	}
	for total := 2; total <= max(pairTotalPlain, pairTotalMux); total++ {
		for s1 := 1; s1 <= 3; s1++ {
			s2 := total - s1
			if s2 < 1 || s2 > 3 {
				continue
			}
			for _, plain := range []bool{true, false} {
				by, lim := &muxBy, pairTotalMux
				if plain {
					by, lim = &plainBy, pairTotalPlain
				}
				if total > lim {
					continue
				}
				for _, a := range by[s1] {
					jobs = append(jobs, job{plain: plain, prefix: []pkt{a}, last: by[s2]})
				}
			}
		}
	}
	for total := 3; total <= tripleTotal; total++ {
		for s1 := 1; s1 <= 3; s1++ {
			for s2 := 1; s2 <= 3; s2++ {
				s3 := total - s1 - s2
				if s3 < 1 || s3 > 3 {
					continue
				}
				for _, plain := range []bool{true, false} {
					by := &muxBy
					if plain {
						by = &plainBy
					}
					for _, a := range by[s1] {
						for _, b := range by[s2] {
							jobs = append(jobs, job{plain: plain, prefix: []pkt{a, b}, last: by[s3]})
						}
					}
				}
			}
		}
	}
	r.Bound("jobs", len(jobs))

	col := &collector{m: map[string]*witness{}}
	var seqCount, byLen [4]int64
	var nonconformant int64
	var cntMu sync.Mutex
	kindsSeen := map[byte]bool{}

	mc.ParallelFor(len(jobs), func(ji int) {
		if r.Expired() {
			r.Cap("deadline")
			return
		}
		jb := jobs[ji]
		var cr chunkio.Reader
		cr.MaxEOF = 2
		seq := make([]pkt, len(jb.prefix)+1)
		copy(seq, jb.prefix)
		localSig := map[string]struct{}{}
		var evals, nseq, nonconf int64
		localKinds := map[byte]bool{}
		for li, last := range jb.last {
			seq[len(seq)-1] = last
			nseq++
			rank := func(ci int64) [3]int64 { return [3]int64{int64(ji), int64(li), ci} }
			replay := func(stream []byte, cuts []int, ones bool) map[string]interface{} {
				ps := make([]map[string]interface{}, len(seq))
				for i, p := range seq {
					ps[i] = map[string]interface{}{"kind": kindName(p.Kind), "frame": p.Frame, "payload_hex": hex.EncodeToString(p.Payload)}
				}
				return map[string]interface{}{"packets": ps, "stream_hex": hex.EncodeToString(stream), "split_points": append([]int{}, cuts...), "one_byte_reads": ones}
			}
			stream, wf := writeStream(seq, jb.plain)
			evals++
			if wf != nil {
				col.add(wf.key(), rank(-1), fmt.Sprintf("%s: %s", seqString(seq), wf.what), replay(stream, nil, false))
				localSig["writer-fault:"+wf.kind] = struct{}{}
				continue
			}
			// The reference decoding of the wire stream never decides a violation (the property is
			// about the round trip); it only attributes a failed round trip to the writer or reader.
			ref := refCheck(seq, jb.plain, stream)
			if ref != nil {
				nonconf++
			}
			// wire-shape class of the sequence
			stuffed := 0
			for _, b := range stream {
				if b == cESC {
					stuffed++
				}
			}
			if stuffed > 0 || len(seq) > 1 {
				var sb strings.Builder
				off := 0
				for _, p := range seq {
					localKinds[p.Kind] = true
					// wire length of this packet = up to and including its closing END
					end := off + 1
					esc := 0
					for end < len(stream) && stream[end] != cEND {
						if stream[end] == cESC {
							esc++
						}
						end++
					}
					fmt.Fprintf(&sb, "%c%d/%d ", p.Kind, end+1-off, esc)
					off = end + 1
				}
				localSig[sb.String()] = struct{}{}
			}
			if r.WantSample() {
				r.Sample(map[string]interface{}{"sequence": seqString(seq), "wire_hex": hex.EncodeToString(stream), "chunkings": chunkio.Count(len(stream), maxSplits)})
			}
			ci := int64(0)
			unsplitFailed := false
			chunkio.ForEach(len(stream), maxSplits, func(cuts []int, ones bool) bool {
				cr.Reset(stream, cuts, ones)
				evals++
				f := readBack(seq, jb.plain, &cr)
				if f != nil {
					if len(cuts) == 0 && !ones {
						unsplitFailed = true
					}
					f.chunk = "only-when-split"
					if unsplitFailed {
						f.chunk = "any-chunking"
					}
					key, what := f.key(), f.what
					if ref != nil {
						key, what = ref.key(), ref.what+"; the reader then: "+f.what
					}
					col.add(key, rank(ci), fmt.Sprintf("%s, reads %s %v: %s", seqString(seq), chunkio.Class(cuts, ones), cuts, what), replay(stream, cuts, ones))
					localSig["fault:"+f.kind] = struct{}{}
					return false
				}
				ci++
				return true
			})
		}
		r.Evals.Add(evals)
		for s := range localSig {
			r.Distinct(s)
		}
		cntMu.Lock()
		seqCount[len(seq)] += nseq
		byLen[len(seq)] += evals
		nonconformant += nonconf
		for k := range localKinds {
			kindsSeen[k] = true
		}
		cntMu.Unlock()
	})

	r.Extra("sequences_by_packet_count", map[string]int64{"1": seqCount[1], "2": seqCount[2], "3": seqCount[3]})
	r.Extra("sequences_whose_wire_stream_the_reference_decodes_differently", nonconformant)
	r.Extra("executions_by_packet_count", map[string]int64{"1": byLen[1], "2": byLen[2], "3": byLen[3]})
	keys := make([]string, 0, len(col.m))
	for k := range col.m {
		keys = append(keys, k)
	}
	sort.Strings(keys)
	for _, k := range keys {
		w := col.m[k]
		r.Report(k, w.what, w.replay)
	}
	if len(keys) == 0 {
		for _, k := range []byte{'P', 'D', 'C', '4', '6'} {
			if !kindsSeen[k] {
				r.HarnessError("vacuous: no stuffed/multi-packet sequence of kind %s was exercised", kindName(k))
			}
		}
		if r.DistinctCount() < 50 {
			r.HarnessError("vacuous: only %d distinct wire-shape classes", r.DistinctCount())
		}
	}
	r.Finish()
}
