//go:build go1.21

// C29: `wa run` exits 0 exactly when the program returns normally, with status k when the program
// calls the exit function (syscall/js.ProcExit) with k, and with a non-zero status when it panics,
// traps or does not compile.
//
// The check builds the real `wa` binary from the tree under verification (plain `go build .`, no
// overlay) and runs it as a subprocess, one temp directory per case, 16 at a time. The complete
// matrix
//
//	termination mode x place x input kind x {no program arguments, two program arguments}
//
// is enumerated (no sampling); sources are generated from (mode, place) for three notations
// (.wa, .wz, hand-written .wat); the module-directory kind puts the .wa text under
// app/src/main.wa next to a wa.mod, the .wasm kind is what `wa build prog.wa` writes.
// Only the exit status is judged. Timeouts (600 s for a ~0.3 s run) only classify hangs.
package main

import (
	"context"
	"fmt"
	"os"
	"os/exec"
	"path/filepath"
	"sort"
	"strconv"
	"strings"
	"sync"
	"sync/atomic"
	"syscall"
	"time"

	"wa-lang.org/wa/internal/zzverif/mc"
)

// ---------------------------------------------------------------------------------------------
// running the wa binary

var (
	waBin   string
	workDir string
)

// Horizons only classify hangs. A normal run costs ~0.3 s (1000x = 300 s); the horizon is 2000x.
const (
	hangHorizon      = 600 * time.Second
	hangHorizonAlone = 1200 * time.Second
)

// capBuf keeps the head and the tail of what a process printed.
type capBuf struct {
	head, tail []byte
	n          int
}

const capHead, capTail = 1200, 800

func (c *capBuf) Write(p []byte) (int, error) {
	c.n += len(p)
	q := p
	if room := capHead - len(c.head); room > 0 {
		k := min(room, len(q))
		c.head = append(c.head, q[:k]...)
		q = q[k:]
	}
	if len(q) > 0 {
		c.tail = append(c.tail, q...)
		if len(c.tail) > capTail {
			c.tail = append([]byte(nil), c.tail[len(c.tail)-capTail:]...)
		}
	}
	return len(p), nil
}

func (c *capBuf) String() string {
	if c.n <= capHead+capTail {
		return string(c.head) + string(c.tail)
	}
	return string(c.head) + fmt.Sprintf("…[%d bytes]…", c.n-capHead-len(c.tail)) + string(c.tail)
}

type procResult struct {
	Exit   int // -1: killed by signal, -2: hang
	Signal string
	Stdout string
	Stderr string
}

func buildWa(r *mc.Run) bool {
	cmd := exec.Command("go", "build", "-o", waBin, ".")
	cmd.Dir = mc.RepoDir()
	cmd.Env = append(os.Environ(), "GOFLAGS=-mod=mod", "GOPROXY=off", "GOSUMDB=off", "GOTOOLCHAIN=local")
	out, err := cmd.CombinedOutput()
	if err != nil {
		r.HarnessError("go build of the wa binary in %s failed: %v\n%s", mc.RepoDir(), err, tail(string(out), 2000))
		return false
	}
	return true
}

func tail(s string, n int) string {
	if len(s) > n {
		return "…" + s[len(s)-n:]
	}
	return s
}

func runWa(dir string, horizon time.Duration, args ...string) procResult {
	ctx, cancel := context.WithTimeout(context.Background(), horizon)
	defer cancel()
	cmd := exec.CommandContext(ctx, waBin, args...)
	cmd.Dir = dir
	cmd.Env = []string{"PATH=/usr/local/bin:/usr/bin:/bin", "HOME=" + workDir, "LANG=C.UTF-8"}
	cmd.SysProcAttr = &syscall.SysProcAttr{Setpgid: true}
	cmd.Cancel = func() error { return syscall.Kill(-cmd.Process.Pid, syscall.SIGKILL) }
	cmd.WaitDelay = 5 * time.Second
	var so, se capBuf
	cmd.Stdout, cmd.Stderr = &so, &se
	cmd.Stdin = nil
	err := cmd.Run()
	res := procResult{Stdout: so.String(), Stderr: se.String()}
	if ctx.Err() != nil {
		res.Exit = -2
		return res
	}
	if err == nil {
		return res
	}
	if ee, ok := err.(*exec.ExitError); ok {
		res.Exit = ee.ExitCode()
		if ws, ok := ee.Sys().(syscall.WaitStatus); ok && ws.Signaled() {
			res.Exit = -1
			res.Signal = ws.Signal().String()
		}
		return res
	}
	res.Exit = -3
	res.Stderr = "harness: " + err.Error()
	return res
}

// ---------------------------------------------------------------------------------------------
// the matrix

type mode struct {
	Name string // canonical name, used in keys
	K    int    // exit code for exit modes
	Cls  string // "return" | "exit" | "fail"
	Sig  string // text that shows the mode really happened (searched in stdout+stderr), "" = none
}

func exitMode(k int) mode { return mode{Name: "exit(" + strconv.Itoa(k) + ")", K: k, Cls: "exit"} }

var (
	mReturn   = mode{Name: "return", Cls: "return", Sig: ""}
	mPanic    = mode{Name: "panic", Cls: "fail", Sig: "panic: m"}
	mNil      = mode{Name: "nil-deref", Cls: "fail", Sig: "nil pointer"}
	mDiv0     = mode{Name: "trap-div0", Cls: "fail", Sig: "integer divide by zero"}
	mOOB      = mode{Name: "trap-oob", Cls: "fail", Sig: "out of bounds memory access"}
	mStack    = mode{Name: "trap-stack-exhaustion", Cls: "fail", Sig: "stack overflow"}
	mUnreach  = mode{Name: "trap-unreachable", Cls: "fail", Sig: "unreachable"}
	mCINull   = mode{Name: "trap-call_indirect-null", Cls: "fail", Sig: "invalid table access"}
	mCISig    = mode{Name: "trap-call_indirect-signature", Cls: "fail", Sig: "indirect call type mismatch"}
	mCIRange  = mode{Name: "trap-call_indirect-range", Cls: "fail", Sig: "invalid table access"}
	mSyntax   = mode{Name: "compile-syntax", Cls: "fail"}
	mType     = mode{Name: "compile-type", Cls: "fail"}
	mMissing  = mode{Name: "missing-file", Cls: "fail"}
	exitCodes = []int{0, 1, 2, 3, 255}
)

const (
	pMain     = "main"
	pInit     = "init"
	pNested   = "nested"
	pDeferred = "deferred" // .wat: reached through call_indirect (what a compiled defer does)
	pOutput   = "after-output"
	pStartExp = "_start-export" // .wat only: wazero runs an exported _start on instantiation
	pNone     = "-"
)

var srcPlaces = []string{pMain, pInit, pNested, pDeferred, pOutput}

const (
	kWa   = ".wa"
	kWz   = ".wz"
	kDir  = "dir"
	kWat  = ".wat"
	kWasm = ".wasm"
	// thorough only
	kWasmWz  = ".wasm(from .wz)"
	kWatBld  = ".wat(from wa build)"
	kDirWz   = "dir(.wz)"
	kWasmDir = ".wasm(from dir)"
)

type caseSpec struct {
	Mode   mode
	Place  string
	Kind   string
	Args   bool
	NoVerb bool // thorough: `wa prog.wa` (the default action) instead of `wa run prog.wa`
}

func (c caseSpec) String() string {
	return fmt.Sprintf("%s|%s|%s|args=%v|noverb=%v", c.Mode.Name, c.Place, c.Kind, c.Args, c.NoVerb)
}

// Unbounded recursion with a fat frame: recLocals values stay live across the recursive call, so
// the engine's stack ceiling is reached after ~50 000 calls instead of ~800 000 and the stack
// trace wazero prints is ~1.5 MB instead of ~27 MB (the run then costs what any other run costs).
const recLocals = 48

func fatRec(head, def, call, ret, use, end string) string {
	var b strings.Builder
	b.WriteString(head + "\n")
	for i := 0; i < recLocals; i++ {
		b.WriteString("\t" + fmt.Sprintf(def, i, i+1) + "\n")
	}
	b.WriteString("\t" + call + "\n\t" + ret)
	for i := 0; i < recLocals; i++ {
		b.WriteString(" + " + fmt.Sprintf(use, i))
	}
	b.WriteString("\n" + end)
	return b.String()
}

func watRecBody() string {
	var b strings.Builder
	for i := 0; i < recLocals; i++ {
		fmt.Fprintf(&b, "        (local $v%d i32)\n", i)
	}
	for i := 0; i < recLocals; i++ {
		fmt.Fprintf(&b, "        local.get $n\n        i32.const %d\n        i32.add\n        local.set $v%d\n", i+1, i)
	}
	b.WriteString("        local.get $v0\n        call $rec\n")
	for i := 0; i < recLocals; i++ {
		fmt.Fprintf(&b, "        local.get $v%d\n        i32.add\n", i)
	}
	return b.String()
}

// ---------------------------------------------------------------------------------------------
// source generation: .wa

func waSource(m mode, place string) string {
	var pre, act []string
	switch {
	case m.Cls == "return":
	case m.Cls == "exit":
		pre = []string{`import "syscall/js"`}
		act = []string{fmt.Sprintf("js.ProcExit(%d)", m.K)}
	case m.Name == mPanic.Name:
		act = []string{`panic("m")`}
	case m.Name == mNil.Name:
		pre = []string{"type T struct { x: int }", "global gp: *T"}
		act = []string{"println(gp.x)"}
	case m.Name == mDiv0.Name:
		pre = []string{"global gz: int"}
		act = []string{"println(1/gz)"}
	case m.Name == mOOB.Name:
		pre = []string{"global gbig: int = 400000000"}
		act = []string{"s := make([]int, 2)", "println(s[gbig])"}
	case m.Name == mStack.Name:
		pre = []string{fatRec("func rec(n: int) => int {", "v%d := n + %d", "r := rec(v0)", "return r", "v%d", "}")}
		act = []string{"println(rec(0))"}
	case m.Name == mSyntax.Name:
		act = []string{"x := "}
	case m.Name == mType.Name:
		act = []string{`x: int = "s"`, "println(x)"}
	default:
		return ""
	}
	body := "\t" + strings.Join(act, "\n\t")
	var b strings.Builder
	b.WriteString("// generated by /verif C29\n\n")
	for _, p := range pre {
		b.WriteString(p + "\n\n")
	}
	switch place {
	case pMain:
		fmt.Fprintf(&b, "func main {\n%s\n\tprintln(\"done\")\n}\n", body)
	case pInit:
		fmt.Fprintf(&b, "func init {\n%s\n}\n\nfunc main {\n\tprintln(\"done\")\n}\n", body)
	case pNested:
		fmt.Fprintf(&b, "func f2 {\n%s\n}\n\nfunc f1 {\n\tf2()\n}\n\nfunc main {\n\tf1()\n\tprintln(\"done\")\n}\n", body)
	case pDeferred:
		fmt.Fprintf(&b, "func main {\n\tdefer func {\n\t%s\n\t}()\n\tprintln(\"done\")\n}\n", strings.Join(act, "\n\t\t"))
	case pOutput:
		fmt.Fprintf(&b, "func main {\n\tprintln(\"line1\")\n\tprintln(42)\n%s\n\tprintln(\"done\")\n}\n", body)
	default:
		return ""
	}
	return b.String()
}

// ---------------------------------------------------------------------------------------------
// source generation: .wz (Chinese notation)

func wzSource(m mode, place string) string {
	var pre, act []string
	switch {
	case m.Cls == "return":
	case m.Cls == "exit":
		pre = []string{`引入 "syscall/js"`}
		act = []string{fmt.Sprintf("js·ProcExit(%d)", m.K)}
	case m.Name == mPanic.Name:
		act = []string{`崩溃("m")`}
	case m.Name == mNil.Name:
		pre = []string{"结构·盒子:\n\t值: 整型\n完毕", "全局·空盒: *盒子"}
		act = []string{"输出(空盒·值)"}
	case m.Name == mDiv0.Name:
		pre = []string{"全局·零: 整型"}
		act = []string{"输出(1/零)"}
	case m.Name == mOOB.Name:
		pre = []string{"全局·远: 整型 = 400000000"}
		act = []string{"表 := 构建([]整型, 2)", "输出(表[远])"}
	case m.Name == mStack.Name:
		pre = []string{fatRec("函数·递归(甲: 整型) => 整型:", "子%d := 甲 + %d", "果 := 递归(子0)", "返回 果", "子%d", "完毕")}
		act = []string{"输出(递归(0))"}
	case m.Name == mSyntax.Name:
		act = []string{"甲 := "}
	case m.Name == mType.Name:
		act = []string{`设定·甲: 整型 = "s"`, "输出(甲)"}
	default:
		return ""
	}
	body := "\t" + strings.Join(act, "\n\t")
	if len(act) == 0 {
		body = "\t注: 无"
	}
	var b strings.Builder
	b.WriteString("注: generated by /verif C29\n\n")
	for _, p := range pre {
		b.WriteString(p + "\n\n")
	}
	switch place {
	case pMain:
		fmt.Fprintf(&b, "函数·主控:\n%s\n\t输出(\"done\")\n完毕\n", body)
	case pInit:
		fmt.Fprintf(&b, "函数·准备:\n%s\n完毕\n\n函数·主控:\n\t输出(\"done\")\n完毕\n", body)
	case pNested:
		fmt.Fprintf(&b, "函数·乙:\n%s\n完毕\n\n函数·甲甲:\n\t乙()\n完毕\n\n函数·主控:\n\t甲甲()\n\t输出(\"done\")\n完毕\n", body)
	case pDeferred:
		fmt.Fprintf(&b, "函数·收尾:\n%s\n完毕\n\n函数·主控:\n\t押后 收尾()\n\t输出(\"done\")\n完毕\n", body)
	case pOutput:
		fmt.Fprintf(&b, "函数·主控:\n\t输出(\"line1\")\n\t输出(42)\n%s\n\t输出(\"done\")\n完毕\n", body)
	default:
		return ""
	}
	return b.String()
}

// ---------------------------------------------------------------------------------------------
// source generation: hand-written .wat
//
// The function named by (start …) is always the FIRST defined function: before 072a4db watutil's
// buildStartSection resolved any start name to the first defined function (a wat2wasm defect
// outside this property), so the text is written such that this makes no difference.

const watDone = "12345"

func watSource(m mode, place string) string {
	var act string
	switch {
	case m.Cls == "return":
		act = ""
	case m.Cls == "exit":
		act = fmt.Sprintf("i32.const %d\n        call $proc_exit", m.K)
	case m.Name == mDiv0.Name:
		act = "i32.const 1\n        global.get $gz\n        i32.div_s\n        call $print_i32"
	case m.Name == mOOB.Name:
		act = "i32.const -16\n        i32.load\n        call $print_i32"
	case m.Name == mUnreach.Name:
		act = "unreachable"
	case m.Name == mStack.Name:
		act = "i32.const 0\n        call $rec\n        call $print_i32"
	case m.Name == mCINull.Name:
		act = "i32.const 2\n        call_indirect (type $v)"
	case m.Name == mCISig.Name:
		act = "i32.const 7\n        i32.const 1\n        call_indirect (type $i)\n        call $print_i32"
	case m.Name == mCIRange.Name:
		act = "i32.const 100\n        call_indirect (type $v)"
	case m.Name == mSyntax.Name:
		act = "i32.const 1\n        (drop" // unbalanced
	case m.Name == mType.Name:
		act = "i32.add\n        call $print_i32" // operands missing: fails validation
	default:
		return ""
	}
	done := "        i32.const " + watDone + "\n        call $print_i32\n        i32.const 10\n        call $print_rune\n"
	fn := func(header, body string) string { return "    (func " + header + "\n" + body + "    )\n" }
	actBody := ""
	if act != "" {
		actBody = "        " + act + "\n"
	}
	var b strings.Builder
	b.WriteString(";; generated by /verif C29\n(module\n")
	b.WriteString("    (import \"syscall_js\" \"print_i32\" (func $print_i32 (param $v i32)))\n")
	b.WriteString("    (import \"syscall_js\" \"print_rune\" (func $print_rune (param $ch i32)))\n")
	b.WriteString("    (import \"syscall_js\" \"proc_exit\" (func $proc_exit (param $code i32)))\n")
	b.WriteString("    (memory 1)\n    (table 4 funcref)\n    (global $gz (mut i32) (i32.const 0))\n")
	b.WriteString("    (type $v (func))\n    (type $i (func (param i32) (result i32)))\n")
	b.WriteString("    (elem (i32.const 1) $act)\n")
	rec := fn("$rec (param $n i32) (result i32)", watRecBody())
	switch place {
	case pMain:
		b.WriteString(fn("$_main (export \"_main\")", actBody+done))
		b.WriteString(fn("$act", ""))
	case pInit:
		b.WriteString(fn("$init", actBody))
		b.WriteString(fn("$_main (export \"_main\")", done))
		b.WriteString(fn("$act", ""))
		b.WriteString("    (start $init)\n")
	case pStartExp:
		b.WriteString(fn("$_start (export \"_start\")", actBody))
		b.WriteString(fn("$_main (export \"_main\")", done))
		b.WriteString(fn("$act", ""))
	case pNested:
		b.WriteString(fn("$_main (export \"_main\")", "        call $f1\n"+done))
		b.WriteString(fn("$f1", "        call $f2\n"))
		b.WriteString(fn("$f2", actBody))
		b.WriteString(fn("$act", ""))
	case pDeferred:
		if strings.Contains(act, "call_indirect") {
			// keep slot 1 = $act free of recursion: the action runs in $act2 at slot 3
			b.WriteString(fn("$_main (export \"_main\")", "        i32.const 3\n        call_indirect (type $v)\n"+done))
			b.WriteString(fn("$act", ""))
			b.WriteString(fn("$act2", actBody))
			b.WriteString("    (elem (i32.const 3) $act2)\n")
		} else {
			b.WriteString(fn("$_main (export \"_main\")", "        i32.const 1\n        call_indirect (type $v)\n"+done))
			b.WriteString(fn("$act", actBody))
		}
	case pOutput:
		b.WriteString(fn("$_main (export \"_main\")", "        i32.const 42\n        call $print_i32\n        i32.const 10\n        call $print_rune\n"+actBody+done))
		b.WriteString(fn("$act", ""))
	default:
		return ""
	}
	b.WriteString(rec)
	b.WriteString(")\n")
	return b.String()
}

const waMod = "# generated by /verif C29\n\nname = \"app\"\npkgpath = \"myapp\"\ntarget = \"js\"\n"

// ---------------------------------------------------------------------------------------------
// one case

type outcome struct {
	Spec   caseSpec
	Argv   []string
	Files  map[string]string
	Res    procResult
	Prep   string // non-empty: preparation (wa build) failed; harness problem
	Expect string
	Bad    bool
}

var caseSeq struct {
	sync.Mutex
	n int
}

func newCaseDir() string {
	caseSeq.Lock()
	caseSeq.n++
	n := caseSeq.n
	caseSeq.Unlock()
	d := filepath.Join(workDir, fmt.Sprintf("case%06d", n))
	os.MkdirAll(d, 0o755)
	return d
}

func writeFile(dir, name, content string) {
	p := filepath.Join(dir, name)
	os.MkdirAll(filepath.Dir(p), 0o755)
	os.WriteFile(p, []byte(content), 0o644)
}

// corrupt .wasm inputs for the two "does not compile" modes of the binary kinds
var (
	wasmGarbage    = "this is not a wasm module\n"
	wasmBadVersion = "\x00asm\x02\x00\x00\x00"
)

func runCase(c caseSpec, horizon time.Duration) (o outcome) {
	o.Spec = c
	o.Files = map[string]string{}
	dir := newCaseDir()
	defer os.RemoveAll(dir)
	put := func(name, content string) {
		o.Files[name] = content
		writeFile(dir, name, content)
	}
	var input string
	missing := c.Mode.Name == mMissing.Name
	compileErr := c.Mode.Name == mSyntax.Name || c.Mode.Name == mType.Name
	build := func(arg string) bool {
		r := runWa(dir, horizon, "build", arg)
		if r.Exit != 0 {
			o.Prep = fmt.Sprintf("`wa build %s` exit=%d stdout=%q stderr=%q", arg, r.Exit, r.Stdout, r.Stderr)
			return false
		}
		return true
	}
	switch c.Kind {
	case kWa:
		input = "prog.wa"
		if !missing {
			put(input, waSource(c.Mode, c.Place))
		}
	case kWz:
		input = "prog.wz"
		if !missing {
			put(input, wzSource(c.Mode, c.Place))
		}
	case kDir, kDirWz:
		input = "app"
		if !missing {
			put("app/wa.mod", waMod)
			if c.Kind == kDir {
				put("app/src/main.wa", waSource(c.Mode, c.Place))
			} else {
				put("app/src/main.wz", wzSource(c.Mode, c.Place))
			}
		}
	case kWat:
		input = "prog.wat"
		if !missing {
			put(input, watSource(c.Mode, c.Place))
		}
	case kWasm, kWasmWz, kWatBld, kWasmDir:
		input = "prog.wasm"
		if c.Kind == kWatBld {
			input = "prog.wat"
		}
		switch {
		case missing:
		case compileErr:
			if c.Kind == kWatBld {
				put(input, watSource(c.Mode, pMain))
			} else if c.Mode.Name == mSyntax.Name {
				put(input, wasmGarbage)
			} else {
				put(input, wasmBadVersion)
			}
		case c.Kind == kWasmDir:
			put("app/wa.mod", waMod)
			put("app/src/main.wa", waSource(c.Mode, c.Place))
			if !build("app") {
				return
			}
			input = "app/output/app.wasm"
		default:
			srcName := "prog.wa"
			if c.Kind == kWasmWz {
				srcName = "prog.wz"
				put(srcName, wzSource(c.Mode, c.Place))
			} else {
				put(srcName, waSource(c.Mode, c.Place))
			}
			if !build(srcName) {
				return
			}
			if c.Kind == kWatBld {
				os.Remove(filepath.Join(dir, "prog.wasm"))
			}
		}
		if !missing {
			if _, err := os.Stat(filepath.Join(dir, input)); err != nil {
				o.Prep = "wa build did not write " + input
				return
			}
		}
	}
	if c.NoVerb {
		o.Argv = []string{input}
	} else {
		o.Argv = []string{"run", input}
	}
	if c.Args {
		o.Argv = append(o.Argv, "alpha", "42")
	}
	o.Res = runWa(dir, horizon, o.Argv...)
	switch c.Mode.Cls {
	case "return":
		o.Expect = "exit status 0 (normal return)"
		o.Bad = o.Res.Exit != 0
	case "exit":
		o.Expect = fmt.Sprintf("exit status %d (requested by the program)", c.Mode.K)
		o.Bad = o.Res.Exit != c.Mode.K
	default:
		o.Expect = "non-zero exit status"
		o.Bad = o.Res.Exit == 0
	}
	return
}

func obsClass(e procResult) string {
	switch e.Exit {
	case -1:
		return "signal:" + e.Signal
	case -2:
		return "hang"
	case -3:
		return "not-started"
	}
	return "exit=" + strconv.Itoa(e.Exit)
}

// keyMode collapses the exit(k) modes into two classes so that a sweep over k does not produce
// one key per k.
func keyMode(m mode) string {
	if m.Cls == "exit" {
		if m.K == 0 {
			return "exit(0)"
		}
		return "exit(k>0)"
	}
	return m.Name
}

// ---------------------------------------------------------------------------------------------

func enumerate(r *mc.Run) []caseSpec {
	var cases []caseSpec
	add := func(m mode, place, kind string, noverb bool) {
		for _, a := range []bool{false, true} {
			if noverb && a {
				continue // the default action only takes a single argument
			}
			if a && m.Cls == "exit" && !isExitCodeQuick(m.K) {
				continue // thorough sweep over k: without program arguments
			}
			cases = append(cases, caseSpec{Mode: m, Place: place, Kind: kind, Args: a, NoVerb: noverb})
		}
	}
	codes := exitCodes
	if r.Thorough() {
		codes = nil
		for k := 0; k < 256; k++ {
			codes = append(codes, k)
		}
	}
	srcModes := []mode{mReturn}
	watModes := []mode{mReturn}
	for _, k := range codes {
		srcModes = append(srcModes, exitMode(k))
		watModes = append(watModes, exitMode(k))
	}
	srcModes = append(srcModes, mPanic, mNil, mDiv0, mOOB, mStack)
	watModes = append(watModes, mDiv0, mOOB, mUnreach, mStack, mCINull, mCISig, mCIRange)
	compileModes := []mode{mSyntax, mType}
	watPlaces := []string{pMain, pInit, pNested, pDeferred, pOutput, pStartExp}

	kinds := []string{kWa, kWz, kDir, kWat, kWasm}
	if r.Thorough() {
		kinds = append(kinds, kDirWz, kWasmWz, kWasmDir, kWatBld)
	}
	// simplest first: modes outermost in the order return, exit, failures
	for _, kind := range kinds {
		isWat := kind == kWat
		modes, places := srcModes, srcPlaces
		if isWat {
			modes, places = watModes, watPlaces
		}
		for _, m := range modes {
			for _, p := range places {
				if r.Thorough() && m.Cls == "exit" && !isExitCodeQuick(m.K) && kind != kWa && kind != kWat && kind != kWasm && p != pMain {
					// thorough k-sweep: every k at every place for .wa/.wat/.wasm; for the other
					// kinds every k in main only (they share the .wa code path after the build)
					continue
				}
				add(m, p, kind, false)
			}
		}
		for _, m := range compileModes {
			switch kind {
			case kWasm, kWasmWz, kWasmDir, kWatBld:
				add(m, pNone, kind, false) // a corrupt file has no places
			default:
				for _, p := range places {
					add(m, p, kind, false)
				}
			}
		}
		add(mMissing, pNone, kind, false)
	}
	if r.Thorough() {
		// `wa prog.wa|.wat|.wasm` without the verb goes through the same action
		for _, kind := range []string{kWa, kWat, kWasm} {
			modes, places := srcModes, srcPlaces
			if kind == kWat {
				modes, places = watModes, watPlaces
			}
			for _, m := range modes {
				if m.Cls == "exit" && !isExitCodeQuick(m.K) {
					continue
				}
				for _, p := range places {
					add(m, p, kind, true)
				}
			}
			for _, m := range compileModes {
				if kind == kWasm {
					add(m, pNone, kind, true)
				} else {
					add(m, pMain, kind, true)
				}
			}
			add(mMissing, pNone, kind, true)
		}
	}
	return cases
}

func isExitCodeQuick(k int) bool {
	for _, q := range exitCodes {
		if q == k {
			return true
		}
	}
	return false
}

type group struct {
	all, bad []outcome
}

func main() {
	r := mc.Start("C29")
	r.Rule("complete matrix termination mode x place x input kind x with/without program arguments; each case is one run of the real wa binary built from the tree; outcome = exit status class")
	r.Assume("only the exit status is judged (the property statement); what is printed is recorded, not judged")
	r.Assume("exit function = syscall/js.ProcExit(code: i32) (waroot/src has no os.Exit); codes are taken modulo 256 by the OS, so k ranges over 0..255")
	r.Assume("out-of-bounds memory access = a slice index that leaves linear memory (s[400000000]); a small out-of-range index does not trap in Wa and is not part of this property")
	r.Assume("hand-written .wat has no init/defer/panic: init = (start) function and exported _start, deferred = reached through call_indirect; .wat/.wasm 'compile error' = text that does not assemble / does not validate, resp. garbage bytes / bad version field")
	r.Assume("(start $f) always names the first defined function, so the outcome is the same with and without watutil's start-index defect (fixed in 072a4db: any start name resolved to the first defined function)")

	var err error
	workDir, err = os.MkdirTemp("", "c29-")
	if err != nil {
		r.HarnessError("mkdtemp: %v", err)
		r.Finish()
	}
	defer os.RemoveAll(workDir)
	waBin = filepath.Join(workDir, "wa")
	if !buildWa(r) {
		os.RemoveAll(workDir)
		r.Finish()
	}

	cases := enumerate(r)
	if f := os.Getenv("C29_ONLY"); f != "" { // development aid: substring filter on mode|place|kind|…
		var keep []caseSpec
		for _, c := range cases {
			if strings.Contains(c.String(), strings.TrimPrefix(f, "!")) != strings.HasPrefix(f, "!") {
				keep = append(keep, c)
			}
		}
		cases = keep
		r.Cap("C29_ONLY filter")
	}
	r.Bound("cases", len(cases))
	r.Bound("exit_codes", mc.Pick(r, "0,1,2,3,255", "0..255"))
	r.Bound("hang_horizon_s", int(hangHorizon/time.Second))

	outs := make([]outcome, len(cases))
	var capped atomic.Bool
	capped.Store(os.Getenv("C29_ONLY") != "")
	mc.ParallelFor(len(cases), func(i int) {
		if r.Expired() {
			r.Cap("deadline")
			capped.Store(true)
			outs[i].Spec = cases[i]
			outs[i].Prep = "skipped"
			return
		}
		outs[i] = runCase(cases[i], hangHorizon)
		r.Evals.Add(1)
	})

	// The witness of every failing class (first case per mode class, kind, observed status) is
	// replayed in a fresh directory before it counts; a different result = harness problem.
	// A hang is replayed 5 times with nothing else running and a longer horizon.
	witness := map[string]int{}
	var worder []string
	for i := range outs {
		if outs[i].Prep == "" && (outs[i].Bad || outs[i].Res.Exit == -2) {
			wk := keyMode(cases[i].Mode) + "|" + cases[i].Kind + "|" + obsClass(outs[i].Res)
			if _, ok := witness[wk]; !ok {
				witness[wk] = i
				worder = append(worder, wk)
			}
		}
	}
	flaky := map[string]bool{}
	var fmu sync.Mutex
	mc.ParallelFor(len(worder), func(j int) {
		i := witness[worder[j]]
		if outs[i].Res.Exit == -2 {
			return
		}
		o := runCase(cases[i], hangHorizon)
		r.Evals.Add(1)
		if o.Prep != "" || obsClass(o.Res) != obsClass(outs[i].Res) {
			r.HarnessError("not reproducible: %s gave %s, then %s %s", cases[i], obsClass(outs[i].Res), obsClass(o.Res), o.Prep)
			fmu.Lock()
			flaky[worder[j]] = true
			fmu.Unlock()
		}
	})
	for _, wk := range worder {
		i := witness[wk]
		if outs[i].Res.Exit != -2 {
			continue
		}
		var again [5]outcome
		mc.ParallelFor(5, func(k int) {
			again[k] = runCase(cases[i], hangHorizonAlone)
			r.Evals.Add(1)
		})
		for k := range again {
			if again[k].Res.Exit != -2 {
				r.HarnessError("flaky hang: %s exceeded %v once and then finished with %s", cases[i], hangHorizon, obsClass(again[k].Res))
				flaky[wk] = true
				break
			}
		}
	}
	for i := range outs {
		if outs[i].Prep == "" && flaky[keyMode(cases[i].Mode)+"|"+cases[i].Kind+"|"+obsClass(outs[i].Res)] {
			outs[i].Prep = "flaky"
		}
	}

	if p := os.Getenv("C29_DUMP"); p != "" { // development aid: one line per case
		var b strings.Builder
		for _, o := range outs {
			fmt.Fprintf(&b, "%s\t%s\tbad=%v\tprep=%q\tout=%q\terr=%q\n", o.Spec, obsClass(o.Res), o.Bad, o.Prep, tail(o.Res.Stdout, 160), tail(o.Res.Stderr, 160))
		}
		os.WriteFile(p, []byte(b.String()), 0o644)
	}

	// classification
	groups := map[string]*group{}
	var gorder []string
	sigSeen := map[string]bool{}
	sigWanted := map[string]bool{}
	for i := range outs {
		o := outs[i]
		c := o.Spec
		if o.Prep == "skipped" || o.Prep == "flaky" {
			continue
		}
		if o.Prep != "" {
			r.HarnessError("%s: preparation failed: %s", c, o.Prep)
			continue
		}
		if o.Res.Exit == -3 {
			r.HarnessError("%s: %s", c, o.Res.Stderr)
			continue
		}
		text := o.Res.Stdout + o.Res.Stderr
		r.Distinct(c.Mode.Name + "|" + c.Kind + "|" + c.Place + "|" + obsClass(o.Res))
		if r.WantSample() && (i%97 == 0) {
			r.Sample(map[string]any{"mode": c.Mode.Name, "place": c.Place, "kind": c.Kind, "argv": o.Argv, "exit": o.Res.Exit, "stdout": o.Res.Stdout})
		}
		if c.Mode.Cls == "return" && o.Res.Exit == 0 {
			marker := "done"
			if c.Kind == kWat {
				marker = watDone
			}
			if !strings.Contains(o.Res.Stdout, marker) {
				r.HarnessError("%s: exit 0 but the program's final output %q is missing (stdout %q): the case did not run what it claims", c, marker, o.Res.Stdout)
			}
		}
		if c.Mode.Sig != "" {
			sk := c.Mode.Name + "|" + c.Kind
			sigWanted[sk] = true
			if strings.Contains(text, c.Mode.Sig) {
				sigSeen[sk] = true
			}
		}
		gk := keyMode(c.Mode) + "|" + c.Kind
		g := groups[gk]
		if g == nil {
			g = &group{}
			groups[gk] = g
			gorder = append(gorder, gk)
		}
		g.all = append(g.all, o)
		if o.Bad {
			g.bad = append(g.bad, o)
		}
	}
	// vacuity: every trap/panic mode showed its own message at least once per kind
	var sk []string
	for k := range sigWanted {
		sk = append(sk, k)
	}
	sort.Strings(sk)
	for _, k := range sk {
		if !sigSeen[k] {
			r.HarnessError("vacuous: no run of %s printed the message that identifies this termination mode", k)
		}
	}
	if !capped.Load() && r.DistinctCount() < 60 {
		r.HarnessError("vacuous: only %d distinct (mode, kind, place, status) outcomes", r.DistinctCount())
	}

	for _, gk := range gorder {
		g := groups[gk]
		if len(g.bad) == 0 {
			continue
		}
		byObs := map[string][]outcome{}
		var oorder []string
		for _, o := range g.bad {
			oc := obsClass(o.Res)
			if _, ok := byObs[oc]; !ok {
				oorder = append(oorder, oc)
			}
			byObs[oc] = append(byObs[oc], o)
		}
		for _, oc := range oorder {
			bad := byObs[oc]
			w := bad[0]
			key := "C29|" + keyMode(w.Spec.Mode) + "|kind=" + w.Spec.Kind + "|" + oc
			key += dimSuffix("place", g.all, bad, func(o outcome) string { return o.Spec.Place })
			key += dimSuffix("args", g.all, bad, func(o outcome) string {
				if o.Spec.Args {
					return "with"
				}
				return "without"
			})
			key += dimSuffix("k", g.all, bad, func(o outcome) string { return strconv.Itoa(o.Spec.Mode.K) })
			key += dimSuffix("verb", g.all, bad, func(o outcome) string {
				if o.Spec.NoVerb {
					return "omitted"
				}
				return "run"
			})
			what := fmt.Sprintf("`wa %s` (%s at %s, %s): expected %s, observed %s; %d of %d cases of this class fail; stdout=%q stderr=%q",
				strings.Join(w.Argv, " "), w.Spec.Mode.Name, w.Spec.Place, w.Spec.Kind, w.Expect, oc, len(bad), len(g.all), w.Res.Stdout, w.Res.Stderr)
			r.Report(key, what, map[string]any{
				"argv": append([]string{"wa"}, w.Argv...), "files": w.Files, "mode": w.Spec.Mode.Name, "place": w.Spec.Place,
				"kind": w.Spec.Kind, "expected": w.Expect, "observed": oc, "stdout": w.Res.Stdout, "stderr": w.Res.Stderr,
				"how": "write the files into an empty directory (for kind .wasm run `wa build prog.wa` first), run argv there, look at $?",
			})
		}
	}
	os.RemoveAll(workDir)
	r.Finish()
}

// dimSuffix describes along one dimension which part of the class fails: nothing when every value
// that was run also fails, else the failing values.
func dimSuffix(name string, all, bad []outcome, f func(outcome) string) string {
	va, vb := map[string]bool{}, map[string]bool{}
	for _, o := range all {
		va[f(o)] = true
	}
	for _, o := range bad {
		vb[f(o)] = true
	}
	if len(va) == len(vb) {
		return ""
	}
	var l []string
	for v := range vb {
		l = append(l, v)
	}
	sort.Slice(l, func(i, j int) bool {
		a, e1 := strconv.Atoi(l[i])
		b, e2 := strconv.Atoi(l[j])
		if e1 == nil && e2 == nil {
			return a < b
		}
		return l[i] < l[j]
	})
	if len(l) > 4 {
		l = append(l[:4], fmt.Sprintf("and-%d-more", len(l)-4))
	}
	return "|" + name + "=" + strings.Join(l, "+")
}
