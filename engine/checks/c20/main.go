//go:build go1.21

// C20: the wemu emulator executes instructions with the architecture's semantics.
package main

import (
	"encoding/binary"
	"fmt"
	"math"
	"os"
	"sort"
	"strings"
	"sync"

	"wa-lang.org/wa/internal/native/wemu/device"
	"wa-lang.org/wa/internal/native/wemu/device/dram"
	wla "wa-lang.org/wa/internal/native/wemu/loong64"
	wrv32 "wa-lang.org/wa/internal/native/wemu/riscv32"
	wrv64 "wa-lang.org/wa/internal/native/wemu/riscv64"
	"wa-lang.org/wa/internal/zzverif/isa"
	"wa-lang.org/wa/internal/zzverif/mc"
)

// ---- machine: the real CPU + the real bus + real DRAM devices ----------------------------------

type ramRegion struct {
	dev    *dram.DRAM
	base   uint64
	shadow []byte // what the harness believes the RAM holds (the reference model's memory)
}

type machine struct {
	arch string // riscv64 riscv32 loong64
	xlen uint
	cpu  device.CPU
	bus  *device.Bus
	rams []*ramRegion
}

const ramSize = 1 << 16

func newMachine(arch string) *machine {
	m := &machine{arch: arch, bus: device.NewBus()}
	add := func(name string, base uint64, size uint64) {
		d := dram.NewDRAM(name, base, size, false)
		m.bus.MapDevice(d)
		m.rams = append(m.rams, &ramRegion{dev: d, base: base, shadow: make([]byte, size)})
	}
	switch arch {
	case "riscv64":
		m.cpu, m.xlen = wrv64.NewCPU(), 64
		add("memory", dram.DRAM_BASE_RISCV, ramSize) // the standard base, 2^31
		// below 2^31; Bus.MapDevice rejects a device that ends exactly where the next begins, so a
		// 4 KiB gap is left
		add("low", dram.DRAM_BASE_RISCV-ramSize-0x1000, ramSize)
	case "riscv32":
		m.cpu, m.xlen = wrv32.NewCPU(), 32
		add("memory", dram.DRAM_BASE_RISCV, ramSize)
		add("low", dram.DRAM_BASE_RISCV-ramSize-0x1000, ramSize)
	case "loong64":
		m.cpu, m.xlen = wla.NewCPU(), 64
		add("memory", dram.DRAM_BASE_LA64, ramSize) // the standard base
		add("low", 1<<31-ramSize, 2*ramSize)        // straddles 2^31
	}
	// fill: byte at address a = pattern(a), every byte has bit 7 set in half of the cells so that
	// sign extension is visible
	for _, r := range m.rams {
		for i := range r.shadow {
			r.shadow[i] = pattern(r.base + uint64(i))
		}
		if err := r.dev.Fill(r.base, r.shadow); err != nil {
			panic(err)
		}
	}
	return m
}

func pattern(a uint64) byte { return byte(a*0x9d+(a>>8)*0x35) ^ 0xa5 }

func (m *machine) region(addr uint64, size int) *ramRegion {
	for _, r := range m.rams {
		if addr >= r.base && addr-r.base+uint64(size) <= uint64(len(r.shadow)) && addr+uint64(size) > addr {
			return r
		}
	}
	return nil
}

// Load implements isa.Memory on the shadow.
func (m *machine) Load(addr uint64, size int) (uint64, bool) {
	if m.xlen == 32 {
		addr &= 0xffffffff
	}
	r := m.region(addr, size)
	if r == nil {
		return 0, false
	}
	var v uint64
	for i := size - 1; i >= 0; i-- {
		v = v<<8 | uint64(r.shadow[addr-r.base+uint64(i)])
	}
	return v, true
}

// poke writes bytes into the real RAM and the shadow.
func (m *machine) poke(addr uint64, b []byte) {
	r := m.region(addr, len(b))
	if r == nil {
		panic(fmt.Sprintf("poke outside RAM: %#x", addr))
	}
	copy(r.shadow[addr-r.base:], b)
	if err := r.dev.Fill(addr, b); err != nil {
		panic(err)
	}
}

// real reads n bytes of the real RAM through the device (not the bus: no side effects).
func (m *machine) real(addr uint64, n int) []byte {
	out := make([]byte, n)
	for i := 0; i < n; i++ {
		r := m.region(addr+uint64(i), 1)
		if r == nil {
			out[i] = 0
			continue
		}
		v, _ := r.dev.Read(addr+uint64(i), 1)
		out[i] = byte(v)
	}
	return out
}

// fullCompare: every byte of every RAM against the shadow (stray writes).
func (m *machine) fullCompare() (addr uint64, ok bool) {
	for _, r := range m.rams {
		for off := 0; off < len(r.shadow); off += 8 {
			v, _ := r.dev.Read(r.base+uint64(off), 8)
			if v != binary.LittleEndian.Uint64(r.shadow[off:]) {
				for i := 0; i < 8; i++ {
					b, _ := r.dev.Read(r.base+uint64(off+i), 1)
					if byte(b) != r.shadow[off+i] {
						return r.base + uint64(off+i), false
					}
				}
			}
		}
	}
	return 0, true
}

type stepResult struct {
	err   string // "" or error text
	panic string // "" or panic text
}

func (m *machine) step() (res stepResult) {
	defer func() {
		if e := recover(); e != nil {
			res.panic = fmt.Sprint(e)
		}
	}()
	if err := m.cpu.StepRun(m.bus); err != nil {
		res.err = err.Error()
	}
	return
}

// ---- value alphabets -----------------------------------------------------------------------------

func intAlphabet(xlen uint, thorough bool) []uint64 {
	set := map[uint64]bool{}
	add := func(v uint64) {
		if xlen == 32 {
			v &= 0xffffffff
		}
		set[v] = true
	}
	for _, v := range []int64{0, 1, 2, 3, -1, -2, 5, 31, 32, 33, 63, 64, 65,
		math.MaxInt32, math.MaxInt32 - 1, math.MinInt32, math.MinInt32 + 1, math.MinInt32 - 1, 1 << 31, 1<<32 - 1, 1 << 32, 1<<32 + 1,
		math.MaxInt64, math.MaxInt64 - 1, math.MinInt64, math.MinInt64 + 1,
		0x5555555555555555, -0x5555555555555556, 0x00000000ffff8000, 0x7fff} {
		add(uint64(v))
	}
	if thorough {
		for k := uint(0); k < 64; k++ {
			add(uint64(1) << k)
			add(uint64(1)<<k - 1)
			add(^(uint64(1) << k))
			add(-(uint64(1) << k))
		}
	}
	var out []uint64
	for v := range set {
		out = append(out, v)
	}
	sort.Slice(out, func(i, j int) bool { return out[i] < out[j] })
	return out
}

func floatAlphabet(single bool, thorough bool) []float64 {
	var out []float64
	if single {
		for _, b := range []uint32{0, 0x80000000, 0x3f800000, 0xbf800000, 0x7f800000, 0xff800000, 0x7fc00000, 0x7fa00001, 0x00000001, 0x807fffff, 0x00800000,
			0x7f7fffff, 0xff7fffff, 0x4f000000 /*2^31*/, 0x5f000000 /*2^63*/, 0x3fc00000, 0x40490fdb, 0x33800000 /*2^-24*/, 0x34000000, 0x3f7fffff, 0x4b7fffff, 0x4b800000} {
			out = append(out, float64(math.Float32frombits(b)))
		}
		return out
	}
	for _, b := range []uint64{0, 1 << 63, 0x3ff0000000000000, 0xbff0000000000000, 0x7ff0000000000000, 0xfff0000000000000, 0x7ff8000000000000, 0x7ff4000000000001,
		1, 0x800fffffffffffff, 0x0010000000000000, 0x7fefffffffffffff, 0xffefffffffffffff, 0x41e0000000000000 /*2^31*/, 0x43e0000000000000, /*2^63*/
		0x3ff8000000000000, 0x400921fb54442d18, 0x3ca0000000000000 /*2^-53*/, 0x3cb0000000000000, 0x3fefffffffffffff, 0x433fffffffffffff, 0x4340000000000000} {
		out = append(out, math.Float64frombits(b))
	}
	return out
}

var immBoundary12 = []int64{0, 1, -1, 2, -2, 4, -4, 8, 31, 32, 63, 64, 127, 128, -128, -129, 255, 256, 1023, 1024, -1024, 2044, 2047, -2047, -2048, 0x555, -0x556, 0x7f8}

// ---- one test case ---------------------------------------------------------------------------------

type testCase struct {
	pc      uint64
	enc     uint32
	in      isa.Inst // as decoded by x/arch from enc
	x       [32]uint64
	f       [32]float64
	desc    string
	preds   uint32 // operand-class predicates (informational)
	dataWin uint64 // address of the data window to compare (0 = none)
}

const (
	pAeqB uint32 = 1 << iota
	pBzero
	pAneg
	pBneg
	pAwide
	pShiftBig
	pImmNeg
	pRdZero
	pRdIsRs1
	pPCLow
	pMisaligned
)

var predNames = []string{"a==b", "b==0", "a<0", "b<0", "a-not-32bit", "shift>=32", "imm<0", "rd==zero", "rd==rs1", "pc<2^31", "misaligned"}

func predString(mask uint32) string {
	var s []string
	for i, n := range predNames {
		if mask>>uint(i)&1 == 1 {
			s = append(s, n)
		}
	}
	if len(s) == 0 {
		return "no common operand class"
	}
	return strings.Join(s, ",")
}

// ---- findings aggregation ----------------------------------------------------------------------------

type finding struct {
	arch, mnem, field, kind string
	kinds                   map[string]int64
	fails, total            int64
	predAnd                 uint32
	first                   string
	firstOrder              int64
	replay                  map[string]any
}

type findings struct {
	mu    sync.Mutex
	m     map[string]*finding
	total map[string]int64 // arch|mnem -> cases
}

func (fs *findings) count(arch, mnem string, n int64) {
	fs.mu.Lock()
	fs.total[arch+"|"+mnem] += n
	fs.mu.Unlock()
}

func (fs *findings) add(arch, mnem, field, kind string, preds uint32, order int64, what func() (string, map[string]any)) {
	k := arch + "|" + mnem + "|" + field
	fs.mu.Lock()
	f := fs.m[k]
	if f == nil {
		f = &finding{arch: arch, mnem: mnem, field: field, kinds: map[string]int64{}, predAnd: ^uint32(0), firstOrder: 1 << 62}
		fs.m[k] = f
	}
	f.kinds[kind]++
	f.fails++
	f.predAnd &= preds
	if order < f.firstOrder {
		f.firstOrder = order
		f.first, f.replay = what()
	}
	fs.mu.Unlock()
}

func main() {
	r := mc.Start("C20")
	r.Rule("for every instruction that wemu's execInst executes without 'unsupported' (probed per mnemonic of Wa's encoder tables): source register values over the integer (float) boundary alphabet squared x immediates over the boundary set x rd in {zero, fresh, =rs1} x pc in {standard DRAM base, just below 2^31, at 2^31}; loads/stores at every alignment at the first and last bytes of a RAM and across its end; ONE StepRun on the real CPU + real bus + real DRAM; all 32 X registers, all 32 F registers, pc and the RAM bytes are compared with engine/isa executing the instruction that x/arch decodes from the same bytes; outcomes are distinct when (mnemonic, register written, pc taken/not, store) differ")
	fs := &findings{m: map[string]*finding{}, total: map[string]int64{}}
	cov := map[string]any{}
	only := os.Getenv("C20_ONLY")
	var jobs []job
	for _, arch := range []string{"riscv64", "riscv32", "loong64"} {
		if only != "" && only != arch {
			continue
		}
		js, info := discover(r, arch)
		for k, v := range info {
			cov[arch+"_"+k] = v
		}
		jobs = append(jobs, js...)
	}
	cov["work_items"] = len(jobs)
	mc.ParallelFor(len(jobs), func(i int) {
		if r.Expired() {
			r.Cap("deadline")
			return
		}
		runJob(r, fs, jobs[i])
	})

	// report
	var keys []string
	for k := range fs.m {
		keys = append(keys, k)
	}
	sort.Strings(keys)
	for _, k := range keys {
		f := fs.m[k]
		scope := "some-operands"
		tot := fs.total[f.arch+"|"+f.mnem]
		if f.fails == tot {
			scope = "all-operands"
		}
		if f.mnem == "*" {
			scope = "every-instruction"
		}
		// one key per (mnemonic, field): the kind is "upper-32-bits" when every failing case differs
		// only above bit 31 (a missing/extra 32-bit sign extension), "value" otherwise; for the other
		// fields the sorted set of difference kinds seen
		var ks []string
		for kd := range f.kinds {
			ks = append(ks, kd)
		}
		sort.Strings(ks)
		f.kind = strings.Join(ks, "+")
		if f.field == "x[rd]" {
			f.kind = "value"
			if len(ks) == 1 && ks[0] == "upper-32-bits" {
				f.kind = "upper-32-bits"
			}
		}
		key := fmt.Sprintf("%s|%s|%s|%s|%s", f.arch, f.mnem, f.field, f.kind, scope)
		what := fmt.Sprintf("%d of %d cases differ (kinds: %v; common operand class of the failing cases: %s); first: %s", f.fails, tot, f.kinds, predString(f.predAnd), f.first)
		if f.mnem == "*" {
			what = fmt.Sprintf("%d cases; first: %s", f.fails, f.first)
		}
		r.Report(key, what, f.replay)
	}
	for k, v := range cov {
		r.Extra(k, v)
	}
	r.Bound("integer_alphabet", len(intAlphabet(64, r.Thorough())))
	r.Bound("float_alphabet", len(floatAlphabet(false, false)))
	r.Bound("imm12_boundary", len(immBoundary12))
	r.Bound("ram", "two 64 KiB RAM devices per machine (standard DRAM base + a RAM ending at / straddling 2^31); every byte compared with a shadow after each work item, a 64 byte window around the data address after each step")
	r.Assume("reference = engine/isa, a transcription of the unprivileged RISC-V manual (RV32I/RV64I/M) and of the LoongArch reference manual vol. 1 (base integer, scalar FP add/sub/mul/div); qemu is not installed")
	r.Assume("the executed instruction is what golang.org/x/arch decodes from the bytes (bytes come from Wa's encoder, or from the manual's encoding tables in engine/isa when Wa's encoder cannot produce the mnemonic: srai/sraiw)")
	r.Assume("out of scope: CSR, privileged instructions and traps, LR/SC and AM* atomics, FP exception flags, rounding modes other than RNE; jump/branch targets are kept 4-byte aligned (misaligned targets trap); RV64-only instructions are not run on the riscv32 CPU")
	r.Assume("x0/r0: compared 'as subsequently read' (a second step reads it back), not as the raw array cell; LoongArch results the manual leaves undefined (division by zero, div.w operands outside 32 bits, msb<lsb) are not compared; NaN results are compared as 'is a NaN'")
	r.Assume("an access that leaves RAM must be signalled (error or panic from the bus) and must not change RAM; pc and registers are not compared in that case")
	if r.DistinctCount() < 60 && only == "" {
		r.HarnessError("vacuous: only %d distinct outcomes", r.DistinctCount())
	}
	r.Finish()
}
