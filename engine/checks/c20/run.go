//go:build go1.21

package main

import (
	"encoding/binary"
	"fmt"
	"math"
	"strings"

	"wa-lang.org/wa/internal/zzverif/isa"
	"wa-lang.org/wa/internal/zzverif/mc"
)

func immSet(role string, xlen uint, thorough bool) []int64 {
	dense := func(lo, hi int64) []int64 {
		var out []int64
		for v := lo; v <= hi; v++ {
			out = append(out, v)
		}
		return out
	}
	switch role {
	case "", "rs1_ptr":
		return []int64{0}
	case "imm12", "simm12", "rs1_mem", "rs1_store", "si12_21_10":
		if thorough {
			return dense(-2048, 2047)
		}
		return immBoundary12
	case "shamt5", "ui5_14_10":
		return dense(0, 31)
	case "shamt6", "ui6_15_10":
		if xlen == 32 {
			return dense(0, 31)
		}
		return dense(0, 63)
	case "imm20":
		return []int64{0, 1, 2, 0x7ffff, 0x80000, 0x80001, 0xfffff, 0xffffe, 0x55555, 0xaaaaa, 0x100, 0x7f800, 0x12345}
	case "si20_24_5":
		return []int64{0, 1, 2, -1, -2, 0x7ffff, -0x80000, -0x7ffff, 0x55555, -0x55556, 0x100, 0x40000, 0x12345}
	case "si16_25_10":
		return []int64{0, 1, -1, 0x7fff, -0x8000, 0x5555, -0x5556, 0x100}
	case "si14_23_10":
		return []int64{0, 4, -4, 8, 0x7ffc, -0x8000, 0x5554, 2044, -2048}
	case "ui12_21_10":
		if thorough {
			return dense(0, 4095)
		}
		return []int64{0, 1, 2, 0x7ff, 0x800, 0x801, 0xfff, 0xffe, 0x555, 0xaaa, 0xff, 0x100}
	case "bimm12":
		return []int64{0, 4, -4, 8, -8, 2044, -2048, 2048, 4092, -4096, 0x554, -0x558}
	case "jimm20":
		return []int64{0, 4, -4, 8, 2048, -2048, 1<<20 - 4, -(1 << 20), 0x55554, -0x55558, 1 << 19, -(1 << 19)}
	case "offset_15_0":
		return []int64{0, 4, -4, 8, 2048, -2048, 1<<17 - 4, -(1 << 17), 0x15554, -0x15558}
	case "offset_20_0":
		return []int64{0, 4, -4, 8, 1<<22 - 4, -(1 << 22), 0x155554, -0x155558}
	case "offset_25_0":
		return []int64{0, 4, -4, 8, 1<<27 - 4, -(1 << 27), 0x5555554, -0x5555558}
	case "sa2_16_15":
		return []int64{0, 1, 2, 3, 4}
	case "sa3_17_15":
		return dense(0, 7)
	}
	return []int64{0}
}

func isMemOp(op *opInfo) (load, store bool, indexed bool) {
	if op.arch == "loong64" {
		switch {
		case strings.HasPrefix(op.mnem, "ldx"), strings.HasPrefix(op.mnem, "fldx"):
			return true, false, true
		case strings.HasPrefix(op.mnem, "stx"), strings.HasPrefix(op.mnem, "fstx"):
			return false, true, true
		case strings.HasPrefix(op.mnem, "ld"), strings.HasPrefix(op.mnem, "fld"):
			return true, false, false
		case strings.HasPrefix(op.mnem, "st"), strings.HasPrefix(op.mnem, "fst"):
			return false, true, false
		}
		return
	}
	switch op.immRole {
	case "rs1_mem":
		if op.mnem != "jalr" {
			return true, false, false
		}
	case "rs1_store":
		return false, true, false
	}
	return
}

func accessSize(mnem string) int {
	switch {
	case strings.HasSuffix(mnem, "b"), strings.HasSuffix(mnem, "bu"):
		if mnem == "sb" || mnem == "lb" || mnem == "lbu" || strings.Contains(mnem, ".b") {
			return 1
		}
	}
	switch {
	case mnem == "lh" || mnem == "lhu" || mnem == "sh" || strings.HasSuffix(mnem, ".h") || strings.HasSuffix(mnem, ".hu"):
		return 2
	case mnem == "lw" || mnem == "lwu" || mnem == "sw" || mnem == "flw" || mnem == "fsw" || strings.HasSuffix(mnem, ".w") || strings.HasSuffix(mnem, ".wu") || strings.HasSuffix(mnem, ".s"):
		return 4
	case mnem == "ld" || mnem == "sd" || mnem == "fld" || mnem == "fsd" || strings.HasSuffix(mnem, ".d"):
		return 8
	}
	return 1
}

func pcSet(m *machine, op *opInfo) []uint64 {
	std := m.rams[0].base
	switch m.arch {
	case "loong64":
		return []uint64{std, 1<<31 - 4, 1 << 31}
	default:
		return []uint64{std, m.rams[1].base + ramSize - 4, std + ramSize - 4}
	}
}

func filler(i int, xlen uint) uint64 {
	v := uint64(i)*0x0123456789abcdef ^ 0x8040201008040201
	if xlen == 32 {
		v &= 0xffffffff
	}
	return v
}

func fillerF(i int) float64 { return 1.25*float64(i+1) + 1.0/1024 }

func runJob(r *mc.Run, fs *findings, jb job) {
	m := newMachine(jb.arch)
	op := jb.op
	thorough := r.Thorough()
	ints := intAlphabet(m.xlen, thorough)
	imms := immSet(op.immRole, m.xlen, thorough)
	load, store, indexed := isMemOp(op)
	fp := false
	single := strings.HasSuffix(op.mnem, ".s")
	for _, role := range op.regRole {
		if isFRole(role) {
			fp = true
		}
	}
	var cases int64
	var order int64
	defer func() {
		fs.count(jb.arch, op.mnem, cases)
		r.Evals.Add(cases)
		if addr, ok := m.fullCompare(); !ok {
			fs.add(jb.arch, op.mnem, "mem", "stray-write-outside-data-window", 0, order, func() (string, map[string]any) {
				return fmt.Sprintf("after the cases of %s a RAM byte at %#x differs from the shadow", op.mnem, addr), map[string]any{"arch": jb.arch, "op": op.mnem, "addr": addr}
			})
		}
	}()
	seenDistinct := map[string]bool{}

	// number of source registers (integer or FP)
	nsrc := 0
	f0 := assignRegs(op, 0)
	destIdx := -1
	var srcIdx []int
	for i, role := range op.regRole {
		if (role == "rd" || role == "fd") && !laRdIsSource(op) {
			destIdx = i
		} else {
			srcIdx = append(srcIdx, i)
			nsrc++
		}
	}
	_ = f0
	modes := []int{0, 1, 2, 3}
	if destIdx < 0 {
		modes = []int{0, 3}
	}
	if nsrc == 0 {
		modes = []int{0, 1}
	}

	runOne := func(mode int, pc uint64, imm int64, srcVals []uint64, srcF []float64, dataAddr uint64, preds uint32) {
		order++
		if order%int64(jb.parts) != int64(jb.part) {
			return
		}
		f := assignRegs(op, mode)
		f.imm = imm
		enc, in, ok := op.build(m.xlen, f)
		if !ok {
			return
		}
		cases++
		// state
		var regs isa.Regs
		for i := 0; i < 32; i++ {
			regs.X[i] = filler(i, m.xlen)
			regs.F[i] = fillerF(i)
		}
		regs.X[0] = 0
		for k, idx := range srcIdx {
			reg := f.regs[idx]
			if isFRole(op.regRole[idx]) {
				if k < len(srcF) {
					regs.F[reg] = srcF[k]
				}
			} else if k < len(srcVals) && reg != 0 {
				regs.X[reg] = srcVals[k]
			}
		}
		if mode == 2 && destIdx >= 0 {
			preds |= pRdIsRs1
		}
		if mode == 1 {
			preds |= pRdZero
		}
		if pc < 1<<31 {
			preds |= pPCLow
		}
		if imm < 0 {
			preds |= pImmNeg
		}
		regs.PC = pc
		for i := 0; i < 32; i++ {
			m.cpu.SetXReg(i, regs.X[i])
			m.cpu.SetFReg(i, regs.F[i])
		}
		m.cpu.SetPC(pc)
		var b [4]byte
		binary.LittleEndian.PutUint32(b[:], enc)
		m.poke(pc, b[:])

		// reference
		var eff isa.Effect
		var err error
		if m.arch == "loong64" {
			eff, err = isa.StepLA(in, &regs, m)
		} else {
			eff, err = isa.StepRV(m.xlen, in, &regs, m)
		}
		if err != nil {
			cases--
			return // not in the reference for these operands (reserved encodings)
		}
		// data window: pre-state bytes
		win := dataAddr &^ 7
		var pre []byte
		if dataAddr != 0 {
			pre = m.real(win-16, 64)
		}
		res := m.step()

		witness := func(extra string) func() (string, map[string]any) {
			return func() (string, map[string]any) {
				var src []string
				for k, idx := range srcIdx {
					reg := f.regs[idx]
					if isFRole(op.regRole[idx]) {
						src = append(src, fmt.Sprintf("f%d=%v(%#x)", reg, regs.F[reg], math.Float64bits(regs.F[reg])))
					} else {
						src = append(src, fmt.Sprintf("x%d=%#x", reg, regs.X[reg]))
					}
					_ = k
				}
				s := fmt.Sprintf("%s: bytes %08x = [%s rd=%d rs1/rj=%d rs2/rk=%d imm=%d] at pc=%#x with %s: %s", m.arch, enc, in.Op, in.Rd, in.Rs1, in.Rs2, in.Imm, pc, strings.Join(src, " "), extra)
				return s, map[string]any{"arch": m.arch, "encoding": fmt.Sprintf("%08x", enc), "op": in.Op, "rd": in.Rd, "rs1": in.Rs1, "rs2": in.Rs2, "imm": in.Imm, "pc": fmt.Sprintf("%#x", pc), "sources": src}
			}
		}
		add := func(field, kind, extra string) {
			fs.add(m.arch, op.mnem, field, kind, preds, order, witness(extra))
		}
		resync := func() {
			if dataAddr != 0 {
				for _, rg := range m.rams {
					lo := win - 16
					if lo >= rg.base && lo+64 <= rg.base+uint64(len(rg.shadow)) {
						rg.dev.Fill(lo, rg.shadow[lo-rg.base:lo-rg.base+64])
					} else if lo+64 > rg.base && lo < rg.base+uint64(len(rg.shadow)) {
						rg.dev.Fill(rg.base, rg.shadow) // window crosses the region edge: restore all
					}
				}
			}
		}

		if eff.Fault != "" {
			if res.err == "" && res.panic == "" {
				add("fault", "access-outside-ram-not-signalled", fmt.Sprintf("the access at %#x leaves RAM (%s) but StepRun returned nil", dataAddr, eff.Fault))
			}
			if dataAddr != 0 {
				post := m.real(win-16, 64)
				if string(post) != string(pre) {
					add("mem", "ram-changed-by-faulting-access", "RAM bytes changed although the access faults")
					resync()
				}
			}
			return
		}
		if res.panic != "" {
			add("step", "panic", "StepRun panicked: "+firstLine(res.panic))
			resync()
			return
		}
		if res.err != "" {
			add("step", "error", "StepRun failed: "+firstLine(res.err))
			resync()
			return
		}
		// integer registers
		for i := 1; i < 32; i++ {
			exp := regs.X[i]
			isDest := eff.XW && eff.XRd == i
			if isDest {
				if eff.Undefined != "" {
					continue
				}
				exp = eff.XVal
			}
			got := m.cpu.GetXReg(i)
			if m.xlen == 32 {
				got &= 0xffffffff
			}
			if got == exp {
				continue
			}
			if isDest {
				kind := "value"
				if uint32(got) == uint32(exp) {
					kind = "upper-32-bits"
				}
				add("x[rd]", kind, fmt.Sprintf("x%d = %#x, the ISA says %#x", i, got, exp))
			} else {
				add("x[other]", "clobbered", fmt.Sprintf("x%d = %#x but the instruction does not write it (was %#x)", i, got, exp))
			}
			break
		}
		// FP registers
		for i := 0; i < 32; i++ {
			exp := regs.F[i]
			isDest := eff.FW && eff.FRd == i
			got := m.cpu.GetFReg(i)
			if isDest {
				if eff.FNaN {
					if !math.IsNaN(got) {
						add("f[rd]", "nan-expected", fmt.Sprintf("f%d = %v, the ISA says NaN", i, got))
					}
					continue
				}
				exp = eff.FVal
				if eff.FSingle {
					if math.Float32bits(float32(got)) != math.Float32bits(float32(exp)) {
						add("f[rd]", "value", fmt.Sprintf("f%d = %v (%#x as single), the ISA says %v (%#x)", i, got, math.Float32bits(float32(got)), exp, math.Float32bits(float32(exp))))
					}
					continue
				}
			}
			if math.Float64bits(got) == math.Float64bits(exp) || (math.IsNaN(got) && math.IsNaN(exp)) {
				continue
			}
			if i == 0 && !isDest && got == 0 {
				// f0/fa0 is an ordinary register in both ISAs
				fs.add(m.arch, "*", "f0", "zeroed-by-every-step", 0, order, witness(fmt.Sprintf("f0 was %v before the step and is 0 after it; f0 is not hard-wired (execInst: p.RegF[0] = 0)", exp)))
				continue
			}
			if isDest {
				add("f[rd]", "value", fmt.Sprintf("f%d = %v (%#x), the ISA says %v (%#x)", i, got, math.Float64bits(got), exp, math.Float64bits(exp)))
			} else {
				add("f[other]", "clobbered", fmt.Sprintf("f%d = %v but the instruction does not write it (was %v)", i, got, exp))
			}
			break
		}
		// pc
		gotPC := m.cpu.GetPC()
		expPC := eff.NextPC
		if m.xlen == 32 {
			gotPC &= 0xffffffff
			expPC &= 0xffffffff
		}
		seq := pc + 4
		if m.xlen == 32 {
			seq &= 0xffffffff
		}
		if gotPC != expPC {
			kind := "target"
			switch {
			case gotPC == seq:
				kind = "not-taken-but-ISA-takes"
			case expPC == seq:
				kind = "taken-but-ISA-falls-through"
			}
			add("pc", kind, fmt.Sprintf("pc = %#x, the ISA says %#x", gotPC, expPC))
		}
		// memory
		if eff.Store {
			var sb [8]byte
			binary.LittleEndian.PutUint64(sb[:], eff.Val)
			rg := m.region(eff.Addr, eff.Size)
			copy(rg.shadow[eff.Addr-rg.base:], sb[:eff.Size]) // expected post-state
		}
		if dataAddr != 0 {
			post := m.real(win-16, 64)
			var want []byte
			for i := 0; i < 64; i++ {
				a := win - 16 + uint64(i)
				if rg := m.region(a, 1); rg != nil {
					want = append(want, rg.shadow[a-rg.base])
				} else {
					want = append(want, 0)
				}
			}
			if string(post) != string(want) {
				kind := "wrong-bytes"
				switch {
				case eff.Store && string(post) == string(pre):
					kind = "not-stored"
				case !eff.Store:
					kind = "unexpected-store"
				}
				add("mem", kind, fmt.Sprintf("RAM around %#x is % x, the ISA says % x", dataAddr, post[8:40], want[8:40]))
				resync()
			}
		}
		// x0 / r0 as subsequently read
		if eff.XW && eff.XRd == 0 && order%7 == 0 {
			checkZeroReadback(m, fs, op, witness)
		}
		oc := fmt.Sprintf("%s|%s|xw=%v|taken=%v|store=%v|fw=%v", m.arch, in.Op, eff.XW, expPC != seq, eff.Store, eff.FW)
		if !seenDistinct[oc] {
			seenDistinct[oc] = true
			r.Distinct(oc)
		}
	}

	pcs := pcSet(m, op)
	usesPC := op.immRole == "bimm12" || op.immRole == "jimm20" || strings.HasPrefix(op.immRole, "offset") || op.mnem == "auipc" || op.mnem == "jalr" || op.mnem == "jirl" || strings.HasPrefix(op.mnem, "pc")
	if !usesPC {
		pcs = pcs[:2]
	}

	switch {
	case load || store:
		size := accessSize(op.mnem)
		var storeVals []uint64
		if store {
			storeVals = []uint64{0, ^uint64(0), 0x0123456789abcdef, 0x8000000080008080, 0x7f, 0xfedcba9876543210}
			if m.xlen == 32 {
				for i := range storeVals {
					storeVals[i] &= 0xffffffff
				}
			}
		} else {
			storeVals = []uint64{0}
		}
		memImms := []int64{0, 1, -1, 8, -8, 2047, -2048, 4, -4}
		if op.immRole == "si14_23_10" {
			memImms = []int64{0, 4, -4, 8, -8, 2044, -2048, 0x7ffc, -0x8000}
		}
		if indexed {
			memImms = []int64{0}
		}
		for _, rg := range m.rams {
			end := rg.base + uint64(len(rg.shadow))
			var targets []uint64
			for k := uint64(0); k < 16; k++ {
				targets = append(targets, rg.base+k+0x100)    // every alignment, mid RAM
				targets = append(targets, rg.base+k)          // first bytes
				targets = append(targets, end-uint64(size)-k) // last bytes
			}
			for j := 1; j <= size; j++ {
				targets = append(targets, end-uint64(size)+uint64(j)) // crosses the end of the RAM
			}
			targets = append(targets, rg.base-1, rg.base-uint64(size), end, end+8)
			for _, t := range targets {
				for _, imm := range memImms {
					for _, sv := range storeVals {
						for _, mode := range modes {
							if mode == 2 && store {
								continue
							}
							if mode == 3 {
								continue // address register zero: address = imm, never RAM
							}
							preds := uint32(0)
							if t%uint64(size) != 0 {
								preds |= pMisaligned
							}
							base := t - uint64(imm)
							var vals []uint64
							if indexed {
								for _, rk := range []uint64{0, 8, uint64(1<<64 - 8), 0x1000} {
									// sources in role order: (rd,) rj, rk
									vals = append(store2(store, sv), t-rk, rk)
									if m.xlen == 32 {
										for i := range vals {
											vals[i] &= 0xffffffff
										}
									}
									runOne(mode, pcs[0], 0, vals, nil, t, preds)
								}
								continue
							}
							vals = roleOrderMem(op, store, sv, base)
							if m.xlen == 32 {
								for i := range vals {
									vals[i] &= 0xffffffff
								}
								// a target outside the 32-bit space wraps: keep only in-range ones
							}
							runOne(mode, pcs[0], imm, vals, nil, t, preds)
						}
					}
				}
			}
		}
	case fp:
		fa := floatAlphabet(single, thorough)
		for _, mode := range modes {
			if mode == 3 {
				continue // there is no zero register among the FP registers
			}
			for _, pc := range pcs[:1] {
				for _, a := range fa {
					if nsrc == 1 {
						runOne(mode, pc, 0, nil, []float64{a}, 0, 0)
						continue
					}
					for _, b := range fa {
						runOne(mode, pc, 0, nil, []float64{a, b}, 0, 0)
					}
				}
			}
		}
	default:
		for _, mode := range modes {
			for _, pc := range pcs {
				for _, imm := range imms {
					switch nsrc {
					case 0:
						runOne(mode, pc, imm, nil, nil, 0, 0)
					case 1:
						for _, a := range ints {
							p := classPred(a, a, m.xlen) &^ (pAeqB | pBzero | pBneg | pShiftBig)
							if op.mnem == "jalr" || op.mnem == "jirl" {
								// keep the target 4-byte aligned (bit 0 may be set for jalr: it is cleared by the ISA)
								t := a + uint64(imm)
								if op.mnem == "jalr" {
									t &^= 1
								}
								if t&3 != 0 {
									continue
								}
							}
							runOne(mode, pc, imm, []uint64{a}, nil, 0, p)
						}
					default:
						for _, a := range ints {
							for _, b := range ints {
								runOne(mode, pc, imm, []uint64{a, b}, nil, 0, classPred(a, b, m.xlen))
							}
						}
					}
				}
			}
		}
	}
}

func store2(store bool, sv uint64) []uint64 {
	if store {
		return []uint64{sv}
	}
	return nil
}

// roleOrderMem: source values in the order of the source roles for a load/store.
func roleOrderMem(op *opInfo, store bool, sv, base uint64) []uint64 {
	var vals []uint64
	for _, role := range op.regRole {
		switch role {
		case "rd", "fd":
			if laRdIsSource(op) {
				vals = append(vals, sv)
			}
		case "rs2", "fs2":
			vals = append(vals, sv)
		case "rs1_mem", "rs1_store", "rj", "rs1":
			vals = append(vals, base)
		}
	}
	return vals
}

func classPred(a, b uint64, xlen uint) uint32 {
	var p uint32
	if a == b {
		p |= pAeqB
	}
	if b == 0 {
		p |= pBzero
	}
	sa, sb := int64(a), int64(b)
	if xlen == 32 {
		sa, sb = int64(int32(a)), int64(int32(b))
	}
	if sa < 0 {
		p |= pAneg
	}
	if sb < 0 {
		p |= pBneg
	}
	if xlen == 64 && int64(int32(a)) != int64(a) {
		p |= pAwide
	}
	if b&63 >= 32 {
		p |= pShiftBig
	}
	return p
}

func firstLine(s string) string {
	if i := strings.IndexByte(s, '\n'); i >= 0 {
		s = s[:i]
	}
	if len(s) > 200 {
		s = s[:200]
	}
	return s
}

// checkZeroReadback: after an instruction wrote register zero, a following instruction must
// read 0 from it: "add x9, x0, x0" / "add.d r9, r0, r0".
func checkZeroReadback(m *machine, fs *findings, op *opInfo, witness func(string) func() (string, map[string]any)) {
	var enc uint32
	if m.arch == "loong64" {
		enc = 0x00108000 | 9 // add.d r9, r0, r0 (LoongArch manual: ADD.D = 0000 0000 0001 0000 1 rk rj rd)
		if in, _, ok := laDecode(enc); !ok || in.Op != "add.d" || in.Rd != 9 {
			return
		}
	} else {
		x, err := isa.EncodeRV(isa.Inst{Op: "add", Rd: 9, Rs1: 0, Rs2: 0})
		if err != nil {
			return
		}
		enc = x
	}
	pc := m.rams[0].base + 0x40
	var b [4]byte
	binary.LittleEndian.PutUint32(b[:], enc)
	m.poke(pc, b[:])
	m.cpu.SetPC(pc)
	res := m.step()
	if res.err != "" || res.panic != "" {
		return
	}
	if got := m.cpu.GetXReg(9); got != 0 {
		fs.add(m.arch, op.mnem, "x0", "write-to-register-zero-visible", 0, 0, witness(fmt.Sprintf("after writing register zero, 'add r9, zero, zero' gives %#x", got)))
	}
}

var _ = mc.NWorkers
