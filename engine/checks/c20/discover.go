//go:build go1.21

package main

import (
	"encoding/binary"
	"fmt"
	"sort"
	"strings"

	"wa-lang.org/wa/internal/native/abi"
	"wa-lang.org/wa/internal/native/loong64"
	"wa-lang.org/wa/internal/native/riscv"
	"wa-lang.org/wa/internal/zzverif/isa"
	"wa-lang.org/wa/internal/zzverif/mc"
	"wa-lang.org/wa/internal/zzverif/xarch/loong64asm"
	"wa-lang.org/wa/internal/zzverif/xarch/riscv64asm"
)

// opInfo: one mnemonic (x/arch spelling, lower case) of one architecture.
type opInfo struct {
	arch    string
	mnem    string
	as      abi.As   // Wa's opcode number (0 = only reachable through the reference encoder)
	roles   []string // x/arch argument roles of the mnemonic
	regRole []string // roles that are registers, in order
	immRole string   // "" or the immediate role
	viaRef  bool     // encodings come from engine/isa's manual tables (Wa's encoder cannot produce it)
}

// fields: what the enumeration wants to put into an instruction: register number per register
// role (index into regRole) and the immediate in the reference model's convention.
type fields struct {
	regs [4]int
	imm  int64
}

// ---- x/arch -> isa.Inst ------------------------------------------------------------------------

func rvDecode(enc uint32) (isa.Inst, []string, bool) {
	var b [4]byte
	binary.LittleEndian.PutUint32(b[:], enc)
	inst, err := riscv64asm.Decode(b[:])
	if err != nil {
		return isa.Inst{}, nil, false
	}
	roles, ok := riscv64asm.VerifRoles[inst.Op]
	if !ok {
		return isa.Inst{}, nil, false
	}
	in := isa.Inst{Op: strings.ToLower(inst.Op.String())}
	for i, role := range roles {
		a := inst.Args[i]
		if a == nil {
			return in, roles, false
		}
		reg := func() int {
			r := a.(riscv64asm.Reg)
			if r >= riscv64asm.F0 {
				return int(r - riscv64asm.F0)
			}
			return int(r)
		}
		switch role {
		case "rd", "fd":
			in.Rd = reg()
		case "rs1", "fs1":
			in.Rs1 = reg()
		case "rs2", "fs2":
			in.Rs2 = reg()
		case "rs3", "fs3":
			in.Rs3 = reg()
		case "rs1_ptr":
			in.Rs1 = int(a.(riscv64asm.RegPtr).VerifReg())
		case "rs1_mem", "rs1_store":
			ro := a.(riscv64asm.RegOffset)
			in.Rs1, in.Imm = int(ro.OfsReg), int64(ro.Ofs.Imm)
		case "imm12", "simm12", "bimm12", "jimm20":
			in.Imm = int64(a.(riscv64asm.Simm).Imm)
		case "imm20", "shamt5", "shamt6":
			in.Imm = int64(a.(riscv64asm.Uimm).Imm)
		case "pred", "succ":
		default:
			return in, roles, false
		}
	}
	return in, roles, true
}

func laDecode(enc uint32) (isa.Inst, []string, bool) {
	var b [4]byte
	binary.LittleEndian.PutUint32(b[:], enc)
	inst, err := loong64asm.Decode(b[:])
	if err != nil {
		return isa.Inst{}, nil, false
	}
	roles, ok := loong64asm.VerifRoles[inst.Op]
	if !ok {
		return isa.Inst{}, nil, false
	}
	in := isa.Inst{Op: strings.ToLower(inst.Op.String())}
	for i, role := range roles {
		a := inst.Args[i]
		if a == nil {
			return in, roles, false
		}
		reg := func() int {
			r := a.(loong64asm.Reg)
			if r >= loong64asm.F0 {
				return int(r - loong64asm.F0)
			}
			return int(r)
		}
		switch role {
		case "rd", "fd":
			in.Rd = reg()
		case "rj", "fj":
			in.Rs1 = reg()
		case "rk", "fk":
			in.Rs2 = reg()
		case "fa":
			in.Rs3 = reg()
		case "msbw", "msbd":
			in.Rs2 = int(a.(loong64asm.Uimm).Imm)
		case "lsbw", "lsbd":
			in.Rs3 = int(a.(loong64asm.Uimm).Imm)
		case "ui5_14_10", "ui6_15_10", "ui12_21_10":
			in.Imm = int64(a.(loong64asm.Uimm).Imm)
		case "sa2_16_15", "sa3_17_15":
			in.Imm = int64(a.(loong64asm.SaSimm))
		case "si12_21_10":
			in.Imm = int64(a.(loong64asm.Simm16).Imm)
		case "si14_23_10", "si16_25_10", "si20_24_5":
			in.Imm = int64(a.(loong64asm.Simm32).Imm)
		case "offset_20_0", "offset_25_0", "offset_15_0":
			in.Imm = int64(a.(loong64asm.OffsetSimm).Imm)
		default:
			return in, roles, false // FCC/FCSR/CSR/hint forms: not in the reference
		}
	}
	return in, roles, true
}

func isRegRole(role string) bool {
	switch role {
	case "rd", "fd", "rs1", "fs1", "rs2", "fs2", "rs3", "fs3", "rs1_ptr", "rs1_mem", "rs1_store", "rj", "fj", "rk", "fk", "fa":
		return true
	}
	return false
}

func isFRole(role string) bool { return strings.HasPrefix(role, "f") }

func splitRoles(roles []string) (regs []string, imm string) {
	for _, r := range roles {
		switch {
		case isRegRole(r):
			regs = append(regs, r)
			if r == "rs1_mem" || r == "rs1_store" {
				imm = r
			}
		case r == "pred" || r == "succ" || r == "msbw" || r == "lsbw" || r == "msbd" || r == "lsbd":
		default:
			imm = r
		}
	}
	return
}

// ---- building encodings --------------------------------------------------------------------------

func waRV(xlen uint, as abi.As, arg *abi.AsArgument) (x uint32, ok bool) {
	defer func() {
		if e := recover(); e != nil {
			ok = false
		}
	}()
	var err error
	if xlen == 32 {
		x, err = riscv.EncodeRV32(as, arg)
	} else {
		x, err = riscv.EncodeRV64(as, arg)
	}
	return x, err == nil
}

func waLA(as abi.As, arg *abi.AsArgument) (x uint32, ok bool) {
	defer func() {
		if e := recover(); e != nil {
			ok = false
		}
	}()
	x, err := loong64.EncodeLA64(as, arg)
	return x, err == nil
}

// build produces the bytes for the wanted fields (Wa's encoder first, the manual's tables when
// Wa cannot) and returns what x/arch decodes from them. ok=false: not encodable / not decodable.
func (op *opInfo) build(xlen uint, f fields) (enc uint32, in isa.Inst, ok bool) {
	want := isa.Inst{Op: op.mnem, Imm: f.imm}
	arg := &abi.AsArgument{}
	for i, role := range op.regRole {
		n := f.regs[i]
		var reg abi.RegType
		switch op.arch {
		case "loong64":
			reg = loong64.REG_R0 + abi.RegType(n)
			if isFRole(role) {
				reg = loong64.REG_F0 + abi.RegType(n)
			}
		default:
			reg = riscv.REG_X0 + abi.RegType(n)
			if isFRole(role) {
				reg = riscv.REG_F0 + abi.RegType(n)
			}
		}
		switch role {
		case "rd", "fd":
			arg.Rd, want.Rd = reg, n
		case "rs1", "fs1", "rs1_ptr", "rs1_mem", "rs1_store", "rj", "fj":
			arg.Rs1, want.Rs1 = reg, n
		case "rs2", "fs2", "rk", "fk":
			arg.Rs2, want.Rs2 = reg, n
		case "rs3", "fs3", "fa":
			arg.Rs3, want.Rs3 = reg, n
		}
	}
	arg.Imm = int32(f.imm)
	switch op.immRole { // Wa's own conventions (see C17): raw si14, raw sa2
	case "si14_23_10":
		arg.Imm = int32(f.imm / 4)
	case "sa2_16_15":
		if strings.HasPrefix(op.mnem, "alsl") {
			arg.Imm = int32(f.imm - 1)
		}
	}
	check := func(enc uint32) (isa.Inst, bool) {
		var got isa.Inst
		var ok bool
		if op.arch == "loong64" {
			got, _, ok = laDecode(enc)
		} else {
			got, _, ok = rvDecode(enc)
		}
		if !ok || got.Op != want.Op || got.Rd != want.Rd || got.Rs1 != want.Rs1 || got.Rs2 != want.Rs2 || got.Rs3 != want.Rs3 {
			return got, false
		}
		if op.immRole != "" && got.Imm != want.Imm {
			if !(op.immRole == "imm20" && got.Imm == want.Imm&0xfffff) {
				return got, false
			}
		}
		return got, true
	}
	if !op.viaRef && op.as != 0 {
		var x uint32
		var ok bool
		if op.arch == "loong64" {
			x, ok = waLA(op.as, arg)
		} else {
			x, ok = waRV(xlen, op.as, arg)
		}
		if ok {
			if got, ok := check(x); ok {
				return x, got, true
			}
		}
	}
	if op.arch != "loong64" {
		if x, err := isa.EncodeRV(want); err == nil {
			if got, ok := check(x); ok {
				return x, got, true
			}
		}
	}
	return 0, isa.Inst{}, false
}

// ---- discovery ---------------------------------------------------------------------------------------

type job struct {
	arch  string
	op    *opInfo
	part  int
	parts int
}

func discover(r *mc.Run, arch string) ([]job, map[string]any) {
	info := map[string]any{}
	ops := map[string]*opInfo{}
	xlen := uint(64)
	if arch == "riscv32" {
		xlen = 32
	}
	addOp := func(mnem string, as abi.As, roles []string, viaRef bool) {
		if _, ok := ops[mnem]; ok {
			return
		}
		regs, imm := splitRoles(roles)
		ops[mnem] = &opInfo{arch: arch, mnem: mnem, as: as, roles: roles, regRole: regs, immRole: imm, viaRef: viaRef}
	}
	var unprobed []string
	if arch == "loong64" {
		for as := abi.As(1); as < loong64.ALAST; as++ {
			found := false
			for c := 0; c < 16 && !found; c++ {
				pick := func(bit uint, n int) abi.RegType {
					if c>>bit&1 == 1 {
						return loong64.REG_F0 + abi.RegType(n)
					}
					return loong64.REG_R0 + abi.RegType(n)
				}
				arg := &abi.AsArgument{Rd: pick(0, 7), Rs1: pick(1, 5), Rs2: pick(2, 6), Rs3: pick(3, 8)}
				x, ok := waLA(as, arg)
				if !ok {
					continue
				}
				in, roles, ok := laDecode(x)
				if !ok || in.Op != strings.ToLower(loong64.AsString(as, "")) {
					continue
				}
				addOp(in.Op, as, roles, false)
				found = true
			}
			if !found {
				unprobed = append(unprobed, loong64.AsString(as, ""))
			}
		}
	} else {
		for as := abi.As(1); as < riscv.ALAST; as++ {
			found := false
			for c := 0; c < 81*2 && !found; c++ {
				cls := func(k int) abi.RegType {
					switch c / 2 / pow3(k) % 3 {
					case 1:
						return riscv.REG_X0 + abi.RegType(5+k)
					case 2:
						return riscv.REG_F0 + abi.RegType(5+k)
					}
					return 0
				}
				arg := &abi.AsArgument{Rd: cls(0), Rs1: cls(1), Rs2: cls(2), Rs3: cls(3), Imm: int32(c%2) * 4}
				x, ok := waRV(xlen, as, arg)
				if !ok {
					continue
				}
				in, roles, ok := rvDecode(x)
				if !ok {
					continue
				}
				if in.Op != strings.ReplaceAll(strings.ToLower(riscv.AsString(as, "")), "_", ".") {
					continue // Wa's encoder produced another instruction (C17's business)
				}
				addOp(in.Op, as, roles, false)
				found = true
			}
			if !found {
				unprobed = append(unprobed, riscv.AsString(as, ""))
			}
		}
		// mnemonics of the reference that Wa's encoder cannot produce: encoded from the manual's tables
		var viaRef []string
		for _, mn := range isa.RVMnemonics() {
			if _, ok := ops[mn]; ok {
				continue
			}
			x, err := isa.EncodeRV(isa.Inst{Op: mn, Rd: 7, Rs1: 5, Rs2: 6})
			if err != nil {
				continue
			}
			in, roles, ok := rvDecode(x)
			if !ok || in.Op != mn {
				r.HarnessError("%s: reference encoding of %s is decoded by x/arch as %q", arch, mn, in.Op)
				continue
			}
			addOp(mn, 0, roles, true)
			viaRef = append(viaRef, mn)
		}
		sort.Strings(viaRef)
		info["encoded_from_manual_tables"] = viaRef
	}
	info["wa_mnemonics_without_decodable_encoding"] = len(unprobed)

	// which mnemonics does execInst handle?  (one benign step)
	var names []string
	for n := range ops {
		names = append(names, n)
	}
	sort.Strings(names)
	m := newMachine(arch)
	var handled, unsupported, noref []string
	var jobs []job
	for _, n := range names {
		op := ops[n]
		how := probeHandled(m, op)
		switch how {
		case "handled":
			known := isa.RVKnown(n)
			if arch == "loong64" {
				known = isa.LAKnown(n)
			}
			if arch == "riscv32" && isRV64Only(n) {
				continue
			}
			if !known {
				noref = append(noref, n)
				continue
			}
			handled = append(handled, n)
			parts := 4
			if len(op.regRole) >= 3 || r.Thorough() {
				parts = 16
			}
			for p := 0; p < parts; p++ {
				jobs = append(jobs, job{arch, op, p, parts})
			}
		case "unbuildable":
		default:
			unsupported = append(unsupported, n)
		}
	}
	info["handled"] = handled
	info["not_handled(unsupport/TODO/privileged)"] = len(unsupported)
	info["handled_without_reference_semantics"] = noref
	if len(noref) > 0 {
		r.Cap(fmt.Sprintf("%s: %d handled instructions have no reference semantics: %v", arch, len(noref), noref))
	}
	return jobs, info
}

func pow3(k int) int {
	p := 1
	for ; k > 0; k-- {
		p *= 3
	}
	return p
}

func isRV64Only(n string) bool {
	switch n {
	case "addw", "subw", "sllw", "srlw", "sraw", "addiw", "slliw", "srliw", "sraiw", "mulw", "divw", "divuw", "remw", "remuw", "lwu", "ld", "sd":
		return true
	}
	return false
}

// probeHandled: one step with benign operands; "handled" unless wemu says unsupported /
// privileged / TODO / unreachable.
func probeHandled(m *machine, op *opInfo) string {
	var f fields
	for i := range op.regRole {
		f.regs[i] = []int{7, 5, 6, 8}[i]
	}
	// register roles in x/arch order are rd first for most forms; make role "rd"/"fd" -> 7
	f = assignRegs(op, 0)
	switch op.immRole {
	case "bimm12", "jimm20", "offset_15_0", "offset_20_0", "offset_25_0":
		f.imm = 8
	case "sa2_16_15":
		f.imm = 1
	}
	enc, _, ok := op.build(m.xlen, f)
	if !ok {
		return "unbuildable"
	}
	base := m.rams[0].base
	for i := 0; i < 32; i++ {
		m.cpu.SetXReg(i, uint64(i))
		m.cpu.SetFReg(i, float64(i)+0.5)
	}
	m.cpu.SetXReg(5, base+0x800) // a valid address for loads/stores/jumps through rs1/rj
	m.cpu.SetXReg(6, 8)
	var b [4]byte
	binary.LittleEndian.PutUint32(b[:], enc)
	m.poke(base, b[:])
	m.cpu.SetPC(base)
	res := m.step()
	// undo possible stores
	for _, r := range m.rams {
		r.dev.Fill(r.base, r.shadow)
	}
	txt := res.err + res.panic
	switch {
	case txt == "":
		return "handled"
	case strings.Contains(txt, "unsupport"), strings.Contains(txt, "privileged"), strings.Contains(txt, "TODO"), strings.Contains(txt, "unreachable"):
		return "unsupported"
	}
	return "handled" // fails in some other way: let the enumeration report it
}

// assignRegs: register numbers per register role. mode 0: dest 7, sources 5,6,8;
// mode 1: dest = 0; mode 2: dest = first source; mode 3: first source = register zero.
func assignRegs(op *opInfo, mode int) fields {
	var f fields
	src := []int{5, 6, 8}
	si := 0
	dest := -1
	firstSrc := -1
	for i, role := range op.regRole {
		if (role == "rd" || role == "fd") && !laRdIsSource(op) {
			f.regs[i] = 7
			dest = i
		} else {
			f.regs[i] = src[si]
			if firstSrc < 0 {
				firstSrc = i
			}
			si++
		}
	}
	switch mode {
	case 1:
		if dest >= 0 {
			f.regs[dest] = 0
		}
	case 2:
		if dest >= 0 && firstSrc >= 0 {
			f.regs[dest] = f.regs[firstSrc]
		}
	case 3:
		if firstSrc >= 0 {
			f.regs[firstSrc] = 0
		}
	}
	return f
}

// laRdIsSource: LoongArch stores and two-register branches read rd.
func laRdIsSource(op *opInfo) bool {
	if op.arch != "loong64" {
		return false
	}
	switch {
	case strings.HasPrefix(op.mnem, "st"), strings.HasPrefix(op.mnem, "fst"):
		return true
	}
	switch op.mnem {
	case "beq", "bne", "blt", "bge", "bltu", "bgeu":
		return true
	}
	return false
}
