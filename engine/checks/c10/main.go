//go:build go1.21

// C10: explicit-state model checking of the heap allocator. The transition system is the real
// malloc.wat (and the runtime copy heap_malloc.wat.ws) instantiated on the embedded engine; a
// transition is one wa_malloc / wa_free call; states are deduplicated by a canonical key made of
// the allocator's globals, page count, every block header between heap base and bump pointer,
// and the live set. Invariants are evaluated after every transition.
package main

import (
	"context"
	"crypto/sha1"
	"encoding/binary"
	"encoding/hex"
	"encoding/json"
	"fmt"
	"io/fs"
	"os"
	"sort"
	"strings"
	"sync"
	"time"

	"wa-lang.org/wa/internal/3rdparty/wazero"
	"wa-lang.org/wa/internal/3rdparty/wazero/api"
	"wa-lang.org/wa/internal/waroot/malloc"
	"wa-lang.org/wa/internal/wat/watutil"
	"wa-lang.org/wa/internal/zzverif/mc"
	"wa-lang.org/wa/waroot"
)

const page = 65536

type Cfg struct {
	Variant  string // "malloc.wat" (internal/waroot/malloc) or "runtime" (waroot/src/runtime/heap_malloc.wat.ws)
	Pages    int32
	MaxPages int32
	HeapBase int32
	Cap      int32
}

func (c Cfg) String() string {
	return fmt.Sprintf("%s/pages=%d,%d/base=%d/cap=%d", c.Variant, c.Pages, c.MaxPages, c.HeapBase, c.Cap)
}

// Op: Kind 'm' = malloc(Arg bytes); Kind 'f' = free(the Arg-th live block in allocation order).
type Op struct {
	K byte
	A int32
}

func (o Op) String() string {
	if o.K == 'm' {
		return fmt.Sprintf("malloc(%d)", o.A)
	}
	return fmt.Sprintf("free(#%d)", o.A)
}

func histString(h []Op) string {
	s := make([]string, len(h))
	for i, o := range h {
		s[i] = o.String()
	}
	return strings.Join(s, "; ")
}

// ---------------------------------------------------------------------------------------------
// module construction

func runtimeVariantWat(c Cfg) ([]byte, error) {
	src, err := fs.ReadFile(waroot.GetRootFS(), "src/runtime/heap_malloc.wat.ws")
	if err != nil {
		return nil, err
	}
	var b strings.Builder
	fmt.Fprintf(&b, "(module $malloc_rt\n(memory $memory %d %d)\n(export \"memory\" (memory $memory))\n", c.Pages, c.MaxPages)
	fmt.Fprintf(&b, "(global $__stack_ptr (mut i32) (i32.const 100))\n(global $__heap_base i32 (i32.const %d))\n(global $__heap_lfixed_cap i32 (i32.const %d))\n", c.HeapBase, c.Cap)
	b.Write(src)
	b.WriteString(`
(export "__heap_base" (global $__heap_base))
(export "__heap_ptr" (global $__heap_ptr))
(export "__heap_top" (global $__heap_top))
(export "__heap_l128_freep" (global $__heap_l128_freep))
(func $wa_malloc_x (export "wa_malloc") (param $n i32) (result i32)
	local.get $n
	call $runtime.malloc
)
(func $wa_free_x (export "wa_free") (param $p i32)
	local.get $p
	call $runtime.free
)
(func $_start (export "_start")
	call $wa_malloc_init_once
)
)
`)
	return watutil.Wat2Wasm("heap_malloc.wat", []byte(b.String()))
}

func wasmFor(c Cfg) (wasm []byte, err error) {
	if p := mc.Recover(func() {
		if c.Variant == "runtime" {
			wasm, err = runtimeVariantWat(c)
			return
		}
		h := malloc.NewHeap(&malloc.Config{MemoryPages: c.Pages, MemoryPagesMax: c.MaxPages, StackPtr: 100, HeapBase: c.HeapBase, HeapLFixedCap: c.Cap})
		wasm = h.WasmBytes()
	}); p != "" {
		return nil, fmt.Errorf("panic building module: %s", p)
	}
	return
}

type engine struct {
	cfg Cfg
	ctx context.Context
	rt  wazero.Runtime
	cm  wazero.CompiledModule
	n   int
}

func newEngine(c Cfg) (*engine, error) {
	wasm, err := wasmFor(c)
	if err != nil {
		return nil, err
	}
	e := &engine{cfg: c, ctx: context.Background()}
	e.rt = wazero.NewRuntime(e.ctx)
	hb := e.rt.NewHostModuleBuilder("env")
	hb = hb.NewFunctionBuilder().WithFunc(func(ctx context.Context, m api.Module, v int32) {}).Export("print_i32")
	hb = hb.NewFunctionBuilder().WithFunc(func(ctx context.Context, m api.Module, v1, v2 int32) {}).Export("print_i32_i32")
	if _, err := hb.Instantiate(e.ctx, e.rt); err != nil {
		return nil, err
	}
	e.cm, err = e.rt.CompileModule(e.ctx, wasm)
	if err != nil {
		return nil, err
	}
	return e, nil
}

// inst is one live allocator instance plus the harness's shadow bookkeeping.
type inst struct {
	e       *engine
	m       api.Module
	mem     api.Memory
	fnM     api.Function
	fnF     api.Function
	live    []blk // allocation order
	nextID  byte
	base    int32
	trapped bool
}

type blk struct {
	P  int32 // pointer returned
	N  int32 // bytes requested
	ID byte  // fill pattern seed
}

func (e *engine) fresh() (*inst, error) {
	e.n++
	m, err := e.rt.InstantiateModule(e.ctx, e.cm, wazero.NewModuleConfig().WithName(fmt.Sprintf("i%d", e.n)))
	if err != nil {
		return nil, err
	}
	in := &inst{e: e, m: m, mem: m.Memory(), fnM: m.ExportedFunction("wa_malloc"), fnF: m.ExportedFunction("wa_free"), nextID: 1}
	in.base = int32(uint32(m.ExportedGlobal("__heap_base").Get(e.ctx)))
	return in, nil
}

func (in *inst) close() { in.m.Close(in.e.ctx) }

func (in *inst) glob(name string) int32 {
	return int32(uint32(in.m.ExportedGlobal(name).Get(in.e.ctx)))
}

func pat(id byte, i int32) byte { return id*37 + byte(i)*11 + 5 }

// maxFill bounds how many payload bytes are pattern-filled and verified per block (head and
// tail of the requested range are always covered).
const maxFill = 4096

func (in *inst) fill(b blk) {
	size := in.mem.Size(in.e.ctx)
	w := func(off, n int32) {
		for i := int32(0); i < n; i++ {
			a := uint32(b.P + off + i)
			if a < size {
				in.mem.WriteByte(in.e.ctx, a, pat(b.ID, off+i))
			}
		}
	}
	if b.N <= 2*maxFill {
		w(0, b.N)
	} else {
		w(0, maxFill)
		w(b.N-maxFill, maxFill)
	}
}

func (in *inst) checkFill(b blk) (bad int32, ok bool) {
	buf, okr := in.mem.Read(in.e.ctx, uint32(b.P), uint32(b.N))
	if !okr {
		return 0, false
	}
	chk := func(off, n int32) (int32, bool) {
		for i := int32(0); i < n; i++ {
			if buf[off+i] != pat(b.ID, off+i) {
				return off + i, false
			}
		}
		return 0, true
	}
	if b.N <= 2*maxFill {
		return chk(0, b.N)
	}
	if o, ok := chk(0, maxFill); !ok {
		return o, false
	}
	return chk(b.N-maxFill, maxFill)
}

// apply executes one op. trap != "" when the engine reported a trap.
func (in *inst) apply(o Op) (ret int32, trap string) {
	if o.K == 'm' {
		res, err := in.fnM.Call(in.e.ctx, api.EncodeI32(o.A))
		if err != nil {
			return 0, err.Error()
		}
		ret = api.DecodeI32(res[0])
		if ret != 0 {
			b := blk{P: ret, N: o.A, ID: in.nextID}
			in.nextID++
			in.live = append(in.live, b)
		}
		return ret, ""
	}
	b := in.live[o.A]
	in.live = append(in.live[:o.A:o.A], in.live[o.A+1:]...)
	if _, err := in.fnF.Call(in.e.ctx, api.EncodeI32(b.P)); err != nil {
		return 0, err.Error()
	}
	return 0, ""
}

// ---------------------------------------------------------------------------------------------
// invariants and state key

type viol struct{ Kind, What string }

func (in *inst) rd(a int32) (int32, bool) {
	v, ok := in.mem.ReadUint32Le(in.e.ctx, uint32(a))
	return int32(v), ok
}

// classSize mirrors only the *rounding policy* used to decide whether a failure was avoidable
// (DESIGN C10): the smallest block size the allocator itself would look for.
func classSize(n int32, fixed bool) int64 {
	a := (int64(n) + 7) / 8 * 8
	if !fixed {
		if a < 8 {
			a = 8 // a zero-byte request may legitimately be served as a minimal 8-byte block
		}
		return a
	}
	switch {
	case a <= 24:
		return 24
	case a <= 32:
		return 32
	case a <= 48:
		return 48
	case a <= 80:
		return 80
	case a <= 128:
		return 128
	}
	return a
}

type walked struct {
	addr, size, next int32
}

// inspect checks every invariant of the property on the current state and returns the canonical
// state key. pre is the information about the state before the last op needed for the failure
// oracle (nil when not applicable).
func (in *inst) inspect(last *Op, ret int32, pre *preState) (key string, vs []viol) {
	// the block returned by the last op has not been pattern-filled yet
	unfilled := int32(-1)
	if last != nil && last.K == 'm' && ret != 0 {
		unfilled = ret
	}
	c := in.e.cfg
	add := func(kind, f string, a ...interface{}) { vs = append(vs, viol{kind, fmt.Sprintf(f, a...)}) }
	heapPtr, heapTop, freep := in.glob("__heap_ptr"), in.glob("__heap_top"), in.glob("__heap_l128_freep")
	memSize := int64(in.mem.Size(in.e.ctx))
	base := in.base
	first := base + 48

	if int64(heapTop) != memSize {
		add("heap-top-vs-memory", "__heap_top=%d but memory size=%d", heapTop, memSize)
	}
	if heapPtr < first || int64(heapPtr) > memSize {
		add("heap-ptr-range", "__heap_ptr=%d outside [%d,%d]", heapPtr, first, memSize)
		return "", vs
	}
	if memSize > int64(c.MaxPages)*page {
		add("memory-over-max", "memory %d bytes exceeds configured max %d pages", memSize, c.MaxPages)
	}

	// walk the block chain
	var blocks []walked
	idx := map[int32]int{}
	a := first
	for a < heapPtr {
		sz, ok1 := in.rd(a)
		nx, ok2 := in.rd(a + 4)
		if !ok1 || !ok2 {
			add("walk-out-of-memory", "block header at %d unreadable", a)
			return "", vs
		}
		if sz < 0 || sz%8 != 0 || int64(a)+8+int64(sz) > int64(heapPtr) {
			add("walk-bad-size", "block at %d has size %d (heap_ptr=%d): chain of blocks does not tile [heap start, heap_ptr)", a, sz, heapPtr)
			return "", vs
		}
		idx[a] = len(blocks)
		blocks = append(blocks, walked{a, sz, nx})
		a += 8 + sz
	}
	if a != heapPtr {
		add("walk-miss-heap-ptr", "walk ends at %d, heap_ptr=%d", a, heapPtr)
		return "", vs
	}

	owner := make([]string, len(blocks)) // "" none, "live", "l24".., "l128"
	claim := func(addr int32, who string) bool {
		i, ok := idx[addr]
		if !ok {
			add("list-node-not-a-block", "%s contains %d which is not a block of the heap walk", who, addr)
			return false
		}
		if owner[i] != "" {
			add("block-owned-twice", "block %d is both %s and %s", addr, owner[i], who)
			return false
		}
		owner[i] = who
		return true
	}

	// live blocks
	for _, b := range in.live {
		if b.P%8 != 0 {
			add("misaligned", "malloc(%d) returned %d, not 8-byte aligned", b.N, b.P)
		}
		if int64(b.P)-8 < int64(first) || int64(b.P)+int64(b.N) > int64(heapPtr) || int64(b.P)+int64(b.N) > memSize {
			add("out-of-heap", "live block p=%d n=%d not inside heap [%d,%d) / memory %d", b.P, b.N, first, heapPtr, memSize)
			continue
		}
		if i, ok := idx[b.P-8]; ok {
			if blocks[i].size < b.N {
				add("too-small", "live block p=%d requested %d but header size %d", b.P, b.N, blocks[i].size)
			}
		}
		claim(b.P-8, "live")
	}
	// pairwise overlap by requested extents (independent of headers)
	lv := append([]blk(nil), in.live...)
	sort.Slice(lv, func(i, j int) bool { return lv[i].P < lv[j].P })
	for i := 1; i < len(lv); i++ {
		if int64(lv[i-1].P)+int64(lv[i-1].N) > int64(lv[i].P)-8 {
			add("overlap-live", "live blocks p=%d n=%d and p=%d (header at %d) overlap", lv[i-1].P, lv[i-1].N, lv[i].P, lv[i].P-8)
		}
	}
	for _, b := range in.live {
		if int64(b.P)-8 < int64(first) && int64(b.P)+int64(b.N) > int64(base) {
			add("overlap-list-headers", "live block p=%d n=%d overlaps the free-list headers [%d,%d)", b.P, b.N, base, first)
		}
	}
	// payloads intact
	for _, b := range in.live {
		if int64(b.P)+int64(b.N) > memSize || b.P < 0 || b.P == unfilled {
			continue
		}
		if off, ok := in.checkFill(b); !ok {
			add("payload-modified", "payload of live block p=%d n=%d changed at offset %d", b.P, b.N, off)
		}
	}

	// fixed lists
	names := []string{"l24", "l32", "l48", "l80"}
	hdr := make([]int32, 0, 12)
	for li, name := range names {
		h := base + int32(li)*8
		cnt, _ := in.rd(h)
		nx, _ := in.rd(h + 4)
		hdr = append(hdr, cnt, nx)
		n := int32(0)
		for p := nx; p != 0; {
			if n > int32(len(blocks)) {
				add("fixed-list-cycle", "%s does not terminate", name)
				break
			}
			if !claim(p, name) {
				break
			}
			n++
			p = blocks[idx[p]].next
		}
		if n != cnt {
			add("fixed-list-count", "%s header count %d but %d nodes reachable", name, cnt, n)
		}
	}
	// l128 ring
	l128 := base + 32
	{
		sz, _ := in.rd(l128)
		nx, _ := in.rd(l128 + 4)
		hdr = append(hdr, sz, nx)
		n6a, _ := in.rd(base + 40)
		n6b, _ := in.rd(base + 44)
		hdr = append(hdr, n6a, n6b)
		if sz != 0 {
			add("l128-header-size", "l128 header size field = %d (must stay 0)", sz)
		}
		steps := 0
		closed := false
		for p := nx; ; {
			if p == l128 {
				closed = true
				break
			}
			if steps > len(blocks) {
				break
			}
			if !claim(p, "l128") {
				break
			}
			steps++
			p = blocks[idx[p]].next
		}
		if !closed {
			add("l128-ring-open", "following next from the l128 header never returns to it")
		}
	}
	for i, b := range blocks {
		if owner[i] == "" {
			add("block-leaked", "block at %d size %d is neither live nor on any free list", b.addr, b.size)
		}
	}

	// result checks for the last op
	if last != nil && last.K == 'm' && pre != nil {
		if ret == 0 {
			if why := pre.satisfiable(last.A, c); why != "" {
				add("avoidable-failure", "malloc(%d) returned 0 although %s", last.A, why)
			}
		}
	}

	// canonical key
	h := sha1.New()
	var w [4]byte
	put := func(v int32) { binary.LittleEndian.PutUint32(w[:], uint32(v)); h.Write(w[:]) }
	put(heapPtr)
	put(heapTop)
	put(freep)
	put(int32(memSize / page))
	for _, v := range hdr {
		put(v)
	}
	for i, b := range blocks {
		put(b.addr)
		put(b.size)
		put(b.next)
		if owner[i] == "live" {
			put(1)
		} else {
			put(0)
		}
	}
	// the live *order* matters for naming future free ops only; canonicalise by address so that
	// states differing only in allocation order merge (free(#k) alphabet is the set of live blocks).
	for _, b := range lv {
		put(b.P)
		put(b.N)
	}
	return hex.EncodeToString(h.Sum(nil)[:12]), vs
}

// preState captures what the failure oracle needs from the state *before* a malloc.
type preState struct {
	heapPtr  int32
	fixedCnt [4]int32
	l128     []int32 // sizes of blocks on the general list
}

func (in *inst) snapshotPre() *preState {
	p := &preState{heapPtr: in.glob("__heap_ptr")}
	base := in.base
	for i := 0; i < 4; i++ {
		p.fixedCnt[i], _ = in.rd(base + int32(i)*8)
	}
	l128 := base + 32
	nx, _ := in.rd(l128 + 4)
	for steps := 0; nx != l128 && nx != 0 && steps < 100000; steps++ {
		sz, ok := in.rd(nx)
		if !ok {
			break
		}
		p.l128 = append(p.l128, sz)
		nx, _ = in.rd(nx + 4)
	}
	return p
}

// satisfiable returns a reason when a request of n bytes could certainly have been satisfied,
// under the allocator's own rounding, from the class list, the general list, or by bump
// allocation below the configured maximum memory.
func (p *preState) satisfiable(n int32, c Cfg) string {
	fixed := c.Cap != 0
	cs := classSize(n, fixed)
	if fixed && cs <= 80 {
		li := map[int64]int{24: 0, 32: 1, 48: 2, 80: 3}[cs]
		if p.fixedCnt[li] > 0 {
			return fmt.Sprintf("its size-class list holds %d free blocks", p.fixedCnt[li])
		}
	}
	for _, sz := range p.l128 {
		if int64(sz) >= cs {
			return fmt.Sprintf("the general free list holds a block of %d bytes (needs %d)", sz, cs)
		}
	}
	if int64(p.heapPtr)+8+cs <= int64(c.MaxPages)*page {
		return fmt.Sprintf("heap_ptr=%d + header + %d = %d fits below the configured maximum %d", p.heapPtr, cs, int64(p.heapPtr)+8+cs, int64(c.MaxPages)*page)
	}
	return ""
}

// ---------------------------------------------------------------------------------------------
// worker: expand a batch of frontier states

type Job struct {
	Cfg   Cfg
	Sizes []int32
	Hists [][]Op
	Only  *Op // when set, only this op is applied (used to pin down a hanging transition)
}

type Succ struct {
	H    int    // index into Hists
	Op   Op     // op applied
	Key  string // "" when the successor violates (not expanded further)
	Viol []viol
	Ret  int32
	Live int
}

type JobResult struct {
	Succs []Succ
	Err   string
}

var engines = map[string]*engine{}

func getEngine(c Cfg) (*engine, error) {
	if e, ok := engines[c.String()]; ok {
		return e, nil
	}
	e, err := newEngine(c)
	if err != nil {
		return nil, err
	}
	engines[c.String()] = e
	return e, nil
}

func replay(e *engine, h []Op) (*inst, error) {
	in, err := e.fresh()
	if err != nil {
		return nil, err
	}
	for _, o := range h {
		n0 := len(in.live)
		_, trap := in.apply(o)
		if trap != "" {
			in.close()
			return nil, fmt.Errorf("replay of %s trapped at %s: %s", histString(h), o, trap)
		}
		if o.K == 'm' && len(in.live) > n0 {
			in.fill(in.live[len(in.live)-1])
		}
	}
	return in, nil
}

func opsFor(sizes []int32, nlive int) []Op {
	ops := make([]Op, 0, len(sizes)+nlive)
	for _, s := range sizes {
		ops = append(ops, Op{'m', s})
	}
	for i := 0; i < nlive; i++ {
		ops = append(ops, Op{'f', int32(i)})
	}
	return ops
}

func handleJob(raw json.RawMessage) interface{} {
	var j Job
	if err := json.Unmarshal(raw, &j); err != nil {
		return JobResult{Err: err.Error()}
	}
	e, err := getEngine(j.Cfg)
	if err != nil {
		return JobResult{Err: "engine: " + err.Error()}
	}
	var out JobResult
	for hi, h := range j.Hists {
		// Reach the frontier state once by replaying its history on a fresh instance, then take
		// a full snapshot (whole linear memory + the three mutable allocator globals + shadow
		// live list). Each op is applied to that instance and the snapshot restored afterwards;
		// if the op grew memory (pages cannot shrink) or trapped, a fresh replayed instance is used.
		// The first op of every history is additionally executed the slow way (fresh replay) and
		// the two state keys must agree: this keeps the restore shortcut bound to plain replay.
		in, err := replay(e, h)
		if err != nil {
			return JobResult{Err: err.Error()}
		}
		snap := in.snapshot()
		ops := opsFor(j.Sizes, len(in.live))
		if j.Only != nil {
			ops = []Op{*j.Only}
		}
		for oi, o := range ops {
			if in == nil {
				if in, err = replay(e, h); err != nil {
					return JobResult{Err: err.Error()}
				}
			}
			s := runOne(in, hi, o)
			if oi == 0 && s.Key != "" && (len(h) < 3 || hi%8 == 0) {
				in2, err := replay(e, h)
				if err != nil {
					return JobResult{Err: err.Error()}
				}
				s2 := runOne(in2, hi, o)
				in2.close()
				if s2.Key != s.Key {
					return JobResult{Err: fmt.Sprintf("snapshot/restore diverges from replay on %s + %s: %s vs %s", histString(h), o, s.Key, s2.Key)}
				}
			}
			out.Succs = append(out.Succs, s)
			if !in.restore(snap) {
				in.close()
				in = nil
			}
		}
		if in != nil {
			in.close()
		}
	}
	return out
}

func runOne(in *inst, hi int, o Op) Succ {
	var pre *preState
	if o.K == 'm' {
		pre = in.snapshotPre()
	}
	n0 := len(in.live)
	ret, trap := in.apply(o)
	s := Succ{H: hi, Op: o, Ret: ret}
	if trap != "" {
		s.Viol = []viol{{"trap", fmt.Sprintf("%s trapped: %s", o, firstLine(trap))}}
		in.trapped = true
	} else {
		// inspect verifies every *other* live payload before the new block is pattern-filled
		key, vs := in.inspect(&o, ret, pre)
		if o.K == 'm' && len(in.live) > n0 && len(vs) == 0 {
			in.fill(in.live[len(in.live)-1])
		}
		s.Key, s.Viol = key, vs
		if len(vs) > 0 {
			s.Key = ""
		}
	}
	s.Live = len(in.live)
	return s
}

type snapshot struct {
	mem             []byte
	ptr, top, freep int32
	live            []blk
	nextID          byte
}

func (in *inst) snapshot() *snapshot {
	n := in.mem.Size(in.e.ctx)
	buf, _ := in.mem.Read(in.e.ctx, 0, n)
	return &snapshot{mem: append([]byte(nil), buf...), ptr: in.glob("__heap_ptr"), top: in.glob("__heap_top"),
		freep: in.glob("__heap_l128_freep"), live: append([]blk(nil), in.live...), nextID: in.nextID}
}

// restore puts the instance back into the snapshotted state; false if that is impossible
// (memory grew, or the instance trapped).
func (in *inst) restore(s *snapshot) bool {
	if in.trapped || in.mem.Size(in.e.ctx) != uint32(len(s.mem)) {
		return false
	}
	if !in.mem.Write(in.e.ctx, 0, s.mem) {
		return false
	}
	set := func(name string, v int32) bool {
		g, ok := in.m.ExportedGlobal(name).(api.MutableGlobal)
		if !ok {
			return false
		}
		g.Set(in.e.ctx, api.EncodeI32(v))
		return true
	}
	if !set("__heap_ptr", s.ptr) || !set("__heap_top", s.top) || !set("__heap_l128_freep", s.freep) {
		return false
	}
	in.live = append(in.live[:0], s.live...)
	in.nextID = s.nextID
	return true
}

func firstLine(s string) string {
	if i := strings.IndexByte(s, '\n'); i >= 0 {
		return s[:i]
	}
	return s
}

// ---------------------------------------------------------------------------------------------
// supervisor

type scenario struct {
	cfg   Cfg
	sizes []int32
	depth int
}

func sizeClassOf(o Op) string {
	if o.K == 'f' {
		return "free"
	}
	return fmt.Sprintf("malloc(%d)", o.A)
}

func violKey(c Cfg, v viol, o Op) string {
	capc := "cap>0"
	if c.Cap == 0 {
		capc = "cap=0"
	}
	return fmt.Sprintf("%s|%s|%s|%s", c.Variant, capc, v.Kind, sizeClassOf(o))
}

func main() {
	if mc.IsWorker() {
		mc.WorkerMain(handleJob)
		return
	}
	r := mc.Start("C10")
	r.Rule("BFS over malloc/free histories on the real allocator module; a state is distinct by canonical key (globals, pages, every block header, live set); non-trivial = distinct state keys")

	// class-maximum alphabet: requests are equivalent for the allocator within a size class, and the
	// class maximum is the most demanding witness for "at least as large as requested"
	core := []int32{0, 24, 32, 48, 80, 128, 136}
	full := []int32{0, 1, 8, 24, 25, 32, 33, 48, 49, 80, 81, 120, 128, 129, 136, 256, 4000}
	var scs []scenario
	dCore := mc.Pick(r, 6, 7)
	dFull := mc.Pick(r, 4, 5)
	dEdge := mc.Pick(r, 5, 6)
	for _, variant := range []string{"malloc.wat", "runtime"} {
		for _, pg := range [][2]int32{{1, 1}, {1, 2}, {1, 3}} {
			for _, base := range []int32{1000, 65536 - 48 - 200} {
				for _, cp := range []int32{0, 1, 2, 3} {
					c := Cfg{variant, pg[0], pg[1], base, cp}
					// configuration-relative sizes: exact fit to the current top, just over it, a
					// whole page, exact fit to the configured maximum, just over it, and 2^30.
					first := int64(base) + 48
					top := int64(pg[0]) * page
					max := int64(pg[1]) * page
					edge := []int32{int32(top - first - 8), int32(top - first), page, int32(max - first - 8), int32(max - first), 1 << 30, 24, 136}
					if variant == "malloc.wat" || (pg[1] == 2 && base == 1000) {
						scs = append(scs, scenario{c, core, dCore})
					}
					if base == 1000 && pg[1] <= 2 {
						scs = append(scs, scenario{c, full, dFull})
					}
					scs = append(scs, scenario{c, dedupe(edge), dEdge})
				}
			}
		}
	}
	r.Bound("depth_core", dCore)
	r.Bound("depth_full", dFull)
	r.Bound("depth_edge", dEdge)
	r.Bound("scenarios", len(scs))
	r.Bound("sizes_core", core)
	r.Bound("sizes_full", full)
	r.Assume("payload bytes are not part of the state key: malloc/free read only globals and block headers; payload integrity is checked on every transition before states merge")
	r.Assume("avoidable-failure oracle uses the allocator's own size-class rounding (24/32/48/80/128+) so it never demands more than the implementation could give")
	r.Assume("frees only of live blocks; sizes 0..2^30")

	// self-check: a recorded history replayed twice gives identical observations
	{
		e, err := newEngine(Cfg{"malloc.wat", 1, 2, 1000, 2})
		if err != nil {
			r.HarnessError("engine: %v", err)
			r.Finish()
		}
		h := []Op{{'m', 24}, {'m', 136}, {'f', 0}, {'m', 1}}
		var keys [2]string
		for k := 0; k < 2; k++ {
			in, err := replay(e, h)
			if err != nil {
				r.HarnessError("determinism replay: %v", err)
				r.Finish()
			}
			keys[k], _ = in.inspect(nil, 0, nil)
			in.close()
		}
		if keys[0] != keys[1] || keys[0] == "" {
			r.HarnessError("replay not deterministic: %q vs %q", keys[0], keys[1])
			r.Finish()
		}
	}

	pool := mc.NewPool(mc.NWorkers(), []string{"GOGC=400"})
	defer pool.Close()
	var totalMu sync.Mutex
	perScenario := map[string]int{}
	for si, sc := range scs {
		if r.Expired() {
			r.Cap(fmt.Sprintf("deadline before scenario %d/%d", si, len(scs)))
			break
		}
		seen := map[string]struct{}{}
		frontier := [][]Op{{}}
		// initial state
		for d := 0; d < sc.depth && len(frontier) > 0; d++ {
			if r.Expired() {
				r.Cap(fmt.Sprintf("deadline in %s depth %d", sc.cfg, d))
				break
			}
			const chunk = 24
			njobs := (len(frontier) + chunk - 1) / chunk
			var next [][]Op
			var mu sync.Mutex
			var retry []Job
			process := func(j Job, res mc.Result) {
				if res.Status != "ok" {
					mu.Lock()
					retry = append(retry, j)
					mu.Unlock()
					return
				}
				var jr JobResult
				if err := json.Unmarshal(res.Out, &jr); err != nil || jr.Err != "" {
					r.HarnessError("job failed: %v %s", err, jr.Err)
					return
				}
				mu.Lock()
				defer mu.Unlock()
				for _, s := range jr.Succs {
					r.Transitions.Add(1)
					h := append(append([]Op(nil), j.Hists[s.H]...), s.Op)
					if len(s.Viol) > 0 {
						for _, v := range s.Viol {
							r.Report(violKey(sc.cfg, v, s.Op), fmt.Sprintf("[%s] after %s: %s", sc.cfg, histString(h), v.What),
								map[string]interface{}{"cfg": sc.cfg, "history": h, "history_text": histString(h)})
						}
						r.Distinct("viol:" + s.Viol[0].Kind)
						continue
					}
					if _, ok := seen[s.Key]; ok {
						continue
					}
					seen[s.Key] = struct{}{}
					r.States.Add(1)
					r.Distinct(fmt.Sprintf("ret0=%v live=%d", s.Ret == 0, s.Live))
					next = append(next, h)
					if r.WantSample() && len(h) >= 3 {
						r.Sample(map[string]interface{}{"cfg": sc.cfg.String(), "history": histString(h), "state_key": s.Key})
					}
				}
			}
			jobs := make([]Job, njobs)
			for i := range jobs {
				lo, hi := i*chunk, (i+1)*chunk
				if hi > len(frontier) {
					hi = len(frontier)
				}
				jobs[i] = Job{Cfg: sc.cfg, Sizes: sc.sizes, Hists: frontier[lo:hi]}
			}
			run := func(js []Job, horizon time.Duration) {
				err := pool.Run(len(js), func(i int) interface{} { return js[i] }, horizon, func(res mc.Result) {
					process(js[res.Index], res)
				})
				if err != nil {
					r.HarnessError("pool: %v", err)
				}
			}
			run(jobs, 120*time.Second)
			// Pin down jobs that did not come back: first one history per job, then one op per job.
			for level := 0; len(retry) > 0 && level < 2; level++ {
				old := retry
				retry = nil
				var fine []Job
				for _, j := range old {
					if level == 0 {
						for _, h := range j.Hists {
							fine = append(fine, Job{Cfg: j.Cfg, Sizes: j.Sizes, Hists: [][]Op{h}})
						}
					} else {
						h := j.Hists[0]
						nlive := 0
						for _, o := range h {
							if o.K == 'm' {
								nlive++ // upper bound; ops naming a non-existent block are filtered below
							} else {
								nlive--
							}
						}
						_ = nlive
						for _, o := range opsFor(j.Sizes, liveAfter(j.Cfg, h)) {
							oo := o
							fine = append(fine, Job{Cfg: j.Cfg, Sizes: j.Sizes, Hists: [][]Op{h}, Only: &oo})
						}
					}
				}
				run(fine, 60*time.Second)
			}
			// what is still failing now is a single transition: confirm 5 more times
			for _, j := range retry {
				confirmed := 0
				status := ""
				for k := 0; k < 5; k++ {
					mc.RunPool(1, 1, func(int) interface{} { return j }, 30*time.Second, nil, func(res mc.Result) {
						if res.Status != "ok" {
							confirmed++
							status = res.Status
						}
					})
				}
				h := append(append([]Op(nil), j.Hists[0]...), *j.Only)
				if confirmed == 5 {
					kind := "no-return"
					if status == "crash" {
						kind = "engine-crash"
					}
					r.Transitions.Add(1)
					r.Report(violKey(sc.cfg, viol{Kind: kind}, *j.Only), fmt.Sprintf("[%s] %s: the last call does not return (%s, 5/5 re-runs)", sc.cfg, histString(h), status),
						map[string]interface{}{"cfg": sc.cfg, "history": h, "history_text": histString(h)})
				} else {
					r.HarnessError("transition %s on %s failed %d/5 times only (flaky)", histString(h), sc.cfg, confirmed)
				}
			}
			retry = nil
			frontier = next
		}
		totalMu.Lock()
		perScenario[sc.cfg.String()] += len(seen)
		totalMu.Unlock()
	}
	r.Extra("states_per_configuration", perScenario)
	if r.States.Load() < 1000 {
		r.HarnessError("vacuous: only %d states", r.States.Load())
	}
	r.Finish()
}

var liveCache sync.Map

// liveAfter computes the number of live blocks after a history by simulation of the alphabet
// only: every successful malloc adds one; since success depends on the implementation, it is
// taken from a replay in a throw-away worker-free engine in this process (safe: h itself was
// already executed completely by a worker, only its successors are in doubt).
func liveAfter(c Cfg, h []Op) int {
	e, err := getEngine(c)
	if err != nil {
		return 0
	}
	in, err := replay(e, h)
	if err != nil {
		return 0
	}
	defer in.close()
	return len(in.live)
}

func dedupe(xs []int32) []int32 {
	seen := map[int32]bool{}
	var out []int32
	for _, x := range xs {
		if x < 0 || seen[x] {
			continue
		}
		seen[x] = true
		out = append(out, x)
	}
	return out
}

var _ = os.Exit
