//go:build go1.21

// C30: `wa test` prints "ok" and exits 0 exactly when every selected Test*/Example* function meets
// its contract (returns without panicking; prints the text of its `// Output:` comment; panics
// with the message of its `// Output(panic):` comment); otherwise it prints FAIL and exits
// non-zero.
//
// The check builds the real `wa` binary from the tree under verification and runs `wa test
// [-run=P]` in a generated module directory (wa.mod, src/main.wa, src/x_test.wa), one temp
// directory per case, 16 at a time. Every package of up to 3 (thorough: 4) functions over the
// behaviour alphabet is enumerated in order of size (order matters: the runner reuses and reloads
// one module instance), each with run pattern none / selects exactly one function / selects none.
// Two smaller families cover the Test/Example variants of every behaviour plus boundary forms of
// the comparisons, and the .wz notation of the same files.
//
// Oracle: a verdict computed from the alphabet, nothing else.
package main

import (
	"context"
	"fmt"
	"os"
	"os/exec"
	"path/filepath"
	"sort"
	"strings"
	"sync"
	"sync/atomic"
	"syscall"
	"time"

	"wa-lang.org/wa/internal/zzverif/mc"
)

// ---------------------------------------------------------------------------------------------
// running the wa binary (same helper as c29; checks do not share code outside engine/<lib>)

var (
	waBin   string
	workDir string
)

// A `wa test` run costs ~0.4 s; the horizons (2000x) only classify hangs.
const (
	hangHorizon      = 900 * time.Second
	hangHorizonAlone = 1800 * time.Second
)

type capBuf struct {
	head, tail []byte
	n          int
}

const capHead, capTail = 3000, 1000

func (c *capBuf) Write(p []byte) (int, error) {
	c.n += len(p)
	q := p
	if room := capHead - len(c.head); room > 0 {
		k := min(room, len(q))
		c.head = append(c.head, q[:k]...)
		q = q[k:]
	}
	if len(q) > 0 {
		c.tail = append(c.tail, q...)
		if len(c.tail) > capTail {
			c.tail = append([]byte(nil), c.tail[len(c.tail)-capTail:]...)
		}
	}
	return len(p), nil
}

func (c *capBuf) String() string {
	if c.n <= capHead+capTail {
		return string(c.head) + string(c.tail)
	}
	return string(c.head) + fmt.Sprintf("…[%d bytes]…", c.n-capHead-len(c.tail)) + string(c.tail)
}

type procResult struct {
	Exit   int // -1 signal, -2 hang, -3 could not start
	Signal string
	Stdout string
	Stderr string
}

func tail(s string, n int) string {
	if len(s) > n {
		return "…" + s[len(s)-n:]
	}
	return s
}

func buildWa(r *mc.Run) bool {
	cmd := exec.Command("go", "build", "-o", waBin, ".")
	cmd.Dir = mc.RepoDir()
	cmd.Env = append(os.Environ(), "GOFLAGS=-mod=mod", "GOPROXY=off", "GOSUMDB=off", "GOTOOLCHAIN=local")
	out, err := cmd.CombinedOutput()
	if err != nil {
		r.HarnessError("go build of the wa binary in %s failed: %v\n%s", mc.RepoDir(), err, tail(string(out), 2000))
		return false
	}
	return true
}

func runWa(dir string, horizon time.Duration, args ...string) procResult {
	ctx, cancel := context.WithTimeout(context.Background(), horizon)
	defer cancel()
	cmd := exec.CommandContext(ctx, waBin, args...)
	cmd.Dir = dir
	cmd.Env = []string{"PATH=/usr/local/bin:/usr/bin:/bin", "HOME=" + workDir, "LANG=C.UTF-8"}
	cmd.SysProcAttr = &syscall.SysProcAttr{Setpgid: true}
	cmd.Cancel = func() error { return syscall.Kill(-cmd.Process.Pid, syscall.SIGKILL) }
	cmd.WaitDelay = 5 * time.Second
	var so, se capBuf
	cmd.Stdout, cmd.Stderr = &so, &se
	err := cmd.Run()
	res := procResult{Stdout: so.String(), Stderr: se.String()}
	if ctx.Err() != nil {
		res.Exit = -2
		return res
	}
	if err == nil {
		return res
	}
	if ee, ok := err.(*exec.ExitError); ok {
		res.Exit = ee.ExitCode()
		if ws, ok := ee.Sys().(syscall.WaitStatus); ok && ws.Signaled() {
			res.Exit = -1
			res.Signal = ws.Signal().String()
		}
		return res
	}
	res.Exit = -3
	res.Stderr = "harness: " + err.Error()
	return res
}

// ---------------------------------------------------------------------------------------------
// the behaviour alphabet

type letter struct {
	Name    string // behaviour class, used in keys
	Example bool   // Example* function (else Test*)
	Meets   bool   // does a function of this behaviour meet its contract?
	Body    string // .wa statements and comments, one per line
	BodyWz  string // the same in .wz notation ("" = not expressed)
}

const (
	outCmt   = "// Output:"
	panicCmt = "// Output(panic):"
)

func lt(name string, example, meets bool, body, bodyWz string) letter {
	return letter{Name: name, Example: example, Meets: meets, Body: body, BodyWz: bodyWz}
}

// The main alphabet (the eight behaviours of the design).
var alphaMain = []letter{
	lt("passes", false, true, `println("x")`, `输出("x")`),
	lt("output-matches", true, true, "println(12)\n\n"+outCmt+"\n// 12", "输出(12)\n\n注: 输出:\n注: 12"),
	// got = "12\n3", expected "12": also separates == from a prefix comparison
	lt("output-mismatch", true, false, "println(12)\nprintln(3)\n\n"+outCmt+"\n// 12", "输出(12)\n输出(3)\n\n注: 输出:\n注: 12"),
	lt("unexpected-panic", false, false, `panic("boom")`, `崩溃("boom")`),
	lt("unexpected-trap", false, false, "println(1/gz)", "输出(1/零)"),
	lt("expected-panic-matches", false, true, "panic(\"m\")\n\n"+panicCmt+"\n// m", "崩溃(\"m\")\n\n"+panicCmt+"\n// m"),
	lt("expected-panic-wrong-message", false, false, "panic(\"y\")\n\n"+panicCmt+"\n// m", "崩溃(\"y\")\n\n"+panicCmt+"\n// m"),
	lt("expected-panic-absent", false, false, "println(\"x\")\n\n"+panicCmt+"\n// m", "输出(\"x\")\n\n"+panicCmt+"\n// m"),
}

// The extended alphabet: every behaviour as Test and as Example (the runner has one loop for
// each), and boundary forms of the two comparisons.
var alphaExt = func() []letter {
	var l []letter
	for _, a := range alphaMain {
		b := a
		b.Example = !a.Example
		l = append(l, a, b)
	}
	l = append(l,
		// got is a proper prefix of the expected text
		lt("output-shorter-than-expected", true, false, "println(12)\n\n"+outCmt+"\n// 12\n// 3", ""),
		lt("output-matches-two-lines", true, true, "println(12)\nprintln(3)\n\n"+outCmt+"\n// 12\n// 3", ""),
		// the expected message is a proper prefix of the actual one: not "that message"
		lt("expected-panic-message-is-proper-prefix", false, false, "panic(\"mX\")\n\n"+panicCmt+"\n// m", ""),
		// a trap is not a panic with message m
		lt("expected-panic-but-trap", false, false, "println(1/gz)\n\n"+panicCmt+"\n// m", ""),
	)
	return l
}()

func (l letter) keyName(wz bool) string {
	s := l.Name
	// the main alphabet fixes a kind per behaviour; the other kind is marked
	for _, a := range alphaMain {
		if a.Name == l.Name && a.Example != l.Example {
			if l.Example {
				s += "(Example)"
			} else {
				s += "(Test)"
			}
		}
	}
	if wz {
		s += "(wz)"
	}
	return s
}

// ---------------------------------------------------------------------------------------------
// packages

const (
	patNone    = -1 // no -run
	patNoMatch = -2 // -run selects no function
	// >= 0: -run selects exactly the function at that position
)

type caseSpec struct {
	Family string
	Wz     bool
	Fns    []letter
	Pat    int
	Glob   bool // select-one written as a glob ("*P1") instead of the exact name
}

func fnName(l letter, i int, wz bool) string {
	if wz {
		if l.Example {
			return fmt.Sprintf("甲P%d示例", i)
		}
		return fmt.Sprintf("测P%d功能", i)
	}
	if l.Example {
		return fmt.Sprintf("ExampleP%d", i)
	}
	return fmt.Sprintf("TestP%d", i)
}

func (c caseSpec) pattern() (string, bool) {
	switch {
	case c.Pat == patNone:
		return "", false
	case c.Pat == patNoMatch:
		return "Nope*", true
	}
	name := fnName(c.Fns[c.Pat], c.Pat, c.Wz)
	if c.Glob {
		if c.Wz {
			return fmt.Sprintf("*P%d*", c.Pat), true
		}
		return fmt.Sprintf("*P%d", c.Pat), true
	}
	return name, true
}

func (c caseSpec) selected(i int) bool {
	return c.Pat == patNone || c.Pat == i
}

func (c caseSpec) String() string {
	var n []string
	for _, l := range c.Fns {
		n = append(n, l.keyName(c.Wz))
	}
	p := "none"
	switch {
	case c.Pat == patNoMatch:
		p = "selects-none"
	case c.Pat >= 0:
		p = fmt.Sprintf("selects-#%d", c.Pat)
		if c.Glob {
			p += "(glob)"
		}
	}
	return fmt.Sprintf("%s[%s] run=%s", c.Family, strings.Join(n, ", "), p)
}

func indent(body string) string {
	lines := strings.Split(body, "\n")
	for i, s := range lines {
		if s != "" {
			lines[i] = "\t" + s
		}
	}
	return strings.Join(lines, "\n")
}

func (c caseSpec) files() map[string]string {
	f := map[string]string{"wa.mod": "# generated by /verif C30\n\nname = \"app\"\npkgpath = \"myapp\"\ntarget = \"js\"\n"}
	var b strings.Builder
	if c.Wz {
		f["src/main.wz"] = "注: generated by /verif C30\n\n全局·零: 整型\n\n函数·主控:\n\t输出(\"main\")\n完毕\n"
		b.WriteString("注: generated by /verif C30\n")
		for i, l := range c.Fns {
			fmt.Fprintf(&b, "\n函数·%s:\n%s\n完毕\n", fnName(l, i, true), indent(l.BodyWz))
		}
		f["src/x_test.wz"] = b.String()
		return f
	}
	f["src/main.wa"] = "// generated by /verif C30\n\nglobal gz: int\n\nfunc main {\n\tprintln(\"main\")\n}\n"
	b.WriteString("// generated by /verif C30\n")
	for i, l := range c.Fns {
		fmt.Fprintf(&b, "\nfunc %s {\n%s\n}\n", fnName(l, i, false), indent(l.Body))
	}
	f["src/x_test.wa"] = b.String()
	return f
}

// wantPass is the reference verdict.
func (c caseSpec) wantPass() bool {
	for i, l := range c.Fns {
		if c.selected(i) && !l.Meets {
			return false
		}
	}
	return true
}

// ---------------------------------------------------------------------------------------------

type outcome struct {
	Spec    caseSpec
	Argv    []string
	Res     procResult
	HasOK   bool
	HasFAIL bool
	Symptom string // "" = as expected
	Skipped bool
	Flaky   bool
}

var caseSeq atomic.Int64

func runCase(c caseSpec, horizon time.Duration) (o outcome) {
	o.Spec = c
	dir := filepath.Join(workDir, fmt.Sprintf("case%06d", caseSeq.Add(1)))
	defer os.RemoveAll(dir)
	for name, content := range c.files() {
		p := filepath.Join(dir, "app", name)
		os.MkdirAll(filepath.Dir(p), 0o755)
		os.WriteFile(p, []byte(content), 0o644)
	}
	o.Argv = []string{"test"}
	if p, ok := c.pattern(); ok {
		o.Argv = append(o.Argv, "-run="+p)
	}
	o.Res = runWa(filepath.Join(dir, "app"), horizon, o.Argv...)
	for _, line := range strings.Split(o.Res.Stdout, "\n") {
		if strings.HasPrefix(line, "ok ") {
			o.HasOK = true
		}
		if strings.HasPrefix(line, "FAIL") {
			o.HasFAIL = true
		}
	}
	var dev []string
	switch {
	case o.Res.Exit == -2:
		dev = []string{"hang"}
	case o.Res.Exit == -1:
		dev = []string{"killed-by-" + o.Res.Signal}
	case o.Res.Exit == -3:
		dev = []string{"not-started"}
	case c.wantPass():
		if o.Res.Exit != 0 {
			dev = append(dev, "exit-nonzero")
		}
		if o.HasFAIL {
			dev = append(dev, "FAIL-printed")
		}
		if !o.HasOK {
			dev = append(dev, "no-ok-line")
		}
	default:
		if o.Res.Exit == 0 {
			dev = append(dev, "exit=0")
		}
		if !o.HasFAIL {
			dev = append(dev, "no-FAIL-line")
		}
		if o.HasOK {
			dev = append(dev, "ok-printed")
		}
	}
	o.Symptom = strings.Join(dev, ",")
	return
}

// ---------------------------------------------------------------------------------------------

func enumerate(r *mc.Run) []caseSpec {
	var cases []caseSpec
	// family: all sequences of exactly n letters; pats(n) lists the patterns
	seqs := func(alpha []letter, n int, usable func(letter) bool, f func([]letter)) {
		idx := make([]int, n)
		for {
			fns := make([]letter, n)
			ok := true
			for i, k := range idx {
				fns[i] = alpha[k]
				ok = ok && usable(alpha[k])
			}
			if ok {
				f(fns)
			}
			i := n - 1
			for ; i >= 0; i-- {
				idx[i]++
				if idx[i] < len(alpha) {
					break
				}
				idx[i] = 0
			}
			if i < 0 {
				return
			}
		}
	}
	all := func(letter) bool { return true }
	hasWz := func(l letter) bool { return l.BodyWz != "" }
	addAll := func(family string, wz bool, fns []letter, pats []int, glob bool) {
		for _, p := range pats {
			cases = append(cases, caseSpec{Family: family, Wz: wz, Fns: fns, Pat: p})
			if glob && p >= 0 {
				cases = append(cases, caseSpec{Family: family, Wz: wz, Fns: fns, Pat: p, Glob: true})
			}
		}
	}
	every := func(n int) []int {
		p := []int{patNone}
		for j := 0; j < n; j++ {
			p = append(p, j)
		}
		return append(p, patNoMatch)
	}
	middle := func(n int) []int { return []int{patNone, n / 2, patNoMatch} }

	maxN := mc.Pick(r, 3, 4)
	// simplest first: size 1 of every family, then growing
	for n := 1; n <= maxN; n++ {
		pats := every(n)
		if (!r.Thorough() && n == 3) || n == 4 {
			// the largest size selects the middle function (one skipped before, one after);
			// every position is selected for all smaller sizes
			pats = middle(n)
		}
		seqs(alphaMain, n, all, func(fns []letter) { addAll("A", false, fns, pats, false) })
		if n <= mc.Pick(r, 1, 2) {
			seqs(alphaExt, n, all, func(fns []letter) { addAll("B", false, fns, every(n), r.Thorough() && n == 1) })
			seqs(alphaMain, n, hasWz, func(fns []letter) { addAll("C", true, fns, every(n), r.Thorough() && n == 1) })
		}
	}
	return cases
}

func main() {
	r := mc.Start("C30")
	r.Rule("every sequence of <= N behaviours (order matters) x run pattern {none, selects exactly one function, selects none}; each case is one `wa test` run of the real binary on a generated module; outcome = (exit status class, ok line, FAIL line)")
	r.Assume("a function meets its contract iff: no comment -> returns without panic/trap; `// Output:` -> prints exactly that text; `// Output(panic):` -> panics with exactly that message")
	r.Assume("ok/FAIL are recognised as stdout lines starting with \"ok \" / \"FAIL\" (apptest's own format)")
	r.Assume("a run pattern that selects no function leaves nothing to fail: ok, exit 0")
	r.Assume("test files are src/x_test.wa (.wz: src/x_test.wz) of a module directory; Test*/Example* (.wz: 测…功能 / …示例) functions without parameters")

	var err error
	workDir, err = os.MkdirTemp("", "c30-")
	if err != nil {
		r.HarnessError("mkdtemp: %v", err)
		r.Finish()
	}
	waBin = filepath.Join(workDir, "wa")
	if !buildWa(r) {
		os.RemoveAll(workDir)
		r.Finish()
	}

	cases := enumerate(r)
	var capped atomic.Bool
	if v := os.Getenv("C30_MAXN"); v != "" { // development aid: only packages of <= v functions
		var keep []caseSpec
		for _, c := range cases {
			if fmt.Sprint(len(c.Fns)) <= v {
				keep = append(keep, c)
			}
		}
		cases = keep
		r.Cap("C30_MAXN filter")
		capped.Store(true)
	}
	if f := os.Getenv("C30_ONLY"); f != "" { // development aid: substring filter
		var keep []caseSpec
		for _, c := range cases {
			if strings.Contains(c.String(), strings.TrimPrefix(f, "!")) != strings.HasPrefix(f, "!") {
				keep = append(keep, c)
			}
		}
		cases = keep
		r.Cap("C30_ONLY filter")
		capped.Store(true)
	}
	r.Bound("max_functions", mc.Pick(r, 3, 4))
	r.Bound("alphabet_main", len(alphaMain))
	r.Bound("alphabet_extended", len(alphaExt))
	r.Bound("cases", len(cases))

	outs := make([]outcome, len(cases))
	mc.ParallelFor(len(cases), func(i int) {
		if r.Expired() {
			r.Cap("deadline")
			capped.Store(true)
			outs[i] = outcome{Spec: cases[i], Skipped: true}
			return
		}
		outs[i] = runCase(cases[i], hangHorizon)
		r.Evals.Add(1)
	})

	if p := os.Getenv("C30_DUMP"); p != "" { // development aid
		var b strings.Builder
		for _, o := range outs {
			fmt.Fprintf(&b, "%s\twant_pass=%v\texit=%d ok=%v FAIL=%v\tsymptom=%q\tout=%q\n", o.Spec, o.Spec.wantPass(), o.Res.Exit, o.HasOK, o.HasFAIL, o.Symptom, tail(o.Res.Stdout, 300))
		}
		os.WriteFile(p, []byte(b.String()), 0o644)
	}

	// Which single function alone shows which symptom: used to name the culprit of a larger
	// package (canonical keys: one defect -> one culprit class, whatever surrounds it).
	alone := map[string]string{} // letter key -> symptom of [letter] with no pattern
	for _, o := range outs {
		if !o.Skipped && len(o.Spec.Fns) == 1 && o.Spec.Pat == patNone {
			alone[o.Spec.Fns[0].keyName(o.Spec.Wz)] = o.Symptom
		}
	}
	keyOf := func(o outcome) string {
		c := o.Spec
		want := c.wantPass()
		var sel []string
		for i, l := range c.Fns {
			if !c.selected(i) {
				continue
			}
			sel = append(sel, l.keyName(c.Wz))
			if l.Meets == want && alone[l.keyName(c.Wz)] == o.Symptom {
				return "C30|" + l.keyName(c.Wz) + "|" + o.Symptom
			}
		}
		if len(sel) == 0 {
			return "C30|nothing-selected|" + o.Symptom
		}
		if want {
			for i, l := range c.Fns {
				if !c.selected(i) && !l.Meets {
					return "C30|unselected-failing-function|" + o.Symptom
				}
			}
		}
		return "C30|combination:" + strings.Join(sel, "+") + "|" + o.Symptom
	}

	// replay the witness of each key (first = smallest case) before it counts
	witness := map[string]int{}
	var korder []string
	nbad := map[string]int{}
	for i, o := range outs {
		if o.Skipped {
			continue
		}
		r.Distinct(fmt.Sprintf("%v|%d|%v|%v|%s", o.Spec.wantPass(), o.Res.Exit, o.HasOK, o.HasFAIL, firstLines(o.Res.Stdout)))
		if r.WantSample() && i%211 == 0 {
			r.Sample(map[string]any{"case": o.Spec.String(), "argv": o.Argv, "want_pass": o.Spec.wantPass(), "exit": o.Res.Exit, "stdout": o.Res.Stdout})
		}
		if o.Symptom == "" {
			continue
		}
		k := keyOf(o)
		nbad[k]++
		if _, ok := witness[k]; !ok {
			witness[k] = i
			korder = append(korder, k)
		}
	}
	flaky := map[string]bool{}
	var fmu sync.Mutex
	mc.ParallelFor(len(korder), func(j int) {
		i := witness[korder[j]]
		if outs[i].Res.Exit == -2 {
			return
		}
		o := runCase(cases[i], hangHorizon)
		r.Evals.Add(1)
		if o.Symptom != outs[i].Symptom {
			r.HarnessError("not reproducible: %s gave %q, then %q", cases[i], outs[i].Symptom, o.Symptom)
			fmu.Lock()
			flaky[korder[j]] = true
			fmu.Unlock()
		}
	})
	for _, k := range korder {
		i := witness[k]
		if outs[i].Res.Exit != -2 {
			continue
		}
		var again [5]outcome
		mc.ParallelFor(5, func(n int) {
			again[n] = runCase(cases[i], hangHorizonAlone)
			r.Evals.Add(1)
		})
		for n := range again {
			if again[n].Res.Exit != -2 {
				r.HarnessError("flaky hang: %s exceeded %v once, then finished (exit %d)", cases[i], hangHorizon, again[n].Res.Exit)
				flaky[k] = true
				break
			}
		}
	}
	sort.SliceStable(korder, func(a, b int) bool { return witness[korder[a]] < witness[korder[b]] })
	for _, k := range korder {
		if flaky[k] {
			continue
		}
		o := outs[witness[k]]
		want := "FAIL printed, no ok line, exit status != 0"
		if o.Spec.wantPass() {
			want = "ok printed, no FAIL line, exit status 0"
		}
		what := fmt.Sprintf("`wa %s` on %s: expected %s; observed exit=%d ok-line=%v FAIL-line=%v (%s); %d cases in this class; stdout=%q",
			strings.Join(o.Argv, " "), o.Spec, want, o.Res.Exit, o.HasOK, o.HasFAIL, o.Symptom, nbad[k], o.Res.Stdout)
		r.Report(k, what, map[string]any{
			"argv": append([]string{"wa"}, o.Argv...), "cwd": "app", "files": prefixKeys("app/", o.Spec.files()),
			"want_pass": o.Spec.wantPass(), "exit": o.Res.Exit, "stdout": o.Res.Stdout, "stderr": o.Res.Stderr, "symptom": o.Symptom,
			"how": "write the files, cd app, run argv, look at stdout and $?",
		})
	}

	// vacuity: both verdicts occurred, for every size, and every behaviour ran alone
	if !capped.Load() {
		var sawOK, sawFAIL bool
		for _, o := range outs {
			sawOK = sawOK || (o.HasOK && o.Res.Exit == 0)
			sawFAIL = sawFAIL || (o.HasFAIL && o.Res.Exit != 0)
		}
		if !sawOK || !sawFAIL {
			r.HarnessError("vacuous: ok seen=%v, FAIL seen=%v", sawOK, sawFAIL)
		}
		if len(alone) < len(alphaExt)+len(alphaMain) {
			r.HarnessError("vacuous: only %d single-function packages ran", len(alone))
		}
		if r.DistinctCount() < 12 {
			r.HarnessError("vacuous: only %d distinct outcomes", r.DistinctCount())
		}
		// the generated functions do what their letter says (else the oracle is about nothing):
		// per behaviour, at least one single-function package shows the behaviour's own message
		sigs := map[string]string{
			"unexpected-panic":             "panic: boom",
			"unexpected-trap":              "integer divide by zero",
			"output-mismatch":              `got = "12\n3"`,
			"expected-panic-wrong-message": "panic: y",
			"expected-panic-absent":        "expect panic",
		}
		shown := map[string]bool{}
		for _, o := range outs {
			if len(o.Spec.Fns) != 1 || o.Spec.Pat != patNone {
				continue
			}
			name := o.Spec.Fns[0].Name
			if sig, ok := sigs[name]; ok && strings.Contains(o.Res.Stdout+o.Res.Stderr, sig) {
				shown[name] = true
			}
		}
		for name, sig := range sigs {
			if !shown[name] {
				r.HarnessError("vacuous: no single-function package of behaviour %s showed %q", name, sig)
			}
		}
	}
	os.RemoveAll(workDir)
	r.Finish()
}

func prefixKeys(p string, m map[string]string) map[string]string {
	o := map[string]string{}
	for k, v := range m {
		o[p+k] = v
	}
	return o
}

// firstLines canonicalises stdout for the distinct-outcome count (durations removed).
func firstLines(s string) string {
	var out []string
	for _, l := range strings.Split(s, "\n") {
		if strings.HasPrefix(l, "ok ") {
			l = "ok"
		}
		if strings.HasPrefix(l, "FAIL") {
			l = "FAIL"
		}
		out = append(out, l)
	}
	return strings.Join(out, "\n")
}
