#!/bin/bash
# prebuild for C27: derive the controlled copies of runtime/map.go, alg.go, rand.go from the STOCK
# GOROOT (which is never modified) and emit an overlay that substitutes them for this one binary.
# $1 = output directory. The patched runtime makes `go build` recompile the standard library for
# this binary only (cached in GOCACHE afterwards).
set -e
OUT="$1"
export GOFLAGS=-mod=mod GOPROXY=off GOSUMDB=off GOTOOLCHAIN=local
VERIF_DIR="${VERIF_DIR:-/verif}"
GR="$(go env GOROOT)"
if [ -z "$GR" ] || [ ! -d "$GR/src/runtime" ]; then
  echo "HARNESS-ERROR C27: GOROOT sources not found (GOROOT='$GR')" >&2
  exit 3
fi
python3 "$VERIF_DIR/tools/patch_runtime.py" "$GR" "$OUT"
