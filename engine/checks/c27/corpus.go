//go:build go1.21

package main

// The corpus is part of the check (not of the input space): a program that does not compile in the
// baseline run is a harness error. Every program is compiled through a different front door of
// the real pipeline.

type corpusProg struct {
	Name  string
	Kind  string // "file" (api.BuildFile), "vfs" (api.LoadProgramVFS + compiler_wat), "dir" (api.LoadProgram on a real directory)
	Main  string // file name (file), package path (vfs), sub directory of the corpus dir (dir)
	Test  bool   // unit-test mode (cfg.UnitTest)
	Small bool   // explored to deviation bound 2 in the thorough tier
	// Files: for "file" one entry (Main -> source); for vfs/dir the project tree.
	Files map[string]string
}

var corpus = []corpusProg{
	{Name: "rich.wa", Kind: "file", Main: "rich.wa", Small: true, Files: map[string]string{"rich.wa": srcRichWa}},
	{Name: "rich.wz", Kind: "file", Main: "rich.wz", Small: true, Files: map[string]string{"rich.wz": srcRichWz}},
	{Name: "multipkg(vfs)", Kind: "vfs", Main: "myapp", Files: map[string]string{
		"wa.mod":             "name = \"myapp\"\npkgpath = \"myapp\"\n",
		"src/main.wa":        srcMultiMain,
		"src/util.wa":        srcMultiUtil,
		"src/geom/geom.wa":   srcMultiGeom,
		"src/geom/shapes.wa": srcMultiShapes,
		"src/store/store.wa": srcMultiStore,
		"src/store/codec.wa": srcMultiCodec,
		"src/zh/zh.wz":       srcMultiZh,
	}},
	{Name: "unittest(dir)", Kind: "dir", Main: "utest", Test: true, Small: true, Files: map[string]string{
		"wa.mod":             "name = \"utest\"\npkgpath = \"utest\"\n",
		"src/lib.wa":         srcTestLib,
		"src/lib_test.wa":    srcTestLibTest,
		"src/more_test.wa":   srcTestMore,
		"src/inner/inner.wa": srcTestInner,
	}},
	{Name: "manystd.wa", Kind: "file", Main: "manystd.wa", Files: map[string]string{"manystd.wa": srcManyStd}},
}

const srcRichWa = `// rich.wa: structs, interfaces, closures, maps, generics, embedding, globals
import "errors"
import "sort"

const (
	KindRect = iota
	KindCircle
	KindTri
)

global counter: int = 7
global names = []string{"a", "b", "c"}
global table: map[string]int

type Shape: interface {
	Area() => f64
	Name() => string
}

type Named: interface {
	Name() => string
}

type Base: struct {
	id:   int
	tag:  string
}

func Base.ID() => int { return this.id }
func Base.Tag() => string { return this.tag }

type Rect: struct {
	Base
	w, h: f64
}

type Circle: struct {
	Base
	r: f64
}

type Tri: struct {
	a, b, c: f64
	next: *Tri
}

func Rect.Area() => f64 { return this.w * this.h }
func Rect.Name() => string { return "rect#" + itoa(this.id) }
func Circle.Area() => f64 { return 3.14159 * this.r * this.r }
func Circle.Name() => string { return "circle#" + itoa(this.id) }
func Tri.Area() => f64 { return (this.a + this.b + this.c) / 2 }
func Tri.Name() => string { return "tri" }

type Stack: struct {
	data: []int
}

func Stack.Push(v: int) { this.data = append(this.data, v) }
func Stack.Pop() => (v: int, ok: bool) {
	if len(this.data) == 0 {
		return 0, false
	}
	v = this.data[len(this.data)-1]
	this.data = this.data[:len(this.data)-1]
	return v, true
}

type Pair: struct {
	k: string
	v: int
}

type Acc: struct {
	sum: int
	log: []string
}

#wa:generic AddStr AddF64
func Acc.Add(i: int) => *Acc {
	this.sum += i
	return this
}

func Acc.AddStr(s: string) => *Acc {
	this.log = append(this.log, s)
	return this
}

func Acc.AddF64(f: f64) => *Acc {
	this.sum += int(f)
	return this
}

#wa:generic maxF64 maxStr
func maxOf(a, b: int) => int {
	if a > b {
		return a
	}
	return b
}

func maxF64(a, b: f64) => f64 {
	if a > b {
		return a
	}
	return b
}

func maxStr(a, b: string) => string {
	if a > b {
		return a
	}
	return b
}

func makeCounter(start: int) => func() => int {
	n := start
	return func() => int {
		n++
		counter += n
		return n
	}
}

func apply(xs: []int, f: func(int) => int) => []int {
	out := make([]int, 0, len(xs))
	for _, x := range xs {
		out = append(out, f(x))
	}
	return out
}

func total(shapes: []Shape) => f64 {
	s := 0.0
	for _, sh := range shapes {
		s += sh.Area()
	}
	return s
}

func describe(v: interface{}) => string {
	switch x := v.(type) {
	case int:
		return "int:" + itoa(x)
	case string:
		return "string:" + x
	case Shape:
		return "shape:" + x.Name()
	case *Tri:
		return "tri"
	case error:
		return "error:" + x.Error()
	}
	return "?"
}

func divide(a, b: int) => (int, error) {
	if b == 0 {
		return 0, errors.New("divide by zero")
	}
	return a / b, nil
}

func wordFreq(text: string) => map[string]int {
	m := make(map[string]int)
	for _, w := range fields(text) {
		m[lower(w)]++
	}
	return m
}

func sortedKeys(m: map[string]int) => []string {
	keys: []string
	for k, v := range m {
		_ = v
		keys = append(keys, k)
	}
	sort.Strings(keys)
	return keys
}

func itoa(n: int) => string {
	if n == 0 {
		return "0"
	}
	neg := n < 0
	if neg {
		n = -n
	}
	buf: []byte
	for n > 0 {
		buf = append(buf, byte('0'+n%10))
		n /= 10
	}
	if neg {
		buf = append(buf, '-')
	}
	for i, j := 0, len(buf)-1; i < j; i, j = i+1, j-1 {
		buf[i], buf[j] = buf[j], buf[i]
	}
	return string(buf)
}

func fields(s: string) => []string {
	out: []string
	start := -1
	for i := 0; i < len(s); i++ {
		if s[i] == ' ' {
			if start >= 0 {
				out = append(out, s[start:i])
				start = -1
			}
		} else if start < 0 {
			start = i
		}
	}
	if start >= 0 {
		out = append(out, s[start:])
	}
	return out
}

func lower(s: string) => string {
	b := []byte(s)
	for i, c := range b {
		if c >= 'A' && c <= 'Z' {
			b[i] = c + 32
		}
	}
	return string(b)
}

func repeat(s: string, n: int) => string {
	out := ""
	for i := 0; i < n; i++ {
		out += s
	}
	return out
}

func init {
	table = make(map[string]int)
	for i, n := range names {
		table[n] = i
	}
}

func main {
	shapes := []Shape{
		&Rect{Base: Base{id: 1, tag: "r"}, w: 2, h: 3},
		&Circle{Base: Base{id: 2, tag: "c"}, r: 1.5},
		&Tri{a: 3, b: 4, c: 5},
	}
	println(total(shapes))
	for _, s := range shapes {
		println(s.Name(), describe(s))
	}

	nm: Named = &Tri{a: 1}
	println(nm.Name())
	st: Stack
	for i := 0; i < 5; i++ {
		st.Push(i * i)
	}
	for {
		v, ok := st.Pop()
		if !ok {
			break
		}
		print(v, " ")
	}
	println()

	next := makeCounter(10)
	println(next(), next(), next(), counter)
	println(len(apply([]int{1, 2, 3}, func(x: int) => int { return x * counter })))

	acc: Acc
	acc.Add(1).Add("two").Add(3.5).Add(4)
	println(acc.sum, len(acc.log))
	println(maxOf(1, 2), maxOf(1.5, 0.5), maxOf("a", "b"))

	freq := wordFreq("the quick brown fox jumps over the lazy dog The end")
	for _, k := range sortedKeys(freq) {
		println(k, freq[k])
	}

	if _, err := divide(1, 0); err != nil {
		println(describe(err))
	}
	q, _ := divide(84, 2)
	println(describe(q), describe("s"), describe(3.5))

	pairs := []Pair{{"x", 1}, {"y", 2}}
	arr := [3]Pair{{"p", 9}}
	mp := map[int]Pair{1: pairs[0], 2: pairs[1]}
	println(len(pairs), arr[0].k, mp[2].v, table["c"])

	defer println("deferred")
	ch := 'x'
	bs := []byte("héllo")
	println(ch, len(bs), string(bs[:1]), repeat("ab", 3))
}
`

const srcRichWz = `注: rich.wz 中文语法程序

引入 "书"

常量 甲 = 1
常量 乙: 整型 = 2
常量:
	丙 = 嘀嗒
	丁
完毕

全局 计数: 整型 = 13
全局 名字 = "凹"
全局:
	子: 整型
	丑 = 2
完毕

类型 数 = 整型

结构·点:
	横, 纵: 整型
	名: 字串
完毕

结构·线:
	起, 止: 点
完毕

接口·会加:
	加(n: 整型) => 整型
完毕

接口·有名:
	取名() => 字串
完毕

函数·点·加(n: 整型) => 整型:
	我的·横 += n
	返回 我的·横
完毕

函数·点·取名() => 字串:
	返回 我的·名
完毕

函数·线·加(n: 整型) => 整型:
	返回 我的·起·加(n) + 我的·止·加(n)
完毕

函数·交换(x, y: 整型) => (整型, 整型):
	返回 y, x
完毕

函数·累加器(起: 整型) => 函数() => 整型:
	n := 起
	返回 函数() => 整型:
		n++
		计数 += n
		返回 n
	完毕
完毕

函数·求和(数组: []整型) => 整型:
	和 := 0
	循环 _, v := 迭代 数组:
		和 += v
	完毕
	返回 和
完毕

函数·分类(甲: 整型) => 字串:
	找辙 甲:
	有辙 1:
		返回 "one"
	有辙 2, 3:
		返回 "two"
	没辙:
		返回 "many"
	完毕
完毕

函数·主控:
	p := &点{横: 1, 纵: 2, 名: "原点"}
	设定·q: 会加 = p
	设定·v: 整型
	v, _ = 交换(1, 2)
	输出(甲, 乙, 丙, 丁, 计数, 名字, 子, 丑, q·加(2), v)
	书·说("好")

	l := &线{起: 点{横: 1}, 止: 点{横: 5}}
	q = l
	输出(q·加(3))
	设定·m: 有名 = p
	输出(m·取名())

	下一个 := 累加器(10)
	输出(下一个(), 下一个(), 计数)
	输出(求和([]整型{7, 8, 9}), 分类(2), 分类(9))

	如果 v > 1:
		输出("大")
	否则:
		输出("小")
	完毕
	循环 i := 0; i < 3; i++:
		输出(i)
	完毕
完毕
`

const srcMultiMain = `// multi-package program: main package (2 files), two sub packages, one .wz sub package
import "fmt"
import "strings"
import "strconv"
import "sort"
import "myapp/geom"
import "myapp/store"
import "myapp/zh"

type Report: struct {
	lines: []string
}

func Report.Add(name: string, args: ...interface{}) {
	parts := []string{name}
	for _, a := range args {
		switch v := a.(type) {
		case int:
			parts = append(parts, strconv.Itoa(v))
		case string:
			parts = append(parts, v)
		case bool:
			parts = append(parts, strconv.FormatBool(v))
		case geom.Shape:
			parts = append(parts, v.Name())
		}
	}
	this.lines = append(this.lines, strings.Join(parts, " "))
}

func main {
	rep: Report
	shapes := []geom.Shape{geom.NewRect(2, 3), geom.NewCircle(1), geom.NewRect(1, 1)}
	for i, s := range shapes {
		rep.Add("shape", i, s, s.Area() > 1)
	}
	db := store.New()
	db.Put("one", 1)
	db.Put("two", 2)
	db.Put("three", 3)
	keys := db.Keys()
	sort.Strings(keys)
	rep.Add("keys", strings.Join(keys, ","))
	rep.Add("enc", store.Encode(db))
	rep.Add("sum", sumAll(db, keys))
	rep.Add("zh", zh.Jia(20, 22))
	for _, l := range rep.lines {
		println(l)
	}
	fmt.Println(clamp(5, 0, 3), geom.Origin.X, geom.Scale(geom.Point{X: 1, Y: 2}, 3).Y, geom.Dist(geom.Origin, geom.Point{X: 3, Y: 4}))
}
`

const srcMultiUtil = `// second file of the main package
import "myapp/store"

func sumAll(db: *store.DB, keys: []string) => int {
	n := 0
	for _, k := range keys {
		v, _ := db.Get(k)
		n += v
	}
	return n
}

func clamp(v, lo, hi: int) => int {
	if v < lo {
		return lo
	}
	if v > hi {
		return hi
	}
	return v
}
`

const srcMultiGeom = `// package geom
import "math"

type Point: struct {
	X, Y: f64
}

global Origin = Point{0, 0}

func Scale(p: Point, k: f64) => Point {
	return Point{p.X * k, p.Y * k}
}

func Dist(a, b: Point) => f64 {
	return math.Sqrt((a.X-b.X)*(a.X-b.X) + (a.Y-b.Y)*(a.Y-b.Y))
}
`

const srcMultiShapes = `// package geom, second file
import "strconv"

type Shape: interface {
	Area() => f64
	Name() => string
}

type Rect: struct {
	W, H: f64
}

type Circle: struct {
	R: f64
}

func NewRect(w, h: f64) => *Rect { return &Rect{w, h} }
func NewCircle(r: f64) => *Circle { return &Circle{r} }

func Rect.Area() => f64 { return this.W * this.H }
func Rect.Name() => string { return "rect" + strconv.Itoa(int(this.W)) }
func Circle.Area() => f64 { return 3.14 * this.R * this.R }
func Circle.Name() => string { return "circle" }
`

const srcMultiStore = `// package store
import "errors"

type DB: struct {
	m:     map[string]int
	order: []string
}

global ErrMissing = errors.New("missing")

func New() => *DB {
	return &DB{m: make(map[string]int)}
}

func DB.Put(k: string, v: int) {
	if _, ok := this.m[k]; !ok {
		this.order = append(this.order, k)
	}
	this.m[k] = v
}

func DB.Get(k: string) => (int, error) {
	v, ok := this.m[k]
	if !ok {
		return 0, ErrMissing
	}
	return v, nil
}

func DB.Keys() => []string {
	out: []string
	for _, k := range this.order {
		out = append(out, k)
	}
	return out
}
`

const srcMultiCodec = `// package store, second file
import "bytes"
import "encoding/hex"
import "strconv"

func Encode(db: *DB) => string {
	buf: bytes.Buffer
	for _, k := range db.order {
		buf.WriteString(k)
		buf.WriteByte('=')
		buf.WriteString(strconv.Itoa(db.m[k]))
		buf.WriteByte(';')
	}
	return hex.EncodeToString(buf.Bytes())
}
`

const srcMultiZh = `注: 中文子包

函数·Jia(x, y: 整型) => 整型:
	返回 x + y
完毕
`

const srcTestLib = `// unit-test mode program
import "utest/inner"

type Queue: struct {
	items: []string
}

func Queue.Push(s: string) { this.items = append(this.items, s) }
func Queue.Len() => int { return len(this.items) }
func Queue.Join() => string {
	out := ""
	for i, s := range this.items {
		if i > 0 {
			out += "+"
		}
		out += s
	}
	return out
}

func Double(x: int) => int { return inner.Twice(x) }

func main {
	q: Queue
	q.Push("a")
	println(q.Join(), Double(21))
}
`

const srcTestLibTest = `import "errors"

func TestQueue {
	q: Queue
	q.Push("a")
	q.Push("b")
	assert(q.Len() == 2, "len")
	assert(q.Join() == "a+b")
}

func TestDouble {
	for i := 0; i < 4; i++ {
		assert(Double(i) == i*2, errors.New("double").Error())
	}
}

func ExampleQueue {
	q: Queue
	q.Push("x")
	q.Push("y")
	println(q.Join())

	// Output:
	// x+y
}
`

const srcTestMore = `func TestTable {
	cases := map[string]int{"a": 1, "bb": 2, "ccc": 3}
	for k, v := range cases {
		assert(len(k) == v, k)
	}
}

func ExampleDouble {
	println(Double(4))

	// Output:
	// 8
}

func helperOnlyInTests(x: int) => int { return x + 1 }

func TestHelper {
	assert(helperOnlyInTests(1) == 2)
}
`

const srcTestInner = `func Twice(x: int) => int { return x * 2 }
`

const srcManyStd = `// imports a large part of waroot/src
import "bufio"
import "bytes"
import "container/heap"
import "container/list"
import "container/ring"
import "crypto/md5"
import "encoding/base32"
import "encoding/base64"
import "encoding/binary"
import "encoding/hex"
import "errors"
import "fmt"
import "hash/adler32"
import "hash/crc32"
import "hash/fnv"
import "image"
import "image/color"
import "io"
import "math"
import "math/big"
import "math/bits"
import "math/cmplx"
import "os"
import "regexp"
import "sort"
import "strconv"
import "strings"
import "unicode"
import "unicode/utf16"
import "unicode/utf8"

type IntHeap: []int

func IntHeap.Len() => int { return len(*this) }
func IntHeap.Less(i, j: int) => bool { return (*this)[i] < (*this)[j] }
func IntHeap.Swap(i, j: int) { (*this)[i], (*this)[j] = (*this)[j], (*this)[i] }
func IntHeap.Push(x: interface{}) { *this = append(*this, x.(int)) }
func IntHeap.Pop() => interface{} {
	old := *this
	n := len(old)
	x := old[n-1]
	*this = old[0 : n-1]
	return x
}

func main {
	buf: bytes.Buffer
	w := bufio.NewWriter(&buf)
	w.WriteString("hello")
	w.Flush()
	fmt.Println(buf.String(), strings.ToUpper("x"), strconv.Itoa(42))

	h := &IntHeap{5, 2, 8}
	heap.Init(h)
	heap.Push(h, 3)
	println(heap.Pop(h).(int))

	l := list.New()
	l.PushBack(1)
	println(l.Len(), ring.New(3).Len())

	d := md5.New()
	d.Write([]byte("abc"))
	println(hex.EncodeToString(d.Sum(nil)))
	println(base32.StdEncoding.EncodeToString([]byte("ab")), base64.StdEncoding.EncodeToString([]byte("ab")))
	println(binary.LittleEndian.Uint32([]byte{1, 2, 3, 4}))
	println(errors.New("e").Error())
	println(adler32.Checksum([]byte("a")), crc32.ChecksumIEEE([]byte("a")))
	f := fnv.New32a()
	f.Write([]byte("a"))
	println(f.Sum32())

	img := image.NewRGBA(2, 2)
	img.SetRGBA(0, 0, color.RGBAFrom(1, 2, 3, 4))
	c := img.RGBAAt(0, 0)
	println(c.G())

	_ = io.EOF
	println(math.Sqrt(2) > 1, bits.OnesCount32(7), cmplx.Abs(complex(3, 4)))
	println(big.NewInt("7").Sign())
	println(len(os.Args) >= 0)
	println(regexp.Match("a*b", "aab"))
	xs := []int{3, 1, 2}
	sort.Ints(xs)
	println(xs[0])
	println(unicode.MaxRune > 0, len(utf16.Encode([]rune("a"))), utf8.RuneLen('é'))
}
`
