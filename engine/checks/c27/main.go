//go:build go1.21

// C27 — compilation is deterministic: compiling the same sources with the same configuration
// twice, in the same process or in different processes, produces byte-identical WebAssembly text
// and binary.
//
// The compile path has no goroutines; its only nondeterminism is Go map iteration (random start
// bucket/offset per `for range`) and the hash seeds (per-process key material, per-map hash0).
// This check OWNS that nondeterminism: the binary is linked against copies of runtime/map.go,
// alg.go and rand.go derived at build time from the stock GOROOT (tools/patch_runtime.py, via
// prebuild.sh + overlay) in which
//   - the hash key material and every per-map seed are one of 3 constants (per worker process,
//     VERIF_MAPCTL=1..3), and
//   - the iteration start r of every `for range m` is looked up per STATIC call site in a control
//     table the explorer writes (default 0).
//
// Exploration (CHESS-style iterated deviation bound over the schedule "r per site"):
//
//	bound 0: all sites at r=0, under each of the 3 hash constants      -> baseline + sites reached
//	bound 1: every reached site x every r in R deviating alone           (quick: constant 1; thorough: all 3)
//	bound 2: every pair of order-capable sites x R2 x R2                 (thorough, smaller programs)
//
// plus the plain clauses with the STOCK randomness (control off): same-process double compile and
// compiles in two different processes. Oracle: WAT text, wasm bytes and the FileSet JSON are
// byte-identical to the baseline.
package main

import (
	"crypto/sha256"
	"encoding/hex"
	"encoding/json"
	"fmt"
	"os"
	"path/filepath"
	"regexp"
	"runtime"
	"sort"
	"strings"
	"sync"
	"syscall"
	"testing/fstest"
	"time"
	"unsafe"

	"wa-lang.org/wa/api"
	"wa-lang.org/wa/internal/backends/compiler_wat"
	"wa-lang.org/wa/internal/config"
	"wa-lang.org/wa/internal/wat/watutil"
	"wa-lang.org/wa/internal/zzverif/mc"
	wasrc "wa-lang.org/wa/waroot/src"
)

// ---------------------------------------------------------------------------------------------
// the controlled runtime (see tools/patch_runtime.py)

//go:linkname verifCtl runtime.verifCtl
func verifCtl(op int, a, b uintptr) uintptr

//go:linkname verifTable runtime.verifTable
func verifTable() (unsafe.Pointer, int)

// slot mirrors runtime.verifSlot.
type slot struct {
	pc, r                   uintptr
	n, nmulti, maxcnt, maxB uint64
	neff                    uint64
}

const (
	opMode = iota
	opSetR
	opResetR
	opResetCounts
	opRecord
	opOverflow
)

func slots() []slot {
	p, n := verifTable()
	return unsafe.Slice((*slot)(p), n)
}

// ---------------------------------------------------------------------------------------------
// worker

type Dev struct {
	PCs []uint64
	R   uint64
}

type Job struct {
	Kind      string // "compile" | "selftest"
	Prog      int
	Devs      []Dev
	Full      bool // return the complete outputs
	Twice     bool // compile twice in this process, return both digests
	Sites     bool // return the table of sites reached during the compile
	CorpusDir string
}

type SiteRec struct {
	PC                      uint64
	Func, File              string
	Line                    int
	Outer                   string
	N, NMulti, MaxCnt, MaxB uint64
}

type Digest struct {
	Err             string
	Wat, Wasm, Fset string // sha256
	NWat, NWasm     int
}

func (d Digest) same(o Digest) bool {
	return d.Err == o.Err && d.Wat == o.Wat && d.Wasm == o.Wasm && d.Fset == o.Fset
}

type Out struct {
	Mode     int
	PID      int
	D        Digest
	D2       *Digest `json:",omitempty"`
	FullWat  string  `json:",omitempty"`
	FullFset string  `json:",omitempty"`
	FullWasm []byte  `json:",omitempty"`
	Sites    []SiteRec
	Overflow int
	BadPC    string `json:",omitempty"`
	Self     string `json:",omitempty"`
	HeapMB   int
	CPUms    int
	Eff      uint64 // iterations (>= 2 elements) whose start differed from the r=0 start
}

func sha(b []byte) string { h := sha256.Sum256(b); return hex.EncodeToString(h[:12]) }

func compileOnce(p *corpusProg, dir string) (wat, wasm, fset []byte, err error) {
	if pn := mc.Recover(func() {
		cfg := api.DefaultConfig()
		cfg.UnitTest = p.Test
		switch p.Kind {
		case "file":
			_, wat, fset, err = api.BuildFile(cfg, p.Main, p.Files[p.Main])
			if err != nil {
				return
			}
		case "vfs", "dir":
			var prog *api.Program
			if p.Kind == "vfs" {
				mfs := fstest.MapFS{}
				for name, src := range p.Files {
					// the App file system is the project's src directory (as loader.loadProgramMeta sets it up)
					mfs[strings.TrimPrefix(name, "src/")] = &fstest.MapFile{Data: []byte(src), Mode: 0o644}
				}
				// Std is set explicitly: loader.loadProgram fills a nil Std only in the caller's struct, after copying it
				prog, err = api.LoadProgramVFS(&config.PkgVFS{App: mfs, Std: wasrc.GetStdFS()}, cfg, p.Main)
			} else {
				prog, err = api.LoadProgram(cfg, filepath.Join(dir, p.Main))
			}
			if err != nil {
				return
			}
			var out string
			out, err = compiler_wat.New().Compile(prog)
			if err != nil {
				return
			}
			wat = []byte(out)
			fset = prog.Fset.ToJson()
		}
		wasm, err = watutil.Wat2Wasm(p.Name+".wat", wat)
	}); pn != "" {
		return nil, nil, nil, fmt.Errorf("compiler panic: %s", pn)
	}
	return
}

func digest(wat, wasm, fset []byte, err error) Digest {
	if err != nil {
		return Digest{Err: firstLine(err.Error())}
	}
	return Digest{Wat: sha(wat), Wasm: sha(wasm), Fset: sha(fset), NWat: len(wat), NWasm: len(wasm)}
}

func firstLine(s string) string {
	if i := strings.IndexByte(s, '\n'); i >= 0 {
		s = s[:i]
	}
	if len(s) > 300 {
		s = s[:300]
	}
	return s
}

// selfIter is the self-test site: one static `for range` in the harness.
//
//go:noinline
func selfIter(m map[string]int) string {
	var b strings.Builder
	for k := range m {
		b.WriteString(k)
		b.WriteByte(' ')
	}
	return b.String()
}

func resolve(pc uint64) SiteRec {
	fr := runtime.CallersFrames([]uintptr{uintptr(pc)})
	f, more := fr.Next()
	rec := SiteRec{PC: pc, Func: f.Function, File: f.File, Line: f.Line, Outer: f.Function}
	for more {
		f, more = fr.Next()
		if f.Function != "" {
			rec.Outer = f.Function
		}
	}
	return rec
}

var lastCPU time.Duration

func handleJob(raw json.RawMessage) interface{} {
	var j Job
	if err := json.Unmarshal(raw, &j); err != nil {
		return Out{D: Digest{Err: "bad job: " + err.Error()}}
	}
	out := Out{Mode: int(verifCtl(opMode, 0, 0)), PID: os.Getpid()}
	ctl := out.Mode != 0
	if ctl {
		verifCtl(opResetR, 0, 0)
		for _, d := range j.Devs {
			for _, pc := range d.PCs {
				if verifCtl(opSetR, uintptr(pc), uintptr(d.R)) == 0 {
					out.BadPC = "control table full"
				}
			}
		}
		verifCtl(opResetCounts, 0, 0)
	}
	switch j.Kind {
	case "selftest":
		m := map[string]int{}
		for i := 0; i < 20; i++ {
			m[fmt.Sprintf("k%02d", i)] = i
		}
		small := map[string]int{"a": 1, "b": 2, "c": 3}
		verifCtl(opRecord, 1, 0)
		s1 := selfIter(m)
		s2 := selfIter(small)
		verifCtl(opRecord, 0, 0)
		out.Self = s1 + "| " + s2
	case "compile":
		p := &corpus[j.Prog]
		verifCtl(opRecord, 1, 0)
		wat, wasm, fset, err := compileOnce(p, j.CorpusDir)
		verifCtl(opRecord, 0, 0)
		out.D = digest(wat, wasm, fset, err)
		if j.Full && err == nil {
			out.FullWat, out.FullFset, out.FullWasm = string(wat), string(fset), wasm
		}
		if j.Twice {
			d2 := digest(compileOnce(p, j.CorpusDir))
			out.D2 = &d2
		}
	}
	if ctl {
		for _, s := range slots() {
			out.Eff += s.neff
		}
	}
	if ctl && (j.Sites || j.Kind == "selftest") {
		for _, s := range slots() {
			if s.pc != 0 && s.n > 0 {
				rec := resolve(uint64(s.pc))
				rec.N, rec.NMulti, rec.MaxCnt, rec.MaxB = s.n, s.nmulti, s.maxcnt, s.maxB
				out.Sites = append(out.Sites, rec)
			}
		}
		sort.Slice(out.Sites, func(a, b int) bool { return out.Sites[a].PC < out.Sites[b].PC })
	}
	out.Overflow = int(verifCtl(opOverflow, 0, 0))
	var ms runtime.MemStats
	runtime.ReadMemStats(&ms)
	out.HeapMB = int(ms.Sys >> 20)
	var ru syscall.Rusage
	syscall.Getrusage(syscall.RUSAGE_SELF, &ru)
	cpu := time.Duration(ru.Utime.Nano() + ru.Stime.Nano())
	out.CPUms = int((cpu - lastCPU) / time.Millisecond)
	lastCPU = cpu
	return out
}

// ---------------------------------------------------------------------------------------------
// explorer

// A site is one static `for range <map>` statement: (function, file:line). Inlined copies of the
// statement have different pcs; they are controlled together.
type site struct {
	Key    string // violation-key part: function|range <expr>
	Loc    string // repo-relative file:line
	Func   string
	Class  string // "wa" (inside wa-lang.org/wa/..., the compiler) or "other" (standard library reached while compiling)
	PCs    []uint64
	N      uint64
	NMulti uint64
	MaxCnt uint64
	MaxB   uint64
}

func (s *site) capable() bool { return s.NMulti > 0 }

var rangeRe = regexp.MustCompile(`\brange\s+(.+?)\s*\{\s*(//.*)?$`)

var srcCache sync.Map

func sourceLine(file string, line int) string {
	v, ok := srcCache.Load(file)
	if !ok {
		data, _ := os.ReadFile(file)
		v = strings.Split(string(data), "\n")
		srcCache.Store(file, v)
	}
	lines := v.([]string)
	if line >= 1 && line <= len(lines) {
		return strings.TrimSpace(lines[line-1])
	}
	return ""
}

func groupSites(recs []SiteRec) []*site {
	repo := mc.RepoDir() + "/"
	byKey := map[string]*site{}
	var order []string
	for _, rc := range recs {
		file := strings.TrimPrefix(rc.File, repo)
		loc := fmt.Sprintf("%s:%d", file, rc.Line)
		id := rc.Func + "@" + loc
		s := byKey[id]
		if s == nil {
			expr := "?"
			if m := rangeRe.FindStringSubmatch(sourceLine(rc.File, rc.Line)); m != nil {
				expr = m[1]
			}
			fn := strings.TrimPrefix(rc.Func, "wa-lang.org/wa/")
			class := "other"
			if strings.HasPrefix(rc.Func, "wa-lang.org/wa/") {
				class = "wa"
			}
			s = &site{Key: fn + "|range " + expr, Loc: loc, Func: rc.Func, Class: class}
			byKey[id] = s
			order = append(order, id)
		}
		s.PCs = append(s.PCs, rc.PC)
		s.N += rc.N
		s.NMulti += rc.NMulti
		s.MaxCnt = max(s.MaxCnt, rc.MaxCnt)
		s.MaxB = max(s.MaxB, rc.MaxB)
	}
	sort.Strings(order)
	// same function + same expression twice: number them
	seen := map[string]int{}
	var out []*site
	for _, id := range order {
		s := byKey[id]
		seen[s.Key]++
		if n := seen[s.Key]; n > 1 {
			s.Key = fmt.Sprintf("%s#%d", s.Key, n)
		}
		out = append(out, s)
	}
	return out
}

// excluded: harness code and the embedded wasm engine (not part of the compile path)
func excludedSite(fn string) bool {
	return strings.Contains(fn, "/internal/zzverif/") || strings.Contains(fn, "/internal/3rdparty/wazero") ||
		strings.HasPrefix(fn, "main.")
}

var numRe = regexp.MustCompile(`[0-9]+`)

var strRe = regexp.MustCompile(`"[^"]*"?`)

func normLine(s string) string {
	s = strings.TrimSpace(s)
	s = strRe.ReplaceAllString(s, `"..."`)
	s = numRe.ReplaceAllString(s, "N")
	return clip(s, 80)
}

func clip(s string, n int) string {
	s = strings.TrimSpace(s)
	if len(s) > n {
		s = s[:n] + "..."
	}
	return s
}

// firstDiffNonData is firstDiff ignoring data-segment lines (which differ first whenever the
// layout of the data segment shifts and say little about the cause).
func firstDiffNonData(a, b string) (int, string, string) {
	keep := func(s string) string {
		var out []string
		for _, l := range strings.Split(s, "\n") {
			if !strings.HasPrefix(strings.TrimSpace(l), "(data ") {
				out = append(out, l)
			}
		}
		return strings.Join(out, "\n")
	}
	return firstDiff(keep(a), keep(b))
}

// firstDiff returns the 1-based line number and the two lines at the first difference.
func firstDiff(a, b string) (int, string, string) {
	la, lb := strings.Split(a, "\n"), strings.Split(b, "\n")
	for i := 0; i < len(la) || i < len(lb); i++ {
		var x, y string
		if i < len(la) {
			x = la[i]
		}
		if i < len(lb) {
			y = lb[i]
		}
		if x != y {
			return i + 1, x, y
		}
	}
	return 0, "", ""
}

type sched struct {
	Prog  int
	K     int   // hash constant (0 = stock randomness)
	Sites []int // indices into sites[prog]
	Rs    []uint64
	Phase string
}

type mismatch struct {
	S      sched
	Status string
	Got    Digest
	Stderr string
}

type explorer struct {
	r           *mc.Run
	dir         string
	pools       map[int]*mc.Pool // by hash constant; 0 = stock
	stock2      *mc.Pool
	base        []Out     // per program: baseline (constant 1), full outputs
	sites       [][]*site // per program (constant 1 baseline)
	mu          sync.Mutex
	mism        []mismatch
	heapMax     int
	cpuMs       int64
	ineffective int
	transient   []string
	horizon     time.Duration
}

func (e *explorer) job(s sched, full bool) Job {
	j := Job{Kind: "compile", Prog: s.Prog, Full: full, CorpusDir: e.dir}
	for i, si := range s.Sites {
		j.Devs = append(j.Devs, Dev{PCs: e.sites[s.Prog][si].PCs, R: s.Rs[i]})
	}
	return j
}

func decode(res mc.Result) (Out, string) {
	if res.Status != "ok" {
		return Out{}, res.Status
	}
	var o Out
	if err := json.Unmarshal(res.Out, &o); err != nil {
		return Out{}, "bad-output"
	}
	return o, "ok"
}

// runAll runs the schedules on the pool of their hash constant and collects mismatches against
// the baseline of the program.
func (e *explorer) runAll(k int, all []sched) {
	// batches, so that the internal deadline can stop the exploration (exhaustive=false then)
	const batch = 128
	for lo := 0; lo < len(all); lo += batch {
		if e.r.Expired() {
			e.r.Cap("deadline")
			return
		}
		e.runBatch(k, all[lo:min(lo+batch, len(all))])
	}
}

func (e *explorer) runBatch(k int, list []sched) {
	e.pools[k].Run(len(list), func(i int) interface{} { return e.job(list[i], false) }, e.horizon, func(res mc.Result) {
		s := list[res.Index]
		e.r.Evals.Add(1)
		e.r.States.Add(1)
		o, st := decode(res)
		if st == "ok" {
			if o.Mode != k {
				e.r.HarnessError("worker of pool %d reports control mode %d", k, o.Mode)
				return
			}
			if o.BadPC != "" || o.Overflow > 0 {
				e.r.HarnessError("control table problem: %s overflow=%d", o.BadPC, o.Overflow)
			}
			e.mu.Lock()
			e.heapMax = max(e.heapMax, o.HeapMB)
			e.cpuMs += int64(o.CPUms)
			e.mu.Unlock()
			if o.Eff > 0 {
				// non-trivial schedule: at least one iteration over >= 2 elements started elsewhere than in the baseline
				e.r.Distinct(fmt.Sprintf("sched|%d|%d|%v|%v", s.Prog, s.K, s.Sites, s.Rs))
			} else {
				e.mu.Lock()
				e.ineffective++
				e.mu.Unlock()
			}
			if o.D.same(e.base[s.Prog].D) {
				return
			}
		}
		e.mu.Lock()
		e.mism = append(e.mism, mismatch{S: s, Status: st, Got: o.D, Stderr: res.Stderr})
		e.mu.Unlock()
	})
}

// one runs a single job alone and returns its output.
func (e *explorer) one(k int, j Job) (Out, string, string) {
	var o Out
	var st, se string
	e.pools[k].Run(1, func(int) interface{} { return j }, e.horizon, func(res mc.Result) {
		o, st = decode(res)
		se = res.Stderr
	})
	e.r.Evals.Add(1)
	return o, st, se
}

func (e *explorer) describe(s sched) (string, []string) {
	var keys, locs []string
	for i, si := range s.Sites {
		st := e.sites[s.Prog][si]
		keys = append(keys, st.Key)
		locs = append(locs, fmt.Sprintf("%s (%s) r=%d", st.Key, st.Loc, s.Rs[i]))
	}
	if len(keys) == 0 {
		switch {
		case s.K == 0:
			keys = []string{"stock-randomness/" + s.Phase}
		default:
			keys = []string{"hash-constant"}
		}
		locs = []string{fmt.Sprintf("%s (hash constant %d, all sites r=0)", keys[0], s.K)}
	}
	return strings.Join(keys, " + "), locs
}

// classify turns the collected mismatches into canonical violations: smallest witness first, one
// key per (site set, kind of output); each is re-run (with full outputs) to obtain the first
// differing line and to tell an owned difference from one the control does not reach.
func (e *explorer) classify() {
	sort.SliceStable(e.mism, func(a, b int) bool {
		x, y := e.mism[a].S, e.mism[b].S
		if len(x.Sites) != len(y.Sites) {
			return len(x.Sites) < len(y.Sites)
		}
		if x.Prog != y.Prog {
			return x.Prog < y.Prog
		}
		if x.K != y.K {
			return x.K < y.K
		}
		for i := range x.Sites {
			if x.Sites[i] != y.Sites[i] {
				return x.Sites[i] < y.Sites[i]
			}
		}
		for i := range x.Rs {
			if x.Rs[i] != y.Rs[i] {
				return x.Rs[i] < y.Rs[i]
			}
		}
		return x.Phase < y.Phase
	})
	done := map[string]bool{}
	blamed := map[string]bool{} // single sites already reported: pairs containing them add nothing
	nconfirm := 0
	for _, m := range e.mism {
		s := m.S
		name, locs := e.describe(s)
		if done[name] {
			continue
		}
		if len(s.Sites) == 2 {
			st := e.sites[s.Prog]
			if blamed[st[s.Sites[0]].Key] || blamed[st[s.Sites[1]].Key] {
				continue
			}
		}
		done[name] = true
		if nconfirm >= 40 {
			e.r.Report(name+"|unconfirmed", fmt.Sprintf("program %s: outputs differ from the baseline (%s); not re-run (more than 40 differing sites)", corpus[s.Prog].Name, strings.Join(locs, "; ")), s)
			continue
		}
		nconfirm++
		base := e.base[s.Prog]
		// re-run alone: the deviated schedule (full outputs) and the baseline schedule
		var got Out
		var st, se string
		reproduced := 0
		reruns := 3
		if m.Status != "ok" {
			reruns = 5 // a crash / hang is re-run 5x alone before it is believed
		}
		for i := 0; i < reruns; i++ {
			o, s2, se2 := e.one(s.K, e.job(s, true))
			if i == 0 {
				got, st, se = o, s2, se2
			}
			if s2 != "ok" || !o.D.same(base.D) {
				reproduced++
				if got.D.same(base.D) && st == "ok" {
					got, st, se = o, s2, se2
				}
			}
		}
		b2, bst, _ := e.one(1, e.job(sched{Prog: s.Prog, K: 1}, false))
		replay := map[string]interface{}{
			"program": corpus[s.Prog].Name, "hash_constant": s.K, "phase": s.Phase, "schedule": locs,
			"reproduced": fmt.Sprintf("%d/%d", reproduced, reruns), "files": corpus[s.Prog].Files,
		}
		if bst != "ok" || !b2.D.same(base.D) {
			e.r.Report("unowned|"+corpus[s.Prog].Name, fmt.Sprintf("program %s: the baseline schedule (all sites at r=0, hash constant fixed) does not reproduce its own output: a source of nondeterminism outside map iteration start / hash seeds (e.g. address-dependent order)", corpus[s.Prog].Name), replay)
			continue
		}
		if reproduced == 0 && m.Status != "ok" {
			// a worker that died / timed out once and never again: machine trouble, not evidence
			e.transient = append(e.transient, fmt.Sprintf("%s: worker %s once under [%s], 0/%d on re-run", corpus[s.Prog].Name, m.Status, strings.Join(locs, "; "), reruns))
			e.r.Cap("unreproduced worker failure")
			done[name] = false
			continue
		}
		if reproduced == 0 {
			e.r.Report(name+"|unstable", fmt.Sprintf("program %s: one compile under schedule [%s] differed from the baseline (%+v) but 3 re-runs did not: nondeterminism the control does not reach", corpus[s.Prog].Name, strings.Join(locs, "; "), m.Got), replay)
			continue
		}
		if st != "ok" {
			replay["stderr"] = se
			e.r.Report(name+"|"+st, fmt.Sprintf("program %s: compiler %s under schedule [%s]; baseline compiles", corpus[s.Prog].Name, st, strings.Join(locs, "; ")), replay)
			for _, si := range s.Sites {
				blamed[e.sites[s.Prog][si].Key] = len(s.Sites) == 1
			}
			continue
		}
		var kind, line, what string
		switch {
		case got.D.Err != "":
			kind, line = "error", normLine(got.D.Err)
			what = "compile error: " + got.D.Err
		case got.D.Wat != base.D.Wat:
			n, x, y := firstDiff(base.FullWat, got.FullWat)
			kind, line = "wat", normLine(x)
			what = fmt.Sprintf("WAT differs first at line %d: baseline %q, deviated %q", n, clip(x, 160), clip(y, 160))
			replay["wat_line"], replay["baseline_line"], replay["deviated_line"] = n, clip(x, 400), clip(y, 400)
			if strings.HasPrefix(strings.TrimSpace(x), "(data ") {
				if n2, x2, y2 := firstDiffNonData(base.FullWat, got.FullWat); n2 > 0 {
					what += fmt.Sprintf("; first differing non-data line: baseline %q, deviated %q", clip(x2, 160), clip(y2, 160))
					replay["baseline_nondata_line"], replay["deviated_nondata_line"] = clip(x2, 400), clip(y2, 400)
				}
			}
		case got.D.Wasm != base.D.Wasm:
			kind, line = "wasm", "same-wat"
			what = "WAT identical but wasm bytes differ (watutil.Wat2Wasm)"
		default:
			n, x, y := firstDiff(strings.ReplaceAll(base.FullFset, ",", ",\n"), strings.ReplaceAll(got.FullFset, ",", ",\n"))
			kind, line = "fset", normLine(x)
			what = fmt.Sprintf("FileSet JSON differs at element %d: baseline %q, deviated %q", n, clip(x, 160), clip(y, 160))
		}
		e.r.Report(name+"|"+kind+"|"+line, fmt.Sprintf("program %s, schedule [%s] (reproduced %d/%d): %s", corpus[s.Prog].Name, strings.Join(locs, "; "), reproduced, reruns, what), replay)
		if len(s.Sites) == 1 {
			blamed[e.sites[s.Prog][s.Sites[0]].Key] = true
		}
	}
}

var (
	rBound1Quick    = []uint64{1, 7, 8, 9, 1027}
	rBound1Thorough = []uint64{1, 2, 3, 4, 5, 6, 7, 8, 9, 1027}
	rBound2         = []uint64{1, 1027}
)

// restrictCorpus is a developer knob (mutant runs on a loaded machine): VERIF_C27_ONLY=name,name
// keeps only those corpus programs, in the explorer and (inherited environment) in its workers.
// The run is then marked capped (exhaustive=false).
func restrictCorpus() string {
	only := os.Getenv("VERIF_C27_ONLY")
	if only == "" {
		return ""
	}
	var keep []corpusProg
	for _, p := range corpus {
		if strings.Contains(","+only+",", ","+p.Name+",") {
			keep = append(keep, p)
		}
	}
	corpus = keep
	return only
}

func main() {
	only := restrictCorpus()
	if mc.IsWorker() {
		mc.WorkerMain(handleJob)
		return
	}
	r := mc.Start("C27")
	r.Rule("schedule = (hash constant k in 1..3; iteration start r per static `for range <map>` site); bound 0: all r=0 under every k; " +
		"bound 1: every site reached while compiling x every r in R deviates alone; bound 2 (thorough): every pair of order-capable sites x R2 x R2; " +
		"plus stock-randomness double compile in one process and in two processes. A schedule counts as distinct/non-trivial when at least one iteration over >= 2 elements started at another (bucket, offset) than in the baseline (measured in the runtime). Outcome = (sha256 WAT, sha256 wasm, sha256 FileSet JSON) per program; all must equal the baseline")
	rs := mc.Pick(r, rBound1Quick, rBound1Thorough)
	ks := mc.Pick(r, []int{1}, []int{1, 2, 3})
	r.Bound("programs", len(corpus))
	r.Bound("hash_constants_bound0", 3)
	r.Bound("hash_constants_bound1", len(ks))
	r.Bound("r_values_bound1", rs)
	if r.Thorough() {
		r.Bound("r_values_bound1_hash_constants_2_3", rBound1Quick)
	}
	r.Bound("deviation_bound", mc.Pick(r, 1, 2))
	if r.Thorough() {
		r.Bound("r_values_bound2", rBound2)
	}
	r.Assume("the compile path starts no goroutines, so Go map iteration start and hash seeds are its only schedule (statement's quantifier: every map-iteration / hash-seed schedule)")
	r.Assume("explored orders are those the real go1.23 runtime can realise (rotations of the bucket walk: start bucket r&mask, in-bucket offset (r>>B)&7), not arbitrary permutations; for maps of <= 8 elements r in 1..7 is every realisable order")
	r.Assume("hash of pointer-typed keys depends on heap addresses, which the control does not pin (workers run with GOMAXPROCS=1 to keep them stable); any output difference is still a violation of the statement")

	if only != "" {
		r.Cap("VERIF_C27_ONLY=" + only)
	}
	e := &explorer{r: r, pools: map[int]*mc.Pool{}, horizon: 15 * time.Minute}
	nw := mc.NWorkers()
	for k := 1; k <= 3; k++ {
		e.pools[k] = mc.NewPool(nw, []string{fmt.Sprintf("VERIF_MAPCTL=%d", k), "GOMAXPROCS=1", "GOGC=50"})
	}
	e.pools[0] = mc.NewPool(len(corpus), []string{"VERIF_MAPCTL=", "GOMAXPROCS=2"})
	e.stock2 = mc.NewPool(len(corpus), []string{"VERIF_MAPCTL=", "GOMAXPROCS=2"})
	closeAll := func() {
		for _, p := range e.pools {
			p.Close()
		}
		e.stock2.Close()
		if e.dir != "" {
			os.RemoveAll(e.dir)
		}
	}
	fail := func(format string, a ...interface{}) {
		r.HarnessError(format, a...)
		closeAll()
		r.Finish()
	}

	// corpus directory for the "dir" programs
	dir, err := os.MkdirTemp("", "c27-corpus-")
	if err != nil {
		fail("mkdtemp: %v", err)
	}
	e.dir = dir
	for _, p := range corpus {
		if p.Kind != "dir" {
			continue
		}
		for name, src := range p.Files {
			fn := filepath.Join(dir, p.Main, name)
			os.MkdirAll(filepath.Dir(fn), 0o755)
			if err := os.WriteFile(fn, []byte(src), 0o644); err != nil {
				fail("write corpus: %v", err)
			}
		}
	}

	// ---- self-test of the control: it must really own the order -------------------------------
	if verifCtl(opMode, 0, 0) != 0 {
		fail("the explorer process itself runs in controlled mode")
	}
	selfRun := func(k int, n int, devs []Dev) []Out {
		outs := make([]Out, n)
		e.pools[k].Run(n, func(int) interface{} { return Job{Kind: "selftest", Devs: devs} }, e.horizon, func(res mc.Result) {
			o, st := decode(res)
			if st != "ok" {
				r.HarnessError("selftest worker %s: %s", st, res.Stderr)
			}
			outs[res.Index] = o
		})
		return outs
	}
	selfOrders := map[int]string{}
	var selfPCs []uint64
	for k := 1; k <= 3; k++ {
		outs := selfRun(k, nw, nil)
		for _, o := range outs {
			if o.Mode != k {
				fail("selftest: worker of pool %d reports control mode %d (patched runtime not in effect?)", k, o.Mode)
			}
			if o.Self != outs[0].Self {
				fail("selftest: iteration order differs between processes under control (k=%d): %q vs %q", k, o.Self, outs[0].Self)
			}
		}
		selfOrders[k] = outs[0].Self
		if k == 1 {
			for _, s := range outs[0].Sites {
				if s.Func == "main.selfIter" {
					selfPCs = append(selfPCs, s.PC)
				}
			}
		}
	}
	if len(selfPCs) == 0 {
		fail("selftest: the site main.selfIter was not recorded")
	}
	if selfOrders[1] == selfOrders[2] || selfOrders[1] == selfOrders[3] || selfOrders[2] == selfOrders[3] {
		fail("selftest: hash constants do not change the order of a 20-element map: %v", selfOrders)
	}
	selfDistinct := map[string]bool{selfOrders[1]: true}
	for _, rv := range rBound1Thorough {
		o := selfRun(1, 1, []Dev{{PCs: selfPCs, R: rv}})[0]
		selfDistinct[o.Self] = true
	}
	if len(selfDistinct) < 8 {
		fail("selftest: deviating r at one site produced only %d distinct orders", len(selfDistinct))
	}
	if o := selfRun(1, 1, []Dev{{PCs: []uint64{selfPCs[0] + 4096}, R: 1}})[0]; o.Self != selfOrders[1] {
		fail("selftest: deviating another site changed the order at main.selfIter")
	}
	r.Extra("selftest", map[string]interface{}{"site_pcs": len(selfPCs), "distinct_orders_by_r": len(selfDistinct), "orders_by_hash_constant": 3, "identical_across_processes": nw})

	// ---- bound 0: baselines ------------------------------------------------------------------
	np := len(corpus)
	e.base = make([]Out, np)
	e.sites = make([][]*site, np)
	baseK := make([][]Out, 4)
	for k := 1; k <= 3; k++ {
		baseK[k] = make([]Out, np)
		k := k
		e.pools[k].Run(np, func(i int) interface{} {
			return Job{Kind: "compile", Prog: i, Full: k == 1, Sites: true, CorpusDir: dir}
		}, e.horizon, func(res mc.Result) {
			o, st := decode(res)
			r.Evals.Add(1)
			r.States.Add(1)
			if st != "ok" {
				r.HarnessError("baseline compile of %s (k=%d): worker %s: %s", corpus[res.Index].Name, k, st, res.Stderr)
				return
			}
			if o.D.Err != "" {
				r.HarnessError("corpus program %s does not compile: %s", corpus[res.Index].Name, o.D.Err)
			}
			baseK[k][res.Index] = o
		})
	}
	for i := 0; i < np; i++ {
		e.base[i] = baseK[1][i]
		if e.base[i].D.Wat == "" {
			fail("no baseline for %s", corpus[i].Name)
		}
		var recs []SiteRec
		for _, rc := range e.base[i].Sites {
			if !excludedSite(rc.Func) {
				recs = append(recs, rc)
			}
		}
		e.sites[i] = groupSites(recs)
	}
	// the static sites are the same for every hash constant (same binary, same path); verify
	for k := 2; k <= 3; k++ {
		for i := 0; i < np; i++ {
			if !baseK[k][i].D.same(e.base[i].D) {
				e.mism = append(e.mism, mismatch{S: sched{Prog: i, K: k, Phase: "bound0"}, Status: "ok", Got: baseK[k][i].D})
			}
		}
	}

	type progCov struct {
		Program                                string
		WatBytes, WasmBytes                    int
		SitesWa, SitesOther, SitesOrderCapable int
		Iterations                             uint64
	}
	var cov []progCov
	allSites := map[string]*site{}
	for i := 0; i < np; i++ {
		pc := progCov{Program: corpus[i].Name, WatBytes: e.base[i].D.NWat, WasmBytes: e.base[i].D.NWasm}
		for _, s := range e.sites[i] {
			if s.Class == "wa" {
				pc.SitesWa++
			} else {
				pc.SitesOther++
			}
			if s.capable() {
				pc.SitesOrderCapable++
			}
			pc.Iterations += s.N
			if a := allSites[s.Key]; a == nil {
				c := *s
				allSites[s.Key] = &c
			} else {
				a.N += s.N
				a.NMulti += s.NMulti
				a.MaxCnt = max(a.MaxCnt, s.MaxCnt)
			}
		}
		cov = append(cov, pc)
		if pc.SitesWa < 10 || pc.SitesOrderCapable < 5 {
			r.HarnessError("vacuous: program %s reached only %d compiler sites (%d order-capable)", corpus[i].Name, pc.SitesWa, pc.SitesOrderCapable)
		}
	}
	r.Extra("corpus", cov)
	var siteList []map[string]interface{}
	var keys []string
	for k := range allSites {
		keys = append(keys, k)
	}
	sort.Strings(keys)
	for _, k := range keys {
		s := allSites[k]
		siteList = append(siteList, map[string]interface{}{"site": s.Key, "loc": s.Loc, "class": s.Class, "iterations": s.N, "iterations_ge2": s.NMulti, "max_elems": s.MaxCnt})
	}
	r.Extra("sites", siteList)
	r.Extra("distinct_static_sites", len(allSites))

	// ---- bound 1 -----------------------------------------------------------------------------
	nb1, pruned := 0, 0
	for _, k := range ks {
		var list []sched
		// round-robin over programs so that every worker sees a mix
		maxS := 0
		for i := 0; i < np; i++ {
			maxS = max(maxS, len(e.sites[i]))
		}
		for si := 0; si < maxS; si++ {
			for i := 0; i < np; i++ {
				if si >= len(e.sites[i]) {
					continue
				}
				if !e.sites[i][si].capable() {
					// never iterated a map of >= 2 elements: r cannot change the visit sequence
					if k == ks[0] {
						pruned++
					}
					continue
				}
				rk := rs
				if k != ks[0] {
					rk = rBound1Quick
				}
				for _, rv := range rk {
					list = append(list, sched{Prog: i, K: k, Sites: []int{si}, Rs: []uint64{rv}, Phase: "bound1"})
				}
			}
		}
		nb1 += len(list)
		if r.Expired() {
			r.Cap("deadline")
			break
		}
		e.runAll(k, list)
	}
	r.Extra("bound1_schedules", nb1)
	r.Extra("bound1_sites_pruned_single_element", pruned)
	r.Assume("sites that only ever iterated maps of <= 1 element in the baseline are not deviated: the visit sequence of such a map does not depend on r (sound pruning)")

	// ---- bound 2 (thorough) --------------------------------------------------------------------
	if r.Thorough() {
		var list []sched
		npairs := 0
		for i := 0; i < np; i++ {
			if !corpus[i].Small {
				continue
			}
			var capable []int
			for si, s := range e.sites[i] {
				if s.capable() {
					capable = append(capable, si)
				}
			}
			for a := 0; a < len(capable); a++ {
				for b := a + 1; b < len(capable); b++ {
					npairs++
					for _, r1 := range rBound2 {
						for _, r2 := range rBound2 {
							list = append(list, sched{Prog: i, K: 1, Sites: []int{capable[a], capable[b]}, Rs: []uint64{r1, r2}, Phase: "bound2"})
						}
					}
				}
			}
		}
		r.Extra("bound2_pairs", npairs)
		r.Extra("bound2_schedules", len(list))
		if r.Expired() {
			r.Cap("deadline")
		} else {
			e.runAll(1, list)
		}
	}

	// ---- stock randomness: same process twice, and two different processes ---------------------
	stockOuts := make([][]Out, 2)
	for rep, pool := range []*mc.Pool{e.pools[0], e.stock2} {
		stockOuts[rep] = make([]Out, np)
		rep := rep
		pool.Run(np, func(i int) interface{} {
			return Job{Kind: "compile", Prog: i, Twice: true, CorpusDir: dir}
		}, e.horizon, func(res mc.Result) {
			o, st := decode(res)
			r.Evals.Add(2)
			r.States.Add(2)
			i := res.Index
			if st == "ok" && o.Mode != 0 {
				r.HarnessError("stock worker runs in controlled mode %d", o.Mode)
			}
			stockOuts[rep][i] = o
			// every stock compile runs in a process other than the one that produced the baseline
			if st != "ok" || !o.D.same(e.base[i].D) {
				e.mu.Lock()
				e.mism = append(e.mism, mismatch{S: sched{Prog: i, K: 0, Phase: "cross-process"}, Status: st, Got: o.D, Stderr: res.Stderr})
				e.mu.Unlock()
			}
			if st == "ok" && o.D2 != nil && !o.D2.same(o.D) {
				e.mu.Lock()
				e.mism = append(e.mism, mismatch{S: sched{Prog: i, K: 0, Phase: "same-process"}, Status: st, Got: *o.D2})
				e.mu.Unlock()
			}
		})
	}
	for i := 0; i < np; i++ {
		if a, b := stockOuts[0][i], stockOuts[1][i]; a.PID != 0 && a.PID == b.PID {
			r.HarnessError("cross-process clause ran in one process")
		}
	}
	r.Extra("stock_randomness_compiles", 4*np)
	r.Extra("worker_mem_sys_mb_max", e.heapMax)
	r.Extra("bound_phases_worker_cpu_s", float64(e.cpuMs)/1000)
	r.Extra("schedules_without_effective_deviation", e.ineffective)

	e.classify()
	if len(e.transient) > 0 {
		r.Extra("unreproduced_worker_failures", e.transient)
	}
	r.Sample(map[string]interface{}{"program": corpus[0].Name, "baseline": e.base[0].D, "sites": len(e.sites[0])})
	if len(e.sites[0]) > 0 {
		s := e.sites[0][0]
		r.Sample(map[string]interface{}{"schedule": fmt.Sprintf("%s (%s) r=%d, all other sites r=0, hash constant 1", s.Key, s.Loc, rs[0]), "program": corpus[0].Name, "result": "identical to baseline unless reported"})
	}
	closeAll()
	r.Finish()
}
