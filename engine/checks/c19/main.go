//go:build go1.21

// C19: LEB128 (internal/wasm/leb128). Three exhaustive sweeps on the real functions:
//
//	A  32-bit values through EncodeUint32/LoadUint32/DecodeUint32 and EncodeInt32/LoadInt32/
//	   DecodeInt32 (+ DecodeInt33AsInt64, LoadInt64, DecodeInt64 on the s32 bytes): the bytes equal
//	   the minimal reference encoding, both entry points give the value back with the byte count.
//	   thorough: every one of the 2^32 values; quick: every value below 2^28 plus a structured set
//	   over the whole range (see part A).
//	B  the structured 64-bit / 33-bit value set (ten 7-bit groups from a boundary alphabet, plus
//	   +-2^k+-{0,1,2}; a structured set of s33 values outside the s32 range) through EncodeUint64 /
//	   EncodeInt64 / LoadInt64 / DecodeInt64 / DecodeInt33AsInt64.
//	C  decoder acceptance: every byte string up to the maximum length (and beyond it) whose
//	   non-final bytes come from a boundary alphabet and whose final byte takes all 256 values,
//	   plus every over-long padding of a boundary value, against the uN/sN grammar of the
//	   WebAssembly spec (binary/values.html#integers).
//
// Oracles: specU/specS are the grammar transcribed literally onto math/big (recursive, no width
// to get wrong); fastU/fastS are the same grammar on machine integers for the big spaces. The two
// are compared with each other on every string of the 32/33-bit spaces and on a sub-alphabet of
// the 64-bit space in every run; a disagreement is a harness error, not a violation.
package main

import (
	"fmt"
	"io"
	"math/big"
	"math/bits"
	"os"
	"runtime/debug"
	"sort"
	"strings"
	"sync"
	"sync/atomic"

	"wa-lang.org/wa/internal/wasm/leb128"
	"wa-lang.org/wa/internal/zzverif/mc"
)

// ---------------------------------------------------------------------------------------------
// spec oracle

const (
	whyOK     = iota
	whyTrunc  // input ends before a byte without continuation bit
	whyLong   // continuation bit on a byte where the grammar allows none (N <= 7): too many bytes
	whyBit6   // final byte of a maximal-length form: only bit 6 disagrees with the required fill
	whyUnused // final byte of a maximal-length form: other unused bits wrong
)

var whyName = [...]string{"ok", "truncated", "too-long", "final-byte-bit6", "final-byte-unused-bits"}

type verdict struct {
	why uint8
	n   int    // bytes consumed if ok; bytes examined up to and including the offending one if not
	val uint64 // value (two's complement bit pattern for sN) if ok
}

// unusedClass names how a final byte n (< 0x80) with only `keep` low value bits violates the
// grammar; fill is the value the bits keep..6 must have (0 or 1). Bit 6 alone is its own class
// because that is precisely what a mask one bit too short lets through.
func unusedClass(n byte, keep int, fill byte) uint8 {
	bad := byte(0)
	for i := keep; i <= 6; i++ {
		if (n>>uint(i))&1 != fill {
			bad |= 1 << uint(i)
		}
	}
	if bad == 0x40 {
		return whyBit6
	}
	return whyUnused
}

var big128 = big.NewInt(128)

// specU transcribes
//
//	uN ::= n:byte            => n                  (if n < 2^7 and n < 2^N)
//	     | n:byte m:u(N-7)   => 2^7*m + (n - 2^7)  (if n >= 2^7 and N > 7)
//
// parsing from the front of b. It returns the value, the number of bytes the derivation uses and
// whyOK, or the reason no derivation exists together with the number of bytes examined.
func specU(N int, b []byte) (*big.Int, int, uint8) {
	if len(b) == 0 {
		return nil, 0, whyTrunc
	}
	n := b[0]
	if n < 128 {
		lim := new(big.Int).Lsh(big.NewInt(1), uint(N)) // 2^N
		if big.NewInt(int64(n)).Cmp(lim) < 0 {
			return big.NewInt(int64(n)), 1, whyOK
		}
		return nil, 1, unusedClass(n, N, 0)
	}
	if N <= 7 {
		return nil, 1, whyLong
	}
	m, c, why := specU(N-7, b[1:])
	if why != whyOK {
		return nil, c + 1, why
	}
	v := new(big.Int).Mul(big128, m)
	v.Add(v, big.NewInt(int64(n)-128))
	return v, c + 1, whyOK
}

// specS transcribes
//
//	sN ::= n:byte            => n                  (if n < 2^6 and n < 2^(N-1))
//	     | n:byte            => n - 2^7            (if 2^6 <= n < 2^7 and n >= 2^7 - 2^(N-1))
//	     | n:byte m:s(N-7)   => 2^7*m + (n - 2^7)  (if n >= 2^7 and N > 7)
func specS(N int, b []byte) (*big.Int, int, uint8) {
	if len(b) == 0 {
		return nil, 0, whyTrunc
	}
	n := b[0]
	half := new(big.Int).Lsh(big.NewInt(1), uint(N-1)) // 2^(N-1)
	bn := big.NewInt(int64(n))
	switch {
	case n < 64:
		if bn.Cmp(half) < 0 {
			return bn, 1, whyOK
		}
		// the sign bit of the value is bit N-1 of this byte; everything above must repeat it
		return nil, 1, unusedClass(n, N, (n>>uint(N-1))&1)
	case n < 128:
		lo := new(big.Int).Sub(big128, half) // 2^7 - 2^(N-1)
		if bn.Cmp(lo) >= 0 {
			return big.NewInt(int64(n) - 128), 1, whyOK
		}
		return nil, 1, unusedClass(n, N, (n>>uint(N-1))&1)
	}
	if N <= 7 {
		return nil, 1, whyLong
	}
	m, c, why := specS(N-7, b[1:])
	if why != whyOK {
		return nil, c + 1, why
	}
	v := new(big.Int).Mul(big128, m)
	v.Add(v, big.NewInt(int64(n)-128))
	return v, c + 1, whyOK
}

func specBig(N int, signed bool, b []byte) verdict {
	if signed {
		v, c, why := specS(N, b)
		if why != whyOK {
			return verdict{why: why, n: c}
		}
		if !v.IsInt64() {
			panic("specS: value outside int64")
		}
		return verdict{n: c, val: uint64(v.Int64())}
	}
	v, c, why := specU(N, b)
	if why != whyOK {
		return verdict{why: why, n: c}
	}
	if !v.IsUint64() {
		panic("specU: value outside uint64")
	}
	return verdict{n: c, val: v.Uint64()}
}

// fastU / fastS: the same grammar unrolled into a loop on machine integers. At byte k the
// remaining width is N-7k; every partial value is < 2^(7k) <= 2^63, so nothing overflows for
// N <= 64. Compared against specBig in every run (crossCheck).
func fastU(N int, b []byte) verdict {
	var acc uint64
	for k := 0; ; k++ {
		if k >= len(b) {
			return verdict{why: whyTrunc, n: k}
		}
		n := b[k]
		rem := N - 7*k
		if n < 128 {
			if rem < 7 && n>>uint(rem) != 0 {
				return verdict{why: unusedClass(n, rem, 0), n: k + 1}
			}
			return verdict{n: k + 1, val: acc | uint64(n)<<uint(7*k)}
		}
		if rem <= 7 {
			return verdict{why: whyLong, n: k + 1}
		}
		acc |= uint64(n&0x7f) << uint(7*k)
	}
}

func fastS(N int, b []byte) verdict {
	var acc uint64
	for k := 0; ; k++ {
		if k >= len(b) {
			return verdict{why: whyTrunc, n: k}
		}
		n := b[k]
		rem := N - 7*k
		if n < 128 {
			if rem < 7 {
				fill := (n >> uint(rem-1)) & 1
				ok := true
				for i := rem; i <= 6; i++ {
					if (n>>uint(i))&1 != fill {
						ok = false
					}
				}
				if !ok {
					return verdict{why: unusedClass(n, rem, fill), n: k + 1}
				}
			}
			top := int64(n)
			if n >= 64 {
				top -= 128
			}
			return verdict{n: k + 1, val: acc + uint64(top<<uint(7*k))}
		}
		if rem <= 7 {
			return verdict{why: whyLong, n: k + 1}
		}
		acc |= uint64(n&0x7f) << uint(7*k)
	}
}

func specFast(N int, signed bool, b []byte) verdict {
	if signed {
		return fastS(N, b)
	}
	return fastU(N, b)
}

// ---------------------------------------------------------------------------------------------
// reference encoders: length from the bit-length formula, then the groups by shifting

func ulen(x uint64) int {
	if x == 0 {
		return 1
	}
	return (bits.Len64(x) + 6) / 7
}

func slen(v int64) int {
	// smallest L with -2^(7L-1) <= v < 2^(7L-1): magnitude bits + one sign bit
	need := bits.Len64(uint64(v^(v>>63))) + 1
	return (need + 6) / 7
}

func refU(x uint64, out *[10]byte) int {
	L := ulen(x)
	for i := 0; i < L; i++ {
		g := byte(x>>uint(7*i)) & 0x7f
		if i < L-1 {
			g |= 0x80
		}
		out[i] = g
	}
	return L
}

func refS(v int64, out *[10]byte) int {
	L := slen(v)
	for i := 0; i < L; i++ {
		g := byte(v>>uint(7*i)) & 0x7f // arithmetic shift
		if i < L-1 {
			g |= 0x80
		}
		out[i] = g
	}
	return L
}

// ---------------------------------------------------------------------------------------------
// plumbing

type rdr struct {
	b []byte
	i int
}

func (r *rdr) ReadByte() (byte, error) {
	if r.i >= len(r.b) {
		return 0, io.EOF
	}
	c := r.b[r.i]
	r.i++
	return c, nil
}

func hexs(b []byte) string {
	p := make([]string, len(b))
	for i, c := range b {
		p[i] = fmt.Sprintf("%02x", c)
	}
	return strings.Join(p, " ")
}

// ---- violations ---------------------------------------------------------------------------
// A violation class is (function, kind, spec verdict class, length). Each worker keeps the
// smallest witness per class locally (by length, then bytes) without locks or formatting, so a
// tree that is wrong on every input costs no more than a correct one; the per-class minima are
// merged at the end and only then rendered. The witness is therefore the same on every run.

const (
	fEncU32 = iota
	fEncS32
	fEncU64
	fEncS64
	fLoadU32
	fDecU32
	fLoadS32
	fDecS32
	fDecS33
	fLoadS64
	fDecS64
	nFn
)

var fnName = [nFn]string{"EncodeUint32", "EncodeInt32", "EncodeUint64", "EncodeInt64", "LoadUint32", "DecodeUint32",
	"LoadInt32", "DecodeInt32", "DecodeInt33AsInt64", "LoadInt64", "DecodeInt64"}
var fnSigned = [nFn]bool{false, true, false, true, false, false, true, true, true, true, true}
var fnBits = [nFn]int{32, 32, 64, 64, 32, 32, 32, 32, 33, 64, 64}

const (
	kAcceptInvalid = iota
	kRejectValid
	kWrongValue
	kWrongCount
	kOverread
	kEncTooLong
	kEncTooShort
	kEncWrongBytes
	kPanic
	kHarness
)

var kindName = [...]string{"accept-invalid", "reject-valid", "wrong-value", "wrong-count", "reader-overread",
	"not-minimal", "too-short", "wrong-bytes", "panic", "HARNESS"}

type vkey struct{ fn, kind, why, n uint8 }

type cand struct {
	b        []byte // input bytes (decoders) / reference encoding (encoders)
	gotBytes []byte // encoders: what the encoder produced
	got      uint64
	gotN     uint64
	errs     string
	consumed int
	want     verdict
	note     string
}

type wset map[vkey]*cand

func lessBytes(a, b []byte) bool {
	if len(a) != len(b) {
		return len(a) < len(b)
	}
	return string(a) < string(b)
}

// offer keeps c if it is the smallest witness so far for k. c.b is copied only when kept.
func (w wset) offer(k vkey, b []byte, fill func(c *cand)) {
	if old, ok := w[k]; ok && !lessBytes(b, old.b) {
		return
	}
	c := &cand{b: append([]byte(nil), b...), consumed: -1}
	fill(c)
	w[k] = c
}

var (
	wmu   sync.Mutex
	gwits = wset{}
)

func (w wset) flush() {
	if len(w) == 0 {
		return
	}
	wmu.Lock()
	for k, c := range w {
		if old, ok := gwits[k]; !ok || lessBytes(c.b, old.b) {
			gwits[k] = c
		}
	}
	wmu.Unlock()
}

func showBits(fn int, v uint64) string {
	if fnSigned[fn] {
		return fmt.Sprint(int64(v))
	}
	return fmt.Sprint(v)
}

func (k vkey) String() string {
	s := fnName[k.fn] + "|" + kindName[k.kind]
	if k.kind == kAcceptInvalid {
		s += "|" + whyName[k.why]
		if k.why == whyTrunc {
			return s
		}
	}
	if k.kind == kPanic {
		return s
	}
	return s + "|len" + fmt.Sprint(k.n)
}

func render(k vkey, c *cand) (string, interface{}) {
	fn := int(k.fn)
	name := fnName[fn]
	rep := map[string]interface{}{"fn": name}
	var what string
	switch k.kind {
	case kAcceptInvalid:
		what = fmt.Sprintf("%s([%s]) = (%s, %d, nil) but the %s%d grammar of the WebAssembly spec derives no value: %s at byte %d",
			name, hexs(c.b), showBits(fn, c.got), c.gotN, map[bool]string{true: "s", false: "u"}[fnSigned[fn]], fnBits[fn], whyName[c.want.why], c.want.n)
		rep["bytes"], rep["got_value"], rep["got_count"], rep["spec"] = hexs(c.b), showBits(fn, c.got), c.gotN, "reject: "+whyName[c.want.why]
	case kRejectValid, kWrongValue, kWrongCount, kOverread:
		via := "slice entry point"
		if c.consumed >= 0 {
			via = fmt.Sprintf("%d byte(s) taken from the io.ByteReader", c.consumed)
		}
		what = fmt.Sprintf("%s([%s]) = (%s, %d, err=%q) [%s]; the spec grammar derives %s from the first %d byte(s)",
			name, hexs(c.b), showBits(fn, c.got), c.gotN, c.errs, via, showBits(fn, c.want.val), c.want.n)
		rep["bytes"], rep["got_value"], rep["got_count"], rep["err"], rep["consumed"] = hexs(c.b), showBits(fn, c.got), c.gotN, c.errs, c.consumed
		rep["spec_value"], rep["spec_count"] = showBits(fn, c.want.val), c.want.n
	case kEncTooLong, kEncTooShort, kEncWrongBytes:
		what = fmt.Sprintf("%s(%s) = [%s]; the minimal LEB128 form is [%s]", name, showBits(fn, c.want.val), hexs(c.gotBytes), hexs(c.b))
		rep["value"], rep["got"], rep["want"] = showBits(fn, c.want.val), hexs(c.gotBytes), hexs(c.b)
	case kPanic:
		what = fmt.Sprintf("%s panics: %s", name, c.note)
		rep["bytes_or_value"], rep["panic"] = hexs(c.b), c.note
	default:
		what = c.note
	}
	return what, rep
}

// ---- outcome classes (vacuity guard) --------------------------------------------------------

type counts struct {
	dec  [nFn][5][16]int64 // decoder entry point x spec verdict class x length
	enc  [nFn][11]int64    // encoder x minimal length
	misc map[string]int64
}

func newCounts() *counts { return &counts{misc: map[string]int64{}} }

var (
	cmu     sync.Mutex
	classes = map[string]int64{}
)

func (c *counts) flush() {
	cmu.Lock()
	for f := range c.dec {
		for w := range c.dec[f] {
			for n, v := range c.dec[f][w] {
				if v > 0 {
					verd := whyName[w]
					if w == whyOK {
						verd = "accept"
					}
					classes[fnName[f]+"|"+verd+"|len"+fmt.Sprint(n)] += v
				}
			}
		}
	}
	for f := range c.enc {
		for n, v := range c.enc[f] {
			if v > 0 {
				classes[fnName[f]+"|minimal|len"+fmt.Sprint(n)] += v
			}
		}
	}
	for k, v := range c.misc {
		classes[k] += v
	}
	cmu.Unlock()
}

// per-worker state
type wk struct {
	rd    rdr
	cc    *counts
	ws    wset
	evals int64
}

func newWk() *wk { return &wk{cc: newCounts(), ws: wset{}} }

func (w *wk) done(r *mc.Run) {
	r.Evals.Add(w.evals)
	w.cc.flush()
	w.ws.flush()
}

var capped atomic.Bool

// quickBits: the quick tier's contiguous part-A range is [0, 2^quickBits) (see part A)
const quickBits = 28

func capHit(r *mc.Run, what string) {
	capped.Store(true)
	r.Cap(what)
}

// ---------------------------------------------------------------------------------------------
// decoders under test

type dut struct {
	name   string // codec: u32 s32 s33 s64
	N      int
	signed bool
	maxLen int
	loadFn int // -1: no slice entry point
	load   func(b []byte) (uint64, uint64, error)
	decFn  int
	dec    func(r io.ByteReader) (uint64, uint64, error)
}

var duts = []dut{
	{"u32", 32, false, 5, fLoadU32,
		func(b []byte) (uint64, uint64, error) { v, n, e := leb128.LoadUint32(b); return uint64(v), n, e },
		fDecU32,
		func(r io.ByteReader) (uint64, uint64, error) {
			v, n, e := leb128.DecodeUint32(r)
			return uint64(v), n, e
		}},
	{"s32", 32, true, 5, fLoadS32,
		func(b []byte) (uint64, uint64, error) { v, n, e := leb128.LoadInt32(b); return uint64(int64(v)), n, e },
		fDecS32,
		func(r io.ByteReader) (uint64, uint64, error) {
			v, n, e := leb128.DecodeInt32(r)
			return uint64(int64(v)), n, e
		}},
	{"s33", 33, true, 5, -1, nil,
		fDecS33,
		func(r io.ByteReader) (uint64, uint64, error) {
			v, n, e := leb128.DecodeInt33AsInt64(r)
			return uint64(v), n, e
		}},
	{"s64", 64, true, 10, fLoadS64,
		func(b []byte) (uint64, uint64, error) { v, n, e := leb128.LoadInt64(b); return uint64(v), n, e },
		fDecS64,
		func(r io.ByteReader) (uint64, uint64, error) {
			v, n, e := leb128.DecodeInt64(r)
			return uint64(v), n, e
		}},
}

func showVal(d *dut, v uint64) string {
	if d.signed {
		return fmt.Sprint(int64(v))
	}
	return fmt.Sprint(v)
}

func errStr(err error) string {
	if err == nil {
		return ""
	}
	return err.Error()
}

// judge compares one entry point's answer on b with the spec verdict.
func (w *wk) judge(fn int, b []byte, want verdict, got uint64, gotN uint64, err error, consumed int) {
	w.evals++
	w.cc.dec[fn][want.why][min(want.n, 15)]++
	kind := -1
	if want.why != whyOK {
		if err == nil {
			kind = kAcceptInvalid
		}
	} else {
		switch {
		case err != nil:
			kind = kRejectValid
		case got != want.val:
			kind = kWrongValue
		case gotN != uint64(want.n):
			kind = kWrongCount
		case consumed >= 0 && consumed != want.n:
			kind = kOverread
		}
	}
	if kind < 0 {
		return
	}
	w.ws.offer(vkey{uint8(fn), uint8(kind), want.why, uint8(min(want.n, 255))}, b, func(c *cand) {
		c.got, c.gotN, c.errs, c.consumed, c.want = got, gotN, errStr(err), consumed, want
	})
}

// checkString runs every entry point of d on b.
func (w *wk) checkString(d *dut, b []byte, withBig bool) {
	want := specFast(d.N, d.signed, b)
	if withBig {
		if w2 := specBig(d.N, d.signed, b); w2 != want {
			harness(w, b, fmt.Sprintf("oracles disagree on %s [%s]: fast %+v, big %+v", d.name, hexs(b), want, w2))
		}
		oracleCross.Add(1)
	}
	if d.load != nil {
		v, n, err := d.load(b)
		w.judge(d.loadFn, b, want, v, n, err, -1)
	}
	w.rd.b, w.rd.i = b, 0
	v, n, err := d.dec(&w.rd)
	w.judge(d.decFn, b, want, v, n, err, w.rd.i)
}

func harness(w *wk, b []byte, note string) {
	oracleDisagree.Add(1)
	w.ws.offer(vkey{0, kHarness, 0, 0}, b, func(c *cand) { c.note = note })
}

var oracleDisagree, oracleCross atomic.Int64

// ---------------------------------------------------------------------------------------------
// part A: all 2^32 values

func (w *wk) encCheck(fn int, val uint64, got, want []byte) {
	w.evals++
	w.cc.enc[fn][len(want)]++
	if string(got) == string(want) {
		return
	}
	kind := kEncWrongBytes
	if len(got) > len(want) {
		kind = kEncTooLong
	} else if len(got) < len(want) {
		kind = kEncTooShort
	}
	g := append([]byte(nil), got...)
	w.ws.offer(vkey{uint8(fn), uint8(kind), 0, uint8(len(want))}, want, func(c *cand) { c.gotBytes, c.want.val = g, val })
}

// rt: enc is the reference encoding of val; the decoder must give it back.
func (w *wk) rt(fn int, val uint64, enc []byte, got uint64, n uint64, err error, consumed int) {
	w.judge(fn, enc, verdict{n: len(enc), val: val}, got, n, err, consumed)
}

// Part A runs 32-bit values through EncodeUint32 / EncodeInt32 and their reference bytes through
// the decoders. Every call allocates inside the package under test (result slice, interface
// boxing: 30-60 ns apiece on the verification host), so the tiers are:
//
//	thorough  every one of the 2^32 values, seven calls (two encoders, four 32-bit decoder entry
//	          points, DecodeInt33AsInt64 on the s32 bytes: an s32 form is an s33 form)
//	quick     every value below 2^quickBits unsigned / every signed value with zigzag index below
//	          2^quickBits (quickBits = 28: every 1..4-byte form), encoders on all of them, decoders
//	          on those whose lowest group is in the boundary alphabet; plus the structured set over
//	          the whole 32-bit range: every bit pattern in which at most two of the four low 7-bit
//	          groups lie outside the boundary alphabet (top 4 bits free), those seven calls plus
//	          LoadInt64 / DecodeInt64 on the s32 bytes.

type aStage struct {
	cur   uint32
	s     int32
	stage int
}

// value32 checks one unsigned value x and one signed value s.
func (w *wk) value32(st *aStage, ref *[10]byte, x uint32, s int32, decU, decS, dec64 bool) {
	st.cur, st.s = x, s
	// ---- unsigned. The decoders are fed the reference bytes (identical to the encoder's output
	// unless the encoder has just been reported), so an encoder defect is not also blamed on the
	// decoders.
	st.stage = fEncU32
	e := leb128.EncodeUint32(x)
	L := refU(uint64(x), ref)
	w.encCheck(fEncU32, uint64(x), e, ref[:L])
	if decU {
		e = ref[:L]
		if o := fastU(32, e); o.why != whyOK || o.val != uint64(x) || o.n != L {
			harness(w, e, fmt.Sprintf("reference encoding [%s] of %d is not derived as that value by the u32 grammar: %+v", hexs(e), x, o))
		}
		st.stage = fLoadU32
		v, n, err := leb128.LoadUint32(e)
		w.rt(fLoadU32, uint64(x), e, uint64(v), n, err, -1)
		st.stage = fDecU32
		w.rd.b, w.rd.i = e, 0
		v, n, err = leb128.DecodeUint32(&w.rd)
		w.rt(fDecU32, uint64(x), e, uint64(v), n, err, w.rd.i)
	}

	// ---- signed
	sb := uint64(int64(s))
	st.stage = fEncS32
	e = leb128.EncodeInt32(s)
	L = refS(int64(s), ref)
	w.encCheck(fEncS32, sb, e, ref[:L])
	if decS {
		e = ref[:L]
		if o := fastS(32, e); o.why != whyOK || o.val != sb || o.n != L {
			harness(w, e, fmt.Sprintf("reference encoding [%s] of %d is not derived as that value by the s32 grammar: %+v", hexs(e), s, o))
		}
		st.stage = fLoadS32
		sv, n, err := leb128.LoadInt32(e)
		w.rt(fLoadS32, sb, e, uint64(int64(sv)), n, err, -1)
		st.stage = fDecS32
		w.rd.b, w.rd.i = e, 0
		sv, n, err = leb128.DecodeInt32(&w.rd)
		w.rt(fDecS32, sb, e, uint64(int64(sv)), n, err, w.rd.i)
		st.stage = fDecS33
		w.rd.b, w.rd.i = e, 0
		lv, n, err := leb128.DecodeInt33AsInt64(&w.rd)
		w.rt(fDecS33, sb, e, uint64(lv), n, err, w.rd.i)
		if dec64 {
			st.stage = fLoadS64
			lv, n, err = leb128.LoadInt64(e)
			w.rt(fLoadS64, sb, e, uint64(lv), n, err, -1)
			st.stage = fDecS64
			w.rd.b, w.rd.i = e, 0
			lv, n, err = leb128.DecodeInt64(&w.rd)
			w.rt(fDecS64, sb, e, uint64(lv), n, err, w.rd.i)
		}
	}
}

func (st *aStage) recovered(r *mc.Run, w *wk, e interface{}) {
	capHit(r, "panic(partA)")
	var b [4]byte
	b[0], b[1], b[2], b[3] = byte(st.cur>>24), byte(st.cur>>16), byte(st.cur>>8), byte(st.cur)
	w.ws.offer(vkey{uint8(st.stage), kPanic, 0, 0}, b[:], func(c *cand) {
		c.note = fmt.Sprintf("while checking u32 value %d / s32 value %d: %v", st.cur, st.s, e)
	})
}

// partA: the contiguous range. Unsigned values ascending, signed values in zigzag order
// 0, -1, 1, -2, ... (simplest first for both codecs).
func partA(r *mc.Run, bitsN int, decodeAll bool, decodeGroups []byte) {
	const chunkBits = 20
	nchunks := 1 << (bitsN - chunkBits)
	if s := os.Getenv("C19_A_CHUNKS"); s != "" { // development aid: first n chunks of 2^20 values only
		fmt.Sscan(s, &nchunks)
		capHit(r, "C19_A_CHUNKS="+s)
	}
	var sel [128]bool
	for _, g := range decodeGroups {
		sel[g] = true
	}
	var total, totalRd, totalRdU atomic.Int64
	mc.ParallelFor(nchunks, func(ci int) {
		if r.Expired() {
			capHit(r, "deadline(partA)")
			return
		}
		w := newWk()
		defer w.done(r)
		var st aStage
		defer func() {
			if e := recover(); e != nil {
				st.recovered(r, w, e)
			}
		}()
		var ref [10]byte
		nrd, nrdU := int64(0), int64(0)
		base := uint32(ci) << chunkBits
		for o := uint32(0); o < 1<<chunkBits; o++ {
			x := base + o
			s := int32(x>>1) ^ -int32(x&1)
			decU := decodeAll || sel[x&0x7f]
			decS := decodeAll || sel[uint32(s)&0x7f]
			if decU {
				nrdU++
			}
			if decS {
				nrd++
			}
			w.value32(&st, &ref, x, s, decU, decS, false)
			if ci == 0 && (o == 127 || o == 128) {
				r.Sample(map[string]interface{}{"part": "A", "value_u32": x, "EncodeUint32": hexs(leb128.EncodeUint32(x)), "value_s32": s, "EncodeInt32": hexs(leb128.EncodeInt32(s))})
			}
		}
		total.Add(1 << chunkBits)
		totalRd.Add(nrd)
		totalRdU.Add(nrdU)
	})
	r.Extra("partA_range_values_encoded_each_codec", total.Load())
	r.Extra("partA_range_values_decoded_u32", totalRdU.Load())
	r.Extra("partA_range_values_decoded_s32", totalRd.Load())
}

// partAStructured: every 32-bit pattern p = t<<28 | g3<<21 | g2<<14 | g1<<7 | g0 in which at most
// two of g0..g3 lie outside the boundary alphabet (t: all 16 values); the unsigned value is p, the
// signed value int32(p). Each pattern is visited once: a job fixes t and WHICH groups are outside.
func partAStructured(r *mc.Run, alphabet []byte) {
	var in, out []uint32
	var isIn [128]bool
	for _, g := range alphabet {
		isIn[g] = true
	}
	for g := uint32(0); g < 128; g++ {
		if isIn[g] {
			in = append(in, g)
		} else {
			out = append(out, g)
		}
	}
	type job struct {
		t    uint32
		mask int // bit k set: group k ranges over `out`, else over `in`
	}
	var jobs []job
	for mask := 0; mask < 16; mask++ {
		if bits.OnesCount(uint(mask)) > 2 {
			continue
		}
		for t := uint32(0); t < 16; t++ {
			jobs = append(jobs, job{t, mask})
		}
	}
	var total atomic.Int64
	mc.ParallelFor(len(jobs), func(ji int) {
		if r.Expired() {
			capHit(r, "deadline(partA-structured)")
			return
		}
		j := jobs[ji]
		w := newWk()
		defer w.done(r)
		var st aStage
		defer func() {
			if e := recover(); e != nil {
				st.recovered(r, w, e)
			}
		}()
		var ref [10]byte
		var sets [4][]uint32
		for k := 0; k < 4; k++ {
			sets[k] = in
			if j.mask>>uint(k)&1 == 1 {
				sets[k] = out
			}
		}
		n := int64(0)
		for _, g3 := range sets[3] {
			for _, g2 := range sets[2] {
				for _, g1 := range sets[1] {
					for _, g0 := range sets[0] {
						p := j.t<<28 | g3<<21 | g2<<14 | g1<<7 | g0
						w.value32(&st, &ref, p, int32(p), true, true, true)
						n++
					}
				}
			}
		}
		total.Add(n)
		if j.t == 15 && j.mask == 0 {
			p := uint32(0xf<<28 | 0x7f<<21 | 0x40<<14 | 0x3f<<7 | 0x01)
			r.Sample(map[string]interface{}{"part": "A-structured", "pattern": fmt.Sprintf("0x%08x", p), "EncodeUint32": hexs(leb128.EncodeUint32(p)), "value_s32": int32(p), "EncodeInt32": hexs(leb128.EncodeInt32(int32(p)))})
		}
	})
	r.Extra("partA_structured_patterns", total.Load())
}

// ---------------------------------------------------------------------------------------------
// part B: structured 64-bit / 33-bit values

func sext33(x uint64) int64 { return int64(x<<31) >> 31 }

func (w *wk) checkValue64(x uint64) {
	var ref [10]byte
	// unsigned 64: encoder only (the package has no u64 decoder)
	e := leb128.EncodeUint64(x)
	L := refU(x, &ref)
	w.encCheck(fEncU64, x, e, ref[:L])
	if v := fastU(64, ref[:L]); v.why != whyOK || v.val != x || v.n != L {
		harness(w, ref[:L], fmt.Sprintf("reference encoding [%s] of %d is not derived as that value by the u64 grammar: %+v", hexs(ref[:L]), x, v))
	}

	// signed 64
	s := int64(x)
	e = leb128.EncodeInt64(s)
	L = refS(s, &ref)
	w.encCheck(fEncS64, x, e, ref[:L])
	e = ref[:L]
	if v := fastS(64, ref[:L]); v.why != whyOK || v.val != x || v.n != L {
		harness(w, ref[:L], fmt.Sprintf("reference encoding [%s] of %d is not derived as that value by the s64 grammar: %+v", hexs(ref[:L]), s, v))
	}
	v, n, err := leb128.LoadInt64(e)
	w.rt(fLoadS64, x, e, uint64(v), n, err, -1)
	w.rd.b, w.rd.i = e, 0
	v, n, err = leb128.DecodeInt64(&w.rd)
	w.rt(fDecS64, x, e, uint64(v), n, err, w.rd.i)

	// signed 33: low 33 bits of x
	w.checkValue33(sext33(x & (1<<33 - 1)))
}

func (w *wk) checkValue33(y int64) {
	var ref [10]byte
	e := leb128.EncodeInt64(y)
	L := refS(y, &ref)
	w.encCheck(fEncS64, uint64(y), e, ref[:L])
	e = ref[:L]
	if o := fastS(33, e); o.why != whyOK || o.val != uint64(y) || o.n != L {
		harness(w, e, fmt.Sprintf("reference encoding [%s] of %d is not derived as that value by the s33 grammar: %+v", hexs(e), y, o))
	}
	w.rd.b, w.rd.i = e, 0
	v, n, err := leb128.DecodeInt33AsInt64(&w.rd)
	w.rt(fDecS33, uint64(y), e, uint64(v), n, err, w.rd.i)
}

func partB(r *mc.Run, groups []byte) {
	G := len(groups)
	// the three most significant digits choose the job, the low seven are looped inside
	njobs := G * G * G
	var nvals atomic.Int64
	mc.ParallelFor(njobs, func(j int) {
		if r.Expired() {
			capHit(r, "deadline(partB)")
			return
		}
		w := newWk()
		defer w.done(r)
		hi := uint64(groups[j%G])<<(7*7) | uint64(groups[(j/G)%G])<<(7*8) | uint64(groups[j/(G*G)])<<(7*9)
		var idx [7]int
		cnt := int64(0)
		for {
			x := hi
			for k := 0; k < 7; k++ {
				x |= uint64(groups[idx[k]]) << uint(7*k)
			}
			w.checkValue64(x)
			cnt++
			k := 0
			for ; k < 7; k++ {
				idx[k]++
				if idx[k] < G {
					break
				}
				idx[k] = 0
			}
			if k == 7 {
				break
			}
		}
		nvals.Add(cnt)
	})
	// +-2^k +- {0,1,2}
	{
		w := newWk()
		cnt := int64(0)
		for k := 0; k < 64; k++ {
			for _, sgn := range []int64{1, -1} {
				for _, d := range []int64{-2, -1, 0, 1, 2} {
					x := uint64(sgn*(int64(1)<<uint(k)) + d) // wraps mod 2^64 for k = 63: intended
					w.checkValue64(x)
					cnt++
					if k == 32 && sgn == -1 && d == -1 {
						r.Sample(map[string]interface{}{"part": "B", "value_s64": int64(x), "EncodeInt64": hexs(leb128.EncodeInt64(int64(x))),
							"value_u64": x, "EncodeUint64": hexs(leb128.EncodeUint64(x)), "low33_signed": sext33(x & (1<<33 - 1))})
					}
				}
			}
		}
		nvals.Add(cnt)
		w.done(r)
	}
	r.Extra("partB_structured_values", nvals.Load())

}

// partB33: s33 values outside the s32 range (the s32 half goes through DecodeInt33AsInt64 in
// part A). Every 33-bit pattern t<<28 | g3<<21 | g2<<14 | g1<<7 | g0 whose top five bits t have
// bit 32 != bit 31 (16 of 32: exactly the values that do not fit s32) and in which at most
// maxOut of g0..g3 lie outside the boundary alphabet; encoded with EncodeInt64, decoded with
// DecodeInt33AsInt64. (All 2^32 such values cost two allocating calls each; not worth a
// quarter of the thorough budget.)
func partB33(r *mc.Run, alphabet []byte, maxOut int) {
	var in, out []uint64
	var isIn [128]bool
	for _, g := range alphabet {
		isIn[g] = true
	}
	for g := uint64(0); g < 128; g++ {
		if isIn[g] {
			in = append(in, g)
		} else {
			out = append(out, g)
		}
	}
	type job struct {
		t    uint64
		mask int
	}
	var jobs []job
	for mask := 0; mask < 16; mask++ {
		if bits.OnesCount(uint(mask)) > maxOut {
			continue
		}
		for t := uint64(0); t < 32; t++ {
			if t>>4 != t>>3&1 {
				jobs = append(jobs, job{t, mask})
			}
		}
	}
	sort.SliceStable(jobs, func(a, b int) bool { return bits.OnesCount(uint(jobs[a].mask)) < bits.OnesCount(uint(jobs[b].mask)) })
	var n33 atomic.Int64
	mc.ParallelFor(len(jobs), func(ji int) {
		if r.Expired() {
			capHit(r, "deadline(partB-s33)")
			return
		}
		j := jobs[ji]
		w := newWk()
		defer w.done(r)
		var sets [4][]uint64
		for k := 0; k < 4; k++ {
			sets[k] = in
			if j.mask>>uint(k)&1 == 1 {
				sets[k] = out
			}
		}
		n := int64(0)
		for _, g3 := range sets[3] {
			for _, g2 := range sets[2] {
				for _, g1 := range sets[1] {
					for _, g0 := range sets[0] {
						w.checkValue33(sext33(j.t<<28 | g3<<21 | g2<<14 | g1<<7 | g0))
						n++
					}
				}
			}
		}
		n33.Add(n)
	})
	r.Extra("partB_s33_values_outside_s32", n33.Load())
}

// ---------------------------------------------------------------------------------------------
// part C: decoder acceptance

type cjob struct {
	d       *dut
	L       int
	alpha   []byte // alphabet of the non-final positions
	first   int    // index into alpha of byte 0 (-1 when L == 1)
	withBig bool
}

func runCJob(r *mc.Run, j cjob) {
	w := newWk()
	defer w.done(r)
	b := make([]byte, j.L)
	idx := make([]int, j.L) // odometer over positions 1..L-2
	if j.L >= 2 {
		b[0] = j.alpha[j.first]
	}
	defer func() {
		if e := recover(); e != nil {
			capHit(r, "panic(partC)")
			w.ws.offer(vkey{uint8(j.d.decFn), kPanic, 0, 0}, b, func(c *cand) { c.note = fmt.Sprintf("on [%s] (%s): %v", hexs(b), j.d.name, e) })
		}
	}()
	n := int64(0)
	for {
		for k := 1; k < j.L-1; k++ {
			b[k] = j.alpha[idx[k]]
		}
		for f := 0; f < 256; f++ {
			b[j.L-1] = byte(f)
			w.checkString(j.d, b, j.withBig)
		}
		n += 256
		k := 1
		for ; k < j.L-1; k++ {
			idx[k]++
			if idx[k] < len(j.alpha) {
				break
			}
			idx[k] = 0
		}
		if k >= j.L-1 {
			break
		}
	}
	if j.L == j.d.maxLen && j.first == len(j.alpha)-1 && !j.withBig == (j.d.maxLen == 10) && (j.d.name == "s32" || j.d.name == "s64") {
		// the last string of the job with final byte 0x40, written out for the evidence file
		b[j.L-1] = 0x40
		v := specFast(j.d.N, j.d.signed, b)
		w.rd.b, w.rd.i = b, 0
		got, gn, gerr := j.d.dec(&w.rd)
		r.Sample(map[string]interface{}{"part": "C", "codec": j.d.name, "bytes": hexs(b), "spec": whyName[v.why], "spec_count": v.n,
			"impl": fmt.Sprintf("%s = (%s, %d, %v)", fnName[j.d.decFn], showVal(j.d, got), gn, gerr)})
	}
	nStrings.Add(n)
}

var nStrings atomic.Int64

var (
	alphaFull = []byte{0x00, 0x01, 0x3f, 0x40, 0x7f, 0x80, 0x81, 0xbf, 0xc0, 0xff}
	contFull  = []byte{0x80, 0x81, 0xbf, 0xc0, 0xff}
	alpha2    = []byte{0x80, 0xff}
)

func partC(r *mc.Run, cont64 []byte, contOver []byte, fullLen64 int) {
	var jobs []cjob
	add := func(d *dut, L int, alpha []byte, withBig bool) {
		if L == 1 {
			jobs = append(jobs, cjob{d, L, alpha, -1, withBig})
			return
		}
		for f := range alpha {
			jobs = append(jobs, cjob{d, L, alpha, f, withBig})
		}
	}
	for i := range duts {
		d := &duts[i]
		if d.maxLen == 5 {
			// lengths 1..5: every non-final byte from the 10-byte alphabet (early terminators
			// included: they exercise "stop at the first byte without continuation bit and ignore
			// the rest"); lengths 6,7: continuation bytes only (anything else is a shorter string).
			for L := 1; L <= 5; L++ {
				add(d, L, alphaFull, true)
			}
			add(d, 6, contFull, true)
			add(d, 7, contFull, true)
			continue
		}
		for L := 1; L <= fullLen64; L++ {
			add(d, L, alphaFull, true)
		}
		for L := fullLen64 + 1; L <= 10; L++ {
			add(d, L, cont64, false)
		}
		add(d, 11, contOver, false)
		add(d, 12, []byte{0x80, 0xc0, 0xff}, false)
		for L := fullLen64 + 1; L <= 12; L++ { // oracle cross-check on a sub-alphabet
			add(d, L, alpha2, true)
		}
	}
	// simplest first
	sort.SliceStable(jobs, func(a, b int) bool { return jobs[a].L < jobs[b].L })
	mc.ParallelFor(len(jobs), func(i int) {
		if r.Expired() {
			capHit(r, "deadline(partC)")
			return
		}
		runCJob(r, jobs[i])
	})

	// over-long paddings of boundary values: minimal encoding, continuation bit set on its last
	// byte, then sign-fill groups, up to maxLen+2 bytes.
	w := newWk()
	npad := 0
	for i := range duts {
		d := &duts[i]
		var vals []int64
		for k := 0; k < d.N && k < 63; k++ {
			for _, dlt := range []int64{-1, 0, 1} {
				p := int64(1)<<uint(k) + dlt
				vals = append(vals, p)
				if d.signed {
					vals = append(vals, -p)
				}
			}
		}
		for _, v := range vals {
			var ref [10]byte
			var L int
			if d.signed {
				if d.N < 64 && (v < -(int64(1)<<uint(d.N-1)) || v >= int64(1)<<uint(d.N-1)) {
					continue
				}
				L = refS(v, &ref)
			} else {
				if v < 0 || v >= int64(1)<<uint(d.N) {
					continue
				}
				L = refU(uint64(v), &ref)
			}
			for T := L + 1; T <= d.maxLen+2; T++ {
				b := make([]byte, T)
				copy(b, ref[:L])
				b[L-1] |= 0x80
				fill := byte(0x00)
				if d.signed && v < 0 {
					fill = 0x7f
				}
				for k := L; k < T-1; k++ {
					b[k] = fill | 0x80
				}
				b[T-1] = fill
				w.checkString(d, b, true)
				npad++
				if T <= d.maxLen {
					// harness sanity: a padding within the length limit must still derive v
					if o := specFast(d.N, d.signed, b); o.why != whyOK || o.val != uint64(v) || o.n != T {
						harness(w, b, fmt.Sprintf("padding [%s] of %d (%s) not derived by the oracle: %+v", hexs(b), v, d.name, o))
					}
				}
				if npad == 40 && r.WantSample() {
					o := specFast(d.N, d.signed, b)
					r.Sample(map[string]interface{}{"part": "C-padding", "codec": d.name, "value": v, "bytes": hexs(b), "spec": whyName[o.why]})
				}
			}
		}
	}
	w.done(r)
	r.Extra("partC_padding_strings", npad)
	r.Extra("partC_strings", nStrings.Load()+int64(npad))
}

// ---------------------------------------------------------------------------------------------

func main() {
	r := mc.Start("C19")
	// the functions under test allocate on every call (result slice, interface boxing); keep the
	// collector out of the way
	// The functions under test allocate on every call (result slice, interface boxing) and the
	// live heap is tiny: a moderately larger heap than the 4 MB default saves collector cycles,
	// a much larger one falls out of cache (measured: 2x slower at 256 MB).
	debug.SetGCPercent(400)

	groupsB := mc.Pick(r, []byte{0x00, 0x01, 0x3f, 0x40, 0x7f}, []byte{0x00, 0x01, 0x02, 0x3f, 0x40, 0x7e, 0x7f})
	cont64 := mc.Pick(r, []byte{0x80, 0xbf, 0xc0, 0xff}, []byte{0x80, 0x81, 0xbf, 0xc0, 0xff})
	contOver := mc.Pick(r, []byte{0x80, 0xc0, 0xff}, []byte{0x80, 0xbf, 0xc0, 0xff}) // length 11; length 12 always the 3-letter one
	fullLen64 := mc.Pick(r, 5, 6)

	r.Rule("A: 32-bit values (which: see bounds; unsigned ascending, signed 0,-1,1,-2,...) through Encode{Uint,Int}32 (bytes = minimal reference form), those bytes then through Load*/Decode* (which values: see bounds); " +
		"B: every 64-bit value whose ten 7-bit groups come from the group alphabet, +-2^k+-{0,1,2}, each also reduced to its low 33 bits; " +
		"C: per decoder every byte string of each length whose non-final bytes come from the position alphabet and whose final byte is 0..255, " +
		"and every sign-fill padding of +-2^k+-{0,1}, judged by the spec uN/sN grammar. " +
		"distinct = distinct (function, spec verdict class or minimal-encoding length, length) outcome classes observed")
	r.Bound("partA_values_encoded", mc.Pick(r,
		fmt.Sprintf("u32: every value < 2^%d; s32: every value with zigzag index < 2^%d (|v| <= 2^%d); plus the structured set over the whole range: every bit pattern with at most two of its four low 7-bit groups outside {% x}, top 4 bits free", quickBits, quickBits, quickBits-1, groupsB[:5]),
		"all 2^32 through EncodeUint32 and all 2^32 through EncodeInt32"))
	r.Bound("partA_values_decoded", mc.Pick(r,
		fmt.Sprintf("range part: those whose lowest 7-bit group is in {% x}; structured part: all, plus LoadInt64/DecodeInt64 on the s32 bytes; both entry points, DecodeInt33AsInt64 too", groupsB[:5]),
		"all 2^32, both entry points, plus DecodeInt33AsInt64 on the s32 bytes"))
	r.Bound("partB_group_alphabet", fmt.Sprintf("% x", groupsB))
	r.Bound("partB_s33_outside_s32", fmt.Sprintf("top five bits: the 16 patterns with bit32 != bit31; at most %d of the four low groups outside {% x}", mc.Pick(r, 2, 3), groupsB[:5]))
	r.Bound("partC_full_alphabet", fmt.Sprintf("% x (every non-final position, lengths 1..5 for 32/33-bit, 1..%d for 64-bit)", alphaFull, fullLen64))
	r.Bound("partC_continuation_alphabet_32bit_len6-7", fmt.Sprintf("% x", contFull))
	r.Bound("partC_continuation_alphabet_64bit_to_len10", fmt.Sprintf("% x", cont64))
	r.Bound("partC_continuation_alphabet_64bit_len11", fmt.Sprintf("% x", contOver))
	r.Bound("partC_continuation_alphabet_64bit_len12", "80 c0 ff")
	r.Bound("partC_final_byte", "0..255 at every length")
	r.Assume("the package has no unsigned 64-bit decoder and no dedicated 33-bit encoder: u64 is checked on the encoder only (bytes = minimal reference encoding, which the spec oracle decodes back), s33 values are encoded with EncodeInt64")
	r.Assume("decoders parse a prefix: bytes after the first byte without continuation bit are ignored, and bytesRead / bytes taken from the io.ByteReader must equal the length of the derived form")
	r.Assume("a truncated input (no terminating byte) must give an error; which error, and how many bytes a failing Decode* took from the reader, is not constrained")

	// C19_PARTS=C (development / replay aid) restricts the run to some parts; the run is then
	// marked not exhaustive.
	parts := os.Getenv("C19_PARTS")
	if parts == "" {
		parts = "CBA"
	} else {
		capHit(r, "C19_PARTS="+parts)
	}
	if strings.Contains(parts, "C") {
		partC(r, cont64, contOver, fullLen64)
	}
	if strings.Contains(parts, "B") {
		partB(r, groupsB)
	}
	if strings.Contains(parts, "A") {
		partA(r, mc.Pick(r, quickBits, 32), r.Thorough(), groupsB[:5])
		if !r.Thorough() {
			partAStructured(r, groupsB[:5])
		}
	}
	if strings.Contains(parts, "B") {
		partB33(r, groupsB[:5], mc.Pick(r, 2, 3))
	}

	// oracle self-consistency and vacuity
	r.Extra("oracle_crosschecked_strings", oracleCross.Load())
	for k, c := range gwits {
		if k.kind == kHarness {
			r.HarnessError("%s (%d occurrences)", c.note, oracleDisagree.Load())
			delete(gwits, k)
		}
	}
	for k := range classes {
		r.Distinct(k)
	}
	r.Extra("outcome_classes", classes)
	if !capped.Load() {
		for i := range duts {
			d := &duts[i]
			for _, fn := range []int{d.loadFn, d.decFn} {
				if fn < 0 {
					continue
				}
				m := fmt.Sprint(d.maxLen)
				for _, k := range []string{"|accept|len1", "|accept|len" + m, "|truncated|len1", "|too-long|len" + m,
					"|final-byte-bit6|len" + m, "|final-byte-unused-bits|len" + m} {
					if classes[fnName[fn]+k] == 0 {
						r.HarnessError("vacuous: outcome class %q never exercised", fnName[fn]+k)
					}
				}
			}
		}
	}
	keys := make([]vkey, 0, len(gwits))
	for k := range gwits {
		keys = append(keys, k)
	}
	sort.Slice(keys, func(a, b int) bool { return keys[a].String() < keys[b].String() })
	for _, k := range keys {
		what, rep := render(k, gwits[k])
		r.Report(k.String(), what, rep)
	}
	r.Finish()
}
