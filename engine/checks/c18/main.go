//go:build go1.21

// C18: PC-relative hi/lo splitting (internal/native/pcrel) and the instruction encoders its
// callers in internal/native/asm feed the halves to.
//
//	R  RISC-V: every one of the 2^32 offsets through SplitOffset / CombineOffset / MakeAbs /
//	   MakePCRel / GetTargetAddress. The halves are pushed through the real encoders
//	   (riscv.EncodeRV64 / EncodeRV32: auipc, lui, addi, ld, sd), the 20- and 12-bit FIELDS are cut
//	   out of the instruction words by format (ISA manual), and a CPU model (auipc: pc+sext(imm20<<12),
//	   lui: sext(imm20<<12), addi/ld/sd: rs1+sext(imm12)) recombines them.
//	L  LoongArch64: MakeLa64PCRel over pc-low x target-low x page-delta x pc-high, the halves through
//	   loong64.EncodeLA64 (pcalau12i, addi.d, ld.d, st.d), fields cut out by format, CPU model
//	   pcalau12i: rd = (pc + sext(si20<<12)) & ~0xFFF; addi.d/ld.d/st.d: rj + sext(si12).
//	S  (extra) riscv.Split32BitImmediate, the other hi/lo splitter in the tree, same oracle.
//	E  end to end: small programs through asm.AssembleFile (the %pcrel_hi/%pcrel_lo, %hi/%lo,
//	   %pc_hi20/%pc_lo12 bookkeeping in asm_func_riscv_x.go / asm_func_loong64_x.go), the emitted
//	   words decoded by format and run on the CPU model.
//
// The encoders are pure functions of (opcode, registers, immediate), so they are tabulated once
// over every immediate a splitter could return (hi in [-2^20, 2^20), lo in [-4096, 8192)) and the
// sweeps index the tables: every offset still goes through the real splitter, and every value the
// splitter returns has gone through the real encoder.
package main

import (
	"encoding/binary"
	"fmt"
	"math/bits"
	"os"
	"runtime/debug"
	"sort"
	"strings"
	"sync"
	"sync/atomic"

	"wa-lang.org/wa/internal/native/abi"
	"wa-lang.org/wa/internal/native/asm"
	"wa-lang.org/wa/internal/native/loong64"
	"wa-lang.org/wa/internal/native/pcrel"
	"wa-lang.org/wa/internal/native/riscv"
	"wa-lang.org/wa/internal/zzverif/mc"
)

// ---------------------------------------------------------------------------------------------
// violations: smallest witness per canonical key, kept per worker, merged at the end

type cand struct {
	ord  [4]uint64 // lexicographic "simplest first" rank
	what string
	rep  map[string]interface{}
}

// a violation class: function | kind | input class. Kept as three constant strings so that the
// violation path allocates nothing (a tree that is wrong on every input must not be slower).
type vkey struct{ fn, kind, cls string }

func (k vkey) String() string { return k.fn + "|" + k.kind + "|" + k.cls }

type wset map[vkey]*cand

func ordLess(a, b [4]uint64) bool {
	for i := range a {
		if a[i] != b[i] {
			return a[i] < b[i]
		}
	}
	return false
}

// offer is only reached on a violation; mk renders lazily.
func (w wset) offer(key vkey, ord [4]uint64, mk func() (string, map[string]interface{})) {
	if old, ok := w[key]; ok && !ordLess(ord, old.ord) {
		return
	}
	what, rep := mk()
	w[key] = &cand{ord, what, rep}
}

var (
	gmu   sync.Mutex
	gwits = wset{}
	gcls  = map[string]int64{}
)

func mergeW(w wset, cls map[string]int64) {
	gmu.Lock()
	for k, c := range w {
		if old, ok := gwits[k]; !ok || ordLess(c.ord, old.ord) {
			gwits[k] = c
		}
	}
	for k, v := range cls {
		gcls[k] += v
	}
	gmu.Unlock()
}

var capped atomic.Bool

// vacuity checks, evaluated at the end and only for a complete run without violations (a tree
// that violates the property legitimately fails to produce every field value)
var vacuity []func() string

// distinct instruction fields the sweeps produced (vacuity guard / distinct_nontrivial)
var distinctSets = map[string][]uint64{}

func countBits(b []uint64) int {
	n := 0
	for _, v := range b {
		for ; v != 0; v &= v - 1 {
			n++
		}
	}
	return n
}

func capHit(r *mc.Run, what string) { capped.Store(true); r.Cap(what) }

func absOrd(d int64) [2]uint64 {
	if d < 0 {
		return [2]uint64{uint64(-d), 1}
	}
	return [2]uint64{uint64(d), 0}
}

// ---------------------------------------------------------------------------------------------
// instruction formats (from the ISA manuals) and CPU models

func sext(v uint64, bits uint) int64 { return int64(v<<(64-bits)) >> (64 - bits) }

// RISC-V (unprivileged spec, RV32I/RV64I base formats)
const (
	rvOpAUIPC = 0x17
	rvOpLUI   = 0x37
	rvOpIMM   = 0x13 // addi: funct3 000
	rvOpLOAD  = 0x03 // ld: funct3 011
	rvOpSTORE = 0x23 // sd: funct3 011
)

func rvUimm20(w uint32) uint32 { return w >> 12 }              // U-type imm[31:12]
func rvIimm12(w uint32) uint32 { return w >> 20 }              // I-type imm[11:0] = bits 31:20
func rvSimm12(w uint32) uint32 { return w>>25<<5 | w>>7&0x1f } // S-type imm[11:5]=31:25, imm[4:0]=11:7

// LoongArch (reference manual vol.1, 1RI20 and 2RI12 formats)
const (
	laPCALAU12I = 0x1a000000 // bits 31:25 = 0001101
	laADDI_D    = 0x02c00000 // bits 31:22 = 0000001011
	laLD_D      = 0x28c00000 // bits 31:22 = 0010100011
	laST_D      = 0x29c00000 // bits 31:22 = 0010100111
)

func laSi20(w uint32) uint32 { return w >> 5 & 0xfffff } // bits 24:5
func laSi12(w uint32) uint32 { return w >> 10 & 0xfff }  // bits 21:10

// CPU models. RISC-V results are computed in 64 bits (RV64) and truncated for RV32.
func cpuAUIPC(pc uint64, imm20 uint32) uint64 { return pc + uint64(sext(uint64(imm20)<<12, 32)) }
func cpuLUI(imm20 uint32) uint64              { return uint64(sext(uint64(imm20)<<12, 32)) }
func cpuADDI(rs1 uint64, imm12 uint32) uint64 { return rs1 + uint64(sext(uint64(imm12), 12)) }

func cpuPCALAU12I(pc uint64, si20 uint32) uint64 {
	return (pc + uint64(sext(uint64(si20)<<12, 32))) &^ 0xFFF
}
func cpuADDI_D(rj uint64, si12 uint32) uint64 { return rj + uint64(sext(uint64(si12), 12)) }

// ---------------------------------------------------------------------------------------------
// encoder tables

const (
	hiBias = 1 << 20 // hi table covers [-2^20, 2^20)
	hiSize = 1 << 21
	loBias = 4096 // lo table covers [-4096, 8192)
	loSize = 4096 * 3

	rejected = 0xffffffff // field value marking "the encoder refused this immediate"
)

type tables struct {
	// RISC-V: field tables indexed by immediate + bias
	rvHi   []uint32 // imm20 field of auipc / lui (identical layouts; both are encoded and compared)
	rvLoI  []uint32 // imm12 field of addi / ld
	rvLoS  []uint32 // imm12 field of sd
	rvNote []string // first encoder refusal texts
	// LoongArch
	laHi   []uint32 // si20 of pcalau12i
	laLo   []uint32 // si12 of addi.d / ld.d / st.d
	laNote []string
}

var tb tables
var harnessErrs []string
var hmu sync.Mutex

func herr(format string, a ...interface{}) {
	hmu.Lock()
	if len(harnessErrs) < 10 {
		harnessErrs = append(harnessErrs, fmt.Sprintf(format, a...))
	}
	hmu.Unlock()
}

func rvEncode(xlen int, as abi.As, arg *abi.AsArgument) (w uint32, err error) {
	defer func() {
		if e := recover(); e != nil {
			err = fmt.Errorf("panic: %v", e)
		}
	}()
	if xlen == 32 {
		return riscv.EncodeRV32(as, arg)
	}
	return riscv.EncodeRV64(as, arg)
}

func laEncode(as abi.As, arg *abi.AsArgument) (w uint32, err error) {
	defer func() {
		if e := recover(); e != nil {
			err = fmt.Errorf("panic: %v", e)
		}
	}()
	return loong64.EncodeLA64(as, arg)
}

func buildTables(r *mc.Run) {
	tb.rvHi = make([]uint32, hiSize)
	tb.laHi = make([]uint32, hiSize)
	tb.rvLoI = make([]uint32, loSize)
	tb.rvLoS = make([]uint32, loSize)
	tb.laLo = make([]uint32, loSize)
	var nenc atomic.Int64
	var nmu sync.Mutex
	const rd, rs = 10, 11 // a0, a1 in RISC-V numbering; r4.. are used for LoongArch below
	mc.ParallelFor(64, func(part int) {
		n := int64(0)
		for idx := part * (hiSize / 64); idx < (part+1)*(hiSize/64); idx++ {
			hi := int32(idx - hiBias)
			// RISC-V auipc and lui, RV64 and RV32 encoders
			field := uint32(rejected)
			for k, as := range []abi.As{riscv.AAUIPC, riscv.ALUI} {
				for _, xlen := range []int{64, 32} {
					w, err := rvEncode(xlen, as, &abi.AsArgument{Rd: riscv.REG_A0, Imm: hi})
					n++
					if err != nil {
						if field != rejected {
							herr("riscv encoders disagree about accepting U-type imm %d", hi)
						}
						nmu.Lock()
						if len(tb.rvNote) < 2 {
							tb.rvNote = append(tb.rvNote, fmt.Sprintf("%d: %v", hi, err))
						}
						nmu.Unlock()
						continue
					}
					op := uint32(rvOpAUIPC)
					if k == 1 {
						op = rvOpLUI
					}
					if w&0x7f != op || w>>7&0x1f != rd {
						herr("riscv U-type word %#08x for imm %d: opcode/rd not as the format says", w, hi)
					}
					f := rvUimm20(w)
					if field != rejected && field != f {
						herr("riscv auipc/lui RV32/RV64 give different imm20 fields for %d", hi)
					}
					field = f
				}
			}
			tb.rvHi[idx] = field
			// LoongArch pcalau12i
			w, err := laEncode(loong64.APCALAU12I, &abi.AsArgument{Rd: loong64.REG_A0, Imm: hi})
			n++
			if err != nil {
				tb.laHi[idx] = rejected
				nmu.Lock()
				if len(tb.laNote) < 2 {
					tb.laNote = append(tb.laNote, fmt.Sprintf("pcalau12i %d: %v", hi, err))
				}
				nmu.Unlock()
			} else {
				if w&0xfe000000 != laPCALAU12I || w&0x1f != 4 {
					herr("pcalau12i word %#08x for imm %d: opcode/rd not as the format says", w, hi)
				}
				tb.laHi[idx] = laSi20(w)
			}
		}
		nenc.Add(n)
	})
	n := int64(0)
	for idx := 0; idx < loSize; idx++ {
		lo := int32(idx - loBias)
		// RISC-V I-type: addi a0,a0,lo ; ld a1,lo(a0)
		fi := uint32(rejected)
		for _, xlen := range []int{64, 32} {
			w1, e1 := rvEncode(xlen, riscv.AADDI, &abi.AsArgument{Rd: riscv.REG_A0, Rs1: riscv.REG_A0, Imm: lo})
			n++
			if e1 != nil {
				continue
			}
			if w1&0x707f != rvOpIMM || w1>>7&0x1f != rd || w1>>15&0x1f != rd {
				herr("addi word %#08x for imm %d: opcode/funct3/rd/rs1 not as the format says", w1, lo)
			}
			fi = rvIimm12(w1)
		}
		if w2, e2 := rvEncode(64, riscv.ALD, &abi.AsArgument{Rd: riscv.REG_A1, Rs1: riscv.REG_A0, Imm: lo}); e2 == nil {
			if w2&0x707f != rvOpLOAD|3<<12 || w2>>7&0x1f != rs || w2>>15&0x1f != rd {
				herr("ld word %#08x for imm %d: opcode/funct3/rd/rs1 not as the format says", w2, lo)
			}
			if fi != rvIimm12(w2) {
				herr("addi and ld disagree on the imm12 field / acceptance for %d", lo)
			}
		} else if fi != rejected {
			herr("ld rejects imm %d that addi accepts: %v", lo, e2)
		}
		n++
		tb.rvLoI[idx] = fi
		// RISC-V S-type: sd a1,lo(a0)
		if w3, e3 := rvEncode(64, riscv.ASD, &abi.AsArgument{Rs1: riscv.REG_A0, Rs2: riscv.REG_A1, Imm: lo}); e3 == nil {
			if w3&0x707f != rvOpSTORE|3<<12 || w3>>15&0x1f != rd || w3>>20&0x1f != rs {
				herr("sd word %#08x for imm %d: opcode/funct3/rs1/rs2 not as the format says", w3, lo)
			}
			tb.rvLoS[idx] = rvSimm12(w3)
		} else {
			tb.rvLoS[idx] = rejected
		}
		n++
		// LoongArch 2RI12: addi.d a0,a0,lo ; ld.d a1,a0,lo ; st.d a1,a0,lo
		fl := uint32(rejected)
		for k, as := range []abi.As{loong64.AADDI_D, loong64.ALD_D, loong64.AST_D} {
			arg := &abi.AsArgument{Rd: loong64.REG_A0, Rs1: loong64.REG_A0, Imm: lo}
			if k > 0 {
				arg.Rd = loong64.REG_A1
			}
			w, err := laEncode(as, arg)
			n++
			if err != nil {
				if k > 0 && fl != rejected {
					herr("loong64 2RI12 encoders disagree about accepting si12 %d", lo)
				}
				if len(tb.laNote) < 4 && (lo == -2049 || lo == 4096) {
					tb.laNote = append(tb.laNote, fmt.Sprintf("2RI12 %d: %v", lo, err))
				}
				continue
			}
			want := []uint32{laADDI_D, laLD_D, laST_D}[k]
			wrd := []uint32{4, 5, 5}[k]
			if w&0xffc00000 != want || w&0x1f != wrd || w>>5&0x1f != 4 {
				herr("loong64 2RI12 word %#08x (%d) for si12 %d: opcode/rd/rj not as the format says", w, k, lo)
			}
			if k > 0 && fl != laSi12(w) {
				herr("loong64 2RI12 encoders give different si12 fields for %d", lo)
			}
			fl = laSi12(w)
		}
		tb.laLo[idx] = fl
	}
	nenc.Add(n)
	r.Evals.Add(nenc.Load())
	acc := func(t []uint32, bias int) string {
		lo, hi, cnt := 0, 0, 0
		for i, f := range t {
			if f != rejected {
				if cnt == 0 {
					lo = i - bias
				}
				hi = i - bias
				cnt++
			}
		}
		return fmt.Sprintf("[%d, %d] (%d values)", lo, hi, cnt)
	}
	r.Extra("encoder_accepts", map[string]string{
		"riscv U-type imm (auipc, lui)":     acc(tb.rvHi, hiBias),
		"riscv I-type imm (addi, ld)":       acc(tb.rvLoI, loBias),
		"riscv S-type imm (sd)":             acc(tb.rvLoS, loBias),
		"loong64 si20 (pcalau12i)":          acc(tb.laHi, hiBias),
		"loong64 si12 (addi.d, ld.d, st.d)": acc(tb.laLo, loBias),
		"first refusals (riscv)":            strings.Join(tb.rvNote, " ; "),
		"first refusals / panics (loong64)": strings.Join(tb.laNote, " ; "),
	})
	r.Extra("encoder_table_encodings", nenc.Load())
}

// ---------------------------------------------------------------------------------------------
// R: RISC-V

type rvWorker struct {
	ws     wset
	evals  int64
	hiSeen []uint64 // bitset over the 20-bit field
	loSeen [64]uint64
	rv64   int64 // offsets whose RV64 (64-bit) auipc+addi result is 2^32 away from pc+offset
	rv64lo int64
	rv64hi int64
}

func cls11(delta int32) string {
	if delta&0x800 != 0 {
		return "bit11=1"
	}
	return "bit11=0"
}

// checkPair judges one (hi, lo) pair that fn returned for the 32-bit quantity `want`
// (an offset from pc for the auipc forms, an absolute address for the lui form).
func (w *rvWorker) checkPair(fn string, delta int32, hi, lo int32, pc uint64, abs bool) {
	w.evals++
	bad := func(kind string, detail func() string) {
		a := absOrd(int64(delta))
		w.ws.offer(vkey{fn, kind, cls11(delta)}, [4]uint64{a[0], a[1], pc, 0}, func() (string, map[string]interface{}) {
			return fmt.Sprintf("%s for 32-bit quantity %d (0x%08x), pc=0x%x: hi=%d lo=%d: %s", fn, delta, uint32(delta), pc, hi, lo, detail()),
				map[string]interface{}{"fn": fn, "value": delta, "value_hex": fmt.Sprintf("0x%08x", uint32(delta)), "pc": fmt.Sprintf("0x%x", pc), "hi": hi, "lo": lo}
		})
	}
	if lo < -2048 || lo > 2047 {
		bad("lo-out-of-range", func() string { return "lo is outside [-2048, 2047]" })
		return
	}
	hidx := int(hi) + hiBias
	if hidx < 0 || hidx >= hiSize || tb.rvHi[hidx] == rejected {
		bad("hi-not-encodable", func() string { return "riscv.EncodeRV64/32 refuse hi as a U-type immediate" })
		return
	}
	f20 := tb.rvHi[hidx]
	fI := tb.rvLoI[int(lo)+loBias]
	fS := tb.rvLoS[int(lo)+loBias]
	if fI == rejected || fS == rejected {
		bad("lo-not-encodable", func() string { return "riscv.EncodeRV64 refuses lo as an I/S-type immediate" })
		return
	}
	w.hiSeen[f20>>6] |= 1 << (f20 & 63)
	w.loSeen[fI>>6] |= 1 << (fI & 63)
	var base, want64 uint64
	if abs {
		base = cpuLUI(f20)
		want64 = uint64(uint32(delta))
	} else {
		base = cpuAUIPC(pc, f20)
		want64 = pc + uint64(int64(delta))
	}
	got := cpuADDI(base, fI)
	if uint32(got) != uint32(want64) {
		bad("cpu-mismatch|addi", func() string {
			return fmt.Sprintf("fields imm20=0x%05x imm12=0x%03x: the CPU computes 0x%08x, wanted 0x%08x (mod 2^32)", f20, fI, uint32(got), uint32(want64))
		})
	} else if got != want64 && !abs && fn == "SplitOffset" {
		// RV64 only: the pair is right modulo 2^32 but auipc sign-extends bit 31
		w.rv64++
		if w.rv64 == 1 || int64(delta) < w.rv64lo {
			w.rv64lo = int64(delta)
		}
		if w.rv64 == 1 || int64(delta) > w.rv64hi {
			w.rv64hi = int64(delta)
		}
	}
	if gs := cpuADDI(base, fS); uint32(gs) != uint32(want64) {
		bad("cpu-mismatch|sd", func() string {
			return fmt.Sprintf("fields imm20=0x%05x S-imm12=0x%03x: store address 0x%08x, wanted 0x%08x (mod 2^32)", f20, fS, uint32(gs), uint32(want64))
		})
	}
}

func partR(r *mc.Run, pcs []uint64) {
	const chunkBits = 20
	nchunks := 1 << (32 - chunkBits)
	if s := os.Getenv("C18_R_CHUNKS"); s != "" { // development aid
		fmt.Sscan(s, &nchunks)
		capHit(r, "C18_R_CHUNKS="+s)
	}
	hiAll := make([]uint64, 1<<20/64)
	var loAll [64]uint64
	var rv64n, total atomic.Int64
	var rmu sync.Mutex
	rvLo, rvHi := int64(1<<40), int64(-1<<40)
	// simplest first: chunk k covers offsets of magnitude around k*2^19, alternating sign
	mc.ParallelFor(nchunks, func(ci int) {
		if r.Expired() {
			capHit(r, "deadline(partR)")
			return
		}
		w := &rvWorker{ws: wset{}, hiSeen: make([]uint64, 1<<20/64)}
		// chunk ci: even -> k*2^20 + o ; odd -> the mirror image -(k*2^20 + o) - 1, both by
		// increasing magnitude (so the first violation of a class in a chunk is its smallest)
		start := int64(ci/2) << chunkBits
		for o := int64(0); o < 1<<chunkBits; o++ {
			delta := int32(start + o)
			if ci%2 == 1 {
				delta = int32(-(start + o) - 1)
			}

			hi, lo := pcrel.SplitOffset(delta)
			w.checkPair("SplitOffset", delta, hi, lo, pcs[0], false)
			if c := pcrel.CombineOffset(hi, lo); c != delta {
				a := absOrd(int64(delta))
				w.ws.offer(vkey{"CombineOffset", "mismatch", cls11(delta)}, [4]uint64{a[0], a[1]}, func() (string, map[string]interface{}) {
					return fmt.Sprintf("CombineOffset(SplitOffset(%d)) = CombineOffset(%d, %d) = %d", delta, hi, lo, c),
						map[string]interface{}{"fn": "CombineOffset", "value": delta, "hi": hi, "lo": lo, "got": c}
				})
			}
			w.evals++

			ahi, alo := pcrel.MakeAbs(uint32(delta))
			w.checkPair("MakeAbs", delta, ahi, alo, 0, true)

			for _, pc := range pcs {
				phi, plo := pcrel.MakePCRel(int64(pc)+int64(delta), int64(pc))
				w.checkPair("MakePCRel", delta, phi, plo, pc, false)
				if pc>>32 == 0 {
					if t := pcrel.GetTargetAddress(uint32(pc), phi, plo); t != uint32(pc)+uint32(delta) {
						a := absOrd(int64(delta))
						w.ws.offer(vkey{"GetTargetAddress", "mismatch", cls11(delta)}, [4]uint64{a[0], a[1], pc}, func() (string, map[string]interface{}) {
							return fmt.Sprintf("GetTargetAddress(0x%x, MakePCRel(target=pc%+d)) = 0x%08x, wanted 0x%08x", pc, delta, t, uint32(pc)+uint32(delta)),
								map[string]interface{}{"fn": "GetTargetAddress", "pc": fmt.Sprintf("0x%x", pc), "value": delta, "hi": phi, "lo": plo}
						})
					}
					w.evals++
				}
			}
			if ci == 0 && (o == 2047 || o == 2048) && r.WantSample() {
				r.Sample(map[string]interface{}{"part": "R", "offset": delta, "SplitOffset_hi": hi, "SplitOffset_lo": lo,
					"auipc_imm20_field": fmt.Sprintf("0x%05x", tb.rvHi[int(hi)+hiBias]), "addi_imm12_field": fmt.Sprintf("0x%03x", tb.rvLoI[int(lo)+loBias])})
			}
		}
		total.Add(1 << chunkBits)
		r.Evals.Add(w.evals)
		rv64n.Add(w.rv64)
		rmu.Lock()
		for i, v := range w.hiSeen {
			hiAll[i] |= v
		}
		for i, v := range w.loSeen {
			loAll[i] |= v
		}
		if w.rv64 > 0 {
			rvLo, rvHi = min(rvLo, w.rv64lo), max(rvHi, w.rv64hi)
		}
		rmu.Unlock()
		mergeW(w.ws, nil)
	})
	nh, nl := countBits(hiAll), countBits(loAll[:])
	distinctSets["riscv imm20"], distinctSets["riscv imm12"] = hiAll, loAll[:]
	r.Extra("partR_offsets", total.Load())
	r.Extra("partR_distinct_imm20_fields", nh)
	r.Extra("partR_distinct_imm12_fields", nl)
	if n := rv64n.Load(); n > 0 {
		r.Extra("rv64_note", fmt.Sprintf("%d offsets, %d..%d: the pair is exact modulo 2^32 but on RV64 auipc sign-extends imm20<<12, so the 64-bit sum is 2^32 below pc+offset (no (hi20, lo12) pair reaches these offsets on RV64; not counted as a violation)", n, rvLo, rvHi))
	}
	vacuity = append(vacuity, func() string {
		if nh != 1<<20 || nl != 4096 {
			return fmt.Sprintf("the RISC-V sweep produced %d of 2^20 hi fields and %d of 4096 lo fields", nh, nl)
		}
		return ""
	})
}

// ---------------------------------------------------------------------------------------------
// S: riscv.Split32BitImmediate (low12, high20, err) — not used by asm, same contract

func partS(r *mc.Run, thorough bool) {
	// every 20-bit upper part x a set of low parts (the 0x800 carry boundary, the ends, bit
	// patterns), and every value of magnitude < 2^k. Not all 2^32: the function builds an error
	// value for every input that does not fit 12 bits (~0.5 us each), and it is an extra.
	lows := []int64{0, 1, 2, 0x7fe, 0x7ff, 0x800, 0x801, 0x802, 0xffd, 0xffe, 0xfff, 0x400, 0xc00, 0x555, 0xaaa, 0x100}
	smallChunks := 8 // x 2^20 values centred on zero
	if thorough {
		lows = lows[:0]
		for l := int64(0); l < 0x1000; l++ {
			if l < 8 || l >= 0xff8 || (l >= 0x7f0 && l < 0x810) || l&0xff == 0 || l&0xff == 0xff || l == 0x555 || l == 0xaaa {
				lows = append(lows, l)
			}
		}
		smallChunks = 128
	}
	k := 19 + bits.Len(uint(smallChunks)) - 1
	r.Bound("S_values", fmt.Sprintf("every upper 20-bit part x %d low parts, plus every value in [-2^%d, 2^%d)", len(lows), k, k))
	nchunks := 4096
	var total atomic.Int64
	mc.ParallelFor(nchunks, func(ci int) {
		if r.Expired() {
			capHit(r, "deadline(partS)")
			return
		}
		ws := wset{}
		n := int64(0)
		one := func(imm int64) {
			n++
			lo, hi, err := riscv.Split32BitImmediate(imm)
			bad := func(kind string, detail func() string) {
				a := absOrd(imm)
				ws.offer(vkey{"Split32BitImmediate", kind, cls11(int32(imm))}, [4]uint64{a[0], a[1]}, func() (string, map[string]interface{}) {
					return fmt.Sprintf("riscv.Split32BitImmediate(%d) = (low=%d, high=%d, err=%v): %s", imm, lo, hi, err, detail()),
						map[string]interface{}{"fn": "riscv.Split32BitImmediate", "imm": imm, "low": lo, "high": hi, "err": fmt.Sprint(err)}
				})
			}
			switch {
			case err != nil:
				bad("error", func() string { return "a 32-bit signed immediate is refused" })
			case lo < -2048 || lo > 2047:
				bad("lo-out-of-range", func() string { return "low is outside [-2048, 2047]" })
			case hi < -(1<<19) || hi >= 1<<20:
				bad("hi-out-of-range", func() string { return "high does not fit a 20-bit field" })
			default:
				got := cpuADDI(cpuLUI(uint32(hi)&0xfffff), uint32(lo)&0xfff)
				if uint32(got) != uint32(imm) {
					bad("cpu-mismatch", func() string {
						return fmt.Sprintf("lui+addi give 0x%08x, wanted 0x%08x (mod 2^32)", uint32(got), uint32(imm))
					})
				}
			}
		}
		// 256 upper parts per chunk
		for u := int64(ci) * 256; u < int64(ci+1)*256; u++ {
			for _, l := range lows {
				one(int64(int32(uint32(u)<<12 | uint32(l))))
			}
		}
		if ci < smallChunks { // small magnitudes: chunks of 2^20 values centred on zero
			base := int64(ci)<<20 - int64(smallChunks)<<19
			for o := int64(0); o < 1<<20; o++ {
				one(base + o)
			}
		}
		total.Add(n)
		r.Evals.Add(n)
		mergeW(ws, nil)
	})
	r.Extra("partS_values", total.Load())
}

// ---------------------------------------------------------------------------------------------
// L: LoongArch64

// page deltas: every value within `halo` of 0, of +-2^19 (the si20 limits) and of every +-2^k
func pageDeltas(halo int64) []int64 {
	set := map[int64]bool{}
	add := func(c int64) {
		for d := -halo; d <= halo; d++ {
			v := c + d
			if v >= -(1<<19)-1 && v <= 1<<19-1 {
				set[v] = true
			}
		}
	}
	add(0)
	for k := 0; k <= 19; k++ {
		add(1 << uint(k))
		add(-(1 << uint(k)))
	}
	out := make([]int64, 0, len(set))
	for v := range set {
		out = append(out, v)
	}
	sort.Slice(out, func(a, b int) bool {
		x, y := absOrd(out[a]), absOrd(out[b])
		return x[0] < y[0] || (x[0] == y[0] && x[1] < y[1])
	})
	return out
}

var laBases = []uint64{
	0x0000000120000000, // default LA64 user text
	0x0000000000000000,
	0x000000007ffff000,
	0x0000000080000000,
	0x7ffffffffffff000, // top of the positive int64 range
	0x8000000000000000,
	0x9000000000000000, // LA64 direct-mapped window
	0xfffffffffffff000,
}

func partL(r *mc.Run, pcStep int, halo int64) {
	deltas := pageDeltas(halo)
	r.Bound("L_page_deltas", fmt.Sprintf("%d values: every page delta within %d of 0, +-2^k (k<=19) and the si20 limits, incl. -2^19-1", len(deltas), halo))
	r.Bound("L_pc_low", fmt.Sprintf("0..4095 step %d", pcStep))
	r.Bound("L_target_low", "0..4095 step 1")
	bs := make([]string, len(laBases))
	for i, b := range laBases {
		bs[i] = fmt.Sprintf("0x%016x", b)
	}
	r.Bound("L_pc_page_bases", bs)
	if s := os.Getenv("C18_L_DELTAS"); s != "" { // development aid
		var n int
		fmt.Sscan(s, &n)
		deltas = deltas[:n]
		capHit(r, "C18_L_DELTAS="+s)
	}
	type job struct {
		pd   int64
		base int
	}
	var jobs []job
	for _, pd := range deltas {
		for b := range laBases {
			jobs = append(jobs, job{pd, b})
		}
	}
	hiAll := make([]uint64, 1<<20/64)
	var loAll [64]uint64
	var lmu sync.Mutex
	var inDom, fringeLoBad, fringeLoN, fringeHiBad, fringeHiN, rawInverseBad atomic.Int64
	mc.ParallelFor(len(jobs), func(ji int) {
		if r.Expired() {
			capHit(r, "deadline(partL)")
			return
		}
		j := jobs[ji]
		ws := wset{}
		var best [16][4]uint64 // smallest violation seen per (kind, class) in this job
		var has [16]bool
		hiSeen := map[uint32]bool{} // a job has one page delta: two hi fields on a correct tree
		lastHi := uint32(rejected)
		var loSeen [64]uint64
		var nIn, nFlo, nFloBad, nFhi, nFhiBad, nRaw int64
		base := laBases[j.base]
		for pcl := 0; pcl < 4096; pcl += pcStep {
			pc := base + uint64(pcl)
			for tl := int64(0); tl < 4096; tl++ {
				delta := j.pd*4096 + tl // target - pc page
				target := base + uint64(delta)
				hi, lo := pcrel.MakeLa64PCRel(int64(target), int64(pc))

				region := 0 // 0 in the demanded domain, 1 low fringe, 2 high fringe
				switch {
				case delta < -(1 << 31):
					region = 1
				case delta >= 1<<31-1<<11:
					region = 2
				}
				if delta < -(1<<31)-(1<<11) {
					continue // no pcalau12i+addi.d pair reaches it (page delta -2^19-1 with low part < 0x800)
				}
				var got uint64
				kind, kindIdx := "", 0
				hidx, lidx := int(hi)+hiBias, int(lo)+loBias
				switch {
				case hidx < 0 || hidx >= hiSize || tb.laHi[hidx] == rejected:
					kind, kindIdx = "hi-not-encodable", 1
				case lidx < 0 || lidx >= loSize || tb.laLo[lidx] == rejected:
					kind, kindIdx = "lo-not-encodable", 2
				default:
					f20, f12 := tb.laHi[hidx], tb.laLo[lidx]
					got = cpuADDI_D(cpuPCALAU12I(pc, f20), f12)
					if got != target {
						kind = "cpu-mismatch"
					} else if t := pcrel.GetTargetAddressLa64(int64(pc), int32(sext(uint64(f20), 20)), int32(sext(uint64(f12), 12))); uint64(t) != target {
						// the package's own model of the pair, fed the operands as a disassembler
						// shows them (sign-extended fields)
						kind, kindIdx = "GetTargetAddressLa64-mismatch", 3
						got = uint64(t)
					}
					if f20 != lastHi {
						lastHi = f20
						hiSeen[f20] = true
					}
					loSeen[f12>>6] |= 1 << (f12 & 63)
					if uint64(pcrel.GetTargetAddressLa64(int64(pc), hi, lo)) != target {
						nRaw++
					}
				}
				switch region {
				case 1:
					nFlo++
					if kind != "" {
						nFloBad++
					}
					continue
				case 2:
					nFhi++
					if kind != "" {
						nFhiBad++
					}
					continue
				}
				nIn++
				if kind == "" {
					continue
				}
				cls := [4]string{"lo<0x800|page-delta>=0", "lo>=0x800|page-delta>=0", "lo<0x800|page-delta<0", "lo>=0x800|page-delta<0"}[b2i(tl >= 0x800)+2*b2i(j.pd < 0)]
				a := absOrd(j.pd)
				ord := [4]uint64{a[0], a[1], uint64(tl), uint64(pcl)<<8 | uint64(j.base)}
				slot := 4*kindIdx + b2i(tl >= 0x800) + 2*b2i(j.pd < 0)
				if has[slot] && !ordLess(ord, best[slot]) {
					continue
				}
				has[slot], best[slot] = true, ord
				ws.offer(vkey{"MakeLa64PCRel", kind, cls}, [4]uint64{a[0], a[1], uint64(tl), uint64(pcl)<<8 | uint64(j.base)}, func() (string, map[string]interface{}) {
					return fmt.Sprintf("MakeLa64PCRel(target=0x%x, pc=0x%x) = (hi20=%d, lo12=%d) [target = pc page %+d pages + 0x%03x]: %s: pcalau12i si20 field 0x%05x, addi.d si12 field 0x%03x -> CPU computes 0x%x",
							target, pc, hi, lo, j.pd, tl, kind, fieldOr(tb.laHi, hidx), fieldOr(tb.laLo, lidx), got),
						map[string]interface{}{"fn": "MakeLa64PCRel", "target": fmt.Sprintf("0x%x", target), "pc": fmt.Sprintf("0x%x", pc), "hi20": hi, "lo12": lo, "cpu_result": fmt.Sprintf("0x%x", got)}
				})
			}
		}
		if j.pd == 16 && j.base == 0 && r.WantSample() {
			pc, target := base+0x10c, base+16*4096+0x130
			hi, lo := pcrel.MakeLa64PCRel(int64(target), int64(pc))
			r.Sample(map[string]interface{}{"part": "L", "pc": fmt.Sprintf("0x%x", pc), "target": fmt.Sprintf("0x%x", target), "hi20": hi, "lo12": lo,
				"si20_field": fmt.Sprintf("0x%05x", tb.laHi[int(hi)+hiBias]), "si12_field": fmt.Sprintf("0x%03x", tb.laLo[int(lo)+loBias])})
		}
		r.Evals.Add(nIn + nFlo + nFhi)
		inDom.Add(nIn)
		fringeLoN.Add(nFlo)
		fringeLoBad.Add(nFloBad)
		fringeHiN.Add(nFhi)
		fringeHiBad.Add(nFhiBad)
		rawInverseBad.Add(nRaw)
		lmu.Lock()
		for f := range hiSeen {
			hiAll[f>>6] |= 1 << (f & 63)
		}
		for i, v := range loSeen {
			loAll[i] |= v
		}
		lmu.Unlock()
		mergeW(ws, nil)
	})
	nhf, nlf := countBits(hiAll), countBits(loAll[:])
	distinctSets["loong64 si20"], distinctSets["loong64 si12"] = hiAll, loAll[:]
	r.Extra("partL_cases_in_domain", inDom.Load())
	r.Extra("partL_distinct_si20_fields", nhf)
	r.Extra("partL_distinct_si12_fields", nlf)
	r.Extra("partL_fringe", map[string]interface{}{
		"below_-2GiB_but_reachable(page delta -2^19-1, low>=0x800)": map[string]int64{"cases": fringeLoN.Load(), "wrong": fringeLoBad.Load()},
		"top_2KiB_below_+2GiB(unreachable by any pair)":             map[string]int64{"cases": fringeHiN.Load(), "wrong": fringeHiBad.Load()},
		"note": "informational, not part of the demanded domain",
	})
	r.Extra("GetTargetAddressLa64_on_raw_MakeLa64PCRel_output_differs_from_target", rawInverseBad.Load())
	vacuity = append(vacuity, func() string {
		if nlf != 4096 || nhf < len(deltas) {
			return fmt.Sprintf("the LoongArch sweep produced %d si20 fields (page deltas: %d) and %d of 4096 si12 fields", nhf, len(deltas), nlf)
		}
		return ""
	})
}

func b2i(b bool) int {
	if b {
		return 1
	}
	return 0
}

func fieldOr(t []uint32, idx int) uint32 {
	if idx < 0 || idx >= len(t) {
		return rejected
	}
	return t[idx]
}

// ---------------------------------------------------------------------------------------------
// E: through the assembler

const elfHeaderRoom = 64 + 56*2 // asmFile reserves ELF64 header + 2 program headers before the first function

type e2eCase struct {
	cpu     abi.CPUType
	name    string
	before  int // filler instructions in the referencing function before the pair
	between int // filler instructions in a function placed between the pair and a text target
	back    bool
	pad     int // bytes of data before a data target (-1: the target is the function `target`)
}

func fill(n int, inst string) string {
	var b strings.Builder
	for i := 0; i < n; i++ {
		b.WriteString("\t" + inst + "\n")
	}
	return b.String()
}

func partE(r *mc.Run, thorough bool) {
	var cases []e2eCase
	befores := []int{0, 1, 509, 510, 511, 1021, 1022, 1023}
	betweens := []int{0, 1, 509, 510, 511, 512, 1022, 1023, 1024, 1535, 1536, 2047, 2048}
	pads := []int{0, 1, 2047, 2048, 2049, 4095, 4096, 4097, 6143, 6144, 8191, 8192}
	if thorough {
		for i := 2; i < 1024; i += 37 {
			befores = append(befores, i)
		}
		for i := 3; i < 3072; i += 61 {
			betweens = append(betweens, i)
		}
		for i := 5; i < 3*4096; i += 127 {
			pads = append(pads, i)
		}
	}
	for _, cpu := range []abi.CPUType{abi.LOONG64, abi.RISCV64, abi.RISCV32} {
		for _, b := range befores {
			for _, bt := range betweens {
				cases = append(cases, e2eCase{cpu: cpu, before: b, between: bt, pad: -1})
				cases = append(cases, e2eCase{cpu: cpu, before: b, between: bt, pad: -1, back: true})
			}
			for _, p := range pads {
				cases = append(cases, e2eCase{cpu: cpu, before: b, pad: p})
			}
		}
	}
	r.Bound("E_programs", len(cases))
	var done, skipped, rvRefused atomic.Int64
	var firstSkip, rvWhy atomic.Value
	mc.ParallelFor(len(cases), func(i int) {
		if r.Expired() {
			capHit(r, "deadline(partE)")
			return
		}
		ws := wset{}
		if why := runE2E(r, cases[i], ws); why != "" {
			if cases[i].cpu != abi.LOONG64 && strings.Contains(why, "unknow symbol decorator") {
				// at the pinned commit abi.BuiltinFn.IsValid answers false for %hi/%lo/%pcrel_hi/
				// %pcrel_lo on RISC-V, so the parser refuses every such program: the RISC-V branch
				// of the assembler is unreachable from source text (covered by part R through the
				// helpers and encoders it calls). Not this property; recorded, not an error.
				rvRefused.Add(1)
				rvWhy.CompareAndSwap(nil, why)
			} else {
				skipped.Add(1)
				firstSkip.CompareAndSwap(nil, why)
			}
		} else {
			done.Add(1)
			r.Evals.Add(1)
		}
		mergeW(ws, nil)
	})
	r.Extra("partE_programs_assembled_and_executed_on_model", done.Load())
	if n := rvRefused.Load(); n > 0 {
		r.Extra("partE_riscv_programs_refused_by_parser", map[string]interface{}{"programs": n, "error": rvWhy.Load()})
	}
	for i := int64(0); i < done.Load(); i++ {
		r.Distinct(fmt.Sprintf("E|program#%d", i))
	}
	if skipped.Load() > 0 {
		herr("end-to-end: %d of %d programs could not be set up: %v", skipped.Load(), len(cases), firstSkip.Load())
	}
}

// runE2E assembles one program and runs its hi/lo pairs on the CPU model. A non-empty result
// means the harness could not set the case up (layout not as assumed).
func runE2E(r *mc.Run, c e2eCase, ws wset) (skip string) {
	defer func() {
		if e := recover(); e != nil {
			skip = fmt.Sprintf("panic in assembler for %+v: %v", c, e)
			if os.Getenv("C18_DEBUG") != "" {
				skip += "\n" + string(debug.Stack())
			}
		}
	}()
	la := c.cpu == abi.LOONG64
	nop := "addi x0, x0, 0"
	if la {
		nop = "addi.d $zero, $zero, 0"
	}
	var pair string
	sym := "target"
	if c.pad >= 0 {
		sym = "datum"
	}
	if la {
		pair = "\tpcalau12i $a0, %pc_hi20(" + sym + ")\n\taddi.d $a0, $a0, %pc_lo12(" + sym + ")\n" +
			"\tpcalau12i $a1, %pc_hi20(" + sym + ")\n\tld.d $a1, $a1, %pc_lo12(" + sym + ")\n"
	} else {
		pair = ".L.here:\n\tauipc a0, %pcrel_hi(" + sym + ")\n\taddi a0, a0, %pcrel_lo(.L.here)\n" +
			"\tlui a1, %hi(" + sym + ")\n\taddi a1, a1, %lo(" + sym + ")\n"
	}
	// the GAS-style syntax the wa back ends emit: one function per ".section .text"
	var src strings.Builder
	fn := func(name, body string) {
		src.WriteString(".section .text\n.globl " + name + "\n" + name + ":\n" + body + "\n")
	}
	ref := fill(c.before, nop) + pair
	tgt := "\t" + nop + "\n"
	var order []string
	if c.pad >= 0 {
		src.WriteString(".section .data\n")
		if c.pad > 0 {
			// (.skip would be natural but asmGlobal panics on it at this commit; not this property)
			src.WriteString("pad: .ascii \"" + strings.Repeat("x", c.pad) + "\"\n")
		}
		src.WriteString("datum: .ascii \"y\"\n\n")
		fn("_start", ref)
		order = []string{"_start"}
	} else {
		gap := func() {
			if c.between > 0 {
				fn("gap", fill(c.between, nop))
				order = append(order, "gap")
			}
		}
		if c.back {
			fn("target", tgt)
			order = append(order, "target")
			gap()
			fn("_start", ref)
			order = append(order, "_start")
		} else {
			fn("_start", ref)
			order = append(order, "_start")
			gap()
			fn("target", tgt)
			order = append(order, "target")
		}
	}
	opt := &abi.LinkOptions{CPU: c.cpu, DRAMBase: 0x120000000, DRAMSize: 64 << 20}
	if !la {
		opt.DRAMBase = 0x80000000
	}
	prog, err := asm.AssembleFile("c18.s", []byte(src.String()), opt)
	if err != nil {
		return fmt.Sprintf("assemble %+v: %v", c, err)
	}
	// layout: header room, then the functions in source order, 4 bytes per instruction
	sizes := map[string]int{"_start": 4 * (c.before + 4), "gap": 4 * c.between, "target": 4}
	addr := map[string]uint64{}
	at := uint64(prog.TextAddr) + elfHeaderRoom
	for _, f := range order {
		addr[f] = at
		at += uint64(sizes[f])
	}
	if int(at-uint64(prog.TextAddr)) != len(prog.TextData) {
		return fmt.Sprintf("text size %d, expected %d for %+v", len(prog.TextData), at-uint64(prog.TextAddr), c)
	}
	word := func(a uint64) uint32 { return binary.LittleEndian.Uint32(prog.TextData[a-uint64(prog.TextAddr):]) }
	var target uint64
	if c.pad >= 0 {
		target = uint64(prog.DataAddr) + uint64(c.pad)
		if off := int(target - uint64(prog.DataAddr)); off >= len(prog.DataData) || prog.DataData[off] != 'y' {
			return fmt.Sprintf("data layout: no 'y' at data offset %d for %+v", c.pad, c)
		}
	} else {
		target = addr["target"]
	}
	pc := addr["_start"] + uint64(4*c.before)
	// filler check: the instruction before the pair and the target instruction are the nop
	nopWord := uint32(0x00000013)
	if la {
		nopWord = laADDI_D
	}
	if c.before > 0 && word(pc-4) != nopWord {
		return fmt.Sprintf("layout: word before the pair is %#08x, not the filler, for %+v", word(pc-4), c)
	}
	w0, w1, w2, w3 := word(pc), word(pc+4), word(pc+8), word(pc+12)
	report := func(kind string, got uint64, detail string) {
		d := int64(target - pc)
		a := absOrd(d)
		ws.offer(vkey{"asm", c.cpu.String(), kind}, [4]uint64{a[0], a[1], uint64(c.before)}, func() (string, map[string]interface{}) {
			return fmt.Sprintf("asm.AssembleFile (%s): %s at pc=0x%x for symbol at 0x%x: words %08x %08x %08x %08x: CPU computes 0x%x (%s)",
					c.cpu, kind, pc, target, w0, w1, w2, w3, got, detail),
				map[string]interface{}{"cpu": c.cpu.String(), "source": src.String(), "pc": fmt.Sprintf("0x%x", pc), "target": fmt.Sprintf("0x%x", target)}
		})
	}
	if la {
		if w0&0xfe000000 != laPCALAU12I || w1&0xffc00000 != laADDI_D || w2&0xfe000000 != laPCALAU12I || w3&0xffc00000 != laLD_D {
			return fmt.Sprintf("layout: expected pcalau12i/addi.d/pcalau12i/ld.d at 0x%x, got %08x %08x %08x %08x", pc, w0, w1, w2, w3)
		}
		if got := cpuADDI_D(cpuPCALAU12I(pc, laSi20(w0)), laSi12(w1)); got != target {
			report("pcalau12i+addi.d", got, "wanted the symbol address")
		}
		if got := cpuADDI_D(cpuPCALAU12I(pc+8, laSi20(w2)), laSi12(w3)); got != target {
			report("pcalau12i+ld.d", got, "wanted the symbol address")
		}
		return ""
	}
	if w0&0x7f != rvOpAUIPC || w1&0x707f != rvOpIMM || w2&0x7f != rvOpLUI || w3&0x707f != rvOpIMM {
		return fmt.Sprintf("layout: expected auipc/addi/lui/addi at 0x%x, got %08x %08x %08x %08x", pc, w0, w1, w2, w3)
	}
	mask := ^uint64(0)
	if c.cpu == abi.RISCV32 {
		mask = 0xffffffff
	}
	if got := cpuADDI(cpuAUIPC(pc, rvUimm20(w0)), rvIimm12(w1)); got&mask != target&mask {
		report("auipc+addi", got&mask, "wanted the symbol address")
	}
	// lui+addi builds the absolute address; it is 32 bits wide by construction, so it is judged
	// modulo 2^32 (text at 0x80000000 sign-extends on RV64)
	if got := cpuADDI(cpuLUI(rvUimm20(w2)), rvIimm12(w3)); uint32(got) != uint32(target) {
		report("lui+addi", uint64(uint32(got)), "wanted the low 32 bits of the symbol address")
	}
	return ""
}

// ---------------------------------------------------------------------------------------------

func main() {
	r := mc.Start("C18")
	r.Rule("R: every int32 offset in order of magnitude through SplitOffset, CombineOffset, MakeAbs, MakePCRel (per pc), GetTargetAddress; " +
		"L: every (page delta, pc page base, pc low, target low) through MakeLa64PCRel; halves -> real encoder -> fields cut out by instruction format -> CPU model; " +
		"S: riscv.Split32BitImmediate; E: programs through asm.AssembleFile, emitted words on the CPU model. " +
		"distinct = distinct instruction field values (imm20/imm12, si20/si12) the sweeps made the encoders emit, plus programs assembled and run on the model")
	pcsR := mc.Pick(r, []uint64{0x80000000, 0xfffffffffffff000}, []uint64{0x80000000, 0xfffffffffffff000, 0, 0x7ffff800, 0xfffffffc, 0x120000000, 0x7ffffffffffff000, 0x8000000000000000})
	ps := make([]string, len(pcsR))
	for i, p := range pcsR {
		ps[i] = fmt.Sprintf("0x%x", p)
	}
	r.Bound("R_offsets", "all 2^32")
	r.Bound("R_pcs_for_MakePCRel", ps)
	r.Assume("RISC-V recombination is judged modulo 2^32 (the statement speaks of a 32-bit offset; DESIGN: 'with 32-bit wraparound'). On RV64 auipc/lui sign-extend, so offsets 0x7ffff800..0x7fffffff land 2^32 low; that is a limit of the instruction pair, reported under rv64_note, not a violation")
	r.Assume("LoongArch domain: target - (pc & ~0xFFF) in [-2^31, 2^31 - 2^11): within +-2 GiB of the pc page AND reachable by some pcalau12i+addi.d pair. The 2 KiB below +2 GiB (unreachable by any pair) and the 2 KiB below -2 GiB (reachable, outside +-2 GiB) are evaluated and reported under partL_fringe only")
	r.Assume("addresses are modular: pc page + delta may wrap around 2^64 / cross 2^63; the CPU adds modulo 2^64 and so does Go's int64")
	r.Assume("the 'emitted pair' is what the encoders the asm package calls put into the instruction word: hi20 = bits 24:5 of pcalau12i, lo12 = bits 21:10 of addi.d/ld.d/st.d (resp. imm[31:12] of auipc/lui, imm[11:0] of addi/ld, the split S-type immediate of sd); values the encoder refuses count as not emitted (violation)")

	parts := os.Getenv("C18_PARTS")
	if parts == "" {
		parts = "TRLSE"
	} else {
		capHit(r, "C18_PARTS="+parts)
	}
	buildTables(r)
	if strings.Contains(parts, "E") {
		partE(r, r.Thorough())
	}
	if strings.Contains(parts, "L") {
		partL(r, mc.Pick(r, 4, 1), mc.Pick(r, int64(2), int64(6)))
	}
	if strings.Contains(parts, "R") {
		partR(r, pcsR)
	}
	if strings.Contains(parts, "S") {
		partS(r, r.Thorough())
	}

	for _, e := range harnessErrs {
		r.HarnessError("%s", e)
	}
	if !capped.Load() && len(gwits) == 0 {
		for _, f := range vacuity {
			if msg := f(); msg != "" {
				r.HarnessError("vacuous: %s", msg)
			}
		}
	}
	for name, set := range distinctSets {
		for i, v := range set {
			for ; v != 0; v &= v - 1 {
				r.Distinct(fmt.Sprintf("%s=%#x", name, i*64+bits.TrailingZeros64(v)))
			}
		}
	}
	keys := make([]vkey, 0, len(gwits))
	for k := range gwits {
		keys = append(keys, k)
	}
	sort.Slice(keys, func(a, b int) bool { return keys[a].String() < keys[b].String() })
	for _, k := range keys {
		r.Report(k.String(), gwits[k].what, gwits[k].rep)
	}
	r.Finish()
}
