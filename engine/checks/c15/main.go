//go:build go1.21

// C15: constant folding agrees with run-time evaluation and with exact arithmetic.
//
//	(a) direct calls of /repo/internal/constant over an extended integer alphabet (±2^k, ±2^k±1),
//	    a float alphabet and a literal alphabet; oracles: go/constant on the same operands and
//	    math/big computed here.
//	(b) every operator x basic type x boundary-operand pair as a constant declaration, through
//	    the real parser and type checker with all errors collected per declaration: rejected iff
//	    the exact value is unrepresentable (oracles: math/big here, go/types on the same text);
//	    accepted declarations: the checker's value equals the exact value, and the compiled
//	    program prints that value for the constant and for the run-time form of the expression
//	    (oracle: the same program built and run by Go).
//	(c) the same for constant conversions type x type x operand.
package main

import (
	"encoding/json"
	"fmt"
	goast "go/ast"
	gconst "go/constant"
	goparser "go/parser"
	gotoken "go/token"
	gotypes "go/types"
	"math"
	"os"
	"regexp"
	"sort"
	"strconv"
	"strings"
	"sync"
	"sync/atomic"
	"time"

	"wa-lang.org/wa/api"
	"wa-lang.org/wa/internal/ast"
	"wa-lang.org/wa/internal/config"
	wconst "wa-lang.org/wa/internal/constant"
	"wa-lang.org/wa/internal/parser"
	"wa-lang.org/wa/internal/token"
	"wa-lang.org/wa/internal/types"
	"wa-lang.org/wa/internal/zzverif/mc"
	"wa-lang.org/wa/internal/zzverif/progs"
	"wa-lang.org/wa/internal/zzverif/wrun"
)

// ---------------------------------------------------------------------------------------------
// worker side: the real front end on one source of many declarations

type feJob struct {
	Kind   string
	Src    string // Go-syntax source: one constant declaration per item, in order
	N      int
	Loader bool // also run the whole loader (api.LoadProgramFile) on the same text
}

type feItem struct {
	Err   string
	Kind  int
	Exact string
	Type  string
	F64   uint64
	F32   uint32
}

type feRes struct {
	Items      []feItem
	Fail       string
	WaSrc      string
	LoaderRan  bool
	LoaderErr  string
	LoaderItem int        // item whose declaration contains the loader's error position, -1 if none
	Ms         [4]float64 // go2wa, parse, check, loader
}

var posRe = regexp.MustCompile(`^[^:]+:(\d+):(\d+): `)

func handleFE(raw json.RawMessage) interface{} {
	var j feJob
	if err := json.Unmarshal(raw, &j); err != nil {
		return feRes{Fail: "bad job: " + err.Error()}
	}
	out := feRes{LoaderItem: -1}
	t0 := time.Now()
	lap := func(k int) {
		out.Ms[k] = float64(time.Since(t0).Microseconds()) / 1000
		t0 = time.Now()
	}
	wa, err := wrun.Go2Wa(j.Src)
	lap(0)
	if err != nil {
		out.Fail = err.Error()
		return out
	}
	out.WaSrc = wa
	fset := token.NewFileSet()
	var f *ast.File
	if p := mc.Recover(func() { f, err = parser.ParseFile(nil, fset, "fe.wa", []byte(wa), parser.AllErrors) }); p != "" {
		out.Fail = "parser panic: " + p
		return out
	}
	if err != nil {
		out.Fail = "parse: " + err.Error()
		return out
	}
	lap(1)
	f.Name.Name = "main"
	type span struct {
		pos, end token.Pos
		l0, l1   int
		name     *ast.Ident
		value    ast.Expr
	}
	var spans []span
	for _, d := range f.Decls {
		gd, ok := d.(*ast.GenDecl)
		if !ok {
			continue
		}
		for _, s := range gd.Specs {
			vs, ok := s.(*ast.ValueSpec)
			if !ok || len(vs.Names) != 1 || len(vs.Values) != 1 {
				continue
			}
			spans = append(spans, span{vs.Pos(), vs.End(), fset.Position(vs.Pos()).Line, fset.Position(vs.End()).Line, vs.Names[0], vs.Values[0]})
		}
	}
	if len(spans) != j.N {
		out.Fail = fmt.Sprintf("front end sees %d declarations, %d items were written", len(spans), j.N)
		return out
	}
	for i, s := range spans {
		if s.name.Name != "c"+strconv.Itoa(i) {
			out.Fail = fmt.Sprintf("declaration %d is named %s", i, s.name.Name)
			return out
		}
	}
	out.Items = make([]feItem, j.N)
	find := func(p token.Pos) int {
		k := sort.Search(len(spans), func(i int) bool { return spans[i].end >= p })
		if k < len(spans) && spans[k].pos <= p {
			return k
		}
		return -1
	}
	stray := ""
	conf := types.Config{Sizes: types.SizesFor(config.WaArch_Default), Error: func(err error) {
		e, ok := err.(types.Error)
		if !ok {
			stray = err.Error()
			return
		}
		k := find(e.Pos)
		if k < 0 {
			stray = fset.Position(e.Pos).String() + ": " + e.Msg
			return
		}
		if out.Items[k].Err == "" {
			out.Items[k].Err = e.Msg
		}
	}}
	info := &types.Info{Types: map[ast.Expr]types.TypeAndValue{}, Defs: map[*ast.Ident]types.Object{}}
	if p := mc.Recover(func() { conf.Check("main", fset, []*ast.File{f}, info) }); p != "" {
		out.Fail = "type checker panic: " + p
		return out
	}
	if stray != "" {
		out.Fail = "error outside every declaration: " + stray
		return out
	}
	for i, s := range spans {
		c, ok := info.Defs[s.name].(*types.Const)
		if !ok || c.Val() == nil {
			continue
		}
		it := &out.Items[i]
		v := c.Val()
		it.Kind = int(v.Kind())
		it.Exact = v.ExactString()
		it.Type = c.Type().String()
		if v.Kind() == wconst.Float || v.Kind() == wconst.Int {
			f64, _ := wconst.Float64Val(v)
			f32, _ := wconst.Float32Val(v)
			it.F64, it.F32 = math.Float64bits(f64), math.Float32bits(f32)
		}
	}
	lap(2)
	if j.Loader {
		out.LoaderRan = true
		if p := mc.Recover(func() {
			_, err := api.LoadProgramFile(api.DefaultConfig(), "fe.wa", wa)
			if err != nil {
				out.LoaderErr = err.Error()
			}
		}); p != "" {
			out.LoaderErr = "loader panic: " + p
		}
		lap(3)
		if m := posRe.FindStringSubmatch(out.LoaderErr); m != nil {
			line, _ := strconv.Atoi(m[1])
			for i, s := range spans {
				if s.l0 <= line && line <= s.l1 {
					out.LoaderItem = i
					break
				}
			}
		}
	}
	return out
}

func handleJob(raw json.RawMessage) interface{} {
	var probe struct{ Kind string }
	json.Unmarshal(raw, &probe)
	if probe.Kind == "fe" {
		return handleFE(raw)
	}
	return progs.HandleJob(raw)
}

// ---------------------------------------------------------------------------------------------
// Go's type checker on the same text (second acceptance oracle), all errors per declaration

type goItem struct {
	Err  string
	Want string // value rendered like bitem.Want for the given kind
}

func goFrontEnd(src string, items []*bitem) ([]goItem, error) {
	fset := gotoken.NewFileSet()
	f, err := goparser.ParseFile(fset, "fe.go", src, goparser.AllErrors)
	if err != nil {
		return nil, err
	}
	type span struct {
		pos, end gotoken.Pos
		name     *goast.Ident
	}
	var spans []span
	for _, d := range f.Decls {
		if gd, ok := d.(*goast.GenDecl); ok {
			for _, s := range gd.Specs {
				if vs, ok := s.(*goast.ValueSpec); ok {
					spans = append(spans, span{vs.Pos(), vs.End(), vs.Names[0]})
				}
			}
		}
	}
	if len(spans) != len(items) {
		return nil, fmt.Errorf("go/parser sees %d declarations for %d items", len(spans), len(items))
	}
	out := make([]goItem, len(items))
	var stray string
	conf := gotypes.Config{Sizes: &gotypes.StdSizes{WordSize: 4, MaxAlign: 4}, Error: func(err error) {
		e := err.(gotypes.Error)
		k := sort.Search(len(spans), func(i int) bool { return spans[i].end >= e.Pos })
		if k >= len(spans) || spans[k].pos > e.Pos {
			stray = e.Error()
			return
		}
		if out[k].Err == "" {
			out[k].Err = e.Msg
		}
	}}
	info := &gotypes.Info{Defs: map[*goast.Ident]gotypes.Object{}}
	conf.Check("main", fset, []*goast.File{f}, info)
	if stray != "" {
		return nil, fmt.Errorf("go/types error outside declarations: %s", stray)
	}
	for i, s := range spans {
		c, ok := info.Defs[s.name].(*gotypes.Const)
		if !ok || c.Val() == nil || out[i].Err != "" {
			continue
		}
		v := c.Val()
		switch items[i].WantKind {
		case "int":
			if iv := gconst.ToInt(v); iv.Kind() == gconst.Int {
				out[i].Want = iv.ExactString()
			}
		case "bool":
			out[i].Want = v.ExactString()
		case "f64":
			f, _ := gconst.Float64Val(v)
			out[i].Want = strconv.FormatUint(math.Float64bits(f+0), 10)
		case "f32":
			f, _ := gconst.Float32Val(v)
			out[i].Want = strconv.FormatUint(uint64(math.Float32bits(f+0)), 10)
		}
	}
	return out, nil
}

func waValue(it feItem, kind string) string {
	switch kind {
	case "int":
		if it.Kind == int(wconst.Int) {
			return it.Exact
		}
		return kindNames[it.Kind] + " " + it.Exact
	case "bool":
		return it.Exact
	case "f64":
		return strconv.FormatUint(it.F64, 10)
	case "f32":
		return strconv.FormatUint(uint64(it.F32), 10)
	}
	return "?"
}

// ---------------------------------------------------------------------------------------------

func normMsg(s string) string {
	// keep the kind of message, drop the operands
	for _, k := range []string{"overflows", "division by zero", "truncated", "cannot convert", "cannot use", "invalid operation", "not representable"} {
		if strings.Contains(s, k) {
			return k
		}
	}
	if len(s) > 40 {
		s = s[:40]
	}
	return s
}

func main() {
	if mc.IsWorker() {
		mc.WorkerMain(handleJob)
		return
	}
	r := mc.Start("C15")
	r.Rule("(a) internal/constant called on every value / pair of the extended integer alphabet, the float alphabet and the literal alphabet for every operation; (b),(c) every operator x type x boundary-operand pair / conversion type x type x operand as a constant declaration through the real parser+checker (all errors, per declaration) and, if accepted, compiled and run next to the run-time form; distinct = distinct (operation, result shape) classes and distinct printed values")
	r.Assume("(a) domain: operands for which go/constant itself does not panic (zero divisors, negative shift counts are filtered by the type checker before the package is called); literals are syntactically valid")
	r.Assume("(a) floating-point constants: a result within 2^-256 relative of the exact rational counts as equal (language minimum: 256-bit mantissa); integer results must be exact")
	r.Assume("(b) typed floating-point constants are rounded to their type (round to nearest even) and have no negative zero, as in Go; for float operands only the constant is compared with exact arithmetic, the run-time value is compared with Go")
	r.Assume("(b) int, uint and uintptr are 32 bits wide in Wa (types.SizesFor(wasm)); go/types is configured with the same sizes; their run-time forms are compared with Go (64-bit words) only on the accepted set, where no wrap-around occurs")
	r.Assume("per-declaration errors are read from the type checker's Error callback (the loader reports only the first error); the loader's first error is cross-checked per source")

	only := os.Getenv("C15_ONLY") // a, fe, run (debugging)
	K := mc.Pick(r, 66, 130)
	if only == "" || strings.Contains(only, "a") {
		ca := &ctxA{r}
		partAInts(ca, K)
		partAFloats(ca, K)
		partAMisc(ca)
	}
	evalsA := r.Evals.Load()
	r.Extra("evaluations_part_a", evalsA)

	if only == "" || strings.Contains(only, "fe") || strings.Contains(only, "run") {
		partBC(r, only)
	}
	if r.DistinctCount() < 200 && only == "" {
		r.HarnessError("vacuous: only %d distinct outcomes", r.DistinctCount())
	}
	r.Finish()
}

func partBC(r *mc.Run, only string) {
	var items []bitem
	items = append(items, genIntItems(intTypesB)...)
	items = append(items, genFloatItems()...)
	items = append(items, genConvItems(convTypes)...)
	items = append(items, genWideItems(r.Thorough())...)
	items = append(items, genRoundTripItems()...)
	if f := os.Getenv("C15_GROUPS"); f != "" {
		// debugging aid: restrict parts (b)/(c) to the groups whose name contains the substring
		var sel []bitem
		for _, it := range items {
			if strings.Contains(it.Group, f) {
				sel = append(sel, it)
			}
		}
		items = sel
		r.Cap("C15_GROUPS filter " + f)
	}
	r.Bound("bc_declarations", len(items))

	// group
	type group struct {
		name  string
		items []*bitem
		ids   []int
	}
	var groups []*group
	gidx := map[string]*group{}
	for i := range items {
		it := &items[i]
		g := gidx[it.Group]
		if g == nil {
			g = &group{name: it.Group}
			gidx[it.Group] = g
			groups = append(groups, g)
		}
		g.items = append(g.items, it)
		g.ids = append(g.ids, i)
	}
	r.Bound("bc_sources", len(groups))
	srcOf := func(g *group) string {
		var b strings.Builder
		b.WriteString("package main\n\n")
		for i, it := range g.items {
			b.WriteString(strings.ReplaceAll(it.Decl, "@N@", "c"+strconv.Itoa(i)))
			b.WriteString("\n")
		}
		b.WriteString("\nfunc main() {}\n")
		return b.String()
	}
	pool := mc.NewPool(mc.NWorkers(), nil)
	defer pool.Close()

	waOK := make([]bool, len(items)) // accepted by Wa's checker and by the oracle
	var nAcc, nRej, nLoader, nGoDev atomic.Int64
	var mu sync.Mutex
	var ms [5]float64
	srcs := make([]string, len(groups))
	for i, g := range groups {
		srcs[i] = srcOf(g)
	}
	// The whole loader is run next to the per-declaration checker on every source in the thorough
	// tier; in the quick tier on the sources of the word-sized types (where the loader's size
	// configuration matters) and of the literal family.
	loaderFor := func(g *group) bool {
		if os.Getenv("C15_NOLOADER") != "" || (strings.HasPrefix(g.name, "wide|") && !strings.HasPrefix(g.name, "wide|lit|")) {
			return false
		}
		if r.Thorough() {
			return true
		}
		return strings.HasSuffix(g.name, "|int") || strings.HasSuffix(g.name, "|uint")
	}
	handle := func(res mc.Result) {
		g := groups[res.Index]
		src := srcs[res.Index]
		if res.Status != "ok" {
			r.Report("C15|b|front-end-"+res.Status+"|"+g.name, fmt.Sprintf("front end %s on the declarations of group %s: %s", res.Status, g.name, tailS(res.Stderr, 400)), map[string]any{"go_source": src})
			return
		}
		var fr feRes
		if err := json.Unmarshal(res.Out, &fr); err != nil {
			r.HarnessError("group %s: bad worker output: %v", g.name, err)
			return
		}
		if fr.Fail != "" {
			if strings.Contains(fr.Fail, "panic") {
				r.Report("C15|b|front-end-panic|"+g.name, "group "+g.name+": "+fr.Fail, map[string]any{"go_source": src})
			} else {
				r.HarnessError("group %s: %s", g.name, fr.Fail)
			}
			return
		}
		mu.Lock()
		for k := range fr.Ms {
			ms[k] += fr.Ms[k]
		}
		mu.Unlock()
		tg := time.Now()
		gi, err := goFrontEnd(src, g.items)
		mu.Lock()
		ms[4] += float64(time.Since(tg).Microseconds()) / 1000
		mu.Unlock()
		if err != nil {
			r.HarnessError("group %s: go front end: %v", g.name, err)
			return
		}
		firstRej := -1
		for i, it := range g.items {
			w := fr.Items[i]
			r.Evals.Add(1)
			waAcc, goAcc := w.Err == "", gi[i].Err == ""
			if !waAcc && firstRej < 0 {
				firstRej = i
			}
			if goDeviates(it) {
				// go/constant folds MinInt64 / -1 in int64 arithmetic (wraps to MinInt64): the Go oracle
				// is wrong here, math/big decides alone
				nGoDev.Add(1)
				goAcc = it.Accept
				gi[i].Want = it.Want
			}
			if goAcc != it.Accept {
				r.HarnessError("oracles disagree on %s: math/big accept=%v (%s), go/types accept=%v (%s)", it.Desc, it.Accept, it.RC, goAcc, gi[i].Err)
				continue
			}
			if it.Accept {
				nAcc.Add(1)
			} else {
				nRej.Add(1)
			}
			if waAcc != it.Accept {
				if waAcc {
					r.Report("C15|"+it.Key+"|wrongly-accepted", fmt.Sprintf("%s: the checker accepts `%s` (value %s) although the exact result is not representable (%s); go/types: %s", it.Desc, it.Decl, waValue(w, it.WantKind), it.RC, gi[i].Err),
						map[string]any{"decl": it.Decl, "group": g.name})
				} else {
					r.Report("C15|"+it.Key+"|wrongly-rejected", fmt.Sprintf("%s: the checker rejects `%s` (%s) although the exact result %s is representable; go/types accepts it", it.Desc, it.Decl, w.Err, it.Want),
						map[string]any{"decl": it.Decl, "group": g.name})
				}
				continue
			}
			if !it.Accept {
				r.Distinct("fe|rej|" + it.Group + "|" + it.RC + "|" + normMsg(w.Err))
				continue
			}
			if gi[i].Want != it.Want {
				r.HarnessError("oracles disagree on the value of %s: math/big %s, go/types %s", it.Desc, it.Want, gi[i].Want)
				continue
			}
			got := waValue(w, it.WantKind)
			if got != it.Want {
				r.Report("C15|"+it.vkey()+"|checker-value-vs-exact", fmt.Sprintf("%s: the checker folds `%s` to %s (%s), exact arithmetic and go/types give %s", it.Desc, it.Decl, got, w.Exact, it.Want),
					map[string]any{"decl": it.Decl, "group": g.name})
				continue
			}
			r.Distinct("fe|acc|" + it.Group + "|" + it.Want)
			mu.Lock()
			waOK[g.ids[i]] = true
			mu.Unlock()
			if i == len(g.items)/3 && r.WantSample() {
				r.Sample(map[string]any{"part": "b/c front end", "decl": it.Decl, "checker_value": got, "exact": it.Want, "go/types": gi[i].Want})
			}
		}
		if fr.LoaderRan {
			nLoader.Add(1)
			r.Evals.Add(1)
			switch {
			case firstRej < 0 && fr.LoaderErr != "":
				r.Report("C15|b|loader|error-without-checker-error|"+normMsg(fr.LoaderErr), fmt.Sprintf("group %s: the checker reports no error but api.LoadProgramFile fails: %s", g.name, clipS(fr.LoaderErr)), map[string]any{"go_source": src})
			case firstRej >= 0 && fr.LoaderErr == "":
				r.Report("C15|b|loader|no-error", fmt.Sprintf("group %s: the checker rejects `%s` but api.LoadProgramFile returns no error", g.name, g.items[firstRej].Decl), map[string]any{"go_source": src})
			case firstRej >= 0 && fr.LoaderItem != firstRej:
				r.Report("C15|b|loader|first-error-differs", fmt.Sprintf("group %s: first checker error is in declaration %d (`%s`), the loader reports %s", g.name, firstRej, g.items[firstRej].Decl, clipS(fr.LoaderErr)), map[string]any{"go_source": src})
			}
		}
	}
	if only == "" || strings.Contains(only, "fe") || strings.Contains(only, "run") {
		pool.Run(len(groups), func(i int) interface{} {
			return feJob{Kind: "fe", Src: srcs[i], N: len(groups[i].items), Loader: loaderFor(groups[i])}
		}, 20*time.Minute, handle)
	}
	r.Extra("declarations_accepted", nAcc.Load())
	r.Extra("declarations_rejected", nRej.Load())
	r.Extra("loader_cross_checks", nLoader.Load())
	r.Extra("go_oracle_known_deviations(MinInt64/-1)", nGoDev.Load())
	r.Extra("front_end_cpu_ms(go2wa,parse,check,loader,go/types)", fmt.Sprintf("%.0f %.0f %.0f %.0f %.0f", ms[0], ms[1], ms[2], ms[3], ms[4]))
	if nAcc.Load() == 0 || nRej.Load() == 0 {
		r.HarnessError("vacuous: %d accepted / %d rejected declarations", nAcc.Load(), nRej.Load())
	}
	if only != "" && !strings.Contains(only, "run") {
		return
	}

	// ---- run part: accepted declarations next to their run-time form
	runTypes := map[string]bool{}
	for _, t := range mc.Pick(r, []string{"int32", "uint8", "uint64", "int", "float64", "float32"}, []string{}) {
		runTypes[t] = true
	}
	famIdx := map[string]int{}
	var fams []progs.Family
	pgroups := map[string]*progs.Group{}
	var order []string
	nrun := 0
	for i := range items {
		it := &items[i]
		if !it.Accept || !waOK[i] || it.NoRun || it.RunStmts == "" {
			continue
		}
		if len(runTypes) > 0 {
			// quick tier: a stated subset of types for the compiled part (the front-end part covers all)
			parts := strings.Split(it.Group, "|")
			ok := true
			for _, p := range parts[1:] {
				if isTypeName(p) && !runTypes[p] {
					ok = false
				}
			}
			if !ok {
				continue
			}
		}
		g := pgroups[it.Group]
		if g == nil {
			g = &progs.Group{Name: it.Group, Imports: it.RunImports}
			pgroups[it.Group] = g
			order = append(order, it.Group)
		}
		g.Items = append(g.Items, progs.Item{Key: it.vkey() + "|run", Desc: it.Desc, Stmts: strings.ReplaceAll(strings.ReplaceAll(it.RunStmts, "@C@", "c"), "@ID@", strconv.Itoa(i))})
		nrun++
	}
	for _, name := range order {
		fam := strings.SplitN(name, "|", 2)[0]
		k, ok := famIdx[fam]
		if !ok {
			k = len(fams)
			famIdx[fam] = k
			fams = append(fams, progs.Family{Name: "const-" + fam})
		}
		fams[k].Groups = append(fams[k].Groups, *pgroups[name])
	}
	r.Bound("run_items", nrun)
	if len(runTypes) > 0 {
		var ts []string
		for t := range runTypes {
			ts = append(ts, t)
		}
		sort.Strings(ts)
		r.Bound("run_types", strings.Join(ts, ","))
	} else {
		r.Bound("run_types", "all")
	}
	parse := func(out string) (id int, c, rt string, ok bool) {
		fs := strings.Fields(strings.TrimRight(out, "\n"))
		if len(fs) != 3 || strings.Count(out, "\n") != 1 {
			return 0, "", "", false
		}
		id, err := strconv.Atoi(fs[2])
		if err != nil || id < 0 || id >= len(items) {
			return 0, "", "", false
		}
		return id, fs[0], fs[1], true
	}
	cmp := func(g, w wrun.CaseResult) bool {
		id, gc, grt, ok := parse(g.Out)
		if !ok {
			r.HarnessError("run part: unparsable Go output %q", g.Out)
			return true
		}
		it := &items[id]
		if gc != it.RunWant {
			r.HarnessError("run part: Go prints %s for the constant of %s, exact arithmetic says %s", gc, it.Desc, it.RunWant)
			return true
		}
		if it.SameRT && grt != gc {
			r.HarnessError("run part: Go's run-time value %s differs from its constant %s for %s", grt, gc, it.Desc)
			return true
		}
		wid, wc, wrt, ok := parse(w.Out)
		if !ok || wid != id {
			return false
		}
		rep := map[string]any{"stmts": strings.ReplaceAll(it.RunStmts, "@C@", "c"), "go": g.Out, "wa": w.Out}
		switch {
		case wc != it.RunWant:
			r.Report("C15|"+it.vkey()+"|compiled-const-vs-exact", fmt.Sprintf("%s: the compiled program prints %s for the constant, exact arithmetic and Go give %s (run-time form prints %s)", it.Desc, wc, it.RunWant, wrt), rep)
		case wrt != grt && it.SameRT:
			r.Report("C15|"+it.vkey()+"|const-vs-runtime", fmt.Sprintf("%s: constant %s (= exact) but the run-time form prints %s (Go: %s)", it.Desc, wc, wrt, grt), rep)
		case wrt != grt:
			r.Report("C15|"+it.vkey()+"|runtime-vs-go", fmt.Sprintf("%s: constant %s (= exact); the run-time form prints %s, Go prints %s", it.Desc, wc, wrt, grt), rep)
		}
		return true
	}
	progs.Run(r, pool, fams, progs.Options{CasesPerProgram: mc.Pick(r, 6, 6), KeyPrefix: "C15", Compare: cmp})
}

func (it *bitem) vkey() string {
	if it.Cls == "" {
		return it.Key
	}
	return it.Key + "|" + it.Cls
}

func goDeviates(it *bitem) bool {
	return strings.Contains(it.Decl, "(-9223372036854775808) / (-1)") || strings.Contains(it.Decl, "int64((-9223372036854775808)) / int64((-1))")
}

func isTypeName(s string) bool {
	for _, t := range convTypes {
		if t.Name == s {
			return true
		}
	}
	return false
}

func tailS(s string, n int) string {
	if len(s) > n {
		return s[len(s)-n:]
	}
	return s
}
