//go:build go1.21

package main

// Part (a): direct calls of /repo/internal/constant over an extended integer alphabet, a float
// alphabet and a literal alphabet. Every value is built in lock-step in Wa's package and in Go's
// go/constant; every operation is applied to both and the outcomes are compared (kind + exact
// value), and integer results are additionally compared with math/big computed here.

import (
	"fmt"
	gconst "go/constant"
	gtoken "go/token"
	"math"
	"math/big"
	"strconv"
	"strings"

	wconst "wa-lang.org/wa/internal/constant"
	wtoken "wa-lang.org/wa/internal/token"
	"wa-lang.org/wa/internal/zzverif/mc"
)

type pair struct {
	w wconst.Value
	g gconst.Value
}

type opTok struct {
	name string
	w    wtoken.Token
	g    gtoken.Token
}

var (
	opADD    = opTok{"+", wtoken.ADD, gtoken.ADD}
	opSUB    = opTok{"-", wtoken.SUB, gtoken.SUB}
	opMUL    = opTok{"*", wtoken.MUL, gtoken.MUL}
	opQUO    = opTok{"/", wtoken.QUO, gtoken.QUO}
	opQUOI   = opTok{"/=", wtoken.QUO_ASSIGN, gtoken.QUO_ASSIGN}
	opREM    = opTok{"%", wtoken.REM, gtoken.REM}
	opAND    = opTok{"&", wtoken.AND, gtoken.AND}
	opOR     = opTok{"|", wtoken.OR, gtoken.OR}
	opXOR    = opTok{"^", wtoken.XOR, gtoken.XOR}
	opANDNOT = opTok{"&^", wtoken.AND_NOT, gtoken.AND_NOT}
	opSHL    = opTok{"<<", wtoken.SHL, gtoken.SHL}
	opSHR    = opTok{">>", wtoken.SHR, gtoken.SHR}
	opEQL    = opTok{"==", wtoken.EQL, gtoken.EQL}
	opNEQ    = opTok{"!=", wtoken.NEQ, gtoken.NEQ}
	opLSS    = opTok{"<", wtoken.LSS, gtoken.LSS}
	opLEQ    = opTok{"<=", wtoken.LEQ, gtoken.LEQ}
	opGTR    = opTok{">", wtoken.GTR, gtoken.GTR}
	opGEQ    = opTok{">=", wtoken.GEQ, gtoken.GEQ}
	opNOT    = opTok{"!", wtoken.NOT, gtoken.NOT}
	opLAND   = opTok{"&&", wtoken.LAND, gtoken.LAND}
	opLOR    = opTok{"||", wtoken.LOR, gtoken.LOR}
	litINT   = opTok{"INT", wtoken.INT, gtoken.INT}
	litFLOAT = opTok{"FLOAT", wtoken.FLOAT, gtoken.FLOAT}
	litIMAG  = opTok{"IMAG", wtoken.IMAG, gtoken.IMAG}
	litCHAR  = opTok{"CHAR", wtoken.CHAR, gtoken.CHAR}
	litSTR   = opTok{"STRING", wtoken.STRING, gtoken.STRING}
)

var kindNames = []string{"Unknown", "Bool", "String", "Int", "Float", "Complex"}

// canon is the semantic content of a constant value, recovered from (Kind, ExactString) only,
// so the same code reads both libraries.
type canon struct {
	kind   int
	i      *big.Int
	q      *big.Rat // Float; for Complex the real part
	im     *big.Rat
	text   string // Bool, String, Unknown
	parsed bool
}

func parseFloatExact(s string) (*big.Rat, bool) {
	if q, ok := new(big.Rat).SetString(s); ok && !strings.ContainsAny(s, "pP") {
		return q, true
	}
	f, _, err := new(big.Float).SetPrec(4096).Parse(s, 0)
	if err != nil || f.IsInf() {
		return nil, false
	}
	q, _ := f.Rat(nil)
	return q, q != nil
}

func canonOf(kind int, exact string) canon {
	c := canon{kind: kind, text: exact}
	switch kind {
	case 3:
		c.i, c.parsed = new(big.Int).SetString(exact, 10)
	case 4:
		c.q, c.parsed = parseFloatExact(exact)
	case 5:
		// "(re + imi)"
		s := strings.TrimSuffix(strings.TrimPrefix(exact, "("), "i)")
		k := strings.Index(s, " + ")
		if k >= 0 {
			var ok1, ok2 bool
			c.q, ok1 = parseFloatExact(s[:k])
			c.im, ok2 = parseFloatExact(s[k+3:])
			c.parsed = ok1 && ok2
		}
	default:
		c.parsed = true
	}
	return c
}

var relTol = new(big.Rat).SetFrac(big.NewInt(1), new(big.Int).Lsh(big.NewInt(1), 256))

// closeRat: equal, or relative difference <= 2^-256 (the language's minimum mantissa for
// floating-point constants; both libraries switch to 512-bit floats for huge exponents).
func closeRat(a, b *big.Rat) (equal, close bool) {
	if a.Cmp(b) == 0 {
		return true, true
	}
	if a.Sign() == 0 || b.Sign() == 0 {
		return false, false
	}
	d := new(big.Rat).Sub(a, b)
	d.Abs(d)
	m := new(big.Rat).Abs(b)
	m.Mul(m, relTol)
	return false, d.Cmp(m) <= 0
}

func (c canon) same(d canon) (bool, string) {
	if c.kind != d.kind {
		return false, fmt.Sprintf("kind %s vs %s", kindNames[c.kind], kindNames[d.kind])
	}
	if !c.parsed || !d.parsed {
		return c.text == d.text, "unparsed exact strings differ"
	}
	switch c.kind {
	case 3:
		return c.i.Cmp(d.i) == 0, "integer values differ"
	case 4:
		_, cl := closeRat(c.q, d.q)
		return cl, "float values differ by more than 2^-256 relative"
	case 5:
		_, c1 := closeRat(c.q, d.q)
		_, c2 := closeRat(c.im, d.im)
		return c1 && c2, "complex values differ"
	}
	return c.text == d.text, "values differ"
}

func wcanon(v wconst.Value) canon { return canonOf(int(v.Kind()), v.ExactString()) }
func gcanon(v gconst.Value) canon { return canonOf(int(v.Kind()), v.ExactString()) }

func clipS(s string) string {
	if len(s) > 90 {
		return s[:60] + "…" + s[len(s)-20:]
	}
	return s
}

// ctxA carries the reporting context of part (a).
type ctxA struct{ r *mc.Run }

func (c *ctxA) report(fn, op, class, oracle, what string, replay map[string]any) {
	key := "C15|a|" + fn
	if op != "" {
		key += "|" + op
	}
	key += "|" + class + "|" + oracle
	c.r.Report(key, what, replay)
}

// check compares the two libraries' results of one call. Panics are outcomes too.
func (c *ctxA) check(fn, op, class, desc string, wf func() wconst.Value, gf func() gconst.Value) (p pair, ok bool) {
	c.r.Evals.Add(1)
	var wp, gp string
	wp = mc.Recover(func() { p.w = wf() })
	gp = mc.Recover(func() { p.g = gf() })
	if gp != "" {
		// the reference itself rejects the operands: outside the domain
		return p, false
	}
	if wp != "" {
		c.report(fn, op, class, "panic", fmt.Sprintf("%s: internal/constant panics (%s), go/constant returns %s", desc, clipS(wp), clipS(p.g.ExactString())), map[string]any{"call": desc})
		return p, false
	}
	if same, why := wcanon(p.w).same(gcanon(p.g)); !same {
		c.report(fn, op, class, "vs-go/constant", fmt.Sprintf("%s: internal/constant gives %s %s, go/constant gives %s %s (%s)", desc, kindNames[p.w.Kind()], clipS(p.w.ExactString()), kindNames[p.g.Kind()], clipS(p.g.ExactString()), why), map[string]any{"call": desc})
		return p, false
	}
	if fn != "Make" { // Make's missing normalisation is reported by its own comparison (known key)
		if why := resultAccessorsDiffer(p); why != "" {
			c.report(fn, op, class, "result-accessors-vs-go/constant", fmt.Sprintf("%s = %s: %s", desc, clipS(p.w.ExactString()), why), map[string]any{"call": desc})
			return p, false
		}
	}
	return p, true
}

// resultAccessorsDiffer: what the type checker reads from a result - the exactness flags of the
// Go-typed accessors, BitLen, Sign and the printed form - must be what go/constant gives for the
// same value (a result that fits 64 bits again must be reported as exact).
func resultAccessorsDiffer(p pair) string {
	switch p.w.Kind() {
	case wconst.Int:
		wi, wex := wconst.Int64Val(p.w)
		gi, gex := gconst.Int64Val(p.g)
		if wex != gex || (wex && wi != gi) {
			return fmt.Sprintf("Int64Val = (%d, %v), go/constant (%d, %v)", wi, wex, gi, gex)
		}
		wu, wux := wconst.Uint64Val(p.w)
		gu, gux := gconst.Uint64Val(p.g)
		if wux != gux || (wux && wu != gu) {
			return fmt.Sprintf("Uint64Val = (%d, %v), go/constant (%d, %v)", wu, wux, gu, gux)
		}
		if wconst.BitLen(p.w) != gconst.BitLen(p.g) || wconst.Sign(p.w) != gconst.Sign(p.g) {
			return fmt.Sprintf("BitLen/Sign = %d/%d, go/constant %d/%d", wconst.BitLen(p.w), wconst.Sign(p.w), gconst.BitLen(p.g), gconst.Sign(p.g))
		}
		if p.w.String() != p.g.String() {
			return fmt.Sprintf("String() = %s, go/constant %s", clipS(p.w.String()), clipS(p.g.String()))
		}
	case wconst.Float:
		cw, cg := wcanon(p.w), gcanon(p.g)
		if !cw.parsed || !cg.parsed || cw.q.Cmp(cg.q) != 0 {
			return "" // equal only within the float tolerance: the accessors may round differently
		}
		wf, wex := wconst.Float64Val(p.w)
		gf, gex := gconst.Float64Val(p.g)
		if math.Float64bits(wf) != math.Float64bits(gf) || wex != gex {
			return fmt.Sprintf("Float64Val = (%v, %v), go/constant (%v, %v)", wf, wex, gf, gex)
		}
		wf32, wex32 := wconst.Float32Val(p.w)
		gf32, gex32 := gconst.Float32Val(p.g)
		if math.Float32bits(wf32) != math.Float32bits(gf32) || wex32 != gex32 {
			return fmt.Sprintf("Float32Val = (%v, %v), go/constant (%v, %v)", wf32, wex32, gf32, gex32)
		}
	}
	return ""
}

// wantInt compares a Wa result with the math/big value.
func (c *ctxA) wantInt(fn, op, class, desc string, w wconst.Value, want *big.Int) {
	cw := wcanon(w)
	if cw.kind != 3 || !cw.parsed || cw.i.Cmp(want) != 0 {
		c.report(fn, op, class, "vs-math/big", fmt.Sprintf("%s: internal/constant gives %s %s, exact value is %s", desc, kindNames[cw.kind], clipS(w.ExactString()), clipS(want.String())), map[string]any{"call": desc})
	}
	if fn != "Make" && cw.kind == 3 {
		i64, ex := wconst.Int64Val(w)
		u64, uex := wconst.Uint64Val(w)
		if ex != want.IsInt64() || (ex && i64 != want.Int64()) || uex != want.IsUint64() || (uex && u64 != want.Uint64()) {
			c.report(fn, op, class, "result-accessors-vs-math/big", fmt.Sprintf("%s = %s: Int64Val = (%d, %v), Uint64Val = (%d, %v); math/big IsInt64=%v IsUint64=%v", desc, clipS(w.ExactString()), i64, ex, u64, uex, want.IsInt64(), want.IsUint64()), map[string]any{"call": desc})
		}
	}
	c.r.Distinct("a|" + fn + op + "|" + strconv.Itoa(want.BitLen()) + "|" + strconv.Itoa(want.Sign()))
}

func (c *ctxA) wantRat(fn, op, class, desc string, w wconst.Value, want *big.Rat) {
	cw := wcanon(w)
	okk := false
	if cw.parsed {
		switch cw.kind {
		case 3:
			okk = want.IsInt() && cw.i.Cmp(want.Num()) == 0
		case 4:
			_, okk = closeRat(cw.q, want)
		}
	}
	if !okk {
		c.report(fn, op, class, "vs-math/big", fmt.Sprintf("%s: internal/constant gives %s %s, exact value is %s", desc, kindNames[cw.kind], clipS(w.ExactString()), clipS(want.RatString())), map[string]any{"call": desc})
	}
}

func (c *ctxA) wantBool(fn, op, class, desc string, got, goGot, want bool) {
	c.r.Evals.Add(1)
	if got != want || goGot != want {
		orc := "vs-math/big"
		if goGot != want {
			orc = "oracles-disagree"
		}
		c.report(fn, op, class, orc, fmt.Sprintf("%s: internal/constant gives %v, go/constant %v, exact %v", desc, got, goGot, want), map[string]any{"call": desc})
	}
}

// ---------------------------------------------------------------------------------------------

func intAlphabetA(K int) []*big.Int {
	var vs []*big.Int
	seen := map[string]bool{}
	add := func(v *big.Int) {
		if !seen[v.String()] {
			seen[v.String()] = true
			vs = append(vs, v)
		}
	}
	for _, k := range []int64{0, 1, -1, 2, -2, 3, -3, 7, -7, 10, 255, -128} {
		add(big.NewInt(k))
	}
	for k := 2; k <= K; k++ {
		p := new(big.Int).Lsh(big.NewInt(1), uint(k))
		for _, d := range []int64{0, -1, 1} {
			v := new(big.Int).Add(p, big.NewInt(d))
			add(v)
			add(new(big.Int).Neg(v))
		}
	}
	return vs
}

func sizeClass(v *big.Int) string {
	switch {
	case v.IsInt64():
		return "int64"
	case v.IsUint64():
		return "uint64"
	}
	return "big"
}

func mkInt(v *big.Int) pair {
	abs := new(big.Int).Abs(v).String()
	p := pair{wconst.MakeFromLiteral(abs, wtoken.INT, 0), gconst.MakeFromLiteral(abs, gtoken.INT, 0)}
	if v.Sign() < 0 {
		p = pair{wconst.UnaryOp(wtoken.SUB, p.w, 0), gconst.UnaryOp(gtoken.SUB, p.g, 0)}
	}
	return p
}

var shiftCountsA = []uint{0, 1, 2, 3, 4, 7, 8, 31, 32, 33, 62, 63, 64, 65, 66, 67, 99, 100, 127, 128, 129, 255, 511, 512, 1023}

func partAInts(c *ctxA, K int) {
	vals := intAlphabetA(K)
	ps := make([]pair, len(vals))
	for i, v := range vals {
		ps[i] = mkInt(v)
	}
	c.r.Bound("a_int_alphabet_k", K)
	c.r.Bound("a_int_alphabet_size", len(vals))
	binops := []opTok{opADD, opSUB, opMUL, opQUO, opQUOI, opREM, opAND, opOR, opXOR, opANDNOT}
	cmpops := []opTok{opEQL, opNEQ, opLSS, opLEQ, opGTR, opGEQ}
	mc.ParallelFor(len(vals), func(i int) {
		a, pa := vals[i], ps[i]
		ca := sizeClass(a)
		as := a.String()
		// --- single-operand functions
		c.wantInt("MakeFromLiteral", "", ca, "MakeFromLiteral("+as+")", pa.w, a)
		if _, ok := c.check("Make", "", ca, "Make(*big.Int "+as+")", func() wconst.Value { return wconst.Make(new(big.Int).Set(a)) }, func() gconst.Value { return gconst.Make(new(big.Int).Set(a)) }); ok {
			w := wconst.Make(new(big.Int).Set(a))
			c.wantInt("Make", "", ca, "Make(*big.Int "+as+")", w, a)
			c.wantBool("Compare", "==", ca+",made", "Compare(Make("+as+") == literal)", wconst.Compare(w, wtoken.EQL, pa.w), true, true)
			i64, ex := wconst.Int64Val(w)
			if ex != a.IsInt64() || (ex && i64 != a.Int64()) {
				c.report("Int64Val", "", ca+",made", "vs-math/big", fmt.Sprintf("Int64Val(Make(big %s)) = (%d, %v)", as, i64, ex), map[string]any{"value": as})
			}
		}
		{
			c.r.Evals.Add(4)
			i64, ex := wconst.Int64Val(pa.w)
			g64, gex := gconst.Int64Val(pa.g)
			if ex != a.IsInt64() || (ex && i64 != a.Int64()) || ex != gex {
				c.report("Int64Val", "", ca, "exactness", fmt.Sprintf("Int64Val(%s) = (%d, %v); go/constant (%d, %v); math/big IsInt64=%v", as, i64, ex, g64, gex, a.IsInt64()), map[string]any{"value": as})
			}
			u64, uex := wconst.Uint64Val(pa.w)
			gu, guex := gconst.Uint64Val(pa.g)
			if uex != a.IsUint64() || (uex && u64 != a.Uint64()) || uex != guex {
				c.report("Uint64Val", "", ca, "exactness", fmt.Sprintf("Uint64Val(%s) = (%d, %v); go/constant (%d, %v); math/big IsUint64=%v", as, u64, uex, gu, guex, a.IsUint64()), map[string]any{"value": as})
			}
			f, fex := wconst.Float64Val(pa.w)
			gf, gfex := gconst.Float64Val(pa.g)
			bf, acc := new(big.Float).SetPrec(uint(max(64, a.BitLen()+2))).SetInt(a).Float64()
			if math.Float64bits(f) != math.Float64bits(bf) || fex != (acc == big.Exact) || fex != gfex || math.Float64bits(f) != math.Float64bits(gf) {
				c.report("Float64Val", "", ca, "exactness", fmt.Sprintf("Float64Val(%s) = (%v, %v); go/constant (%v, %v); math/big (%v, %v)", as, f, fex, gf, gfex, bf, acc), map[string]any{"value": as})
			}
			f32, f32ex := wconst.Float32Val(pa.w)
			gf32, gf32ex := gconst.Float32Val(pa.g)
			bf32, acc32 := new(big.Float).SetPrec(uint(max(64, a.BitLen()+2))).SetInt(a).Float32()
			if math.Float32bits(f32) != math.Float32bits(bf32) || f32ex != (acc32 == big.Exact) || f32ex != gf32ex || math.Float32bits(f32) != math.Float32bits(gf32) {
				c.report("Float32Val", "", ca, "exactness", fmt.Sprintf("Float32Val(%s) = (%v, %v); go/constant (%v, %v); math/big (%v, %v)", as, f32, f32ex, gf32, gf32ex, bf32, acc32), map[string]any{"value": as})
			}
			c.r.Distinct(fmt.Sprint("a|vals|", ex, uex, fex, f32ex))
			if wconst.BitLen(pa.w) != a.BitLen() || wconst.Sign(pa.w) != a.Sign() {
				c.report("BitLen/Sign", "", ca, "vs-math/big", fmt.Sprintf("BitLen(%s)=%d Sign=%d, math/big %d %d", as, wconst.BitLen(pa.w), wconst.Sign(pa.w), a.BitLen(), a.Sign()), map[string]any{"value": as})
			}
			// Bytes / MakeFromBytes round trip (absolute value)
			rt := wconst.MakeFromBytes(wconst.Bytes(pa.w))
			c.wantInt("Bytes/MakeFromBytes", "", ca, "MakeFromBytes(Bytes("+as+"))", rt, new(big.Int).Abs(a))
		}
		if p, ok := c.check("ToInt", "", ca, "ToInt("+as+")", func() wconst.Value { return wconst.ToInt(pa.w) }, func() gconst.Value { return gconst.ToInt(pa.g) }); ok {
			c.wantInt("ToInt", "", ca, "ToInt("+as+")", p.w, a)
		}
		if p, ok := c.check("ToFloat", "", ca, "ToFloat("+as+")", func() wconst.Value { return wconst.ToFloat(pa.w) }, func() gconst.Value { return gconst.ToFloat(pa.g) }); ok {
			if p.w.Kind() != wconst.Float {
				c.report("ToFloat", "", ca, "vs-math/big", "ToFloat("+as+") is not a Float", map[string]any{"value": as})
			}
			c.wantRat("ToFloat", "", ca, "ToFloat("+as+")", p.w, new(big.Rat).SetInt(a))
			back := wconst.ToInt(p.w)
			c.wantInt("ToInt(ToFloat)", "", ca, "ToInt(ToFloat("+as+"))", back, a)
			c.wantBool("Compare", "==", ca+",float", "Compare(ToFloat("+as+") == "+as+")", wconst.Compare(p.w, wtoken.EQL, pa.w), gconst.Compare(p.g, gtoken.EQL, pa.g), true)
		}
		if p, ok := c.check("ToComplex", "", ca, "ToComplex("+as+")", func() wconst.Value { return wconst.ToComplex(pa.w) }, func() gconst.Value { return gconst.ToComplex(pa.g) }); ok {
			c.wantRat("Real(ToComplex)", "", ca, "Real(ToComplex("+as+"))", wconst.Real(p.w), new(big.Rat).SetInt(a))
			c.wantRat("Imag(ToComplex)", "", ca, "Imag(ToComplex("+as+"))", wconst.Imag(p.w), new(big.Rat))
		}
		// unary
		if p, ok := c.check("UnaryOp", "-", ca, "-("+as+")", func() wconst.Value { return wconst.UnaryOp(wtoken.SUB, pa.w, 0) }, func() gconst.Value { return gconst.UnaryOp(gtoken.SUB, pa.g, 0) }); ok {
			c.wantInt("UnaryOp", "-", ca, "-("+as+")", p.w, new(big.Int).Neg(a))
		}
		if p, ok := c.check("UnaryOp", "+", ca, "+("+as+")", func() wconst.Value { return wconst.UnaryOp(wtoken.ADD, pa.w, 0) }, func() gconst.Value { return gconst.UnaryOp(gtoken.ADD, pa.g, 0) }); ok {
			c.wantInt("UnaryOp", "+", ca, "+("+as+")", p.w, a)
		}
		if p, ok := c.check("UnaryOp", "^", ca, "^("+as+")", func() wconst.Value { return wconst.UnaryOp(wtoken.XOR, pa.w, 0) }, func() gconst.Value { return gconst.UnaryOp(gtoken.XOR, pa.g, 0) }); ok {
			c.wantInt("UnaryOp", "^", ca, "^("+as+")", p.w, new(big.Int).Not(a))
		}
		for _, prec := range []uint{8, 16, 32, 64} {
			lim := new(big.Int).Lsh(big.NewInt(1), prec)
			if a.Sign() < 0 || a.Cmp(lim) >= 0 {
				continue
			}
			d := fmt.Sprintf("^(%s) prec %d", as, prec)
			if p, ok := c.check("UnaryOp", "^prec", ca, d, func() wconst.Value { return wconst.UnaryOp(wtoken.XOR, pa.w, prec) }, func() gconst.Value { return gconst.UnaryOp(gtoken.XOR, pa.g, prec) }); ok {
				want := new(big.Int).Sub(new(big.Int).Sub(lim, big.NewInt(1)), a)
				c.wantInt("UnaryOp", "^prec", ca, d, p.w, want)
			}
		}
		// shifts
		for _, s := range shiftCountsA {
			cls := ca + "," + strconv.Itoa(a.Sign())
			d := fmt.Sprintf("(%s) << %d", as, s)
			if p, ok := c.check("Shift", "<<", cls, d, func() wconst.Value { return wconst.Shift(pa.w, wtoken.SHL, s) }, func() gconst.Value { return gconst.Shift(pa.g, gtoken.SHL, s) }); ok {
				c.wantInt("Shift", "<<", cls, d, p.w, new(big.Int).Lsh(a, s))
			}
			d = fmt.Sprintf("(%s) >> %d", as, s)
			if p, ok := c.check("Shift", ">>", cls, d, func() wconst.Value { return wconst.Shift(pa.w, wtoken.SHR, s) }, func() gconst.Value { return gconst.Shift(pa.g, gtoken.SHR, s) }); ok {
				c.wantInt("Shift", ">>", cls, d, p.w, new(big.Int).Rsh(a, s))
			}
		}
		// leave-and-return chains: the intermediate leaves the 64-bit range (or not) and the result
		// comes back: (a << k) >> j for every pair of counts, (a << k) / 2^k, -(-a)
		for _, k := range shiftCountsA {
			t := new(big.Int).Lsh(a, k)
			var pt pair
			if mc.Recover(func() {
				pt = pair{wconst.Shift(pa.w, wtoken.SHL, k), gconst.Shift(pa.g, gtoken.SHL, k)}
			}) != "" {
				continue // reported by the plain shift above
			}
			for _, j := range shiftCountsA {
				want := new(big.Int).Rsh(t, j)
				cls := sizeClass(t) + "->" + sizeClass(want)
				d := fmt.Sprintf("((%s) << %d) >> %d", as, k, j)
				if p, ok := c.check("Shift", ">>", cls, d, func() wconst.Value { return wconst.Shift(pt.w, wtoken.SHR, j) }, func() gconst.Value { return gconst.Shift(pt.g, gtoken.SHR, j) }); ok {
					c.wantInt("Shift", ">>", cls, d, p.w, want)
				}
			}
			pw := new(big.Int).Lsh(big.NewInt(1), k)
			ppw := mkInt(pw)
			cls := sizeClass(t) + "->" + ca
			d := fmt.Sprintf("((%s) << %d) /= 2^%d", as, k, k)
			if p, ok := c.check("BinaryOp", "/=", cls, d, func() wconst.Value { return wconst.BinaryOp(pt.w, wtoken.QUO_ASSIGN, ppw.w) }, func() gconst.Value { return gconst.BinaryOp(pt.g, gtoken.QUO_ASSIGN, ppw.g) }); ok {
				c.wantInt("BinaryOp", "/=", cls, d, p.w, a)
			}
		}
		if mc.Recover(func() {
			n := pair{wconst.UnaryOp(wtoken.SUB, pa.w, 0), gconst.UnaryOp(gtoken.SUB, pa.g, 0)}
			d := "-(-(" + as + "))"
			if p, ok := c.check("UnaryOp", "-", ca+",twice", d, func() wconst.Value { return wconst.UnaryOp(wtoken.SUB, n.w, 0) }, func() gconst.Value { return gconst.UnaryOp(gtoken.SUB, n.g, 0) }); ok {
				c.wantInt("UnaryOp", "-", ca+",twice", d, p.w, a)
			}
		}) != "" {
			c.report("UnaryOp", "-", ca+",twice", "panic", "-(-("+as+")) panics", nil)
		}
		// --- pairs
		for j, b := range vals {
			pb := ps[j]
			cls := ca + "," + sizeClass(b)
			bs := b.String()
			// leave-and-return through a second operand: (a * b) / b and (a + b) - b
			if b.Sign() != 0 {
				for _, ch := range []struct {
					name   string
					f, inv opTok
				}{{"*,/=", opMUL, opQUOI}, {"+,-", opADD, opSUB}} {
					var pm pair
					if mc.Recover(func() {
						pm = pair{wconst.BinaryOp(pa.w, ch.f.w, pb.w), gconst.BinaryOp(pa.g, ch.f.g, pb.g)}
					}) != "" {
						continue
					}
					var mid *big.Int
					if ch.name == "*,/=" {
						mid = new(big.Int).Mul(a, b)
						if mid.IsInt64() && mid.Int64() == math.MinInt64 && b.IsInt64() && b.Int64() == -1 {
							continue // go/constant's MinInt64 / -1
						}
					} else {
						mid = new(big.Int).Add(a, b)
					}
					ccls := cls + "," + sizeClass(mid) + "->" + ca
					d := "((" + as + ") " + ch.f.name + " (" + bs + ")) " + ch.inv.name + " (" + bs + ")"
					if p, ok := c.check("BinaryOp", ch.name, ccls, d, func() wconst.Value { return wconst.BinaryOp(pm.w, ch.inv.w, pb.w) }, func() gconst.Value { return gconst.BinaryOp(pm.g, ch.inv.g, pb.g) }); ok {
						c.wantInt("BinaryOp", ch.name, ccls, d, p.w, a)
					}
				}
			}
			for _, op := range binops {
				if b.Sign() == 0 && (op.name == "/" || op.name == "/=" || op.name == "%") {
					continue // the checker never calls the package with a zero divisor
				}
				d := "(" + as + ") " + op.name + " (" + bs + ")"
				if op.name == "/=" && a.IsInt64() && a.Int64() == math.MinInt64 && b.IsInt64() && b.Int64() == -1 {
					// go/constant folds this one quotient in int64 arithmetic (it wraps to MinInt64):
					// the reference is wrong here, math/big decides alone
					c.r.Evals.Add(1)
					var w wconst.Value
					if pn := mc.Recover(func() { w = wconst.BinaryOp(pa.w, op.w, pb.w) }); pn != "" {
						c.report("BinaryOp", op.name, cls, "panic", d+": "+pn, map[string]any{"call": d})
					} else {
						c.wantInt("BinaryOp", op.name, cls, d, w, new(big.Int).Quo(a, b))
					}
					continue
				}
				p, ok := c.check("BinaryOp", op.name, cls, d, func() wconst.Value { return wconst.BinaryOp(pa.w, op.w, pb.w) }, func() gconst.Value { return gconst.BinaryOp(pa.g, op.g, pb.g) })
				if !ok {
					continue
				}
				var want *big.Int
				switch op.name {
				case "+":
					want = new(big.Int).Add(a, b)
				case "-":
					want = new(big.Int).Sub(a, b)
				case "*":
					want = new(big.Int).Mul(a, b)
				case "/":
					c.wantRat("BinaryOp", op.name, cls, d, p.w, new(big.Rat).SetFrac(a, b))
					continue
				case "/=":
					want = new(big.Int).Quo(a, b)
				case "%":
					want = new(big.Int).Rem(a, b)
				case "&":
					want = new(big.Int).And(a, b)
				case "|":
					want = new(big.Int).Or(a, b)
				case "^":
					want = new(big.Int).Xor(a, b)
				case "&^":
					want = new(big.Int).AndNot(a, b)
				}
				c.wantInt("BinaryOp", op.name, cls, d, p.w, want)
			}
			cm := a.Cmp(b)
			for _, op := range cmpops {
				var want bool
				switch op.name {
				case "==":
					want = cm == 0
				case "!=":
					want = cm != 0
				case "<":
					want = cm < 0
				case "<=":
					want = cm <= 0
				case ">":
					want = cm > 0
				case ">=":
					want = cm >= 0
				}
				c.wantBool("Compare", op.name, cls, "("+as+") "+op.name+" ("+bs+")", wconst.Compare(pa.w, op.w, pb.w), gconst.Compare(pa.g, op.g, pb.g), want)
			}
			c.r.Evals.Add(1)
			if got := wconst.CompareSpaceShip(pa.w, pb.w); got != int64(cm) {
				c.report("CompareSpaceShip", "<=>", cls, "vs-math/big", fmt.Sprintf("(%s) <=> (%s) = %d, exact %d", as, bs, got, cm), map[string]any{"a": as, "b": bs})
			}
		}
	})
}

// ---------------------------------------------------------------------------------------------
// floats

var floatLitsA = []string{
	"0.0", "0.5", "1.0", "1.5", "2.5", "0.1", "0.2", "0.3", "1e10", "16777217.0", "3.0", "7.0", "1e100", "1e-100",
	"1.7976931348623157e308", "1.7976931348623159e308", "5e-324", "2.5e-324", "2.4e-324", "3.4028234663852886e38", "3.4028235677973366e38",
	"1e308", "1e309", "1e-400", "1e1000", "1e-1000", "0x1p-1074", "0x1p-1075", "0x1.fffffffffffffp1023", "0x1p1024",
	"18446744073709551616.0", "9223372036854775807.0", "9223372036854775808.5", "0.3333333333333333", "4503599627370496.5", "1.0000000000000002",
	"1.00000000000000011102230246251565404236316680908203125", "1.0000001192092896", "1e23", "8.5", "123456789.125",
}

func ratOfLit(lit string) *big.Rat {
	if strings.HasPrefix(lit, "0x") {
		f, _, err := new(big.Float).SetPrec(4096).Parse(lit, 0)
		if err != nil {
			panic(err)
		}
		q, _ := f.Rat(nil)
		return q
	}
	q, ok := new(big.Rat).SetString(lit)
	if !ok {
		panic("bad float literal " + lit)
	}
	return q
}

func expClass(q *big.Rat) string {
	if q.Sign() == 0 {
		return "0"
	}
	n := q.Num().BitLen() - q.Denom().BitLen()
	switch {
	case n > 1100:
		return "huge"
	case n < -1100:
		return "tiny"
	case q.IsInt():
		return "integral"
	}
	return "frac"
}

type fval struct {
	lit string
	q   *big.Rat
	p   pair
}

func floatValsA() []fval {
	var out []fval
	for _, l := range floatLitsA {
		q := ratOfLit(l)
		p := pair{wconst.MakeFromLiteral(l, wtoken.FLOAT, 0), gconst.MakeFromLiteral(l, gtoken.FLOAT, 0)}
		out = append(out, fval{l, q, p})
		if q.Sign() != 0 {
			out = append(out, fval{"-" + l, new(big.Rat).Neg(q), pair{wconst.UnaryOp(wtoken.SUB, p.w, 0), gconst.UnaryOp(gtoken.SUB, p.g, 0)}})
		}
	}
	return out
}

func partAFloats(c *ctxA, K int) {
	fv := floatValsA()
	c.r.Bound("a_float_alphabet_size", len(fv))
	ints := intAlphabetA(min(K, 66))
	var isel []*big.Int
	for i, v := range ints {
		if i < 12 || v.BitLen() == 24 || v.BitLen() == 25 || v.BitLen() == 53 || v.BitLen() == 54 || v.BitLen() == 63 || v.BitLen() == 64 || v.BitLen() == 65 || v.BitLen() == 66 {
			isel = append(isel, v)
		}
	}
	mc.ParallelFor(len(fv), func(i int) {
		a := fv[i]
		ca := expClass(a.q)
		c.wantRat("MakeFromLiteral", "FLOAT", ca, "MakeFromLiteral("+a.lit+")", a.p.w, a.q)
		if same, why := wcanon(a.p.w).same(gcanon(a.p.g)); !same {
			c.report("MakeFromLiteral", "FLOAT", ca, "vs-go/constant", fmt.Sprintf("MakeFromLiteral(%s): %s vs %s (%s)", a.lit, clipS(a.p.w.ExactString()), clipS(a.p.g.ExactString()), why), map[string]any{"lit": a.lit})
		}
		{
			c.r.Evals.Add(2)
			f, ex := wconst.Float64Val(a.p.w)
			gf, gex := gconst.Float64Val(a.p.g)
			bf, bex := a.q.Float64()
			if math.IsInf(bf, 0) {
				bex = false
			}
			if math.Float64bits(f) != math.Float64bits(bf) || ex != bex || math.Float64bits(gf) != math.Float64bits(bf) || gex != bex {
				orc := "exactness"
				if math.Float64bits(gf) != math.Float64bits(bf) || gex != bex {
					orc = "oracles-disagree"
				}
				c.report("Float64Val", "", ca, orc, fmt.Sprintf("Float64Val(%s) = (%v, %v); go/constant (%v, %v); math/big (%v, %v)", a.lit, f, ex, gf, gex, bf, bex), map[string]any{"lit": a.lit})
			}
			f32, ex32 := wconst.Float32Val(a.p.w)
			gf32, gex32 := gconst.Float32Val(a.p.g)
			bf32, bex32 := a.q.Float32()
			if math.IsInf(float64(bf32), 0) {
				bex32 = false
			}
			if math.Float32bits(f32) != math.Float32bits(bf32) || ex32 != bex32 || math.Float32bits(gf32) != math.Float32bits(bf32) || gex32 != bex32 {
				orc := "exactness"
				if math.Float32bits(gf32) != math.Float32bits(bf32) || gex32 != bex32 {
					orc = "oracles-disagree"
				}
				c.report("Float32Val", "", ca, orc, fmt.Sprintf("Float32Val(%s) = (%v, %v); go/constant (%v, %v); math/big (%v, %v)", a.lit, f32, ex32, gf32, gex32, bf32, bex32), map[string]any{"lit": a.lit})
			}
			c.r.Distinct(fmt.Sprint("a|fvals|", ex, ex32, f == 0, math.IsInf(f, 0)))
			if wconst.Sign(a.p.w) != a.q.Sign() {
				c.report("Sign", "", ca, "vs-math/big", fmt.Sprintf("Sign(%s) = %d", a.lit, wconst.Sign(a.p.w)), map[string]any{"lit": a.lit})
			}
		}
		if p, ok := c.check("ToInt", "", "float:"+ca, "ToInt("+a.lit+")", func() wconst.Value { return wconst.ToInt(a.p.w) }, func() gconst.Value { return gconst.ToInt(a.p.g) }); ok {
			if a.q.IsInt() {
				c.wantInt("ToInt", "", "float:"+ca, "ToInt("+a.lit+")", p.w, a.q.Num())
			} else if p.w.Kind() != wconst.Unknown {
				c.report("ToInt", "", "float:"+ca, "vs-math/big", fmt.Sprintf("ToInt(%s) = %s although the value is not integral", a.lit, clipS(p.w.ExactString())), map[string]any{"lit": a.lit})
			}
			c.r.Distinct("a|toint|" + kindNames[p.w.Kind()])
		}
		if p, ok := c.check("Num", "", ca, "Num("+a.lit+")", func() wconst.Value { return wconst.Num(a.p.w) }, func() gconst.Value { return gconst.Num(a.p.g) }); ok && p.w.Kind() == wconst.Int {
			c.wantInt("Num", "", ca, "Num("+a.lit+")", p.w, a.q.Num())
		}
		if p, ok := c.check("Denom", "", ca, "Denom("+a.lit+")", func() wconst.Value { return wconst.Denom(a.p.w) }, func() gconst.Value { return gconst.Denom(a.p.g) }); ok && p.w.Kind() == wconst.Int {
			c.wantInt("Denom", "", ca, "Denom("+a.lit+")", p.w, a.q.Denom())
		}
		if p, ok := c.check("UnaryOp", "-", "float:"+ca, "-("+a.lit+")", func() wconst.Value { return wconst.UnaryOp(wtoken.SUB, a.p.w, 0) }, func() gconst.Value { return gconst.UnaryOp(gtoken.SUB, a.p.g, 0) }); ok {
			c.wantRat("UnaryOp", "-", "float:"+ca, "-("+a.lit+")", p.w, new(big.Rat).Neg(a.q))
		}
		binf := func(bq *big.Rat, bp pair, blit, cls string) {
			for _, op := range []opTok{opADD, opSUB, opMUL, opQUO} {
				if op.name == "/" && bq.Sign() == 0 {
					continue
				}
				d := "(" + a.lit + ") " + op.name + " (" + blit + ")"
				p, ok := c.check("BinaryOp", op.name, cls, d, func() wconst.Value { return wconst.BinaryOp(a.p.w, op.w, bp.w) }, func() gconst.Value { return gconst.BinaryOp(a.p.g, op.g, bp.g) })
				if !ok {
					continue
				}
				want := new(big.Rat)
				switch op.name {
				case "+":
					want.Add(a.q, bq)
				case "-":
					want.Sub(a.q, bq)
				case "*":
					want.Mul(a.q, bq)
				case "/":
					want.Quo(a.q, bq)
				}
				c.wantRat("BinaryOp", op.name, cls, d, p.w, want)
				c.r.Distinct("a|fbin|" + op.name + expClass(want))
			}
			cm := a.q.Cmp(bq)
			for _, op := range []opTok{opEQL, opNEQ, opLSS, opLEQ, opGTR, opGEQ} {
				var want bool
				switch op.name {
				case "==":
					want = cm == 0
				case "!=":
					want = cm != 0
				case "<":
					want = cm < 0
				case "<=":
					want = cm <= 0
				case ">":
					want = cm > 0
				case ">=":
					want = cm >= 0
				}
				c.wantBool("Compare", op.name, cls, "("+a.lit+") "+op.name+" ("+blit+")", wconst.Compare(a.p.w, op.w, bp.w), gconst.Compare(a.p.g, op.g, bp.g), want)
			}
			c.r.Evals.Add(1)
			if got := wconst.CompareSpaceShip(a.p.w, bp.w); got != int64(cm) {
				c.report("CompareSpaceShip", "<=>", cls, "vs-math/big", fmt.Sprintf("(%s) <=> (%s) = %d, exact %d", a.lit, blit, got, cm), map[string]any{"a": a.lit, "b": blit})
			}
		}
		for _, b := range fv {
			binf(b.q, b.p, b.lit, "float:"+ca+",float:"+expClass(b.q))
		}
		for _, v := range isel {
			binf(new(big.Rat).SetInt(v), mkInt(v), v.String(), "float:"+ca+",int:"+sizeClass(v))
		}
	})
}

// ---------------------------------------------------------------------------------------------
// literals, strings, bools, complex

func partAMisc(c *ctxA) {
	// integer literals in every base, with separators
	var n int
	for _, v := range intAlphabetA(66) {
		if v.Sign() < 0 {
			continue
		}
		for _, f := range []struct {
			name string
			lit  string
		}{
			{"hex", "0x" + v.Text(16)}, {"HEX", "0X" + strings.ToUpper(v.Text(16))}, {"octal-0o", "0o" + v.Text(8)}, {"octal-0O", "0O" + v.Text(8)}, {"octal-legacy", "0" + v.Text(8)},
			{"binary", "0b" + v.Text(2)}, {"binary-B", "0B" + v.Text(2)}, {"dec-sep", sepDigits(v.Text(10), "")}, {"hex-sep", sepDigits(v.Text(16), "0x")}, {"bin-sep", "0b_" + v.Text(2)},
		} {
			n++
			p, ok := c.check("MakeFromLiteral", "INT", f.name, "MakeFromLiteral("+f.lit+")", func() wconst.Value { return wconst.MakeFromLiteral(f.lit, wtoken.INT, 0) }, func() gconst.Value { return gconst.MakeFromLiteral(f.lit, gtoken.INT, 0) })
			if ok {
				c.wantInt("MakeFromLiteral", "INT", f.name, "MakeFromLiteral("+f.lit+")", p.w, v)
			}
		}
	}
	chars := []string{`'a'`, `'\n'`, `'\x00'`, `'\xff'`, `'é'`, `'\U0010FFFF'`, `'世'`, `'\''`, `'\\'`, `'\377'`, `'\000'`, `'"'`, `'\a'`, `'\t'`, `'é'`, `'世'`}
	for _, l := range chars {
		p, ok := c.check("MakeFromLiteral", "CHAR", "char", "MakeFromLiteral("+l+")", func() wconst.Value { return wconst.MakeFromLiteral(l, wtoken.CHAR, 0) }, func() gconst.Value { return gconst.MakeFromLiteral(l, gtoken.CHAR, 0) })
		if ok {
			code, _, _, err := strconv.UnquoteChar(l[1:len(l)-1], '\'')
			if err != nil {
				c.r.HarnessError("bad char literal %s", l)
				continue
			}
			c.wantInt("MakeFromLiteral", "CHAR", "char", "MakeFromLiteral("+l+")", p.w, big.NewInt(int64(code)))
		}
	}
	strs := []string{`""`, `"a"`, `"ab"`, `"é"`, `"\x00"`, `"a\nb"`, "`raw\\n`", `"世\U0001F600"`, `"\xff\xfe"`, `"\""`, `"\377"`, "`a\nb`"}
	var sp []pair
	var sv []string
	for _, l := range strs {
		p, ok := c.check("MakeFromLiteral", "STRING", "string", "MakeFromLiteral("+l+")", func() wconst.Value { return wconst.MakeFromLiteral(l, wtoken.STRING, 0) }, func() gconst.Value { return gconst.MakeFromLiteral(l, gtoken.STRING, 0) })
		s, err := strconv.Unquote(l)
		if err != nil {
			c.r.HarnessError("bad string literal %s", l)
			continue
		}
		if ok {
			if p.w.Kind() != wconst.String || wconst.StringVal(p.w) != s {
				c.report("MakeFromLiteral", "STRING", "string", "vs-strconv", fmt.Sprintf("MakeFromLiteral(%s) = %s", l, p.w.ExactString()), map[string]any{"lit": l})
			}
			sp = append(sp, p)
			sv = append(sv, s)
		}
	}
	for i := range sp {
		for j := range sp {
			d := fmt.Sprintf("%q + %q", sv[i], sv[j])
			p, ok := c.check("BinaryOp", "+", "string", d, func() wconst.Value { return wconst.BinaryOp(sp[i].w, wtoken.ADD, sp[j].w) }, func() gconst.Value { return gconst.BinaryOp(sp[i].g, gtoken.ADD, sp[j].g) })
			if ok && wconst.StringVal(p.w) != sv[i]+sv[j] {
				c.report("BinaryOp", "+", "string", "vs-go", d+" = "+p.w.ExactString(), map[string]any{"a": sv[i], "b": sv[j]})
			}
			// three-operand chain exercises the lazy concatenation tree
			for k := range sp {
				c.r.Evals.Add(1)
				w3 := wconst.BinaryOp(p.w, wtoken.ADD, sp[k].w)
				if wconst.StringVal(w3) != sv[i]+sv[j]+sv[k] {
					c.report("BinaryOp", "+", "string-chain", "vs-go", fmt.Sprintf("%q+%q+%q = %s", sv[i], sv[j], sv[k], w3.ExactString()), map[string]any{"a": sv[i], "b": sv[j], "c": sv[k]})
				}
			}
			for _, op := range []opTok{opEQL, opNEQ, opLSS, opLEQ, opGTR, opGEQ} {
				var want bool
				switch op.name {
				case "==":
					want = sv[i] == sv[j]
				case "!=":
					want = sv[i] != sv[j]
				case "<":
					want = sv[i] < sv[j]
				case "<=":
					want = sv[i] <= sv[j]
				case ">":
					want = sv[i] > sv[j]
				case ">=":
					want = sv[i] >= sv[j]
				}
				c.wantBool("Compare", op.name, "string", fmt.Sprintf("%q %s %q", sv[i], op.name, sv[j]), wconst.Compare(sp[i].w, op.w, sp[j].w), gconst.Compare(sp[i].g, op.g, sp[j].g), want)
			}
			c.r.Evals.Add(1)
			if got := wconst.CompareSpaceShip(sp[i].w, sp[j].w); got != int64(strings.Compare(sv[i], sv[j])) {
				c.report("CompareSpaceShip", "<=>", "string", "vs-go", fmt.Sprintf("%q <=> %q = %d", sv[i], sv[j], got), map[string]any{"a": sv[i], "b": sv[j]})
			}
		}
	}
	for _, a := range []bool{false, true} {
		wa, ga := wconst.MakeBool(a), gconst.MakeBool(a)
		if p, ok := c.check("UnaryOp", "!", "bool", fmt.Sprint("!", a), func() wconst.Value { return wconst.UnaryOp(wtoken.NOT, wa, 0) }, func() gconst.Value { return gconst.UnaryOp(gtoken.NOT, ga, 0) }); ok && wconst.BoolVal(p.w) != !a {
			c.report("UnaryOp", "!", "bool", "vs-go", fmt.Sprint("!", a, " = ", p.w), nil)
		}
		for _, b := range []bool{false, true} {
			wb, gb := wconst.MakeBool(b), gconst.MakeBool(b)
			for _, op := range []opTok{opLAND, opLOR} {
				want := a && b
				if op.name == "||" {
					want = a || b
				}
				if p, ok := c.check("BinaryOp", op.name, "bool", fmt.Sprint(a, op.name, b), func() wconst.Value { return wconst.BinaryOp(wa, op.w, wb) }, func() gconst.Value { return gconst.BinaryOp(ga, op.g, gb) }); ok && wconst.BoolVal(p.w) != want {
					c.report("BinaryOp", op.name, "bool", "vs-go", fmt.Sprint(a, op.name, b, " = ", p.w), nil)
				}
			}
			c.wantBool("Compare", "==", "bool", fmt.Sprint(a, "==", b), wconst.Compare(wa, wtoken.EQL, wb), gconst.Compare(ga, gtoken.EQL, gb), a == b)
			c.wantBool("Compare", "!=", "bool", fmt.Sprint(a, "!=", b), wconst.Compare(wa, wtoken.NEQ, wb), gconst.Compare(ga, gtoken.NEQ, gb), a != b)
		}
	}
	// imaginary literals and complex arithmetic over a small component alphabet
	for _, l := range []string{"0i", "1i", "2.5i", "1e3i", "0x1p-2i", "1e400i", "0.1i"} {
		p, ok := c.check("MakeFromLiteral", "IMAG", "imag", "MakeFromLiteral("+l+")", func() wconst.Value { return wconst.MakeFromLiteral(l, wtoken.IMAG, 0) }, func() gconst.Value { return gconst.MakeFromLiteral(l, gtoken.IMAG, 0) })
		if ok {
			c.wantRat("Imag(MakeFromLiteral)", "IMAG", "imag", "Imag("+l+")", wconst.Imag(p.w), ratOfLit(strings.TrimSuffix(l, "i")))
			c.wantRat("Real(MakeFromLiteral)", "IMAG", "imag", "Real("+l+")", wconst.Real(p.w), new(big.Rat))
		}
	}
	comps := []string{"0.0", "1.0", "-1.0", "0.5", "18446744073709551616.0", "1e100", "-0.1"}
	type cv struct {
		re, im *big.Rat
		p      pair
		d      string
	}
	var cvs []cv
	mkf := func(l string) (pair, *big.Rat) {
		neg := strings.HasPrefix(l, "-")
		l = strings.TrimPrefix(l, "-")
		p := pair{wconst.MakeFromLiteral(l, wtoken.FLOAT, 0), gconst.MakeFromLiteral(l, gtoken.FLOAT, 0)}
		q := ratOfLit(l)
		if neg {
			p = pair{wconst.UnaryOp(wtoken.SUB, p.w, 0), gconst.UnaryOp(gtoken.SUB, p.g, 0)}
			q.Neg(q)
		}
		return p, q
	}
	for _, re := range comps {
		for _, im := range comps {
			pr, qr := mkf(re)
			pi, qi := mkf(im)
			p := pair{wconst.BinaryOp(pr.w, wtoken.ADD, wconst.MakeImag(pi.w)), gconst.BinaryOp(pr.g, gtoken.ADD, gconst.MakeImag(pi.g))}
			cvs = append(cvs, cv{qr, qi, p, "(" + re + "+" + im + "i)"})
		}
	}
	for _, x := range cvs {
		c.wantRat("Real", "", "complex", "Real"+x.d, wconst.Real(x.p.w), x.re)
		c.wantRat("Imag", "", "complex", "Imag"+x.d, wconst.Imag(x.p.w), x.im)
		for _, y := range cvs {
			for _, op := range []opTok{opADD, opSUB, opMUL, opQUO} {
				s := new(big.Rat).Add(new(big.Rat).Mul(y.re, y.re), new(big.Rat).Mul(y.im, y.im))
				if op.name == "/" && s.Sign() == 0 {
					continue
				}
				d := x.d + " " + op.name + " " + y.d
				p, ok := c.check("BinaryOp", op.name, "complex", d, func() wconst.Value { return wconst.BinaryOp(x.p.w, op.w, y.p.w) }, func() gconst.Value { return gconst.BinaryOp(x.p.g, op.g, y.p.g) })
				if !ok {
					continue
				}
				re, im := new(big.Rat), new(big.Rat)
				mul := func(a, b *big.Rat) *big.Rat { return new(big.Rat).Mul(a, b) }
				switch op.name {
				case "+":
					re.Add(x.re, y.re)
					im.Add(x.im, y.im)
				case "-":
					re.Sub(x.re, y.re)
					im.Sub(x.im, y.im)
				case "*":
					re.Sub(mul(x.re, y.re), mul(x.im, y.im))
					im.Add(mul(x.im, y.re), mul(x.re, y.im))
				case "/":
					re.Quo(new(big.Rat).Add(mul(x.re, y.re), mul(x.im, y.im)), s)
					im.Quo(new(big.Rat).Sub(mul(x.im, y.re), mul(x.re, y.im)), s)
				}
				c.wantRat("BinaryOp.re", op.name, "complex", d, wconst.Real(p.w), re)
				c.wantRat("BinaryOp.im", op.name, "complex", d, wconst.Imag(p.w), im)
			}
			eq := x.re.Cmp(y.re) == 0 && x.im.Cmp(y.im) == 0
			c.wantBool("Compare", "==", "complex", x.d+" == "+y.d, wconst.Compare(x.p.w, wtoken.EQL, y.p.w), gconst.Compare(x.p.g, gtoken.EQL, y.p.g), eq)
			c.wantBool("Compare", "!=", "complex", x.d+" != "+y.d, wconst.Compare(x.p.w, wtoken.NEQ, y.p.w), gconst.Compare(x.p.g, gtoken.NEQ, y.p.g), !eq)
		}
	}
	// Make / Val round trips for the Go-typed constructors
	for _, v := range []int64{0, 1, -1, math.MaxInt64, math.MinInt64} {
		c.wantInt("MakeInt64", "", "int64", fmt.Sprint("MakeInt64(", v, ")"), wconst.MakeInt64(v), big.NewInt(v))
	}
	for _, v := range []uint64{0, 1, math.MaxInt64, math.MaxInt64 + 1, math.MaxUint64} {
		c.wantInt("MakeUint64", "", "uint64", fmt.Sprint("MakeUint64(", v, ")"), wconst.MakeUint64(v), new(big.Int).SetUint64(v))
	}
	for _, v := range []float64{0, math.Copysign(0, -1), 0.5, -1.5, 0.1, math.MaxFloat64, math.SmallestNonzeroFloat64, 1 << 62, 1 << 63, 1e300} {
		w := wconst.MakeFloat64(v)
		c.wantRat("MakeFloat64", "", "float64", fmt.Sprint("MakeFloat64(", v, ")"), w, new(big.Rat).SetFloat64(v))
		f, ex := wconst.Float64Val(w)
		if f != v || !ex {
			c.report("Float64Val(MakeFloat64)", "", "float64", "exactness", fmt.Sprintf("Float64Val(MakeFloat64(%v)) = (%v, %v)", v, f, ex), nil)
		}
	}
	for _, v := range []float64{math.Inf(1), math.Inf(-1), math.NaN()} {
		c.r.Evals.Add(1)
		if w := wconst.MakeFloat64(v); w.Kind() != wconst.Unknown {
			c.report("MakeFloat64", "", "non-finite", "vs-go/constant", fmt.Sprintf("MakeFloat64(%v) = %s, want Unknown", v, w), nil)
		}
	}
	_ = n
}

func sepDigits(d, prefix string) string {
	var b strings.Builder
	b.WriteString(prefix)
	if prefix != "" {
		b.WriteByte('_')
	}
	for i, ch := range d {
		if i > 0 && (len(d)-i)%3 == 0 {
			b.WriteByte('_')
		}
		b.WriteRune(ch)
	}
	return b.String()
}
