//go:build go1.21

package main

// Parts (b) and (c): constant declarations through the real front end (parser + type checker,
// all errors collected per declaration) and, for the accepted ones, through the whole compiler
// next to the run-time form of the same expression.

import (
	"fmt"
	"math"
	"math/big"
	"strconv"
	"strings"

	"wa-lang.org/wa/internal/zzverif/progs"
)

type numType struct {
	Name   string
	Bits   int
	Signed bool
	Float  bool
	// PrintConv: println renders values of this type as characters in Wa, print through int64
	PrintConv string
}

var (
	tInt32   = numType{Name: "int32", Bits: 32, Signed: true}
	tInt64   = numType{Name: "int64", Bits: 64, Signed: true}
	tUint8   = numType{Name: "uint8", Bits: 8}
	tUint16  = numType{Name: "uint16", Bits: 16}
	tUint32  = numType{Name: "uint32", Bits: 32}
	tUint64  = numType{Name: "uint64", Bits: 64}
	tInt     = numType{Name: "int", Bits: 32, Signed: true}
	tUint    = numType{Name: "uint", Bits: 32}
	tUintptr = numType{Name: "uintptr", Bits: 32}
	tRune    = numType{Name: "rune", Bits: 32, Signed: true, PrintConv: "int64"}
	tByte    = numType{Name: "byte", Bits: 8, PrintConv: "uint64"}
	tF32     = numType{Name: "float32", Bits: 32, Float: true}
	tF64     = numType{Name: "float64", Bits: 64, Float: true}
)

var intTypesB = []numType{tInt32, tInt64, tUint8, tUint16, tUint32, tUint64, tInt, tUint, tUintptr}
var floatTypesB = []numType{tF64, tF32}
var convTypes = []numType{tInt32, tInt64, tUint8, tUint16, tUint32, tUint64, tInt, tUint, tUintptr, tRune, tByte, tF64, tF32}

func (t numType) min() *big.Int {
	if !t.Signed {
		return big.NewInt(0)
	}
	return new(big.Int).Neg(new(big.Int).Lsh(big.NewInt(1), uint(t.Bits-1)))
}
func (t numType) max() *big.Int {
	b := t.Bits
	if t.Signed {
		b--
	}
	return new(big.Int).Sub(new(big.Int).Lsh(big.NewInt(1), uint(b)), big.NewInt(1))
}
func (t numType) inRange(v *big.Int) bool { return v.Cmp(t.min()) >= 0 && v.Cmp(t.max()) <= 0 }

// alphabet: the boundary alphabet of engine/progs/fam_arith.go for a type of this shape.
func (t numType) alphabet() []*big.Int {
	var out []*big.Int
	for _, s := range (progs.IntType{Name: t.Name, Bits: t.Bits, Signed: t.Signed}).Alphabet() {
		v, _ := new(big.Int).SetString(s, 10)
		out = append(out, v)
	}
	return out
}

func (t numType) resultClass(v *big.Int) string {
	switch {
	case t.inRange(v):
		return "in-range"
	case v.Cmp(new(big.Int).Add(t.max(), big.NewInt(1))) == 0:
		return "MAX+1"
	case v.Cmp(new(big.Int).Sub(t.min(), big.NewInt(1))) == 0:
		return "MIN-1"
	case v.Sign() > 0:
		return ">MAX"
	}
	return "<MIN"
}

func (t numType) operandClass(v *big.Int) string {
	switch {
	case v.Sign() == 0:
		return "0"
	case t.Signed && v.Cmp(t.min()) == 0:
		return "MIN"
	case v.Cmp(t.max()) == 0:
		return "MAX"
	case v.Cmp(big.NewInt(-1)) == 0:
		return "-1"
	case v.Sign() < 0:
		return "neg"
	}
	return "pos"
}

// float operand alphabets (finite values only: constants have no infinities or NaNs); the list is
// the pairwise alphabet of fam_arith.go's float family.
var floatKeep64 = []float64{0, 0.5, 1, -1, 1.5, 2.5, -2.5, 0.1, 1e10, 16777217, math.MaxFloat64, -math.MaxFloat64, math.SmallestNonzeroFloat64, math.MaxFloat32}

// the conversion alphabet of fam_arith.go's float family (finite part)
var floatFull64 = []float64{0, 0.5, 1, 1.5, 2.5, 0.1, 1e10, 16777217, 2147483647, 2147483648, 2147483649, 4294967295, 4294967296,
	9223372036854775807, 18446744073709551615, math.MaxFloat64, math.SmallestNonzeroFloat64, math.MaxFloat32, 3e9, 255.9, 256, 65535.5, 127.5, 128, 255, 65535, 65536, 3.5e38}

func floatAlphabetB(t numType, full bool) []float64 {
	src := floatKeep64
	if full {
		src = nil
		for _, v := range floatFull64 {
			src = append(src, v)
			if v != 0 {
				src = append(src, -v)
			}
		}
	}
	var out []float64
	seen := map[uint64]bool{}
	for _, v := range src {
		if t.Bits == 32 {
			f := float32(v)
			if math.IsInf(float64(f), 0) {
				continue
			}
			v = float64(f)
		}
		if !seen[math.Float64bits(v)] {
			seen[math.Float64bits(v)] = true
			out = append(out, v)
		}
	}
	return out
}

func floatLitB(v float64) string {
	s := strconv.FormatFloat(v, 'g', -1, 64)
	if !strings.ContainsAny(s, ".e") {
		s += ".0"
	}
	if v < 0 {
		return "(" + s + ")"
	}
	return s
}

func intLitB(v *big.Int) string {
	if v.Sign() < 0 {
		return "(" + v.String() + ")"
	}
	return v.String()
}

func floatClass(v float64) string {
	switch {
	case v == 0:
		return "0"
	case math.Abs(v) == math.MaxFloat64:
		return "MAX"
	case math.Abs(v) == math.SmallestNonzeroFloat64 || math.Abs(v) == float64(math.SmallestNonzeroFloat32):
		return "denormal"
	case v == math.Trunc(v):
		return "integral"
	}
	return "frac"
}

// roundTo rounds an exact rational to the float type; ok=false if it overflows. The result is
// never a negative zero (constants have none).
func (t numType) roundTo(q *big.Rat) (bits uint64, ok bool) {
	if t.Bits == 32 {
		f, _ := q.Float32()
		if math.IsInf(float64(f), 0) {
			return 0, false
		}
		if f == 0 {
			f = 0
		}
		return uint64(math.Float32bits(f)), true
	}
	f, _ := q.Float64()
	if math.IsInf(f, 0) {
		return 0, false
	}
	if f == 0 {
		f = 0
	}
	return math.Float64bits(f), true
}

// rat of a float value as the type sees it
func ratOfFloat(v float64) *big.Rat { return new(big.Rat).SetFloat64(v) }

// bitem is one constant declaration with its oracle.
type bitem struct {
	Group  string // form|op|type : one front-end source per group
	Key    string // canonical class: family|form|operator|type|result class (accept/reject keys)
	Cls    string // operand classes, appended for value-mismatch keys
	Desc   string
	Decl   string // Go-syntax declaration, @N@ is the constant's name
	Accept bool   // exact-arithmetic oracle: must the checker accept it?
	RC     string // result class (for accept/reject keys)
	// expected value when accepted: Want is the decimal integer / true|false / decimal bit pattern
	WantKind string // "int", "bool", "f64", "f32"
	Want     string
	// run part (empty: front end only)
	RunImports []string
	RunStmts   string // statements printing "<const observation> <run-time observation>"; @C@ is the local constant
	RunWant    string // expected printed constant observation
	SameRT     bool   // the run-time observation must equal the constant one (Go agrees by construction)
	NoRun      bool
}

func intBin(op string, a, b *big.Int) (v *big.Int, div0 bool) {
	v = new(big.Int)
	switch op {
	case "+":
		v.Add(a, b)
	case "-":
		v.Sub(a, b)
	case "*":
		v.Mul(a, b)
	case "/":
		if b.Sign() == 0 {
			return nil, true
		}
		v.Quo(a, b)
	case "%":
		if b.Sign() == 0 {
			return nil, true
		}
		v.Rem(a, b)
	case "&":
		v.And(a, b)
	case "|":
		v.Or(a, b)
	case "^":
		v.Xor(a, b)
	case "&^":
		v.AndNot(a, b)
	default:
		panic(op)
	}
	return v, false
}

func cmpHolds(op string, c int) bool {
	switch op {
	case "==":
		return c == 0
	case "!=":
		return c != 0
	case "<":
		return c < 0
	case "<=":
		return c <= 0
	case ">":
		return c > 0
	case ">=":
		return c >= 0
	}
	panic(op)
}

var arithOps = []string{"+", "-", "*", "/", "%", "&", "|", "^", "&^"}
var cmpOps = []string{"==", "!=", "<", "<=", ">", ">="}
var shiftCountsB = []uint{0, 1, 2, 7, 8, 15, 16, 31, 32, 33, 63, 64, 65, 127, 128, 255}

func obs(t numType, e string) string {
	if t.PrintConv != "" {
		return t.PrintConv + "(" + e + ")"
	}
	if t.Float {
		if t.Bits == 32 {
			return "math.Float32bits(" + e + ")"
		}
		return "math.Float64bits(" + e + ")"
	}
	return e
}

// genIntItems: binary arithmetic, comparisons, shifts, unary operators over every integer type,
// in the untyped form (const c T = a op b) and the typed form (const c = T(a) op T(b)).
func genIntItems(types []numType) []bitem {
	var out []bitem
	for _, t := range types {
		al := t.alphabet()
		for _, form := range []string{"untyped", "typed"} {
			expr := func(a, op, b string) string {
				if form == "untyped" {
					return a + " " + op + " " + b
				}
				return t.Name + "(" + a + ") " + op + " " + t.Name + "(" + b + ")"
			}
			decl := func(e string) string {
				if form == "untyped" {
					return "const @N@ " + t.Name + " = " + e
				}
				return "const @N@ = " + e
			}
			for _, op := range arithOps {
				for _, a := range al {
					for _, b := range al {
						it := bitem{Group: form + "|" + op + "|" + t.Name, Desc: expr(intLitB(a), op, intLitB(b)) + " as " + t.Name, WantKind: "int"}
						it.Decl = decl(expr(intLitB(a), op, intLitB(b)))
						v, div0 := intBin(op, a, b)
						cls := t.operandClass(a) + "," + t.operandClass(b)
						it.Key = "b|" + form + "|" + op + "|" + t.Name
						if div0 {
							it.RC = "div-by-0"
						} else {
							it.RC = t.resultClass(v)
							it.Accept = t.inRange(v)
						}
						if it.Accept {
							it.Want = v.String()
							it.RunWant = it.Want
							it.SameRT = true
							it.RunStmts = fmt.Sprintf("\t\t%s\n\t\tvar x %s = %s\n\t\tvar y %s = %s\n\t\tprintln(@C@, x %s y, @ID@)", strings.ReplaceAll(it.Decl, "@N@", "@C@"), t.Name, a, t.Name, b, op)
						}
						it.Key += "|" + it.RC
						it.Cls = cls
						out = append(out, it)
					}
				}
			}
			for _, op := range cmpOps {
				for _, a := range al {
					for _, b := range al {
						it := bitem{Group: form + "|" + op + "|" + t.Name, WantKind: "bool", Accept: true, RC: "bool", SameRT: true}
						e := expr(intLitB(a), op, intLitB(b))
						it.Desc = e + " (" + t.Name + " operands)"
						if form == "untyped" {
							it.Decl = "const @N@ bool = " + e
						} else {
							it.Decl = "const @N@ = " + e
						}
						it.Want = strconv.FormatBool(cmpHolds(op, a.Cmp(b)))
						it.RunWant = it.Want
						it.Key = "b|" + form + "|" + op + "|" + t.Name + "|bool"
						it.Cls = t.operandClass(a) + "," + t.operandClass(b)
						it.RunStmts = fmt.Sprintf("\t\t%s\n\t\tvar x %s = %s\n\t\tvar y %s = %s\n\t\tprintln(@C@, x %s y, @ID@)", strings.ReplaceAll(it.Decl, "@N@", "@C@"), t.Name, a, t.Name, b, op)
						out = append(out, it)
					}
				}
			}
			for _, op := range []string{"<<", ">>"} {
				for _, a := range al {
					for _, s := range shiftCountsB {
						it := bitem{Group: form + "|" + op + "|" + t.Name, WantKind: "int"}
						var e string
						if form == "untyped" {
							e = fmt.Sprintf("%s %s %d", intLitB(a), op, s)
						} else {
							e = fmt.Sprintf("%s(%s) %s %d", t.Name, intLitB(a), op, s)
						}
						it.Desc = e + " as " + t.Name
						it.Decl = decl(e)
						v := new(big.Int)
						if op == "<<" {
							v.Lsh(a, s)
						} else {
							v.Rsh(a, s)
						}
						it.RC = t.resultClass(v)
						it.Accept = t.inRange(v)
						cc := "count<width"
						if int(s) >= t.Bits {
							cc = "count>=width"
						}
						it.Key = "b|" + form + "|" + op + "|" + t.Name + "|" + it.RC
						it.Cls = t.operandClass(a) + "," + cc
						if it.Accept {
							it.Want = v.String()
							it.RunWant = it.Want
							it.SameRT = true
							it.RunStmts = fmt.Sprintf("\t\t%s\n\t\tvar x %s = %s\n\t\tvar s uint32 = %d\n\t\tprintln(@C@, x %s s, @ID@)", strings.ReplaceAll(it.Decl, "@N@", "@C@"), t.Name, a, s, op)
						}
						out = append(out, it)
					}
				}
			}
			for _, op := range []string{"-", "^", "+"} {
				for _, a := range al {
					it := bitem{Group: form + "|unary|" + t.Name, WantKind: "int"}
					var e string
					if form == "untyped" {
						e = op + intLitB(a)
					} else {
						e = op + t.Name + "(" + intLitB(a) + ")"
					}
					it.Desc = e + " as " + t.Name
					it.Decl = decl(e)
					v := new(big.Int)
					switch op {
					case "-":
						v.Neg(a)
					case "+":
						v.Set(a)
					case "^":
						if form == "typed" && !t.Signed {
							v.Sub(t.max(), a) // the complement within the type's width
						} else {
							v.Not(a)
						}
					}
					it.RC = t.resultClass(v)
					it.Accept = t.inRange(v)
					it.Key = "b|" + form + "|unary" + op + "|" + t.Name + "|" + it.RC
					it.Cls = t.operandClass(a)
					if op == "^" && form == "typed" && (t.Name == "uint" || t.Name == "uintptr") {
						it.NoRun = true // Go's uint is 64 bits wide: no run-time reference for the complement
					}
					if it.Accept {
						it.Want = v.String()
						it.RunWant = it.Want
						it.SameRT = true
						it.RunStmts = fmt.Sprintf("\t\t%s\n\t\tvar x %s = %s\n\t\tprintln(@C@, %sx, @ID@)", strings.ReplaceAll(it.Decl, "@N@", "@C@"), t.Name, a, op)
					}
					out = append(out, it)
				}
			}
		}
	}
	return out
}

func ratBin(op string, a, b *big.Rat) (v *big.Rat, div0 bool) {
	v = new(big.Rat)
	switch op {
	case "+":
		v.Add(a, b)
	case "-":
		v.Sub(a, b)
	case "*":
		v.Mul(a, b)
	case "/":
		if b.Sign() == 0 {
			return nil, true
		}
		v.Quo(a, b)
	}
	return v, false
}

// genFloatItems: + - * / and comparisons at float64 / float32. In the untyped form the operands
// are exact decimal literals (0.1 is 1/10), in the typed form they are first rounded to the type.
func genFloatItems() []bitem {
	var out []bitem
	for _, t := range floatTypesB {
		al := floatAlphabetB(t, false)
		bitsFn := "math.Float64bits"
		wk := "f64"
		if t.Bits == 32 {
			bitsFn = "math.Float32bits"
			wk = "f32"
		}
		for _, form := range []string{"untyped", "typed"} {
			operand := func(v float64) *big.Rat {
				if form == "untyped" {
					q, _ := new(big.Rat).SetString(strconv.FormatFloat(v, 'g', -1, 64))
					return q
				}
				return ratOfFloat(v)
			}
			expr := func(a float64, op string, b float64) string {
				if form == "untyped" {
					return floatLitB(a) + " " + op + " " + floatLitB(b)
				}
				return t.Name + "(" + floatLitB(a) + ") " + op + " " + t.Name + "(" + floatLitB(b) + ")"
			}
			for _, op := range []string{"+", "-", "*", "/"} {
				for _, a := range al {
					for _, b := range al {
						it := bitem{Group: form + "|" + op + "|" + t.Name, WantKind: wk, RunImports: []string{"math"}}
						e := expr(a, op, b)
						it.Desc = e + " as " + t.Name
						if form == "untyped" {
							it.Decl = "const @N@ " + t.Name + " = " + e
						} else {
							it.Decl = "const @N@ = " + e
						}
						v, div0 := ratBin(op, operand(a), operand(b))
						if div0 {
							it.RC = "div-by-0"
						} else if bits, ok := t.roundTo(v); ok {
							it.Accept = true
							it.RC = "finite"
							if v.Sign() != 0 && bits == 0 {
								it.RC = "underflow-to-0"
							}
							it.Want = strconv.FormatUint(bits, 10)
							it.RunWant = it.Want
							// run-time value: compared with Go only (constants are exact and have no -0)
							it.RunStmts = fmt.Sprintf("\t\t%s\n\t\tvar x %s = %s\n\t\tvar y %s = %s\n\t\tr := x %s y\n\t\tprintln(%s(@C@), %s(r), @ID@)", strings.ReplaceAll(it.Decl, "@N@", "@C@"), t.Name, floatLitB(a), t.Name, floatLitB(b), op, bitsFn, bitsFn)
						} else {
							it.RC = "overflow"
						}
						it.Key = "b|" + form + "|" + op + "|" + t.Name + "|" + it.RC
						it.Cls = floatClass(a) + "," + floatClass(b)
						out = append(out, it)
					}
				}
			}
			for _, a := range al {
				for _, b := range al {
					for _, op := range cmpOps {
						it := bitem{Group: form + "|cmp|" + t.Name, WantKind: "bool", Accept: true, RC: "bool", SameRT: true}
						e := expr(a, op, b)
						it.Desc = e
						if form == "untyped" {
							it.Decl = "const @N@ bool = " + e
						} else {
							it.Decl = "const @N@ = " + e
						}
						it.Want = strconv.FormatBool(cmpHolds(op, operand(a).Cmp(operand(b))))
						it.RunWant = it.Want
						it.Key = "b|" + form + "|" + op + "|" + t.Name + "|bool"
						it.Cls = floatClass(a) + "," + floatClass(b)
						it.RunStmts = fmt.Sprintf("\t\t%s\n\t\tvar x %s = %s\n\t\tvar y %s = %s\n\t\tprintln(@C@, x %s y, @ID@)", strings.ReplaceAll(it.Decl, "@N@", "@C@"), t.Name, floatLitB(a), t.Name, floatLitB(b), op)
						out = append(out, it)
					}
				}
			}
			for _, a := range al {
				it := bitem{Group: form + "|unary|" + t.Name, WantKind: wk, Accept: true, RC: "finite", RunImports: []string{"math"}}
				var e string
				if form == "untyped" {
					e = "-" + floatLitB(a)
					it.Decl = "const @N@ " + t.Name + " = " + e
				} else {
					e = "-" + t.Name + "(" + floatLitB(a) + ")"
					it.Decl = "const @N@ = " + e
				}
				it.Desc = e + " as " + t.Name
				bits, _ := t.roundTo(new(big.Rat).Neg(operand(a)))
				it.Want = strconv.FormatUint(bits, 10)
				it.RunWant = it.Want
				it.Key = "b|" + form + "|unary-|" + t.Name + "|finite"
				it.Cls = floatClass(a)
				it.RunStmts = fmt.Sprintf("\t\t%s\n\t\tvar x %s = %s\n\t\tprintln(%s(@C@), %s(-x), @ID@)", strings.ReplaceAll(it.Decl, "@N@", "@C@"), t.Name, floatLitB(a), bitsFn, bitsFn)
				out = append(out, it)
			}
		}
		// integer-literal operands at a float type: the arithmetic is integer arithmetic
		ints := []int64{0, 1, 2, 3, 7, -7, 10, 9007199254740993}
		for _, op := range []string{"+", "-", "*", "/", "%"} {
			for _, a := range ints {
				for _, b := range ints {
					it := bitem{Group: "untyped-int|" + op + "|" + t.Name, WantKind: wk, RunImports: []string{"math"}}
					e := intLitB(big.NewInt(a)) + " " + op + " " + intLitB(big.NewInt(b))
					it.Desc = e + " as " + t.Name
					it.Decl = "const @N@ " + t.Name + " = " + e
					v, div0 := intBin(op, big.NewInt(a), big.NewInt(b))
					if div0 {
						it.RC = "div-by-0"
					} else {
						bits, _ := t.roundTo(new(big.Rat).SetInt(v))
						it.Accept, it.RC = true, "finite"
						it.Want = strconv.FormatUint(bits, 10)
						it.RunWant = it.Want
						it.RunStmts = fmt.Sprintf("\t\t%s\n\t\tprintln(%s(@C@), 0, @ID@)", strings.ReplaceAll(it.Decl, "@N@", "@C@"), bitsFn)
					}
					it.Key = "b|untyped-int|" + op + "|" + t.Name + "|" + it.RC
					out = append(out, it)
				}
			}
		}
	}
	return out
}

// genConvItems: (c) constant conversions To(From(a)) for a in From's alphabet.
func genConvItems(types []numType) []bitem {
	var out []bitem
	for _, from := range types {
		type operand struct {
			lit string
			q   *big.Rat
			cls string
		}
		var ops []operand
		if from.Float {
			for _, v := range floatAlphabetB(from, true) {
				ops = append(ops, operand{floatLitB(v), ratOfFloat(v), floatClass(v)})
			}
		} else {
			for _, v := range from.alphabet() {
				ops = append(ops, operand{intLitB(v), new(big.Rat).SetInt(v), from.operandClass(v)})
			}
		}
		for _, to := range types {
			for _, a := range ops {
				it := bitem{Group: "conv|" + from.Name + "|" + to.Name}
				e := to.Name + "(" + from.Name + "(" + a.lit + "))"
				it.Desc = e
				it.Decl = "const @N@ = " + e
				if to.Float {
					it.RunImports = []string{"math"}
					it.WantKind = "f64"
					if to.Bits == 32 {
						it.WantKind = "f32"
					}
					if bits, ok := to.roundTo(a.q); ok {
						it.Accept, it.RC = true, "finite"
						it.Want = strconv.FormatUint(bits, 10)
					} else {
						it.RC = "overflow"
					}
				} else {
					it.WantKind = "int"
					if !a.q.IsInt() {
						it.RC = "not-integral"
					} else {
						it.RC = to.resultClass(a.q.Num())
						it.Accept = to.inRange(a.q.Num())
						it.Want = a.q.Num().String()
					}
				}
				it.Key = "c|conv|" + from.Name + "->" + to.Name + "|" + it.RC
				it.Cls = a.cls
				if it.Accept {
					it.RunWant = it.Want
					// a negative operand that rounds to zero is +0 as a constant and -0 at run time (as in Go)
					it.SameRT = !(to.Float && a.q.Sign() < 0 && (it.Want == "0"))
					lit := strings.TrimSuffix(strings.TrimPrefix(a.lit, "("), ")")
					pt := to
					if !to.Float && to.PrintConv == "" && from.PrintConv != "" {
						// rune and int32 (byte and uint8) are identical types: the converted run-time value is
						// still rendered as a character by println; the value is observed through int64/uint64
						pt.PrintConv = "uint64"
						if to.Signed {
							pt.PrintConv = "int64"
						}
					}
					it.RunStmts = fmt.Sprintf("\t\t%s\n\t\tvar x %s = %s\n\t\tprintln(%s, %s, @ID@)", strings.ReplaceAll(it.Decl, "@N@", "@C@"), from.Name, lit, obs(pt, "@C@"), obs(pt, to.Name+"(x)"))
				}
				out = append(out, it)
			}
		}
	}
	return out
}

// wideInts: the union of every integer type's alphabet plus values just outside 64 bits.
func wideInts() []*big.Int {
	var out []*big.Int
	seen := map[string]bool{}
	add := func(v *big.Int) {
		if !seen[v.String()] {
			seen[v.String()] = true
			out = append(out, v)
		}
	}
	for _, t := range []numType{tUint8, tUint16, tInt32, tUint32, tInt64, tUint64} {
		for _, v := range t.alphabet() {
			add(v)
		}
		add(new(big.Int).Add(t.max(), big.NewInt(1)))
		add(new(big.Int).Sub(t.min(), big.NewInt(1)))
	}
	p := new(big.Int).Lsh(big.NewInt(1), 64)
	add(new(big.Int).Neg(p))
	add(new(big.Int).Lsh(big.NewInt(1), 100))
	return out
}

// genWideItems (front end only): literal representability `const c T = lit` and untyped
// arithmetic whose operands lie outside T although the result may lie inside.
func genWideItems(fullBinary bool) []bitem {
	var out []bitem
	wi := wideInts()
	fl := []string{"0.0", "2.0", "2.5", "-1.0", "255.0", "255.5", "256.0", "4294967295.0", "4294967296.0", "1e10", "1e100", "-0.5", "1e-10",
		"3.4028234663852886e38", "3.4028235677973366e38", "3.5e38", "1.7976931348623157e308", "1.7976931348623159e308", "1e309", "1e-400", "9223372036854775807.0", "9223372036854775808.0", "18446744073709551615.0", "18446744073709551616.0"}
	all := append(append([]numType{}, intTypesB...), tRune, tByte, tF64, tF32)
	for _, t := range all {
		mk := func(lit string, q *big.Rat, cls string) {
			it := bitem{Group: "wide|lit|" + t.Name, Desc: lit + " as " + t.Name, Decl: "const @N@ " + t.Name + " = " + lit, NoRun: true}
			if t.Float {
				it.WantKind = "f64"
				if t.Bits == 32 {
					it.WantKind = "f32"
				}
				if bits, ok := t.roundTo(q); ok {
					it.Accept, it.RC, it.Want = true, "finite", strconv.FormatUint(bits, 10)
				} else {
					it.RC = "overflow"
				}
			} else {
				it.WantKind = "int"
				if !q.IsInt() {
					it.RC = "not-integral"
				} else {
					it.RC = t.resultClass(q.Num())
					it.Accept = t.inRange(q.Num())
					it.Want = q.Num().String()
				}
			}
			it.Key = "b|wide|lit|" + t.Name + "|" + it.RC
			it.Cls = cls
			out = append(out, it)
		}
		for _, v := range wi {
			mk(intLitB(v), new(big.Rat).SetInt(v), "int-literal")
		}
		for _, l := range fl {
			q, _ := new(big.Rat).SetString(l)
			lit := l
			if q.Sign() < 0 {
				lit = "(" + l + ")"
			}
			mk(lit, q, "float-literal")
		}
	}
	// untyped arithmetic with operands outside the type: per type its own alphabet plus the
	// values just outside its range and outside 64 bits (quick), the union of all alphabets (thorough)
	for _, t := range intTypesB {
		ws := wi
		if !fullBinary {
			ws = append([]*big.Int{}, t.alphabet()...)
			ws = append(ws, new(big.Int).Add(t.max(), big.NewInt(1)), new(big.Int).Sub(t.min(), big.NewInt(1)),
				new(big.Int).Lsh(big.NewInt(1), 64), new(big.Int).Neg(new(big.Int).Lsh(big.NewInt(1), 64)), new(big.Int).Lsh(big.NewInt(1), 100))
		}
		for _, op := range arithOps {
			for _, a := range ws {
				for _, b := range ws {
					it := bitem{Group: "wide|" + op + "|" + t.Name, WantKind: "int", NoRun: true}
					e := intLitB(a) + " " + op + " " + intLitB(b)
					it.Desc = e + " as " + t.Name
					it.Decl = "const @N@ " + t.Name + " = " + e
					v, div0 := intBin(op, a, b)
					if div0 {
						it.RC = "div-by-0"
					} else {
						it.RC = t.resultClass(v)
						it.Accept = t.inRange(v)
						it.Want = v.String()
					}
					it.Key = "b|wide|" + op + "|" + t.Name + "|" + it.RC
					out = append(out, it)
				}
			}
		}
	}
	return out
}

// genRoundTripItems: untyped constant expressions whose intermediate value leaves the 64-bit
// range (or the type's range) and whose result comes back: (a*b)/b, (a+b)-b, (a<<k)>>j for
// j in {k-1, k, k+1}, (a<<k)/2^k, -(-a), declared at every basic type.
func genRoundTripItems() []bitem {
	var out []bitem
	two := func(k uint) *big.Int { return new(big.Int).Lsh(big.NewInt(1), k) }
	bigs := []*big.Int{two(64), new(big.Int).Add(two(64), big.NewInt(1)), new(big.Int).Neg(two(64)), two(100)}
	ks := []uint{62, 63, 64, 66, 99, 100}
	types := append(append([]numType{}, intTypesB...), tF64, tF32)
	for _, t := range types {
		var al []*big.Int
		if t.Float {
			for _, v := range []int64{0, 1, 3, -7, 9007199254740993} {
				al = append(al, big.NewInt(v))
			}
		} else {
			al = append(al, t.alphabet()...)
			al = append(al, new(big.Int).Add(t.max(), big.NewInt(1)), new(big.Int).Sub(t.min(), big.NewInt(1)))
		}
		mk := func(shape, expr string, v *big.Int, cls string) {
			it := bitem{Group: "roundtrip|" + shape + "|" + t.Name, Desc: expr + " as " + t.Name, Decl: "const @N@ " + t.Name + " = " + expr}
			if t.Float {
				it.WantKind = "f64"
				bitsFn := "math.Float64bits"
				if t.Bits == 32 {
					it.WantKind, bitsFn = "f32", "math.Float32bits"
				}
				bits, _ := t.roundTo(new(big.Rat).SetInt(v))
				it.Accept, it.RC, it.Want = true, "finite", strconv.FormatUint(bits, 10)
				it.RunWant = it.Want
				it.RunImports = []string{"math"}
				it.RunStmts = fmt.Sprintf("\t\t%s\n\t\tprintln(%s(@C@), 0, @ID@)", strings.ReplaceAll(it.Decl, "@N@", "@C@"), bitsFn)
			} else {
				it.WantKind = "int"
				it.RC = t.resultClass(v)
				it.Accept = t.inRange(v)
				if it.Accept {
					it.Want = v.String()
					it.RunWant = it.Want
					it.SameRT = true
					it.RunStmts = fmt.Sprintf("\t\t%s\n\t\tvar x %s = %s\n\t\tprintln(@C@, x, @ID@)", strings.ReplaceAll(it.Decl, "@N@", "@C@"), t.Name, v)
				}
			}
			it.Key = "b|roundtrip|" + shape + "|" + t.Name + "|" + it.RC
			it.Cls = cls
			out = append(out, it)
		}
		for _, a := range al {
			ca := "float-target"
			if !t.Float {
				ca = t.operandClass(a)
				if !t.inRange(a) {
					ca = "outside"
				}
			}
			for _, b := range bigs {
				mk("(a*b)/b", "("+intLitB(a)+" * "+intLitB(b)+") / "+intLitB(b), a, ca)
				mk("(a+b)-b", "("+intLitB(a)+" + "+intLitB(b)+") - "+intLitB(b), a, ca)
			}
			for _, k := range ks {
				for _, j := range []uint{k - 1, k, k + 1} {
					v := new(big.Int).Rsh(new(big.Int).Lsh(a, k), j)
					mk("(a<<k)>>j", fmt.Sprintf("(%s << %d) >> %d", intLitB(a), k, j), v, ca+fmt.Sprintf(",j-k=%d", int(j)-int(k)))
				}
				mk("(a<<k)/2^k", fmt.Sprintf("(%s << %d) / %s", intLitB(a), k, two(k)), a, ca)
			}
			mk("-(-a)", "-(-"+intLitB(a)+")", a, ca)
		}
	}
	return out
}
