//go:build go1.21

// Package isa is the reference model of the C20 check: a direct, value-by-value transcription
// of the unprivileged ISA manuals, structured as tables of pure functions keyed by mnemonic
// (nothing in here looks at wemu or at Wa's encoders/decoders).
//
//   - RISC-V: "The RISC-V Instruction Set Manual, Volume I: Unprivileged ISA" (20191213):
//     RV32I/RV64I (ch. 2, 5), M (ch. 7). wemu implements no F/D instruction, so none is modelled.
//   - LoongArch: "LoongArch Reference Manual, Volume 1: Basic Architecture" (v1.10): base integer
//     instructions (ch. 2) and the scalar FP add/sub/mul/div (ch. 3).
//
// Out of the model: CSRs, privileged state, traps, LR/SC and AM* atomics, FP exception flags;
// rounding mode is round-to-nearest-even.
package isa

import (
	"fmt"
	"math"
	"math/big"
	"math/bits"
)

// Inst: the fields of one decoded instruction as the manuals name them. For LoongArch Rd/Rs1/
// Rs2/Rs3 hold rd/rj/rk/ra (or fd/fj/fk/fa); Imm is the immediate after the manual's
// sign/zero extension and scaling (a branch offset in bytes, si14<<2 for ldptr ...).
type Inst struct {
	Op                string
	Rd, Rs1, Rs2, Rs3 int
	Imm               int64
}

// Regs: architectural registers. X[0] is whatever the caller put there; the model reads
// register zero as 0 itself. F holds values (float64; single precision values are exactly
// representable), matching "floating-point values at the instruction's precision".
type Regs struct {
	X  [32]uint64
	F  [32]float64
	PC uint64
}

// Memory is a byte addressed little-endian memory; ok=false is an access fault.
type Memory interface {
	Load(addr uint64, size int) (val uint64, ok bool)
}

// Effect is everything one instruction does to the architectural state.
type Effect struct {
	NextPC uint64

	XW   bool // integer register write
	XRd  int
	XVal uint64

	FW      bool // FP register write
	FRd     int
	FVal    float64
	FSingle bool // result has single precision
	FNaN    bool // result is a NaN (payload not modelled)

	Store bool // memory write
	Addr  uint64
	Size  int
	Val   uint64

	Fault     string // "" or the reason of an access fault (no other effect then)
	Undefined string // "" or why the manual leaves the result undefined (register result not comparable)
}

// ErrUnknown: the mnemonic is not in the reference tables.
type ErrUnknown struct{ Op string }

func (e ErrUnknown) Error() string { return fmt.Sprintf("isa: no reference semantics for %q", e.Op) }

func sext(v uint64, bitsN uint) uint64 {
	sh := 64 - bitsN
	return uint64(int64(v<<sh) >> sh)
}

func trunc(v uint64, xlen uint) uint64 {
	if xlen == 32 {
		return v & 0xffffffff
	}
	return v
}

// sxl: value of an XLEN-bit register as a signed number.
func sxl(v uint64, xlen uint) int64 {
	if xlen == 32 {
		return int64(int32(uint32(v)))
	}
	return int64(v)
}

// mulHigh computes the high XLEN bits of the 2*XLEN-bit product with the requested signedness,
// with math/big (no shortcut shared with an implementation under test).
func mulHigh(a, b uint64, xlen uint, aSigned, bSigned bool) uint64 {
	toBig := func(v uint64, signed bool) *big.Int {
		v = trunc(v, xlen)
		x := new(big.Int).SetUint64(v)
		if signed && v>>(xlen-1)&1 == 1 {
			x.Sub(x, new(big.Int).Lsh(big.NewInt(1), xlen))
		}
		return x
	}
	p := new(big.Int).Mul(toBig(a, aSigned), toBig(b, bSigned))
	p.Rsh(p, xlen) // arithmetic shift (floor) for negative values
	mod := new(big.Int).Lsh(big.NewInt(1), xlen)
	p.Mod(p, mod) // Euclidean: result in [0, 2^xlen)
	return p.Uint64()
}

func rotr32(v uint32, n uint) uint32 { return bits.RotateLeft32(v, -int(n&31)) }
func rotr64(v uint64, n uint) uint64 { return bits.RotateLeft64(v, -int(n&63)) }

// ---- IEEE 754 binary arithmetic, round to nearest even, via exact math/big arithmetic --------

type fpOp int

const (
	fpAdd fpOp = iota
	fpSub
	fpMul
	fpDiv
)

// fpExact returns the correctly rounded double result of a op b (special cases by the IEEE 754
// rules, finite cases by exact big.Float arithmetic rounded once).
func fpDouble(op fpOp, a, b float64) (res float64, nan bool) {
	if math.IsNaN(a) || math.IsNaN(b) {
		return math.NaN(), true
	}
	ia, ib := math.IsInf(a, 0), math.IsInf(b, 0)
	sa, sb := math.Signbit(a), math.Signbit(b)
	switch op {
	case fpSub:
		b, sb = -b, !sb
		fallthrough
	case fpAdd:
		switch {
		case ia && ib:
			if sa != sb {
				return math.NaN(), true
			}
			return a, false
		case ia:
			return a, false
		case ib:
			return b, false
		}
		if a == 0 && b == 0 {
			if sa && sb {
				return math.Copysign(0, -1), false
			}
			return 0, false
		}
		x := new(big.Float).SetPrec(2200).SetFloat64(a)
		y := new(big.Float).SetPrec(2200).SetFloat64(b)
		x.Add(x, y)
		if x.Sign() == 0 {
			return 0, false // exact cancellation: +0 in round-to-nearest
		}
		f, _ := x.Float64()
		return f, false
	case fpMul:
		sign := sa != sb
		if (ia && b == 0) || (ib && a == 0) {
			return math.NaN(), true
		}
		if ia || ib {
			if sign {
				return math.Inf(-1), false
			}
			return math.Inf(1), false
		}
		if a == 0 || b == 0 {
			if sign {
				return math.Copysign(0, -1), false
			}
			return 0, false
		}
		x := new(big.Float).SetPrec(2200).SetFloat64(a)
		y := new(big.Float).SetPrec(2200).SetFloat64(b)
		x.Mul(x, y)
		f, _ := x.Float64()
		return f, false
	case fpDiv:
		sign := sa != sb
		if (ia && ib) || (a == 0 && b == 0) {
			return math.NaN(), true
		}
		inf := func() float64 {
			if sign {
				return math.Inf(-1)
			}
			return math.Inf(1)
		}
		zero := func() float64 {
			if sign {
				return math.Copysign(0, -1)
			}
			return 0
		}
		switch {
		case ia || b == 0:
			return inf(), false
		case ib || a == 0:
			return zero(), false
		}
		// a/b is not exactly representable in general: compute with enough precision that the
		// later rounding to 53 (or 24) bits cannot be affected (2200 bits >> 2*53+exponent range)
		x := new(big.Float).SetPrec(2200).SetFloat64(a)
		y := new(big.Float).SetPrec(2200).SetFloat64(b)
		x.Quo(x, y)
		f, _ := x.Float64()
		return f, false
	}
	panic("isa: bad fpOp")
}

// fpSingle: the same for single precision operands (exact values, one rounding to binary32).
func fpSingle(op fpOp, a, b float32) (res float32, nan bool) {
	a64, b64 := float64(a), float64(b)
	if math.IsNaN(a64) || math.IsNaN(b64) {
		return float32(math.NaN()), true
	}
	// infinities, zeros in products/quotients and the sum of two zeros do not depend on the
	// precision: take them from the double routine
	addsub := op == fpAdd || op == fpSub
	if math.IsInf(a64, 0) || math.IsInf(b64, 0) || (!addsub && (a64 == 0 || b64 == 0)) || (addsub && a64 == 0 && b64 == 0) {
		r, n := fpDouble(op, a64, b64)
		return float32(r), n
	}
	x := new(big.Float).SetPrec(2200).SetFloat64(a64)
	y := new(big.Float).SetPrec(2200).SetFloat64(b64)
	switch op {
	case fpAdd:
		x.Add(x, y)
	case fpSub:
		x.Sub(x, y)
	case fpMul:
		x.Mul(x, y)
	case fpDiv:
		x.Quo(x, y)
	}
	if x.Sign() == 0 {
		return 0, false
	}
	f, _ := x.Float32()
	return f, false
}
