//go:build go1.21

package isa

import (
	"math/bits"
)

// ---- LoongArch64 base integer instructions (LoongArch Reference Manual vol. 1, ch. 2) -------

// la3R: rd = f(rj, rk) (2.2.1 arithmetic, 2.2.2 shifts, 2.2.3.* bit ops that have three registers).
// undefined != "" : the manual leaves the result unspecified for these operand values.
type la3RFn func(a, b uint64) (v uint64, undefined string)

func def(v uint64) (uint64, string) { return v, "" }

func is32(v uint64) bool { return sext(v&0xffffffff, 32) == v }

var la3R = map[string]la3RFn{
	"add.w":   func(a, b uint64) (uint64, string) { return def(w32(a + b)) },
	"add.d":   func(a, b uint64) (uint64, string) { return def(a + b) },
	"sub.w":   func(a, b uint64) (uint64, string) { return def(w32(a - b)) },
	"sub.d":   func(a, b uint64) (uint64, string) { return def(a - b) },
	"slt":     func(a, b uint64) (uint64, string) { return def(b2u(int64(a) < int64(b))) },
	"sltu":    func(a, b uint64) (uint64, string) { return def(b2u(a < b)) },
	"maskeqz": func(a, b uint64) (uint64, string) { return def(map[bool]uint64{true: 0, false: a}[b == 0]) },
	"masknez": func(a, b uint64) (uint64, string) { return def(map[bool]uint64{true: 0, false: a}[b != 0]) },
	"nor":     func(a, b uint64) (uint64, string) { return def(^(a | b)) },
	"and":     func(a, b uint64) (uint64, string) { return def(a & b) },
	"or":      func(a, b uint64) (uint64, string) { return def(a | b) },
	"xor":     func(a, b uint64) (uint64, string) { return def(a ^ b) },
	"orn":     func(a, b uint64) (uint64, string) { return def(a | ^b) },
	"andn":    func(a, b uint64) (uint64, string) { return def(a & ^b) },
	"sll.w":   func(a, b uint64) (uint64, string) { return def(w32(uint64(uint32(a) << (b & 31)))) },
	"srl.w":   func(a, b uint64) (uint64, string) { return def(w32(uint64(uint32(a) >> (b & 31)))) },
	"sra.w":   func(a, b uint64) (uint64, string) { return def(uint64(int64(int32(uint32(a)) >> (b & 31)))) },
	"sll.d":   func(a, b uint64) (uint64, string) { return def(a << (b & 63)) },
	"srl.d":   func(a, b uint64) (uint64, string) { return def(a >> (b & 63)) },
	"sra.d":   func(a, b uint64) (uint64, string) { return def(uint64(int64(a) >> (b & 63))) },
	"rotr.w":  func(a, b uint64) (uint64, string) { return def(w32(uint64(rotr32(uint32(a), uint(b&31))))) },
	"rotr.d":  func(a, b uint64) (uint64, string) { return def(rotr64(a, uint(b&63))) },
	"mul.w":   func(a, b uint64) (uint64, string) { return def(w32(uint64(uint32(a) * uint32(b)))) },
	"mulh.w":  func(a, b uint64) (uint64, string) { return def(w32(mulHigh(a, b, 32, true, true))) },
	"mulh.wu": func(a, b uint64) (uint64, string) { return def(w32(mulHigh(a, b, 32, false, false))) },
	"mul.d":   func(a, b uint64) (uint64, string) { return def(a * b) },
	"mulh.d":  func(a, b uint64) (uint64, string) { return def(mulHigh(a, b, 64, true, true)) },
	"mulh.du": func(a, b uint64) (uint64, string) { return def(mulHigh(a, b, 64, false, false)) },
	"mulw.d.w": func(a, b uint64) (uint64, string) {
		return def(uint64(int64(int32(uint32(a))) * int64(int32(uint32(b)))))
	},
	"mulw.d.wu": func(a, b uint64) (uint64, string) { return def(uint64(uint32(a)) * uint64(uint32(b))) },
	"div.w": func(a, b uint64) (uint64, string) {
		if !is32(a) || !is32(b) {
			return 0, "operands of div.w outside the signed 32-bit range"
		}
		sa, sb := int32(uint32(a)), int32(uint32(b))
		if sb == 0 || (sb == -1 && sa == -1<<31) {
			return 0, "division by zero / overflow"
		}
		return def(uint64(int64(sa / sb)))
	},
	"mod.w": func(a, b uint64) (uint64, string) {
		if !is32(a) || !is32(b) {
			return 0, "operands of mod.w outside the signed 32-bit range"
		}
		sa, sb := int32(uint32(a)), int32(uint32(b))
		if sb == 0 || (sb == -1 && sa == -1<<31) {
			return 0, "division by zero / overflow"
		}
		return def(uint64(int64(sa % sb)))
	},
	"div.wu": func(a, b uint64) (uint64, string) {
		if !is32(a) || !is32(b) {
			return 0, "operands of div.wu outside the sign-extended 32-bit range"
		}
		if uint32(b) == 0 {
			return 0, "division by zero"
		}
		return def(w32(uint64(uint32(a) / uint32(b))))
	},
	"mod.wu": func(a, b uint64) (uint64, string) {
		if !is32(a) || !is32(b) {
			return 0, "operands of mod.wu outside the sign-extended 32-bit range"
		}
		if uint32(b) == 0 {
			return 0, "division by zero"
		}
		return def(w32(uint64(uint32(a) % uint32(b))))
	},
	"div.d": func(a, b uint64) (uint64, string) {
		if b == 0 || (int64(b) == -1 && int64(a) == -1<<63) {
			return 0, "division by zero / overflow"
		}
		return def(uint64(int64(a) / int64(b)))
	},
	"mod.d": func(a, b uint64) (uint64, string) {
		if b == 0 || (int64(b) == -1 && int64(a) == -1<<63) {
			return 0, "division by zero / overflow"
		}
		return def(uint64(int64(a) % int64(b)))
	},
	"div.du": func(a, b uint64) (uint64, string) {
		if b == 0 {
			return 0, "division by zero"
		}
		return def(a / b)
	},
	"mod.du": func(a, b uint64) (uint64, string) {
		if b == 0 {
			return 0, "division by zero"
		}
		return def(a % b)
	},
}

// laImm: rd = f(rj, imm) with imm already extended as the manual says (si12 signed, ui12/ui5/ui6
// unsigned, si16/si20 the raw signed field).
var laImm = map[string]func(a uint64, imm int64) uint64{
	"addi.w":    func(a uint64, i int64) uint64 { return w32(a + uint64(i)) },
	"addi.d":    func(a uint64, i int64) uint64 { return a + uint64(i) },
	"addu16i.d": func(a uint64, i int64) uint64 { return a + uint64(i<<16) },
	"slti":      func(a uint64, i int64) uint64 { return b2u(int64(a) < i) },
	"sltui":     func(a uint64, i int64) uint64 { return b2u(a < uint64(i)) },
	"andi":      func(a uint64, i int64) uint64 { return a & uint64(i) },
	"ori":       func(a uint64, i int64) uint64 { return a | uint64(i) },
	"xori":      func(a uint64, i int64) uint64 { return a ^ uint64(i) },
	"lu52i.d":   func(a uint64, i int64) uint64 { return uint64(i)<<52 | a&(1<<52-1) },
	"slli.w":    func(a uint64, i int64) uint64 { return w32(uint64(uint32(a) << uint(i&31))) },
	"srli.w":    func(a uint64, i int64) uint64 { return w32(uint64(uint32(a) >> uint(i&31))) },
	"srai.w":    func(a uint64, i int64) uint64 { return uint64(int64(int32(uint32(a)) >> uint(i&31))) },
	"rotri.w":   func(a uint64, i int64) uint64 { return w32(uint64(rotr32(uint32(a), uint(i&31)))) },
	"slli.d":    func(a uint64, i int64) uint64 { return a << uint(i&63) },
	"srli.d":    func(a uint64, i int64) uint64 { return a >> uint(i&63) },
	"srai.d":    func(a uint64, i int64) uint64 { return uint64(int64(a) >> uint(i&63)) },
	"rotri.d":   func(a uint64, i int64) uint64 { return rotr64(a, uint(i&63)) },
}

// la1RI20: rd = f(pc, si20, old rd) (2.2.1.4 - 2.2.1.7).
var la1RI20 = map[string]func(pc uint64, si20 int64, old uint64) uint64{
	"lu12i.w":   func(pc uint64, i int64, old uint64) uint64 { return w32(uint64(i) << 12) },
	"lu32i.d":   func(pc uint64, i int64, old uint64) uint64 { return uint64(i)<<32 | old&0xffffffff },
	"pcaddi":    func(pc uint64, i int64, old uint64) uint64 { return pc + uint64(i<<2) },
	"pcaddu12i": func(pc uint64, i int64, old uint64) uint64 { return pc + uint64(i<<12) },
	"pcaddu18i": func(pc uint64, i int64, old uint64) uint64 { return pc + uint64(i<<18) },
	"pcalau12i": func(pc uint64, i int64, old uint64) uint64 { return (pc + uint64(i<<12)) &^ 0xfff },
}

// la2R: rd = f(rj) (2.2.3 bit manipulation).
var la2R = map[string]func(a uint64) uint64{
	"ext.w.b": func(a uint64) uint64 { return sext(a&0xff, 8) },
	"ext.w.h": func(a uint64) uint64 { return sext(a&0xffff, 16) },
	"clo.w":   func(a uint64) uint64 { return uint64(bits.LeadingZeros32(^uint32(a))) },
	"clz.w":   func(a uint64) uint64 { return uint64(bits.LeadingZeros32(uint32(a))) },
	"cto.w":   func(a uint64) uint64 { return uint64(bits.TrailingZeros32(^uint32(a))) },
	"ctz.w":   func(a uint64) uint64 { return uint64(bits.TrailingZeros32(uint32(a))) },
	"clo.d":   func(a uint64) uint64 { return uint64(bits.LeadingZeros64(^a)) },
	"clz.d":   func(a uint64) uint64 { return uint64(bits.LeadingZeros64(a)) },
	"cto.d":   func(a uint64) uint64 { return uint64(bits.TrailingZeros64(^a)) },
	"ctz.d":   func(a uint64) uint64 { return uint64(bits.TrailingZeros64(a)) },
	"revb.2h": func(a uint64) uint64 { v := uint32(a); return w32(uint64(v>>8&0x00ff00ff | v<<8&0xff00ff00)) },
	"revb.4h": func(a uint64) uint64 { return a>>8&0x00ff00ff00ff00ff | a<<8&0xff00ff00ff00ff00 },
	"revb.2w": func(a uint64) uint64 {
		return uint64(bits.ReverseBytes32(uint32(a))) | uint64(bits.ReverseBytes32(uint32(a>>32)))<<32
	},
	"revb.d":    func(a uint64) uint64 { return bits.ReverseBytes64(a) },
	"revh.2w":   func(a uint64) uint64 { return a>>16&0x0000ffff0000ffff | a<<16&0xffff0000ffff0000 },
	"revh.d":    func(a uint64) uint64 { return a>>48 | a>>16&0xffff0000 | a<<16&0xffff00000000 | a<<48 },
	"bitrev.4b": func(a uint64) uint64 { return w32(uint64(bits.ReverseBytes32(bits.Reverse32(uint32(a))))) },
	"bitrev.8b": func(a uint64) uint64 { return bits.ReverseBytes64(bits.Reverse64(a)) },
	"bitrev.w":  func(a uint64) uint64 { return w32(uint64(bits.Reverse32(uint32(a)))) },
	"bitrev.d":  func(a uint64) uint64 { return bits.Reverse64(a) },
}

// laBranch: taken condition of the two-register branches (2.2.6): operands are (rj, rd).
var laBranch = map[string]func(rj, rd uint64) bool{
	"beq":  func(a, b uint64) bool { return a == b },
	"bne":  func(a, b uint64) bool { return a != b },
	"blt":  func(a, b uint64) bool { return int64(a) < int64(b) },
	"bge":  func(a, b uint64) bool { return int64(a) >= int64(b) },
	"bltu": func(a, b uint64) bool { return a < b },
	"bgeu": func(a, b uint64) bool { return a >= b },
}

// laLoad / laStore: si12 addressed (2.2.5.1), x = indexed by rk (2.2.5.2), ptr = si14<<2 (2.2.5.5).
var laLoad = map[string]memAccess{
	"ld.b": {1, true}, "ld.h": {2, true}, "ld.w": {4, true}, "ld.d": {8, true}, "ld.bu": {1, false}, "ld.hu": {2, false}, "ld.wu": {4, false},
	"ldptr.w": {4, true}, "ldptr.d": {8, true},
}
var laLoadX = map[string]memAccess{
	"ldx.b": {1, true}, "ldx.h": {2, true}, "ldx.w": {4, true}, "ldx.d": {8, true}, "ldx.bu": {1, false}, "ldx.hu": {2, false}, "ldx.wu": {4, false},
}
var laStore = map[string]int{"st.b": 1, "st.h": 2, "st.w": 4, "st.d": 8, "stptr.w": 4, "stptr.d": 8}
var laStoreX = map[string]int{"stx.b": 1, "stx.h": 2, "stx.w": 4, "stx.d": 8}

// laFP: scalar FP arithmetic (vol. 1 ch. 3.2.1).
var laFP = map[string]struct {
	op     fpOp
	single bool
}{
	"fadd.s": {fpAdd, true}, "fsub.s": {fpSub, true}, "fmul.s": {fpMul, true}, "fdiv.s": {fpDiv, true},
	"fadd.d": {fpAdd, false}, "fsub.d": {fpSub, false}, "fmul.d": {fpMul, false}, "fdiv.d": {fpDiv, false},
}

// LAKnown reports whether the reference has semantics for the mnemonic (lower case, x/arch
// spelling: "add.w", "ld.bu", "pcaddu12i").
func LAKnown(op string) bool {
	switch op {
	case "b", "bl", "jirl", "beqz", "bnez", "alsl.w", "alsl.wu", "alsl.d", "bytepick.w", "bytepick.d",
		"bstrins.w", "bstrins.d", "bstrpick.w", "bstrpick.d":
		return true
	}
	_, ok1 := la3R[op]
	_, ok2 := laImm[op]
	_, ok3 := la1RI20[op]
	_, ok4 := la2R[op]
	_, ok5 := laBranch[op]
	_, ok6 := laLoad[op]
	_, ok7 := laLoadX[op]
	_, ok8 := laStore[op]
	_, ok9 := laStoreX[op]
	_, ok10 := laFP[op]
	return ok1 || ok2 || ok3 || ok4 || ok5 || ok6 || ok7 || ok8 || ok9 || ok10
}

// StepLA executes one LA64 instruction. in.Rd/Rs1/Rs2/Rs3 = rd/rj/rk/ra (or the FP registers);
// in.Imm: si12 sign-extended, ui12/ui5/ui6/sa2 (assembler value 1..4 for alsl, raw 0..3
// otherwise)/sa3 unsigned, si16/si20 the raw signed field, branch offsets and si14<<2 in bytes;
// for bstrins/bstrpick Rs2 = msb and Rs3 = lsb.
func StepLA(in Inst, r *Regs, m Memory) (Effect, error) {
	x := func(i int) uint64 {
		if i == 0 {
			return 0
		}
		return r.X[i]
	}
	pc := r.PC
	e := Effect{NextPC: pc + 4}
	wr := func(v uint64) { e.XW, e.XRd, e.XVal = true, in.Rd, v }
	imm := uint64(in.Imm)
	switch {
	case la3R[in.Op] != nil:
		v, und := la3R[in.Op](x(in.Rs1), x(in.Rs2))
		wr(v)
		e.Undefined = und
	case laImm[in.Op] != nil:
		wr(laImm[in.Op](x(in.Rs1), in.Imm))
	case la1RI20[in.Op] != nil:
		wr(la1RI20[in.Op](pc, in.Imm, x(in.Rd)))
	case la2R[in.Op] != nil:
		wr(la2R[in.Op](x(in.Rs1)))
	case in.Op == "alsl.w":
		wr(w32(x(in.Rs1)<<uint(in.Imm) + x(in.Rs2)))
	case in.Op == "alsl.wu":
		wr((x(in.Rs1)<<uint(in.Imm) + x(in.Rs2)) & 0xffffffff)
	case in.Op == "alsl.d":
		wr(x(in.Rs1)<<uint(in.Imm) + x(in.Rs2))
	case in.Op == "bytepick.w":
		// {rk[8*(4-sa2)-1:0], rj[31:8*(4-sa2)]}
		sa := uint(in.Imm & 3)
		v := uint32(x(in.Rs2))<<(8*sa) | uint32(uint64(uint32(x(in.Rs1)))>>(8*(4-sa)))
		wr(w32(uint64(v)))
	case in.Op == "bytepick.d":
		sa := uint(in.Imm & 7)
		v := x(in.Rs2) << (8 * sa)
		if sa != 0 {
			v |= x(in.Rs1) >> (8 * (8 - sa))
		}
		wr(v)
	case in.Op == "bstrins.w" || in.Op == "bstrins.d" || in.Op == "bstrpick.w" || in.Op == "bstrpick.d":
		msb, lsb := uint(in.Rs2), uint(in.Rs3)
		if msb < lsb {
			e.Undefined = "msb < lsb"
			wr(0)
			break
		}
		width := msb - lsb + 1
		mask := ^uint64(0)
		if width < 64 {
			mask = 1<<width - 1
		}
		switch in.Op {
		case "bstrins.w":
			v := uint64(uint32(x(in.Rd)))&^(mask<<lsb) | (x(in.Rs1)&mask)<<lsb
			wr(w32(v))
		case "bstrins.d":
			wr(x(in.Rd)&^(mask<<lsb) | (x(in.Rs1)&mask)<<lsb)
		case "bstrpick.w":
			wr(w32(uint64(uint32(x(in.Rs1))) >> lsb & mask))
		case "bstrpick.d":
			wr(x(in.Rs1) >> lsb & mask)
		}
	case laBranch[in.Op] != nil:
		if laBranch[in.Op](x(in.Rs1), x(in.Rd)) {
			e.NextPC = pc + imm
		}
	case in.Op == "beqz":
		if x(in.Rs1) == 0 {
			e.NextPC = pc + imm
		}
	case in.Op == "bnez":
		if x(in.Rs1) != 0 {
			e.NextPC = pc + imm
		}
	case in.Op == "b":
		e.NextPC = pc + imm
	case in.Op == "bl":
		e.XW, e.XRd, e.XVal = true, 1, pc+4
		e.NextPC = pc + imm
	case in.Op == "jirl":
		t := x(in.Rs1) + imm
		wr(pc + 4)
		e.NextPC = t
	case laLoad[in.Op].size != 0 || laLoadX[in.Op].size != 0:
		la, addr := laLoad[in.Op], x(in.Rs1)+imm
		if la.size == 0 {
			la, addr = laLoadX[in.Op], x(in.Rs1)+x(in.Rs2)
		}
		v, ok := m.Load(addr, la.size)
		if !ok {
			return Effect{Fault: "load access fault"}, nil
		}
		if la.signed {
			v = sext(v, uint(la.size*8))
		}
		wr(v)
	case laStore[in.Op] != 0 || laStoreX[in.Op] != 0:
		size, addr := laStore[in.Op], x(in.Rs1)+imm
		if size == 0 {
			size, addr = laStoreX[in.Op], x(in.Rs1)+x(in.Rs2)
		}
		if _, ok := m.Load(addr, size); !ok {
			return Effect{Fault: "store access fault"}, nil
		}
		v := x(in.Rd)
		if size < 8 {
			v &= 1<<(uint(size)*8) - 1
		}
		e.Store, e.Addr, e.Size, e.Val = true, addr, size, v
	case laFP[in.Op].op != 0 || in.Op == "fadd.s" || in.Op == "fadd.d":
		f := laFP[in.Op]
		e.FW, e.FRd, e.FSingle = true, in.Rd, f.single
		if f.single {
			v, nan := fpSingle(f.op, float32(r.F[in.Rs1]), float32(r.F[in.Rs2]))
			e.FVal, e.FNaN = float64(v), nan
		} else {
			e.FVal, e.FNaN = fpDouble(f.op, r.F[in.Rs1], r.F[in.Rs2])
		}
	default:
		return e, ErrUnknown{in.Op}
	}
	return e, nil
}
