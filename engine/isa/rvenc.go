//go:build go1.21

package isa

import "fmt"

// Reference encodings of RV32I/RV64I/M from the instruction listings of the unprivileged manual
// (ch. 24 "RV32/64G Instruction Set Listings"): opcode, funct3, funct7 and the format.
type rvEnc struct {
	format         byte // R I S B U J, 'H' = shift immediate (funct7/funct6 in the upper bits)
	opcode, f3, f7 uint32
}

var rvEncodings = map[string]rvEnc{
	"lui": {'U', 0x37, 0, 0}, "auipc": {'U', 0x17, 0, 0}, "jal": {'J', 0x6f, 0, 0}, "jalr": {'I', 0x67, 0, 0},
	"beq": {'B', 0x63, 0, 0}, "bne": {'B', 0x63, 1, 0}, "blt": {'B', 0x63, 4, 0}, "bge": {'B', 0x63, 5, 0}, "bltu": {'B', 0x63, 6, 0}, "bgeu": {'B', 0x63, 7, 0},
	"lb": {'I', 0x03, 0, 0}, "lh": {'I', 0x03, 1, 0}, "lw": {'I', 0x03, 2, 0}, "lbu": {'I', 0x03, 4, 0}, "lhu": {'I', 0x03, 5, 0}, "lwu": {'I', 0x03, 6, 0}, "ld": {'I', 0x03, 3, 0},
	"sb": {'S', 0x23, 0, 0}, "sh": {'S', 0x23, 1, 0}, "sw": {'S', 0x23, 2, 0}, "sd": {'S', 0x23, 3, 0},
	"addi": {'I', 0x13, 0, 0}, "slti": {'I', 0x13, 2, 0}, "sltiu": {'I', 0x13, 3, 0}, "xori": {'I', 0x13, 4, 0}, "ori": {'I', 0x13, 6, 0}, "andi": {'I', 0x13, 7, 0},
	"slli": {'H', 0x13, 1, 0x00}, "srli": {'H', 0x13, 5, 0x00}, "srai": {'H', 0x13, 5, 0x20},
	"add": {'R', 0x33, 0, 0x00}, "sub": {'R', 0x33, 0, 0x20}, "sll": {'R', 0x33, 1, 0}, "slt": {'R', 0x33, 2, 0}, "sltu": {'R', 0x33, 3, 0}, "xor": {'R', 0x33, 4, 0},
	"srl": {'R', 0x33, 5, 0x00}, "sra": {'R', 0x33, 5, 0x20}, "or": {'R', 0x33, 6, 0}, "and": {'R', 0x33, 7, 0},
	"addiw": {'I', 0x1b, 0, 0}, "slliw": {'H', 0x1b, 1, 0x00}, "srliw": {'H', 0x1b, 5, 0x00}, "sraiw": {'H', 0x1b, 5, 0x20},
	"addw": {'R', 0x3b, 0, 0x00}, "subw": {'R', 0x3b, 0, 0x20}, "sllw": {'R', 0x3b, 1, 0}, "srlw": {'R', 0x3b, 5, 0x00}, "sraw": {'R', 0x3b, 5, 0x20},
	"mul": {'R', 0x33, 0, 1}, "mulh": {'R', 0x33, 1, 1}, "mulhsu": {'R', 0x33, 2, 1}, "mulhu": {'R', 0x33, 3, 1},
	"div": {'R', 0x33, 4, 1}, "divu": {'R', 0x33, 5, 1}, "rem": {'R', 0x33, 6, 1}, "remu": {'R', 0x33, 7, 1},
	"mulw": {'R', 0x3b, 0, 1}, "divw": {'R', 0x3b, 4, 1}, "divuw": {'R', 0x3b, 5, 1}, "remw": {'R', 0x3b, 6, 1}, "remuw": {'R', 0x3b, 7, 1},
	"fence": {'I', 0x0f, 0, 0},
}

// EncodeRV builds the 32-bit encoding from the manual's format diagrams (ch. 2.2, 2.3).
func EncodeRV(in Inst) (uint32, error) {
	enc, ok := rvEncodings[in.Op]
	if !ok {
		return 0, ErrUnknown{in.Op}
	}
	rd, rs1, rs2 := uint32(in.Rd)&31, uint32(in.Rs1)&31, uint32(in.Rs2)&31
	imm := uint32(in.Imm)
	base := enc.opcode | enc.f3<<12
	switch enc.format {
	case 'R':
		return base | enc.f7<<25 | rs2<<20 | rs1<<15 | rd<<7, nil
	case 'I':
		if in.Imm < -2048 || in.Imm > 2047 {
			return 0, fmt.Errorf("isa: %s immediate %d out of range", in.Op, in.Imm)
		}
		return base | (imm&0xfff)<<20 | rs1<<15 | rd<<7, nil
	case 'H':
		if in.Imm < 0 || in.Imm > 63 {
			return 0, fmt.Errorf("isa: %s shamt %d out of range", in.Op, in.Imm)
		}
		return base | enc.f7<<25 | (imm&0x3f)<<20 | rs1<<15 | rd<<7, nil
	case 'S':
		if in.Imm < -2048 || in.Imm > 2047 {
			return 0, fmt.Errorf("isa: %s immediate %d out of range", in.Op, in.Imm)
		}
		return base | (imm>>5&0x7f)<<25 | rs2<<20 | rs1<<15 | (imm&0x1f)<<7, nil
	case 'B':
		if in.Imm < -4096 || in.Imm > 4094 || in.Imm&1 != 0 {
			return 0, fmt.Errorf("isa: %s offset %d out of range", in.Op, in.Imm)
		}
		return base | (imm>>12&1)<<31 | (imm>>5&0x3f)<<25 | rs2<<20 | rs1<<15 | (imm>>1&0xf)<<8 | (imm>>11&1)<<7, nil
	case 'U':
		return enc.opcode | (imm&0xfffff)<<12 | rd<<7, nil
	case 'J':
		if in.Imm < -(1<<20) || in.Imm > 1<<20-2 || in.Imm&1 != 0 {
			return 0, fmt.Errorf("isa: %s offset %d out of range", in.Op, in.Imm)
		}
		return enc.opcode | (imm>>20&1)<<31 | (imm>>1&0x3ff)<<21 | (imm>>11&1)<<20 | (imm>>12&0xff)<<12 | rd<<7, nil
	}
	return 0, ErrUnknown{in.Op}
}

// RVMnemonics lists the mnemonics of the reference (sorted order is up to the caller).
func RVMnemonics() []string {
	var out []string
	for k := range rvEncodings {
		out = append(out, k)
	}
	return out
}
