//go:build go1.21

package isa

import "math/bits"

// ---- RISC-V RV32I / RV64I / M --------------------------------------------------------------

// rvALU: register-register and register-immediate computational instructions: result as a
// function of the two operand values (ch. 2.4, 5.2, 7.1, 7.2). For the immediate forms b is the
// sign-extended immediate (shamt for shifts). Values are XLEN-bit patterns held in uint64.
type rvALUFn func(xlen uint, a, b uint64) uint64

func w32(v uint64) uint64 { return sext(v&0xffffffff, 32) }

var rvALU = map[string]rvALUFn{
	"add":  func(x uint, a, b uint64) uint64 { return a + b },
	"sub":  func(x uint, a, b uint64) uint64 { return a - b },
	"sll":  func(x uint, a, b uint64) uint64 { return a << (b & uint64(x-1)) },
	"slt":  func(x uint, a, b uint64) uint64 { return b2u(sxl(a, x) < sxl(b, x)) },
	"sltu": func(x uint, a, b uint64) uint64 { return b2u(trunc(a, x) < trunc(b, x)) },
	"xor":  func(x uint, a, b uint64) uint64 { return a ^ b },
	"srl":  func(x uint, a, b uint64) uint64 { return trunc(a, x) >> (b & uint64(x-1)) },
	"sra":  func(x uint, a, b uint64) uint64 { return uint64(sxl(a, x) >> (b & uint64(x-1))) },
	"or":   func(x uint, a, b uint64) uint64 { return a | b },
	"and":  func(x uint, a, b uint64) uint64 { return a & b },
	// RV64 word forms: operate on the low 32 bits, result sign-extended
	"addw": func(x uint, a, b uint64) uint64 { return w32(a + b) },
	"subw": func(x uint, a, b uint64) uint64 { return w32(a - b) },
	"sllw": func(x uint, a, b uint64) uint64 { return w32(uint64(uint32(a) << (b & 31))) },
	"srlw": func(x uint, a, b uint64) uint64 { return w32(uint64(uint32(a) >> (b & 31))) },
	"sraw": func(x uint, a, b uint64) uint64 { return uint64(int64(int32(uint32(a)) >> (b & 31))) },
	// M
	"mul":    func(x uint, a, b uint64) uint64 { return a * b },
	"mulh":   func(x uint, a, b uint64) uint64 { return mulHigh(a, b, x, true, true) },
	"mulhsu": func(x uint, a, b uint64) uint64 { return mulHigh(a, b, x, true, false) },
	"mulhu":  func(x uint, a, b uint64) uint64 { return mulHigh(a, b, x, false, false) },
	"div": func(x uint, a, b uint64) uint64 {
		sa, sb := sxl(a, x), sxl(b, x)
		switch {
		case sb == 0:
			return ^uint64(0) // -1
		case sb == -1 && sa == minInt(x):
			return uint64(sa) // overflow: the dividend
		}
		return uint64(sa / sb) // Go truncates toward zero like the ISA
	},
	"divu": func(x uint, a, b uint64) uint64 {
		ua, ub := trunc(a, x), trunc(b, x)
		if ub == 0 {
			return ^uint64(0) // 2^XLEN-1
		}
		return ua / ub
	},
	"rem": func(x uint, a, b uint64) uint64 {
		sa, sb := sxl(a, x), sxl(b, x)
		switch {
		case sb == 0:
			return uint64(sa)
		case sb == -1 && sa == minInt(x):
			return 0
		}
		return uint64(sa % sb) // sign of the dividend
	},
	"remu": func(x uint, a, b uint64) uint64 {
		ua, ub := trunc(a, x), trunc(b, x)
		if ub == 0 {
			return ua
		}
		return ua % ub
	},
	"mulw": func(x uint, a, b uint64) uint64 { return w32(uint64(uint32(a) * uint32(b))) },
	"divw": func(x uint, a, b uint64) uint64 {
		sa, sb := int32(uint32(a)), int32(uint32(b))
		switch {
		case sb == 0:
			return ^uint64(0)
		case sb == -1 && sa == -1<<31:
			return uint64(int64(sa))
		}
		return uint64(int64(sa / sb))
	},
	"divuw": func(x uint, a, b uint64) uint64 {
		ua, ub := uint32(a), uint32(b)
		if ub == 0 {
			return ^uint64(0)
		}
		return w32(uint64(ua / ub))
	},
	"remw": func(x uint, a, b uint64) uint64 {
		sa, sb := int32(uint32(a)), int32(uint32(b))
		switch {
		case sb == 0:
			return uint64(int64(sa))
		case sb == -1 && sa == -1<<31:
			return 0
		}
		return uint64(int64(sa % sb))
	},
	"remuw": func(x uint, a, b uint64) uint64 {
		ua, ub := uint32(a), uint32(b)
		if ub == 0 {
			return w32(uint64(ua))
		}
		return w32(uint64(ua % ub))
	},
}

func b2u(b bool) uint64 {
	if b {
		return 1
	}
	return 0
}

func minInt(xlen uint) int64 {
	if xlen == 32 {
		return -1 << 31
	}
	return -1 << 63
}

// rvImmForm: immediate mnemonic -> register mnemonic with the same function (ch. 2.4.1, 5.2).
var rvImmForm = map[string]string{
	"addi": "add", "slti": "slt", "sltiu": "sltu", "xori": "xor", "ori": "or", "andi": "and",
	"slli": "sll", "srli": "srl", "srai": "sra",
	"addiw": "addw", "slliw": "sllw", "srliw": "srlw", "sraiw": "sraw",
}

// rv64Only: instructions that exist only when XLEN=64.
var rv64Only = map[string]bool{
	"addw": true, "subw": true, "sllw": true, "srlw": true, "sraw": true, "addiw": true, "slliw": true, "srliw": true, "sraiw": true,
	"mulw": true, "divw": true, "divuw": true, "remw": true, "remuw": true, "lwu": true, "ld": true, "sd": true,
}

// rvBranch: taken condition (ch. 2.5.2).
var rvBranch = map[string]func(xlen uint, a, b uint64) bool{
	"beq":  func(x uint, a, b uint64) bool { return trunc(a, x) == trunc(b, x) },
	"bne":  func(x uint, a, b uint64) bool { return trunc(a, x) != trunc(b, x) },
	"blt":  func(x uint, a, b uint64) bool { return sxl(a, x) < sxl(b, x) },
	"bge":  func(x uint, a, b uint64) bool { return sxl(a, x) >= sxl(b, x) },
	"bltu": func(x uint, a, b uint64) bool { return trunc(a, x) < trunc(b, x) },
	"bgeu": func(x uint, a, b uint64) bool { return trunc(a, x) >= trunc(b, x) },
}

type memAccess struct {
	size   int
	signed bool
}

// rvLoad / rvStore (ch. 2.6, 5.3).
var rvLoad = map[string]memAccess{
	"lb": {1, true}, "lh": {2, true}, "lw": {4, true}, "lbu": {1, false}, "lhu": {2, false}, "lwu": {4, false}, "ld": {8, true},
}
var rvStore = map[string]int{"sb": 1, "sh": 2, "sw": 4, "sd": 8}

// RVKnown reports whether the reference has semantics for the mnemonic.
func RVKnown(op string) bool {
	_, a := rvALU[op]
	_, i := rvImmForm[op]
	_, b := rvBranch[op]
	_, l := rvLoad[op]
	_, s := rvStore[op]
	switch op {
	case "lui", "auipc", "jal", "jalr", "fence":
		return true
	}
	return a || i || b || l || s
}

// StepRV executes one RV32/RV64 instruction (xlen 32 or 64) on r and reports its effect.
// in.Imm: I/S/B/J immediates sign-extended (byte offsets), U-type the 20-bit field (0..2^20-1),
// shifts the shamt.
func StepRV(xlen uint, in Inst, r *Regs, m Memory) (Effect, error) {
	x := func(i int) uint64 {
		if i == 0 {
			return 0
		}
		return trunc(r.X[i], xlen)
	}
	pc := trunc(r.PC, xlen)
	e := Effect{NextPC: trunc(pc+4, xlen)}
	wr := func(v uint64) {
		e.XW, e.XRd, e.XVal = true, in.Rd, trunc(v, xlen)
	}
	if xlen == 32 && rv64Only[in.Op] {
		return e, ErrUnknown{in.Op + " (RV64 only)"}
	}
	imm := uint64(in.Imm)
	switch {
	case rvALU[in.Op] != nil:
		wr(rvALU[in.Op](xlen, x(in.Rs1), x(in.Rs2)))
	case rvImmForm[in.Op] != "":
		if xlen == 32 && (in.Op == "slli" || in.Op == "srli" || in.Op == "srai") && in.Imm&32 != 0 {
			return e, ErrUnknown{in.Op + " with shamt[5]=1 is reserved in RV32"}
		}
		wr(rvALU[rvImmForm[in.Op]](xlen, x(in.Rs1), imm))
	case in.Op == "lui":
		wr(sext(uint64(in.Imm&0xfffff)<<12, 32))
	case in.Op == "auipc":
		wr(pc + sext(uint64(in.Imm&0xfffff)<<12, 32))
	case in.Op == "jal":
		wr(pc + 4)
		e.NextPC = trunc(pc+imm, xlen)
	case in.Op == "jalr":
		t := (x(in.Rs1) + imm) &^ 1
		wr(pc + 4)
		e.NextPC = trunc(t, xlen)
	case rvBranch[in.Op] != nil:
		if rvBranch[in.Op](xlen, x(in.Rs1), x(in.Rs2)) {
			e.NextPC = trunc(pc+imm, xlen)
		}
	case rvLoad[in.Op].size != 0:
		la := rvLoad[in.Op]
		addr := trunc(x(in.Rs1)+imm, xlen)
		v, ok := m.Load(addr, la.size)
		if !ok {
			return Effect{Fault: "load access fault"}, nil
		}
		if la.signed {
			v = sext(v, uint(la.size*8))
		}
		wr(v)
	case rvStore[in.Op] != 0:
		size := rvStore[in.Op]
		addr := trunc(x(in.Rs1)+imm, xlen)
		if _, ok := m.Load(addr, size); !ok {
			return Effect{Fault: "store access fault"}, nil
		}
		v := x(in.Rs2)
		if size < 8 {
			v &= 1<<(uint(size)*8) - 1
		}
		e.Store, e.Addr, e.Size, e.Val = true, addr, size, v
	case in.Op == "fence":
		// no architectural effect on a single hart
	default:
		return e, ErrUnknown{in.Op}
	}
	_ = bits.Len
	return e, nil
}
