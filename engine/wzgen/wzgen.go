//go:build go1.21

// Package wzgen renders a program written in the English Wa syntax (.wa) in the Chinese syntax
// (.wz). The .wa text is parsed by the repository's own parser (the English front end is checked
// against Go by C01); the Chinese text is produced by THIS package from the syntax tree, using
// only spellings that are established by internal/token/const_wz.go, internal/types/universe_wz.go,
// the w2parser grammar, the w2printer and the shipped .wz sources:
//
//	函数·名(参: 型) => 型: … 完毕      函数·型·名 (receiver `我的`)    函数 (r: T) 名 (any other receiver)
//	结构·名: 域: 型 … 完毕            接口·名: 方法(…) => 型 … 完毕      全局·x: T = v    常量·c = v
//	设定 x: T = v                    如果 [init;] c: … 或者 c: … 否则: … 完毕
//	循环 [init]; [c]; [post]: … 完毕   循环 c: …   循环: …   循环 k, v := 迭代 x: …   循环 迭代 x: …
//	找辙 [init;] [tag]: 有辙 a, b: … 没辙: … 完毕        找辙 v := x·(类型): …
//	区块: … 完毕    押后 f()    返回 …    跳出    继续    函数(…) => T: … 完毕 (literal)
//	字典[K]V   []T   [N]T   *T   函数(…) => T   x·f   x·(T)   皮囊 for interface{}
//
// Constructs without an established spelling make Render return an Unsupported error naming the
// construct; the caller leaves such programs out:
//
//	labels (w2parser.parseSimpleStmt never recognises `名:`; so labelled break/continue too),
//	`type T U` for a non-struct, non-interface U (the grammar only has the alias form 类型 T = U),
//	struct and interface type literals inside expressions or signatures (except interface{}),
//	local type declarations, goto, imports (package names differ between the two standard libraries).
package wzgen

import (
	"fmt"
	"strconv"
	"strings"

	"wa-lang.org/wa/internal/ast"
	"wa-lang.org/wa/internal/parser"
	"wa-lang.org/wa/internal/token"
)

// Universe maps the English predeclared identifiers to the Chinese ones
// (internal/token/const_wz.go, internal/types/universe_wz.go).
var Universe = map[string]string{
	"bool": "布尔", "byte": "字节", "rune": "符文", "string": "字串", "any": "皮囊", "error": "错误",
	"int": "整型", "uint": "正整", "float32": "单精", "float64": "双精", "complex64": "单复", "complex128": "双复",
	"int8": "微整型", "int16": "短整型", "int32": "普整型", "int64": "长整型",
	"uint8": "微正整", "uint16": "短正整", "uint32": "普正整", "uint64": "长正整", "uintptr": "地址型",
	"__wa_i8": "微整型", "__wa_i16": "短整型", // the English universe hides i8/i16 behind these names (token.K_i8, K_i16)
	"i8": "微整型", "i16": "短整型", "i32": "普整型", "i64": "长整型",
	"u8": "微正整", "u16": "短正整", "u32": "普正整", "u64": "长正整",
	"f32": "单精", "f64": "双精",
	"true": "真", "false": "假", "iota": "嘀嗒", "nil": "空",
	"append": "追加", "cap": "容量", "complex": "复数", "copy": "拷贝", "delete": "删除", "imag": "虚部",
	"len": "长度", "make": "构建", "new": "新建", "panic": "崩溃", "println": "输出", "print": "打印", "real": "实部",
}

// Unsupported is returned for constructs without an established Chinese spelling.
type Unsupported struct{ What string }

func (u *Unsupported) Error() string { return "no established .wz spelling: " + u.What }

type renderer struct {
	b          strings.Builder
	unresolved map[*ast.Ident]bool
	recvObj    *ast.Object // receiver rendered as 我的
	indent     int
}

func (r *renderer) fail(what string) { panic(&Unsupported{what}) }

// Render converts .wa source text to .wz. `#wa:export name` directives in front of functions are
// carried over as `#凹:导出 name`; func main becomes 函数·主控, func init 函数·准备.
func Render(waSrc string) (wz string, err error) {
	fset := token.NewFileSet()
	f, perr := parser.ParseFile(nil, fset, "render.wa", []byte(waSrc), parser.ParseComments)
	if perr != nil {
		return "", fmt.Errorf("wzgen: the .wa text does not parse: %v", perr)
	}
	r := &renderer{unresolved: map[*ast.Ident]bool{}}
	for _, id := range f.Unresolved {
		r.unresolved[id] = true
	}
	defer func() {
		if e := recover(); e != nil {
			if u, ok := e.(*Unsupported); ok {
				wz, err = "", u
				return
			}
			panic(e)
		}
	}()
	for _, d := range f.Decls {
		r.decl(d)
	}
	return r.b.String(), nil
}

func (r *renderer) w(s string) { r.b.WriteString(s) }
func (r *renderer) nl()        { r.b.WriteString("\n" + strings.Repeat("\t", r.indent)) }
func (r *renderer) name(id *ast.Ident) string {
	if r.recvObj != nil && id.Obj == r.recvObj {
		return token.K_我的
	}
	if r.unresolved[id] {
		if zh, ok := Universe[id.Name]; ok {
			return zh
		}
	}
	return id.Name
}

func exportDirective(doc *ast.CommentGroup) string {
	if doc == nil {
		return ""
	}
	for _, c := range doc.List {
		t := strings.TrimSpace(c.Text)
		if strings.HasPrefix(t, "#wa:export") {
			return token.K_X_wz_export + strings.TrimPrefix(t, "#wa:export")
		}
	}
	return ""
}

func (r *renderer) decl(d ast.Decl) {
	switch d := d.(type) {
	case *ast.GenDecl:
		if d.Lparen.IsValid() && (d.Tok == token.CONST || d.Tok == token.VAR || d.Tok == token.GLOBAL) {
			// grouped declaration: 常量: … 完毕 (implicit repetition and 嘀嗒 count per line)
			kw := token.K_全局
			if d.Tok == token.CONST {
				kw = token.K_常量
			}
			r.w(kw + ":")
			r.indent++
			for _, s := range d.Specs {
				r.nl()
				r.valueSpec(s.(*ast.ValueSpec))
			}
			r.indent--
			r.nl()
			r.w(token.K_完毕)
			r.nl()
			break
		}
		for _, s := range d.Specs {
			switch s := s.(type) {
			case *ast.ImportSpec:
				r.fail("import")
			case *ast.TypeSpec:
				r.typeSpec(s)
			case *ast.ValueSpec:
				kw := token.K_全局
				if d.Tok == token.CONST {
					kw = token.K_常量
				}
				r.w(kw + token.K_点)
				r.valueSpec(s)
				r.nl()
			}
		}
	case *ast.FuncDecl:
		r.funcDecl(d)
	default:
		r.fail(fmt.Sprintf("declaration %T", d))
	}
	r.nl()
}

func (r *renderer) typeSpec(s *ast.TypeSpec) {
	switch t := s.Type.(type) {
	case *ast.StructType:
		r.w(token.K_结构 + token.K_点 + s.Name.Name + ":")
		r.indent++
		for _, fld := range t.Fields.List {
			r.nl()
			if len(fld.Names) == 0 {
				r.typ(fld.Type)
				continue
			}
			for i, n := range fld.Names {
				if i > 0 {
					r.w(", ")
				}
				r.w(n.Name)
			}
			r.w(": ")
			r.typ(fld.Type)
		}
		r.indent--
		r.nl()
		r.w(token.K_完毕)
		r.nl()
	case *ast.InterfaceType:
		r.w(token.K_接口 + token.K_点 + s.Name.Name + ":")
		r.indent++
		for _, m := range t.Methods.List {
			r.nl()
			if len(m.Names) == 0 {
				r.typ(m.Type) // embedded interface
				continue
			}
			r.w(m.Names[0].Name)
			r.signature(m.Type.(*ast.FuncType))
		}
		r.indent--
		r.nl()
		r.w(token.K_完毕)
		r.nl()
	default:
		// 类型 T = U exists in .wz but declares an ALIAS, and .wa has no alias declaration: the two
		// `type` forms have no counterpart in the other syntax
		r.fail("type declaration of a non-struct, non-interface type")
	}
}

func (r *renderer) valueSpec(s *ast.ValueSpec) {
	for i, n := range s.Names {
		if i > 0 {
			r.w(", ")
		}
		r.w(n.Name)
	}
	if s.Type != nil {
		r.w(": ")
		r.typ(s.Type)
	}
	if len(s.Values) > 0 {
		r.w(" = ")
		r.exprList(s.Values)
	}
}

func (r *renderer) funcDecl(d *ast.FuncDecl) {
	if x := exportDirective(d.Doc); x != "" {
		r.w(x)
		r.nl()
	} else if d.Recv == nil && strings.HasPrefix(d.Name.Name, "Case") {
		if n, err := strconv.Atoi(d.Name.Name[4:]); err == nil {
			r.w(token.K_X_wz_export + " case_" + strconv.Itoa(n))
			r.nl()
		}
	}
	r.w(token.K_函数 + token.K_点)
	name := d.Name.Name
	if d.Recv == nil {
		switch name {
		case "main":
			name = token.K_主控
		case "init":
			name = token.K_准备
		}
	}
	saved := r.recvObj
	if d.Recv != nil {
		fld := d.Recv.List[0]
		star, isPtr := fld.Type.(*ast.StarExpr)
		if isPtr && len(fld.Names) == 1 {
			if tn, ok := star.X.(*ast.Ident); ok {
				// 函数·T·M with the receiver spelled 我的
				r.recvObj = fld.Names[0].Obj
				r.w(tn.Name + token.K_点)
			} else {
				r.params(d.Recv)
				r.w(" ")
			}
		} else {
			r.params(d.Recv)
			r.w(" ")
		}
	}
	r.w(name)
	r.signature(d.Type)
	if d.Body != nil {
		r.w(":")
		r.body(d.Body)
		r.nl()
		r.w(token.K_完毕)
	}
	r.recvObj = saved
	r.nl()
}

func (r *renderer) params(fl *ast.FieldList) {
	r.w("(")
	for i, fld := range fl.List {
		if i > 0 {
			r.w(", ")
		}
		for j, n := range fld.Names {
			if j > 0 {
				r.w(", ")
			}
			r.w(r.name(n))
		}
		if len(fld.Names) > 0 {
			r.w(": ")
		}
		r.typ(fld.Type)
	}
	r.w(")")
}

func (r *renderer) signature(ft *ast.FuncType) {
	r.params(ft.Params)
	if ft.Results != nil && len(ft.Results.List) > 0 {
		r.w(" => ")
		if len(ft.Results.List) == 1 && len(ft.Results.List[0].Names) == 0 {
			r.typ(ft.Results.List[0].Type)
		} else {
			r.params(ft.Results)
		}
	}
}

func (r *renderer) typ(x ast.Expr) {
	switch t := x.(type) {
	case *ast.Ident:
		r.w(r.name(t))
	case *ast.StarExpr:
		r.w("*")
		r.typ(t.X)
	case *ast.ArrayType:
		r.w("[")
		if t.Len != nil {
			if _, ok := t.Len.(*ast.Ellipsis); ok {
				r.w("...")
			} else {
				r.expr(t.Len)
			}
		}
		r.w("]")
		r.typ(t.Elt)
	case *ast.MapType:
		r.w(token.K_字典 + "[")
		r.typ(t.Key)
		r.w("]")
		r.typ(t.Value)
	case *ast.FuncType:
		r.w(token.K_函数)
		r.signature(t)
	case *ast.InterfaceType:
		if t.Methods == nil || len(t.Methods.List) == 0 {
			r.w(token.K_皮囊)
			return
		}
		r.fail("interface type literal")
	case *ast.StructType:
		r.fail("struct type literal")
	case *ast.Ellipsis:
		r.w("...")
		r.typ(t.Elt)
	case *ast.ParenExpr:
		r.w("(")
		r.typ(t.X)
		r.w(")")
	case *ast.SelectorExpr:
		r.fail("qualified type name (import)")
	default:
		r.fail(fmt.Sprintf("type %T", x))
	}
}

func (r *renderer) body(b *ast.BlockStmt) {
	r.indent++
	for _, s := range b.List {
		r.nl()
		r.stmt(s)
	}
	r.indent--
}

func (r *renderer) simple(s ast.Stmt) {
	switch s := s.(type) {
	case nil:
	case *ast.ExprStmt:
		r.expr(s.X)
	case *ast.IncDecStmt:
		r.expr(s.X)
		r.w(s.Tok.String())
	case *ast.AssignStmt:
		r.exprList(s.Lhs)
		r.w(" " + s.Tok.String() + " ")
		r.exprList(s.Rhs)
	default:
		r.fail(fmt.Sprintf("simple statement %T", s))
	}
}

func (r *renderer) stmt(s ast.Stmt) {
	switch s := s.(type) {
	case *ast.ExprStmt, *ast.IncDecStmt, *ast.AssignStmt:
		r.simple(s)
	case *ast.DeclStmt:
		gd := s.Decl.(*ast.GenDecl)
		kw := token.K_设定
		if gd.Tok == token.CONST {
			kw = token.K_常量
		}
		if gd.Tok == token.TYPE {
			r.fail("local type declaration")
		}
		if gd.Lparen.IsValid() {
			r.w(kw + ":")
			r.indent++
			for _, sp := range gd.Specs {
				r.nl()
				r.valueSpec(sp.(*ast.ValueSpec))
			}
			r.indent--
			r.nl()
			r.w(token.K_完毕)
			break
		}
		for i, sp := range gd.Specs {
			if i > 0 {
				r.nl()
			}
			vs, ok := sp.(*ast.ValueSpec)
			if !ok {
				r.fail("local type declaration")
			}
			r.w(kw + " ")
			r.valueSpec(vs)
		}
	case *ast.ReturnStmt:
		r.w(token.K_返回)
		if len(s.Results) > 0 {
			r.w(" ")
			r.exprList(s.Results)
		}
	case *ast.BranchStmt:
		if s.Label != nil {
			r.fail("label")
		}
		switch s.Tok {
		case token.BREAK:
			r.w(token.K_跳出)
		case token.CONTINUE:
			r.w(token.K_继续)
		default:
			r.fail("branch statement " + s.Tok.String())
		}
	case *ast.LabeledStmt:
		r.fail("label")
	case *ast.BlockStmt:
		r.w(token.K_区块 + ":")
		r.body(s)
		r.nl()
		r.w(token.K_完毕)
	case *ast.DeferStmt:
		r.w(token.K_押后 + " ")
		r.expr(s.Call)
	case *ast.IfStmt:
		r.ifStmt(s, token.K_如果)
	case *ast.ForStmt:
		r.w(token.K_循环)
		switch {
		case s.Init == nil && s.Post == nil && s.Cond == nil:
		case s.Init == nil && s.Post == nil:
			r.w(" ")
			r.expr(s.Cond)
		default:
			r.w(" ")
			r.simple(s.Init)
			r.w("; ")
			if s.Cond != nil {
				r.expr(s.Cond)
			}
			r.w("; ")
			r.simple(s.Post)
		}
		r.w(":")
		r.body(s.Body)
		r.nl()
		r.w(token.K_完毕)
	case *ast.RangeStmt:
		r.w(token.K_循环 + " ")
		if s.Key != nil {
			r.expr(s.Key)
			if s.Value != nil {
				r.w(", ")
				r.expr(s.Value)
			}
			r.w(" " + s.Tok.String() + " ")
		}
		r.w(token.K_迭代 + " ")
		r.expr(s.X)
		r.w(":")
		r.body(s.Body)
		r.nl()
		r.w(token.K_完毕)
	case *ast.SwitchStmt:
		r.w(token.K_找辙)
		if s.Init != nil {
			r.w(" ")
			r.simple(s.Init)
			r.w(";")
		}
		if s.Tag != nil {
			r.w(" ")
			r.expr(s.Tag)
		}
		r.w(":")
		r.caseClauses(s.Body, false)
		r.nl()
		r.w(token.K_完毕)
	case *ast.TypeSwitchStmt:
		r.w(token.K_找辙)
		if s.Init != nil {
			r.w(" ")
			r.simple(s.Init)
			r.w(";")
		}
		r.w(" ")
		r.simple(s.Assign)
		r.w(":")
		r.caseClauses(s.Body, true)
		r.nl()
		r.w(token.K_完毕)
	case *ast.EmptyStmt:
	default:
		r.fail(fmt.Sprintf("statement %T", s))
	}
}

func (r *renderer) caseClauses(b *ast.BlockStmt, types bool) {
	for _, c := range b.List {
		cc := c.(*ast.CaseClause)
		r.nl()
		if cc.List == nil {
			r.w(token.K_没辙 + ":")
		} else {
			r.w(token.K_有辙 + " ")
			for i, x := range cc.List {
				if i > 0 {
					r.w(", ")
				}
				if types {
					if id, ok := x.(*ast.Ident); ok && id.Name == "nil" && r.unresolved[id] {
						r.w(token.K_空)
						continue
					}
					r.typ(x)
				} else {
					r.expr(x)
				}
			}
			r.w(":")
		}
		r.indent++
		for _, s := range cc.Body {
			r.nl()
			r.stmt(s)
		}
		r.indent--
	}
}

func (r *renderer) ifStmt(s *ast.IfStmt, kw string) {
	r.w(kw + " ")
	if s.Init != nil {
		r.simple(s.Init)
		r.w("; ")
	}
	r.expr(s.Cond)
	r.w(":")
	r.body(s.Body)
	switch e := s.Else.(type) {
	case nil:
	case *ast.IfStmt:
		r.nl()
		r.ifStmt(e, token.K_或者)
		return
	case *ast.BlockStmt:
		r.nl()
		r.w(token.K_否则 + ":")
		r.body(e)
	default:
		r.fail(fmt.Sprintf("else %T", e))
	}
	r.nl()
	r.w(token.K_完毕)
}

func (r *renderer) exprList(xs []ast.Expr) {
	for i, x := range xs {
		if i > 0 {
			r.w(", ")
		}
		r.expr(x)
	}
}

func (r *renderer) expr(x ast.Expr) {
	switch e := x.(type) {
	case *ast.Ident:
		r.w(r.name(e))
	case *ast.BasicLit:
		r.w(e.Value)
	case *ast.ParenExpr:
		r.w("(")
		r.expr(e.X)
		r.w(")")
	case *ast.BinaryExpr:
		r.expr(e.X)
		r.w(" " + e.Op.String() + " ")
		r.expr(e.Y)
	case *ast.UnaryExpr:
		r.w(e.Op.String())
		if u, ok := e.X.(*ast.UnaryExpr); ok && u.Op == e.Op {
			r.w(" ") // - -x, & &x: keep the two operators apart
		}
		r.expr(e.X)
	case *ast.StarExpr:
		r.w("*")
		r.expr(e.X)
	case *ast.SelectorExpr:
		r.expr(e.X)
		r.w(token.K_点 + e.Sel.Name)
	case *ast.IndexExpr:
		r.expr(e.X)
		r.w("[")
		r.expr(e.Index)
		r.w("]")
	case *ast.SliceExpr:
		r.expr(e.X)
		r.w("[")
		if e.Low != nil {
			r.expr(e.Low)
		}
		r.w(":")
		if e.High != nil {
			r.expr(e.High)
		}
		if e.Slice3 {
			r.w(":")
			r.expr(e.Max)
		}
		r.w("]")
	case *ast.CallExpr:
		switch e.Fun.(type) {
		case *ast.ArrayType, *ast.MapType, *ast.FuncType, *ast.InterfaceType, *ast.StarExpr:
			if _, isStar := e.Fun.(*ast.StarExpr); isStar {
				r.expr(e.Fun)
			} else {
				r.typ(e.Fun) // conversion to an unnamed type
			}
		default:
			r.expr(e.Fun)
		}
		r.w("(")
		for i, a := range e.Args {
			if i > 0 {
				r.w(", ")
			}
			r.exprOrType(a)
		}
		if e.Ellipsis.IsValid() {
			r.w("...")
		}
		r.w(")")
	case *ast.TypeAssertExpr:
		r.expr(e.X)
		r.w(token.K_点 + "(")
		if e.Type == nil {
			r.w(token.K_类型)
		} else {
			r.typ(e.Type)
		}
		r.w(")")
	case *ast.CompositeLit:
		if e.Type != nil {
			r.typ(e.Type)
		}
		r.w("{")
		for i, el := range e.Elts {
			if i > 0 {
				r.w(", ")
			}
			if kv, ok := el.(*ast.KeyValueExpr); ok {
				// a struct field name is an identifier that stays as it is; map/array keys are expressions
				if id, ok := kv.Key.(*ast.Ident); ok && id.Obj == nil && (id.Name == "true" || id.Name == "false" || id.Name == "nil") {
					r.w(Universe[id.Name]) // the parser does not list a literal key among the unresolved identifiers
				} else {
					r.expr(kv.Key)
				}
				r.w(": ")
				r.expr(kv.Value)
			} else {
				r.expr(el)
			}
		}
		r.w("}")
	case *ast.KeyValueExpr:
		r.expr(e.Key)
		r.w(": ")
		r.expr(e.Value)
	case *ast.FuncLit:
		r.w(token.K_函数)
		r.signature(e.Type)
		r.w(":")
		r.body(e.Body)
		r.nl()
		r.w(token.K_完毕)
	case *ast.ArrayType, *ast.MapType, *ast.FuncType, *ast.InterfaceType, *ast.StructType:
		r.typ(x)
	default:
		r.fail(fmt.Sprintf("expression %T", x))
	}
}

func (r *renderer) exprOrType(x ast.Expr) {
	switch x.(type) {
	case *ast.ArrayType, *ast.MapType, *ast.FuncType, *ast.InterfaceType, *ast.StructType:
		r.typ(x)
	default:
		r.expr(x)
	}
}

// ToEnglish translates the Chinese predeclared names inside a type string back to English so that
// type strings of the two front ends can be compared. Only valid for programs whose own
// identifiers are ASCII.
func ToEnglish(s string) string {
	// longest names first (整型 is a suffix of 普整型 ...)
	for _, p := range englishPairs {
		s = strings.ReplaceAll(s, p[0], p[1])
	}
	return s
}

var englishPairs = func() [][2]string {
	canon := map[string]string{}
	for en, zh := range Universe {
		switch en {
		case "i8", "i16", "i32", "i64", "u8", "u16", "u32", "u64", "f32", "f64", "__wa_i8", "__wa_i16":
			continue
		}
		canon[zh] = en
	}
	canon[token.K_我的] = "this"
	canon[token.K_主控] = "main"
	canon[token.K_准备] = "init"
	var out [][2]string
	for zh, en := range canon {
		out = append(out, [2]string{zh, en})
	}
	// sort by decreasing length of the Chinese name, then by name
	for i := 1; i < len(out); i++ {
		for j := i; j > 0 && (len(out[j][0]) > len(out[j-1][0]) || (len(out[j][0]) == len(out[j-1][0]) && out[j][0] < out[j-1][0])); j-- {
			out[j], out[j-1] = out[j-1], out[j]
		}
	}
	return out
}()
