//go:build go1.21

// Package hrun runs "explorer" programs: one Go-syntax source (WaGo subset) whose CaseN functions
// enumerate a range of inputs themselves and print rolling hashes (or verbose lines). The same
// source is run by Go (wrun.GoRef, cached) and by the real Wa pipeline in mc.Pool workers, with a
// per-case horizon kept by the worker itself, so that one case that never returns costs one
// horizon and does not lose the results of the other cases of its program.
package hrun

import (
	"crypto/sha1"
	"encoding/hex"
	"encoding/json"
	"fmt"
	"os"
	"runtime/debug"
	"strconv"
	"strings"
	"sync"
	"sync/atomic"
	"syscall"
	"time"

	"wa-lang.org/wa/internal/zzverif/mc"
	"wa-lang.org/wa/internal/zzverif/wrun"
)

// Job is the Wa side of one program.
type Job struct {
	ID   string
	Src  string
	N    int
	Only []int  // when set: run only these cases (the others stay "skipped")
	Warm string // exported no-op function called (untimed) on a fresh instance, so that the
	// per-case horizon measures the case and not the instantiation of the module
	Expect    []string // when set: stop after the first case whose outcome is not "ok" with this output
	HorizonMs int64    // per case
}

// JobResult: Res[i].Status is "ok", "trap", "hang" or "skipped" (not run: after a hang, or after
// the first deviating case of a job with Expect).
type JobResult struct {
	Res   []wrun.CaseResult
	Ms    []int64 // wall time per case
	CpuMs int64   // CPU time (user+system) the worker process spent on this job, compile included
	Err   string  // go2wa / compile error
	WaSrc string
}

var (
	cachedKey  string
	cachedProg *wrun.WaProg
	instFresh  bool // the next call on cachedProg instantiates the module
	limitOnce  sync.Once
)

// limitMemory caps the private writable memory of a worker (RLIMIT_DATA counts heap and anonymous
// mappings that are actually writable, not address-space reservations): a generated program that
// allocates without end (a corrupted container that keeps appending) must end as a crashed
// worker, not as an exhausted machine.
func limitMemory() {
	lim := uint64(10) << 30
	if s := os.Getenv("HRUN_DATA_LIMIT_GB"); s != "" {
		if v, err := strconv.Atoi(s); err == nil && v > 0 {
			lim = uint64(v) << 30
		}
	}
	_ = syscall.Setrlimit(syscall.RLIMIT_DATA, &syscall.Rlimit{Cur: lim, Max: lim})
}

func cpuMs() int64 {
	var ru syscall.Rusage
	if syscall.Getrusage(syscall.RUSAGE_SELF, &ru) != nil {
		return 0
	}
	return (ru.Utime.Sec+ru.Stime.Sec)*1000 + int64(ru.Utime.Usec+ru.Stime.Usec)/1000
}

// HandleJob is the worker entry point (mc.WorkerMain(hrun.HandleJob)).
func HandleJob(raw json.RawMessage) interface{} {
	res := handleJob(raw)
	return res
}

func handleJob(raw json.RawMessage) (out JobResult) {
	limitOnce.Do(limitMemory)
	cpu0 := cpuMs()
	var j Job
	if err := json.Unmarshal(raw, &j); err != nil {
		return JobResult{Err: err.Error()}
	}
	sum := sha1.Sum([]byte(j.Src))
	key := hex.EncodeToString(sum[:])
	if cachedKey != key {
		if cachedProg != nil {
			cachedProg.Close()
		}
		cachedKey, cachedProg = "", nil
		wa, err := wrun.Go2Wa(j.Src)
		if err != nil {
			return JobResult{Err: err.Error()}
		}
		p, err := wrun.CompileWa("batch.wa", wa)
		if err != nil {
			return JobResult{Err: err.Error(), WaSrc: wa}
		}
		cachedKey, cachedProg = key, p
		instFresh = true
	}
	p := cachedProg
	out = JobResult{Res: make([]wrun.CaseResult, j.N), Ms: make([]int64, j.N)}
	defer func() { out.CpuMs = cpuMs() - cpu0 }()
	for i := range out.Res {
		out.Res[i].Status = "skipped"
	}
	only := map[int]bool{}
	for _, i := range j.Only {
		only[i] = true
	}
	for i := 0; i < j.N; i++ {
		if j.Only != nil && !only[i] {
			continue
		}
		fmt.Fprintf(os.Stderr, "HRUNPROGRESS %s case %d\n", j.ID, i)
		if j.Warm != "" && instFresh {
			if w := p.Call(j.Warm); w.Status != "ok" {
				out.Err = "instantiating the module / calling the no-op case fails: " + w.Status + " " + w.Err
				return out
			}
			instFresh = false
		}
		t0 := time.Now()
		done := make(chan wrun.CaseResult, 1)
		// A call that spins inside compiled wasm code is not preemptible, so a garbage collection
		// started while it spins would stop this process for good: no collections during a call.
		gcp := debug.SetGCPercent(-1)
		go func(p *wrun.WaProg) { done <- p.Call("case_" + strconv.Itoa(i)) }(p)
		select {
		case r := <-done:
			debug.SetGCPercent(gcp)
			out.Res[i] = r
			if r.Status != "ok" {
				instFresh = true // wrun closes the instance after a trap
			}
			out.Ms[i] = time.Since(t0).Milliseconds()
		case <-time.After(time.Duration(j.HorizonMs) * time.Millisecond):
			// The call keeps spinning and cannot be stopped: answer (the remaining cases stay
			// "skipped" and are re-queued by the caller) and retire this process. A job already
			// handed to it comes back as "crash" and is re-queued as well.
			out.Res[i] = wrun.CaseResult{Status: "hang", Err: fmt.Sprintf("no return within %d ms", j.HorizonMs)}
			out.Ms[i] = time.Since(t0).Milliseconds()
			go func() { time.Sleep(500 * time.Millisecond); os.Exit(3) }()
			return out
		}
		if j.Expect != nil && (out.Res[i].Status != "ok" || out.Res[i].Out != j.Expect[i]) {
			break
		}
	}
	return out
}

// Program is one source with N case functions and its outcome on both sides.
type Program struct {
	Src     string
	N       int           // number of CaseN functions in Src
	Warm    bool          // the last case is a no-op used to instantiate the module outside the horizon
	Horizon time.Duration // per case; classifies hangs only
	Tag     interface{}

	GoRes []wrun.CaseResult
	GoErr error
	Wa    JobResult
	WaCpu int64  // ms of worker CPU over all jobs of this program
	WaErr string // go2wa/compile error, or the worker crashed / exceeded the safety net 4 times
}

var (
	seqMu sync.Mutex
	seq   int64
	// TotalWaCpuMs is the worker CPU time of all jobs run so far (for cost reporting).
	TotalWaCpuMs atomic.Int64
)

// Run executes every program on Go and on Wa. stopFirst: the Wa side of a program stops at its
// first case that deviates from the Go output (the later cases stay "skipped"). Otherwise every
// case gets a verdict: the cases behind one that did not return are handed to a fresh worker.
// obeyDeadline: once r's deadline has passed no further jobs are started (their cases stay
// "skipped"; the caller records the cap).
func Run(r *mc.Run, pool *mc.Pool, ps []*Program, stopFirst, obeyDeadline bool) {
	goDone := make(chan struct{})
	goRun := func() {
		mc.ParallelFor(len(ps), func(i int) {
			ps[i].GoRes, ps[i].GoErr = wrun.GoRef(ps[i].Src, ps[i].N)
		})
		close(goDone)
	}
	if stopFirst {
		goRun() // the expectation is part of the job
	} else {
		go goRun()
	}
	var safety time.Duration
	for _, p := range ps {
		safety = max(safety, time.Duration(p.N)*p.Horizon)
	}
	safety += 10 * time.Minute
	type item struct {
		p         int
		only      []int
		tries     int
		lastCrash int
	}
	var todo []item
	for i, p := range ps {
		p.Wa = JobResult{Res: make([]wrun.CaseResult, p.N), Ms: make([]int64, p.N)}
		for k := range p.Wa.Res {
			p.Wa.Res[k].Status = "skipped"
		}
		p.WaErr = ""
		if p.Warm {
			p.Wa.Res[p.N-1].Status = "ok"
		}
		todo = append(todo, item{p: i, lastCrash: -1})
	}
	for len(todo) > 0 {
		if obeyDeadline && r.Expired() {
			break
		}
		var again []item
		var mu sync.Mutex
		jobIDs := make([]string, len(todo))
		err := pool.Run(len(todo), func(k int) interface{} {
			it := todo[k]
			p := ps[it.p]
			seqMu.Lock()
			seq++
			id := fmt.Sprintf("j%d", seq)
			seqMu.Unlock()
			jobIDs[k] = id
			j := Job{ID: id, Src: p.Src, N: p.N, Only: it.only, HorizonMs: p.Horizon.Milliseconds()}
			if p.Warm {
				j.Warm = "case_" + strconv.Itoa(p.N-1)
				if j.Only == nil {
					for k := 0; k < p.N-1; k++ {
						j.Only = append(j.Only, k)
					}
				}
			}
			if stopFirst && p.GoErr == nil {
				for _, g := range p.GoRes {
					j.Expect = append(j.Expect, g.Out)
				}
			}
			return j
		}, safety, func(res mc.Result) {
			it := todo[res.Index]
			p := ps[it.p]
			if res.Status != "ok" {
				// The worker died or exceeded the safety net. If it died while running a case of this
				// job (progress line on its stderr) twice in a row at the same case, that case's
				// verdict is "crash" and the remaining cases go to a fresh worker. Otherwise (e.g. the
				// worker was retiring after a hang in its previous job) the job is simply retried.
				at := -1
				marker := "HRUNPROGRESS " + jobIDs[res.Index] + " case "
				if i := strings.LastIndex(res.Stderr, marker); i >= 0 {
					rest := res.Stderr[i+len(marker):]
					if nl := strings.IndexByte(rest, '\n'); nl >= 0 {
						rest = rest[:nl]
					}
					if v, err := strconv.Atoi(strings.TrimSpace(rest)); err == nil {
						at = v
					}
				}
				if at >= 0 && at == it.lastCrash {
					p.Wa.Res[at] = wrun.CaseResult{Status: "crash", Err: "worker " + res.Status + ": " + firstLine(tail(res.Stderr[strings.LastIndex(res.Stderr, marker):], 600))}
					var rest []int
					for k := 0; k < p.N; k++ {
						if p.Wa.Res[k].Status == "skipped" && (it.only == nil || contains(it.only, k)) && k != at {
							rest = append(rest, k)
						}
					}
					if len(rest) > 0 && !stopFirst {
						mu.Lock()
						again = append(again, item{p: it.p, only: rest, lastCrash: -1})
						mu.Unlock()
					}
					return
				}
				// a job that never started (the pool handed it to a worker that had already retired)
				// is cheap to retry; one that died in mid-flight twice at different cases is not
				limit := 6
				if at < 0 {
					limit = 100
				}
				if it.tries < limit {
					it.tries++
					it.lastCrash = at
					mu.Lock()
					again = append(again, it)
					mu.Unlock()
				} else {
					p.WaErr = "worker " + res.Status + ": " + tail(res.Stderr, 800)
				}
				return
			}
			var jr JobResult
			if err := json.Unmarshal(res.Out, &jr); err != nil {
				p.WaErr = "bad worker output: " + err.Error()
				return
			}
			p.WaCpu += jr.CpuMs
			TotalWaCpuMs.Add(jr.CpuMs)
			if jr.Err != "" {
				p.WaErr = jr.Err
				p.Wa.WaSrc = jr.WaSrc
				return
			}
			var rest []int
			hung := false
			for k := range jr.Res {
				if (it.only != nil && !contains(it.only, k)) || (p.Warm && k == p.N-1) {
					continue
				}
				p.Wa.Res[k] = jr.Res[k]
				p.Wa.Ms[k] = jr.Ms[k]
				if jr.Res[k].Status == "hang" {
					hung = true
				} else if jr.Res[k].Status == "skipped" {
					rest = append(rest, k)
				}
			}
			if hung && !stopFirst && len(rest) > 0 {
				mu.Lock()
				again = append(again, item{p: it.p, only: rest, lastCrash: -1})
				mu.Unlock()
			}
		})
		if err != nil {
			r.HarnessError("pool: %v", err)
		}
		todo = again
	}
	<-goDone
}

func contains(xs []int, x int) bool {
	for _, v := range xs {
		if v == x {
			return true
		}
	}
	return false
}

func firstLine(s string) string {
	ls := strings.SplitN(s, "\n", 4)
	if len(ls) > 3 {
		ls = ls[:3]
	}
	return strings.Join(ls, " / ")
}

func tail(s string, n int) string {
	if len(s) > n {
		return s[len(s)-n:]
	}
	return s
}
