//go:build go1.21

// Package hrun runs "explorer" programs: one Go-syntax source (WaGo subset) whose CaseN functions
// enumerate a range of inputs themselves and print rolling hashes (or verbose lines). The same
// source is run by Go (wrun.GoRef, cached) and by the real Wa pipeline in mc.Pool workers, with a
// per-case horizon kept by the worker itself, so that one case that never returns costs one
// horizon and does not lose the results of the other cases of its program.
package hrun

import (
	"crypto/sha1"
	"encoding/hex"
	"encoding/json"
	"fmt"
	"os"
	"runtime/debug"
	"strconv"
	"sync"
	"time"

	"wa-lang.org/wa/internal/zzverif/mc"
	"wa-lang.org/wa/internal/zzverif/wrun"
)

// Job is the Wa side of one program.
type Job struct {
	ID        string
	Src       string
	N         int
	Expect    []string // when set: stop after the first case whose outcome is not "ok" with this output
	HorizonMs int64    // per case
}

// JobResult: Res[i].Status is "ok", "trap", "hang" or "skipped" (not run: after a hang, or after
// the first deviating case of a job with Expect).
type JobResult struct {
	Res   []wrun.CaseResult
	Ms    []int64 // wall time per case
	Err   string  // go2wa / compile error
	WaSrc string
}

var (
	cachedKey  string
	cachedProg *wrun.WaProg
)

// HandleJob is the worker entry point (mc.WorkerMain(hrun.HandleJob)).
func HandleJob(raw json.RawMessage) interface{} {
	var j Job
	if err := json.Unmarshal(raw, &j); err != nil {
		return JobResult{Err: err.Error()}
	}
	sum := sha1.Sum([]byte(j.Src))
	key := hex.EncodeToString(sum[:])
	if cachedKey != key {
		if cachedProg != nil {
			cachedProg.Close()
		}
		cachedKey, cachedProg = "", nil
		wa, err := wrun.Go2Wa(j.Src)
		if err != nil {
			return JobResult{Err: err.Error()}
		}
		p, err := wrun.CompileWa("batch.wa", wa)
		if err != nil {
			return JobResult{Err: err.Error(), WaSrc: wa}
		}
		cachedKey, cachedProg = key, p
	}
	p := cachedProg
	out := JobResult{Res: make([]wrun.CaseResult, j.N), Ms: make([]int64, j.N)}
	for i := range out.Res {
		out.Res[i].Status = "skipped"
	}
	for i := 0; i < j.N; i++ {
		fmt.Fprintf(os.Stderr, "HRUNPROGRESS %s case %d\n", j.ID, i)
		t0 := time.Now()
		done := make(chan wrun.CaseResult, 1)
		// A call that spins inside compiled wasm code is not preemptible, so a garbage collection
		// started while it spins would stop this process for good: no collections during a call.
		gcp := debug.SetGCPercent(-1)
		go func(p *wrun.WaProg) { done <- p.Call("case_" + strconv.Itoa(i)) }(p)
		select {
		case r := <-done:
			debug.SetGCPercent(gcp)
			out.Res[i] = r
			out.Ms[i] = time.Since(t0).Milliseconds()
		case <-time.After(time.Duration(j.HorizonMs) * time.Millisecond):
			// The call keeps spinning and cannot be stopped: answer (the remaining cases stay
			// "skipped" and are re-queued by the caller) and retire this process. A job already
			// handed to it comes back as "crash" and is re-queued as well.
			out.Res[i] = wrun.CaseResult{Status: "hang", Err: fmt.Sprintf("no return within %d ms", j.HorizonMs)}
			out.Ms[i] = time.Since(t0).Milliseconds()
			go func() { time.Sleep(500 * time.Millisecond); os.Exit(3) }()
			return out
		}
		if j.Expect != nil && (out.Res[i].Status != "ok" || out.Res[i].Out != j.Expect[i]) {
			break
		}
	}
	return out
}

// Program is one source with N case functions and its outcome on both sides.
type Program struct {
	Src     string
	N       int
	Horizon time.Duration // per case; classifies hangs only
	Tag     interface{}

	GoRes []wrun.CaseResult
	GoErr error
	Wa    JobResult
	WaErr string // go2wa/compile error, or the worker crashed / exceeded the safety net 4 times
}

var (
	seqMu sync.Mutex
	seq   int64
)

// Run executes every program on Go and on Wa. stopFirst: the Wa side of a program stops at its
// first case that deviates from the Go output (the later cases stay "skipped").
func Run(r *mc.Run, pool *mc.Pool, ps []*Program, stopFirst bool) {
	goDone := make(chan struct{})
	goRun := func() {
		mc.ParallelFor(len(ps), func(i int) {
			ps[i].GoRes, ps[i].GoErr = wrun.GoRef(ps[i].Src, ps[i].N)
		})
		close(goDone)
	}
	if stopFirst {
		goRun() // the expectation is part of the job
	} else {
		go goRun()
	}
	var safety time.Duration
	for _, p := range ps {
		safety = max(safety, time.Duration(p.N)*p.Horizon)
	}
	safety += 10 * time.Minute
	todo := make([]int, len(ps))
	for i := range todo {
		todo[i] = i
	}
	for attempt := 0; len(todo) > 0 && attempt < 4; attempt++ {
		var again []int
		var mu sync.Mutex
		err := pool.Run(len(todo), func(k int) interface{} {
			p := ps[todo[k]]
			seqMu.Lock()
			seq++
			id := fmt.Sprintf("j%d", seq)
			seqMu.Unlock()
			j := Job{ID: id, Src: p.Src, N: p.N, HorizonMs: p.Horizon.Milliseconds()}
			if stopFirst && p.GoErr == nil {
				for _, g := range p.GoRes {
					j.Expect = append(j.Expect, g.Out)
				}
			}
			return j
		}, safety, func(res mc.Result) {
			p := ps[todo[res.Index]]
			if res.Status != "ok" {
				mu.Lock()
				again = append(again, todo[res.Index])
				mu.Unlock()
				p.WaErr = "worker " + res.Status + ": " + tail(res.Stderr, 800)
				return
			}
			p.WaErr = ""
			p.Wa = JobResult{}
			if err := json.Unmarshal(res.Out, &p.Wa); err != nil {
				p.WaErr = "bad worker output: " + err.Error()
			} else if p.Wa.Err != "" {
				p.WaErr = p.Wa.Err
			}
		})
		if err != nil {
			r.HarnessError("pool: %v", err)
		}
		todo = again
	}
	<-goDone
}

func tail(s string, n int) string {
	if len(s) > n {
		return s[len(s)-n:]
	}
	return s
}
