//go:build go1.21

package watexec

import (
	"fmt"

	"wa-lang.org/wa/internal/zzverif/watgen"
)

// Trampoline builds (with watgen's independent encoder) a module that imports every exported
// function of u from module "m" and re-exports it under the same name with every float parameter
// and result replaced by the integer of the same width (reinterpret inside WebAssembly). The V8
// client calls through it so that NaN payloads never pass through a JavaScript number.
func Trampoline(u *Unit) ([]byte, error) {
	m := &watgen.Module{}
	for _, name := range u.FuncList {
		m.Imports = append(m.Imports, watgen.Import{Module: "m", Name: name, Kind: watgen.KindFunc, Id: "imp." + name, Sig: u.Funcs[name].Sig})
	}
	asInt := func(t watgen.ValType) watgen.ValType {
		switch t {
		case watgen.F32:
			return watgen.I32
		case watgen.F64:
			return watgen.I64
		}
		return t
	}
	for k, name := range u.FuncList {
		sig := u.Funcs[name].Sig
		var ts watgen.FuncType
		var body []watgen.Instr
		for i, t := range sig.Params {
			ts.Params = append(ts.Params, asInt(t))
			body = append(body, lget(uint32(i)))
			switch t {
			case watgen.F32:
				body = append(body, ins("f32.reinterpret_i32"))
			case watgen.F64:
				body = append(body, ins("f64.reinterpret_i64"))
			}
		}
		body = append(body, watgen.InsIdx(watgen.OpCall, uint32(k)))
		var locals []watgen.Local
		np := uint32(len(sig.Params))
		for _, t := range sig.Results {
			ts.Results = append(ts.Results, asInt(t))
			locals = append(locals, watgen.Local{Type: t})
		}
		for i := len(sig.Results) - 1; i >= 0; i-- {
			body = append(body, lset(np+uint32(i)))
		}
		for i, t := range sig.Results {
			body = append(body, lget(np+uint32(i)))
			switch t {
			case watgen.F32:
				body = append(body, ins("i32.reinterpret_f32"))
			case watgen.F64:
				body = append(body, ins("i64.reinterpret_f64"))
			}
		}
		m.Funcs = append(m.Funcs, watgen.Func{Id: "t." + name, Sig: ts, Locals: locals, Body: body})
		m.Exports = append(m.Exports, watgen.Export{Name: name, Kind: watgen.KindFunc, Idx: uint32(len(u.FuncList) + k)})
	}
	b, err := watgen.Lower(m, nil)
	if err != nil {
		return nil, fmt.Errorf("trampoline of %s: %v", u.Name, err)
	}
	return b.Encode()
}
