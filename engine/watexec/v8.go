//go:build go1.21

package watexec

import (
	"bufio"
	"crypto/sha256"
	"encoding/base64"
	"encoding/hex"
	"encoding/json"
	"fmt"
	"io"
	"os"
	"os/exec"
	"path/filepath"
	"strconv"
	"sync"

	"wa-lang.org/wa/internal/zzverif/watgen"
)

// V8 is a long-lived `node js/exec.js` process (the independent engine). One request per unit.
// Safe for concurrent use (requests are serialised); start several for parallelism.
type V8 struct {
	mu     sync.Mutex
	cmd    *exec.Cmd
	in     io.WriteCloser
	out    *bufio.Reader
	next   int
	script string
}

// StartV8 launches node on <verifDir>/js/exec.js.
func StartV8(verifDir string) (*V8, error) {
	script := filepath.Join(verifDir, "js", "exec.js")
	if _, err := os.Stat(script); err != nil {
		return nil, fmt.Errorf("v8: %v", err)
	}
	cmd := exec.Command("node", script)
	in, err := cmd.StdinPipe()
	if err != nil {
		return nil, err
	}
	outp, err := cmd.StdoutPipe()
	if err != nil {
		return nil, err
	}
	cmd.Stderr = os.Stderr
	if err := cmd.Start(); err != nil {
		return nil, fmt.Errorf("v8: cannot start node: %v", err)
	}
	return &V8{cmd: cmd, in: in, out: bufio.NewReaderSize(outp, 1<<20), script: script}, nil
}

func (v *V8) Close() {
	v.mu.Lock()
	defer v.mu.Unlock()
	if v.cmd != nil {
		v.in.Close()
		v.cmd.Wait()
		v.cmd = nil
	}
}

func typeLetters(ts []watgen.ValType, asInt bool) string {
	b := make([]byte, len(ts))
	for i, t := range ts {
		switch t {
		case watgen.I32:
			b[i] = 'i'
		case watgen.I64:
			b[i] = 'I'
		case watgen.F32:
			b[i] = 'f'
			if asInt {
				b[i] = 'i'
			}
		case watgen.F64:
			b[i] = 'F'
			if asInt {
				b[i] = 'I'
			}
		}
	}
	return string(b)
}

type v8Sig struct {
	P string `json:"p"`
	R string `json:"r"`
}
type v8Import struct {
	Module string `json:"module"`
	Name   string `json:"name"`
	P      string `json:"p"`
	R      string `json:"r"`
}
type v8Call struct {
	F     string   `json:"f"`
	A     []string `json:"a"`
	Fresh bool     `json:"fresh,omitempty"`
	Reset bool     `json:"reset,omitempty"`
}
type v8Req struct {
	ID      int              `json:"id"`
	Wasm    string           `json:"wasm"`
	Tramp   string           `json:"tramp"`
	Mem     bool             `json:"mem"`
	Sigs    map[string]v8Sig `json:"sigs"`
	Imports []v8Import       `json:"imports"`
	Calls   []v8Call         `json:"calls"`
}
type v8Out struct {
	T string   `json:"t"`
	E string   `json:"e"`
	R []string `json:"r"`
	M string   `json:"m"`
	H string   `json:"h"`
}

// Run executes every call of u (assembled as wasm) on V8. An error means the module could not be
// run at all (V8 refuses it, the server failed): the caller decides what that means.
func (v *V8) Run(u *Unit, wasm []byte) ([]Outcome, error) {
	tramp, err := Trampoline(u)
	if err != nil {
		return nil, err
	}
	req := v8Req{Wasm: base64.StdEncoding.EncodeToString(wasm), Tramp: base64.StdEncoding.EncodeToString(tramp), Mem: u.HasMem, Sigs: map[string]v8Sig{}}
	for name, fi := range u.Funcs {
		req.Sigs[name] = v8Sig{typeLetters(fi.Sig.Params, true), typeLetters(fi.Sig.Results, true)}
	}
	for _, im := range u.Imports {
		req.Imports = append(req.Imports, v8Import{im.Module, im.Name, typeLetters(im.Sig.Params, false), typeLetters(im.Sig.Results, false)})
	}
	req.Calls = make([]v8Call, len(u.Calls))
	for i := range u.Calls {
		c := &u.Calls[i]
		a := make([]string, len(c.Args))
		for k, x := range c.Args {
			a[k] = strconv.FormatUint(x, 10)
		}
		req.Calls[i] = v8Call{F: c.Fn, A: a, Fresh: c.Fresh, Reset: c.Reset}
	}
	v.mu.Lock()
	defer v.mu.Unlock()
	if v.cmd == nil {
		return nil, fmt.Errorf("v8: closed")
	}
	v.next++
	req.ID = v.next
	data, err := json.Marshal(req)
	if err != nil {
		return nil, err
	}
	if _, err := v.in.Write(append(data, '\n')); err != nil {
		return nil, fmt.Errorf("v8: write: %v", err)
	}
	line, err := v.out.ReadBytes('\n')
	if err != nil {
		return nil, fmt.Errorf("v8: read: %v", err)
	}
	var resp struct {
		ID    int     `json:"id"`
		Error string  `json:"error"`
		Out   []v8Out `json:"out"`
	}
	if err := json.Unmarshal(line, &resp); err != nil {
		return nil, fmt.Errorf("v8: bad response: %v", err)
	}
	if resp.Error != "" {
		return nil, fmt.Errorf("v8: %s", resp.Error)
	}
	if resp.ID != req.ID || len(resp.Out) != len(u.Calls) {
		return nil, fmt.Errorf("v8: response %d with %d outcomes for request %d with %d calls", resp.ID, len(resp.Out), req.ID, len(u.Calls))
	}
	out := make([]Outcome, len(resp.Out))
	for i, o := range resp.Out {
		out[i] = Outcome{Trap: o.T, Msg: o.E, Mem: o.M, Trace: o.H}
		for _, s := range o.R {
			x, err := strconv.ParseUint(s, 10, 64)
			if err != nil {
				return nil, fmt.Errorf("v8: bad result %q", s)
			}
			out[i].Res = append(out[i].Res, x)
		}
	}
	return out, nil
}

// V8Cached runs u on V8, memoising the outcomes under <verifDir>/cache/v8exec keyed by the
// module bytes, the call list and the server script: the reference side does not depend on /repo
// beyond the bytes it is given.
func (v *V8) RunCached(verifDir string, u *Unit, wasm []byte) ([]Outcome, error) {
	h := sha256.New()
	script, _ := os.ReadFile(v.script)
	h.Write(script)
	h.Write([]byte{0})
	h.Write(wasm)
	h.Write([]byte{0})
	cj, _ := json.Marshal(u.Calls)
	h.Write(cj)
	ij, _ := json.Marshal(u.Imports)
	h.Write(ij)
	key := hex.EncodeToString(h.Sum(nil)[:16])
	dir := filepath.Join(verifDir, "cache", "v8exec")
	file := filepath.Join(dir, key+".json")
	if data, err := os.ReadFile(file); err == nil {
		var out []Outcome
		if json.Unmarshal(data, &out) == nil && len(out) == len(u.Calls) {
			return out, nil
		}
	}
	out, err := v.Run(u, wasm)
	if err != nil {
		return nil, err
	}
	if data, err := json.Marshal(out); err == nil {
		os.MkdirAll(dir, 0o755)
		tmp := file + fmt.Sprintf(".%d.tmp", os.Getpid())
		if os.WriteFile(tmp, data, 0o644) == nil {
			os.Rename(tmp, file)
		}
	}
	return out, nil
}
