//go:build go1.21

package watexec

import (
	"context"
	"fmt"
	"strings"

	"wa-lang.org/wa/internal/3rdparty/wazero"
	"wa-lang.org/wa/internal/3rdparty/wazero/api"
	"wa-lang.org/wa/internal/zzverif/watgen"
)

// Engine configurations of the embedded runtime.
const (
	WzCompiler    = "wazero-compiler" // wazero.NewRuntimeConfigCompiler: what internal/wazero uses on amd64
	WzInterpreter = "wazero-interpreter"
)

// ClassifyWazero maps an error returned by api.Function.Call to a trap class.
func ClassifyWazero(msg string) string {
	msg = firstLine(msg)
	switch {
	case strings.Contains(msg, "integer divide by zero"):
		return TrapDivZero
	case strings.Contains(msg, "integer overflow"):
		return TrapOverflow
	case strings.Contains(msg, "invalid conversion to integer"):
		return TrapConv
	case strings.Contains(msg, "out of bounds memory access"):
		return TrapOOB
	case strings.Contains(msg, "unreachable"):
		return TrapUnreach
	case strings.Contains(msg, "invalid table access"), strings.Contains(msg, "indirect call type mismatch"):
		return TrapIndirect
	case strings.Contains(msg, "stack overflow"):
		return TrapStack
	}
	return TrapOther
}

func firstLine(s string) string {
	if i := strings.IndexByte(s, '\n'); i >= 0 {
		s = s[:i]
	}
	if len(s) > 160 {
		s = s[:160]
	}
	return s
}

func apiType(t watgen.ValType) api.ValueType {
	switch t {
	case watgen.I32:
		return api.ValueTypeI32
	case watgen.I64:
		return api.ValueTypeI64
	case watgen.F32:
		return api.ValueTypeF32
	}
	return api.ValueTypeF64
}

// RunWazero executes every call of u on the vendored wazero in the given configuration and
// returns one outcome per call. It must run in a worker subprocess: the compiler configuration
// executes generated machine code.
func RunWazero(u *Unit, wasm []byte, config string) (out []Outcome, err error) {
	ctx := context.Background()
	var cfg wazero.RuntimeConfig
	if config == WzInterpreter {
		cfg = wazero.NewRuntimeConfigInterpreter()
	} else {
		cfg = wazero.NewRuntimeConfigCompiler()
	}
	rt := wazero.NewRuntimeWithConfig(ctx, cfg)
	defer rt.Close(ctx)

	var trace []string
	nHost := 0
	byMod := map[string][]int{}
	var modOrder []string
	for i := range u.Imports {
		m := u.Imports[i].Module
		if _, ok := byMod[m]; !ok {
			modOrder = append(modOrder, m)
		}
		byMod[m] = append(byMod[m], i)
	}
	for _, mn := range modOrder {
		b := rt.NewHostModuleBuilder(mn)
		for _, i := range byMod[mn] {
			i := i
			im := &u.Imports[i]
			var pt, rtps []api.ValueType
			for _, t := range im.Sig.Params {
				pt = append(pt, apiType(t))
			}
			for _, t := range im.Sig.Results {
				rtps = append(rtps, apiType(t))
			}
			np := len(im.Sig.Params)
			b = b.NewFunctionBuilder().WithGoFunction(api.GoFunc(func(ctx context.Context, stack []uint64) {
				e := TraceEntry(im, stack[:np])
				for k, t := range im.Sig.Results {
					stack[k] = HostReturn(t, i, nHost)
					e += fmt.Sprintf("=%d", stack[k])
				}
				nHost++
				if len(trace) < 64 {
					trace = append(trace, e)
				}
			}), pt, rtps).Export(im.Name)
		}
		if _, err := b.Instantiate(ctx, rt); err != nil {
			return nil, fmt.Errorf("host module %s: %v", mn, err)
		}
	}

	compiled, err := rt.CompileModule(ctx, wasm)
	if err != nil {
		return nil, fmt.Errorf("compile: %s", firstLine(err.Error()))
	}
	var mod api.Module
	var instErr error
	nInst := 0
	out = make([]Outcome, len(u.Calls))
	for ci := range u.Calls {
		c := &u.Calls[ci]
		o := &out[ci]
		if c.Fresh || mod == nil {
			if mod != nil {
				mod.Close(ctx)
			}
			nInst++
			nHost = 0
			trace = trace[:0]
			mod, instErr = rt.InstantiateModule(ctx, compiled, wazero.NewModuleConfig().WithStartFunctions().WithName(fmt.Sprintf("u%d", nInst)))
			if instErr != nil {
				mod = nil
			}
		}
		if mod == nil {
			o.Trap, o.Msg = TrapInstFault, firstLine(instErr.Error())
			continue
		}
		var mem api.Memory
		if u.HasMem {
			mem = mod.ExportedMemory("memory")
		}
		if c.Reset && mem != nil {
			if buf, ok := mem.Read(ctx, 0, mem.Size(ctx)); ok {
				FillPattern(buf)
			}
		}
		fn := mod.ExportedFunction(c.Fn)
		if fn == nil {
			o.Trap = TrapNoExport
			continue
		}
		trace = trace[:0]
		res, err := fn.Call(ctx, c.Args...)
		if err != nil {
			o.Trap, o.Msg = ClassifyWazero(err.Error()), firstLine(err.Error())
		} else {
			o.Res = append([]uint64(nil), res...)
		}
		if mem != nil {
			if buf, ok := mem.Read(ctx, 0, mem.Size(ctx)); ok {
				o.Mem = MemHash(buf)
			}
		}
		o.Trace = strings.Join(trace, ";")
	}
	if mod != nil {
		mod.Close(ctx)
	}
	return out, nil
}
