//go:build go1.21

// Package watexec is the executable WebAssembly module space shared by C31 (embedded engine vs
// V8) and C03 (wat2c C code vs both engines): for every instruction / construct of the subset a
// module with exported functions that take their operands as parameters, together with the
// complete list of calls (operand products over the DESIGN §1 alphabets) to make on it. The WAT
// text is produced by watgen.Render; assembling (the real watutil.Wat2Wasm) and executing is done
// by the engine adapters (wz.go: vendored wazero in both configurations; package v8x: node; the
// C driver of C03).
package watexec

import (
	"fmt"
	"math"
)

// Val is one operand value: raw bits (i32 / f32 in the low 32 bits, zero extended), a symbolic
// name for reports and the operand class that goes into violation keys.
type Val struct {
	Bits  uint64
	Name  string
	Class string
}

// IntAlpha is the integer alphabet of DESIGN §1 for width w (32 or 64):
// {0,1,2,3,7,-1,-2,-7,MIN,MIN+1,MAX,MAX-1,2^(w-1) (= the bits of MIN),2^(w/2),0x55…,0xAA…}.
func IntAlpha(w int) []Val {
	mask := uint64(math.MaxUint64)
	if w == 32 {
		mask = 0xffffffff
	}
	min := uint64(1) << (w - 1)
	max := min - 1
	var p55, pAA uint64
	for i := 0; i < w; i += 2 {
		p55 |= 1 << i
		pAA |= 1 << (i + 1)
	}
	neg := func(k uint64) uint64 { return (^k + 1) & mask }
	return []Val{
		{0, "0", "zero"}, {1, "1", "pos"}, {2, "2", "pos"}, {3, "3", "pos"}, {7, "7", "pos"},
		{neg(1), "-1", "neg"}, {neg(2), "-2", "neg"}, {neg(7), "-7", "neg"},
		{min, "MIN", "min"}, {min + 1, "MIN+1", "min"}, {max, "MAX", "max"}, {max - 1, "MAX-1", "max"},
		{uint64(1) << (w / 2), fmt.Sprintf("2^%d", w/2), "big"}, {p55, "0x55..", "big"}, {pAA, "0xAA..", "nbig"},
	}
}

// ShiftAlpha is the shift / rotate count alphabet {0,1,w-1,w,w+1,2w-1,2w,255} followed by the
// integer alphabet; the class says how the count relates to the width.
func ShiftAlpha(w int) []Val {
	var out []Val
	seen := map[uint64]bool{}
	cls := func(v uint64) string {
		switch {
		case v < uint64(w):
			return "count<w"
		case v == uint64(w):
			return "count=w"
		}
		return "count>w"
	}
	for _, c := range []int{0, 1, w - 1, w, w + 1, 2*w - 1, 2 * w, 255} {
		if !seen[uint64(c)] {
			seen[uint64(c)] = true
			out = append(out, Val{uint64(c), fmt.Sprint(c), cls(uint64(c))})
		}
	}
	for _, v := range IntAlpha(w) {
		if !seen[v.Bits] {
			seen[v.Bits] = true
			out = append(out, Val{v.Bits, v.Name, cls(v.Bits)})
		}
	}
	return out
}

func f32v(f float32) uint64 { return uint64(math.Float32bits(f)) }
func f64v(f float64) uint64 { return math.Float64bits(f) }

// NaN bit patterns: canonical, negative quiet with a payload, positive signalling with a payload.
var (
	NaN32 = []uint64{0x7fc00000, 0xffc12345, 0x7f812345}
	NaN64 = []uint64{0x7ff8000000000000, 0xfff8000000012345, 0x7ff0000000012345}
)

// IsNaN reports whether bits (of width w) is a NaN, and whether it is quiet.
func IsNaN(bits uint64, w int) (nan, quiet bool) {
	if w == 32 {
		b := uint32(bits)
		return b&0x7f800000 == 0x7f800000 && b&0x007fffff != 0, b&0x00400000 != 0
	}
	return bits&0x7ff0000000000000 == 0x7ff0000000000000 && bits&0x000fffffffffffff != 0, bits&0x0008000000000000 != 0
}

func floatClass(v float64, sub bool) string {
	s := ""
	if math.Signbit(v) {
		s = "-"
	}
	a := math.Abs(v)
	switch {
	case math.IsNaN(v):
		return "nan"
	case math.IsInf(v, 0):
		return s + "inf"
	case a == 0:
		return s + "zero"
	case sub:
		return s + "subnormal"
	case a >= 2147483648:
		return s + "big"
	case a == 0.5 || a == 1.5 || a == 2.5:
		return s + "half"
	}
	return s + "small"
}

func fname(v float64) string {
	switch {
	case math.IsInf(v, 1):
		return "+inf"
	case math.IsInf(v, -1):
		return "-inf"
	case v == 0 && math.Signbit(v):
		return "-0"
	}
	return fmt.Sprintf("%g", v)
}

// FloatAlpha is the float alphabet of DESIGN §1 for width w (32 or 64): {±0, ±0.5, ±1, ±1.5,
// ±2.5, 0.1, 1e10, 2^24+1, ±2^31, ±(2^31±1), 2^32, ±2^63, 2^64, ±MaxFloat, ±SmallestNonzero,
// ±Inf, NaN (canonical and two payloads)}. Where a listed value is not representable in f32
// (2^24+1, 2^31±1) the representable neighbour of the power of two is taken instead.
func FloatAlpha(w int) []Val {
	var out []Val
	seen := map[uint64]bool{}
	add := func(v float64) {
		var bits uint64
		sub := false
		if w == 32 {
			f := float32(v)
			bits = f32v(f)
			v = float64(f)
			sub = v != 0 && math.Abs(v) < 0x1p-126
		} else {
			bits = f64v(v)
			sub = v != 0 && math.Abs(v) < 0x1p-1022
		}
		if seen[bits] {
			return
		}
		seen[bits] = true
		out = append(out, Val{bits, fname(v), floatClass(v, sub)})
	}
	for _, v := range []float64{0, math.Copysign(0, -1), 0.5, -0.5, 1, -1, 1.5, -1.5, 2.5, -2.5, 0.1, 1e10} {
		add(v)
	}
	if w == 32 {
		add(16777216) // 2^24 (2^24+1 rounds to it)
		add(16777218)
		p, n := float64(math.Nextafter32(0x1p31, 0)), float64(math.Nextafter32(0x1p31, float32(math.Inf(1))))
		for _, v := range []float64{0x1p31, -0x1p31, p, n, -p, -n} {
			add(v)
		}
	} else {
		add(16777217)
		for _, v := range []float64{0x1p31, -0x1p31, 2147483647, 2147483649, -2147483647, -2147483649} {
			add(v)
		}
	}
	for _, v := range []float64{0x1p32, 0x1p63, -0x1p63, 0x1p64} {
		add(v)
	}
	if w == 32 {
		add(math.MaxFloat32)
		add(-math.MaxFloat32)
		add(math.SmallestNonzeroFloat32)
		add(-math.SmallestNonzeroFloat32)
	} else {
		add(math.MaxFloat64)
		add(-math.MaxFloat64)
		add(math.SmallestNonzeroFloat64)
		add(-math.SmallestNonzeroFloat64)
	}
	add(math.Inf(1))
	add(math.Inf(-1))
	nans := NaN64
	if w == 32 {
		nans = NaN32
	}
	for i, b := range nans {
		out = append(out, Val{b, []string{"nan", "-nan:payload", "snan:payload"}[i], "nan"})
	}
	return out
}

// FloatAlphaExt is FloatAlpha plus the representable neighbours of every float->integer
// truncation boundary (2^31, 2^32, 2^63, 2^64, -1 and their negatives; for f64 also the
// half-way fractions next to the 32-bit boundaries). Used for unary instructions and
// conversions, where the product stays small.
func FloatAlphaExt(w int) []Val {
	out := FloatAlpha(w)
	seen := map[uint64]bool{}
	for _, v := range out {
		seen[v.Bits] = true
	}
	add := func(v float64, cls string) {
		var bits uint64
		if w == 32 {
			f := float32(v)
			bits, v = f32v(f), float64(f)
		} else {
			bits = f64v(v)
		}
		if seen[bits] {
			return
		}
		seen[bits] = true
		out = append(out, Val{bits, fname(v), cls})
	}
	for _, b := range []float64{0x1p31, -0x1p31, 0x1p32, 0x1p63, -0x1p63, 0x1p64, -1, 1} {
		name := map[float64]string{0x1p31: "2^31", -0x1p31: "-2^31", 0x1p32: "2^32", 0x1p63: "2^63", -0x1p63: "-2^63", 0x1p64: "2^64", -1: "-1", 1: "1"}[b]
		if w == 32 {
			add(float64(math.Nextafter32(float32(b), float32(math.Inf(1)))), "above("+name+")")
			add(float64(math.Nextafter32(float32(b), float32(math.Inf(-1)))), "below("+name+")")
		} else {
			add(math.Nextafter(b, math.Inf(1)), "above("+name+")")
			add(math.Nextafter(b, math.Inf(-1)), "below("+name+")")
		}
	}
	if w == 64 {
		for _, v := range []float64{2147483647.5, 2147483648.5, -2147483648.5, -2147483649.5, 4294967295.5, 4294967296.5} {
			add(v, "frac("+fname(v)+")")
		}
	}
	for _, v := range []float64{-0.9, 3.5, -3.5, 4.5, 8388608.5} {
		add(v, floatClass(v, false))
	}
	return out
}
