//go:build go1.21

package watexec

import (
	"encoding/json"
	"fmt"

	"wa-lang.org/wa/internal/zzverif/watgen"
	"wa-lang.org/wa/internal/zzverif/wrun"
)

// Prog is a Wa program of the corpus: real compiler output driven through its exported
// functions, with recording stubs for every import.
type Prog struct {
	Name  string
	Src   string
	Calls []ProgCall
}

// ProgCall: Args are signed integers for i32/i64 parameters and float64 values for f32/f64.
type ProgCall struct {
	Fn   string
	Args []float64
	Ints []int64 // used instead of Args when set (exact 64-bit integers)
}

const progArith = `
#wa:export add_mul
func AddMul(a, b: i32) => i32 {
	return a*b + a
}

#wa:export idiv
func IDiv(a, b: i32) => i32 {
	return a / b
}

#wa:export imod64
func IMod64(a, b: i64) => i64 {
	return a % b
}

#wa:export udiv
func UDiv(a, b: u32) => u32 {
	return a / b
}

#wa:export fdiv
func FDiv(a, b: f64) => f64 {
	return a / b
}

#wa:export fmul32
func FMul32(a, b: f32) => f32 {
	return a * b
}

#wa:export f2i
func F2I(a: f64) => i32 {
	return i32(a)
}

#wa:export i2f
func I2F(a: i64) => f32 {
	return f32(a)
}

#wa:export shifts
func Shifts(a: i32, n: i32) => i32 {
	return (a << u32(n)) ^ (a >> u32(n))
}

#wa:export fib
func Fib(n: i32) => i32 {
	if n < 2 {
		return n
	}
	return Fib(n-1) + Fib(n-2)
}

#wa:export collatz
func Collatz(n: i64) => i32 {
	steps := i32(0)
	for n != 1 {
		if n%2 == 0 {
			n = n / 2
		} else {
			n = 3*n + 1
		}
		steps++
	}
	return steps
}

func main {
	println(Fib(10))
}
`

const progHeap = `
#wa:export sum_squares
func SumSquares(n: i32) => i32 {
	s := make([]i32, 0)
	for i := i32(0); i < n; i++ {
		s = append(s, i*i)
	}
	t := i32(0)
	for _, v := range s {
		t += v
	}
	return t
}

#wa:export str_build
func StrBuild(n: i32) => i32 {
	s := ""
	for i := i32(0); i < n; i++ {
		s += "ab"
	}
	println(s)
	return i32(len(s))
}

#wa:export map_ops
func MapOps(n: i32) => i32 {
	m := make(map[i32]i32)
	for i := i32(0); i < n; i++ {
		m[i%7] += i
	}
	return m[3] + i32(len(m))
}

#wa:export index
func Index(i: i32) => i32 {
	a := []i32{10, 20, 30}
	return a[i]
}

#wa:export print_mix
func PrintMix(a: i32, b: f64, c: i64) {
	println(a, b, c, a > 3)
}

func main {
	println("heap")
}
`

const progIface = `
type Shape interface {
	Area() => f64
}

type Rect struct {
	w, h: f64
}

type Circle struct {
	r: f64
}

func Rect.Area() => f64 {
	return this.w * this.h
}

func Circle.Area() => f64 {
	return 3.14159 * this.r * this.r
}

global counter: i32 = 5

#wa:export area
func Area(kind: i32, a, b: f64) => f64 {
	var s: Shape
	if kind == 0 {
		s = &Rect{a, b}
	} else {
		s = &Circle{a}
	}
	return s.Area()
}

#wa:export closure
func Closure(n: i32) => i32 {
	acc := i32(0)
	add := func(k: i32) {
		acc += k
	}
	for i := i32(0); i < n; i++ {
		add(i)
	}
	return acc
}

#wa:export bump
func Bump(d: i32) => i32 {
	counter += d
	return counter
}

#wa:export deferred
func Deferred(x: i32) => (r: i32) {
	defer func() {
		r = r * 2
	}()
	r = x + 1
	return
}

func main {
	println("iface")
}
`

// Corpus returns the fixed corpus.
func Corpus(thorough bool) []Prog {
	i := func(v ...int64) []int64 { return v }
	f := func(v ...float64) []float64 { return v }
	return []Prog{
		{"arith.wa", progArith, []ProgCall{
			{Fn: "add_mul", Ints: i(3, 4)}, {Fn: "add_mul", Ints: i(-2147483648, -1)}, {Fn: "add_mul", Ints: i(65536, 65536)},
			{Fn: "idiv", Ints: i(7, 2)}, {Fn: "idiv", Ints: i(-7, 2)}, {Fn: "idiv", Ints: i(1, 0)}, {Fn: "idiv", Ints: i(-2147483648, -1)}, {Fn: "idiv", Ints: i(5, 1)},
			{Fn: "imod64", Ints: i(-7, 3)}, {Fn: "imod64", Ints: i(-9223372036854775808, -1)}, {Fn: "imod64", Ints: i(1, 0)},
			{Fn: "udiv", Ints: i(-1, 3)}, {Fn: "udiv", Ints: i(7, 0)},
			{Fn: "fdiv", Args: f(1, 3)}, {Fn: "fdiv", Args: f(1, 0)}, {Fn: "fdiv", Args: f(0, 0)}, {Fn: "fdiv", Args: f(-1e308, 1e-308)},
			{Fn: "fmul32", Args: f(1.5, 2.25)}, {Fn: "fmul32", Args: f(3e38, 10)}, {Fn: "fmul32", Args: f(1e-30, 1e-30)},
			{Fn: "f2i", Args: f(3.99)}, {Fn: "f2i", Args: f(-3.99)}, {Fn: "f2i", Args: f(3e9)}, {Fn: "f2i", Args: f(-3e9)}, {Fn: "f2i", Args: f(2147483647.5)},
			{Fn: "i2f", Ints: i(16777217)}, {Fn: "i2f", Ints: i(-9223372036854775808)}, {Fn: "i2f", Ints: i(9223372036854775807)},
			{Fn: "shifts", Ints: i(1, 31)}, {Fn: "shifts", Ints: i(1, 32)}, {Fn: "shifts", Ints: i(-8, 33)}, {Fn: "shifts", Ints: i(-8, 1)},
			{Fn: "fib", Ints: i(15)}, {Fn: "collatz", Ints: i(27)}, {Fn: "collatz", Ints: i(97)},
		}},
		{"heap.wa", progHeap, []ProgCall{
			{Fn: "sum_squares", Ints: i(0)}, {Fn: "sum_squares", Ints: i(10)}, {Fn: "sum_squares", Ints: i(1000)},
			{Fn: "str_build", Ints: i(0)}, {Fn: "str_build", Ints: i(3)}, {Fn: "str_build", Ints: i(200)},
			{Fn: "map_ops", Ints: i(0)}, {Fn: "map_ops", Ints: i(50)}, {Fn: "map_ops", Ints: i(500)},
			{Fn: "index", Ints: i(0)}, {Fn: "index", Ints: i(2)}, {Fn: "index", Ints: i(3)}, {Fn: "index", Ints: i(-1)}, {Fn: "index", Ints: i(1)},
			{Fn: "print_mix", Args: f(5, 2.5, -7)}, {Fn: "print_mix", Args: f(-1, 1e300, 1e15)},
			{Fn: "sum_squares", Ints: i(100)},
		}},
		{"iface.wa", progIface, []ProgCall{
			{Fn: "area", Args: f(0, 2, 3.5)}, {Fn: "area", Args: f(1, 2, 0)}, {Fn: "area", Args: f(1, 1e200, 0)},
			{Fn: "closure", Ints: i(0)}, {Fn: "closure", Ints: i(10)}, {Fn: "closure", Ints: i(1000)},
			{Fn: "bump", Ints: i(1)}, {Fn: "bump", Ints: i(-10)}, {Fn: "bump", Ints: i(2147483647)},
			{Fn: "deferred", Ints: i(20)}, {Fn: "deferred", Ints: i(-1)},
		}},
	}
}

// CorpusJob asks a worker to compile corpus program Index (the compiler may os.Exit).
type CorpusJob struct {
	Kind     string // "corpus"
	Index    int
	Thorough bool
}

// CorpusResult carries the unit made from the compiler's output.
type CorpusResult struct {
	Err  string
	Unit *Unit
}

// HandleCorpusJob compiles the program with the real pipeline (api.BuildFile) and builds the
// unit: signatures of exports and imports are read from the emitted WAT with watgen's
// independent reader.
func HandleCorpusJob(raw json.RawMessage) interface{} {
	var j CorpusJob
	if err := json.Unmarshal(raw, &j); err != nil {
		return CorpusResult{Err: "bad job: " + err.Error()}
	}
	ps := Corpus(j.Thorough)
	if j.Index < 0 || j.Index >= len(ps) {
		return CorpusResult{Err: "bad corpus index"}
	}
	p := ps[j.Index]
	wp, err := wrun.CompileWa(p.Name, p.Src)
	if err != nil {
		return CorpusResult{Err: err.Error()}
	}
	u, err := UnitFromWat("corpus", p.Name, string(wp.Wat), p.Calls)
	if err != nil {
		return CorpusResult{Err: err.Error()}
	}
	return CorpusResult{Unit: u}
}

// UnitFromWat builds a unit around existing WAT text (compiler output).
func UnitFromWat(family, name, text string, calls []ProgCall) (*Unit, error) {
	m, err := watgen.ReadWat(text)
	if err != nil {
		return nil, fmt.Errorf("independent reader rejects compiler output: %v", err)
	}
	u := &Unit{Name: family + "/" + name, Family: family, Text: text, Funcs: map[string]FuncInfo{}}
	for i := range m.Imports {
		im := &m.Imports[i]
		switch im.Kind {
		case watgen.KindFunc:
			u.Imports = append(u.Imports, ImportInfo{im.Module, im.Name, im.Sig})
		default:
			return nil, fmt.Errorf("import %s.%s of kind %s is not supported by the stubs", im.Module, im.Name, watgen.KindName(im.Kind))
		}
	}
	for _, e := range m.Exports {
		switch e.Kind {
		case watgen.KindFunc:
			sig, ok := m.FuncSig(e.Idx)
			if !ok {
				return nil, fmt.Errorf("export %q: bad function index", e.Name)
			}
			u.Funcs[e.Name] = FuncInfo{Sig: sig, ArithNaN: true}
			u.FuncList = append(u.FuncList, e.Name)
		case watgen.KindMemory:
			if e.Name == "memory" {
				u.HasMem = true
			}
		}
	}
	if m.Memory != nil {
		u.MemMin, u.MemMax = m.Memory.Lim.Min, m.Memory.Lim.Max
		if !m.Memory.Lim.HasMax {
			u.MemMax = u.MemMin
		}
	}
	if _, ok := u.Funcs["_start"]; ok {
		u.Calls = append(u.Calls, Call{Fn: "_start", Instr: name + ":_start", Class: "init", Fresh: true})
	}
	for _, pc := range calls {
		fi, ok := u.Funcs[pc.Fn]
		if !ok {
			return nil, fmt.Errorf("the compiler output has no export %q (exports: %v)", pc.Fn, u.FuncList)
		}
		c := Call{Fn: pc.Fn, Instr: name + ":" + pc.Fn}
		n := len(pc.Args)
		if pc.Ints != nil {
			n = len(pc.Ints)
		}
		if n != len(fi.Sig.Params) {
			return nil, fmt.Errorf("export %q takes %d parameters, the corpus passes %d", pc.Fn, len(fi.Sig.Params), n)
		}
		for k, t := range fi.Sig.Params {
			var fv float64
			var iv int64
			if pc.Ints != nil {
				iv, fv = pc.Ints[k], float64(pc.Ints[k])
			} else {
				fv, iv = pc.Args[k], int64(pc.Args[k])
			}
			switch t {
			case watgen.I32:
				c.Args = append(c.Args, uint64(uint32(int32(iv))))
			case watgen.I64:
				c.Args = append(c.Args, uint64(iv))
			case watgen.F32:
				c.Args = append(c.Args, f32v(float32(fv)))
			case watgen.F64:
				c.Args = append(c.Args, f64v(fv))
			}
		}
		if pc.Ints != nil {
			c.Class = fmt.Sprint(pc.Ints)
		} else {
			c.Class = fmt.Sprint(pc.Args)
		}
		c.Desc = c.Class
		u.Calls = append(u.Calls, c)
	}
	if len(u.Calls) > 0 {
		u.Calls[0].Fresh = true
	}
	return u, nil
}
