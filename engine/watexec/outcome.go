//go:build go1.21

package watexec

import (
	"encoding/binary"
	"fmt"
	"strconv"
	"strings"

	"wa-lang.org/wa/internal/zzverif/watgen"
)

// Trap classes shared by every engine adapter.
const (
	TrapDivZero = "integer-divide-by-zero"
	// Signed division overflow, truncation of an out-of-range float and truncation of a NaN are ONE
	// class: V8 words the last two identically ("float unrepresentable in integer range"), wazero
	// words the first two identically ("integer overflow", as the specification's test suite does).
	TrapOverflow  = "integer-result-unrepresentable"
	TrapConv      = TrapOverflow
	TrapOOB       = "out-of-bounds-memory-access"
	TrapUnreach   = "unreachable"
	TrapIndirect  = "indirect-call(null/type-mismatch/out-of-range)"
	TrapStack     = "stack-exhaustion"
	TrapOther     = "other"
	TrapNoExport  = "export-missing"
	TrapInstFault = "instantiation-failed"
)

// Outcome is what one call produced on one engine.
type Outcome struct {
	Trap  string   `json:"t,omitempty"` // "" = returned normally, else a trap class
	Msg   string   `json:"e,omitempty"` // the engine's own words for the trap
	Res   []uint64 `json:"r,omitempty"` // raw result bits
	Mem   string   `json:"m,omitempty"` // "<pages>:<hash>" of the linear memory after the call ("" = unit without memory)
	Trace string   `json:"h,omitempty"` // host calls made during the call: name(arg bits,...)=ret;...
}

// MemHash hashes a whole linear memory (length a multiple of 4): two independent 32-bit
// multiplicative chains over the little-endian words. The same function is written in js/exec.js
// and c/driver.c.
func MemHash(mem []byte) string {
	h1, h2 := uint32(0x811c9dc5), uint32(0x9e3779b9)
	for i := 0; i+4 <= len(mem); i += 4 {
		w := binary.LittleEndian.Uint32(mem[i:])
		h1 = (h1 ^ w) * 16777619
		h2 = (h2 + w) * 0x85ebca6b
		h2 ^= h2 >> 13
	}
	return fmt.Sprintf("%d:%08x%08x", len(mem)/PageSize, h1, h2)
}

// FillPattern writes Pattern over mem.
func FillPattern(mem []byte) {
	for i := range mem {
		mem[i] = Pattern(uint32(i))
	}
}

// HostReturn is the value a recording import stub returns: 100*(import index+1) + (number of
// host calls made on this instance so far mod 50), as an integer of the result type or as the
// float with that value. The same rule is written in js/exec.js and c/driver.c.
func HostReturn(t watgen.ValType, importIdx int, nCalls int) uint64 {
	v := uint64(100*(importIdx+1) + nCalls%50)
	switch t {
	case watgen.F32:
		return f32v(float32(v))
	case watgen.F64:
		return f64v(float64(v))
	}
	return v
}

// TraceEntry renders one host call for Outcome.Trace. Float NaN arguments are written as "nan"
// (their payload does not survive the JS API).
func TraceEntry(im *ImportInfo, args []uint64) string {
	var sb strings.Builder
	sb.WriteString(im.Module + "." + im.Name + "(")
	for k, t := range im.Sig.Params {
		if k > 0 {
			sb.WriteByte(',')
		}
		a := args[k]
		if width(t) == 32 {
			a &= 0xffffffff
		}
		if isFloat(t) {
			if nan, _ := IsNaN(a, width(t)); nan {
				sb.WriteString("nan")
				continue
			}
		}
		sb.WriteString(strconv.FormatUint(a, 10))
	}
	sb.WriteString(")")
	return sb.String()
}

// Canon renders an outcome as the string two engines must agree on for call c of unit u:
// trap class, or result bits (a quiet NaN produced by an arithmetic instruction is written
// "nan"), then memory hash and host-call trace.
func (u *Unit) Canon(c *Call, o *Outcome) string {
	var sb strings.Builder
	if o.Trap != "" {
		sb.WriteString("trap:" + o.Trap)
	} else {
		fi := u.Funcs[c.Fn]
		sb.WriteString("ok")
		for k, r := range o.Res {
			sb.WriteByte(' ')
			if k < len(fi.Sig.Results) {
				t := fi.Sig.Results[k]
				if width(t) == 32 {
					r &= 0xffffffff
				}
				if isFloat(t) && fi.ArithNaN {
					if nan, quiet := IsNaN(r, width(t)); nan && quiet {
						sb.WriteString("nan")
						continue
					}
				}
			}
			sb.WriteString(strconv.FormatUint(r, 16))
		}
		if len(o.Res) != len(fi.Sig.Results) {
			fmt.Fprintf(&sb, " (%d results for %d)", len(o.Res), len(fi.Sig.Results))
		}
	}
	if o.Mem != "" {
		sb.WriteString(" mem=" + o.Mem)
	}
	if o.Trace != "" {
		sb.WriteString(" host=" + o.Trace)
	}
	return sb.String()
}

// ValueString renders the results of an outcome for reports.
func (u *Unit) ValueString(c *Call, o *Outcome) string {
	if o.Trap != "" {
		if o.Msg != "" {
			return "trap:" + o.Trap + " (" + o.Msg + ")"
		}
		return "trap:" + o.Trap
	}
	var p []string
	for _, r := range o.Res {
		p = append(p, "0x"+strconv.FormatUint(r, 16))
	}
	return "[" + strings.Join(p, " ") + "]"
}

// ArgString renders the arguments of a call.
func (c *Call) ArgString() string {
	var p []string
	for _, a := range c.Args {
		p = append(p, "0x"+strconv.FormatUint(a, 16))
	}
	return c.Fn + "(" + strings.Join(p, ", ") + ")"
}

// Diff classifies how outcome b differs from the reference a ("" = agree): one of
// "trap-vs-value", "value-vs-trap", "trap-class", "result", "memory", "host-trace".
func (u *Unit) Diff(c *Call, a, b *Outcome) string {
	if u.Canon(c, a) == u.Canon(c, b) {
		return ""
	}
	switch {
	case a.Trap != "" && b.Trap == "":
		return "value-where-reference-traps"
	case a.Trap == "" && b.Trap != "":
		return "trap-where-reference-returns"
	case a.Trap != b.Trap:
		return "trap-class"
	}
	x, y := *a, *b
	x.Mem, y.Mem, x.Trace, y.Trace = "", "", "", ""
	if u.Canon(c, &x) != u.Canon(c, &y) {
		return "result"
	}
	if a.Mem != b.Mem {
		return "memory"
	}
	return "host-trace"
}
