//go:build go1.21

package watexec

import (
	"fmt"
	"strings"

	"wa-lang.org/wa/internal/zzverif/watgen"
)

// Call is one call of an exported function.
type Call struct {
	Fn    string   // export name
	Args  []uint64 // raw bit patterns
	Instr string   // instruction / construct the call exercises (first part of violation keys)
	Class string   // operand class (second part of violation keys)
	Desc  string   // operand names, for reports
	Fresh bool     // a fresh instance is made before this call
	Reset bool     // linear memory is refilled with the pattern (Pattern) before this call
}

// FuncInfo describes an exported function of a unit.
type FuncInfo struct {
	Sig      watgen.FuncType
	ArithNaN bool // float results are produced by an arithmetic instruction: NaN payload and sign are nondeterministic (quiet NaN compares as "a NaN")
}

// ImportInfo is a function import of a unit (served by a recording stub on every engine).
type ImportInfo struct {
	Module, Name string
	Sig          watgen.FuncType
}

// Unit is one module with the calls to make on it.
type Unit struct {
	Name     string // family/name
	Family   string
	Module   *watgen.Module `json:"-"` // nil for compiler output
	Text     string         // WAT handed to the real assembler
	Funcs    map[string]FuncInfo
	FuncList []string // export names in module order
	Imports  []ImportInfo
	HasMem   bool   // memory exported as "memory": hashed after every call
	MemMin   uint32 // declared pages (wat2c host side needs them)
	MemMax   uint32
	Part     string // partition label given by Options.CtrlPartition
	Calls    []Call
}

// Options selects bounds.
type Options struct {
	CtrlDepth     int
	CtrlGroup     int                            // ctrl cases merged per module
	CtrlPartition func(c watgen.CtrlCase) string // cases with different labels are never merged ("" default)
	RecDepths     []uint32                       // recursion depths
	Thorough      bool
}

// Style is the rendering every unit uses: what the Wa compiler emits (named identifiers, inline
// exports).
var Style = watgen.Style{InlineExport: true, NamedLocals: true}

const (
	i32 = watgen.I32
	i64 = watgen.I64
	f32 = watgen.F32
	f64 = watgen.F64
)

func width(t watgen.ValType) int {
	if t == i32 || t == f32 {
		return 32
	}
	return 64
}

func isFloat(t watgen.ValType) bool { return t == f32 || t == f64 }

func ft(params []watgen.ValType, results ...watgen.ValType) watgen.FuncType {
	return watgen.FuncType{Params: params, Results: results}
}

func pv(ts ...watgen.ValType) []watgen.ValType { return ts }

// newUnit makes an empty unit.
func newUnit(family, name string) *Unit {
	return &Unit{Name: family + "/" + name, Family: family, Module: &watgen.Module{Name: family}, Funcs: map[string]FuncInfo{}}
}

// addFunc adds an exported function; the identifier equals the export name (wat2c derives the C
// name from the identifier and aliases the export name to it).
func (u *Unit) addFunc(name string, sig watgen.FuncType, locals []watgen.Local, body []watgen.Instr, arith bool) uint32 {
	idx := uint32(u.Module.NumImported(watgen.KindFunc) + len(u.Module.Funcs))
	ids := make([]string, len(sig.Params))
	for i := range ids {
		ids[i] = fmt.Sprintf("p%d", i)
	}
	u.Module.Funcs = append(u.Module.Funcs, watgen.Func{Id: name, Sig: sig, ParamIds: ids, Locals: locals, Body: body})
	u.Module.Exports = append(u.Module.Exports, watgen.Export{Name: name, Kind: watgen.KindFunc, Idx: idx})
	u.Funcs[name] = FuncInfo{Sig: sig, ArithNaN: arith}
	u.FuncList = append(u.FuncList, name)
	return idx
}

// addHidden adds a function that is not exported.
func (u *Unit) addHidden(name string, sig watgen.FuncType, locals []watgen.Local, body []watgen.Instr) uint32 {
	idx := uint32(u.Module.NumImported(watgen.KindFunc) + len(u.Module.Funcs))
	ids := make([]string, len(sig.Params))
	for i := range ids {
		ids[i] = fmt.Sprintf("p%d", i)
	}
	u.Module.Funcs = append(u.Module.Funcs, watgen.Func{Id: name, Sig: sig, ParamIds: ids, Locals: locals, Body: body})
	return idx
}

func (u *Unit) addMemory(min, max uint32) {
	u.Module.Memory = &watgen.Memory{Id: "memory", Lim: watgen.Limits{Min: min, HasMax: max > 0, Max: max}}
	u.Module.Exports = append(u.Module.Exports, watgen.Export{Name: "memory", Kind: watgen.KindMemory, Idx: 0})
	u.HasMem, u.MemMin, u.MemMax = true, min, max
	if max == 0 {
		u.MemMax = min
	}
}

func (u *Unit) render() error {
	rd, err := watgen.Render(u.Module, Style)
	if err != nil {
		return fmt.Errorf("%s: %v", u.Name, err)
	}
	u.Text = rd.Text
	return nil
}

func lget(i uint32) watgen.Instr { return watgen.InsIdx(watgen.OpLocalGet, i) }
func lset(i uint32) watgen.Instr { return watgen.InsIdx(watgen.OpLocalSet, i) }
func ins(name string) watgen.Instr {
	in := watgen.OpByName(name)
	if in == nil {
		panic("watexec: unknown instruction " + name)
	}
	return watgen.Ins(in.Op)
}

func alphaFor(t watgen.ValType, ext bool) []Val {
	switch {
	case !isFloat(t):
		return IntAlpha(width(t))
	case ext:
		return FloatAlphaExt(width(t))
	}
	return FloatAlpha(width(t))
}

var arithNaNOps = map[string]bool{"add": true, "sub": true, "mul": true, "div": true, "min": true, "max": true, "sqrt": true, "ceil": true,
	"floor": true, "trunc": true, "nearest": true, "promote_f32": true, "demote_f64": true}

func isArithNaN(name string) bool {
	if !strings.HasPrefix(name, "f32.") && !strings.HasPrefix(name, "f64.") {
		return false
	}
	return arithNaNOps[name[4:]]
}

func isShift(name string) bool {
	for _, s := range []string{".shl", ".shr_s", ".shr_u", ".rotl", ".rotr"} {
		if strings.HasSuffix(name, s) {
			return true
		}
	}
	return false
}

// ---------------------------------------------------------------------------------------------
// num: one unit per numeric instruction

// NumInstrs lists the numeric instructions of the subset (token.go order): everything with a
// fixed numeric signature and no immediate.
func NumInstrs() []*watgen.Info {
	var out []*watgen.Info
	ops := watgen.Ops()
	for i := range ops {
		in := &ops[i]
		if !in.Plain || in.Imm != watgen.ImmNone || len(in.Push) != 1 || len(in.Pop) == 0 {
			continue
		}
		ok := true
		for _, t := range append(append([]watgen.ValType{}, in.Pop...), in.Push...) {
			if t == watgen.FuncRef {
				ok = false
			}
		}
		if ok {
			out = append(out, in)
		}
	}
	return out
}

func numUnit(in *watgen.Info) *Unit {
	u := newUnit("num", in.Name)
	var body []watgen.Instr
	for k := range in.Pop {
		body = append(body, lget(uint32(k)))
	}
	body = append(body, watgen.Ins(in.Op))
	u.addFunc(in.Name, ft(in.Pop, in.Push...), nil, body, isArithNaN(in.Name))
	alphas := make([][]Val, len(in.Pop))
	for k, t := range in.Pop {
		alphas[k] = alphaFor(t, len(in.Pop) == 1)
		if k == 1 && isShift(in.Name) {
			alphas[k] = ShiftAlpha(width(t))
		}
	}
	product(alphas, func(vs []Val) {
		c := Call{Fn: in.Name, Instr: in.Name}
		var cl, ds []string
		for _, v := range vs {
			c.Args = append(c.Args, v.Bits)
			cl = append(cl, v.Class)
			ds = append(ds, v.Name)
		}
		c.Class, c.Desc = strings.Join(cl, ","), strings.Join(ds, ",")
		u.Calls = append(u.Calls, c)
	})
	return u
}

func product(alphas [][]Val, f func([]Val)) {
	cur := make([]Val, len(alphas))
	var rec func(i int)
	rec = func(i int) {
		if i == len(alphas) {
			f(cur)
			return
		}
		for _, v := range alphas[i] {
			cur[i] = v
			rec(i + 1)
		}
	}
	rec(0)
}

// ---------------------------------------------------------------------------------------------
// const: one unit per constant instruction, one function per alphabet value

func constUnits() []*Unit {
	var out []*Unit
	for _, t := range watgen.AllNumTypes {
		name := t.String() + ".const"
		u := newUnit("const", name)
		for k, v := range alphaFor(t, false) {
			if v.Class == "nan" || strings.HasSuffix(v.Class, "inf") {
				continue // nan / inf literals are outside the dialect (watgen/frozen.go)
			}
			var c watgen.Instr
			switch t {
			case i32:
				c = watgen.I32Const(int32(uint32(v.Bits)))
			case i64:
				c = watgen.I64Const(int64(v.Bits))
			case f32:
				c = watgen.F32Const(uint32(v.Bits))
			case f64:
				c = watgen.F64Const(v.Bits)
			}
			fn := fmt.Sprintf("c%d", k)
			u.addFunc(fn, ft(nil, t), nil, []watgen.Instr{c}, false)
			u.Calls = append(u.Calls, Call{Fn: fn, Instr: name, Class: v.Class + ":" + v.Name, Desc: v.Name})
		}
		out = append(out, u)
	}
	return out
}

// ---------------------------------------------------------------------------------------------
// mem: one unit per load / store instruction; a function per static offset

// Memory shape of the mem and bulk units: 2 pages, maximum 3.
const (
	MemPages    = 2
	MemMaxPages = 3
	PageSize    = 65536
)

// Pattern is the byte the memory refill writes at address i (every byte value occurs, both sign
// bits occur at every alignment).
func Pattern(i uint32) byte { return byte(i*73 + (i>>8)*29 + 0x4f) }

type addrCase struct {
	addr  uint64
	class string
}

func memAddrs(w, off uint64) []addrCase {
	S := uint64(MemPages * PageSize)
	M := uint64(MemMaxPages * PageSize)
	out := []addrCase{{0, "aligned"}, {8, "aligned"}, {13, "unaligned"}, {1, "unaligned"},
		{S - w - off, "last-valid"}, {S - w - off + 1, "first-invalid"}, {S - off, "at-size"},
		{M - w - off, "beyond-size-below-max"}, {M - off, "at-max"}, {0xffffffff, "addr=-1"}, {0x80000000, "addr=2^31"}}
	if off > 0 {
		out = append(out, addrCase{(1 << 32) - off, "addr+offset=2^32"})
	}
	return out
}

func storeValues(t watgen.ValType) []Val {
	switch t {
	case i32:
		return []Val{{0x81828384, "0x81828384", "v"}, {0x01020304, "0x01020304", "v"}, {0xffffffff, "-1", "v"}}
	case i64:
		return []Val{{0x8182838485868788, "0x8182838485868788", "v"}, {0x0102030405060708, "0x0102030405060708", "v"}, {^uint64(0), "-1", "v"}}
	case f32:
		return []Val{{f32v(1.5), "1.5", "v"}, {0x80000000, "-0", "v"}, {NaN32[2], "snan:payload", "nan"}, {NaN32[1], "-nan:payload", "nan"}}
	}
	return []Val{{f64v(1.5), "1.5", "v"}, {0x8000000000000000, "-0", "v"}, {NaN64[2], "snan:payload", "nan"}, {NaN64[1], "-nan:payload", "nan"}}
}

func memWidth(name string) uint64 {
	switch {
	case strings.Contains(name, "8"):
		return 1
	case strings.Contains(name, "16"):
		return 2
	case strings.HasSuffix(name, "32_s") || strings.HasSuffix(name, "32_u") || strings.HasSuffix(name, "store32"):
		return 4
	case strings.HasPrefix(name, "i32.") || strings.HasPrefix(name, "f32."):
		return 4
	}
	return 8
}

func memUnits() []*Unit {
	var out []*Unit
	ops := watgen.Ops()
	for i := range ops {
		in := &ops[i]
		if in.Imm != watgen.ImmMem {
			continue
		}
		u := newUnit("mem", in.Name)
		u.addMemory(MemPages, MemMaxPages)
		w := memWidth(in.Name)
		isStore := len(in.Push) == 0
		for _, off := range watgen.MemOffsets {
			fn := fmt.Sprintf("%s.o%d", in.Name, off)
			al := in.Natural
			if off == 1 {
				al = 0
			}
			var body []watgen.Instr
			for k := range in.Pop {
				body = append(body, lget(uint32(k)))
			}
			body = append(body, watgen.MemIns(in.Op, off, al))
			u.addFunc(fn, ft(in.Pop, in.Push...), nil, body, false)
			for _, a := range memAddrs(w, off) {
				cls := fmt.Sprintf("offset=%d,%s", off, a.class)
				if !isStore {
					u.Calls = append(u.Calls, Call{Fn: fn, Args: []uint64{a.addr & 0xffffffff}, Instr: in.Name, Class: cls, Desc: fmt.Sprintf("addr=%d", a.addr), Reset: true})
					continue
				}
				for _, v := range storeValues(in.Pop[1]) {
					c := cls
					if v.Class == "nan" {
						c += ",nan"
					}
					u.Calls = append(u.Calls, Call{Fn: fn, Args: []uint64{a.addr & 0xffffffff, v.Bits}, Instr: in.Name, Class: c, Desc: fmt.Sprintf("addr=%d value=%s", a.addr, v.Name), Reset: true})
				}
			}
		}
		out = append(out, u)
	}
	return out
}

// ---------------------------------------------------------------------------------------------
// bulk: memory.size / memory.grow (a sequence on a fresh instance), memory.fill, memory.copy,
// memory.init

func u32(v int64) uint64 { return uint64(uint32(v)) }

func bulkUnits() []*Unit {
	var out []*Unit
	S := int64(MemPages * PageSize)
	{
		u := newUnit("bulk", "memory.grow")
		u.addMemory(MemPages, MemMaxPages)
		u.addFunc("size", ft(nil, i32), nil, []watgen.Instr{watgen.Ins(watgen.OpMemorySize)}, false)
		u.addFunc("grow", ft(pv(i32), i32), nil, []watgen.Instr{lget(0), watgen.Ins(watgen.OpMemoryGrow)}, false)
		u.addFunc("load8", ft(pv(i32), i32), nil, []watgen.Instr{lget(0), watgen.MemIns(watgen.OpByName("i32.load8_u").Op, 0, 0)}, false)
		u.addFunc("store8", ft(pv(i32, i32)), nil, []watgen.Instr{lget(0), lget(1), watgen.MemIns(watgen.OpByName("i32.store8").Op, 0, 0)}, false)
		seq := func(name string, steps ...Call) {
			for k := range steps {
				steps[k].Fresh = k == 0
				steps[k].Reset = k == 0
				steps[k].Class = fmt.Sprintf("%s#%d:%s", name, k, steps[k].Class)
				u.Calls = append(u.Calls, steps[k])
			}
		}
		sz := Call{Fn: "size", Instr: "memory.size", Class: "size"}
		grow := func(d int64, what string) Call {
			return Call{Fn: "grow", Args: []uint64{u32(d)}, Instr: "memory.grow", Class: what, Desc: fmt.Sprintf("delta=%d", d)}
		}
		ld := func(a int64, what string) Call {
			return Call{Fn: "load8", Args: []uint64{u32(a)}, Instr: "memory.grow", Class: what, Desc: fmt.Sprintf("load8 %d", a)}
		}
		st := func(a int64, what string) Call {
			return Call{Fn: "store8", Args: []uint64{u32(a), 0x5a}, Instr: "memory.grow", Class: what, Desc: fmt.Sprintf("store8 %d", a)}
		}
		seq("within-max", sz, grow(0, "grow(0)"), sz, ld(S, "load-before-grow"), grow(1, "grow(1)"), sz, ld(S, "load-new-page"), st(S+PageSize-1, "store-last-byte"),
			ld(S+PageSize-1, "load-last-byte"), ld(S+PageSize, "load-past-max"))
		seq("beyond-max", grow(2, "grow(2)"), sz, grow(1, "grow(1)"), grow(1, "grow(1)-at-max"), sz, grow(0, "grow(0)-at-max"))
		seq("huge", grow(0x10000, "grow(65536)"), sz, grow(0x7fffffff, "grow(2^31-1)"), sz)
		seq("negative", grow(-1, "grow(-1)"), sz)
		seq("negative-after-grow", grow(1, "grow(1)"), grow(-1, "grow(-1)"), sz, grow(-2147483648, "grow(-2^31)"), sz)
		out = append(out, u)
	}
	lens := []int64{0, 1, 7, 1000, PageSize, S, 0xffffffff}
	{
		u := newUnit("bulk", "memory.fill")
		u.addMemory(MemPages, MemMaxPages)
		u.addFunc("fill", ft(pv(i32, i32, i32)), nil, []watgen.Instr{lget(0), lget(1), lget(2), watgen.Ins(watgen.OpMemoryFill)}, false)
		seen := map[[3]int64]bool{}
		add := func(d, v, n int64, cls string) {
			k := [3]int64{d, v, n}
			if seen[k] || d < 0 {
				return
			}
			seen[k] = true
			u.Calls = append(u.Calls, Call{Fn: "fill", Args: []uint64{u32(d), u32(v), u32(n)}, Instr: "memory.fill", Class: cls, Desc: fmt.Sprintf("dst=%d val=%d len=%d", d, v, n), Reset: true})
		}
		for _, n := range lens {
			ncls := fmt.Sprintf("len=%d", n)
			for _, v := range []int64{0, 0xab, 0x1ff} {
				add(0, v, n, "dst=0,"+ncls)
				add(13, v, n, "dst=unaligned,"+ncls)
				add(S-n, v, n, "last-valid,"+ncls)
				add(S-n+1, v, n, "first-invalid,"+ncls)
			}
			add(S, 1, n, "dst=size,"+ncls)
			add(S+1, 1, n, "dst=size+1,"+ncls)
			add(0xffffffff, 1, n, "dst=-1,"+ncls)
		}
		out = append(out, u)
	}
	{
		u := newUnit("bulk", "memory.copy")
		u.addMemory(MemPages, MemMaxPages)
		u.addFunc("copy", ft(pv(i32, i32, i32)), nil, []watgen.Instr{lget(0), lget(1), lget(2), watgen.Ins(watgen.OpMemoryCopy)}, false)
		seen := map[[3]int64]bool{}
		add := func(d, s, n int64, cls string) {
			k := [3]int64{d, s, n}
			if seen[k] || d < 0 || s < 0 {
				return
			}
			seen[k] = true
			u.Calls = append(u.Calls, Call{Fn: "copy", Args: []uint64{u32(d), u32(s), u32(n)}, Instr: "memory.copy", Class: cls, Desc: fmt.Sprintf("dst=%d src=%d len=%d", d, s, n), Reset: true})
		}
		for _, n := range []int64{1, 2, 7, 16, 33, 100, 1000, 5000, PageSize} {
			ncls := fmt.Sprintf("len=%d", n)
			for _, dist := range []int64{1, 3, 8, 64} {
				if dist < n {
					add(100, 100+dist, n, "overlap,dst<src,"+ncls)
					add(100+dist, 100, n, "overlap,dst>src,"+ncls)
				}
			}
			add(100, 100, n, "dst=src,"+ncls)
			add(0, 70000, n, "disjoint,"+ncls)
			add(70000, 13, n, "disjoint,"+ncls)
		}
		for _, n := range lens {
			ncls := fmt.Sprintf("len=%d", n)
			add(S-n, 0, n, "dst-last-valid,"+ncls)
			add(S-n+1, 0, n, "dst-first-invalid,"+ncls)
			add(0, S-n, n, "src-last-valid,"+ncls)
			add(0, S-n+1, n, "src-first-invalid,"+ncls)
			add(S, S, n, "at-size,"+ncls)
			add(S+1, 0, n, "dst=size+1,"+ncls)
			add(0, S+1, n, "src=size+1,"+ncls)
			add(0xffffffff, 0, n, "dst=-1,"+ncls)
		}
		out = append(out, u)
	}
	{
		// memory.init on an active segment: after instantiation the segment counts as dropped, so
		// only the empty copy is in bounds.
		u := newUnit("bulk", "memory.init")
		u.addMemory(MemPages, MemMaxPages)
		u.Module.Datas = []watgen.Data{{Offset: 16, Bytes: []byte("abcdefgh")}}
		u.addFunc("minit", ft(pv(i32, i32, i32)), nil, []watgen.Instr{lget(0), lget(1), lget(2), watgen.InsIdx(watgen.OpMemoryInit, 0)}, false)
		for _, c := range [][3]int64{{0, 0, 0}, {100, 0, 0}, {S, 0, 0}, {S + 1, 0, 0}, {100, 0, 3}, {100, 2, 4}, {100, 0, 8}, {100, 1, 0}, {100, 9, 0}} {
			u.Calls = append(u.Calls, Call{Fn: "minit", Args: []uint64{u32(c[0]), u32(c[1]), u32(c[2])}, Instr: "memory.init",
				Class: fmt.Sprintf("dst=%d,src=%d,len=%d", c[0], c[1], c[2]), Desc: fmt.Sprintf("dst=%d src=%d len=%d", c[0], c[1], c[2]), Fresh: true})
		}
		out = append(out, u)
	}
	return out
}

// ---------------------------------------------------------------------------------------------
// var: globals, select, locals

func varUnits() []*Unit {
	var out []*Unit
	{
		u := newUnit("var", "global")
		inits := map[watgen.ValType][]watgen.Instr{
			i32: {watgen.I32Const(-2147483647), watgen.I32Const(7)},
			i64: {watgen.I64Const(-9223372036854775807), watgen.I64Const(1 << 40)},
			f32: {watgen.F32Const(uint32(f32v(1.5))), watgen.F32Const(uint32(f32v(-0.25)))},
			f64: {watgen.F64Const(f64v(2.5)), watgen.F64Const(f64v(-1e10))},
		}
		for _, t := range watgen.AllNumTypes {
			mi := uint32(len(u.Module.Globals))
			u.Module.Globals = append(u.Module.Globals,
				watgen.Global{Id: "g_" + t.String() + "_mut", Type: t, Mut: true, Init: inits[t][0]},
				watgen.Global{Id: "g_" + t.String() + "_const", Type: t, Mut: false, Init: inits[t][1]})
			u.addFunc("get_"+t.String(), ft(nil, t), nil, []watgen.Instr{watgen.InsIdx(watgen.OpGlobalGet, mi)}, false)
			u.addFunc("getc_"+t.String(), ft(nil, t), nil, []watgen.Instr{watgen.InsIdx(watgen.OpGlobalGet, mi+1)}, false)
			u.addFunc("set_"+t.String(), ft(pv(t)), nil, []watgen.Instr{lget(0), watgen.InsIdx(watgen.OpGlobalSet, mi)}, false)
		}
		first := true
		for _, t := range watgen.AllNumTypes {
			ts := t.String()
			u.Calls = append(u.Calls, Call{Fn: "get_" + ts, Instr: "global.get", Class: ts + ",initial,mut", Fresh: first})
			first = false
			u.Calls = append(u.Calls, Call{Fn: "getc_" + ts, Instr: "global.get", Class: ts + ",initial,const"})
			for _, v := range alphaFor(t, false) {
				u.Calls = append(u.Calls, Call{Fn: "set_" + ts, Args: []uint64{v.Bits}, Instr: "global.set", Class: ts + "," + v.Class, Desc: v.Name})
				u.Calls = append(u.Calls, Call{Fn: "get_" + ts, Instr: "global.set", Class: ts + "," + v.Class + ",readback", Desc: v.Name})
			}
		}
		out = append(out, u)
	}
	{
		// float global initialisers that need more than six decimals
		u := newUnit("var", "global-init-precision")
		u.Module.Globals = []watgen.Global{
			{Id: "g_tiny32", Type: f32, Init: watgen.F32Const(uint32(f32v(1e-7)))},
			{Id: "g_tiny64", Type: f64, Init: watgen.F64Const(f64v(1e-7))},
			{Id: "g_frac64", Type: f64, Init: watgen.F64Const(f64v(1.00000001))},
		}
		u.addFunc("tiny32", ft(nil, f32), nil, []watgen.Instr{watgen.InsIdx(watgen.OpGlobalGet, 0)}, false)
		u.addFunc("tiny64", ft(nil, f64), nil, []watgen.Instr{watgen.InsIdx(watgen.OpGlobalGet, 1)}, false)
		u.addFunc("frac64", ft(nil, f64), nil, []watgen.Instr{watgen.InsIdx(watgen.OpGlobalGet, 2)}, false)
		u.Calls = []Call{{Fn: "tiny32", Instr: "global.get", Class: "f32,init=1e-7", Fresh: true}, {Fn: "tiny64", Instr: "global.get", Class: "f64,init=1e-7"},
			{Fn: "frac64", Instr: "global.get", Class: "f64,init=1.00000001"}}
		out = append(out, u)
	}
	selVals := func(t watgen.ValType) []Val {
		a := alphaFor(t, false)
		var pick []Val
		for _, v := range a {
			switch v.Name {
			case "0", "-1", "MIN", "0x55..", "-0", "1.5", "nan", "-nan:payload", "snan:payload", "+inf":
				pick = append(pick, v)
			}
		}
		return pick
	}
	for _, typed := range []bool{false, true} {
		name := "select"
		if typed {
			name = "select-typed"
		}
		u := newUnit("var", name)
		for _, t := range watgen.AllNumTypes {
			sel := watgen.Ins(watgen.OpSelect)
			if typed {
				sel = watgen.Instr{Op: watgen.OpSelectT, Sel: []watgen.ValType{t}}
			}
			fn := "select_" + t.String()
			u.addFunc(fn, ft(pv(t, t, i32), t), nil, []watgen.Instr{lget(0), lget(1), lget(2), sel}, false)
			vs := selVals(t)
			for _, a := range vs {
				for _, b := range vs {
					for _, c := range []Val{{0, "0", "c=0"}, {1, "1", "c!=0"}, {0xffffffff, "-1", "c!=0"}, {0x80000000, "MIN", "c!=0"}, {256, "256", "c!=0"}} {
						u.Calls = append(u.Calls, Call{Fn: fn, Args: []uint64{a.Bits, b.Bits, c.Bits}, Instr: name, Class: t.String() + "," + a.Class + "," + b.Class + "," + c.Class,
							Desc: a.Name + "," + b.Name + "," + c.Name})
					}
				}
			}
		}
		out = append(out, u)
	}
	{
		// locals: zero initialisation, set / tee / get for every type
		u := newUnit("var", "local")
		for _, t := range watgen.AllNumTypes {
			ts := t.String()
			u.addFunc("zero_"+ts, ft(nil, t), []watgen.Local{{Id: "l", Type: t}}, []watgen.Instr{lget(0)}, false)
			u.addFunc("tee_"+ts, ft(pv(t), t), []watgen.Local{{Id: "l", Type: t}, {Id: "m", Type: t}},
				[]watgen.Instr{lget(0), watgen.InsIdx(watgen.OpLocalTee, 1), lset(2), lget(2), watgen.Ins(watgen.OpDrop), lget(1)}, false)
			u.Calls = append(u.Calls, Call{Fn: "zero_" + ts, Instr: "local.get", Class: ts + ",zero-init"})
			for _, v := range alphaFor(t, false) {
				u.Calls = append(u.Calls, Call{Fn: "tee_" + ts, Args: []uint64{v.Bits}, Instr: "local.tee", Class: ts + "," + v.Class, Desc: v.Name})
			}
		}
		out = append(out, u)
	}
	return out
}

// ---------------------------------------------------------------------------------------------
// ctrl: the executable ctrl family of watgen, several nests per module

var CtrlSels = []Val{{0, "0", "sel=0"}, {1, "1", "sel=1"}, {2, "2", "sel=2"}, {0xffffffff, "-1", "sel=-1"}}

func ctrlUnits(o Options) []*Unit {
	cases := watgen.CtrlCases(o.CtrlDepth)
	group := o.CtrlGroup
	if group <= 0 {
		group = 32
	}
	byPart := map[string][]int{}
	var order []string
	for i, c := range cases {
		p := ""
		if o.CtrlPartition != nil {
			p = o.CtrlPartition(c)
		}
		if _, ok := byPart[p]; !ok {
			order = append(order, p)
		}
		byPart[p] = append(byPart[p], i)
	}
	var out []*Unit
	for _, p := range order {
		idxs := byPart[p]
		group := group
		if strings.HasPrefix(p, "!") {
			group = 1 // a partition the check expects to be refused: one nest per module
		}
		for at := 0; at < len(idxs); at += group {
			chunk := idxs[at:min(at+group, len(idxs))]
			u := newUnit("ctrl", fmt.Sprintf("%s%d-%d", p, chunk[0], chunk[len(chunk)-1]))
			u.Part = p
			u.Module.Globals = []watgen.Global{{Id: "acc", Type: i32, Mut: true, Init: watgen.I32Const(0)}, {Id: "fuel", Type: i32, Mut: true, Init: watgen.I32Const(3)}}
			u.addFunc("reset", ft(nil), nil, []watgen.Instr{watgen.I32Const(0), watgen.InsIdx(watgen.OpGlobalSet, 0), watgen.I32Const(3), watgen.InsIdx(watgen.OpGlobalSet, 1)}, false)
			u.addFunc("get_acc", ft(nil, i32), nil, []watgen.Instr{watgen.InsIdx(watgen.OpGlobalGet, 0)}, false)
			u.addFunc("get_fuel", ft(nil, i32), nil, []watgen.Instr{watgen.InsIdx(watgen.OpGlobalGet, 1)}, false)
			for _, ci := range chunk {
				c := cases[ci]
				m := watgen.BuildCtrl(c, watgen.CtrlOpts{Exec: true})
				f := m.Funcs[0]
				fn := fmt.Sprintf("ctrl%d", ci)
				u.addFunc(fn, f.Sig, f.Locals, f.Body, false)
				// keep the parameter name watgen gave (the body refers to it by index only)
				key := "ctrl:" + c.String()
				for _, s := range CtrlSels {
					u.Calls = append(u.Calls,
						Call{Fn: "reset", Instr: key, Class: s.Class + ",reset"},
						Call{Fn: fn, Args: []uint64{s.Bits}, Instr: key, Class: s.Class, Desc: s.Name},
						Call{Fn: "get_acc", Instr: key, Class: s.Class + ",trace"},
						Call{Fn: "get_fuel", Instr: key, Class: s.Class + ",fuel"})
				}
			}
			out = append(out, u)
		}
	}
	return out
}

// ---------------------------------------------------------------------------------------------
// call: direct calls, multi-value, recursion, call_indirect, imports

func callUnits(o Options) []*Unit {
	var out []*Unit
	{
		u := newUnit("call", "direct")
		for _, t := range watgen.AllNumTypes {
			ts := t.String()
			id := u.addHidden("id_"+ts, ft(pv(t), t), nil, []watgen.Instr{lget(0)})
			u.addFunc("pass_"+ts, ft(pv(t), t), nil, []watgen.Instr{lget(0), watgen.InsIdx(watgen.OpCall, id)}, false)
			for _, v := range alphaFor(t, false) {
				u.Calls = append(u.Calls, Call{Fn: "pass_" + ts, Args: []uint64{v.Bits}, Instr: "call", Class: "pass," + ts + "," + v.Class, Desc: v.Name})
			}
		}
		u.addFunc("unr", ft(pv(i32), i32), nil, []watgen.Instr{watgen.Ins(watgen.OpNop), lget(0), watgen.If(""), watgen.Ins(watgen.OpUnreachable), watgen.Ins(watgen.OpEnd), watgen.Ins(watgen.OpNop), watgen.I32Const(1)}, false)
		u.Calls = append(u.Calls, Call{Fn: "unr", Args: []uint64{0}, Instr: "unreachable", Class: "not-reached"}, Call{Fn: "unr", Args: []uint64{1}, Instr: "unreachable", Class: "reached"},
			Call{Fn: "unr", Args: []uint64{0}, Instr: "unreachable", Class: "not-reached-after-trap"})
		out = append(out, u)
	}
	for _, variant := range []string{"mixed-types", "mixed-types-explicit-return", "i32-pair", "i32-pair-explicit-return"} {
		// multi-value results of an exported function, of a direct call and of an implicit
		// (fall off the end) or explicit return
		u := newUnit("call", "multi-value-"+variant)
		explicit := strings.HasSuffix(variant, "explicit-return")
		tail := func(b []watgen.Instr) []watgen.Instr {
			if explicit {
				return append(b, watgen.Ins(watgen.OpReturn))
			}
			return b
		}
		if strings.HasPrefix(variant, "mixed") {
			// (i32 i64 f32 f64) -> (f64 f32 i64 i32)
			mv := u.addFunc("mv", ft(pv(i32, i64, f32, f64), f64, f32, i64, i32), nil, tail([]watgen.Instr{lget(3), lget(2), lget(1), lget(0)}), false)
			u.addFunc("use_mv", ft(pv(i32, i64, f32, f64), i64), []watgen.Local{{Id: "a", Type: i32}, {Id: "b", Type: i64}, {Id: "c", Type: f32}, {Id: "d", Type: f64}},
				[]watgen.Instr{lget(0), lget(1), lget(2), lget(3), watgen.InsIdx(watgen.OpCall, mv),
					lset(4), lset(5), lset(6), lset(7),
					lget(7), ins("i64.reinterpret_f64"),
					lget(6), ins("i32.reinterpret_f32"), ins("i64.extend_i32_u"), watgen.I64Const(3), ins("i64.shl"), ins("i64.xor"),
					lget(5), watgen.I64Const(7), ins("i64.shl"), ins("i64.xor"),
					lget(4), ins("i64.extend_i32_s"), watgen.I64Const(11), ins("i64.shl"), ins("i64.xor")}, false)
			quad := [][4]Val{}
			a32, a64, af32, af64 := IntAlpha(32), IntAlpha(64), FloatAlpha(32), FloatAlpha(64)
			for k := 0; k < 16; k++ {
				quad = append(quad, [4]Val{a32[(k*7+1)%len(a32)], a64[(k*5+2)%len(a64)], af32[(k*11+3)%len(af32)], af64[(k*13+4)%len(af64)]})
			}
			quad = append(quad, [4]Val{a32[8], a64[8], {NaN32[2], "snan:payload", "nan"}, {NaN64[1], "-nan:payload", "nan"}})
			for _, q := range quad {
				args := []uint64{q[0].Bits, q[1].Bits, q[2].Bits, q[3].Bits}
				ds := q[0].Name + "," + q[1].Name + "," + q[2].Name + "," + q[3].Name
				u.Calls = append(u.Calls, Call{Fn: "mv", Args: args, Instr: "multi-value-return(" + variant + ")", Class: "exported", Desc: ds},
					Call{Fn: "use_mv", Args: args, Instr: "multi-value-return(" + variant + ")", Class: "internal-call", Desc: ds})
			}
		} else {
			// (a b) -> (a+1, b*2)
			mv := u.addFunc("mv2", ft(pv(i32, i32), i32, i32), nil, tail([]watgen.Instr{lget(0), watgen.I32Const(1), ins("i32.add"), lget(1), watgen.I32Const(2), ins("i32.mul")}), false)
			u.addFunc("use_mv2", ft(pv(i32, i32), i32), nil, []watgen.Instr{lget(0), lget(1), watgen.InsIdx(watgen.OpCall, mv), watgen.I32Const(16), ins("i32.shl"), ins("i32.xor")}, false)
			for _, a := range []Val{{3, "3", ""}, {0xffffffff, "-1", ""}, {0x7fffffff, "MAX", ""}} {
				for _, b := range []Val{{10, "10", ""}, {0, "0", ""}, {0x80000000, "MIN", ""}} {
					u.Calls = append(u.Calls, Call{Fn: "mv2", Args: []uint64{a.Bits, b.Bits}, Instr: "multi-value-return(" + variant + ")", Class: "exported", Desc: a.Name + "," + b.Name},
						Call{Fn: "use_mv2", Args: []uint64{a.Bits, b.Bits}, Instr: "multi-value-return(" + variant + ")", Class: "internal-call", Desc: a.Name + "," + b.Name})
				}
			}
		}
		out = append(out, u)
	}
	{
		u := newUnit("call", "recursion")
		// fact(n i64) i64, fib(n i32) i32, depth(n i32) i32 = n (non-tail), inf(n) never returns
		factIdx := uint32(0)
		u.addFunc("fact", ft(pv(i64), i64), nil, []watgen.Instr{
			lget(0), ins("i64.eqz"), watgen.If("", i64), watgen.I64Const(1), watgen.Ins(watgen.OpElse),
			lget(0), lget(0), watgen.I64Const(1), ins("i64.sub"), watgen.InsIdx(watgen.OpCall, factIdx), ins("i64.mul"), watgen.Ins(watgen.OpEnd)}, false)
		u.addFunc("fib", ft(pv(i32), i32), nil, []watgen.Instr{
			lget(0), watgen.I32Const(2), ins("i32.lt_s"), watgen.If("", i32), lget(0), watgen.Ins(watgen.OpElse),
			lget(0), watgen.I32Const(1), ins("i32.sub"), watgen.InsIdx(watgen.OpCall, 1),
			lget(0), watgen.I32Const(2), ins("i32.sub"), watgen.InsIdx(watgen.OpCall, 1), ins("i32.add"), watgen.Ins(watgen.OpEnd)}, false)
		u.addFunc("depth", ft(pv(i32), i32), nil, []watgen.Instr{
			lget(0), ins("i32.eqz"), watgen.If("", i32), watgen.I32Const(0), watgen.Ins(watgen.OpElse),
			lget(0), watgen.I32Const(1), ins("i32.sub"), watgen.InsIdx(watgen.OpCall, 2), watgen.I32Const(1), ins("i32.add"), watgen.Ins(watgen.OpEnd)}, false)
		u.addFunc("inf", ft(pv(i32), i32), nil, []watgen.Instr{
			lget(0), watgen.I32Const(1), ins("i32.add"), watgen.InsIdx(watgen.OpCall, 3), watgen.I32Const(1), ins("i32.add")}, false)
		for _, n := range []uint64{0, 1, 2, 5, 20, 21, 25} {
			u.Calls = append(u.Calls, Call{Fn: "fact", Args: []uint64{n}, Instr: "recursion", Class: fmt.Sprintf("fact(%d)", n)})
		}
		for _, n := range []uint64{0, 1, 2, 10, 20} {
			u.Calls = append(u.Calls, Call{Fn: "fib", Args: []uint64{n}, Instr: "recursion", Class: fmt.Sprintf("fib(%d)", n)})
		}
		for _, n := range o.RecDepths {
			u.Calls = append(u.Calls, Call{Fn: "depth", Args: []uint64{uint64(n)}, Instr: "recursion", Class: fmt.Sprintf("depth(%d)", n)})
		}
		u.Calls = append(u.Calls, Call{Fn: "inf", Args: []uint64{0}, Instr: "recursion", Class: "unbounded"},
			Call{Fn: "depth", Args: []uint64{10}, Instr: "recursion", Class: "depth(10)-after-stack-exhaustion"})
		out = append(out, u)
	}
	{
		u := newUnit("call", "indirect")
		u.Module.Table = &watgen.Table{Id: "tab", Lim: watgen.Limits{Min: 5}}
		u.Module.Types = []watgen.TypeDef{
			{Id: "t_i32", FuncType: ft(pv(i32), i32)},
			{Id: "t_mv", FuncType: ft(pv(i32), i32, i32)},
		}
		inc := u.addHidden("f_inc", ft(pv(i32), i32), nil, []watgen.Instr{lget(0), watgen.I32Const(1), ins("i32.add")})
		w64 := u.addHidden("f_i64", ft(pv(i64), i64), nil, []watgen.Instr{lget(0), watgen.I64Const(1), ins("i64.add")})
		dec := u.addHidden("f_dec", ft(pv(i32), i32), nil, []watgen.Instr{lget(0), watgen.I32Const(1), ins("i32.sub")})
		fmv := u.addHidden("f_pair", ft(pv(i32), i32, i32), nil, []watgen.Instr{lget(0), lget(0), watgen.I32Const(3), ins("i32.mul"), watgen.Ins(watgen.OpReturn)})
		u.Module.Elems = []watgen.Elem{{Offset: 1, Funcs: []uint32{inc, w64, dec, fmv}}}
		u.addFunc("ci", ft(pv(i32, i32), i32), nil, []watgen.Instr{lget(1), lget(0), {Op: watgen.OpCallIndirect, Idx: 0}}, false)
		u.addFunc("ci_mv", ft(pv(i32, i32), i32), nil,
			[]watgen.Instr{lget(1), lget(0), {Op: watgen.OpCallIndirect, Idx: 1}, watgen.I32Const(8), ins("i32.shl"), ins("i32.xor")}, false)
		idx := []Val{{1, "1", "in-range,same-signature"}, {3, "3", "in-range,same-signature"}, {0, "0", "null-entry"}, {2, "2", "wrong-signature"}, {4, "4", "wrong-signature(multi-value)"},
			{5, "5", "index=size"}, {0xffffffff, "-1", "index=-1"}, {0x7fffffff, "MAX", "index=MAX"}}
		for _, i := range idx {
			for _, x := range []Val{{5, "5", ""}, {0xffffffff, "-1", ""}} {
				u.Calls = append(u.Calls, Call{Fn: "ci", Args: []uint64{i.Bits, x.Bits}, Instr: "call_indirect", Class: i.Class, Desc: "index=" + i.Name + " x=" + x.Name})
			}
		}
		for _, i := range []Val{{4, "4", "in-range,same-signature"}, {1, "1", "wrong-signature"}, {0, "0", "null-entry"}, {5, "5", "index=size"}} {
			u.Calls = append(u.Calls, Call{Fn: "ci_mv", Args: []uint64{i.Bits, 9}, Instr: "call_indirect(multi-value)", Class: i.Class, Desc: "index=" + i.Name})
		}
		out = append(out, u)
	}
	{
		u := newUnit("call", "import")
		for _, t := range watgen.AllNumTypes {
			ts := t.String()
			u.Module.Imports = append(u.Module.Imports, watgen.Import{Module: "env", Name: "h_" + ts, Kind: watgen.KindFunc, Id: "env.h_" + ts, Sig: ft(pv(t), t)})
			u.Imports = append(u.Imports, ImportInfo{"env", "h_" + ts, ft(pv(t), t)})
		}
		u.Module.Imports = append(u.Module.Imports, watgen.Import{Module: "env", Name: "h_void", Kind: watgen.KindFunc, Id: "env.h_void", Sig: ft(pv(i32, i64, f32, f64))})
		u.Imports = append(u.Imports, ImportInfo{"env", "h_void", ft(pv(i32, i64, f32, f64))})
		for k, t := range watgen.AllNumTypes {
			ts := t.String()
			u.addFunc("call_h_"+ts, ft(pv(t), t), nil, []watgen.Instr{lget(0), watgen.InsIdx(watgen.OpCall, uint32(k))}, true)
			first := true
			for _, v := range alphaFor(t, false) {
				if v.Class == "nan" {
					continue // a NaN crossing the host boundary: payload unspecified in the JS API
				}
				u.Calls = append(u.Calls, Call{Fn: "call_h_" + ts, Args: []uint64{v.Bits}, Instr: "call-import", Class: ts + "," + v.Class, Desc: v.Name, Fresh: first})
				first = false
			}
		}
		u.addFunc("twice", ft(pv(i32), i32), nil, []watgen.Instr{lget(0), watgen.InsIdx(watgen.OpCall, 0), lget(0), watgen.I32Const(1), ins("i32.add"), watgen.InsIdx(watgen.OpCall, 0), ins("i32.sub")}, false)
		u.addFunc("call_void", ft(pv(i32, i64, f32, f64)), nil, []watgen.Instr{lget(0), lget(1), lget(2), lget(3), watgen.InsIdx(watgen.OpCall, 4)}, false)
		u.Calls = append(u.Calls, Call{Fn: "twice", Args: []uint64{41}, Instr: "call-import", Class: "two-calls-in-order", Fresh: true},
			Call{Fn: "call_void", Args: []uint64{u32(-5), ^uint64(0) - 8, f32v(-1.5), f64v(1e300)}, Instr: "call-import", Class: "void,four-types"})
		out = append(out, u)
	}
	return out
}

// ---------------------------------------------------------------------------------------------
// mod: data segments, start function

func modUnits() []*Unit {
	var out []*Unit
	peeks := func(u *Unit, addrs ...uint32) {
		for _, a := range addrs {
			u.Calls = append(u.Calls, Call{Fn: "peek", Args: []uint64{uint64(a)}, Instr: "data", Class: strings.TrimPrefix(u.Name, "mod/"), Desc: fmt.Sprintf("byte@%d", a)})
		}
	}
	peek := func(u *Unit) {
		u.addFunc("peek", ft(pv(i32), i32), nil, []watgen.Instr{lget(0), watgen.MemIns(watgen.OpByName("i32.load8_u").Op, 0, 0)}, false)
	}
	{
		u := newUnit("mod", "data+start")
		u.addMemory(1, 1)
		u.Module.Globals = []watgen.Global{{Id: "g", Type: i32, Mut: true, Init: watgen.I32Const(1)}}
		u.Module.Datas = []watgen.Data{
			{Offset: 8, Bytes: []byte("plain text 0123456789 ?!")},
			{Offset: 64, Bytes: []byte("\x0012\xffab\x07Fe\x00\x00A")},
			{Offset: 65535, Bytes: []byte{0x2a}},
		}
		peek(u)
		u.addFunc("getg", ft(nil, i32), nil, []watgen.Instr{watgen.InsIdx(watgen.OpGlobalGet, 0)}, false)
		st := u.addHidden("boot", ft(nil), nil, []watgen.Instr{watgen.I32Const(42), watgen.InsIdx(watgen.OpGlobalSet, 0),
			watgen.I32Const(300), watgen.I32Const(0x11223344), watgen.MemIns(watgen.OpI32Store, 0, 2)})
		u.Module.HasStart, u.Module.Start = true, st
		u.Calls = append(u.Calls, Call{Fn: "getg", Instr: "start", Class: "global-set-by-start", Fresh: true})
		peeks(u, 8, 31, 64, 65, 66, 67, 68, 69, 70, 71, 72, 73, 74, 75, 300, 303, 65535)
		out = append(out, u)
	}
	{
		// the data alphabet of watgen: NUL, 0xff, quote, backslash, newline, tab, UTF-8
		u := newUnit("mod", "data-tricky")
		u.addMemory(1, 1)
		u.Module.Datas = []watgen.Data{{Offset: 8, Bytes: watgen.TrickyData}}
		peek(u)
		peeks(u, 8, 9, 10, 11, 12, 13, 14, 15, 16, 17, 18, 19, 20, 21)
		u.Calls[0].Fresh = true
		out = append(out, u)
	}
	{
		u := newUnit("mod", "data-backslash-before-quote")
		u.addMemory(1, 1)
		u.Module.Datas = []watgen.Data{{Offset: 8, Bytes: []byte("a\\\"q")}}
		peek(u)
		peeks(u, 8, 9, 10, 11)
		out = append(out, u)
	}
	{
		// identifiers that are distinct in WebAssembly (separate name spaces) or innocent there
		u := newUnit("mod", "global-and-function-with-one-identifier")
		u.Module.Globals = []watgen.Global{{Id: "x", Type: i32, Init: watgen.I32Const(5)}}
		u.addFunc("x", ft(nil, i32), nil, []watgen.Instr{watgen.InsIdx(watgen.OpGlobalGet, 0)}, false)
		u.Calls = []Call{{Fn: "x", Instr: "identifiers", Class: "global-and-function-named-x"}}
		out = append(out, u)
	}
	{
		u := newUnit("mod", "function-named-init")
		u.addFunc("init", ft(nil, i32), nil, []watgen.Instr{watgen.I32Const(7)}, false)
		u.Calls = []Call{{Fn: "init", Instr: "identifiers", Class: "function-named-init"}}
		out = append(out, u)
	}
	return out
}

// ---------------------------------------------------------------------------------------------

// Units enumerates every generated unit, simplest family first. Deterministic.
func Units(o Options) ([]*Unit, error) {
	var out []*Unit
	for _, in := range NumInstrs() {
		out = append(out, numUnit(in))
	}
	out = append(out, constUnits()...)
	out = append(out, memUnits()...)
	out = append(out, bulkUnits()...)
	out = append(out, varUnits()...)
	out = append(out, callUnits(o)...)
	out = append(out, modUnits()...)
	out = append(out, ctrlUnits(o)...)
	for _, u := range out {
		if err := u.render(); err != nil {
			return nil, err
		}
		for i := range u.Calls {
			if _, ok := u.Funcs[u.Calls[i].Fn]; !ok {
				return nil, fmt.Errorf("%s: call of unknown export %q", u.Name, u.Calls[i].Fn)
			}
			if len(u.Calls[i].Args) != len(u.Funcs[u.Calls[i].Fn].Sig.Params) {
				return nil, fmt.Errorf("%s: call of %q with %d arguments", u.Name, u.Calls[i].Fn, len(u.Calls[i].Args))
			}
		}
		if len(u.Calls) > 0 {
			u.Calls[0].Fresh = true
		}
	}
	return out, nil
}
