//go:build go1.21

package watexec

import (
	"encoding/json"
	"fmt"
	"sync"

	"wa-lang.org/wa/internal/wat/watutil"
	"wa-lang.org/wa/internal/zzverif/mc"
	"wa-lang.org/wa/internal/zzverif/watgen"
)

// Assemble runs the real assembler (watutil.Wat2Wasm) on the unit's text under recover.
func Assemble(u *Unit) (wasm []byte, err error) {
	if p := mc.Recover(func() { wasm, err = watutil.Wat2Wasm("unit.wat", []byte(u.Text)) }); p != "" {
		return nil, fmt.Errorf("assembler panic: %s", p)
	}
	return wasm, err
}

// OptKey is the part of Options a worker needs to regenerate the same unit list.
type OptKey struct {
	CtrlDepth int
	CtrlGroup int
	Partition string // name of a registered partition function ("" = none)
	RecDepths []uint32
}

// Partitions are the registered ctrl partition functions (a check registers its own in init).
var Partitions = map[string]func(c watgen.CtrlCase) string{}

// WzJob asks a worker to run one unit on one configuration of the embedded engine.
type WzJob struct {
	Kind   string // "wz"
	Opt    OptKey
	Index  int   // index into Units(Opt), or -1 when Inline is set
	Inline *Unit // compiler output (not regenerable from Opt)
	Config string
}

// WzResult is the worker's answer.
type WzResult struct {
	Err string // the unit could not be assembled / compiled / instantiated at all
	Out []Outcome
}

var (
	unitMu    sync.Mutex
	unitCache = map[string][]*Unit{}
)

// UnitsFor returns (and caches) Units for an OptKey.
func UnitsFor(k OptKey) ([]*Unit, error) {
	kj, _ := json.Marshal(k)
	unitMu.Lock()
	defer unitMu.Unlock()
	if us, ok := unitCache[string(kj)]; ok {
		return us, nil
	}
	o := Options{CtrlDepth: k.CtrlDepth, CtrlGroup: k.CtrlGroup, RecDepths: k.RecDepths}
	if k.Partition != "" {
		f := Partitions[k.Partition]
		if f == nil {
			return nil, fmt.Errorf("watexec: partition %q is not registered", k.Partition)
		}
		o.CtrlPartition = f
	}
	us, err := Units(o)
	if err != nil {
		return nil, err
	}
	unitCache[string(kj)] = us
	return us, nil
}

// HandleWzJob is the worker side of a WzJob.
func HandleWzJob(raw json.RawMessage) interface{} {
	var j WzJob
	if err := json.Unmarshal(raw, &j); err != nil {
		return WzResult{Err: "bad job: " + err.Error()}
	}
	u := j.Inline
	if u == nil {
		us, err := UnitsFor(j.Opt)
		if err != nil {
			return WzResult{Err: "harness: " + err.Error()}
		}
		if j.Index < 0 || j.Index >= len(us) {
			return WzResult{Err: fmt.Sprintf("harness: unit index %d of %d", j.Index, len(us))}
		}
		u = us[j.Index]
	}
	wasm, err := Assemble(u)
	if err != nil {
		return WzResult{Err: "assemble: " + err.Error()}
	}
	out, err := RunWazero(u, wasm, j.Config)
	if err != nil {
		return WzResult{Err: err.Error()}
	}
	return WzResult{Out: out}
}
