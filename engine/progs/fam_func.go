//go:build go1.21

package progs

import (
	"fmt"
	"strings"
)

// FamFunc: functions, closures, methods, defer. Every scenario is its own group (its own case
// function and its own declarations), so that a construct the compiler cannot handle takes down
// exactly one key. Inside a scenario the parameter space is enumerated completely.
//
// Loop-variable semantics: Wa gives a for/range loop ONE variable per loop (Go <= 1.21; a closure
// that captures the loop variable and runs after the loop sees the final value). The Go reference
// module says `go 1.21`, so both sides agree on that today, but the enumeration only contains
// programs whose meaning is the same under per-iteration semantics: closures capture an explicit
// per-iteration copy, or are called inside the iteration that created them.
type funcScen struct {
	key, desc     string
	imports       []string
	decls, stmts  string
	multipleItems []Item // alternative to stmts: several items sharing decls
}

func FamFunc(thorough bool) Family {
	f := Family{Name: "func"}
	var sc []funcScen
	add := func(key, desc, decls, stmts string) {
		sc = append(sc, funcScen{key: key, desc: desc, decls: decls, stmts: stmts})
	}
	xs := []int{0, 3, -7}
	if thorough {
		xs = []int{0, 1, 3, -7, 2147483647, -2147483648}
	}

	// ---- multi-value returns: result shape x use form x argument
	type mvf struct{ name, decl, args, zero string }
	mvfs := []mvf{
		{"int32,int32", "func mv@G@(x int32) (int32, int32) { return x + 1, x * 2 }", "", ""},
		{"int32,string,bool", "func mv@G@(x int32) (int32, string, bool) { return x - 1, \"s\", x > 1 }", "", ""},
		{"int64,uint8", "func mv@G@(x int32) (int64, uint8) { return int64(x) * 4294967296, uint8(x) }", "", ""},
		{"named bare return", "func mv@G@(x int32) (q, r int32) {\n\tq = x / 3\n\tr = x % 3\n\treturn\n}", "", ""},
		{"chained return f(g())", "func mvi@G@(x int32) (int32, int32) { return x + 1, x * 2 }\nfunc mv@G@(x int32) (int32, int32) { return mvi@G@(x) }", "", ""},
		{"struct,int32", "type mvS@G@ struct{ p, q int32 }\nfunc mv@G@(x int32) (mvS@G@, int32) { return mvS@G@{x, x + 1}, x + 2 }", "", ""},
		{"slice,string", "func mv@G@(x int32) ([]int32, string) { return []int32{x, x + 1}, \"t\" }", "", ""},
	}
	for _, m := range mvfs {
		var items []Item
		for _, x := range xs {
			var st string
			switch m.name {
			case "int32,string,bool":
				st = fmt.Sprintf("\t\ta, b, c := mv@G@(%[1]d)\n\t\tprintln(a, b, c)\n\t\t_, b2, _ := mv@G@(%[1]d)\n\t\tprintln(b2)\n\t\tvar d int32\n\t\tvar e string\n\t\td, e, _ = mv@G@(%[1]d)\n\t\tprintln(d, e)\n\t\tprintln(mv@G@(%[1]d))", x)
			case "int64,uint8":
				st = fmt.Sprintf("\t\ta, b := mv@G@(%[1]d)\n\t\tprintln(a, int64(b))\n\t\t_, b2 := mv@G@(%[1]d)\n\t\ta2, _ := mv@G@(%[1]d)\n\t\tprintln(a2, int64(b2))", x)
			case "struct,int32":
				st = fmt.Sprintf("\t\ta, b := mv@G@(%[1]d)\n\t\tprintln(a.p, a.q, b)\n\t\ta.p = 77\n\t\ta2, _ := mv@G@(%[1]d)\n\t\tprintln(a.p, a2.p)", x)
			case "slice,string":
				st = fmt.Sprintf("\t\ta, b := mv@G@(%[1]d)\n\t\tprintln(len(a), a[0], a[1], b)", x)
			default:
				st = fmt.Sprintf("\t\ta, b := mv@G@(%[1]d)\n\t\tprintln(a, b)\n\t\ta, b = b, a\n\t\tprintln(a, b)\n\t\ta, b = mv@G@(a)\n\t\tprintln(a, b)\n\t\t_, c := mv@G@(b)\n\t\td, _ := mv@G@(c)\n\t\tprintln(c, d)\n\t\tprintln(mv@G@(%[1]d))\n\t\tprintln(pass@G@(mv@G@(%[1]d)))", x)
			}
			items = append(items, Item{Key: "func|multi-value|" + m.name, Desc: fmt.Sprintf("x=%d", x), Stmts: st})
		}
		sc = append(sc, funcScen{decls: m.decl + "\nfunc pass@G@(a, b int32) int32 { return a*10 + b }\n", multipleItems: items, desc: "multi-value " + m.name})
	}

	// ---- named results modified by defer: results x defer action x return form x number of defers
	acts := []struct{ name, code string }{{"r++", "r++"}, {"r *= 2", "r *= 2"}, {"r = 100", "r = 100"}}
	rets := []struct{ name, one, two string }{{"bare", "return", "return"}, {"return 7", "return 7", "return 7, \"x\""}, {"return r + 1", "return r + 1", "return r + 1, s + \"y\""}}
	for nres := 1; nres <= 2; nres++ {
		for nd := 1; nd <= 2; nd++ {
			var decls strings.Builder
			var items []Item
			k := 0
			for _, a := range acts {
				for _, rt := range rets {
					res, ret, extra, init := "(r int32)", rt.one, "", ""
					if nres == 2 {
						res, ret, extra, init = "(r int32, s string)", rt.two, "\n\t\ts += \"!\"", "\n\t\ts = \"i\""
					}
					d2 := ""
					if nd == 2 {
						d2 = "\tdefer func() { r += 10 }()\n"
					}
					fmt.Fprintf(&decls, "func nd@G@_%d(t int32) %s {\n\tdefer func() {\n\t\t%s%s\n\t}()\n%s\tif t > 0 {\n\t\tr = 5%s\n\t\t%s\n\t}\n\tr = 1\n\treturn\n}\n", k, res, a.code, extra, d2, init, ret)
					items = append(items, Item{
						Key:   fmt.Sprintf("func|named-result-defer|results=%d|%s", nres, rt.name),
						Desc:  fmt.Sprintf("defer{%s} x%d, %s", a.name, nd, rt.name),
						Stmts: fmt.Sprintf("\t\tprintln(nd@G@_%[1]d(1))\n\t\tprintln(nd@G@_%[1]d(0))", k),
					})
					k++
				}
			}
			sc = append(sc, funcScen{decls: decls.String(), multipleItems: items, desc: fmt.Sprintf("named results=%d defers=%d", nres, nd)})
		}
	}
	add("func|return-before-defer|unnamed result", "return value is fixed before deferred functions run",
		"func rb@G@() int32 {\n\tx := int32(1)\n\tdefer func() { x = 2 }()\n\treturn x\n}\nfunc rc@G@() (int32, int32) {\n\tx := int32(1)\n\tdefer func() { x += 5 }()\n\treturn x, x + 1\n}\n",
		"\t\tprintln(rb@G@())\n\t\tprintln(rc@G@())")

	// ---- recursion
	{
		var items []Item
		nmax := 12
		for n := 0; n <= nmax; n++ {
			items = append(items, Item{Key: "func|recursion|factorial", Desc: fmt.Sprint("fact ", n), Stmts: fmt.Sprintf("\t\tprintln(fact@G@(%d))", n)})
		}
		for n := 0; n <= Pick2(thorough, 15, 20); n++ {
			items = append(items, Item{Key: "func|recursion|fibonacci", Desc: fmt.Sprint("fib ", n), Stmts: fmt.Sprintf("\t\tprintln(fib@G@(%d))", n)})
		}
		for n := 0; n <= 7; n++ {
			items = append(items, Item{Key: "func|recursion|mutual", Desc: fmt.Sprint("even/odd ", n), Stmts: fmt.Sprintf("\t\tprintln(even@G@(%[1]d), odd@G@(%[1]d))", n)})
		}
		for m := 0; m <= 2; m++ {
			for n := 0; n <= 3; n++ {
				items = append(items, Item{Key: "func|recursion|ackermann", Desc: fmt.Sprint("ack ", m, n), Stmts: fmt.Sprintf("\t\tprintln(ack@G@(%d, %d))", m, n)})
			}
		}
		for _, p := range [][2]int{{0, 0}, {12, 18}, {17, 5}, {1, 1000}, {1071, 462}} {
			items = append(items, Item{Key: "func|recursion|gcd", Desc: fmt.Sprint("gcd ", p), Stmts: fmt.Sprintf("\t\tprintln(gcd@G@(%d, %d))", p[0], p[1])})
		}
		for _, n := range []int{0, 1, 10, 300} {
			items = append(items, Item{Key: "func|recursion|depth", Desc: fmt.Sprint("sumTo ", n), Stmts: fmt.Sprintf("\t\tprintln(sumto@G@(%d))", n)})
		}
		items = append(items, Item{Key: "func|recursion|slice-argument", Desc: "sum of slice by recursion", Stmts: "\t\tprintln(ssum@G@(1, []int32{1, 2, 3, 4, 5}), ssum@G@(2, nil))"})
		items = append(items, Item{Key: "func|recursion|multi-value", Desc: "divmod by recursion", Stmts: "\t\tprintln(dm@G@(17, 5))\n\t\tprintln(dm@G@(3, 5))"})
		items = append(items, Item{Key: "func|recursion|hanoi", Desc: "hanoi trace", Stmts: "\t\thanoi@G@(3, 1, 3, 2)"})
		sc = append(sc, funcScen{desc: "recursion", multipleItems: items, decls: `func fact@G@(n int64) int64 {
	if n <= 1 {
		return 1
	}
	return n * fact@G@(n-1)
}
func fib@G@(n int32) int32 {
	if n < 2 {
		return n
	}
	return fib@G@(n-1) + fib@G@(n-2)
}
func even@G@(n int32) bool {
	if n == 0 {
		return true
	}
	return odd@G@(n - 1)
}
func odd@G@(n int32) bool {
	if n == 0 {
		return false
	}
	return even@G@(n - 1)
}
func ack@G@(m, n int32) int32 {
	if m == 0 {
		return n + 1
	}
	if n == 0 {
		return ack@G@(m-1, 1)
	}
	return ack@G@(m-1, ack@G@(m, n-1))
}
func gcd@G@(a, b int32) int32 {
	if b == 0 {
		return a
	}
	return gcd@G@(b, a%b)
}
func sumto@G@(n int32) int32 {
	if n == 0 {
		return 0
	}
	return n + sumto@G@(n-1)
}
func ssum@G@(k int32, s []int32) int32 {
	if len(s) == 0 {
		return 0
	}
	return k*s[0] + ssum@G@(k, s[1:])
}
func dm@G@(a, b int32) (q, r int32) {
	if a < b {
		return 0, a
	}
	q, r = dm@G@(a-b, b)
	return q + 1, r
}
func hanoi@G@(n, from, to, via int32) {
	if n == 0 {
		return
	}
	hanoi@G@(n-1, from, via, to)
	println(n, from, to)
	hanoi@G@(n-1, via, to, from)
}
`})
	}
	add("func|recursion|closure", "recursive closure through a variable",
		"", "\t\tvar f func(n int32) int32\n\t\tf = func(n int32) int32 {\n\t\t\tif n <= 1 {\n\t\t\t\treturn 1\n\t\t\t}\n\t\t\treturn n * f(n-1)\n\t\t}\n\t\tprintln(f(1), f(5), f(10))")
	add("func|recursion|method", "recursive method on a linked list",
		"type node@G@ struct {\n\tv    int32\n\tnext *node@G@\n}\nfunc (n *node@G@) sum() int32 {\n\tif n.next == nil {\n\t\treturn n.v\n\t}\n\treturn n.v + n.next.sum()\n}\n",
		"\t\tl := &node@G@{1, &node@G@{2, &node@G@{3, nil}}}\n\t\tprintln(l.sum(), l.next.sum())")
	add("func|method|nil pointer receiver", "a method with pointer receiver may be called on a nil pointer",
		"type node@G@ struct {\n\tv    int32\n\tnext *node@G@\n}\nfunc (n *node@G@) sum() int32 {\n\tif n == nil {\n\t\treturn 0\n\t}\n\treturn n.v + n.next.sum()\n}\n",
		"\t\tl := &node@G@{1, &node@G@{2, nil}}\n\t\tprintln(l.sum())\n\t\tvar e *node@G@\n\t\tprintln(e.sum())")
	add("func|parameter|first parameter of slice type", "func f(s []int32): WaGo syntax, slice type directly after the first parameter name",
		"func fs@G@(s []int32) int32 { return int32(len(s)) }\n", "\t\tprintln(fs@G@([]int32{1, 2}), fs@G@(nil))")
	add("func|parameter|first parameter of array type", "func f(a [2]int32)",
		"func fa@G@(a [2]int32) int32 { return a[0] + a[1] }\n", "\t\tprintln(fa@G@([2]int32{1, 2}))")
	add("func|parameter|two parameters sharing a slice type", "func f(s, t []int32)",
		"func ft@G@(s, t []int32) int32 { return int32(len(s) + len(t)) }\n", "\t\tprintln(ft@G@([]int32{1, 2}, nil))")

	// ---- variadic functions: call form x callee
	{
		decls := `func vs@G@(xs ...int32) int32 {
	s := int32(len(xs)) * 1000
	for _, x := range xs {
		s += x
	}
	return s
}
func vb@G@(base int32, xs ...int32) int32 {
	for i, x := range xs {
		base += x * int32(i+1)
	}
	return base
}
func vstr@G@(sep string, xs ...string) string {
	r := ""
	for i, x := range xs {
		if i > 0 {
			r += sep
		}
		r += x
	}
	return r
}
func vmod@G@(xs ...int32) {
	if len(xs) > 0 {
		xs[0] = 99
	}
}
func vfwd@G@(xs ...int32) int32 { return vs@G@(xs...) }
func vnil@G@(xs ...int32) bool { return xs == nil }
func vany@G@(xs ...interface{}) int32 {
	n := int32(0)
	for _, x := range xs {
		switch x.(type) {
		case int32:
			n += 1
		case string:
			n += 10
		case nil:
			n += 100
		default:
			n += 1000
		}
	}
	return n
}
`
		calls := []struct{ key, desc, st string }{
			{"no arguments", "f()", "println(vs@G@(), vb@G@(5), vstr@G@(\",\"), vfwd@G@())"},
			{"one argument", "f(1)", "println(vs@G@(7), vb@G@(5, 7), vstr@G@(\",\", \"a\"), vfwd@G@(7))"},
			{"three arguments", "f(1,2,3)", "println(vs@G@(1, 2, 3), vb@G@(5, 1, 2, 3), vstr@G@(\"-\", \"a\", \"\", \"c\"), vfwd@G@(1, 2, 3))"},
			{"slice spread", "f(s...)", "s := []int32{4, 5, 6}\n\t\tprintln(vs@G@(s...), vb@G@(1, s...), vfwd@G@(s[1:]...))\n\t\tt := []string{\"x\", \"y\"}\n\t\tprintln(vstr@G@(\"+\", t...))"},
			{"nil spread", "f(nil...)", "var s []int32\n\t\tprintln(vs@G@(s...), vb@G@(1, s...), vs@G@([]int32{}...))"},
			{"nil-ness of the parameter", "xs == nil", "var s []int32\n\t\tprintln(vnil@G@(), vnil@G@(1), vnil@G@(s...), vnil@G@([]int32{}...))"},
			{"spread aliases the caller's slice", "f(s...) stores into s", "s := []int32{4, 5, 6}\n\t\tvmod@G@(s...)\n\t\tprintln(s[0], s[1])\n\t\tvmod@G@(s[1:]...)\n\t\tprintln(s[0], s[1])\n\t\tvmod@G@()\n\t\tvmod@G@(1, 2)"},
			{"interface elements", "f(1, \"a\", nil, 2.5)", "println(vany@G@(), vany@G@(int32(1)), vany@G@(int32(1), \"a\", nil, 2.5, true))"},
		}
		var items []Item
		for _, c := range calls {
			items = append(items, Item{Key: "func|variadic|" + c.key, Desc: c.desc, Stmts: "\t\t" + c.st})
		}
		sc = append(sc, funcScen{desc: "variadic", decls: decls, multipleItems: items})
	}

	// ---- closures
	add("func|closure|by-reference counter", "closure increments a captured local", "",
		"\t\tx := int32(1)\n\t\tinc := func() int32 {\n\t\t\tx++\n\t\t\treturn x\n\t\t}\n\t\tprintln(inc(), inc(), x)\n\t\tx = 10\n\t\tprintln(inc(), x)")
	add("func|closure|two closures share a variable", "getter/setter", "",
		"\t\tx := int32(0)\n\t\tset := func(v int32) { x = v }\n\t\tget := func() int32 { return x }\n\t\tset(5)\n\t\tprintln(get(), x)\n\t\tx = 7\n\t\tprintln(get())\n\t\tset(get() + 1)\n\t\tprintln(x)")
	add("func|closure|captures parameter and named result", "", "func cp@G@(p int32) (r int32) {\n\tf := func() {\n\t\tp += 2\n\t\tr = p * 10\n\t}\n\tf()\n\tf()\n\treturn\n}\n",
		"\t\tprintln(cp@G@(1), cp@G@(-4))")
	add("func|closure|returned from a function", "independent instances of the captured variable",
		"func mk@G@(k int32) func() int32 {\n\treturn func() int32 {\n\t\tk++\n\t\treturn k\n\t}\n}\nfunc mk2@G@() (func(), func() int32) {\n\tv := int32(0)\n\treturn func() { v += 3 }, func() int32 { return v }\n}\n",
		"\t\tc1, c2 := mk@G@(0), mk@G@(100)\n\t\tprintln(c1(), c1(), c2(), c1())\n\t\tadd, get := mk2@G@()\n\t\tadd()\n\t\tadd()\n\t\tprintln(get())\n\t\tadd2, get2 := mk2@G@()\n\t\tadd2()\n\t\tprintln(get(), get2())")
	add("func|closure|stored in struct, slice and map", "", "type holder@G@ struct {\n\tf func(int32) int32\n\tn int32\n}\n",
		"\t\tbase := int32(10)\n\t\th := holder@G@{func(v int32) int32 { return v + base }, 1}\n\t\tprintln(h.f(h.n))\n\t\tbase = 20\n\t\tprintln(h.f(h.n))\n\t\tfs := []func() int32{func() int32 { return base }, func() int32 { return base * 2 }}\n\t\tprintln(fs[0](), fs[1](), len(fs))\n\t\tm := map[string]func(int32) int32{\"dbl\": func(v int32) int32 { return v * 2 }}\n\t\tprintln(m[\"dbl\"](21))")
	add("func|closure|passed as argument", "", "func apply@G@(n int32, f func(int32) int32) int32 {\n\tr := int32(0)\n\tfor i := int32(0); i < n; i++ {\n\t\tr += f(i)\n\t}\n\treturn r\n}\n",
		"\t\tk := int32(3)\n\t\tprintln(apply@G@(4, func(i int32) int32 { return i * k }))\n\t\tcalls := int32(0)\n\t\tprintln(apply@G@(3, func(i int32) int32 {\n\t\t\tcalls++\n\t\t\treturn 1\n\t\t}), calls)")
	add("func|closure|immediately invoked", "", "",
		"\t\tx := int32(2)\n\t\ty := func(v int32) int32 {\n\t\t\tx += v\n\t\t\treturn x * 2\n\t\t}(5)\n\t\tprintln(x, y)\n\t\tfunc() { x = 0 }()\n\t\tprintln(x)")
	add("func|closure|nil func value", "", "",
		"\t\tvar f func() int32\n\t\tprintln(f == nil)\n\t\tf = func() int32 { return 4 }\n\t\tprintln(f == nil, f != nil, f())\n\t\tg := f\n\t\tf = func() int32 { return 5 }\n\t\tprintln(g(), f())")
	add("func|closure|captures struct, array and slice variables", "", "type cs@G@ struct{ a, b int32 }\n",
		"\t\ts := cs@G@{1, 2}\n\t\tarr := [2]int32{3, 4}\n\t\tsl := []int32{5, 6}\n\t\tf := func() {\n\t\t\ts.a += 10\n\t\t\tarr[1] += 10\n\t\t\tsl[0] += 10\n\t\t\tsl = append(sl, 7)\n\t\t}\n\t\tf()\n\t\tprintln(s.a, s.b, arr[0], arr[1], sl[0], len(sl))\n\t\ts = cs@G@{0, 0}\n\t\tf()\n\t\tprintln(s.a, arr[1], sl[0], len(sl))")
	add("func|closure|nested, outer closure captures too", "closure inside closure, both capture", "",
		"\t\ty := int32(5)\n\t\tmk := func(k int32) func() int32 {\n\t\t\treturn func() int32 {\n\t\t\t\tk++\n\t\t\t\treturn k + y\n\t\t\t}\n\t\t}\n\t\tc1, c2 := mk(0), mk(10)\n\t\tprintln(c1(), c1(), c2())\n\t\ty = 100\n\t\tprintln(c1(), c2())")
	add("func|closure|nested, outer function literal captures nothing", "inner closure captures the literal's parameter", "",
		"\t\tmk := func(k int32) func() int32 {\n\t\t\treturn func() int32 {\n\t\t\t\tk++\n\t\t\t\treturn k\n\t\t\t}\n\t\t}\n\t\tc1 := mk(0)\n\t\tprintln(c1(), c1())")
	add("func|closure|nested, literal without captures called twice", "", "",
		"\t\tmk := func(k int32) func() int32 {\n\t\t\treturn func() int32 { return k * 2 }\n\t\t}\n\t\tc1, c2 := mk(1), mk(2)\n\t\tprintln(c1(), c2())")
	add("func|closure|three levels", "", "",
		"\t\ta := int32(1)\n\t\tf := func() func() func() int32 {\n\t\t\tb := a + 1\n\t\t\treturn func() func() int32 {\n\t\t\t\tc := b + 1\n\t\t\t\treturn func() int32 {\n\t\t\t\t\ta++\n\t\t\t\t\treturn a + b + c\n\t\t\t\t}\n\t\t\t}\n\t\t}\n\t\tg := f()()\n\t\tprintln(g(), g(), a)")
	for _, n := range []int{0, 1, 3} {
		add("func|closure-in-loop|per-iteration copy", fmt.Sprintf("for3 loop n=%d, closures called after the loop", n), "",
			fmt.Sprintf("\t\tvar fs []func() int32\n\t\tfor i := int32(0); i < %d; i++ {\n\t\t\tj := i\n\t\t\tfs = append(fs, func() int32 {\n\t\t\t\tj += 10\n\t\t\t\treturn j\n\t\t\t})\n\t\t}\n\t\tprintln(len(fs))\n\t\tfor _, f := range fs {\n\t\t\tprintln(f(), f())\n\t\t}", n))
		add("func|closure-in-loop|called inside the iteration", fmt.Sprintf("for3 loop n=%d, loop variable captured directly", n), "",
			fmt.Sprintf("\t\ts := int32(0)\n\t\tfor i := int32(0); i < %d; i++ {\n\t\t\tf := func() int32 { return i * 2 }\n\t\t\ts += f()\n\t\t\tfunc() { s += i }()\n\t\t}\n\t\tprintln(s)", n))
	}
	add("func|closure-in-loop|range, per-iteration copy", "", "",
		"\t\tvar fs []func() int32\n\t\tfor i, v := range []int32{7, 8, 9} {\n\t\t\ti2, v2 := int32(i), v\n\t\t\tfs = append(fs, func() int32 { return i2*100 + v2 })\n\t\t}\n\t\tfor _, f := range fs {\n\t\t\tprintln(f())\n\t\t}")
	add("func|closure-in-loop|range, called inside the iteration", "", "",
		"\t\ts := int32(0)\n\t\tfor i, v := range []int32{7, 8, 9} {\n\t\t\tf := func() int32 { return int32(i)*100 + v }\n\t\t\ts += f()\n\t\t}\n\t\tprintln(s)")
	add("func|closure-in-loop|shared accumulator", "closures created in a loop share one outer variable", "",
		"\t\tacc := int32(0)\n\t\tvar fs []func()\n\t\tfor i := int32(1); i <= 3; i++ {\n\t\t\tk := i\n\t\t\tfs = append(fs, func() { acc = acc*10 + k })\n\t\t}\n\t\tfor _, f := range fs {\n\t\t\tf()\n\t\t}\n\t\tprintln(acc)")

	// ---- methods: receivers, method values, method expressions
	mdecl := `type T@G@ struct{ a, b int32 }

func (t *T@G@) Inc(d int32)  { t.a += d }
func (t *T@G@) Sum() int32   { return t.a + t.b }
func (t *T@G@) Self() *T@G@  { return t }
func (t *T@G@) Add(d int32) *T@G@ {
	t.a += d
	return t
}
`
	add("func|method|pointer receiver mutates", "auto-address of an addressable value", mdecl,
		"\t\tt := T@G@{1, 2}\n\t\tt.Inc(5)\n\t\tprintln(t.a, t.Sum())\n\t\tp := &t\n\t\tp.Inc(1)\n\t\tprintln(t.a, p.Sum(), (&t).Sum())\n\t\tprintln(t.Add(1).Add(2).Sum(), t.a)\n\t\tprintln(p.Self() == p)")
	add("func|method|on slice element and struct field", "", mdecl+"type W@G@ struct{ in T@G@ }\n",
		"\t\ts := []T@G@{{1, 1}, {2, 2}}\n\t\ts[1].Inc(10)\n\t\tprintln(s[0].a, s[1].a, s[1].Sum())\n\t\tw := W@G@{T@G@{3, 4}}\n\t\tw.in.Inc(1)\n\t\tprintln(w.in.a)\n\t\tarr := [2]T@G@{}\n\t\tarr[0].Inc(3)\n\t\tprintln(arr[0].a, arr[1].a)")
	add("func|method-value|pointer receiver binds the pointer", "", mdecl,
		"\t\tt := T@G@{1, 2}\n\t\tf := t.Sum\n\t\tg := t.Inc\n\t\tt.a = 100\n\t\tprintln(f())\n\t\tg(5)\n\t\tprintln(t.a, f())\n\t\tp := &t\n\t\th := p.Sum\n\t\tp = &T@G@{0, 0}\n\t\tprintln(h(), p.Sum())")
	add("func|method-value|passed and stored", "", mdecl+"func call@G@(f func() int32) int32 { return f() * 2 }\n",
		"\t\tt := &T@G@{1, 2}\n\t\tprintln(call@G@(t.Sum))\n\t\tfs := []func(int32){t.Inc, t.Inc}\n\t\tfs[0](1)\n\t\tfs[1](2)\n\t\tprintln(t.a)")
	add("func|method-expression|(*T).M", "", mdecl,
		"\t\tt := T@G@{1, 2}\n\t\tf := (*T@G@).Sum\n\t\tg := (*T@G@).Inc\n\t\tg(&t, 4)\n\t\tprintln(f(&t))")
	add("func|method-value|from interface", "", mdecl+"type S@G@ interface{ Sum() int32 }\n",
		"\t\tt := &T@G@{1, 2}\n\t\tvar i S@G@ = t\n\t\tf := i.Sum\n\t\tt.a = 50\n\t\tprintln(f())\n\t\ti = &T@G@{0, 7}\n\t\tprintln(f(), i.Sum())")
	add("func|method|on named non-struct types", "named integer, slice and func types",
		"type MI@G@ int32\n\nfunc (m *MI@G@) Bump()     { *m += 1 }\nfunc (m *MI@G@) Val() int32 { return int32(*m) * 2 }\n\ntype SL@G@ []int32\n\nfunc (s *SL@G@) Push(v int32) { *s = append(*s, v) }\nfunc (s *SL@G@) Len() int32   { return int32(len(*s)) }\n",
		"\t\tvar m MI@G@ = 3\n\t\tm.Bump()\n\t\tprintln(int32(m), m.Val())\n\t\tvar s SL@G@\n\t\ts.Push(1)\n\t\ts.Push(2)\n\t\tprintln(s.Len(), s[1])")
	vdecl := `type V@G@ struct{ a, b int32 }

func (v V@G@) Sum() int32 { return v.a + v.b }
func (v V@G@) Bump() V@G@ {
	v.a += 100
	return v
}
func (v *V@G@) PInc() { v.a++ }
`
	add("func|value-receiver|call on value", "v.M() with value receiver", vdecl,
		"\t\tv := V@G@{1, 2}\n\t\tprintln(v.Sum())")
	add("func|value-receiver|receiver is a copy", "", vdecl,
		"\t\tv := V@G@{1, 2}\n\t\tw := v.Bump()\n\t\tprintln(v.a, w.a)\n\t\tv.PInc()\n\t\tprintln(v.a, v.Sum())")
	add("func|value-receiver|call through pointer", "p.M() auto-dereferences", vdecl,
		"\t\tp := &V@G@{1, 2}\n\t\tprintln(p.Sum())\n\t\tp.PInc()\n\t\tprintln(p.Sum(), p.Bump().a, p.a)")
	add("func|value-receiver|method value copies the receiver", "", vdecl,
		"\t\tv := V@G@{1, 2}\n\t\tf := v.Sum\n\t\tv.a = 100\n\t\tprintln(f(), v.Sum())")
	add("func|value-receiver|method expression T.M", "", vdecl,
		"\t\tv := V@G@{1, 2}\n\t\tf := V@G@.Sum\n\t\tprintln(f(v))\n\t\tg := (*V@G@).Sum\n\t\tprintln(g(&v))")
	// every way of reaching a value-receiver method through a pointer, followed by fresh allocations:
	// if the call dropped a reference of the receiver's block, the new objects reuse it
	for _, form := range [][3]string{
		{"p.M()", "", "println(p.Sum())"},
		{"method value p.M", "f := p.Sum", "println(f())"},
		{"method expression (*T).M", "g := (*V@G@).Sum", "println(g(p))"},
		{"method expression T.M", "h := V@G@.Sum", "println(h(*p))"},
		{"through interface", "var s interface{ Sum() int32 } = p", "println(s.Sum())"},
		{"deferred", "", "func() {\n\t\t\tdefer p.Sum()\n\t\t}()"},
	} {
		add("func|value-receiver|receiver stays alive|"+form[0], "the receiver's block must survive the call", vdecl,
			"\t\tp := &V@G@{1, 2}\n\t\t"+form[1]+"\n\t\t"+form[2]+"\n\t\t"+form[2]+"\n\t\tq := &V@G@{7, 8}\n\t\tr := &V@G@{9, 10}\n\t\tprintln(p.a, p.b, q.a, r.b)")
	}
	add("func|value-receiver|on named integer", "", "type VI@G@ int32\n\nfunc (m VI@G@) Twice() int32 { return int32(m) * 2 }\n",
		"\t\tvar m VI@G@ = 21\n\t\tprintln(m.Twice(), VI@G@(4).Twice())")

	// ---- defer
	for n := 1; n <= 3; n++ {
		var b strings.Builder
		for i := 0; i < n; i++ {
			fmt.Fprintf(&b, "\tdefer println(\"d\", %d)\n", i)
		}
		add("func|defer|LIFO order", fmt.Sprintf("%d deferred calls", n), "func df@G@() {\n"+b.String()+"\tprintln(\"body\")\n}\n", "\t\tdf@G@()\n\t\tprintln(\"after\")")
	}
	add("func|defer|arguments evaluated at the defer statement", "", "func df@G@() {\n\tx := int32(1)\n\tdefer println(\"arg\", x)\n\tx = 2\n\tdefer func() { println(\"closure\", x) }()\n\tx = 3\n\tdefer func(v int32) { println(\"param\", v, x) }(x)\n\tx = 4\n}\n", "\t\tdf@G@()")
	for _, n := range []int{0, 1, 3} {
		add("func|defer|in loop", fmt.Sprintf("n=%d", n), fmt.Sprintf("func df@G@() {\n\tfor i := int32(0); i < %d; i++ {\n\t\tdefer println(\"d\", i)\n\t\tj := i * 10\n\t\tdefer func() { println(\"c\", j) }()\n\t}\n\tprintln(\"body\")\n}\n", n), "\t\tdf@G@()")
	}
	add("func|defer|function value evaluated at the defer statement", "", "func df@G@() {\n\tf := func() { println(\"first\") }\n\tdefer f()\n\tf = func() { println(\"second\") }\n\tf()\n}\n", "\t\tdf@G@()")
	add("func|defer|method call, receiver evaluated at the defer statement", "", mdecl+"func df@G@() {\n\tt := &T@G@{1, 2}\n\tdefer t.Inc(100)\n\tu := t\n\tt = &T@G@{5, 5}\n\tdefer func() { println(u.a, t.a) }()\n\tdefer u.Inc(1)\n}\n", "\t\tdf@G@()")
	add("func|defer|conditional", "", "func df@G@(c bool) {\n\tif c {\n\t\tdefer println(\"deferred\")\n\t}\n\tprintln(\"body\", c)\n}\n", "\t\tdf@G@(true)\n\t\tdf@G@(false)")
	add("func|defer|nested calls", "inner function's defers run at its own return", "func in@G@(k int32) int32 {\n\tdefer println(\"inner\", k)\n\treturn k * 2\n}\nfunc df@G@() {\n\tdefer println(\"outer\")\n\tprintln(in@G@(1))\n\tdefer println(in@G@(2))\n\tprintln(\"body\")\n}\n", "\t\tdf@G@()")
	add("func|defer|in recursion", "", "func df@G@(n int32) {\n\tif n == 0 {\n\t\tprintln(\"bottom\")\n\t\treturn\n\t}\n\tdefer println(\"up\", n)\n\tprintln(\"down\", n)\n\tdf@G@(n - 1)\n}\n", "\t\tdf@G@(3)")
	add("func|defer|inside closure", "", "", "\t\tx := int32(0)\n\t\tf := func() {\n\t\t\tdefer func() { x += 10 }()\n\t\t\tx++\n\t\t\tprintln(\"in\", x)\n\t\t}\n\t\tf()\n\t\tprintln(x)\n\t\tf()\n\t\tprintln(x)")
	add("func|defer|early return", "", "func df@G@(k int32) int32 {\n\tdefer println(\"d1\")\n\tif k == 0 {\n\t\treturn 10\n\t}\n\tdefer println(\"d2\")\n\tif k == 1 {\n\t\treturn 20\n\t}\n\tdefer println(\"d3\")\n\treturn 30\n}\n", "\t\tprintln(df@G@(0))\n\t\tprintln(df@G@(1))\n\t\tprintln(df@G@(2))")
	add("func|defer|multi-argument and string arguments", "", "func pr@G@(a int32, s string, b bool) { println(a, s, b) }\nfunc df@G@() {\n\ts := \"x\"\n\tfor i := int32(0); i < 2; i++ {\n\t\tdefer pr@G@(i, s, i == 1)\n\t\ts += \"y\"\n\t}\n}\n", "\t\tdf@G@()")

	for _, s := range sc {
		g := Group{Name: s.desc, Imports: s.imports, Decls: s.decls}
		if g.Name == "" {
			g.Name = s.key
		}
		if s.multipleItems != nil {
			g.Items = s.multipleItems
		} else {
			g.Name = strings.TrimPrefix(s.key, "func|")
			g.Items = []Item{{Key: s.key, Desc: s.desc, Stmts: s.stmts}}
		}
		f.Groups = append(f.Groups, g)
	}
	return f
}

// Pick2 is mc.Pick without the run.
func Pick2[T any](thorough bool, q, t T) T {
	if thorough {
		return t
	}
	return q
}
