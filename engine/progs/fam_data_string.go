//go:build go1.21

package progs

import (
	"fmt"
	"strconv"
	"unicode/utf8"
)

// FamDataString: string operations over the alphabet
// {"", "a", "é", "世", "😀", "a\x00b", "\xff" (invalid UTF-8)}: len, byte index, every slice
// s[i:j], concatenation and the six comparisons over all pairs, conversion to and from []byte and
// []rune, string(rune) over boundary code points, range.
//
// Strings are never printed raw when they may hold bytes that are not valid UTF-8 (the worker
// protocol is JSON); they are printed as (len, polynomial hash over the bytes) by sh@G@.
type strVal struct {
	lit   string // Go/Wa literal
	val   string
	class string
}

var strAlphabet = []strVal{
	{`""`, "", "empty"},
	{`"a"`, "a", "ascii"},
	{`"\u00e9"`, "\u00e9", "2-byte"},
	{`"\u4e16"`, "\u4e16", "3-byte"},
	{`"\U0001F600"`, "\U0001F600", "4-byte"},
	{`"a\x00b"`, "a\x00b", "nul"},
	{`"\xff"`, "\xff", "invalid-utf8"},
}

const strDecls = `func sh@G@(s string) uint64 {
	h := uint64(len(s))
	for i := 0; i < len(s); i++ {
		h = h*257 + uint64(s[i]) + 1
	}
	return h
}
func bh@G@(h uint64, b []byte) uint64 {
	h += uint64(len(b))
	for i := 0; i < len(b); i++ {
		h = h*257 + uint64(b[i]) + 1
	}
	return h
}
`

func FamDataString(thorough bool) Family {
	f := Family{Name: "data-string"}
	al := append([]strVal{}, strAlphabet...)
	if thorough {
		al = append(al,
			strVal{`"\u00e9\u4e16"`, "\u00e9\u4e16", "mixed"},
			strVal{`"\xe4\xb8"`, "\xe4\xb8", "truncated-utf8"},
			strVal{`"a\xffb"`, "a\xffb", "invalid-inside"},
			strVal{`"\xc0\x80"`, "\xc0\x80", "overlong-utf8"},
			strVal{`"\xed\xa0\x80"`, "\xed\xa0\x80", "surrogate-utf8"})
	}
	// unary operations
	g := Group{Name: "string unary", Decls: strDecls}
	for _, s := range al {
		g.Items = append(g.Items, Item{Key: "string|len-and-bytes|" + s.class, Desc: s.lit,
			Stmts: fmt.Sprintf("\t\ts := %s\n\t\tprintln(len(s), sh@G@(s))\n\t\tfor i := 0; i < len(s); i++ {\n\t\t\tprintln(int64(s[i]))\n\t\t}", s.lit)})
		if utf8.ValidString(s.val) {
			g.Items = append(g.Items, Item{Key: "string|println|" + s.class, Desc: s.lit, Stmts: fmt.Sprintf("\t\ts := %s\n\t\tprintln(s)\n\t\tprintln(s, s, 1)\n\t\tprint(s)\n\t\tprint(\"\\n\")", s.lit)})
		}
		g.Items = append(g.Items, Item{Key: "string|range|" + s.class, Desc: s.lit,
			Stmts: fmt.Sprintf("\t\ts := %s\n\t\tn := 0\n\t\tfor i, c := range s {\n\t\t\tprintln(i, int64(c))\n\t\t\tn++\n\t\t}\n\t\tprintln(n)", s.lit)})
		g.Items = append(g.Items, Item{Key: "string|range-concat|" + s.class, Desc: "range over x + " + s.lit + " + y",
			Stmts: fmt.Sprintf("\t\ts := \"x\" + %s + \"y\"\n\t\tfor i, c := range s {\n\t\t\tprintln(i, int64(c))\n\t\t}", s.lit)})
		g.Items = append(g.Items, Item{Key: "string|to-bytes|" + s.class, Desc: "[]byte(" + s.lit + ")",
			Stmts: fmt.Sprintf("\t\ts := %s\n\t\tb := []byte(s)\n\t\tprintln(len(b), bh@G@(0, b), string(b) == s, sh@G@(string(b)))\n\t\tif len(b) > 0 {\n\t\t\tt := string(b)\n\t\t\tb[0] ^= 1\n\t\t\tprintln(sh@G@(s), sh@G@(t), sh@G@(string(b)), t == s)\n\t\t}", s.lit)})
		g.Items = append(g.Items, Item{Key: "string|to-runes|" + s.class, Desc: "[]rune(" + s.lit + ")",
			Stmts: fmt.Sprintf("\t\ts := %s\n\t\tr := []rune(s)\n\t\tprintln(len(r))\n\t\tfor _, c := range r {\n\t\t\tprintln(int64(c))\n\t\t}\n\t\tt := string(r)\n\t\tprintln(len(t), sh@G@(t), t == s)", s.lit)})
		g.Items = append(g.Items, Item{Key: "string|append-to-bytes|" + s.class, Desc: "append([]byte, s...) and copy(b, s)",
			Stmts: fmt.Sprintf("\t\ts := %s\n\t\tb := append([]byte(\"x\"), s...)\n\t\tprintln(len(b), bh@G@(0, b))\n\t\tc := make([]byte, 2)\n\t\tprintln(copy(c, s), bh@G@(0, c))", s.lit)})
		g.Items = append(g.Items, Item{Key: "string|build-in-loop|" + s.class, Desc: "s += x three times",
			Stmts: fmt.Sprintf("\t\tx := %s\n\t\ts := \"\"\n\t\tfor i := 0; i < 3; i++ {\n\t\t\ts += x\n\t\t\ts += \"-\"\n\t\t}\n\t\tprintln(len(s), sh@G@(s))", s.lit)})
		g.Items = append(g.Items, Item{Key: "string|switch|" + s.class, Desc: "switch on " + s.lit,
			Stmts: fmt.Sprintf("\t\ts := %s\n\t\tswitch s {\n\t\tcase \"\":\n\t\t\tprintln(0)\n\t\tcase \"a\", \"b\":\n\t\t\tprintln(1)\n\t\tcase \"\\u00e9\":\n\t\t\tprintln(2)\n\t\tcase \"a\\x00b\":\n\t\t\tprintln(3)\n\t\tcase \"\\xff\":\n\t\t\tprintln(4)\n\t\tdefault:\n\t\t\tprintln(5)\n\t\t}", s.lit)})
	}
	f.Groups = append(f.Groups, g)

	// every slice s[i:j]
	g = Group{Name: "string slicing", Decls: strDecls}
	for _, s := range al {
		n := len(s.val)
		for i := 0; i <= n; i++ {
			for j := i; j <= n; j++ {
				g.Items = append(g.Items, Item{Key: "string|slice|" + s.class, Desc: fmt.Sprintf("%s[%d:%d]", s.lit, i, j),
					Stmts: fmt.Sprintf("\t\ts := %s\n\t\tt := s[%d:%d]\n\t\tprintln(len(t), sh@G@(t), t == s, sh@G@(s[%d:]), sh@G@(s[:%d]))", s.lit, i, j, i, j)})
			}
		}
	}
	f.Groups = append(f.Groups, g)

	// pairs: concatenation, comparison
	gc := Group{Name: "string concatenation", Decls: strDecls}
	gq := Group{Name: "string comparison", Decls: strDecls}
	for _, s := range al {
		for _, t := range al {
			gc.Items = append(gc.Items, Item{Key: "string|concat|" + s.class + "+" + t.class, Desc: s.lit + " + " + t.lit,
				Stmts: fmt.Sprintf("\t\ts := %s\n\t\tt := %s\n\t\tu := s + t\n\t\tprintln(len(u), sh@G@(u), sh@G@(s+t+s), u == t+s)\n\t\tif len(u) > 0 {\n\t\t\tprintln(int64(u[len(u)-1]), int64(u[0]))\n\t\t}", s.lit, t.lit)})
			gq.Items = append(gq.Items, Item{Key: "string|compare|" + s.class + "," + t.class, Desc: s.lit + " cmp " + t.lit,
				Stmts: fmt.Sprintf("\t\ts := %s\n\t\tt := %s\n\t\tprintln(s == t, s != t, s < t, s <= t, s > t, s >= t)", s.lit, t.lit)})
		}
	}
	// comparisons of strings with a common prefix (byte-wise lexical order)
	for _, p := range [][2]string{{`"ab"`, `"abc"`}, {`"abc"`, `"abd"`}, {`"a\u00e9"`, `"a\u4e16"`}, {`"\u4e16"`, `"\U0001F600"`}, {`"a\xff"`, `"a\u00e9"`}, {`"\xffa"`, `"\xffb"`}, {`"a\x00"`, `"a"`}, {`"Z"`, `"a"`}, {`"\uffff"`, `"\U00010000"`}} {
		for _, q := range [][2]string{p, {p[1], p[0]}} {
			gq.Items = append(gq.Items, Item{Key: "string|compare|common-prefix", Desc: q[0] + " cmp " + q[1],
				Stmts: fmt.Sprintf("\t\ts := %s\n\t\tt := %s\n\t\tprintln(s == t, s != t, s < t, s <= t, s > t, s >= t)", q[0], q[1])})
		}
	}
	f.Groups = append(f.Groups, gc, gq)

	// string(rune) and string(byte)
	g = Group{Name: "string from code point", Decls: strDecls}
	for _, r := range []int64{0, 0x61, 0x7f, 0x80, 0xe9, 0x7ff, 0x800, 0x4e16, 0xd7ff, 0xd800, 0xdfff, 0xe000, 0xfffd, 0xffff, 0x10000, 0x1f600, 0x10ffff, 0x110000, -1, 0x7fffffff} {
		cls := "valid"
		if r < 0 || r > 0x10ffff || (r >= 0xd800 && r <= 0xdfff) {
			cls = "invalid-code-point"
		}
		g.Items = append(g.Items, Item{Key: "string|from-rune|" + cls, Desc: "string(rune(" + strconv.FormatInt(r, 10) + "))",
			Stmts: fmt.Sprintf("\t\tvar r rune = %d\n\t\ts := string(r)\n\t\tprintln(len(s), sh@G@(s))\n\t\tt := string([]rune{r, 'x', r})\n\t\tprintln(len(t), sh@G@(t))", r)})
	}
	g.Items = append(g.Items, Item{Key: "string|from-byte", Desc: "string(rune(byte))", Stmts: "\t\tvar b byte = 233\n\t\ts := string(rune(b))\n\t\tprintln(len(s), sh@G@(s))\n\t\tt := string([]byte{b, 97})\n\t\tprintln(len(t), sh@G@(t))"})
	f.Groups = append(f.Groups, g)
	return f
}
