//go:build go1.21

// Package progs: differential execution of generated program families (Go vs Wa) with
// packing (many items per case, many cases per program) and refinement (on a mismatch the
// group is re-run one item per case so that every failing item is identified on its own).
package progs

import (
	"encoding/json"
	"fmt"
	"sort"
	"strings"
	"sync"
	"sync/atomic"
	"time"

	"wa-lang.org/wa/internal/zzverif/mc"
	"wa-lang.org/wa/internal/zzverif/wrun"
)

// Item is the unit of enumeration: a few statements that print their observation.
type Item struct {
	Key   string // canonical defect class if this item fails (e.g. "<<|int32|count>=width")
	Desc  string // human readable: the concrete operands
	Stmts string // Go/WaGo statements; may use names from the group's Setup and Decls
}

// Group is rendered as one case function when packed.
type Group struct {
	Name    string
	Imports []string // import paths needed by this group
	Decls   string   // top-level declarations (types, funcs); names must be unique per group: use the placeholder @G@
	Setup   string   // statements at the start of the case body
	Items   []Item
}

// Family is a named list of groups.
type Family struct {
	Name   string
	Groups []Group
}

type unit struct {
	g     *Group
	items []int // indices into g.Items rendered into this case
}

func render(units []unit) (src string) {
	imps := map[string]bool{}
	var decls, cases strings.Builder
	seenDecl := map[*Group]bool{}
	for ci, u := range units {
		for _, im := range u.g.Imports {
			imps[im] = true
		}
		gid := fmt.Sprintf("G%d", ci)
		if !seenDecl[u.g] || true {
			// Decls are instantiated per case so packed and refined renderings are independent.
			decls.WriteString(strings.ReplaceAll(u.g.Decls, "@G@", gid))
			decls.WriteString("\n")
			seenDecl[u.g] = true
		}
		fmt.Fprintf(&cases, "func Case%d() {\n", ci)
		cases.WriteString(strings.ReplaceAll(u.g.Setup, "@G@", gid))
		cases.WriteString("\n")
		for _, ii := range u.items {
			cases.WriteString("\t{\n")
			cases.WriteString(strings.ReplaceAll(u.g.Items[ii].Stmts, "@G@", gid))
			cases.WriteString("\n\t}\n\tprint(\"\\x02\\n\")\n")
		}
		cases.WriteString("}\n\n")
	}
	var b strings.Builder
	b.WriteString("package main\n\n")
	var il []string
	for im := range imps {
		il = append(il, im)
	}
	sort.Strings(il)
	for _, im := range il {
		fmt.Fprintf(&b, "import %q\n", im)
	}
	b.WriteString("\n")
	// a refined rendering may contain no item that uses an import any more
	for _, im := range il {
		if use, ok := dummyUse[im]; ok {
			fmt.Fprintf(&b, "var _ = %s\n", use)
		}
	}
	b.WriteString(decls.String())
	b.WriteString(cases.String())
	return b.String()
}

// Job/JobResult: the Wa side of one program, run in a worker subprocess.
type Job struct {
	Src  string
	N    int
	Mode string // "" / "wa": wasm build on the embedded engine; "native": linux/x64 executable
}
type JobResult struct {
	Res   []wrun.CaseResult
	WaSrc string
	Err   string
}

// HandleJob is the worker entry point.
func HandleJob(raw json.RawMessage) interface{} {
	var j Job
	if err := json.Unmarshal(raw, &j); err != nil {
		return JobResult{Err: err.Error()}
	}
	var res []wrun.CaseResult
	var wa string
	var err error
	if j.Mode == "native" {
		res, wa, err = wrun.RunNativeBatch(j.Src, j.N)
	} else {
		res, wa, err = wrun.RunWaBatch(j.Src, j.N)
	}
	out := JobResult{Res: res}
	if err != nil {
		out.Err = err.Error()
		out.WaSrc = wa
	}
	return out
}

// Options for Run.
type Options struct {
	// Ref selects the reference side: "" / "go" = host Go toolchain, "wa" = the wasm build on the
	// embedded engine. Impl selects the side under test: "" / "wa" or "native".
	Ref, Impl       string
	CasesPerProgram int
	KeyPrefix       string // e.g. "C01"
	// Compare decides whether a Wa result matches the Go reference; default: equal output and Wa ok.
	Compare func(goR, waR wrun.CaseResult) bool
}

func defaultCompare(g, w wrun.CaseResult) bool {
	return w.Status == "ok" && g.Out == w.Out
}

type progOutcome struct {
	goRes []wrun.CaseResult
	goErr error
	wa    JobResult
	waSt  string // pool status
	waSe  string
}

func runPrograms(r *mc.Run, pool *mc.Pool, srcs []string, ns []int, opt Options) []progOutcome {
	out := make([]progOutcome, len(srcs))
	var wg sync.WaitGroup
	wg.Add(1)
	go func() {
		defer wg.Done()
		if opt.Ref == "wa" {
			pool.Run(len(srcs), func(i int) interface{} { return Job{Src: srcs[i], N: ns[i], Mode: "wa"} }, 10*time.Minute, func(res mc.Result) {
				o := &out[res.Index]
				var jr JobResult
				if res.Status != "ok" {
					o.goErr = fmt.Errorf("reference (wasm build) worker %s: %s", res.Status, tailStr(res.Stderr, 400))
					return
				}
				if err := json.Unmarshal(res.Out, &jr); err != nil {
					o.goErr = err
					return
				}
				if jr.Err != "" {
					o.goErr = fmt.Errorf("reference (wasm build): %s", jr.Err)
					return
				}
				o.goRes = jr.Res
				for k := range o.goRes {
					if o.goRes[k].Status == "trap" {
						o.goRes[k].Status = "panic" // abnormal termination of the reference: out of domain
					}
				}
			})
			return
		}
		mc.ParallelFor(len(srcs), func(i int) {
			out[i].goRes, out[i].goErr = wrun.GoRef(srcs[i], ns[i])
		})
	}()
	pool.Run(len(srcs), func(i int) interface{} { return Job{Src: srcs[i], N: ns[i], Mode: opt.Impl} }, 10*time.Minute, func(res mc.Result) {
		o := &out[res.Index]
		o.waSt, o.waSe = res.Status, res.Stderr
		if res.Status == "ok" {
			if err := json.Unmarshal(res.Out, &o.wa); err != nil {
				o.waSt = "crash"
				o.waSe = "bad worker output: " + err.Error()
			}
		}
	})
	wg.Wait()
	return out
}

// Run executes every group of every family. Every item's output is terminated by a separator
// line, so a packed case is compared item by item; when the Wa side traps inside item k the
// items after k are re-run as a new case (repeatedly), so every failing item is identified on
// its own and no item is skipped.
func Run(r *mc.Run, pool *mc.Pool, fams []Family, opt Options) {
	if opt.CasesPerProgram == 0 {
		opt.CasesPerProgram = 40
	}
	cmp := opt.Compare
	if cmp == nil {
		cmp = defaultCompare
	}
	for fi := range fams {
		fam := &fams[fi]
		if r.Expired() {
			r.Cap("deadline before family " + fam.Name)
			return
		}
		var units []unit
		for gi := range fam.Groups {
			g := &fam.Groups[gi]
			all := make([]int, len(g.Items))
			for i := range all {
				all[i] = i
			}
			units = append(units, unit{g, all})
		}
		for round := 0; len(units) > 0; round++ {
			if r.Expired() {
				r.Cap("deadline in family " + fam.Name)
				return
			}
			units = runUnits(r, pool, fam, units, opt, cmp)
		}
	}
}

var (
	buildFailedMu  sync.Mutex
	buildFailed    = map[string]bool{}
	skippedSameKey atomic.Int64
)

// SkippedSameKey is the number of items not built individually because another item with the
// same violation key had already failed to build on its own.
func SkippedSameKey() int64 { return skippedSameKey.Load() }

const sep = "\x02\n"

// splitItems cuts a case output into per-item segments. complete = number of items whose
// separator was printed.
func splitItems(out string, n int) (segs []string, complete int, rest string) {
	for complete < n {
		i := strings.Index(out, sep)
		if i < 0 {
			break
		}
		segs = append(segs, out[:i])
		out = out[i+len(sep):]
		complete++
	}
	return segs, complete, out
}

// runUnits runs the units packed into programs and returns the units that still have to be run
// (the items after a trapping item; the units of a program that failed as a whole, split up).
func runUnits(r *mc.Run, pool *mc.Pool, fam *Family, units []unit, opt Options, cmp func(g, w wrun.CaseResult) bool) (todo []unit) {
	var srcs []string
	var ns []int
	var spans [][2]int
	for lo := 0; lo < len(units); lo += opt.CasesPerProgram {
		hi := min(lo+opt.CasesPerProgram, len(units))
		srcs = append(srcs, render(units[lo:hi]))
		ns = append(ns, hi-lo)
		spans = append(spans, [2]int{lo, hi})
	}
	outs := runPrograms(r, pool, srcs, ns, opt)
	for pi, o := range outs {
		us := units[spans[pi][0]:spans[pi][1]]
		if o.goErr != nil {
			r.HarnessError("family %s: Go reference failed: %v", fam.Name, o.goErr)
			continue
		}
		if o.waSt != "ok" || o.wa.Err != "" {
			// the whole program failed on the Wa side (compile error, compiler crash, hang):
			// split until the failing item is alone
			if len(us) > 1 {
				for _, u := range us {
					todo = append(todo, runUnits(r, pool, fam, []unit{u}, opt, cmp)...)
				}
				continue
			}
			u := us[0]
			if len(u.items) > 1 {
				// Try the first item alone. If it fails to build on its own, every other item
				// of the group with the same violation key would only repeat that key: those
				// are not built one by one (counted in skipped_same_key_after_build_failure).
				todo = append(todo, runUnits(r, pool, fam, []unit{{u.g, u.items[:1]}}, opt, cmp)...)
				rest := u.items[1:]
				buildFailedMu.Lock()
				failed := buildFailed[opt.KeyPrefix+"|"+u.g.Items[u.items[0]].Key]
				buildFailedMu.Unlock()
				if failed {
					var keep []int
					for _, ii := range rest {
						if u.g.Items[ii].Key != u.g.Items[u.items[0]].Key {
							keep = append(keep, ii)
						}
					}
					skippedSameKey.Add(int64(len(rest) - len(keep)))
					rest = keep
				}
				if len(rest) > 0 {
					h := (len(rest) + 1) / 2
					todo = append(todo, runUnits(r, pool, fam, []unit{{u.g, rest[:h]}}, opt, cmp)...)
					if h < len(rest) {
						todo = append(todo, runUnits(r, pool, fam, []unit{{u.g, rest[h:]}}, opt, cmp)...)
					}
				}
				continue
			}
			if o.goRes[0].Status != "ok" {
				continue // Go panics: out of domain
			}
			what := o.wa.Err
			if o.waSt != "ok" {
				what = "compiler " + o.waSt + ": " + tailStr(o.waSe, 600)
			}
			it := u.g.Items[u.items[0]]
			r.Evals.Add(1)
			buildFailedMu.Lock()
			buildFailed[opt.KeyPrefix+"|"+it.Key] = true
			buildFailedMu.Unlock()
			r.Report(opt.KeyPrefix+"|"+it.Key+"|compile", fmt.Sprintf("%s/%s %s: "+refName(opt)+" runs it (output %q) but the "+implName(opt)+" pipeline fails: %s", fam.Name, u.g.Name, it.Desc, clip(o.goRes[0].Out), firstLines(what, 3)),
				map[string]interface{}{"family": fam.Name, "group": u.g.Name, "item": it.Desc, "go_source": srcs[pi]})
			continue
		}
		for ci, u := range us {
			g, w := o.goRes[ci], o.wa.Res[ci]
			if w.Status == "missing" {
				// the process died in an earlier case of this program (native executables): run again
				todo = append(todo, u)
				continue
			}
			gs, gn, _ := splitItems(g.Out, len(u.items))
			ws, wn, wrest := splitItems(w.Out, len(u.items))
			for k, ii := range u.items {
				it := u.g.Items[ii]
				if k >= gn {
					// Go panicked in item gn (out of domain); items after it are re-run
					if k > gn {
						todo = append(todo, unit{u.g, u.items[k:]})
					}
					r.Distinct(fam.Name + "|go-panic")
					break
				}
				r.Evals.Add(1)
				if k < wn {
					gr, wr := wrun.CaseResult{Out: gs[k], Status: "ok"}, wrun.CaseResult{Out: ws[k], Status: "ok"}
					if cmp(gr, wr) {
						r.Distinct(fam.Name + "|" + gs[k])
						if k == len(u.items)/2 && r.WantSample() {
							r.Sample(map[string]interface{}{"family": fam.Name, "group": u.g.Name, "item": it.Desc, "stmts": it.Stmts, "go_and_wa_output": clip(gs[k])})
						}
						continue
					}
					r.Report(opt.KeyPrefix+"|"+it.Key, fmt.Sprintf("%s/%s %s: "+refName(opt)+" prints %q, "+implName(opt)+" prints %q", fam.Name, u.g.Name, it.Desc, clip(gs[k]), clip(ws[k])),
						map[string]interface{}{"family": fam.Name, "group": u.g.Name, "item": it.Desc, "stmts": it.Stmts, "go": gs[k], "wa": ws[k]})
					continue
				}
				// Wa did not complete item k: it trapped (or returned early) inside it
				r.Report(opt.KeyPrefix+"|"+it.Key, fmt.Sprintf("%s/%s %s: "+refName(opt)+" prints %q and continues, "+implName(opt)+" %s: %s (output of the item so far %q)", fam.Name, u.g.Name, it.Desc, clip(gs[k]), w.Status, w.Err, clip(wrest)),
					map[string]interface{}{"family": fam.Name, "group": u.g.Name, "item": it.Desc, "stmts": it.Stmts, "go": gs[k], "wa_status": w.Status, "wa_err": w.Err})
				if k+1 < len(u.items) {
					todo = append(todo, unit{u.g, u.items[k+1:]})
				}
				break
			}
		}
	}
	return todo
}

func refName(o Options) string {
	if o.Ref == "wa" {
		return "the wasm build"
	}
	return "Go"
}

func implName(o Options) string {
	if o.Impl == "native" {
		return "the native executable"
	}
	return "Wa"
}

func clip(s string) string {
	if len(s) > 160 {
		return s[:160] + "…"
	}
	return s
}

func tailStr(s string, n int) string {
	if len(s) > n {
		return s[len(s)-n:]
	}
	return s
}

func firstLines(s string, n int) string {
	ls := strings.Split(s, "\n")
	if len(ls) > n {
		ls = ls[:n]
	}
	return strings.Join(ls, " / ")
}

// dummyUse gives, per import path, an expression that references the package, so that a
// rendering in which no remaining item uses the import still compiles.
var dummyUse = map[string]string{
	"math":    "math.Pi",
	"strings": "strings.Contains",
	"bytes":   "bytes.Contains",
	"strconv": "strconv.Itoa",
	"sort":    "sort.Ints",
}
