//go:build go1.21

package progs

import (
	"fmt"
	"strings"
)

// FamDataSlice: every history of length <= maxLen over the operation alphabet
//
//	append1   a = append(a, v)            append2  a = append(a, v, w)
//	tail      a = a[1:]                   head     a = a[:1]            full  a = a[:cap(a)]
//	store-a   a[0] = v                    store-b  b[0] = v
//	copy      copy(a, b)                  alias    b = a                nil   a = nil
//
// on two slice variables a, b that start as aliases of one make([]int32, n, c). After every step
// the program prints len, nil-ness and the contents of both, and cap where the language fixes it.
//
// The generator carries a model (backing array identity, offset, len, cap, "cap known") that
//   - drops histories Go would panic on (index/slice out of range);
//   - knows when an append must stay in place (len+k <= cap: the language guarantees reuse of the
//     array) and when it must reallocate (len+k > cap). After a reallocation the new capacity is the
//     implementation's choice, so cap is not printed and the history may not apply append, [:cap]
//     or a [:1] whose legality would depend on the growth policy to that slice again: such
//     histories are outside the domain because their aliasing would depend on the growth factor.
type slm struct {
	arr      int // backing array id; 0 = nil slice
	off      int
	ln, cp   int
	capKnown bool
}

type slState struct {
	a, b    slm
	nextArr int
}

var sliceOps = []string{"append1", "append2", "tail", "head", "full", "store-a", "store-b", "copy", "alias", "nil"}

// apply returns the statement for op at step k, the key context, and ok=false if the history
// leaves the domain.
func (s *slState) apply(op string, k int) (stmt, ctx string, ok bool) {
	rel := "separate"
	if s.a.arr != 0 && s.a.arr == s.b.arr {
		rel = "aliased"
	}
	v := 10*(k+1) + 1
	switch op {
	case "append1", "append2":
		n := 1
		stmt = fmt.Sprintf("a = append(a, %d)", v)
		if op == "append2" {
			n = 2
			stmt = fmt.Sprintf("a = append(a, %d, %d)", v, v+1)
		}
		if !s.a.capKnown {
			return "", "", false
		}
		if s.a.ln+n <= s.a.cp {
			s.a.ln += n
			return stmt, rel + "|in-place", true
		}
		s.nextArr++
		s.a = slm{arr: s.nextArr, off: 0, ln: s.a.ln + n, cp: -1, capKnown: false}
		return stmt, rel + "|reallocates", true
	case "tail":
		if s.a.ln < 1 {
			return "", "", false
		}
		s.a.off++
		s.a.ln--
		if s.a.capKnown {
			s.a.cp--
		}
		return "a = a[1:]", rel, true
	case "head":
		if s.a.capKnown {
			if s.a.cp < 1 {
				return "", "", false
			}
		} else if s.a.ln < 1 {
			return "", "", false
		}
		s.a.ln = 1
		return "a = a[:1]", rel, true
	case "full":
		if !s.a.capKnown {
			return "", "", false
		}
		s.a.ln = s.a.cp
		return "a = a[:cap(a)]", rel, true
	case "store-a":
		if s.a.ln < 1 {
			return "", "", false
		}
		return fmt.Sprintf("a[0] = %d", v), rel, true
	case "store-b":
		if s.b.ln < 1 {
			return "", "", false
		}
		return fmt.Sprintf("b[0] = %d", v), rel, true
	case "copy":
		return "println(copy(a, b))", rel, true
	case "alias":
		s.b = s.a
		return "b = a", rel, true
	case "nil":
		s.a = slm{arr: 0, capKnown: true}
		return "a = nil", rel, true
	}
	panic("bad op")
}

func (s *slState) dump() string {
	ca, cb := "-1", "-1"
	if s.a.capKnown {
		ca = "cap(a)"
	}
	if s.b.capKnown {
		cb = "cap(b)"
	}
	return fmt.Sprintf("sd@G@(%s, a)\n\t\tsd@G@(%s, b)", ca, cb)
}

// the slice is not the first parameter: the WaGo parser takes `f(s []T` for a generic instantiation (see func|parameter|first parameter of slice type)
const sliceDecls = `func sd@G@(c int, s []int32) {
	e := int64(0)
	for _, v := range s {
		e = e*100 + int64(v)
	}
	println(len(s), c, s == nil, e)
}
`

func FamDataSlice(thorough bool) Family {
	f := Family{Name: "data-slice"}
	maxLen := 3
	inits := [][2]int{{2, 4}, {2, 2}}
	if thorough {
		maxLen = 4
		inits = [][2]int{{2, 4}, {2, 2}, {0, 2}, {3, 3}, {1, 3}}
	}
	for _, ini := range inits {
		var items []Item
		var rec func(hist []string)
		build := func(hist []string) (Item, bool) {
			st := &slState{nextArr: 1}
			st.a = slm{arr: 1, ln: ini[0], cp: ini[1], capKnown: true}
			st.b = st.a
			var b strings.Builder
			fmt.Fprintf(&b, "\t\ta := make([]int32, %d, %d)\n", ini[0], ini[1])
			for i := 0; i < ini[0]; i++ {
				fmt.Fprintf(&b, "\t\ta[%d] = %d\n", i, i+1)
			}
			b.WriteString("\t\tb := a\n")
			ctx := ""
			for k, op := range hist {
				stmt, c, ok := st.apply(op, k)
				if !ok {
					return Item{}, false
				}
				ctx = c
				b.WriteString("\t\t" + stmt + "\n\t\t" + st.dump() + "\n")
			}
			last := hist[len(hist)-1]
			return Item{
				Key:   "slice|" + last + "|" + ctx,
				Desc:  fmt.Sprintf("make([]int32, %d, %d); b := a; %s", ini[0], ini[1], strings.Join(hist, "; ")),
				Stmts: strings.TrimRight(b.String(), "\n"),
			}, true
		}
		// breadth first: shorter histories first
		for l := 1; l <= maxLen; l++ {
			rec = func(hist []string) {
				if len(hist) == l {
					if it, ok := build(hist); ok {
						items = append(items, it)
					}
					return
				}
				for _, op := range sliceOps {
					// prune: a prefix outside the domain cannot be extended
					if _, ok := build(append(append([]string{}, hist...), op)); !ok {
						continue
					}
					rec(append(append([]string{}, hist...), op))
				}
			}
			rec(nil)
		}
		const per = 120
		for lo := 0; lo < len(items); lo += per {
			hi := min(lo+per, len(items))
			f.Groups = append(f.Groups, Group{Name: fmt.Sprintf("make(%d,%d) histories %d-%d", ini[0], ini[1], lo, hi-1), Decls: sliceDecls, Items: items[lo:hi]})
		}
	}
	// three-index slices, slices of slices, slices of arrays: a small fixed matrix
	var items []Item
	for lo := 0; lo <= 2; lo++ {
		for hi := lo; hi <= 3; hi++ {
			for mx := hi; mx <= 4; mx++ {
				items = append(items, Item{Key: "slice|three-index", Desc: fmt.Sprintf("s[%d:%d:%d] of make(4,6)", lo, hi, mx),
					Stmts: fmt.Sprintf("\t\ts := make([]int32, 4, 6)\n\t\tfor i := range s {\n\t\t\ts[i] = int32(i + 1)\n\t\t}\n\t\tt := s[%d:%d:%d]\n\t\tsd@G@(cap(t), t)\n\t\tt = append(t, 9)\n\t\tsd@G@(-1, t)\n\t\tsd@G@(cap(s), s)", lo, hi, mx)})
			}
		}
	}
	for lo := 0; lo <= 3; lo++ {
		for hi := lo; hi <= 3; hi++ {
			items = append(items, Item{Key: "slice|of-array", Desc: fmt.Sprintf("arr[%d:%d] of [3]int32", lo, hi),
				Stmts: fmt.Sprintf("\t\tarr := [3]int32{1, 2, 3}\n\t\tt := arr[%d:%d]\n\t\tsd@G@(cap(t), t)\n\t\tif len(t) > 0 {\n\t\t\tt[0] = 50\n\t\t}\n\t\tprintln(arr[0], arr[1], arr[2])\n\t\tp := &arr\n\t\tu := p[%d:]\n\t\tsd@G@(cap(u), u)", lo, hi, lo)})
		}
	}
	items = append(items,
		Item{Key: "slice|literal-and-zero", Desc: "literals, nil, empty", Stmts: "\t\tvar z []int32\n\t\te := []int32{}\n\t\tm := make([]int32, 0)\n\t\tsd@G@(cap(z), z)\n\t\tsd@G@(cap(e), e)\n\t\tsd@G@(cap(m), m)\n\t\tl := []int32{3: 7, 1: 2}\n\t\tsd@G@(cap(l), l)\n\t\tsd@G@(0, z[0:0])\n\t\tprintln(len(z[:]), z[:] == nil)"},
		Item{Key: "slice|append-slice-spread", Desc: "append(a, b...)", Stmts: "\t\ta := make([]int32, 1, 8)\n\t\ta[0] = 1\n\t\tb := []int32{2, 3}\n\t\ta = append(a, b...)\n\t\ta = append(a, a...)\n\t\tsd@G@(cap(a), a)\n\t\tvar n []int32\n\t\ta = append(a, n...)\n\t\tn = append(n, n...)\n\t\tsd@G@(cap(a), a)\n\t\tprintln(n == nil)"},
		Item{Key: "slice|append-self-overlap", Desc: "append(a[:1], a[1:]...) and copy overlap", Stmts: "\t\ta := make([]int32, 4, 8)\n\t\tfor i := range a {\n\t\t\ta[i] = int32(i + 1)\n\t\t}\n\t\tb := append(a[:1], a[2:]...)\n\t\tsd@G@(cap(b), b)\n\t\tsd@G@(cap(a), a)\n\t\tprintln(copy(a[1:], a))\n\t\tsd@G@(cap(a), a)\n\t\tprintln(copy(a, a[2:]))\n\t\tsd@G@(cap(a), a)"},
		Item{Key: "slice|of-slices", Desc: "[][]int32 rows alias", Stmts: "\t\tg := make([][]int32, 2)\n\t\tg[0] = make([]int32, 2, 2)\n\t\tg[1] = g[0]\n\t\tg[1][0] = 5\n\t\tprintln(g[0][0], len(g), len(g[1]))\n\t\tg[0] = append(g[0], 6)\n\t\tg[0][0] = 7\n\t\tprintln(g[1][0], g[0][0], len(g[0]), len(g[1]))\n\t\tg = append(g, nil)\n\t\tprintln(len(g), g[2] == nil)"},
		Item{Key: "slice|passed-to-function", Desc: "callee stores and appends", Stmts: "\t\ta := make([]int32, 2, 4)\n\t\tsf@G@(8, a)\n\t\tsd@G@(cap(a), a)\n\t\tsd@G@(4, a[:3])\n\t\tb := make([]int32, 2, 2)\n\t\tsf@G@(8, b)\n\t\tsd@G@(cap(b), b)"},
		Item{Key: "slice|of-strings-and-structs", Desc: "element types other than int32", Stmts: "\t\tss := make([]string, 1, 3)\n\t\tss[0] = \"a\"\n\t\tt := append(ss, \"b\")\n\t\tu := append(ss, \"c\")\n\t\tprintln(t[1], u[1], len(ss))\n\t\tps := []sp@G@{{1, \"x\"}}\n\t\tqs := append(ps, sp@G@{2, \"y\"})\n\t\tqs[0].n = 9\n\t\tprintln(ps[0].n, qs[0].n, qs[1].s, len(qs))\n\t\tcopy(qs, qs[1:])\n\t\tprintln(qs[0].n, qs[0].s)"},
		Item{Key: "slice|bytes", Desc: "[]uint8 append/copy/index", Stmts: "\t\tb := make([]uint8, 0, 4)\n\t\tb = append(b, 250, 251)\n\t\tb = append(b, \"hi\"...)\n\t\tc := b[1:3]\n\t\tc[0]++\n\t\tprintln(len(b), int64(b[1]), int64(b[2]), int64(b[0]+10))\n\t\tprintln(copy(b, \"xyz\"), int64(b[0]), int64(b[3]))"},
	)
	f.Groups = append(f.Groups, Group{Name: "slice forms", Decls: sliceDecls + "type sp@G@ struct {\n\tn int32\n\ts string\n}\n\nfunc sf@G@(k int32, s []int32) {\n\ts[0] = k\n\ts = append(s, 9)\n\ts[1] = 7\n}\n", Items: items})
	return f
}
