//go:build go1.21

package progs

// The `types` family (C16): every type of bounded constructor depth placed in each of nine
// contexts, every program touching the value (zero value, assignment, comparison where the type
// is comparable, len / nil comparison where applicable). Items are independent: each carries its
// own declarations, so any subset of items renders to a complete program.

import (
	"fmt"
	"strings"
)

// Ty is a type of the family's grammar.
type Ty struct {
	Kind  string // int32 float64 string bool | ptr slice array map struct func iface named namedm namedv
	Elems []*Ty  // ptr/slice/array/named/namedm: [elem]; map: [key, elem]; struct: [a, b]; func: [param, result]
	Depth int
	Extra bool // built with the second representative (string): not nested further
}

var tyBases = []*Ty{{Kind: "int32"}, {Kind: "float64"}, {Kind: "string"}, {Kind: "bool"}}

func (t *Ty) under() *Ty {
	for t.Kind == "named" || t.Kind == "namedm" || t.Kind == "namedv" {
		t = t.Elems[0]
	}
	return t
}

// Comparable follows the Go specification.
func (t *Ty) Comparable() bool {
	switch u := t.under(); u.Kind {
	case "slice", "map", "func":
		return false
	case "array":
		return u.Elems[0].Comparable()
	case "struct":
		return u.Elems[0].Comparable() && u.Elems[1].Comparable()
	}
	return true
}

// Shape is the canonical spelling used in violation keys.
func (t *Ty) Shape() string {
	switch t.Kind {
	case "ptr":
		return "*" + t.Elems[0].Shape()
	case "slice":
		return "[]" + t.Elems[0].Shape()
	case "array":
		return "[2]" + t.Elems[0].Shape()
	case "map":
		return "map[" + t.Elems[0].Shape() + "]" + t.Elems[1].Shape()
	case "struct":
		return "struct{" + t.Elems[0].Shape() + ";" + t.Elems[1].Shape() + "}"
	case "func":
		return "func(" + t.Elems[0].Shape() + ")" + t.Elems[1].Shape()
	case "iface":
		return "interface{}"
	case "named":
		return "named(" + t.Elems[0].Shape() + ")"
	case "namedm":
		return "namedm(" + t.Elems[0].Shape() + ")"
	case "namedv":
		return "namedv(" + t.Elems[0].Shape() + ")"
	}
	return t.Kind
}

// Outer is the outermost constructor (for defined types with the constructor underneath): the
// coarse defect class used in violation keys, stable across depth bounds.
func (t *Ty) Outer() string {
	switch t.Kind {
	case "named", "namedm", "namedv":
		return t.Kind + "(" + t.Elems[0].Outer() + ")"
	case "int32", "float64", "string", "bool", "int64", "float32":
		return "basic"
	}
	for _, e := range t.Elems {
		if e.hasKind("namedv") {
			return t.Kind + "<namedv inside>"
		}
	}
	return t.Kind
}

func (t *Ty) hasKind(k string) bool {
	if t.Kind == k {
		return true
	}
	for _, e := range t.Elems {
		if e.hasKind(k) {
			return true
		}
	}
	return false
}

// Skeleton is the shape with the four basic types written as B: the defect class of a shape.
func (t *Ty) Skeleton() string {
	s := t.Shape()
	for _, b := range []string{"int32", "float64", "string", "bool"} {
		s = strings.ReplaceAll(s, b, "B")
	}
	return s
}

// validReceiverBase: Go allows methods on a defined type unless its underlying type is a pointer
// or an interface.
func validReceiverBase(t *Ty) bool {
	k := t.under().Kind
	return k != "ptr" && k != "iface"
}

func mk(kind string, elems ...*Ty) *Ty {
	d := 0
	for _, e := range elems {
		d = max(d, e.Depth)
	}
	return &Ty{Kind: kind, Elems: elems, Depth: d + 1}
}

func onlyInt32(t *Ty) bool {
	if len(t.Elems) == 0 {
		return t.Kind == "int32"
	}
	for _, e := range t.Elems {
		if !onlyInt32(e) {
			return false
		}
	}
	return true
}

// TypesUpTo enumerates the grammar. Depth 1 is complete. From depth 2 on the unary constructors
// are applied to every type of the previous depth, and the binary constructors (map, struct,
// func) get every type of the previous depth in one position and each representative in the
// other (int32; at depth 2 also string when nreps is 2, and those extra types are not nested
// further): the stated cap that keeps depth 3 at about nine thousand types. A method with a pointer receiver (namedm, the form Wa's own `func T.M()` syntax
// declares) is added wherever Go allows a receiver; a value receiver (namedv) on the basic types
// and on the depth-1 types over int32.
func TypesUpTo(depth int, nreps int) []*Ty {
	all := append([]*Ty{}, tyBases...)
	prev := append([]*Ty{}, tyBases...) // types of exactly the previous depth
	for d := 1; d <= depth; d++ {
		reps := []*Ty{tyBases[0], tyBases[2]}[:1]
		if d == 2 {
			reps = []*Ty{tyBases[0], tyBases[2]}[:nreps]
		}
		var cur []*Ty
		for _, e := range prev {
			if e.Extra {
				continue
			}
			cur = append(cur, mk("ptr", e), mk("slice", e), mk("array", e), mk("named", e))
			if validReceiverBase(e) {
				cur = append(cur, mk("namedm", e))
				if d == 1 || (d == 2 && onlyInt32(e)) {
					cur = append(cur, mk("namedv", e))
				}
			}
		}
		if d == 1 {
			cur = append(cur, &Ty{Kind: "iface", Depth: 1})
			for _, a := range tyBases {
				for _, b := range tyBases {
					cur = append(cur, mk("map", a, b), mk("struct", a, b), mk("func", a, b))
				}
			}
		} else {
			for _, e := range prev {
				if e.Extra {
					continue
				}
				for ri, r := range reps {
					var ts []*Ty
					if e.Comparable() {
						ts = append(ts, mk("map", e, r))
					}
					ts = append(ts, mk("map", r, e), mk("struct", e, r), mk("struct", r, e), mk("func", e, r), mk("func", r, e))
					for _, t := range ts {
						t.Extra = ri > 0
					}
					cur = append(cur, ts...)
				}
			}
		}
		all = append(all, cur...)
		prev = cur
	}
	return all
}

// TypeContexts are the nine placements.
var TypeContexts = []string{"global", "local", "param", "result", "multi-result", "field", "map-value", "closure", "iface-box"}

// TypeItem is one (type, context) program fragment, rendered in Go syntax (for the Go oracle)
// and in native .wa syntax (for the compiler under test) from the same template.
type TypeItem struct {
	Index   int
	Shape   string
	Skel    string
	Outer   string
	Context string
	Depth   int
	Decls   string // Go: package-level declarations (unique names)
	Body    string // Go: statements of the case function
	WaDecls string // .wa: the same declarations
	WaBody  string // .wa: the same statements
}

// syn writes one of the two concrete syntaxes.
type syn struct {
	wa     bool
	prefix string
	n      int
	decls  strings.Builder
}

// vdecl: a variable declaration (local or, with global=true, at package level).
func (r *syn) vdecl(global bool, name, typ string) string {
	if !r.wa {
		return "var " + name + " " + typ
	}
	if global {
		return "global " + name + ": " + typ
	}
	return name + ": " + typ
}

// vinit: a local variable declaration with an initial value.
func (r *syn) vinit(name, typ, val string) string {
	if !r.wa {
		return "var " + name + " " + typ + " = " + val
	}
	return name + ": " + typ + " = " + val
}

// field / param: "name T" or "name: T"
func (r *syn) nt(name, typ string) string {
	if r.wa {
		return name + ": " + typ
	}
	return name + " " + typ
}

// res: result part of a signature
func (r *syn) res(typ string) string {
	if typ == "" {
		return ""
	}
	if r.wa {
		return " => " + typ
	}
	return " " + typ
}

func (r *syn) typedecl(name, under string) string {
	if r.wa {
		return "type " + name + " :" + under
	}
	return "type " + name + " " + under
}

// expr renders the type expression, declaring defined types on the way.
func (r *syn) expr(t *Ty) string {
	switch t.Kind {
	case "ptr":
		return "*" + r.expr(t.Elems[0])
	case "slice":
		return "[]" + r.expr(t.Elems[0])
	case "array":
		return "[2]" + r.expr(t.Elems[0])
	case "map":
		return "map[" + r.expr(t.Elems[0]) + "]" + r.expr(t.Elems[1])
	case "struct":
		return "struct {\n\t" + r.nt("a", r.expr(t.Elems[0])) + "\n\t" + r.nt("b", r.expr(t.Elems[1])) + "\n}"
	case "func":
		return "func(" + r.expr(t.Elems[0]) + ")" + r.res(r.expr(t.Elems[1]))
	case "iface":
		return "interface{}"
	case "named", "namedm", "namedv":
		u := r.expr(t.Elems[0])
		r.n++
		name := fmt.Sprintf("%sN%d", r.prefix, r.n)
		r.decls.WriteString(r.typedecl(name, u) + "\n\n")
		switch {
		case t.Kind == "namedm" && r.wa:
			// Wa's own method syntax: the receiver is `this: *T`
			fmt.Fprintf(&r.decls, "func %s.Get() => int32 { return 7 }\n\n", name)
		case t.Kind == "namedm":
			fmt.Fprintf(&r.decls, "func (this *%s) Get() int32 { return 7 }\n\n", name)
		case t.Kind == "namedv":
			fmt.Fprintf(&r.decls, "func (%s) Get()%s { return 7 }\n\n", r.nt("x", name), r.res("int32"))
		}
		return name
	}
	return t.Kind
}

// touch: statements using variable v (addressable, of type t). The same text in both syntaxes.
func touch(t *Ty, v string) string {
	var b strings.Builder
	b.WriteString("\t{\n")
	fmt.Fprintf(&b, "\t\tw := %s\n\t\t%s = w\n", v, v)
	if t.Comparable() {
		fmt.Fprintf(&b, "\t\tprintln(%s == w)\n", v)
	}
	switch t.under().Kind {
	case "string", "slice", "array", "map":
		fmt.Fprintf(&b, "\t\tprintln(len(%s))\n", v)
	}
	switch t.under().Kind {
	case "ptr", "slice", "map", "func", "iface":
		fmt.Fprintf(&b, "\t\tprintln(%s == nil)\n", v)
	case "int32", "int64":
		fmt.Fprintf(&b, "\t\tprintln(%s + 1)\n", v)
	case "float64", "float32":
		fmt.Fprintf(&b, "\t\tprintln(%s < 1.5)\n", v)
	case "bool":
		fmt.Fprintf(&b, "\t\tprintln(!%s)\n", v)
	}
	if t.Kind == "namedm" || t.Kind == "namedv" {
		fmt.Fprintf(&b, "\t\tprintln(%s.Get())\n", v)
	}
	b.WriteString("\t}\n")
	return b.String()
}

func renderTypeItem(r *syn, p string, t *Ty, ctx string) (decls, body string) {
	te := r.expr(t)
	var d, b strings.Builder
	d.WriteString(r.decls.String())
	switch ctx {
	case "global":
		d.WriteString(r.vdecl(true, p+"g", te) + "\n\n")
		b.WriteString(touch(t, p+"g"))
	case "local":
		b.WriteString("\t" + r.vdecl(false, "v", te) + "\n")
		b.WriteString(touch(t, "v"))
	case "param":
		fmt.Fprintf(&d, "func %sp(%s, %s)%s {\n%s\treturn n + 1\n}\n\n", p, r.nt("a", te), r.nt("n", "int32"), r.res("int32"), touch(t, "a"))
		fmt.Fprintf(&b, "\t%s\n\tprintln(%sp(z, 3))\n", r.vdecl(false, "z", te), p)
	case "result":
		fmt.Fprintf(&d, "func %sr()%s {\n\t%s\n\treturn z\n}\n\n", p, r.res(te), r.vdecl(false, "z", te))
		fmt.Fprintf(&b, "\tv := %sr()\n", p)
		b.WriteString(touch(t, "v"))
	case "multi-result":
		fmt.Fprintf(&d, "func %sm()%s {\n\t%s\n\t%s\n\treturn x, 5, y\n}\n\n", p, r.res("("+te+", int32, "+te+")"), r.vdecl(false, "x", te), r.vdecl(false, "y", te))
		fmt.Fprintf(&b, "\tv, n, v2 := %sm()\n\tprintln(n)\n", p)
		b.WriteString(touch(t, "v"))
		b.WriteString(touch(t, "v2"))
	case "field":
		d.WriteString(r.typedecl(p+"S", "struct {\n\t"+r.nt("n", "int32")+"\n\t"+r.nt("f", te)+"\n\t"+r.nt("m", "int32")+"\n}") + "\n\n")
		fmt.Fprintf(&b, "\t%s\n\ts.n = 1\n\tt := s\n\ts = t\n\tprintln(s.n, t.m)\n", r.vdecl(false, "s", p+"S"))
		if t.Comparable() {
			b.WriteString("\tprintln(s == t)\n")
		}
		b.WriteString("\tv := s.f\n\ts.f = v\n")
		b.WriteString(touch(t, "v"))
	case "map-value":
		fmt.Fprintf(&b, "\tm := make(map[int32]%s)\n\t%s\n\tm[1] = z\n\tv := m[1]\n\tv2, ok := m[2]\n\tprintln(ok, len(m))\n", te, r.vdecl(false, "z", te))
		b.WriteString(touch(t, "v"))
		b.WriteString(touch(t, "v2"))
	case "closure":
		fmt.Fprintf(&b, "\t%s\n\tf := func()%s { return v }\n\tg := func(%s) { v = n }\n\tu := f()\n\tg(u)\n", r.vdecl(false, "v", te), r.res(te), r.nt("n", te))
		b.WriteString(touch(t, "v"))
	case "iface-box":
		fmt.Fprintf(&b, "\t%s\n\t%s\n\tu := i.(%s)\n\tu2, ok := i.(%s)\n\tprintln(ok)\n\tv = u2\n", r.vdecl(false, "v", te), r.vinit("i", "interface{}", "v"), te, te)
		b.WriteString(touch(t, "u"))
		b.WriteString(touch(t, "v"))
	default:
		panic("unknown context " + ctx)
	}
	return d.String(), b.String()
}

// MakeTypeItem builds the fragment for one type in one context.
func MakeTypeItem(index int, t *Ty, ctx string) TypeItem {
	p := fmt.Sprintf("T%d", index)
	it := TypeItem{Index: index, Shape: t.Shape(), Skel: t.Skeleton(), Outer: t.Outer(), Context: ctx, Depth: t.Depth}
	it.Decls, it.Body = renderTypeItem(&syn{prefix: p}, p, t, ctx)
	it.WaDecls, it.WaBody = renderTypeItem(&syn{prefix: p, wa: true}, p, t, ctx)
	return it
}

// TypeItems enumerates every (type, context) pair of the grammar up to the depth, simplest first.
func TypeItems(depth int, nreps int) []TypeItem {
	var out []TypeItem
	for _, t := range TypesUpTo(depth, nreps) {
		for _, c := range TypeContexts {
			out = append(out, MakeTypeItem(len(out), t, c))
		}
	}
	return out
}

// RenderTypeProgram renders any subset of items as one source with functions Case0..Case{n-1}:
// Go syntax (wa=false) or .wa syntax with `#wa:export case_<i>` directives (wa=true).
func RenderTypeProgram(items []TypeItem, wa bool) string {
	var b strings.Builder
	if !wa {
		b.WriteString("package main\n\n")
	}
	for _, it := range items {
		if wa {
			b.WriteString(it.WaDecls)
		} else {
			b.WriteString(it.Decls)
		}
	}
	for i, it := range items {
		if wa {
			fmt.Fprintf(&b, "#wa:export case_%d\nfunc Case%d() {\n%s}\n\n", i, i, it.WaBody)
		} else {
			fmt.Fprintf(&b, "func Case%d() {\n%s}\n\n", i, it.Body)
		}
	}
	b.WriteString("func main() {\n")
	for i := range items {
		fmt.Fprintf(&b, "\tCase%d()\n", i)
	}
	b.WriteString("}\n")
	return b.String()
}

// ---------------------------------------------------------------------------------------------
// The `calls` family (C16): calls whose results are dropped, deferred, destructured or forwarded.
// callee kind x use x result tuple; the tuples are drawn from the six basic value shapes and a
// set of composite types so that every order of wasm value types occurs in the result list.

// CallCallees and CallUses are the two small alphabets of the family.
var CallCallees = []string{"func", "method", "closure", "iface-method"}
var CallUses = []string{"defer", "discard", "multi-assign", "return-call"}

var callBasics = []*Ty{{Kind: "int32"}, {Kind: "int64"}, {Kind: "float32"}, {Kind: "float64"}, {Kind: "string"}, {Kind: "bool"}}

// CallTuples enumerates the result lists: every list of length 1..3 over the six basic types
// (quick: triples over int32, int64, float64, string), plus, for every composite type T of the
// set, T alone and T in every position next to int32 / float64.
func CallTuples(thorough bool) [][]*Ty {
	var out [][]*Ty
	b := callBasics
	for _, x := range b {
		out = append(out, []*Ty{x})
	}
	for _, x := range b {
		for _, y := range b {
			out = append(out, []*Ty{x, y})
		}
	}
	tri := []*Ty{b[0], b[1], b[3], b[4]}
	if thorough {
		tri = b
	}
	for _, x := range tri {
		for _, y := range tri {
			for _, z := range tri {
				out = append(out, []*Ty{x, y, z})
			}
		}
	}
	i32, f64 := b[0], b[3]
	comps := []*Ty{mk("ptr", i32), mk("slice", i32), mk("struct", i32, f64), {Kind: "iface", Depth: 1}}
	if thorough {
		comps = append(comps, mk("array", i32), mk("map", i32, i32), mk("func", i32, i32), mk("named", i32), mk("namedm", i32), mk("named", mk("struct", i32, f64)), mk("array", f64), mk("struct", f64, b[1]))
	}
	fill := []*Ty{i32, f64}
	for _, t := range comps {
		out = append(out, []*Ty{t})
		for _, x := range fill {
			out = append(out, []*Ty{t, x}, []*Ty{x, t})
		}
		for _, x := range fill {
			for _, y := range fill {
				out = append(out, []*Ty{t, x, y}, []*Ty{x, t, y}, []*Ty{x, y, t})
			}
		}
	}
	return out
}

func renderCallItem(r *syn, p, callee, use string, res []*Ty) (decls, body string) {
	tes := make([]string, len(res))
	for i, t := range res {
		tes[i] = r.expr(t)
	}
	rl := tes[0]
	if len(tes) > 1 {
		rl = "(" + strings.Join(tes, ", ") + ")"
	}
	sig := r.res(rl)
	var ret strings.Builder // body of a callee: zero values of every result type
	var names []string
	for i, te := range tes {
		n := fmt.Sprintf("r%d", i)
		names = append(names, n)
		ret.WriteString("\t" + r.vdecl(false, n, te) + "\n")
	}
	ret.WriteString("\treturn " + strings.Join(names, ", ") + "\n")
	var d strings.Builder
	d.WriteString(r.decls.String())
	var setup, call string
	switch callee {
	case "func":
		fmt.Fprintf(&d, "func %sf()%s {\n%s}\n\n", p, sig, ret.String())
		call = p + "f()"
	case "method", "iface-method":
		d.WriteString(r.typedecl(p+"M", "struct {\n\t"+r.nt("n", "int32")+"\n}") + "\n\n")
		if r.wa {
			fmt.Fprintf(&d, "func %sM.Get()%s {\n%s}\n\n", p, sig, ret.String())
		} else {
			fmt.Fprintf(&d, "func (this *%sM) Get()%s {\n%s}\n\n", p, sig, ret.String())
		}
		if callee == "method" {
			setup = "\tm := &" + p + "M{}\n"
			call = "m.Get()"
		} else {
			d.WriteString(r.typedecl(p+"I", "interface {\n\tGet()"+sig+"\n}") + "\n\n")
			setup = "\t" + r.vinit("i", p+"I", "&"+p+"M{}") + "\n"
			call = "i.Get()"
		}
	case "closure":
		setup = "\tc := func()" + sig + " {\n" + strings.ReplaceAll(ret.String(), "\t", "\t\t") + "\t}\n"
		call = "c()"
	default:
		panic("unknown callee " + callee)
	}
	var b strings.Builder
	lhs := make([]string, len(res))
	for i := range res {
		lhs[i] = fmt.Sprintf("a%d", i)
	}
	touchAll := func() {
		for i, t := range res {
			b.WriteString(touch(t, lhs[i]))
		}
	}
	switch use {
	case "defer":
		fmt.Fprintf(&d, "func %sd() {\n%s\tdefer %s\n\tprintln(1)\n}\n\n", p, setup, call)
		fmt.Fprintf(&b, "\t%sd()\n", p)
	case "discard":
		b.WriteString(setup)
		b.WriteString("\t" + call + "\n\tprintln(2)\n")
	case "multi-assign":
		b.WriteString(setup)
		b.WriteString("\t" + strings.Join(lhs, ", ") + " := " + call + "\n")
		touchAll()
	case "return-call":
		fmt.Fprintf(&d, "func %st()%s {\n%s\treturn %s\n}\n\n", p, sig, setup, call)
		b.WriteString("\t" + strings.Join(lhs, ", ") + " := " + p + "t()\n")
		touchAll()
	default:
		panic("unknown use " + use)
	}
	return d.String(), b.String()
}

// CallItems enumerates callee x use x result tuple. In the returned items Outer is
// "<callee>|<use>" and Context is "results=<n>" (the coarse defect class of the keys).
func CallItems(thorough bool) []TypeItem {
	var out []TypeItem
	for _, tup := range CallTuples(thorough) {
		var shapes, skels []string
		for _, t := range tup {
			shapes = append(shapes, t.Shape())
			skels = append(skels, t.Outer())
		}
		for _, callee := range CallCallees {
			for _, use := range CallUses {
				idx := len(out)
				p := fmt.Sprintf("K%d", idx)
				it := TypeItem{Index: idx, Shape: callee + " returning (" + strings.Join(shapes, ", ") + ")", Skel: strings.Join(skels, ","),
					Outer: callee + "|" + use, Context: fmt.Sprintf("results=%d", len(tup)), Depth: len(tup)}
				it.Decls, it.Body = renderCallItem(&syn{prefix: p}, p, callee, use, tup)
				it.WaDecls, it.WaBody = renderCallItem(&syn{prefix: p, wa: true}, p, callee, use, tup)
				out = append(out, it)
			}
		}
	}
	return out
}

// RenderFamilyPrograms renders a differential-execution family exactly as Run packs it
// (every group one case, casesPerProgram cases per program) and returns the sources with their
// case counts: the corpus of other checks as plain well-typed programs.
func RenderFamilyPrograms(f Family, casesPerProgram int) (srcs []string, ns []int) {
	var units []unit
	for gi := range f.Groups {
		g := &f.Groups[gi]
		all := make([]int, len(g.Items))
		for i := range all {
			all[i] = i
		}
		units = append(units, unit{g, all})
	}
	for lo := 0; lo < len(units); lo += casesPerProgram {
		hi := min(lo+casesPerProgram, len(units))
		srcs = append(srcs, render(units[lo:hi]))
		ns = append(ns, hi-lo)
	}
	return
}
