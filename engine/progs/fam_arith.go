//go:build go1.21

package progs

import (
	"fmt"
	"math"
	"math/big"
	"strconv"
)

// IntType describes an integer type of the shared Go/Wa subset.
type IntType struct {
	Name   string
	Bits   int
	Signed bool
}

var IntTypes = []IntType{
	{"int32", 32, true}, {"int64", 64, true}, {"uint8", 8, false}, {"uint16", 16, false},
	{"uint32", 32, false}, {"uint64", 64, false},
}

func (t IntType) min() *big.Int {
	if !t.Signed {
		return big.NewInt(0)
	}
	return new(big.Int).Neg(new(big.Int).Lsh(big.NewInt(1), uint(t.Bits-1)))
}
func (t IntType) max() *big.Int {
	b := t.Bits
	if t.Signed {
		b--
	}
	return new(big.Int).Sub(new(big.Int).Lsh(big.NewInt(1), uint(b)), big.NewInt(1))
}

// Alphabet returns the boundary operand values of the type as decimal literals.
func (t IntType) Alphabet() []string {
	var vs []*big.Int
	add := func(v *big.Int) {
		if v.Cmp(t.min()) < 0 || v.Cmp(t.max()) > 0 {
			return
		}
		for _, o := range vs {
			if o.Cmp(v) == 0 {
				return
			}
		}
		vs = append(vs, v)
	}
	for _, k := range []int64{0, 1, 2, 3, 7, -1, -2, -7} {
		add(big.NewInt(k))
	}
	add(t.min())
	add(new(big.Int).Add(t.min(), big.NewInt(1)))
	add(t.max())
	add(new(big.Int).Sub(t.max(), big.NewInt(1)))
	add(new(big.Int).Lsh(big.NewInt(1), uint(t.Bits-1)))                                  // 2^(w-1) (unsigned only)
	add(new(big.Int).Sub(new(big.Int).Lsh(big.NewInt(1), uint(t.Bits-1)), big.NewInt(1))) // 2^(w-1)-1
	add(new(big.Int).Lsh(big.NewInt(1), uint(t.Bits/2)))
	p55, pAA := new(big.Int), new(big.Int)
	for i := 0; i < t.Bits; i += 2 {
		p55.SetBit(p55, i, 1)
		pAA.SetBit(pAA, i+1, 1)
	}
	add(p55)
	add(pAA)
	out := make([]string, len(vs))
	for i, v := range vs {
		out[i] = v.String()
	}
	return out
}

func operandClass(t IntType, lit string) string {
	v, _ := new(big.Int).SetString(lit, 10)
	switch {
	case v.Sign() == 0:
		return "0"
	case v.Cmp(t.min()) == 0 && t.Signed:
		return "MIN"
	case v.Cmp(t.max()) == 0:
		return "MAX"
	case v.Cmp(big.NewInt(-1)) == 0:
		return "-1"
	case v.Sign() < 0:
		return "neg"
	}
	return "pos"
}

// FamIntBinary: every binary operator x every integer type x alphabet².
func FamIntBinary(types []IntType) Family {
	f := Family{Name: "int-binary"}
	arith := []string{"+", "-", "*", "/", "%", "&", "|", "^", "&^"}
	cmp := []string{"==", "!=", "<", "<=", ">", ">="}
	for _, t := range types {
		al := t.Alphabet()
		for _, op := range append(append([]string{}, arith...), cmp...) {
			g := Group{Name: op + " " + t.Name}
			for _, a := range al {
				for _, b := range al {
					if (op == "/" || op == "%") && b == "0" {
						continue // Go panics: outside the property's domain
					}
					key := fmt.Sprintf("%s|%s", op, t.Name)
					if op == "/" || op == "%" {
						key += "|" + operandClass(t, a) + "," + operandClass(t, b)
					}
					g.Items = append(g.Items, Item{
						Key:   key,
						Desc:  fmt.Sprintf("%s(%s) %s %s(%s)", t.Name, a, op, t.Name, b),
						Stmts: fmt.Sprintf("\t\tvar x %s = %s\n\t\tvar y %s = %s\n\t\tprintln(x %s y)", t.Name, a, t.Name, b, op),
					})
				}
			}
			f.Groups = append(f.Groups, g)
		}
	}
	return f
}

// FamIntUnary: -x ^x +x, and ++/-- wraparound.
func FamIntUnary(types []IntType) Family {
	f := Family{Name: "int-unary"}
	for _, t := range types {
		g := Group{Name: "unary " + t.Name}
		for _, a := range t.Alphabet() {
			for _, op := range []string{"-", "^", "+"} {
				g.Items = append(g.Items, Item{
					Key:   "unary" + op + "|" + t.Name,
					Desc:  fmt.Sprintf("%s%s(%s)", op, t.Name, a),
					Stmts: fmt.Sprintf("\t\tvar x %s = %s\n\t\tprintln(%sx)", t.Name, a, op),
				})
			}
			g.Items = append(g.Items, Item{
				Key:   "incdec|" + t.Name,
				Desc:  fmt.Sprintf("%s(%s)++ / --", t.Name, a),
				Stmts: fmt.Sprintf("\t\tvar x %s = %s\n\t\tx++\n\t\tprintln(x)\n\t\tx--\n\t\tx--\n\t\tprintln(x)\n\t\tx += 3\n\t\tx *= 5\n\t\tprintln(x)", t.Name, a),
			})
		}
		f.Groups = append(f.Groups, g)
	}
	return f
}

// FamShift: x << s and x >> s over the shift-count alphabet, with several count types.
func FamShift(types []IntType) Family {
	f := Family{Name: "shift"}
	counts := []int{0, 1, 2, 7, 8, 15, 16, 31, 32, 33, 63, 64, 65, 127, 128, 255}
	for _, t := range types {
		for _, ct := range []string{"uint32", "uint8", "uint64", "int32"} {
			g := Group{Name: "shift " + t.Name + " by " + ct}
			for _, a := range t.Alphabet() {
				for _, c := range counts {
					cls := "count<width"
					if c >= t.Bits {
						cls = "count>=width"
					}
					for _, op := range []string{"<<", ">>"} {
						g.Items = append(g.Items, Item{
							Key:   fmt.Sprintf("%s|%s|%s", op, t.Name, cls),
							Desc:  fmt.Sprintf("%s(%s) %s %s(%d)", t.Name, a, op, ct, c),
							Stmts: fmt.Sprintf("\t\tvar x %s = %s\n\t\tvar s %s = %d\n\t\tprintln(x %s s)", t.Name, a, ct, c, op),
						})
					}
				}
			}
			f.Groups = append(f.Groups, g)
		}
	}
	return f
}

// FamIntConv: every integer type to every integer type over the alphabet.
func FamIntConv(types []IntType) Family {
	f := Family{Name: "int-conv"}
	types = append(append([]IntType{}, types...), IntType{"rune", 32, true}, IntType{"byte", 8, false})
	for _, from := range types {
		g := Group{Name: "conv from " + from.Name}
		for _, to := range types {
			for _, a := range from.Alphabet() {
				g.Items = append(g.Items, Item{
					Key:  fmt.Sprintf("conv|%s->%s", from.Name, to.Name),
					Desc: fmt.Sprintf("%s(%s(%s))", to.Name, from.Name, a),
					// printed through int64/uint64: println renders rune and byte values as characters in Wa
					Stmts: fmt.Sprintf("\t\tvar x %s = %s\n\t\ty := %s(x)\n\t\tprintln(int64(y), uint64(y))", from.Name, a, to.Name),
				})
			}
		}
		f.Groups = append(f.Groups, g)
	}
	return f
}

// Float alphabet as Go literals / expressions valid in both languages.
type floatVal struct {
	Lit string // expression of type float64 (uses math.* for specials)
	V   float64
}

func floatAlphabet() []floatVal {
	vs := []float64{0, 0.5, 1, 1.5, 2.5, 0.1, 1e10, 16777217, 2147483647, 2147483648, 2147483649, 4294967295, 4294967296,
		9223372036854775807, 18446744073709551615, math.MaxFloat64, math.SmallestNonzeroFloat64, math.MaxFloat32, 3e9, 255.9, 256, 65535.5, 127.5, 128}
	var out []floatVal
	for _, v := range vs {
		out = append(out, floatVal{strconv.FormatFloat(v, 'g', -1, 64), v})
		if v != 0 {
			out = append(out, floatVal{strconv.FormatFloat(-v, 'g', -1, 64), -v})
		}
	}
	out = append(out, floatVal{"math.Copysign(0, -1)", math.Copysign(0, -1)}, floatVal{"math.Inf(1)", math.Inf(1)}, floatVal{"math.Inf(-1)", math.Inf(-1)}, floatVal{"math.NaN()", math.NaN()})
	return out
}

func floatLit(s string) string {
	// make sure a plain integer literal is a float constant
	for _, c := range s {
		if c == '.' || c == 'e' || c == 'm' {
			return s
		}
	}
	return s + ".0"
}

// FamFloat: float64/float32 arithmetic and comparisons (results printed as IEEE bit patterns; NaN
// results printed as "NaN" since payloads are not specified), float<->int conversions where Go
// defines the result (value in range after truncation).
func FamFloat(types []IntType) Family {
	f := Family{Name: "float"}
	full := floatAlphabet()
	// pairwise operators use a reduced alphabet (every special, signs, rounding and overflow
	// boundaries); conversions use the full one
	var al []floatVal
	keep := map[string]bool{"0": true, "0.5": true, "1": true, "-1": true, "1.5": true, "2.5": true, "-2.5": true, "0.1": true, "1e+10": true, "1.6777217e+07": true,
		"1.7976931348623157e+308": true, "-1.7976931348623157e+308": true, "5e-324": true, "3.4028234663852886e+38": true, "math.Copysign(0, -1)": true,
		"math.Inf(1)": true, "math.Inf(-1)": true, "math.NaN()": true}
	for _, v := range full {
		if keep[v.Lit] {
			al = append(al, v)
		}
	}
	for _, ft := range []struct{ name, bits, bitsFn string }{{"float64", "64", "math.Float64bits"}, {"float32", "32", "math.Float32bits"}} {
		for _, op := range []string{"+", "-", "*", "/"} {
			g := Group{Name: ft.name + " " + op, Imports: []string{"math"}}
			for _, a := range al {
				for _, b := range al {
					g.Items = append(g.Items, Item{
						Key:   op + "|" + ft.name,
						Desc:  fmt.Sprintf("%s(%s) %s %s(%s)", ft.name, a.Lit, op, ft.name, b.Lit),
						Stmts: fmt.Sprintf("\t\tvar xa float64 = %[3]s\n\t\tvar ya float64 = %[6]s\n\t\tvar x %[1]s = %[2]s(xa)\n\t\tvar y %[4]s = %[5]s(ya)\n\t\tz := x %[7]s y\n\t\tif z != z {\n\t\t\tprintln(\"NaN\")\n\t\t} else {\n\t\t\tprintln(%[8]s(z))\n\t\t}", ft.name, ft.name, floatLit(a.Lit), ft.name, ft.name, floatLit(b.Lit), op, ft.bitsFn),
					})
				}
			}
			f.Groups = append(f.Groups, g)
		}
		g := Group{Name: ft.name + " compare", Imports: []string{"math"}}
		for _, a := range al {
			for _, b := range al {
				g.Items = append(g.Items, Item{
					Key:   "cmp|" + ft.name,
					Desc:  fmt.Sprintf("%s(%s) cmp %s(%s)", ft.name, a.Lit, ft.name, b.Lit),
					Stmts: fmt.Sprintf("\t\tvar xa float64 = %[3]s\n\t\tvar ya float64 = %[6]s\n\t\tvar x %[1]s = %[2]s(xa)\n\t\tvar y %[4]s = %[5]s(ya)\n\t\tprintln(x == y, x != y, x < y, x <= y, x > y, x >= y, -x == y)", ft.name, ft.name, floatLit(a.Lit), ft.name, ft.name, floatLit(b.Lit)),
				})
			}
		}
		f.Groups = append(f.Groups, g)
		// float -> int where the truncated value is representable (Go leaves the rest implementation-defined)
		g2 := Group{Name: ft.name + " to int", Imports: []string{"math"}}
		for _, t := range types {
			for _, a := range full {
				v := a.V
				if ft.name == "float32" {
					v = float64(float32(v))
				}
				if math.IsNaN(v) || math.IsInf(v, 0) {
					continue
				}
				tr, _ := new(big.Float).SetFloat64(math.Trunc(v)).Int(nil)
				if tr.Cmp(t.min()) < 0 || tr.Cmp(t.max()) > 0 {
					continue
				}
				g2.Items = append(g2.Items, Item{
					Key:   fmt.Sprintf("conv|%s->%s", ft.name, t.Name),
					Desc:  fmt.Sprintf("%s(%s(%s))", t.Name, ft.name, a.Lit),
					Stmts: fmt.Sprintf("\t\tvar xa float64 = %[3]s\n\t\tvar x %[1]s = %[2]s(xa)\n\t\tprintln(%[4]s(x))", ft.name, ft.name, floatLit(a.Lit), t.Name),
				})
			}
		}
		f.Groups = append(f.Groups, g2)
		// int -> float, float32 <-> float64
		g3 := Group{Name: "int to " + ft.name, Imports: []string{"math"}}
		for _, t := range types {
			for _, a := range t.Alphabet() {
				g3.Items = append(g3.Items, Item{
					Key:   fmt.Sprintf("conv|%s->%s", t.Name, ft.name),
					Desc:  fmt.Sprintf("%s(%s(%s))", ft.name, t.Name, a),
					Stmts: fmt.Sprintf("\t\tvar x %s = %s\n\t\tprintln(%s(%s(x)))", t.Name, a, ft.bitsFn, ft.name),
				})
			}
		}
		f.Groups = append(f.Groups, g3)
	}
	g4 := Group{Name: "float width conversions", Imports: []string{"math"}}
	for _, a := range full {
		g4.Items = append(g4.Items, Item{
			Key:   "conv|float64->float32->float64",
			Desc:  "float64(float32(" + a.Lit + "))",
			Stmts: fmt.Sprintf("\t\tvar x float64 = %s\n\t\ty := float32(x)\n\t\tz := float64(y)\n\t\tif z != z {\n\t\t\tprintln(\"NaN\")\n\t\t} else {\n\t\t\tprintln(math.Float32bits(y), math.Float64bits(z))\n\t\t}", floatLit(a.Lit)),
		})
	}
	f.Groups = append(f.Groups, g4)
	return f
}
