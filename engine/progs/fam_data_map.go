//go:build go1.21

package progs

import (
	"fmt"
	"strings"
)

// FamDataMap: maps as sets of key/value pairs. For every key type, every history of length
// <= maxLen over {set k1, set k2, overwrite k1, delete k1, delete k2}; after every step: len,
// lookup (value, ok) of k1, k2 and an absent key k3, and an order-independent fold (sum) over
// range. Iteration order is never observed.
type mapKeyType struct {
	name       string
	typ        string
	k1, k2, k3 string
	decl       string
	num        string // expression converting key k to int64 for the fold ("" = not folded)
}

func FamDataMap(thorough bool) Family {
	f := Family{Name: "data-map"}
	kts := []mapKeyType{
		{"int32", "int32", "1", "-2", "3", "", "int64(k)"},
		{"string", "string", `"a"`, `"世"`, `""`, "", "int64(len(k))"},
		{"int64", "int64", "4294967296", "1", "0", "", "k"},
		{"uint8", "uint8", "255", "0", "7", "", "int64(k)"},
		{"bool", "bool", "true", "false", "false", "", ""},
		{"struct", "mk@G@", "mk@G@{1, 2}", "mk@G@{2, 1}", "mk@G@{1, 1}", "type mk@G@ struct{ a, b int32 }\n", "int64(k.a*10 + k.b)"},
		{"array", "[2]int32", "[2]int32{1, 2}", "[2]int32{2, 1}", "[2]int32{0, 0}", "", "int64(k[0]*10 + k[1])"},
		{"pointer", "*int32", "&mp@G@[0]", "&mp@G@[1]", "&mp@G@[2]", "var mp@G@ [3]int32\n", ""},
		{"uint64", "uint64", "18446744073709551615", "9223372036854775808", "1", "", "int64(k >> 40)"},
		{"interface", "interface{}", "int32(1)", `"1"`, "int64(1)", "", ""},
	}
	ops := []string{"set1", "set2", "over1", "del1", "del2"}
	maxLen := 3
	if thorough {
		maxLen = 4
	}
	for _, kt := range kts {
		var items []Item
		for l := 1; l <= maxLen; l++ {
			n := 1
			for i := 0; i < l; i++ {
				n *= len(ops)
			}
			for h := 0; h < n; h++ {
				var hist []string
				for i, x := 0, h; i < l; i++ {
					hist = append(hist, ops[x%len(ops)])
					x /= len(ops)
				}
				var b strings.Builder
				fmt.Fprintf(&b, "\t\tm := map[%s]int32{}\n", kt.typ)
				for k, op := range hist {
					v := 10*(k+1) + 1
					switch op {
					case "set1":
						fmt.Fprintf(&b, "\t\tm[%s] = %d\n", kt.k1, v)
					case "set2":
						fmt.Fprintf(&b, "\t\tm[%s] = %d\n", kt.k2, v)
					case "over1":
						fmt.Fprintf(&b, "\t\tm[%s] += %d\n", kt.k1, v+1)
					case "del1":
						fmt.Fprintf(&b, "\t\tdelete(m, %s)\n", kt.k1)
					case "del2":
						fmt.Fprintf(&b, "\t\tdelete(m, %s)\n", kt.k2)
					}
					b.WriteString("\t\tmd@G@(m)\n")
				}
				// with bool keys k3 == k2: still a legal program
				items = append(items, Item{Key: "map|" + kt.name + "|" + hist[len(hist)-1], Desc: kt.typ + ": " + strings.Join(hist, "; "), Stmts: strings.TrimRight(b.String(), "\n")})
			}
		}
		fold := "s += int64(v)"
		if kt.num != "" {
			fold = "s += int64(v) + 1000*(" + kt.num + ")"
		}
		decls := kt.decl + fmt.Sprintf(`func md@G@(m map[%[1]s]int32) {
	v1, ok1 := m[%[2]s]
	v2, ok2 := m[%[3]s]
	v3, ok3 := m[%[4]s]
	s, n := int64(0), 0
	for k, v := range m {
		_ = k
		%[5]s
		n++
	}
	println(len(m), n, v1, ok1, v2, ok2, v3, ok3, s, m[%[2]s])
}
`, kt.typ, kt.k1, kt.k2, kt.k3, fold)
		const per = 80
		for lo := 0; lo < len(items); lo += per {
			hi := min(lo+per, len(items))
			f.Groups = append(f.Groups, Group{Name: fmt.Sprintf("map[%s] histories %d-%d", kt.name, lo, hi-1), Decls: decls, Items: items[lo:hi]})
		}
	}
	// other map forms: one scenario per group (a construct the compiler rejects costs one key)
	add := func(key, decls, stmts string) {
		f.Groups = append(f.Groups, Group{Name: key, Decls: decls, Items: []Item{{Key: "map|" + key, Desc: key, Stmts: stmts}}})
	}
	add("nil map|len and comparison", "", "\t\tvar m map[int32]int32\n\t\tprintln(m == nil, len(m))\n\t\tm = map[int32]int32{}\n\t\tprintln(m == nil, len(m))")
	add("nil map|lookup, delete, range", "", "\t\tvar m map[int32]int32\n\t\tv, ok := m[1]\n\t\tprintln(v, ok, m[2])\n\t\tdelete(m, 1)\n\t\tn := 0\n\t\tfor range m {\n\t\t\tn++\n\t\t}\n\t\tprintln(n)")
	add("nil map|as zero value of struct field and parameter", "type hm@G@ struct{ m map[string]int32 }\n\nfunc ml@G@(m map[string]int32) int { return len(m) }\n", "\t\tvar h hm@G@\n\t\tprintln(h.m == nil, len(h.m), h.m[\"x\"], ml@G@(nil), ml@G@(h.m))\n\t\th.m = make(map[string]int32)\n\t\th.m[\"x\"] = 1\n\t\tprintln(h.m == nil, len(h.m), h.m[\"x\"], ml@G@(h.m))")
	add("literal|duplicate-free, len", "", "\t\tm := map[string]int32{\"a\": 1, \"b\": 2, \"\": 3}\n\t\tprintln(len(m), m[\"a\"], m[\"b\"], m[\"\"], m[\"c\"])\n\t\tn := map[int32]string{1: \"x\", -1: \"y\"}\n\t\tprintln(len(n), n[1], n[-1], n[0] == \"\")")
	add("make with size hint", "", "\t\tm := make(map[int32]int32, 10)\n\t\tprintln(len(m))\n\t\tm[1] = 2\n\t\tprintln(len(m), m[1])")
	add("reference semantics|alias and function argument", "func mset@G@(m map[int32]int32, k, v int32) { m[k] = v }\n", "\t\tm := map[int32]int32{}\n\t\tn := m\n\t\tn[1] = 5\n\t\tmset@G@(m, 2, 6)\n\t\tprintln(len(m), len(n), m[1], n[2])\n\t\tdelete(n, 1)\n\t\tprintln(len(m), m[1])")
	add("compound assignment|m[k]++ and op=", "", "\t\tm := map[string]int32{}\n\t\tm[\"a\"]++\n\t\tm[\"a\"]++\n\t\tm[\"b\"] -= 3\n\t\tm[\"a\"] *= 10\n\t\tm[\"c\"] |= 6\n\t\tprintln(len(m), m[\"a\"], m[\"b\"], m[\"c\"])")
	add("values|string, struct, slice, map, func", "type mv@G@ struct {\n\tn int32\n\ts string\n}\n", "\t\tms := map[int32]string{}\n\t\tms[1] += \"a\"\n\t\tms[1] += \"b\"\n\t\tprintln(ms[1], len(ms[2]))\n\t\tmt := map[int32]mv@G@{1: {5, \"x\"}}\n\t\tt := mt[1]\n\t\tt.n = 6\n\t\tprintln(mt[1].n, t.n, mt[2].n, mt[2].s == \"\")\n\t\tmt[1] = t\n\t\tprintln(mt[1].n)\n\t\tml := map[string][]int32{}\n\t\tml[\"k\"] = append(ml[\"k\"], 1)\n\t\tml[\"k\"] = append(ml[\"k\"], 2)\n\t\tprintln(len(ml[\"k\"]), ml[\"k\"][1], len(ml[\"z\"]), ml[\"z\"] == nil)\n\t\tmm := map[string]map[string]int32{}\n\t\tmm[\"a\"] = map[string]int32{}\n\t\tmm[\"a\"][\"b\"] = 7\n\t\tprintln(mm[\"a\"][\"b\"], len(mm[\"x\"]), mm[\"x\"][\"y\"])\n\t\tmp := map[int32]*mv@G@{1: {1, \"p\"}}\n\t\tmp[1].n++\n\t\tprintln(mp[1].n, mp[2] == nil)")
	add("many keys|insert 200, delete odd, fold", "", "\t\tm := map[int32]int32{}\n\t\tfor i := int32(0); i < 200; i++ {\n\t\t\tm[i*7%200] = i\n\t\t}\n\t\tprintln(len(m))\n\t\tfor i := int32(1); i < 200; i += 2 {\n\t\t\tdelete(m, i)\n\t\t}\n\t\ts, x := int64(0), int32(0)\n\t\tfor k, v := range m {\n\t\t\ts += int64(k)*1000 + int64(v)\n\t\t\tx ^= k\n\t\t}\n\t\tprintln(len(m), s, x)")
	add("string keys|equal content, different origin", "", "\t\tm := map[string]int32{}\n\t\ta := \"k\"\n\t\tb := string([]byte{107})\n\t\tc := \"xk\"[1:]\n\t\tm[a] = 1\n\t\tm[b] += 1\n\t\tm[c] += 1\n\t\tprintln(len(m), m[\"k\"])")
	add("float keys|+0 and -0, NaN", "", "\t\tm := map[float64]int32{}\n\t\tz := 0.0\n\t\tm[z] = 1\n\t\tm[-z] = 2\n\t\tprintln(len(m), m[0])\n\t\tnan := z / z\n\t\tm[nan] = 3\n\t\tm[nan] = 4\n\t\t_, ok := m[nan]\n\t\tprintln(len(m), ok)")
	add("range|delete every visited key", "", "\t\tm := map[int32]int32{1: 1, 2: 2, 3: 3}\n\t\tn := 0\n\t\tfor k, v := range m {\n\t\t\tdelete(m, k)\n\t\t\tn += int(v) * 0 + 1\n\t\t}\n\t\tprintln(n, len(m))")
	return f
}
