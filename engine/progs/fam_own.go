//go:build go1.21

package progs

// The `own` family (C11/C12): histories of ownership operations over a fixed set of variables.
// Every operation is total (guarded where Go would panic), so every history is in the domain.
// A history is rendered as ONE case function; after every operation the case prints an
// observation of everything reachable through every variable.
//
// The file also contains the reference heap-graph model used by C12 to decide whether a
// history creates a reference cycle (the only pointer-bearing heap objects that can point back
// to themselves are zzT nodes through .next, see OwnModel).

import (
	"fmt"
	"strings"
)

// OwnOp is one ownership operation. @N@ in Stmt is replaced by a literal unique to the position
// of the operation in its history (so nodes made at different steps are distinguishable).
type OwnOp struct {
	Name string
	Stmt string
}

// OwnOps is the frozen alphabet. Order = enumeration order (simplest first).
var OwnOps = []OwnOp{
	{"p=new", "p = &zzT{v: @N@}"},
	{"q=p", "q = p"},
	{"p=nil", "p = nil"},
	{"p.next=q", "if p != nil {\n\t\tp.next = q\n\t}"},
	{"q=p.next", "if p != nil {\n\t\tq = p.next\n\t}"},
	{"s=append(s,p)", "s = append(s, p)"},
	{"s=s[1:]", "if len(s) > 0 {\n\t\ts = s[1:]\n\t}"},
	{"s=nil", "s = nil"},
	{"t=s", "t = s"},
	{"m[k]=p", "m[1] = p"},
	{"delete(m,k)", "delete(m, 1)"},
	{"i=p", "if p != nil {\n\t\ti = p\n\t} else {\n\t\ti = nil\n\t}"},
	{"p=i.(*T)", "if x, ok := i.(*zzT); ok {\n\t\tp = x\n\t}"},
	{"f=closure(p)", "f = func() int32 {\n\t\tif p == nil {\n\t\t\treturn -1\n\t\t}\n\t\tp.v += 100\n\t\treturn p.v\n\t}"},
	{"f()", "if f != nil {\n\t\tprint(\"f=\")\n\t\tprint(f())\n\t\tprint(\" \")\n\t}"},
	{"p=g(p)", "p = zzG(p)"},
	{"defer-use(p)", "zzHelper(p)"},
	{"str=str+x", "str = str + \"x\""},
	{"b=[]byte(str)", "b = []byte(str)"},
	{"w=v{p}", "v = zzW{@N@, p}\n\tw = v"},
	{"p=w.ptr", "p = w.ptr"},
	// --- extension: identity / no-op / empty-operand variants, aliases, swaps, field addresses ---
	{"u=str", "u = str"},
	{"str=str+e", "str = str + zzE()"},
	{"str=u[:0]+str", "str = u[:0] + str"},
	{"str=string(b)", "str = string(b)"},
	{"b=[]byte(e)", "b = []byte(zzE())"},
	{"u=str[1:]", "if len(str) > 0 {\n\t\tu = str[1:]\n\t}"},
	{"str,u=u,str", "str, u = u, str"},
	{"s=append(s)", "s = append(s)"},
	{"s=append(s,t[:0]...)", "s = append(s, t[:0]...)"},
	{"s=s[:]", "s = s[:]"},
	{"s=s[0:0]", "s = s[0:0]"},
	{"s=s[len(s):]", "s = s[len(s):]"},
	{"copy(s,t)", "copy(s, t)"},
	{"copy(s,t[:0])", "copy(s, t[:0])"},
	{"s,t=t,s", "s, t = t, s"},
	{"q=m[absent]", "q = m[2]"},
	{"i=i", "i = i"},
	{"p=p", "p = p"},
	{"f=f", "f = f"},
	{"v=v", "v = v"},
	{"p,q=q,p", "p, q = q, p"},
	{"r=&p.v", "if p != nil {\n\t\tr = &p.v\n\t}"},
	{"r=&walk(p).v", "for n, x := 0, p; x != nil && n < 3; n, x = n+1, x.next {\n\t\tr = &x.v\n\t}"},
	// --- extension 2: maps keyed by heap strings / structs holding heap strings, interface equality ---
	{"m2[hk]=n", "m2[zzKey(1)] = @N@"},
	{"delete(m2,hk)", "delete(m2, zzKey(1))"},
	{"m3[K]=n", "m3[zzK{zzKey(1), 1}] = @N@"},
	{"delete(m3,K)", "delete(m3, zzK{zzKey(1), 1})"},
	{"i=hs", "i = zzKey(1)"},
	{"j=i", "j = i"},
	{"j=hs", "j = zzKey(1)"},
	{"j=int", "j = int32(@N@)"},
	{"j=K", "j = zzK{zzKey(1), 1}"},
	{"j=p", "if p != nil {\n\t\tj = p\n\t} else {\n\t\tj = nil\n\t}"},
	{"eq(i,j)", "if i == j {\n\t\tprint(\"eq \")\n\t}\n\tif i != j {\n\t\tprint(\"ne \")\n\t}"},
}

// OwnCoreOps is the size of the original alphabet (a prefix of OwnOps); the operations after it
// are the extension.
const OwnCoreOps = 21

// OwnOpIndex returns the index of a named op (-1 if unknown).
func OwnOpIndex(name string) int {
	for i, o := range OwnOps {
		if o.Name == name {
			return i
		}
	}
	return -1
}

// OwnHistory is a sequence of op indices plus the initial state variant.
type OwnHistory struct {
	Seeded bool  // false: all variables zero; true: p, s (2 nodes), m (1 entry) pre-populated
	Ops    []int // indices into OwnOps
}

func (h OwnHistory) Names() []string {
	out := make([]string, len(h.Ops))
	for i, o := range h.Ops {
		out[i] = OwnOps[o].Name
	}
	return out
}

// Pattern is the canonical operation pattern of the history (used in violation keys).
func (h OwnHistory) Pattern() string {
	s := strings.Join(h.Names(), ";")
	if h.Seeded {
		return "seeded:" + s
	}
	return s
}

// OwnRestrict keeps the histories that use only the named operations (comma separated); the
// result is closed under subsequences. Debugging / mutant-demonstration aid.
func OwnRestrict(hs []OwnHistory, ops string) []OwnHistory {
	if ops == "" {
		return hs
	}
	allowed := map[int]bool{}
	for _, n := range strings.Fields(ops) {
		k := OwnOpIndex(n)
		if k < 0 {
			panic("OwnRestrict: unknown operation " + n)
		}
		allowed[k] = true
	}
	var out []OwnHistory
next:
	for _, h := range hs {
		for _, o := range h.Ops {
			if !allowed[o] {
				continue next
			}
		}
		out = append(out, h)
	}
	return out
}

// OwnHistories enumerates every history with 1 <= len <= maxLen over the full alphabet, shortest
// first, lexicographic.
func OwnHistories(maxLen int, seeded bool) []OwnHistory {
	return OwnHistoriesN(len(OwnOps), 1, maxLen, seeded)
}

// OwnHistoriesN enumerates every history with minLen <= len <= maxLen over the first nops
// operations of the alphabet.
func OwnHistoriesN(nops, minLen, maxLen int, seeded bool) []OwnHistory {
	var out []OwnHistory
	n := nops
	for l := max(minLen, 1); l <= maxLen; l++ {
		idx := make([]int, l)
		for {
			out = append(out, OwnHistory{Seeded: seeded, Ops: append([]int(nil), idx...)})
			k := l - 1
			for k >= 0 {
				idx[k]++
				if idx[k] < n {
					break
				}
				idx[k] = 0
				k--
			}
			if k < 0 {
				break
			}
		}
	}
	return out
}

// OwnIsCore reports whether the history uses only the core alphabet.
func OwnIsCore(h OwnHistory) bool {
	for _, o := range h.Ops {
		if o >= OwnCoreOps {
			return false
		}
	}
	return true
}

// OwnDeepOps: the 16 core operations used for the deepest histories: the core alphabet without
// the two string operations (they interact with no other core operation), s=nil (subsumed by
// reslicing and scope exit) and the two call-boundary operations p=g(p), defer-use(p) (their
// effect is local to the call).
func OwnDeepOps() []int {
	var out []int
	for i := 0; i < OwnCoreOps; i++ {
		switch OwnOps[i].Name {
		case "str=str+x", "b=[]byte(str)", "s=nil", "p=g(p)", "defer-use(p)":
		default:
			out = append(out, i)
		}
	}
	return out
}

// OwnHistoriesOver enumerates every history of exactly length l over the given operations.
func OwnHistoriesOver(ops []int, l int, seeded bool) []OwnHistory {
	var out []OwnHistory
	idx := make([]int, l)
	for {
		h := OwnHistory{Seeded: seeded, Ops: make([]int, l)}
		for k, i := range idx {
			h.Ops[k] = ops[i]
		}
		out = append(out, h)
		k := l - 1
		for k >= 0 {
			idx[k]++
			if idx[k] < len(ops) {
				break
			}
			idx[k] = 0
			k--
		}
		if k < 0 {
			break
		}
	}
	return out
}

// OwnSpace is the frozen enumeration used by C11: every history of length <= fullLen over the
// full alphabet, plus every longer history of length <= coreLen over the core alphabet, plus
// every longer history of length <= deepLen over OwnDeepOps; shortest first. The set is closed
// under subsequences.
func OwnSpace(fullLen, coreLen, deepLen int, seeded bool) []OwnHistory {
	out := OwnHistories(fullLen, seeded)
	if coreLen > fullLen {
		out = append(out, OwnHistoriesN(OwnCoreOps, fullLen+1, coreLen, seeded)...)
	}
	for l := max(fullLen, coreLen) + 1; l <= deepLen; l++ {
		out = append(out, OwnHistoriesOver(OwnDeepOps(), l, seeded)...)
	}
	return out
}

// OwnPrelude is the shared declaration block of every `own` program.
const OwnPrelude = `package main

type zzT struct {
	v    int32
	next *zzT
}

type zzW struct {
	id  int32
	ptr *zzT
}

func zzMark(k int32) {}

func zzIter(k int32) {}

func zzRun(n int32) {}

var zzZero int32

// zzE: an empty string computed at run time (null block: a slice of a literal).
func zzE() string { return "e"[:zzZero] }

// zzHeapStr: a string whose bytes live in a heap block (built at run time).
func zzHeapStr() string {
	b := []byte{97, 98}
	return string(b)
}

type zzK struct {
	name string
	n    int32
}

// zzKey: a key string whose bytes live in a heap block (built at run time): "k1", "k2", ...
func zzKey(c int32) string {
	b := []byte{107, uint8(48 + c)}
	return string(b)
}

func zzObsI(x interface{}) {
	switch v := x.(type) {
	case nil:
		print("-")
	case *zzT:
		zzObsT(v)
	case string:
		print("S")
		print(v)
	case int32:
		print("N")
		print(v)
	case zzK:
		print("K")
		print(v.name)
		print(v.n)
	default:
		print("?")
	}
}

func zzG(x *zzT) *zzT { return x }

func zzUse(x *zzT) {
	if x != nil {
		print("u")
		print(x.v)
		print(" ")
	} else {
		print("u. ")
	}
}

func zzHelper(x *zzT) {
	defer zzUse(x)
	print("h ")
}

func zzObsT(p *zzT) {
	n := 0
	for p != nil && n < 5 {
		print(" ")
		print(p.v)
		p = p.next
		n++
	}
	if p == nil {
		print(".")
	} else {
		print("~")
	}
}

func zzObs(p, q *zzT, s, t []*zzT, m map[int32]*zzT, i interface{}, f func() int32, str string, b []byte, v, w zzW, u string, r *int32, m2 map[string]int32, m3 map[zzK]int32, j interface{}) {
	print("p")
	zzObsT(p)
	print(" q")
	zzObsT(q)
	print(" s")
	print(len(s))
	for _, e := range s {
		zzObsT(e)
	}
	print(" t")
	print(len(t))
	for _, e := range t {
		zzObsT(e)
	}
	print(" m")
	print(len(m))
	if x, ok := m[1]; ok {
		zzObsT(x)
	}
	for k, x := range m {
		print(" k")
		print(k)
		zzObsT(x)
	}
	print(" i")
	zzObsI(i)
	print(" j")
	zzObsI(j)
	if i == j {
		print("==")
	} else {
		print("!=")
	}
	print(" m2_")
	print(len(m2))
	if x, ok := m2[zzKey(1)]; ok {
		print("a")
		print(x)
	}
	if x, ok := m2[zzKey(2)]; ok {
		print("b")
		print(x)
	}
	var sum2, len2 int32
	for k, x := range m2 {
		sum2 += x
		len2 += int32(len(k))
	}
	print("s")
	print(sum2)
	print("l")
	print(len2)
	print(" m3_")
	print(len(m3))
	if x, ok := m3[zzK{zzKey(1), 1}]; ok {
		print("a")
		print(x)
	}
	var sum3, len3 int32
	for k, x := range m3 {
		sum3 += x + k.n
		len3 += int32(len(k.name))
	}
	print("s")
	print(sum3)
	print("l")
	print(len3)
	if f == nil {
		print(" f-")
	} else {
		print(" f+")
	}
	print(" ")
	print(str)
	print(" b")
	print(len(b))
	for _, c := range b {
		print(",")
		print(int32(c))
	}
	for _, c := range str {
		print(";")
		print(int64(c))
	}
	print(" v")
	print(v.id)
	zzObsT(v.ptr)
	print(" w")
	print(w.id)
	zzObsT(w.ptr)
	print(" u")
	print(u)
	if r == nil {
		print(" r-")
	} else {
		print(" r")
		print(*r)
	}
	println()
}

`

const ownVars = `	var p, q *zzT
	var s, t []*zzT
	m := map[int32]*zzT{}
	var i interface{}
	var f func() int32
	str := "a"
	var b []byte
	var v, w zzW
	var u string
	var r *int32
	m2 := map[string]int32{}
	m3 := map[zzK]int32{}
	var j interface{}
`

const ownSeed = `	p = &zzT{v: 1}
	s = append(s, &zzT{v: 2}, &zzT{v: 3})
	m[1] = &zzT{v: 4}
	str = zzHeapStr()
	u = str
	m2[zzKey(2)] = 7
	m3[zzK{zzKey(2), 2}] = 8
	j = zzKey(1)
`

const ownObsCall = "zzObs(p, q, s, t, m, i, f, str, b, v, w, u, r, m2, m3, j)"

func ownStmt(op, pos int) string {
	return strings.ReplaceAll(OwnOps[op].Stmt, "@N@", fmt.Sprint(10*(pos+1)))
}

// Mark ids used by OwnCase: 2k = "operation k starts", 2k+1 = "observation after operation k
// starts", OwnMarkExit = "the case is about to return" (scope-exit releases follow).
const OwnMarkExit = 1000

// OwnCase renders one history as the body of `func Case<idx>()`.
func OwnCase(idx int, h OwnHistory) string {
	var b strings.Builder
	fmt.Fprintf(&b, "func Case%d() {\n", idx)
	b.WriteString(ownVars)
	if h.Seeded {
		b.WriteString(ownSeed)
	}
	for k, op := range h.Ops {
		fmt.Fprintf(&b, "\tzzMark(%d)\n\t%s\n\tzzMark(%d)\n\t%s\n", 2*k, ownStmt(op, k), 2*k+1, ownObsCall)
	}
	fmt.Fprintf(&b, "\tzzMark(%d)\n}\n\n", OwnMarkExit)
	return b.String()
}

// OwnProgram renders a batch of histories as one program (Case0 .. Case{n-1}).
func OwnProgram(hs []OwnHistory) string {
	var b strings.Builder
	b.WriteString(OwnPrelude)
	for i, h := range hs {
		b.WriteString(OwnCase(i, h))
	}
	return b.String()
}

// ---------------------------------------------------------------------------------------------
// Loop programs (C12)

// OwnLoopShapes: how a body is placed in a loop.
//
//	inner: the variables are declared inside the loop body (fresh per iteration)
//	func : the loop calls a function that declares the variables and runs the body
//	outer: the variables are declared before the loop; the body ends by overwriting every
//	       variable with its zero value / a fresh empty map (data discarded by overwrite)
var OwnLoopShapes = []string{"inner", "func", "outer"}

// OwnLoopNs are the iteration counts every body is run for.
var OwnLoopNs = []int{1, 2, 3, 10, 100}

const ownReset = `		p = nil
		q = nil
		s = nil
		t = nil
		m = map[int32]*zzT{}
		i = nil
		f = nil
		str = "a"
		b = nil
		v = zzW{}
		w = zzW{}
		u = ""
		r = nil
		m2 = map[string]int32{}
		m3 = map[zzK]int32{}
		j = nil
`

// OwnLoopCase renders body h in the given shape: helper function(s) zzLoop<idx>(n) plus
// Case<idx>() which runs the loop for every N in OwnLoopNs, announcing each run with zzRun(N).
// zzIter(k) is called at the end of iteration k (1-based).
func OwnLoopCase(idx int, h OwnHistory, shape string) string {
	var body strings.Builder
	for k, op := range h.Ops {
		fmt.Fprintf(&body, "\t%s\n", ownStmt(op, k))
	}
	body.WriteString("\t" + ownObsCall + "\n")
	indent := func(s string) string {
		return "\t" + strings.ReplaceAll(strings.TrimRight(s, "\n"), "\n", "\n\t") + "\n"
	}
	var b strings.Builder
	switch shape {
	case "inner":
		fmt.Fprintf(&b, "func zzLoop%d(n int32) {\n\tfor it := int32(1); it <= n; it++ {\n", idx)
		b.WriteString(indent(ownVars))
		b.WriteString(indent(body.String()))
		b.WriteString("\t\tzzIter(it)\n\t}\n}\n\n")
	case "func":
		fmt.Fprintf(&b, "func zzBody%d() {\n", idx)
		b.WriteString(ownVars)
		b.WriteString(body.String())
		b.WriteString("}\n\n")
		fmt.Fprintf(&b, "func zzLoop%d(n int32) {\n\tfor it := int32(1); it <= n; it++ {\n\t\tzzBody%d()\n\t\tzzIter(it)\n\t}\n}\n\n", idx, idx)
	case "outer":
		fmt.Fprintf(&b, "func zzLoop%d(n int32) {\n", idx)
		b.WriteString(ownVars)
		b.WriteString("\tfor it := int32(1); it <= n; it++ {\n")
		b.WriteString(indent(body.String()))
		b.WriteString(ownReset)
		b.WriteString("\t\tzzIter(it)\n\t}\n\t" + ownObsCall + "\n}\n\n")
	default:
		panic("bad shape " + shape)
	}
	fmt.Fprintf(&b, "func Case%d() {\n", idx)
	for _, n := range OwnLoopNs {
		fmt.Fprintf(&b, "\tzzRun(%d)\n\tzzLoop%d(%d)\n", n, idx, n)
	}
	b.WriteString("}\n\n")
	return b.String()
}

// OwnLoopItem is one (body, shape) pair.
type OwnLoopItem struct {
	H     OwnHistory
	Shape string
}

func OwnLoopProgram(items []OwnLoopItem) string {
	var b strings.Builder
	b.WriteString(OwnPrelude)
	for i, it := range items {
		b.WriteString(OwnLoopCase(i, it.H, it.Shape))
	}
	return b.String()
}

// ---------------------------------------------------------------------------------------------
// Reference heap-graph model
//
// Heap objects that hold references: zzT nodes (next), slice backing arrays (elements), the map
// (values), interface boxes, the closure (the captured variable p), zzW values (ptr). Of these
// only a zzT node can be the TARGET of a reference held by another heap object's field that is
// itself reachable from a node: nodes point only to nodes. Containers are referenced from
// variables only (never from a node), so a reference cycle exists iff the next-graph of the
// nodes has a cycle. The model tracks exactly that graph and which node each variable, slice
// element, map value, boxed interface and struct copy designates.

type ownNode struct {
	next *ownNode
}

// OwnModel is the abstract state.
type OwnModel struct {
	p, q   *ownNode
	s, t   []*ownNode // element lists (a copy is enough: no op writes an element in place)
	m      map[int]*ownNode
	i      *ownNode
	iSet   bool
	f      bool // closure exists (captures the VARIABLE p: calling it touches the current p only)
	vp, wp *ownNode
	Cyclic bool // a cycle was created at some point (cycles are never broken by the alphabet except by p.next= again; once leaked, leaked)
	nodes  []*ownNode
}

func NewOwnModel(seeded bool) *OwnModel {
	md := &OwnModel{m: map[int]*ownNode{}}
	if seeded {
		md.p = md.newNode()
		md.s = []*ownNode{md.newNode(), md.newNode()}
		md.m[1] = md.newNode()
	}
	return md
}

func (md *OwnModel) newNode() *ownNode {
	n := &ownNode{}
	md.nodes = append(md.nodes, n)
	return n
}

func (md *OwnModel) hasCycle() bool {
	for _, n := range md.nodes {
		slow, steps := n, 0
		for slow != nil && steps <= len(md.nodes) {
			slow = slow.next
			steps++
			if slow == n {
				return true
			}
		}
	}
	return false
}

// Apply executes one op on the model.
func (md *OwnModel) Apply(op int) {
	switch OwnOps[op].Name {
	case "p=new":
		md.p = md.newNode()
	case "q=p":
		md.q = md.p
	case "p=nil":
		md.p = nil
	case "p.next=q":
		if md.p != nil {
			md.p.next = md.q
		}
	case "q=p.next":
		if md.p != nil {
			md.q = md.p.next
		}
	case "s=append(s,p)":
		md.s = append(append([]*ownNode(nil), md.s...), md.p)
	case "s=s[1:]":
		if len(md.s) > 0 {
			md.s = md.s[1:]
		}
	case "s=nil":
		md.s = nil
	case "t=s":
		md.t = md.s
	case "m[k]=p":
		md.m[1] = md.p
	case "delete(m,k)":
		delete(md.m, 1)
	case "i=p":
		md.i, md.iSet = md.p, md.p != nil
	case "p=i.(*T)":
		if md.iSet {
			md.p = md.i
		}
	case "f=closure(p)":
		md.f = true
	case "i=hs":
		md.i, md.iSet = nil, false
	case "m2[hk]=n", "delete(m2,hk)", "m3[K]=n", "delete(m3,K)", "j=i", "j=hs", "j=int", "j=K", "j=p", "eq(i,j)":
		// j, m2, m3 are never loaded back into a pointer variable
	case "q=m[absent]":
		md.q = md.m[2]
	case "p,q=q,p":
		md.p, md.q = md.q, md.p
	case "s,t=t,s":
		md.s, md.t = md.t, md.s
	case "s=s[0:0]", "s=s[len(s):]":
		md.s = md.s[:0:0]
	case "f()", "defer-use(p)", "str=str+x", "b=[]byte(str)", "p=g(p)",
		"u=str", "str=str+e", "str=u[:0]+str", "str=string(b)", "b=[]byte(e)", "u=str[1:]", "str,u=u,str",
		"s=append(s)", "s=append(s,t[:0]...)", "s=s[:]", "copy(s,t)", "copy(s,t[:0])",
		"i=i", "p=p", "f=f", "v=v", "r=&p.v", "r=&walk(p).v":
		// no change to the reference graph between nodes (slice elements are never loaded back
		// into a pointer variable, so the element lists do not matter for cycle-freeness)
	case "w=v{p}":
		md.vp, md.wp = md.p, md.p
	case "p=w.ptr":
		md.p = md.wp
	default:
		panic("OwnModel: unknown op " + OwnOps[op].Name)
	}
	if md.hasCycle() {
		md.Cyclic = true
	}
}

// OwnCycleFree reports whether no prefix of the history creates a reference cycle.
func OwnCycleFree(h OwnHistory) bool {
	md := NewOwnModel(h.Seeded)
	for _, op := range h.Ops {
		md.Apply(op)
	}
	return !md.Cyclic
}
