//go:build go1.21

package progs

import (
	"fmt"
	"strings"
)

// FamCtrl: every control-flow skeleton of nesting depth <= 2 over the state (a, b int32).
//
// Grammar (complete enumeration, simplest first):
//
//	S  ::= T1[h1 := X]                      T1: any template variant, h1: any of its holes
//	X  ::= A | J | T2[h2 := (A | J)]        (T2 only for templates not marked leafOnly)
//	A  ::= a++; b += a; println(point, a, b)                       (trace atom)
//	J  ::= A; if a%2 == 0 { println(point); jump }; A             jump in {break, continue,
//	       break/continue to the label of T1 or T2, return} where the jump is legal
//
// every other hole of a template holds an atom. Templates: if / if-else / else-if chains / if
// with init, the three for forms with bounds {0,1,3}, switch (tag, tagless, init, multi-value
// case, non-constant cases; default first/middle/last/absent), range over array, slice (bounds
// {0,1,3}), multi-byte string, one-key map, index-only, no variables, assignment form.
// `fallthrough` is not part of Wa (the scanner has no such keyword) and therefore not in the
// shared subset. Every loop owns its counter, so every skeleton terminates. A skeleton is run from
// the three initial states (a,b) = (0,2) (1,1) (2,0) and prints every visited point with the state.
type ctrlTmpl struct {
	fam      string // template family: part of the violation key
	variant  string // what distinguishes the variant inside the family
	isLoop   bool
	isSwitch bool
	nh       int
	leafOnly bool // only enumerated at depth 1 (constructs known to stop the compiler: keeps one defect to one key)
	gen      func(lv int, label string, h []string) string
}

func lbl(label string) string {
	if label == "" {
		return ""
	}
	return label + ":\n"
}

func ctrlTemplates() []ctrlTmpl {
	var ts []ctrlTmpl
	conds := []string{"a < b", "a%2 == 0", "b%3 == 1"}
	for _, c := range conds {
		c := c
		ts = append(ts, ctrlTmpl{fam: "if", variant: c, nh: 1, gen: func(lv int, label string, h []string) string {
			return fmt.Sprintf("if %s {\n%s}\n", c, h[0])
		}})
		ts = append(ts, ctrlTmpl{fam: "if-else", variant: c, nh: 2, gen: func(lv int, label string, h []string) string {
			return fmt.Sprintf("if %s {\n%s} else {\n%s}\n", c, h[0], h[1])
		}})
	}
	for _, cc := range [][2]string{{"a < b", "a == b"}, {"a%2 == 0", "b%2 == 0"}} {
		cc := cc
		ts = append(ts, ctrlTmpl{fam: "else-if", variant: cc[0] + "/" + cc[1], nh: 3, gen: func(lv int, label string, h []string) string {
			return fmt.Sprintf("if %s {\n%s} else if %s {\n%s} else {\n%s}\n", cc[0], h[0], cc[1], h[1], h[2])
		}})
	}
	ts = append(ts, ctrlTmpl{fam: "else-if", variant: "no else", nh: 2, gen: func(lv int, label string, h []string) string {
		return fmt.Sprintf("if a > b {\n%s} else if a+1 == b {\n%s}\n", h[0], h[1])
	}})
	ts = append(ts, ctrlTmpl{fam: "if-init", variant: "v := a + b", nh: 2, gen: func(lv int, label string, h []string) string {
		return fmt.Sprintf("if v%[1]d := a + b; v%[1]d > 3 {\na += v%[1]d\n%[2]s} else if w%[1]d := v%[1]d * 2; w%[1]d > 2 {\nb += w%[1]d\n%[3]s}\n", lv, h[0], h[1])
	}})
	for _, n := range []int{3, 1, 0} {
		n := n
		ts = append(ts, ctrlTmpl{fam: "for3", variant: fmt.Sprint("n=", n), isLoop: true, nh: 1, gen: func(lv int, label string, h []string) string {
			return fmt.Sprintf("%[4]sfor i%[1]d := int32(0); i%[1]d < %[2]d; i%[1]d++ {\n%[3]s}\n", lv, n, h[0], lbl(label))
		}})
		ts = append(ts, ctrlTmpl{fam: "for-cond", variant: fmt.Sprint("n=", n), isLoop: true, nh: 1, gen: func(lv int, label string, h []string) string {
			return fmt.Sprintf("w%[1]d := int32(0)\n%[4]sfor w%[1]d < %[2]d {\nw%[1]d++\n%[3]s}\n", lv, n, h[0], lbl(label))
		}})
		ts = append(ts, ctrlTmpl{fam: "for-ever", variant: fmt.Sprint("n=", n), isLoop: true, nh: 1, gen: func(lv int, label string, h []string) string {
			return fmt.Sprintf("u%[1]d := int32(0)\n%[4]sfor {\nif u%[1]d >= %[2]d {\nbreak\n}\nu%[1]d++\n%[3]s}\n", lv, n, h[0], lbl(label))
		}})
	}
	ts = append(ts, ctrlTmpl{fam: "for3", variant: "down, two vars", isLoop: true, nh: 1, gen: func(lv int, label string, h []string) string {
		return fmt.Sprintf("%[3]sfor i%[1]d, j%[1]d := int32(3), int32(0); i%[1]d > j%[1]d; i%[1]d, j%[1]d = i%[1]d-1, j%[1]d+1 {\na += i%[1]d - j%[1]d\n%[2]s}\n", lv, h[0], lbl(label))
	}})
	// switch with tag; default position last, first, middle, absent
	ts = append(ts, ctrlTmpl{fam: "switch-tag", variant: "default last", isSwitch: true, nh: 3, gen: func(lv int, label string, h []string) string {
		return fmt.Sprintf("%sswitch a %% 3 {\ncase 0:\n%scase 1:\n%sdefault:\n%s}\n", lbl(label), h[0], h[1], h[2])
	}})
	ts = append(ts, ctrlTmpl{fam: "switch-tag", variant: "default first", isSwitch: true, nh: 3, gen: func(lv int, label string, h []string) string {
		return fmt.Sprintf("%sswitch a %% 3 {\ndefault:\n%scase 0:\n%scase 1:\n%s}\n", lbl(label), h[0], h[1], h[2])
	}})
	ts = append(ts, ctrlTmpl{fam: "switch-tag", variant: "default middle", isSwitch: true, nh: 3, gen: func(lv int, label string, h []string) string {
		return fmt.Sprintf("%sswitch a %% 3 {\ncase 0:\n%sdefault:\n%scase 1:\n%s}\n", lbl(label), h[0], h[1], h[2])
	}})
	ts = append(ts, ctrlTmpl{fam: "switch-tag", variant: "no default", isSwitch: true, nh: 2, gen: func(lv int, label string, h []string) string {
		return fmt.Sprintf("%sswitch a %% 3 {\ncase 0:\n%scase 1:\n%s}\n", lbl(label), h[0], h[1])
	}})
	ts = append(ts, ctrlTmpl{fam: "switch-tag", variant: "multi-value case", isSwitch: true, nh: 2, gen: func(lv int, label string, h []string) string {
		return fmt.Sprintf("%sswitch a %% 4 {\ncase 0, 2:\n%scase 1, 3, 5:\n%s}\n", lbl(label), h[0], h[1])
	}})
	ts = append(ts, ctrlTmpl{fam: "switch-tag", variant: "non-constant cases", isSwitch: true, nh: 3, gen: func(lv int, label string, h []string) string {
		return fmt.Sprintf("%sswitch a {\ncase b:\n%scase b + 1, b - 1:\n%sdefault:\n%s}\n", lbl(label), h[0], h[1], h[2])
	}})
	ts = append(ts, ctrlTmpl{fam: "switch-tag", variant: "empty case body", isSwitch: true, nh: 1, gen: func(lv int, label string, h []string) string {
		return fmt.Sprintf("%sswitch a %% 2 {\ncase 0:\ndefault:\n%s}\n", lbl(label), h[0])
	}})
	ts = append(ts, ctrlTmpl{fam: "switch-tagless", variant: "default last", isSwitch: true, nh: 3, gen: func(lv int, label string, h []string) string {
		return fmt.Sprintf("%sswitch {\ncase a < b:\n%scase a == b:\n%sdefault:\n%s}\n", lbl(label), h[0], h[1], h[2])
	}})
	ts = append(ts, ctrlTmpl{fam: "switch-tagless", variant: "default first", isSwitch: true, nh: 2, gen: func(lv int, label string, h []string) string {
		return fmt.Sprintf("%sswitch {\ndefault:\n%scase a%%2 == 0, b%%2 == 0:\n%s}\n", lbl(label), h[0], h[1])
	}})
	ts = append(ts, ctrlTmpl{fam: "switch-init", variant: "with tag", isSwitch: true, nh: 2, gen: func(lv int, label string, h []string) string {
		return fmt.Sprintf("%[4]sswitch v%[1]d := a + b; v%[1]d %% 2 {\ncase 0:\na += v%[1]d\n%[2]sdefault:\n%[3]s}\n", lv, h[0], h[1], lbl(label))
	}})
	ts = append(ts, ctrlTmpl{fam: "switch-init", variant: "tagless", isSwitch: true, nh: 2, gen: func(lv int, label string, h []string) string {
		return fmt.Sprintf("%[4]sswitch v%[1]d := a - b; {\ncase v%[1]d < 0:\nb += v%[1]d\n%[2]scase v%[1]d >= 1:\n%[3]s}\n", lv, h[0], h[1], lbl(label))
	}})
	// range forms
	ts = append(ts, ctrlTmpl{fam: "range-array", variant: "i, v", isLoop: true, nh: 1, gen: func(lv int, label string, h []string) string {
		return fmt.Sprintf("%[3]sfor i%[1]d, v%[1]d := range [3]int32{5, 6, 7} {\na += v%[1]d + int32(i%[1]d)\n%[2]s}\n", lv, h[0], lbl(label))
	}})
	for _, n := range []int{3, 1, 0} {
		n := n
		ts = append(ts, ctrlTmpl{fam: "range-slice", variant: fmt.Sprint("i, v; n=", n), isLoop: true, nh: 1, gen: func(lv int, label string, h []string) string {
			return fmt.Sprintf("s%[1]d := []int32{5, 6, 7, 8}\n%[4]sfor i%[1]d, v%[1]d := range s%[1]d[:%[2]d] {\na += v%[1]d + int32(i%[1]d)\n%[3]s}\n", lv, n, h[0], lbl(label))
		}})
	}
	ts = append(ts, ctrlTmpl{fam: "range-slice", variant: "assignment form", isLoop: true, nh: 1, gen: func(lv int, label string, h []string) string {
		return fmt.Sprintf("s%[1]d := []int32{5, 6, 7}\nvar i%[1]d int\nvar v%[1]d int32\n%[3]sfor i%[1]d, v%[1]d = range s%[1]d {\na += v%[1]d\n%[2]s}\na += int32(i%[1]d) + v%[1]d\n", lv, h[0], lbl(label))
	}})
	ts = append(ts, ctrlTmpl{fam: "range-slice", variant: "value only", isLoop: true, nh: 1, gen: func(lv int, label string, h []string) string {
		return fmt.Sprintf("s%[1]d := []int32{5, 6, 7}\n%[3]sfor _, v%[1]d := range s%[1]d {\na += v%[1]d\n%[2]s}\n", lv, h[0], lbl(label))
	}})
	ts = append(ts, ctrlTmpl{fam: "range-string", variant: "multi-byte text", isLoop: true, nh: 1, gen: func(lv int, label string, h []string) string {
		return fmt.Sprintf("%[3]sfor i%[1]d, c%[1]d := range \"a\u00e9\u4e16\U0001F600z\" {\na += int32(i%[1]d) + int32(c%[1]d%%7)\n%[2]s}\n", lv, h[0], lbl(label))
	}})
	ts = append(ts, ctrlTmpl{fam: "range-string", variant: "index only", isLoop: true, nh: 1, gen: func(lv int, label string, h []string) string {
		return fmt.Sprintf("%[3]sfor i%[1]d := range \"\u4e16a\u00e9\" {\na += int32(i%[1]d)\n%[2]s}\n", lv, h[0], lbl(label))
	}})
	ts = append(ts, ctrlTmpl{fam: "range-map", variant: "k, v; one key", isLoop: true, nh: 1, gen: func(lv int, label string, h []string) string {
		return fmt.Sprintf("%[3]sfor k%[1]d, v%[1]d := range map[int32]int32{4: 5} {\na += k%[1]d + v%[1]d\n%[2]s}\n", lv, h[0], lbl(label))
	}})
	ts = append(ts, ctrlTmpl{fam: "range-map", variant: "empty map", isLoop: true, nh: 1, gen: func(lv int, label string, h []string) string {
		return fmt.Sprintf("%[3]sfor k%[1]d, v%[1]d := range map[int32]int32{} {\na += k%[1]d + v%[1]d\n%[2]s}\n", lv, h[0], lbl(label))
	}})
	ts = append(ts, ctrlTmpl{fam: "range-index", variant: "slice", isLoop: true, nh: 1, gen: func(lv int, label string, h []string) string {
		return fmt.Sprintf("s%[1]d := []int32{5, 6, 7}\n%[3]sfor i%[1]d := range s%[1]d {\na += int32(i%[1]d)\n%[2]s}\n", lv, h[0], lbl(label))
	}})
	ts = append(ts, ctrlTmpl{fam: "range-index", variant: "array", isLoop: true, nh: 1, gen: func(lv int, label string, h []string) string {
		return fmt.Sprintf("%[3]sfor i%[1]d := range [3]int32{} {\na += int32(i%[1]d)\n%[2]s}\n", lv, h[0], lbl(label))
	}})
	ts = append(ts, ctrlTmpl{fam: "range-novar", variant: "slice", isLoop: true, nh: 1, gen: func(lv int, label string, h []string) string {
		return fmt.Sprintf("s%[1]d := []int32{5, 6}\n%[3]sfor range s%[1]d {\n%[2]s}\n", lv, h[0], lbl(label))
	}})
	// leaf-only constructs
	ts = append(ts, ctrlTmpl{fam: "range-map-key", variant: "k only", isLoop: true, nh: 1, leafOnly: true, gen: func(lv int, label string, h []string) string {
		return fmt.Sprintf("%[3]sfor k%[1]d := range map[int32]int32{4: 5} {\na += k%[1]d\n%[2]s}\n", lv, h[0], lbl(label))
	}})
	ts = append(ts, ctrlTmpl{fam: "range-map-key", variant: "k, _", isLoop: true, nh: 1, leafOnly: true, gen: func(lv int, label string, h []string) string {
		return fmt.Sprintf("%[3]sfor k%[1]d, _ := range map[int32]int32{4: 5} {\na += k%[1]d\n%[2]s}\n", lv, h[0], lbl(label))
	}})
	ts = append(ts, ctrlTmpl{fam: "range-map-val", variant: "_, v", isLoop: true, nh: 1, leafOnly: true, gen: func(lv int, label string, h []string) string {
		return fmt.Sprintf("%[3]sfor _, v%[1]d := range map[int32]int32{4: 5} {\na += v%[1]d\n%[2]s}\n", lv, h[0], lbl(label))
	}})
	ts = append(ts, ctrlTmpl{fam: "range-map-novar", variant: "no variables", isLoop: true, nh: 1, leafOnly: true, gen: func(lv int, label string, h []string) string {
		return fmt.Sprintf("%[2]sfor range map[int32]int32{4: 5} {\n%[1]s}\n", h[0], lbl(label))
	}})
	ts = append(ts, ctrlTmpl{fam: "range-string-novar", variant: "no variables", isLoop: true, nh: 1, leafOnly: true, gen: func(lv int, label string, h []string) string {
		return fmt.Sprintf("%[2]sfor range \"a\u00e9\" {\n%[1]s}\n", h[0], lbl(label))
	}})
	ts = append(ts, ctrlTmpl{fam: "range-array-copy", variant: "array is copied before the loop", isLoop: true, nh: 1, leafOnly: true, gen: func(lv int, label string, h []string) string {
		return fmt.Sprintf("r%[1]d := [3]int32{1, 2, 3}\n%[3]sfor i%[1]d, v%[1]d := range r%[1]d {\nr%[1]d[2] = 9\na += v%[1]d + int32(i%[1]d)\n%[2]s}\na += r%[1]d[2]\n", lv, h[0], lbl(label))
	}})
	ts = append(ts, ctrlTmpl{fam: "range-ptr-array", variant: "pointer to array is not copied", isLoop: true, nh: 1, leafOnly: true, gen: func(lv int, label string, h []string) string {
		return fmt.Sprintf("r%[1]d := [3]int32{1, 2, 3}\n%[3]sfor i%[1]d, v%[1]d := range &r%[1]d {\nr%[1]d[2] = 9\na += v%[1]d + int32(i%[1]d)\n%[2]s}\n", lv, h[0], lbl(label))
	}})
	ts = append(ts, ctrlTmpl{fam: "range-slice-len-once", variant: "length evaluated once, elements live", isLoop: true, nh: 1, leafOnly: true, gen: func(lv int, label string, h []string) string {
		return fmt.Sprintf("s%[1]d := make([]int32, 2, 8)\ns%[1]d[0], s%[1]d[1] = 1, 2\n%[3]sfor i%[1]d, v%[1]d := range s%[1]d {\ns%[1]d = append(s%[1]d, 7)\ns%[1]d[1] = 5\na += v%[1]d + int32(i%[1]d)\n%[2]s}\na += int32(len(s%[1]d))\n", lv, h[0], lbl(label))
	}})
	return ts
}

type ctrlGen struct {
	pt int
}

func (g *ctrlGen) atom() string {
	g.pt++
	return fmt.Sprintf("a++\nb += a\nprintln(%d, a, b)\n", g.pt)
}

func (g *ctrlGen) jump(j string) string {
	s := g.atom()
	g.pt++
	s += fmt.Sprintf("if a%%2 == 0 {\nprintln(%d)\n%s\n}\n", g.pt, j)
	s += g.atom()
	return s
}

// legalJumps lists the jump statements legal in a hole of `inner` nested in `outer` (outer may
// be nil): name -> statement; which labels they need.
type ctrlJump struct {
	name   string
	stmt   string
	needL1 bool
	needL2 bool
}

func legalJumps(outer, inner *ctrlTmpl) []ctrlJump {
	var js []ctrlJump
	inLoop := inner.isLoop || (outer != nil && outer.isLoop)
	inBreakable := inLoop || inner.isSwitch || (outer != nil && outer.isSwitch)
	if inBreakable {
		js = append(js, ctrlJump{name: "break", stmt: "break"})
	}
	if inLoop {
		js = append(js, ctrlJump{name: "continue", stmt: "continue"})
	}
	if outer != nil {
		if outer.isLoop || outer.isSwitch {
			js = append(js, ctrlJump{name: "break-outer-label", stmt: "break L1", needL1: true})
		}
		if outer.isLoop {
			js = append(js, ctrlJump{name: "continue-outer-label", stmt: "continue L1", needL1: true})
		}
		if inner.isLoop || inner.isSwitch {
			js = append(js, ctrlJump{name: "break-inner-label", stmt: "break L2", needL2: true})
		}
		if inner.isLoop {
			js = append(js, ctrlJump{name: "continue-inner-label", stmt: "continue L2", needL2: true})
		}
	} else {
		if inner.isLoop || inner.isSwitch {
			js = append(js, ctrlJump{name: "break-label", stmt: "break L2", needL2: true})
		}
		if inner.isLoop {
			js = append(js, ctrlJump{name: "continue-label", stmt: "continue L2", needL2: true})
		}
	}
	js = append(js, ctrlJump{name: "return", stmt: "println(\"r\", a, b)\nreturn"})
	return js
}

func ctrlWrap(body string) string {
	return "\t\tfunc() {\n\t\t\tfor k := int32(0); k < 3; k++ {\n\t\t\t\ta, b := k, 2-k\n" + body + "\t\t\t\tprintln(\"e\", a, b)\n\t\t\t}\n\t\t}()"
}

// FamCtrl builds the family. quick: depth 1 with every variant (all conditions, loop bounds
// {0,1,3}, default positions); at depth 2 one variant per template family at both levels (loop
// bound 3) and (first outer hole x every inner hole) + (every outer hole x first inner hole);
// thorough: every variant and every hole at both levels.
func FamCtrl(thorough bool) Family {
	f := Family{Name: "ctrl"}
	ts := ctrlTemplates()
	var items []Item

	fill := func(g *ctrlGen, t *ctrlTmpl, lv int, label string, hole int, content string) string {
		hs := make([]string, t.nh)
		for i := range hs {
			if i == hole {
				hs[i] = content
			} else {
				hs[i] = g.atom()
			}
		}
		return t.gen(lv, label, hs)
	}

	// depth 1
	for ti := range ts {
		t := &ts[ti]
		for h := 0; h < t.nh; h++ {
			g := &ctrlGen{}
			items = append(items, Item{
				Key:   "ctrl|" + t.fam,
				Desc:  fmt.Sprintf("%s (%s) hole %d = atom", t.fam, t.variant, h),
				Stmts: ctrlWrap(fill(g, t, 2, "", h, g.atom())),
			})
			for _, j := range legalJumps(nil, t) {
				g := &ctrlGen{}
				label := ""
				if j.needL2 {
					label = "L2"
				}
				items = append(items, Item{
					Key:   "ctrl|" + t.fam + "|" + j.name,
					Desc:  fmt.Sprintf("%s (%s) hole %d = %s", t.fam, t.variant, h, j.name),
					Stmts: ctrlWrap(fill(g, t, 2, label, h, g.jump(j.stmt))),
				})
			}
		}
	}
	// depth 2
	seenOuter := map[string]bool{}
	for oi := range ts {
		o := &ts[oi]
		if o.leafOnly {
			continue
		}
		if !thorough {
			if seenOuter[o.fam] {
				continue
			}
			seenOuter[o.fam] = true
		}
		for oh := 0; oh < o.nh; oh++ {
			seenInner := map[string]bool{}
			for ii := range ts {
				in := &ts[ii]
				if in.leafOnly {
					continue
				}
				if !thorough {
					if seenInner[in.fam] {
						continue
					}
					seenInner[in.fam] = true
				}
				for ih := 0; ih < in.nh; ih++ {
					if !thorough && ih > 0 && oh > 0 {
						continue // quick: (first outer hole x every inner hole) and (every outer hole x first inner hole)
					}
					g := &ctrlGen{}
					inner := fill(g, in, 2, "", ih, g.atom())
					items = append(items, Item{
						Key:   "ctrl|" + o.fam + "/" + in.fam,
						Desc:  fmt.Sprintf("%s (%s) hole %d = %s (%s) hole %d = atom", o.fam, o.variant, oh, in.fam, in.variant, ih),
						Stmts: ctrlWrap(fill(g, o, 1, "", oh, inner)),
					})
					for _, j := range legalJumps(o, in) {
						g := &ctrlGen{}
						l1, l2 := "", ""
						if j.needL1 {
							l1 = "L1"
						}
						if j.needL2 {
							l2 = "L2"
						}
						inner := fill(g, in, 2, l2, ih, g.jump(j.stmt))
						items = append(items, Item{
							Key:   "ctrl|" + o.fam + "/" + in.fam + "|" + j.name,
							Desc:  fmt.Sprintf("%s (%s) hole %d = %s (%s) hole %d = %s", o.fam, o.variant, oh, in.fam, in.variant, ih, j.name),
							Stmts: ctrlWrap(fill(g, o, 1, l1, oh, inner)),
						})
					}
				}
			}
		}
	}
	const per = 40
	for lo := 0; lo < len(items); lo += per {
		hi := min(lo+per, len(items))
		f.Groups = append(f.Groups, Group{Name: fmt.Sprintf("skeletons %d-%d", lo, hi-1), Items: items[lo:hi]})
	}
	return f
}

// CtrlDescribe is used by the check to record the size of the grammar.
func CtrlDescribe(f Family) string {
	n := 0
	fams := map[string]bool{}
	for _, g := range f.Groups {
		n += len(g.Items)
		for _, it := range g.Items {
			fams[strings.SplitN(it.Key, "|", 3)[1]] = true
		}
	}
	return fmt.Sprintf("%d skeletons, %d template pairs", n, len(fams))
}
