//go:build go1.21

package progs

import (
	"fmt"
	"strings"
)

// FamDataIface: interface boxing of every basic kind + struct + pointer + array + slice + named
// types; the complete type-assertion matrix (dynamic type x asserted type) in comma-ok form, the
// single-value form where it succeeds; type switches; interface equality; nil pointer in an
// interface vs nil interface; method calls through interfaces.
//
// Wa's type checker only lets POINTER types implement a non-empty interface (internal/types
// lookup.go missingMethod: a non-pointer V never implements T): storing a struct value in a
// method-carrying interface is therefore not in the shared subset and is not generated.
type dynVal struct {
	name string // type name as written in assertions
	expr string // expression of that type
	show string // expression over v (of that type) giving ints/bools/strings; %s = v
	cmp  bool   // comparable
}

const ifaceDecls = `type IP@G@ struct{ x, y int32 }

func (p *IP@G@) Sum() int32 { return p.x + p.y }

type IQ@G@ struct{ x, y int32 }
type IS@G@ interface{ Sum() int32 }

var ip@G@ = &IP@G@{3, 4}
`

// the named integer type lives in its own groups: a named non-struct type has no spelling in the
// Chinese syntax, and C09 leaves out every group whose declarations need one
const ifaceDeclsIM = ifaceDecls + "type IM@G@ int32\n"

func isIM(d dynVal) bool { return d.name == "IM@G@" }

func ifaceDyns() []dynVal {
	return []dynVal{
		{"bool", "true", "%s", true},
		{"int32", "int32(-5)", "int64(%s)", true},
		{"int64", "int64(1099511627776)", "%s", true},
		{"uint8", "uint8(200)", "int64(%s)", true},
		{"uint16", "uint16(60000)", "int64(%s)", true},
		{"uint32", "uint32(4000000000)", "int64(%s)", true},
		{"uint64", "uint64(9223372036854775808)", "%s", true},
		{"int", "int(7)", "int64(%s)", true},
		{"uint", "uint(8)", "int64(%s)", true},
		{"uintptr", "uintptr(9)", "int64(%s)", true},
		{"float32", "float32(1.5)", "int64(%s * 2)", true},
		{"float64", "float64(2.5)", "int64(%s * 2)", true},
		{"string", "\"str\"", "%s", true},
		{"IP@G@", "IP@G@{1, 2}", "%s.x*10 + %[1]s.y", true},
		{"IQ@G@", "IQ@G@{5, 6}", "%s.x*10 + %[1]s.y", true},
		{"*IP@G@", "ip@G@", "%s != nil", true},
		{"*IQ@G@", "&IQ@G@{7, 8}", "%s != nil", true},
		{"IM@G@", "IM@G@(9)", "int64(%s)", true},
		{"[2]int32", "[2]int32{1, 2}", "%s[0]*10 + %[1]s[1]", true},
		{"[]int32", "[]int32{1, 2, 3}", "len(%s)", false},
		{"map[int32]int32", "map[int32]int32{1: 2}", "len(%s)", false},
		{"func() int32", "func() int32 { return 4 }", "%s != nil", false},
		{"IS@G@", "", "%s != nil", true},       // asserted only
		{"interface{}", "", "%s != nil", true}, // asserted only
	}
}

func FamDataIface(thorough bool) Family {
	f := Family{Name: "data-iface"}
	ds := ifaceDyns()
	short := func(s string) string { return strings.ReplaceAll(s, "@G@", "") }
	// assertion matrix
	mkAssert := func(d, a dynVal) []Item {
		show := fmt.Sprintf(a.show, "v")
		// classes: assertion to A from a value of that very type, and from any other dynamic type
		key := "iface|assert|other->" + short(a.name)
		if a.name == d.name {
			key = "iface|assert|same->" + short(a.name)
		}
		its := []Item{{Key: key, Desc: "e = " + short(d.expr) + "; v, ok := e.(" + short(a.name) + ")",
			Stmts: fmt.Sprintf("\t\tvar e interface{} = %s\n\t\tv, ok := e.(%s)\n\t\tprintln(ok, %s)", d.expr, a.name, show)}}
		if a.name == d.name {
			its = append(its, Item{Key: "iface|assert-single|" + short(d.name), Desc: "e.(" + short(a.name) + ") succeeds",
				Stmts: fmt.Sprintf("\t\tvar e interface{} = %s\n\t\tv := e.(%s)\n\t\tprintln(%s)\n\t\te2 := e\n\t\tw := e2.(%s)\n\t\tprintln(%s)", d.expr, a.name, show, a.name, fmt.Sprintf(a.show, "w"))})
		}
		return its
	}
	mkNilAssert := func(a dynVal) Item {
		return Item{Key: "iface|assert|nil->" + short(a.name), Desc: "var e interface{}; v, ok := e.(" + short(a.name) + ")",
			Stmts: fmt.Sprintf("\t\tvar e interface{}\n\t\tv, ok := e.(%s)\n\t\tprintln(ok, %s)", a.name, fmt.Sprintf(a.show, "v"))}
	}
	gim := Group{Name: "assertions involving the named integer type", Decls: ifaceDeclsIM}
	for _, d := range ds {
		if d.expr == "" {
			continue
		}
		g := Group{Name: "assert from " + short(d.name), Decls: ifaceDecls}
		for _, a := range ds {
			if isIM(d) || isIM(a) {
				gim.Items = append(gim.Items, mkAssert(d, a)...)
			} else {
				g.Items = append(g.Items, mkAssert(d, a)...)
			}
		}
		if len(g.Items) > 0 {
			f.Groups = append(f.Groups, g)
		}
	}
	// nil interface asserted to everything
	{
		g := Group{Name: "assert from nil interface", Decls: ifaceDecls}
		for _, a := range ds {
			if isIM(a) {
				gim.Items = append(gim.Items, mkNilAssert(a))
			} else {
				g.Items = append(g.Items, mkNilAssert(a))
			}
		}
		f.Groups = append(f.Groups, g)
	}
	f.Groups = append(f.Groups, gim)
	// type switch: one function with every case, applied to every dynamic value
	{
		var sw strings.Builder
		sw.WriteString("func ts@G@(e interface{}) int32 {\n\tswitch v := e.(type) {\n\tcase nil:\n\t\treturn 0\n")
		k := 1
		for _, d := range ds {
			if d.expr == "" || isIM(d) {
				continue
			}
			fmt.Fprintf(&sw, "\tcase %s:\n\t\t_ = v\n\t\treturn %d\n", d.name, k)
			k++
		}
		sw.WriteString("\t}\n\treturn -1\n}\n")
		sw.WriteString("func ts2@G@(e interface{}) int32 {\n\tswitch e.(type) {\n\tcase int32, int64, uint8:\n\t\treturn 1\n\tcase string, *IP@G@:\n\t\treturn 2\n\tcase IS@G@:\n\t\treturn 3\n\tcase nil, bool:\n\t\treturn 4\n\tdefault:\n\t\treturn 5\n\t}\n}\n")
		sw.WriteString("func ts3@G@(e interface{}) int64 {\n\tswitch v := e.(type) {\n\tcase int32:\n\t\treturn int64(v) + 1\n\tcase uint8:\n\t\treturn int64(v) + 2\n\tcase string:\n\t\treturn int64(len(v))\n\tcase IP@G@:\n\t\treturn int64(v.x)\n\tcase *IP@G@:\n\t\treturn int64(v.Sum())\n\tcase IS@G@:\n\t\treturn int64(v.Sum()) + 1000\n\tcase []int32:\n\t\treturn int64(len(v))\n\t}\n\treturn -1\n}\n")
		g := Group{Name: "type switch", Decls: ifaceDecls + sw.String()}
		for _, d := range ds {
			if d.expr == "" || isIM(d) {
				continue
			}
			g.Items = append(g.Items, Item{Key: "iface|type-switch|" + short(d.name), Desc: "switch on " + short(d.expr),
				Stmts: fmt.Sprintf("\t\tprintln(ts@G@(%[1]s), ts2@G@(%[1]s), ts3@G@(%[1]s))", d.expr)})
		}
		g.Items = append(g.Items, Item{Key: "iface|type-switch|nil", Desc: "switch on nil", Stmts: "\t\tprintln(ts@G@(nil), ts2@G@(nil), ts3@G@(nil))"})
		f.Groups = append(f.Groups, g)
		f.Groups = append(f.Groups, Group{Name: "type switch with a named integer type", Decls: ifaceDeclsIM + "func tsm@G@(e interface{}) int64 {\n\tswitch v := e.(type) {\n\tcase int32:\n\t\treturn int64(v) + 100\n\tcase IM@G@:\n\t\treturn int64(v) + 200\n\tcase int64:\n\t\treturn v + 300\n\t}\n\treturn -1\n}\n",
			Items: []Item{{Key: "iface|type-switch|IM", Desc: "named integer type among the cases", Stmts: "\t\tprintln(tsm@G@(IM@G@(9)), tsm@G@(int32(9)), tsm@G@(int64(9)), tsm@G@(uint8(9)))"}}})
	}
	// equality of interface values: comparable dynamic types, equal and unequal values
	{
		g := Group{Name: "interface equality", Decls: ifaceDecls}
		var cds []dynVal
		for _, d := range ds {
			if d.expr != "" && d.cmp && !isIM(d) {
				cds = append(cds, d)
			}
		}
		for _, a := range cds {
			for _, b := range cds {
				if !thorough && a.name != b.name && !(strings.HasPrefix(a.name, "int") || strings.HasPrefix(a.name, "uint") || strings.HasPrefix(a.name, "I")) {
					continue
				}
				g.Items = append(g.Items, Item{Key: "iface|equal|" + short(a.name) + "," + short(b.name), Desc: short(a.expr) + " == " + short(b.expr),
					Stmts: fmt.Sprintf("\t\tvar x, y interface{} = %s, %s\n\t\tprintln(x == y, x != y, x == x, x == nil, nil != y)", a.expr, b.expr)})
			}
		}
		vals := [][2]string{{"int32(1)", "int32(2)"}, {"\"a\"", "\"b\""}, {"\"ab\"", "\"a\" + \"b\""}, {"IP@G@{1, 2}", "IP@G@{1, 3}"}, {"IP@G@{1, 2}", "IP@G@{1, 2}"}, {"&IP@G@{1, 2}", "&IP@G@{1, 2}"}, {"[2]int32{1, 2}", "[2]int32{1, 2}"}, {"[2]int32{1, 2}", "[2]int32{2, 1}"}, {"float64(0)", "-float64(0)"}, {"uint64(1)<<63", "uint64(1)<<63"}, {"int64(-1)", "int64(4294967295)"}, {"true", "false"}}
		for _, v := range [][2]string{{"int(1)", "int32(1)"}, {"uint(1)", "uint32(1)"}, {"uintptr(1)", "uint(1)"}, {"rune(1)", "int32(1)"}, {"byte(1)", "uint8(1)"}} {
			g.Items = append(g.Items, Item{Key: "iface|equal-values|same representation, " + v[0] + " vs " + v[1], Desc: v[0] + " == " + v[1],
				Stmts: fmt.Sprintf("\t\tvar x, y interface{} = %s, %s\n\t\tprintln(x == y, x != y)", v[0], v[1])})
		}
		for _, v := range vals {
			g.Items = append(g.Items, Item{Key: "iface|equal-values", Desc: short(v[0]) + " == " + short(v[1]),
				Stmts: fmt.Sprintf("\t\tvar x, y interface{} = %s, %s\n\t\tprintln(x == y, x != y)\n\t\tvar z interface{} = x\n\t\tprintln(z == x)", v[0], v[1])})
		}
		f.Groups = append(f.Groups, Group{Name: "interface equality with a named integer type", Decls: ifaceDeclsIM, Items: []Item{{Key: "iface|equal-values|named integer type", Desc: "IM(1) == int32(1), IM(1) == IM(1)",
			Stmts: "\t\tvar x, y, z interface{} = IM@G@(1), int32(1), IM@G@(1)\n\t\tprintln(x == y, x != y, x == z, x == IM@G@(1))"}}})
		g.Items = append(g.Items, Item{Key: "iface|equal-to-concrete", Desc: "interface == concrete value", Stmts: "\t\tvar x interface{} = int32(5)\n\t\tprintln(x == int32(5), x == int64(5), x != \"5\")\n\t\tvar s IS@G@ = ip@G@\n\t\tprintln(s == ip@G@, s != ip@G@)"})
		f.Groups = append(f.Groups, g)
	}
	add := func(key, decls, stmts string) {
		f.Groups = append(f.Groups, Group{Name: key, Decls: ifaceDecls + decls, Items: []Item{{Key: "iface|" + key, Desc: key, Stmts: stmts}}})
	}
	add("nil|nil pointer in non-empty interface is not nil", "", "\t\tvar p *IP@G@\n\t\tvar i IS@G@ = p\n\t\tprintln(i == nil, i != nil, p == nil)")
	add("nil|nil pointer in empty interface is not nil", "", "\t\tvar p *IP@G@\n\t\tvar e interface{} = p\n\t\tprintln(e == nil, e != nil)\n\t\tq, ok := e.(*IP@G@)\n\t\tprintln(q == nil, ok)")
	add("nil|zero interface values", "type hi@G@ struct {\n\ts IS@G@\n\te interface{}\n}\n", "\t\tvar i IS@G@\n\t\tvar e interface{}\n\t\tvar h hi@G@\n\t\tprintln(i == nil, e == nil, h.s == nil, h.e == nil)\n\t\ti = ip@G@\n\t\te = i\n\t\th.s = i\n\t\tprintln(i == nil, e == nil, h.s == nil, h.e == nil)\n\t\ti = nil\n\t\te = nil\n\t\tprintln(i == nil, e == nil)")
	add("nil|function returning a typed nil", "func rn@G@(c bool) IS@G@ {\n\tvar p *IP@G@\n\tif c {\n\t\treturn p\n\t}\n\treturn nil\n}\n", "\t\tprintln(rn@G@(true) == nil, rn@G@(false) == nil)")
	add("method|call through interface, two implementations", "type IR@G@ struct{ s string }\n\nfunc (r *IR@G@) Sum() int32 { return int32(len(r.s)) }\n", "\t\tvar s IS@G@ = &IP@G@{1, 2}\n\t\tprintln(s.Sum())\n\t\ts = &IR@G@{\"abcd\"}\n\t\tprintln(s.Sum())\n\t\txs := []IS@G@{ip@G@, &IR@G@{\"\"}, &IP@G@{10, 20}}\n\t\tt := int32(0)\n\t\tfor _, x := range xs {\n\t\t\tt = t*100 + x.Sum()\n\t\t}\n\t\tprintln(t)")
	add("method|interface holds the pointer, sees later changes", "", "\t\tp := &IP@G@{1, 2}\n\t\tvar s IS@G@ = p\n\t\tp.x = 100\n\t\tprintln(s.Sum())\n\t\tq := s.(*IP@G@)\n\t\tq.y = 0\n\t\tprintln(p.y, q == p)")
	add("method|several methods, interface-to-interface assertion", "type IW@G@ interface {\n\tSum() int32\n\tName() string\n}\ntype IN@G@ struct{ n string }\n\nfunc (x *IN@G@) Sum() int32   { return 1 }\nfunc (x *IN@G@) Name() string { return x.n }\n", "\t\tvar s IS@G@ = &IN@G@{\"nm\"}\n\t\tw, ok := s.(IW@G@)\n\t\tprintln(ok, w.Name(), w.Sum())\n\t\ts = ip@G@\n\t\t_, ok = s.(IW@G@)\n\t\tprintln(ok)\n\t\tvar e interface{} = &IN@G@{\"e\"}\n\t\tprintln(e.(IW@G@).Name(), e.(IS@G@).Sum())")
	add("method|embedded interface", "type IB@G@ interface {\n\tIS@G@\n\tDouble() int32\n}\ntype ID@G@ struct{ v int32 }\n\nfunc (d *ID@G@) Sum() int32    { return d.v }\nfunc (d *ID@G@) Double() int32 { return d.v * 2 }\n", "\t\tvar b IB@G@ = &ID@G@{21}\n\t\tprintln(b.Sum(), b.Double())\n\t\tvar s IS@G@ = b\n\t\tprintln(s.Sum())")
	add("method|interface as parameter and result", "func pick@G@(a, b IS@G@, first bool) IS@G@ {\n\tif first {\n\t\treturn a\n\t}\n\treturn b\n}\n", "\t\tx, y := &IP@G@{1, 1}, &IP@G@{2, 2}\n\t\tprintln(pick@G@(x, y, true).Sum(), pick@G@(x, y, false).Sum(), pick@G@(x, nil, false) == nil)")
	add("box|value is copied into the interface", "", "\t\tv := IP@G@{1, 2}\n\t\tvar e interface{} = v\n\t\tv.x = 50\n\t\tw := e.(IP@G@)\n\t\tprintln(w.x, v.x)\n\t\tarr := [2]int32{1, 2}\n\t\te = arr\n\t\tarr[0] = 9\n\t\tprintln(e.([2]int32)[0])\n\t\tn := int32(3)\n\t\te = n\n\t\tn = 4\n\t\tprintln(e.(int32), n)")
	add("box|slice and map keep reference semantics", "", "\t\ts := []int32{1, 2}\n\t\tvar e interface{} = s\n\t\ts[0] = 7\n\t\tprintln(e.([]int32)[0])\n\t\tm := map[int32]int32{}\n\t\te = m\n\t\tm[1] = 2\n\t\tprintln(len(e.(map[int32]int32)))")
	add("box|interface in slice, map value and struct field", "type hb@G@ struct{ v interface{} }\n", "\t\txs := []interface{}{int32(1), \"a\", nil, ip@G@, 2.5, true}\n\t\tn := 0\n\t\tfor _, x := range xs {\n\t\t\tif x == nil {\n\t\t\t\tn += 100\n\t\t\t}\n\t\t\tif _, ok := x.(string); ok {\n\t\t\t\tn += 10\n\t\t\t}\n\t\t\tif _, ok := x.(int32); ok {\n\t\t\t\tn++\n\t\t\t}\n\t\t}\n\t\tprintln(n, len(xs))\n\t\tm := map[string]interface{}{\"a\": int32(1), \"b\": \"s\"}\n\t\tv, ok := m[\"a\"].(int32)\n\t\tprintln(v, ok, m[\"c\"] == nil)\n\t\th := hb@G@{uint8(7)}\n\t\tu, ok := h.v.(uint8)\n\t\tprintln(int64(u), ok)")
	add("box|constants default types", "", "\t\tvar e interface{} = 1\n\t\t_, ok1 := e.(int)\n\t\t_, ok2 := e.(int64)\n\t\te = 'x'\n\t\t_, ok3 := e.(rune)\n\t\t_, ok4 := e.(uint8)\n\t\te = 1.5\n\t\t_, ok5 := e.(float64)\n\t\t_, ok6 := e.(float32)\n\t\te = \"s\"\n\t\t_, ok7 := e.(string)\n\t\tprintln(ok1, ok2, ok3, ok4, ok5, ok6, ok7)")
	add("alias identity|rune is int32, byte is uint8", "", "\t\tvar e interface{} = 'x'\n\t\tv, ok := e.(int32)\n\t\tprintln(ok, v)\n\t\te = int32(7)\n\t\tr, ok := e.(rune)\n\t\tprintln(ok, int64(r))\n\t\te = byte(200)\n\t\tu, ok := e.(uint8)\n\t\tprintln(ok, int64(u))\n\t\te = uint8(3)\n\t\tb, ok := e.(byte)\n\t\tprintln(ok, int64(b))\n\t\tswitch e.(type) {\n\t\tcase rune:\n\t\t\tprintln(\"rune\")\n\t\tcase byte:\n\t\t\tprintln(\"byte\")\n\t\t}")
	return f
}
