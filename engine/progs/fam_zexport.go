//go:build go1.21

package progs

// Exported access to the program renderer for other checks that reuse the C01 corpus (C09 renders
// the same programs in the Chinese syntax).

// CaseSpec is one case function: some items of one group.
type CaseSpec struct {
	G     *Group
	Items []int
}

// RenderCases renders the cases as one WaGo program (func Case0 … Case{n-1}); every item's output
// is terminated by the separator line ItemSep.
func RenderCases(cs []CaseSpec) string {
	us := make([]unit, len(cs))
	for i, c := range cs {
		us[i] = unit{c.G, c.Items}
	}
	return render(us)
}

// ItemSep terminates the output of every item.
const ItemSep = sep

// SplitItemOutput cuts a case output into per-item segments; complete = items whose separator was printed.
func SplitItemOutput(out string, n int) (segs []string, complete int, rest string) {
	return splitItems(out, n)
}

// AllFamilies returns every C01 family (the corpus other checks draw from).
func AllFamilies(thorough bool) []Family {
	t := IntTypes
	return []Family{FamIntBinary(t), FamIntUnary(t), FamShift(t), FamIntConv(t), FamFloat(t),
		FamCtrl(thorough), FamFunc(thorough),
		FamDataValue(thorough), FamDataSlice(thorough), FamDataString(thorough), FamDataMap(thorough), FamDataIface(thorough)}
}
